import AsyncVerif.Machines.ExitStack
import AsyncVerif.Proofs.ExitStack
import AsyncVerif.Properties.C14
