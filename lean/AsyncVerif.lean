import AsyncVerif.Machines.ExitStack
import AsyncVerif.Proofs.ExitStack
import AsyncVerif.Properties.C14
import AsyncVerif.Properties.C16
