import AsyncVerif.Machines.ChainObj
import AsyncVerif.Proofs.Cleanup
/-! Helper definitions and lemmas for the `chain` object machine (`Machines/ChainObj.lean`).
    Property theorems live in `Properties/C20ChainObj.lean`. -/
namespace AsyncVerif.ChainObj

/-! ## vocabulary -/

/-- where the generator is relative to the scope of argument `i` -/
def scopeAt (st : State) (i : Nat) : Option Scope := st.status[i]?.map (·.scope)

/-- who invoked `aclose` on (the iterator of) argument `i` so far -/
def closedByAt (st : State) (i : Nat) : Option (List Closer) := st.status[i]?.map (·.closedBy)

/-- no argument's scope is open -/
def NoOpen (st : State) : Prop := ∀ i, scopeAt st i ≠ some .open

/-- invariant of reachable states: the status table covers the arguments, and the scope of
    argument `i` is open exactly when the generator's pc is inside it -/
def Inv (n : Nat) (st : State) : Prop :=
  st.status.length = n ∧ ∀ i, scopeAt st i = some .open ↔ st.pc.current = some i

/-- the close event (if visible) of `ScopedIter.__aexit__` for argument `idx` -/
def scopeCloseEv (a : Arg) (idx : Nat) : List Ev := if a.closeVisible then [.close idx] else []

/-- events of `self._iterator.aclose()` / of a cancellation: the scope the generator is in is left -/
def innerClose (args : List Arg) : Pc → List Ev
  | .suspendedAtYield idx =>
    match args[idx]? with
    | some a => scopeCloseEv a idx
    | none => []
  | _ => []

/-- what `self._iterator.aclose()` awaits, as a `Cleanup.CloseBeh` (`noAclose`: nothing) -/
def innerBeh (args : List Arg) : Pc → Cleanup.CloseBeh
  | .suspendedAtYield idx =>
    match args[idx]? with
    | some a => a.scopeBeh
    | none => .noAclose
  | _ => .noAclose

/-- the `aclose` behaviours of the owned iterators, in the order of `_owned_iterators` -/
def ownedBehs (args : List Arg) (owned : List Nat) : List Cleanup.CloseBeh :=
  owned.filterMap (fun i => args[i]?.map (·.close.toCleanup))

/-- answer of `aclose()` / `cancel` given the exception that leaves (none: `dflt`) -/
def outOf (dflt : Out) : Option ExcId → Out
  | some e => .raised e
  | none => dflt

/-! ## field lemmas of the state updates -/

@[simp] theorem emit_owned (st : State) (e : Ev) : (st.emit e).owned = st.owned := rfl
@[simp] theorem emit_pc (st : State) (e : Ev) : (st.emit e).pc = st.pc := rfl
@[simp] theorem emit_status (st : State) (e : Ev) : (st.emit e).status = st.status := rfl
@[simp] theorem emit_cur (st : State) (e : Ev) : (st.emit e).cur = st.cur := rfl
@[simp] theorem emit_log (st : State) (e : Ev) : (st.emit e).log = st.log ++ [e] := rfl

@[simp] theorem setScope_owned (st : State) (i : Nat) (s : Scope) : (st.setScope i s).owned = st.owned := rfl
@[simp] theorem setScope_pc (st : State) (i : Nat) (s : Scope) : (st.setScope i s).pc = st.pc := rfl
@[simp] theorem setScope_cur (st : State) (i : Nat) (s : Scope) : (st.setScope i s).cur = st.cur := rfl
@[simp] theorem setScope_log (st : State) (i : Nat) (s : Scope) : (st.setScope i s).log = st.log := rfl
@[simp] theorem setScope_len (st : State) (i : Nat) (s : Scope) :
    (st.setScope i s).status.length = st.status.length := by simp [State.setScope]

@[simp] theorem addCloser_owned (st : State) (i : Nat) (c : Closer) : (st.addCloser i c).owned = st.owned := rfl
@[simp] theorem addCloser_pc (st : State) (i : Nat) (c : Closer) : (st.addCloser i c).pc = st.pc := rfl
@[simp] theorem addCloser_cur (st : State) (i : Nat) (c : Closer) : (st.addCloser i c).cur = st.cur := rfl
@[simp] theorem addCloser_log (st : State) (i : Nat) (c : Closer) : (st.addCloser i c).log = st.log := rfl
@[simp] theorem addCloser_len (st : State) (i : Nat) (c : Closer) :
    (st.addCloser i c).status.length = st.status.length := by simp [State.addCloser]

@[simp] theorem scopeAt_emit (st : State) (e : Ev) (j : Nat) : scopeAt (st.emit e) j = scopeAt st j := rfl
@[simp] theorem closedByAt_emit (st : State) (e : Ev) (j : Nat) :
    closedByAt (st.emit e) j = closedByAt st j := rfl

theorem scopeAt_setScope (st : State) (i j : Nat) (s : Scope) :
    scopeAt (st.setScope i s) j = if i = j then (scopeAt st j).map (fun _ => s) else scopeAt st j := by
  simp only [scopeAt, State.setScope, List.getElem?_modify]
  cases st.status[j]? <;> by_cases h : i = j <;> simp [h]

@[simp] theorem closedByAt_setScope (st : State) (i j : Nat) (s : Scope) :
    closedByAt (st.setScope i s) j = closedByAt st j := by
  simp only [closedByAt, State.setScope, List.getElem?_modify]
  cases st.status[j]? <;> by_cases h : i = j <;> simp [h]

@[simp] theorem scopeAt_addCloser (st : State) (i j : Nat) (c : Closer) :
    scopeAt (st.addCloser i c) j = scopeAt st j := by
  simp only [scopeAt, State.addCloser, List.getElem?_modify]
  cases st.status[j]? <;> by_cases h : i = j <;> simp [h]

theorem closedByAt_addCloser (st : State) (i j : Nat) (c : Closer) :
    closedByAt (st.addCloser i c) j
      = if i = j then (closedByAt st j).map (· ++ [c]) else closedByAt st j := by
  simp only [closedByAt, State.addCloser, List.getElem?_modify]
  cases st.status[j]? <;> by_cases h : i = j <;> simp [h]

@[simp] theorem scopeAt_pc (st : State) (p : Pc) (j : Nat) : scopeAt { st with pc := p } j = scopeAt st j := rfl
@[simp] theorem scopeAt_cur (st : State) (c : List Val) (j : Nat) :
    scopeAt { st with cur := c } j = scopeAt st j := rfl
@[simp] theorem closedByAt_pc (st : State) (p : Pc) (j : Nat) :
    closedByAt { st with pc := p } j = closedByAt st j := rfl
@[simp] theorem closedByAt_cur (st : State) (c : List Val) (j : Nat) :
    closedByAt { st with cur := c } j = closedByAt st j := rfl

/-! ## `leaveScope` -/

theorem leaveScope_owned (a : Arg) (idx : Nat) (st : State) : (leaveScope a idx st).1.owned = st.owned := by
  unfold leaveScope; cases a.kind <;> rfl

theorem leaveScope_pc (a : Arg) (idx : Nat) (st : State) : (leaveScope a idx st).1.pc = st.pc := by
  unfold leaveScope; cases a.kind <;> rfl

theorem leaveScope_cur (a : Arg) (idx : Nat) (st : State) : (leaveScope a idx st).1.cur = st.cur := by
  unfold leaveScope; cases a.kind <;> rfl

theorem leaveScope_len (a : Arg) (idx : Nat) (st : State) :
    (leaveScope a idx st).1.status.length = st.status.length := by
  unfold leaveScope; cases a.kind <;> simp

theorem leaveScope_log (a : Arg) (idx : Nat) (st : State) :
    (leaveScope a idx st).1.log = st.log ++ scopeCloseEv a idx := by
  unfold leaveScope scopeCloseEv Arg.closeVisible; cases a.kind <;> simp

theorem leaveScope_exc (a : Arg) (idx : Nat) (st : State) :
    (leaveScope a idx st).2 = a.scopeBeh.exc := by
  unfold leaveScope Arg.scopeBeh
  cases a.kind <;> simp [Cleanup.CloseBeh.exc] <;> cases a.close <;> rfl

theorem leaveScope_scopeAt (a : Arg) (idx : Nat) (st : State) (j : Nat) :
    scopeAt (leaveScope a idx st).1 j
      = if idx = j then (scopeAt st j).map (fun _ => .left) else scopeAt st j := by
  unfold leaveScope; cases a.kind <;> simp [scopeAt_setScope]

theorem leaveScope_closedByAt (a : Arg) (idx : Nat) (st : State) (j : Nat) :
    closedByAt (leaveScope a idx st).1 j
      = if idx = j ∧ a.scopeBeh ≠ .noAclose then (closedByAt st j).map (· ++ [.scope])
        else closedByAt st j := by
  unfold leaveScope Arg.scopeBeh
  cases a.kind <;> simp [closedByAt_addCloser] <;> cases a.close <;> simp [CloseBeh.toCleanup]

theorem leaveScope_noOpen (a : Arg) (idx : Nat) (st : State)
    (h : ∀ i, scopeAt st i = some .open → i = idx) : NoOpen (leaveScope a idx st).1 := by
  intro i hi
  rw [leaveScope_scopeAt] at hi
  by_cases hx : idx = i
  · simp only [hx, if_true] at hi
    cases hs : scopeAt st i <;> simp [hs] at hi
  · simp only [hx, if_false] at hi
    exact hx (h i hi).symm

/-! ## `replyPull` -/

/-- the state in which the scope of `idx` is left after its pull answered StopAsyncIteration -/
def afterEnd (a : Arg) (idx : Nat) (st : State) : State :=
  (leaveScope a idx ((st.emit (.pull idx)).emit (.end_ idx))).1

theorem replyPull_cases (a : Arg) (idx : Nat) (st : State) :
    (∃ v r, replyPull a idx st = ({ (st.emit (.pull idx)).emit (.item v) with cur := r }, .item v))
    ∨ (replyPull a idx st = (afterEnd a idx st, .exhausted) ∧ a.scopeBeh.exc = none)
    ∨ (∃ e, replyPull a idx st = (afterEnd a idx st, .failed e) ∧ a.scopeBeh.exc = some e) := by
  unfold replyPull afterEnd
  dsimp only
  split
  · exact Or.inl ⟨_, _, rfl⟩
  · right
    have hx := leaveScope_exc a idx ((st.emit (.pull idx)).emit (.end_ idx))
    split
    · rename_i st' e heq
      right
      refine ⟨e, ?_, ?_⟩
      · rw [heq]
      · rw [← hx, heq]
    · rename_i st' heq
      left
      refine ⟨?_, ?_⟩
      · rw [heq]
      · rw [← hx, heq]

theorem afterEnd_owned (a : Arg) (idx : Nat) (st : State) : (afterEnd a idx st).owned = st.owned := by
  simp [afterEnd, leaveScope_owned]

theorem afterEnd_pc (a : Arg) (idx : Nat) (st : State) : (afterEnd a idx st).pc = st.pc := by
  simp [afterEnd, leaveScope_pc]

theorem afterEnd_len (a : Arg) (idx : Nat) (st : State) :
    (afterEnd a idx st).status.length = st.status.length := by
  simp [afterEnd, leaveScope_len]

theorem afterEnd_noOpen (a : Arg) (idx : Nat) (st : State)
    (h : ∀ i, scopeAt st i = some .open → i = idx) : NoOpen (afterEnd a idx st) := by
  apply leaveScope_noOpen
  simpa using h

theorem replyPull_owned (a : Arg) (idx : Nat) (st : State) : (replyPull a idx st).1.owned = st.owned := by
  rcases replyPull_cases a idx st with ⟨v, r, h⟩ | ⟨h, -⟩ | ⟨e, h, -⟩ <;> rw [h]
  · rfl
  · exact afterEnd_owned a idx st
  · exact afterEnd_owned a idx st

/-! ## `advance` -/

theorem advance_owned (rest : List Arg) (idx : Nat) (st : State) :
    (advance rest idx st).1.owned = st.owned := by
  induction rest generalizing idx st with
  | nil => rfl
  | cons a rest ih =>
    unfold advance
    dsimp only
    split
    · rfl
    · have ho := replyPull_owned a idx { st.setScope idx .open with cur := a.items }
      split
      · rename_i heq; rw [heq] at ho; exact ho
      · rename_i heq; rw [heq] at ho; exact ho
      · rename_i heq; rw [heq] at ho; rw [ih]; exact ho

theorem noOpen_inv (n : Nat) (st : State) (hn : st.status.length = n) (h : NoOpen st)
    (hpc : st.pc.current = none) : Inv n st := by
  refine ⟨hn, fun i => ⟨fun hi => absurd hi (h i), fun hi => ?_⟩⟩
  rw [hpc] at hi; cases hi

theorem inv_noOpen (n : Nat) (st : State) (h : Inv n st) (hpc : st.pc.current = none) : NoOpen st := by
  intro i hi
  have := (h.2 i).mp hi
  rw [hpc] at this; cases this

theorem inv_onlyOpen (n : Nat) (st : State) (h : Inv n st) (idx : Nat) (hpc : st.pc.current = some idx) :
    ∀ i, scopeAt st i = some .open → i = idx := by
  intro i hi
  have := (h.2 i).mp hi
  rw [hpc] at this; cases this; rfl

/-- the invariant for a state whose only open scope is `idx`, once the pc is put there -/
theorem inv_at (n : Nat) (st : State) (idx : Nat) (hn : st.status.length = n)
    (ho : scopeAt st idx = some .open) (h : ∀ i, scopeAt st i = some .open → i = idx)
    (p : Pc) (hp : p.current = some idx) : Inv n { st with pc := p } := by
  refine ⟨hn, fun i => ?_⟩
  simp only [scopeAt_pc, hp]
  constructor
  · intro hi; rw [h i hi]
  · intro hi; cases hi; exact ho

theorem advance_inv (n : Nat) (rest : List Arg) (idx : Nat) (st : State)
    (hn : st.status.length = n) (hi : idx + rest.length = n) (h : NoOpen st) :
    Inv n (advance rest idx st).1 := by
  induction rest generalizing idx st with
  | nil =>
    show Inv n { st with pc := .done }
    exact noOpen_inv n _ hn (fun i => h i) rfl
  | cons a rest ih =>
    have hlt : idx < st.status.length := by simp at hi; omega
    let st1 : State := { st.setScope idx .open with cur := a.items }
    have hn1 : st1.status.length = n := by simp [st1, hn]
    have ho1 : scopeAt st1 idx = some .open := by
      show scopeAt (st.setScope idx .open) idx = some .open
      rw [scopeAt_setScope]
      simp [scopeAt, List.getElem?_eq_getElem hlt]
    have hon1 : ∀ i, scopeAt st1 i = some .open → i = idx := by
      intro i hi'
      simp only [st1, scopeAt_cur, scopeAt_setScope] at hi'
      by_cases hx : idx = i
      · exact hx.symm
      · simp only [hx, if_false] at hi'; exact absurd hi' (h i)
    unfold advance
    dsimp only
    split
    · exact inv_at n st1 idx hn1 ho1 hon1 _ rfl
    · rcases replyPull_cases a idx st1 with ⟨v, r, hr⟩ | ⟨hr, -⟩ | ⟨e, hr, -⟩
      · rw [show ({ st.setScope idx .open with cur := a.items } : State) = st1 from rfl, hr]
        dsimp only
        apply inv_at n _ idx
        · simpa using hn1
        · simpa using ho1
        · simpa using hon1
        · rfl
      · rw [show ({ st.setScope idx .open with cur := a.items } : State) = st1 from rfl, hr]
        dsimp only
        apply ih
        · rw [afterEnd_len]; exact hn1
        · simp at hi ⊢; omega
        · exact afterEnd_noOpen a idx st1 hon1
      · rw [show ({ st.setScope idx .open with cur := a.items } : State) = st1 from rfl, hr]
        dsimp only
        apply noOpen_inv n
        · show (afterEnd a idx st1).status.length = n
          rw [afterEnd_len]; exact hn1
        · exact afterEnd_noOpen a idx st1 hon1
        · rfl

/-! ## `continuePull`, `next` -/

theorem continuePull_owned (args : List Arg) (a : Arg) (idx k : Nat) (st : State) :
    (continuePull args a idx k st).1.owned = st.owned := by
  unfold continuePull
  split
  · rfl
  · have ho := replyPull_owned a idx st
    split
    · rename_i heq; rw [heq] at ho; exact ho
    · rename_i heq; rw [heq] at ho; exact ho
    · rename_i heq; rw [heq] at ho; rw [advance_owned]; exact ho

theorem continuePull_inv (args : List Arg) (a : Arg) (idx k : Nat) (st : State)
    (h : Inv args.length st) (hpc : st.pc.current = some idx) (ha : idx < args.length) :
    Inv args.length (continuePull args a idx k st).1 := by
  have ho : scopeAt st idx = some .open := (h.2 idx).mpr hpc
  have hon := inv_onlyOpen _ st h idx hpc
  unfold continuePull
  split
  · exact inv_at _ st idx h.1 ho hon _ rfl
  · rcases replyPull_cases a idx st with ⟨v, r, hr⟩ | ⟨hr, -⟩ | ⟨e, hr, -⟩
    · rw [hr]
      dsimp only
      apply inv_at _ _ idx
      · simpa using h.1
      · simpa using ho
      · simpa using hon
      · rfl
    · rw [hr]
      dsimp only
      apply advance_inv
      · rw [afterEnd_len]; exact h.1
      · simp; omega
      · exact afterEnd_noOpen a idx st hon
    · rw [hr]
      dsimp only
      apply noOpen_inv
      · show (afterEnd a idx st).status.length = _
        rw [afterEnd_len]; exact h.1
      · exact afterEnd_noOpen a idx st hon
      · rfl

theorem next_owned (args : List Arg) (st : State) : (next args st).1.owned = st.owned := by
  unfold next
  split
  · rfl
  · exact advance_owned _ _ _
  · split
    · exact continuePull_owned _ _ _ _ _
    · rfl
  · split
    · exact continuePull_owned _ _ _ _ _
    · rfl

theorem getElem?_some_lt {α : Type} (l : List α) (i : Nat) (a : α) (h : l[i]? = some a) : i < l.length := by
  by_cases hlt : i < l.length
  · exact hlt
  · rw [List.getElem?_eq_none (by omega)] at h; cases h

theorem next_inv (args : List Arg) (st : State) (h : Inv args.length st) :
    Inv args.length (next args st).1 := by
  unfold next
  split
  · exact h
  · rename_i hpc
    apply advance_inv _ _ _ _ h.1 (by simp)
    exact inv_noOpen _ st h (by rw [hpc]; rfl)
  · rename_i idx hpc
    split
    · rename_i a ha
      exact continuePull_inv args a idx 0 st h (by rw [hpc]; rfl) (getElem?_some_lt _ _ _ ha)
    · exact h
  · rename_i idx k hpc
    split
    · rename_i a ha
      exact continuePull_inv args a idx k st h (by rw [hpc]; rfl) (getElem?_some_lt _ _ _ ha)
    · exact h

/-! ## `closeOwned` = `close_all(self._owned_iterators)` -/

theorem closeOne_owned (args : List Arg) (sf : State × Option ExcId) (i : Nat) :
    (closeOne args sf i).1.owned = sf.1.owned := by
  unfold closeOne; split <;> rfl

theorem closeOne_pc (args : List Arg) (sf : State × Option ExcId) (i : Nat) :
    (closeOne args sf i).1.pc = sf.1.pc := by
  unfold closeOne; split <;> rfl

theorem closeOne_cur (args : List Arg) (sf : State × Option ExcId) (i : Nat) :
    (closeOne args sf i).1.cur = sf.1.cur := by
  unfold closeOne; split <;> rfl

theorem closeOne_len (args : List Arg) (sf : State × Option ExcId) (i : Nat) :
    (closeOne args sf i).1.status.length = sf.1.status.length := by
  unfold closeOne; split <;> simp

theorem closeOne_scopeAt (args : List Arg) (sf : State × Option ExcId) (i j : Nat) :
    scopeAt (closeOne args sf i).1 j = scopeAt sf.1 j := by
  unfold closeOne; split <;> simp

theorem foldl_closeOne_pres (args : List Arg) {β : Type} (f : State → β)
    (hf : ∀ sf i, f (closeOne args sf i).1 = f sf.1) (l : List Nat) (sf : State × Option ExcId) :
    f (l.foldl (closeOne args) sf).1 = f sf.1 := by
  induction l generalizing sf with
  | nil => rfl
  | cons i l ih => rw [List.foldl_cons, ih, hf]

theorem closeOwned_owned (args : List Arg) (l : List Nat) (st : State) :
    (closeOwned args l st).1.owned = st.owned :=
  foldl_closeOne_pres args (·.owned) (closeOne_owned args) l _

theorem closeOwned_pc (args : List Arg) (l : List Nat) (st : State) :
    (closeOwned args l st).1.pc = st.pc :=
  foldl_closeOne_pres args (·.pc) (closeOne_pc args) l _

theorem closeOwned_cur (args : List Arg) (l : List Nat) (st : State) :
    (closeOwned args l st).1.cur = st.cur :=
  foldl_closeOne_pres args (·.cur) (closeOne_cur args) l _

theorem closeOwned_len (args : List Arg) (l : List Nat) (st : State) :
    (closeOwned args l st).1.status.length = st.status.length :=
  foldl_closeOne_pres args (·.status.length) (closeOne_len args) l _

theorem closeOwned_scopeAt (args : List Arg) (l : List Nat) (st : State) (j : Nat) :
    scopeAt (closeOwned args l st).1 j = scopeAt st j :=
  foldl_closeOne_pres args (scopeAt · j) (fun sf i => closeOne_scopeAt args sf i j) l _

theorem closeOwned_inv (n : Nat) (args : List Arg) (l : List Nat) (st : State) (h : Inv n st) :
    Inv n (closeOwned args l st).1 := by
  refine ⟨by rw [closeOwned_len]; exact h.1, fun i => ?_⟩
  rw [closeOwned_scopeAt, closeOwned_pc]; exact h.2 i

theorem foldl_closeOne_log (args : List Arg) (l : List Nat) (sf : State × Option ExcId)
    (h : ∀ i ∈ l, i < args.length) :
    (l.foldl (closeOne args) sf).1.log = sf.1.log ++ l.map Ev.close := by
  induction l generalizing sf with
  | nil => simp
  | cons i l ih =>
    have hi : i < args.length := h i (by simp)
    rw [List.foldl_cons, ih _ (fun j hj => h j (by simp [hj]))]
    simp [closeOne, List.getElem?_eq_getElem hi]

theorem closeOwned_log (args : List Arg) (l : List Nat) (st : State) (h : ∀ i ∈ l, i < args.length) :
    (closeOwned args l st).1.log = st.log ++ l.map Ev.close :=
  foldl_closeOne_log args l _ h

theorem lastFailure_cons (b : Cleanup.CloseBeh) (bs : List Cleanup.CloseBeh) :
    Cleanup.lastFailure (b :: bs) = Cleanup.replaceBy (Cleanup.lastFailure bs) b.exc := by
  unfold Cleanup.lastFailure Cleanup.replaceBy
  cases hb : b.exc with
  | none =>
    simp only [List.filterMap_cons, hb]
    cases (List.filterMap Cleanup.CloseBeh.exc bs).getLast? <;> rfl
  | some e =>
    simp only [List.filterMap_cons, hb, List.getLast?_cons]
    cases (List.filterMap Cleanup.CloseBeh.exc bs).getLast? <;> rfl

theorem toCleanup_exc (c : CloseBeh) : c.toCleanup.exc = c.exc := by cases c <;> rfl

theorem foldl_closeOne_failure (args : List Arg) (l : List Nat) (sf : State × Option ExcId) :
    (l.foldl (closeOne args) sf).2 = Cleanup.replaceBy (Cleanup.lastFailure (ownedBehs args l)) sf.2 := by
  induction l generalizing sf with
  | nil => rfl
  | cons i l ih =>
    rw [List.foldl_cons, ih]
    unfold ownedBehs closeOne
    cases ha : args[i]? with
    | none => simp [ha]
    | some a =>
      simp only [List.filterMap_cons, ha, Option.map_some]
      rw [lastFailure_cons, Cleanup.replaceBy_assoc, toCleanup_exc]

/-- the `failure` of `close_all(owned)` is what `Machines/Cleanup.lean`'s `closeAllRobust` raises -/
theorem closeOwned_failure (args : List Arg) (l : List Nat) (st : State) :
    (closeOwned args l st).2 = (Cleanup.closeAllRobust (ownedBehs args l)).2 := by
  unfold closeOwned
  rw [foldl_closeOne_failure, Cleanup.closeAllRobust_closed, Cleanup.replaceBy_none_right]

theorem foldl_closeOne_closedByAt (args : List Arg) (l : List Nat) (sf : State × Option ExcId)
    (h : ∀ i ∈ l, i < args.length) (j : Nat) :
    closedByAt (l.foldl (closeOne args) sf).1 j
      = (closedByAt sf.1 j).map (· ++ List.replicate (l.count j) .owner) := by
  induction l generalizing sf with
  | nil => simp
  | cons i l ih =>
    have hi : i < args.length := h i (by simp)
    rw [List.foldl_cons, ih _ (fun j hj => h j (by simp [hj]))]
    simp only [closeOne, List.getElem?_eq_getElem hi, closedByAt_emit, closedByAt_addCloser]
    by_cases hx : i = j
    · subst hx
      cases closedByAt sf.1 i <;> simp [List.replicate_succ]
    ·       simp [hx]

theorem closeOwned_closedByAt (args : List Arg) (l : List Nat) (st : State)
    (h : ∀ i ∈ l, i < args.length) (j : Nat) :
    closedByAt (closeOwned args l st).1 j
      = (closedByAt st j).map (· ++ List.replicate (l.count j) .owner) :=
  foldl_closeOne_closedByAt args l _ h j

theorem lastFailure_snoc (bs : List Cleanup.CloseBeh) (b : Cleanup.CloseBeh) :
    Cleanup.lastFailure (bs ++ [b]) = Cleanup.replaceBy b.exc (Cleanup.lastFailure bs) := by
  unfold Cleanup.lastFailure Cleanup.replaceBy
  rw [List.filterMap_append]
  cases hb : b.exc with
  | none => simp [hb]
  | some e => simp [hb]

/-! ## `genAclose`, `aclose` -/

/-- result of `self._iterator.aclose()` given the exception leaving the generator -/
def genCloseOf : Option ExcId → GenClose
  | some e => .raised e
  | none => .ok

theorem genAclose_running (args : List Arg) (st : State) (h : st.pc.running = true) :
    genAclose args st = (st, .busy) := by
  unfold genAclose
  cases hpc : st.pc <;> simp [hpc, Pc.running] at h ⊢

/-- `self._iterator.aclose()` while the generator is not running -/
theorem genAclose_idle (args : List Arg) (st : State) (h : st.pc.running = false)
    (hin : ∀ idx, st.pc = .suspendedAtYield idx → idx < args.length) :
    (genAclose args st).1.pc = .done
    ∧ (genAclose args st).1.log = st.log ++ innerClose args st.pc
    ∧ (genAclose args st).2 = genCloseOf (innerBeh args st.pc).exc
    ∧ (genAclose args st).1.owned = st.owned
    ∧ (genAclose args st).1.status.length = st.status.length
    ∧ (∀ j, closedByAt (genAclose args st).1 j
        = if st.pc = .suspendedAtYield j ∧ innerBeh args st.pc ≠ .noAclose
          then (closedByAt st j).map (· ++ [.scope]) else closedByAt st j)
    ∧ ((∀ i, scopeAt st i = some .open → st.pc.current = some i) → NoOpen (genAclose args st).1) := by
  unfold genAclose
  cases hpc : st.pc with
  | unstarted =>
    refine ⟨rfl, by simp [innerClose], rfl, rfl, rfl, fun j => by simp, fun ho i hi => ?_⟩
    have := ho i hi; cases this
  | done =>
    refine ⟨hpc, by simp [innerClose], rfl, rfl, rfl, fun j => by simp, fun ho i hi => ?_⟩
    have := ho i hi; cases this
  | runningInPull idx k => simp [hpc, Pc.running] at h
  | suspendedAtYield idx =>
    have hlt := hin idx hpc
    simp only [innerClose, innerBeh, List.getElem?_eq_getElem hlt]
    have hx := leaveScope_exc args[idx] idx st
    have hl := leaveScope_log args[idx] idx st
    have ho := leaveScope_owned args[idx] idx st
    have hn := leaveScope_len args[idx] idx st
    have hc := fun j => leaveScope_closedByAt args[idx] idx st j
    have hno := leaveScope_noOpen args[idx] idx st
    have key : ∀ j, (Pc.suspendedAtYield idx = Pc.suspendedAtYield j ∧ args[idx].scopeBeh ≠ .noAclose)
        ↔ (idx = j ∧ args[idx].scopeBeh ≠ .noAclose) := by
      intro j; constructor
      · rintro ⟨h1, h2⟩; cases h1; exact ⟨rfl, h2⟩
      · rintro ⟨h1, h2⟩; cases h1; exact ⟨rfl, h2⟩
    split
    · rename_i st' e heq
      rw [heq] at hx hl ho hn hc hno
      refine ⟨rfl, hl, by rw [← hx]; rfl, ho, hn, fun j => ?_, fun hopen => ?_⟩
      · rw [show closedByAt { st' with pc := Pc.done } j = closedByAt st' j from rfl, hc j]
        simp only [key]
      · apply hno
        intro i hi; have := hopen i hi; cases this; rfl
    · rename_i st' heq
      rw [heq] at hx hl ho hn hc hno
      refine ⟨rfl, hl, by rw [← hx]; rfl, ho, hn, fun j => ?_, fun hopen => ?_⟩
      · rw [show closedByAt { st' with pc := Pc.done } j = closedByAt st' j from rfl, hc j]
        simp only [key]
      · apply hno
        intro i hi; have := hopen i hi; cases this; rfl

theorem genAclose_owned (args : List Arg) (st : State) : (genAclose args st).1.owned = st.owned := by
  unfold genAclose
  cases st.pc with
  | unstarted => rfl
  | done => rfl
  | runningInPull idx k => rfl
  | suspendedAtYield idx =>
    dsimp only
    cases args[idx]? with
    | none => rfl
    | some a =>
      dsimp only
      have ho := leaveScope_owned a idx st
      split <;> (rename_i heq; rw [heq] at ho; exact ho)

theorem genAclose_inv (args : List Arg) (st : State) (h : Inv args.length st) :
    Inv args.length (genAclose args st).1 := by
  cases hr : st.pc.running with
  | true => rw [genAclose_running args st hr]; exact h
  | false =>
    have hin : ∀ idx, st.pc = .suspendedAtYield idx → idx < args.length := by
      intro idx hpc
      have : scopeAt st idx = some .open := (h.2 idx).mpr (by rw [hpc]; rfl)
      unfold scopeAt at this
      cases hs : st.status[idx]? with
      | none => rw [hs] at this; cases this
      | some s => rw [← h.1]; exact getElem?_some_lt _ _ _ hs
    obtain ⟨h1, -, -, -, h5, -, h7⟩ := genAclose_idle args st hr hin
    apply noOpen_inv
    · rw [h5]; exact h.1
    · exact h7 (fun i hi => (h.2 i).mp hi)
    · rw [h1]; rfl

theorem aclose_owned (args : List Arg) (st : State) : (aclose args st).1.owned = st.owned := by
  unfold aclose
  have h := genAclose_owned args (closeOwned args st.owned st).1
  rw [closeOwned_owned] at h
  dsimp only
  split <;> (rename_i heq; rw [heq] at h; exact h)

theorem aclose_fst (args : List Arg) (st : State) :
    (aclose args st).1 = (genAclose args (closeOwned args st.owned st).1).1 := by
  unfold aclose
  dsimp only
  split <;> (rename_i heq; rw [heq])

theorem aclose_inv (args : List Arg) (st : State) (h : Inv args.length st) :
    Inv args.length (aclose args st).1 := by
  rw [aclose_fst]
  exact genAclose_inv args _ (closeOwned_inv _ args _ st h)

/-- `chain.aclose()` while the generator is running: `close_all(owned)` ran, then RuntimeError -/
theorem aclose_running (args : List Arg) (st : State) (h : st.pc.running = true) :
    aclose args st = ((closeOwned args st.owned st).1, .busy) := by
  unfold aclose
  dsimp only
  rw [genAclose_running args _ (by rw [closeOwned_pc]; exact h)]

theorem aclose_snd_idle (args : List Arg) (st : State) (h : st.pc.running = false)
    (hin : ∀ idx, st.pc = .suspendedAtYield idx → idx < args.length) :
    (aclose args st).2
      = outOf .closed (Cleanup.closeAllRobust (ownedBehs args st.owned ++ [innerBeh args st.pc])).2 := by
  have hg := (genAclose_idle args (closeOwned args st.owned st).1
    (by rw [closeOwned_pc]; exact h) (by rw [closeOwned_pc]; exact hin)).2.2.1
  rw [closeOwned_pc] at hg
  rw [Cleanup.closeAllRobust_closed]
  dsimp only
  rw [lastFailure_snoc]
  have hf := closeOwned_failure args st.owned st
  rw [Cleanup.closeAllRobust_closed] at hf
  change (closeOwned args st.owned st).2 = Cleanup.lastFailure (ownedBehs args st.owned) at hf
  unfold aclose
  dsimp only
  split
  · rename_i heq; rw [heq] at hg
    cases hb : (innerBeh args st.pc).exc <;> rw [hb] at hg <;> cases hg
  · rename_i st' e heq; rw [heq] at hg
    cases hb : (innerBeh args st.pc).exc with
    | none => rw [hb] at hg; cases hg
    | some e' => rw [hb] at hg; cases hg; rfl
  · rename_i st' heq; rw [heq] at hg
    cases hb : (innerBeh args st.pc).exc with
    | some e' => rw [hb] at hg; cases hg
    | none =>
      rw [hf]
      cases Cleanup.lastFailure (ownedBehs args st.owned) <;> rfl

/-! ## `cancel` -/

theorem cancel_idle (args : List Arg) (st : State) (h : st.pc.running = false) :
    cancel args st = (st, .idle) := by
  unfold cancel
  cases hpc : st.pc <;> simp [hpc, Pc.running] at h ⊢

theorem cancel_running (args : List Arg) (st : State) (idx k : Nat) (a : Arg)
    (hpc : st.pc = .runningInPull idx k) (ha : args[idx]? = some a) :
    cancel args st
      = ({ (leaveScope a idx st).1 with pc := .done }, outOf .cancelled a.scopeBeh.exc) := by
  unfold cancel
  rw [hpc]
  dsimp only
  rw [ha]
  dsimp only
  have hx := leaveScope_exc a idx st
  split
  · rename_i heq; rw [heq] at hx; rw [heq, ← hx]; rfl
  · rename_i heq; rw [heq] at hx; rw [heq, ← hx]; rfl

theorem cancel_owned (args : List Arg) (st : State) : (cancel args st).1.owned = st.owned := by
  cases hr : st.pc.running with
  | false => rw [cancel_idle args st hr]
  | true =>
    cases hpc : st.pc with
    | runningInPull idx k =>
      cases ha : args[idx]? with
      | some a => rw [cancel_running args st idx k a hpc ha]; exact leaveScope_owned a idx st
      | none => unfold cancel; rw [hpc]; dsimp only; rw [ha]
    | _ => rw [hpc] at hr; cases hr

theorem cancel_inv (args : List Arg) (st : State) (h : Inv args.length st) :
    Inv args.length (cancel args st).1 := by
  cases hr : st.pc.running with
  | false => rw [cancel_idle args st hr]; exact h
  | true =>
    cases hpc : st.pc with
    | runningInPull idx k =>
      have hon := inv_onlyOpen _ st h idx (by rw [hpc]; rfl)
      have ho : scopeAt st idx = some .open := (h.2 idx).mpr (by rw [hpc]; rfl)
      have hlt : idx < args.length := by
        unfold scopeAt at ho
        cases hs : st.status[idx]? with
        | none => rw [hs] at ho; cases ho
        | some s => rw [← h.1]; exact getElem?_some_lt _ _ _ hs
      rw [cancel_running args st idx k args[idx] hpc (List.getElem?_eq_getElem hlt)]
      apply noOpen_inv
      · show (leaveScope args[idx] idx st).1.status.length = _
        rw [leaveScope_len]; exact h.1
      · exact leaveScope_noOpen _ idx st hon
      · rfl
    | _ => rw [hpc] at hr; cases hr

/-! ## `step`, `run`, `init` -/

theorem step_owned (args : List Arg) (st : State) (op : Op) : (step args st op).1.owned = st.owned := by
  cases op
  · exact next_owned args st
  · exact aclose_owned args st
  · exact aclose_owned args st
  · exact cancel_owned args st

theorem step_inv (args : List Arg) (st : State) (op : Op) (h : Inv args.length st) :
    Inv args.length (step args st op).1 := by
  cases op
  · exact next_inv args st h
  · exact aclose_inv args st h
  · exact aclose_inv args st h
  · exact cancel_inv args st h

theorem run_owned (args : List Arg) (st : State) (ops : List Op) : (run args st ops).1.owned = st.owned := by
  induction ops generalizing st with
  | nil => rfl
  | cons op ops ih =>
    show (run args (step args st op).1 ops).1.owned = _
    rw [ih, step_owned]

theorem run_inv (args : List Arg) (st : State) (ops : List Op) (h : Inv args.length st) :
    Inv args.length (run args st ops).1 := by
  induction ops generalizing st with
  | nil => exact h
  | cons op ops ih => exact ih _ (step_inv args st op h)

theorem init_inv (mode : Mode) (args : List Arg) : Inv args.length (init mode args) := by
  apply noOpen_inv
  · simp [init]
  · intro i hi
    simp only [scopeAt, init, List.getElem?_replicate] at hi
    split at hi <;> simp at hi
  · rfl

theorem reach_inv (mode : Mode) (args : List Arg) (ops : List Op) : Inv args.length (reach mode args ops) :=
  run_inv args _ ops (init_inv mode args)

theorem reach_owned (mode : Mode) (args : List Arg) (ops : List Op) :
    (reach mode args ops).owned = ownedOf mode args :=
  run_owned args _ ops

theorem mem_ownedOf (mode : Mode) (args : List Arg) (i : Nat) :
    i ∈ ownedOf mode args ↔ mode = .positional ∧ ∃ a, args[i]? = some a ∧ a.ownable = true := by
  cases mode with
  | fromIterable => simp [ownedOf]
  | positional =>
    simp only [ownedOf, List.mem_map, List.mem_filter, true_and]
    constructor
    · rintro ⟨⟨a, j⟩, ⟨hm, ho⟩, rfl⟩
      exact ⟨a, List.mk_mem_zipIdx_iff_getElem?.mp hm, ho⟩
    · rintro ⟨a, ha, ho⟩
      exact ⟨(a, i), ⟨List.mk_mem_zipIdx_iff_getElem?.mpr ha, ho⟩, rfl⟩

theorem ownedOf_pairwise (mode : Mode) (args : List Arg) : (ownedOf mode args).Pairwise (· < ·) := by
  cases mode with
  | fromIterable => simp [ownedOf]
  | positional =>
    have hsub : ((args.zipIdx.filter (·.1.ownable)).map (·.2)).Sublist (args.zipIdx.map (·.2)) :=
      List.Sublist.map _ List.filter_sublist
    rw [List.zipIdx_map_snd] at hsub
    exact List.Pairwise.sublist hsub (List.pairwise_lt_range' 1)

theorem ownedOf_lt (mode : Mode) (args : List Arg) : ∀ i ∈ ownedOf mode args, i < args.length := by
  intro i hi
  obtain ⟨-, a, ha, -⟩ := (mem_ownedOf mode args i).mp hi
  exact getElem?_some_lt _ _ _ ha

theorem ownedOf_length_le (mode : Mode) (args : List Arg) : (ownedOf mode args).length ≤ args.length := by
  cases mode with
  | fromIterable => simp [ownedOf]
  | positional =>
    simp only [ownedOf, List.length_map]
    exact Nat.le_trans (List.length_filter_le _ _) (by simp)

theorem ownedOf_kinds (mode : Mode) (args args' : List Arg) (h : args.map (·.kind) = args'.map (·.kind)) :
    ownedOf mode args = ownedOf mode args' := by
  cases mode with
  | fromIterable => rfl
  | positional =>
    simp only [ownedOf]
    suffices ∀ k, ((args.zipIdx k).filter (·.1.ownable)).map (·.2)
        = ((args'.zipIdx k).filter (·.1.ownable)).map (·.2) from this 0
    induction args generalizing args' with
    | nil =>
      cases args' with
      | nil => intro k; rfl
      | cons b bs => simp at h
    | cons a as ih =>
      cases args' with
      | nil => simp at h
      | cons b bs =>
        simp only [List.map_cons, List.cons.injEq] at h
        intro k
        have hab : a.ownable = b.ownable := by simp [Arg.ownable, h.1]
        simp only [List.zipIdx_cons, List.filter_cons, hab]
        split
        · simp only [List.map_cons, ih bs h.2 (k + 1)]
        · exact ih bs h.2 (k + 1)

/-- the invariant gives: the argument the pc points into exists -/
theorem inv_current_lt (n : Nat) (st : State) (h : Inv n st) (idx : Nat) (hpc : st.pc.current = some idx) :
    idx < n := by
  have ho : scopeAt st idx = some .open := (h.2 idx).mpr hpc
  unfold scopeAt at ho
  cases hs : st.status[idx]? with
  | none => rw [hs] at ho; cases ho
  | some s => rw [← h.1]; exact getElem?_some_lt _ _ _ hs

/-- at most one element of a list satisfies `p` if all such elements sit at the same position -/
theorem countP_le_one_of_unique {α : Type} (p : α → Bool) (l : List α) (k : Nat)
    (h : ∀ i a, l[i]? = some a → p a = true → i = k) : l.countP p ≤ 1 := by
  induction l generalizing k with
  | nil => simp
  | cons x xs ih =>
    rw [List.countP_cons]
    by_cases hx : p x = true
    · have hk : k = 0 := (h 0 x (by simp) hx).symm
      subst hk
      have hz : xs.countP p = 0 := by
        rw [List.countP_eq_zero]
        intro a ha hpa
        obtain ⟨i, hi⟩ := List.mem_iff_getElem?.mp ha
        have := h (i + 1) a (by simpa using hi) hpa
        omega
      simp [hx, hz]
    · simp only [hx, Bool.false_eq_true, if_false, Nat.add_zero]
      apply ih (k - 1)
      intro i a hi hpa
      have := h (i + 1) a (by simpa using hi) hpa
      omega

theorem ownedBehs_length (args : List Arg) (l : List Nat) (h : ∀ i ∈ l, i < args.length) :
    (ownedBehs args l).length = l.length := by
  induction l with
  | nil => rfl
  | cons i l ih =>
    have hi : i < args.length := h i (by simp)
    simp only [ownedBehs, List.filterMap_cons, List.getElem?_eq_getElem hi, Option.map_some,
      List.length_cons]
    exact congrArg (· + 1) (ih (fun j hj => h j (by simp [hj])))

/-- `await chain.aclose()` on a state satisfying the invariant while the generator is not running -/
theorem aclose_idle (args : List Arg) (st : State) (hinv : Inv args.length st)
    (hown : ∀ i ∈ st.owned, i < args.length) (hnd : st.owned.Nodup) (hidle : st.pc.running = false) :
    (aclose args st).1.log = st.log ++ st.owned.map Ev.close ++ innerClose args st.pc
    ∧ (aclose args st).1.pc = .done
    ∧ NoOpen (aclose args st).1
    ∧ (∀ j, closedByAt (aclose args st).1 j
        = (closedByAt st j).map (fun l => l ++ (if j ∈ st.owned then [Closer.owner] else [])
            ++ (if st.pc = .suspendedAtYield j ∧ innerBeh args st.pc ≠ .noAclose
                then [Closer.scope] else [])))
    ∧ (aclose args st).2
        = outOf .closed (Cleanup.closeAllRobust (ownedBehs args st.owned ++ [innerBeh args st.pc])).2 := by
  have hin : ∀ idx, st.pc = .suspendedAtYield idx → idx < args.length :=
    fun idx hpc => inv_current_lt _ st hinv idx (by rw [hpc]; rfl)
  have hinv' := closeOwned_inv _ args st.owned st hinv
  obtain ⟨h1, h2, -, -, -, h6, h7⟩ := genAclose_idle args (closeOwned args st.owned st).1
    (by rw [closeOwned_pc]; exact hidle) (by rw [closeOwned_pc]; exact hin)
  rw [closeOwned_pc] at h2 h6
  rw [closeOwned_log args _ st hown] at h2
  refine ⟨by rw [aclose_fst]; exact h2, by rw [aclose_fst]; exact h1, ?_, fun j => ?_,
    aclose_snd_idle args st hidle hin⟩
  · rw [aclose_fst]; exact h7 (fun i hi => (hinv'.2 i).mp hi)
  · rw [aclose_fst, h6 j, closeOwned_closedByAt args _ st hown j, hnd.count]
    cases closedByAt st j with
    | none => simp
    | some l =>
      by_cases hc : st.pc = .suspendedAtYield j ∧ innerBeh args st.pc ≠ .noAclose
      · rw [if_pos hc, if_pos hc]
        by_cases hm : j ∈ st.owned <;> simp [hm]
      · rw [if_neg hc, if_neg hc]
        by_cases hm : j ∈ st.owned <;> simp [hm]

end AsyncVerif.ChainObj
