import AsyncVerif.Proofs.Core
import AsyncVerif.Std.ListSpec
import AsyncVerif.Impl.Aggregations
/-!
# Value lemmas (C01): what the twins yield in a fault-free world with an exhausting consumer

Style: every lemma has the shape "in a world satisfying `Env F w` (callables `F`, exhausting consumer)
where source `s` still holds `items`, the program returns … and leaves a world `w'` with `Env F w'`,
the sources it did not touch unchanged, and `yields w'.vis = yields w.vis ++ …`".  The step lemmas for
the primitives (`pull_cons`, `pull_nil`, `call_pure`, `yieldV_ok`) are proved once; the loops are
inductions on the item list.
-/
namespace AsyncVerif.V1

@[simp] theorem yields_nil' : yields [] = [] := rfl

/-- the part of the world no primitive changes in a fault-free exhausting run -/
structure Env (F : Nat → FnBeh) (w : World) : Prop where
  fns : w.fns = F
  cons : w.cons = .run 0 .exhaust

/-- a source that will deliver exactly `items` and then end (an ended source holds `[]`) -/
def Has (x : Src) (items : List Val) : Prop :=
  x.script = items.map Resp.item ∧ (items ≠ [] → x.status.live = true)

theorem _root_.AsyncVerif.FeedsL.has {w : World} {s : Nat} {items : List Val} (h : FeedsL w s items) : Has (w.srcs s) items :=
  ⟨h.1, fun _ => h.2⟩

theorem pull_cons {F : Nat → FnBeh} {s : Nat} {x : Val} {xs : List Val} {w : World}
    (he : Env F w) (hs : Has (w.srcs s) (x :: xs)) :
    ∃ w', pull s w = (.ok (some x), w') ∧ Env F w' ∧ Has (w'.srcs s) xs
      ∧ (∀ t, t ≠ s → w'.srcs t = w.srcs t) ∧ yields w'.vis = yields w.vis := by
  obtain ⟨h1, h2⟩ := hs
  have hl := h2 (by simp)
  refine ⟨_, by simp [pull, hl, h1]; rfl, ⟨?_, ?_⟩, ⟨?_, ?_⟩, ?_, ?_⟩
  · simpa [World.pushVis, World.setSrc] using he.fns
  · simpa [World.pushVis, World.setSrc] using he.cons
  · simp [World.pushVis, World.setSrc]
  · intro _; simp [World.pushVis, World.setSrc, Status.live]
  · intro t ht; simp [World.pushVis, World.setSrc, ht]
  · simp [World.pushVis, World.setSrc, yields]

theorem pull_nil {F : Nat → FnBeh} {s : Nat} {w : World}
    (he : Env F w) (hs : Has (w.srcs s) []) :
    ∃ w', pull s w = (.ok none, w') ∧ Env F w' ∧ Has (w'.srcs s) []
      ∧ (∀ t, t ≠ s → w'.srcs t = w.srcs t) ∧ yields w'.vis = yields w.vis := by
  obtain ⟨h1, _⟩ := hs
  simp only [List.map_nil] at h1
  unfold pull
  by_cases hl : (w.srcs s).status.live
  · refine ⟨_, by simp [hl, h1]; rfl, ⟨?_, ?_⟩, ⟨?_, ?_⟩, ?_, ?_⟩
    · simpa [World.pushVis, World.setSrc] using he.fns
    · simpa [World.pushVis, World.setSrc] using he.cons
    · simp [World.pushVis, World.setSrc]
    · intro h; exact absurd rfl h
    · intro t ht; simp [World.pushVis, World.setSrc, ht]
    · simp [World.pushVis, World.setSrc, yields]
  · by_cases hv : (w.srcs s).kind.repollVisible
    · refine ⟨_, by simp [hl, hv]; rfl, ⟨?_, ?_⟩, ⟨?_, ?_⟩, ?_, ?_⟩
      · simpa [World.pushVis] using he.fns
      · simpa [World.pushVis] using he.cons
      · simp [World.pushVis, h1]
      · intro h; exact absurd rfl h
      · intro t _; simp [World.pushVis]
      · simp [World.pushVis, yields]
    · exact ⟨w, by simp [hl, hv], he, ⟨by simp [h1], fun h => absurd rfl h⟩, fun _ _ => rfl, rfl⟩

theorem call_pure {F : Nat → FnBeh} {f : Nat} {q : List Val → Val} (args : List Val) {w : World}
    (he : Env F w) (hq : ∀ n a, F f n a = .ok (q a)) :
    ∃ w', call f args w = (.ok (q args), w') ∧ Env F w' ∧ w'.srcs = w.srcs
      ∧ yields w'.vis = yields w.vis := by
  have h : w.fns f (w.calls f) args = .ok (q args) := by rw [he.fns]; exact hq _ _
  refine ⟨_, by simp [call, h]; rfl, ⟨?_, ?_⟩, ?_, ?_⟩
  · simpa [World.pushVis] using he.fns
  · simpa [World.pushVis] using he.cons
  · simp [World.pushVis]
  · simp [World.pushVis, yields]

theorem yieldV_ok {F : Nat → FnBeh} (v : Val) {w : World} (he : Env F w) :
    ∃ w', yieldV v w = (.ok (), w') ∧ Env F w' ∧ w'.srcs = w.srcs
      ∧ yields w'.vis = yields w.vis ++ [v] := by
  refine ⟨_, by simp [yieldV, he.cons]; rfl, ⟨?_, ?_⟩, ?_, ?_⟩
  · simpa [World.pushVis] using he.fns
  · simpa [World.pushVis] using he.cons
  · simp [World.pushVis]
  · simp [World.pushVis, yields]


/-! ## `async for` -/

/-- what a loop yields: `out x` for every item up to and including the first one where `c` says `break` -/
def outs (c : Val → Bool) (out : Val → List Val) : List Val → List Val
  | [] => []
  | x :: xs => out x ++ (if c x then outs c out xs else [])

/-- what the loop leaves in the source -/
def leftover (c : Val → Bool) : List Val → List Val
  | [] => []
  | x :: xs => if c x then leftover c xs else xs

theorem forEach_spec {F : Nat → FnBeh} {s : Nat} (body : Val → M Bool) (c : Val → Bool) (out : Val → List Val) :
    ∀ (items : List Val) (fuel : Nat) (w : World),
      (∀ x ∈ items, ∀ w, Env F w → ∃ w', body x w = (.ok (c x), w') ∧ Env F w' ∧ w'.srcs = w.srcs
          ∧ yields w'.vis = yields w.vis ++ out x) →
      Env F w → Has (w.srcs s) items → items.length < fuel →
      ∃ w', forEach s body fuel w = (.ok (), w') ∧ Env F w' ∧ Has (w'.srcs s) (leftover c items)
        ∧ (∀ t, t ≠ s → w'.srcs t = w.srcs t) ∧ yields w'.vis = yields w.vis ++ outs c out items := by
  intro items
  induction items with
  | nil =>
    intro fuel w _ he hs hf
    cases fuel with
    | zero => simp at hf
    | succ fuel =>
      obtain ⟨w1, hp, he1, hs1, ho1, hy1⟩ := pull_nil he hs
      exact ⟨w1, by simp [forEach, bind_apply, hp, pure_apply], he1, hs1, ho1, by simp [hy1, outs]⟩
  | cons x xs ih =>
    intro fuel w hb he hs hf
    cases fuel with
    | zero => simp at hf
    | succ fuel =>
      have hf' : xs.length < fuel := by simp at hf; omega
      obtain ⟨w1, hp, he1, hs1, ho1, hy1⟩ := pull_cons he hs
      obtain ⟨w2, hb2, he2, hs2, hy2⟩ := hb x (by simp) w1 he1
      cases hc : c x with
      | false =>
        refine ⟨w2, by simp [forEach, bind_apply, hp, hb2, hc, pure_apply], he2, ?_, ?_, ?_⟩
        · simpa [leftover, hc, hs2] using hs1
        · intro t ht; rw [hs2]; exact ho1 t ht
        · simp [outs, hc, hy2, hy1]
      | true =>
        obtain ⟨w3, hl, he3, hs3, ho3, hy3⟩ := ih fuel w2 (fun y hy => hb y (by simp [hy])) he2
          (by rw [hs2]; exact hs1) hf'
        refine ⟨w3, by simp [forEach, bind_apply, hp, hb2, hc, hl], he3, ?_, ?_, ?_⟩
        · simpa [leftover, hc] using hs3
        · intro t ht; rw [ho3 t ht, hs2]; exact ho1 t ht
        · simp [outs, hc, hy3, hy2, hy1]

theorem outs_filter (p : Val → Bool) (items : List Val) :
    outs (fun _ => true) (fun x => if p x then [x] else []) items = items.filter p := by
  induction items with
  | nil => rfl
  | cons x xs ih => cases h : p x <;> simp [outs, ih, h]

theorem outs_map (g : Val → Val) (items : List Val) :
    outs (fun _ => true) (fun x => [g x]) items = items.map g := by
  induction items with
  | nil => rfl
  | cons x xs ih => simp [outs, ih]

theorem outs_takeWhile (p : Val → Bool) (items : List Val) :
    outs p (fun x => if p x then [x] else []) items = items.takeWhile p := by
  induction items with
  | nil => rfl
  | cons x xs ih => cases h : p x <;> simp [outs, ih, h, List.takeWhile]

/-! ## filter, filterfalse -/

theorem test_spec {F : Nat → FnBeh} (fn : Option Nat) (q : List Val → Val) (x : Val) {w : World}
    (he : Env F w) (hq : ∀ f, fn = some f → ∀ n a, F f n a = .ok (q a)) :
    ∃ w', test fn x w = (.ok (ListSpec.pred fn q x), w') ∧ Env F w' ∧ w'.srcs = w.srcs
      ∧ yields w'.vis = yields w.vis := by
  cases fn with
  | none => exact ⟨w, rfl, he, rfl, rfl⟩
  | some f =>
    obtain ⟨w1, hc, he1, hs1, hy1⟩ := call_pure [x] he (hq f rfl)
    exact ⟨w1, by simp [test, bind_apply, hc, pure_apply, ListSpec.pred], he1, hs1, hy1⟩

theorem filterLoop_spec {F : Nat → FnBeh} (fn : Option Nat) (neg : Bool) (s : Nat) (q : List Val → Val)
    (items : List Val) (fuel : Nat) (w : World)
    (he : Env F w) (hq : ∀ f, fn = some f → ∀ n a, F f n a = .ok (q a))
    (hs : Has (w.srcs s) items) (hf : items.length < fuel) :
    ∃ w', Std.filterLoop fn neg s fuel w = (.ok (), w') ∧ Env F w'
      ∧ yields w'.vis = yields w.vis ++ items.filter (fun x => ListSpec.pred fn q x != neg) := by
  obtain ⟨w', h, he', _, _, hy⟩ := forEach_spec (F := F) (s := s)
    (fun x => do
      if (← test fn x) != neg then yieldV x
      pure true)
    (fun _ => true) (fun x => if (ListSpec.pred fn q x != neg) then [x] else []) items fuel w
    (by
      intro x _ w he
      obtain ⟨w1, ht, he1, hs1, hy1⟩ := test_spec fn q x he hq
      by_cases hp : ListSpec.pred fn q x = neg
      · exact ⟨w1, by simp [bind_apply, ht, hp, pure_apply], he1, hs1, by simp [hy1, hp]⟩
      · obtain ⟨w2, hyv, he2, hs2, hy2⟩ := yieldV_ok x he1
        exact ⟨w2, by simp [bind_apply, ht, hp, hyv, pure_apply], he2, by rw [hs2, hs1], by simp [hy2, hy1, hp]⟩)
    he hs hf
  exact ⟨w', h, he', by rw [hy, outs_filter]⟩

/-! ## enumerate -/

def enumFrom : Int → List Val → List Val
  | _, [] => []
  | c, x :: xs => .tup [.int c, x] :: enumFrom (c + 1) xs

theorem enumFrom_eq (c : Int) (items : List Val) : ∀ (k : Nat),
    enumFrom (c + k) items = (items.zipIdx k).map (fun p => Val.tup [.int (c + (p.2 : Int)), p.1]) := by
  induction items with
  | nil => intro k; rfl
  | cons x xs ih =>
    intro k
    have h : c + (k : Int) + 1 = c + ((k + 1 : Nat) : Int) := by omega
    simp only [enumFrom, List.zipIdx_cons, List.map_cons, h, ih]

theorem enumFrom_spec (c : Int) (items : List Val) : enumFrom c items = ListSpec.enumerate c items := by
  have := enumFrom_eq c items 0
  simpa [ListSpec.enumerate] using this

theorem enumerateLoop_spec {F : Nat → FnBeh} (s : Nat) :
    ∀ (items : List Val) (c : Int) (fuel : Nat) (w : World),
      Env F w → Has (w.srcs s) items → items.length < fuel →
      ∃ w', Std.enumerateLoop s c fuel w = (.ok (), w') ∧ Env F w'
        ∧ yields w'.vis = yields w.vis ++ enumFrom c items := by
  intro items
  induction items with
  | nil =>
    intro c fuel w he hs hf
    cases fuel with
    | zero => simp at hf
    | succ fuel =>
      obtain ⟨w1, hp, he1, _, _, hy1⟩ := pull_nil he hs
      exact ⟨w1, by simp [Std.enumerateLoop, bind_apply, hp, pure_apply], he1, by simp [hy1, enumFrom]⟩
  | cons x xs ih =>
    intro c fuel w he hs hf
    cases fuel with
    | zero => simp at hf
    | succ fuel =>
      have hf' : xs.length < fuel := by simp at hf; omega
      obtain ⟨w1, hp, he1, hs1, _, hy1⟩ := pull_cons he hs
      obtain ⟨w2, hyv, he2, hs2, hy2⟩ := yieldV_ok (.tup [.int c, x]) he1
      obtain ⟨w3, hl, he3, hy3⟩ := ih (c + 1) fuel w2 he2 (by rw [hs2]; exact hs1) hf'
      exact ⟨w3, by simp [Std.enumerateLoop, bind_apply, hp, hyv, hl], he3, by simp [hy3, hy2, hy1, enumFrom]⟩

/-! ## takewhile -/

theorem takewhileLoop_spec {F : Nat → FnBeh} (f s : Nat) (q : List Val → Val)
    (items : List Val) (fuel : Nat) (w : World)
    (he : Env F w) (hq : ∀ n a, F f n a = .ok (q a))
    (hs : Has (w.srcs s) items) (hf : items.length < fuel) :
    ∃ w', Std.takewhileLoop f s fuel w = (.ok (), w') ∧ Env F w'
      ∧ yields w'.vis = yields w.vis ++ ListSpec.takewhile q items := by
  obtain ⟨w', h, he', _, _, hy⟩ := forEach_spec (F := F) (s := s)
    (fun x => do
      if (← call f [x]).truthy then do yieldV x; pure true else pure false)
    (fun x => (q [x]).truthy) (fun x => if (q [x]).truthy then [x] else []) items fuel w
    (by
      intro x _ w he
      obtain ⟨w1, hc, he1, hs1, hy1⟩ := call_pure [x] he hq
      cases hp : (q [x]).truthy with
      | false => exact ⟨w1, by simp [bind_apply, hc, hp, pure_apply], he1, hs1, by simp [hy1]⟩
      | true =>
        obtain ⟨w2, hyv, he2, hs2, hy2⟩ := yieldV_ok x he1
        exact ⟨w2, by simp [bind_apply, hc, hp, hyv, pure_apply], he2, by rw [hs2, hs1], by simp [hy2, hy1]⟩)
    he hs hf
  exact ⟨w', h, he', by rw [hy, outs_takeWhile]; rfl⟩

/-! ## starmap -/

theorem starmapLoop_spec {F : Nat → FnBeh} (f s : Nat) (q : List Val → Val)
    (rows : List (List Val)) (fuel : Nat) (w : World)
    (he : Env F w) (hq : ∀ n a, F f n a = .ok (q a))
    (hs : Has (w.srcs s) (rows.map Val.tup)) (hf : rows.length < fuel) :
    ∃ w', Std.starmapLoop f s fuel w = (.ok (), w') ∧ Env F w'
      ∧ yields w'.vis = yields w.vis ++ ListSpec.starmap q rows := by
  obtain ⟨w', h, he', _, _, hy⟩ := forEach_spec (F := F) (s := s)
    (fun x => do
      let args ← liftExc x.asArgs
      yieldV (← call f args)
      pure true)
    (fun _ => true) (fun x => [match x with | .tup vs => q vs | _ => Val.none]) (rows.map Val.tup) fuel w
    (by
      intro x hx w he
      obtain ⟨r, _, rfl⟩ := List.mem_map.mp hx
      obtain ⟨w1, hc, he1, hs1, hy1⟩ := call_pure r he hq
      obtain ⟨w2, hyv, he2, hs2, hy2⟩ := yieldV_ok (q r) he1
      exact ⟨w2, by simp [bind_apply, liftExc, Val.asArgs, hc, hyv, pure_apply], he2, by rw [hs2, hs1],
        by simp [hy2, hy1]⟩)
    he hs (by simpa using hf)
  refine ⟨w', h, he', ?_⟩
  rw [hy, outs_map, List.map_map]
  rfl

/-! ## accumulate -/

theorem accLoop_spec {F : Nat → FnBeh} (fn : Option Nat) (s : Nat) (op : Val → Val → Val) (P : Val → Prop) :
    ∀ (items : List Val) (t : Val) (fuel : Nat) (w : World),
      (∀ t x, P t → x ∈ items → P (op t x) ∧ ∀ w, Env F w → ∃ w', Std.accStep fn t x w = (.ok (op t x), w')
          ∧ Env F w' ∧ w'.srcs = w.srcs ∧ yields w'.vis = yields w.vis) →
      P t → Env F w → Has (w.srcs s) items → items.length < fuel →
      ∃ w', Std.accLoop fn s t fuel w = (.ok (), w') ∧ Env F w'
        ∧ yields w'.vis = yields w.vis ++ ListSpec.scan op t items := by
  intro items
  induction items with
  | nil =>
    intro t fuel w _ _ he hs hf
    cases fuel with
    | zero => simp at hf
    | succ fuel =>
      obtain ⟨w1, hp, he1, _, _, hy1⟩ := pull_nil he hs
      exact ⟨w1, by simp [Std.accLoop, bind_apply, hp, pure_apply], he1, by simp [hy1, ListSpec.scan]⟩
  | cons x xs ih =>
    intro t fuel w hstep hP he hs hf
    cases fuel with
    | zero => simp at hf
    | succ fuel =>
      have hf' : xs.length < fuel := by simp at hf; omega
      obtain ⟨w1, hp, he1, hs1, _, hy1⟩ := pull_cons he hs
      obtain ⟨hP', hst⟩ := hstep t x hP (by simp)
      obtain ⟨w2, ha, he2, hs2, hy2⟩ := hst w1 he1
      obtain ⟨w3, hyv, he3, hs3, hy3⟩ := yieldV_ok (op t x) he2
      obtain ⟨w4, hl, he4, hy4⟩ := ih (op t x) fuel w3
        (fun t y hPt hy => hstep t y hPt (by simp [hy])) hP' he3 (by rw [hs3, hs2]; exact hs1) hf'
      exact ⟨w4, by simp [Std.accLoop, bind_apply, hp, ha, hyv, hl], he4,
        by simp [hy4, hy3, hy2, hy1, ListSpec.scan]⟩

/-! ## pairwise -/

theorem pairwiseLoop_spec {F : Nat → FnBeh} (s : Nat) :
    ∀ (items : List Val) (old : Val) (fuel : Nat) (w : World),
      Env F w → Has (w.srcs s) items → items.length < fuel →
      ∃ w', Std.pairwiseLoop s old fuel w = (.ok (), w') ∧ Env F w'
        ∧ yields w'.vis = yields w.vis ++ ListSpec.pairwise (old :: items) := by
  intro items
  induction items with
  | nil =>
    intro old fuel w he hs hf
    cases fuel with
    | zero => simp at hf
    | succ fuel =>
      obtain ⟨w1, hp, he1, _, _, hy1⟩ := pull_nil he hs
      exact ⟨w1, by simp [Std.pairwiseLoop, bind_apply, hp, pure_apply], he1, by simp [hy1, ListSpec.pairwise]⟩
  | cons x xs ih =>
    intro old fuel w he hs hf
    cases fuel with
    | zero => simp at hf
    | succ fuel =>
      have hf' : xs.length < fuel := by simp at hf; omega
      obtain ⟨w1, hp, he1, hs1, _, hy1⟩ := pull_cons he hs
      obtain ⟨w2, hyv, he2, hs2, hy2⟩ := yieldV_ok (.tup [old, x]) he1
      obtain ⟨w3, hl, he3, hy3⟩ := ih x fuel w2 he2 (by rw [hs2]; exact hs1) hf'
      refine ⟨w3, by simp [Std.pairwiseLoop, bind_apply, hp, hyv, hl], he3, ?_⟩
      rw [hy3, hy2, hy1]
      simp [ListSpec.pairwise]

theorem pairwise_spec {F : Nat → FnBeh} (s : Nat) (items : List Val) (fuel : Nat) (w : World)
    (he : Env F w) (hs : Has (w.srcs s) items) (hf : items.length < fuel) :
    ∃ w', Std.pairwise s fuel w = (.ok (), w') ∧ Env F w'
      ∧ yields w'.vis = yields w.vis ++ ListSpec.pairwise items := by
  cases items with
  | nil =>
    obtain ⟨w1, hp, he1, _, _, hy1⟩ := pull_nil he hs
    exact ⟨w1, by simp [Std.pairwise, bind_apply, hp, pure_apply], he1, by simp [hy1, ListSpec.pairwise]⟩
  | cons x xs =>
    obtain ⟨w1, hp, he1, hs1, _, hy1⟩ := pull_cons he hs
    obtain ⟨w2, hl, he2, hy2⟩ := pairwiseLoop_spec s xs x fuel w1 he1 hs1 (by simp at hf; omega)
    exact ⟨w2, by simp [Std.pairwise, bind_apply, hp, hl], he2, by rw [hy2, hy1]⟩

theorem accumulate_spec {F : Nat → FnBeh} (fn : Option Nat) (initial : Option Val) (s : Nat)
    (op : Val → Val → Val) (P : Val → Prop) (items : List Val) (fuel : Nat) (w : World)
    (hstep : ∀ t x, P t → x ∈ items → P (op t x) ∧ ∀ w, Env F w → ∃ w', Std.accStep fn t x w = (.ok (op t x), w')
          ∧ Env F w' ∧ w'.srcs = w.srcs ∧ yields w'.vis = yields w.vis)
    (hini : ∀ v, initial = some v → P v) (hitems : ∀ x ∈ items, P x)
    (he : Env F w) (hs : Has (w.srcs s) items) (hf : items.length < fuel) :
    ∃ w', Std.accumulate fn initial s fuel w
        = ((match ListSpec.accumulate op initial items with
            | some _ => .ok ()
            | none => .error .typeError), w') ∧ Env F w'
      ∧ yields w'.vis = yields w.vis ++ (ListSpec.accumulate op initial items).getD [] := by
  cases initial with
  | some v =>
    obtain ⟨w1, hyv, he1, hs1, hy1⟩ := yieldV_ok v he
    obtain ⟨w2, hl, he2, hy2⟩ := accLoop_spec fn s op P items v fuel w1 hstep (hini v rfl) he1
      (by rw [hs1]; exact hs) hf
    exact ⟨w2, by simp [Std.accumulate, bind_apply, pure_apply, hyv, hl, ListSpec.accumulate], he2,
      by simp [hy2, hy1, ListSpec.accumulate]⟩
  | none =>
    cases items with
    | nil =>
      obtain ⟨w1, hp, he1, _, _, hy1⟩ := pull_nil he hs
      exact ⟨w1, by simp [Std.accumulate, bind_apply, tryCatchStop, anext, hp, raise, ListSpec.accumulate],
        he1, by simp [hy1, ListSpec.accumulate]⟩
    | cons x xs =>
      obtain ⟨w1, hp, he1, hs1, _, hy1⟩ := pull_cons he hs
      obtain ⟨w2, hyv, he2, hs2, hy2⟩ := yieldV_ok x he1
      obtain ⟨w3, hl, he3, hy3⟩ := accLoop_spec fn s op P xs x fuel w2
        (fun t y hPt hy => hstep t y hPt (by simp [hy])) (hitems x (by simp)) he2
        (by rw [hs2]; exact hs1) (by simp at hf; omega)
      exact ⟨w3, by simp [Std.accumulate, bind_apply, tryCatchStop, anext, hp, pure_apply, hyv, hl,
        ListSpec.accumulate], he3, by simp [hy3, hy2, hy1, ListSpec.accumulate]⟩

/-! ## batched -/

theorem collect_spec {F : Nat → FnBeh} (s : Nat) :
    ∀ (n : Nat) (items acc : List Val) (w : World), Env F w → Has (w.srcs s) items →
      ∃ w', Std.collect s n acc w = (.ok (acc ++ items.take n, decide (n ≤ items.length)), w') ∧ Env F w'
        ∧ Has (w'.srcs s) (items.drop n) ∧ yields w'.vis = yields w.vis := by
  intro n
  induction n with
  | zero => intro items acc w he hs; exact ⟨w, by simp [Std.collect, pure_apply], he, by simpa using hs, rfl⟩
  | succ n ih =>
    intro items acc w he hs
    cases items with
    | nil =>
      obtain ⟨w1, hp, he1, hs1, _, hy1⟩ := pull_nil he hs
      exact ⟨w1, by simp [Std.collect, bind_apply, hp, pure_apply], he1, by simpa using hs1, hy1⟩
    | cons x xs =>
      obtain ⟨w1, hp, he1, hs1, _, hy1⟩ := pull_cons he hs
      obtain ⟨w2, hc, he2, hs2, hy2⟩ := ih xs (acc ++ [x]) w1 he1 hs1
      exact ⟨w2, by simp [Std.collect, bind_apply, hp, hc], he2, by simpa using hs2, by rw [hy2, hy1]⟩

theorem chunksN_nil (n k : Nat) : ListSpec.chunksN n k [] = [] := by
  cases k <;> simp [ListSpec.chunksN]

theorem batchedLoop_spec {F : Nat → FnBeh} (n : Nat) (hn : 1 ≤ n) (strict : Bool) (s : Nat) :
    ∀ (k : Nat) (items : List Val) (fuel : Nat) (w : World),
      Env F w → Has (w.srcs s) items → items.length ≤ k → k < fuel →
      ∃ w', Std.batchedLoop n strict s fuel w
          = ((if strict && !(ListSpec.chunksN n k items).all (fun c => c.length == n)
              then .error .valueError else .ok ()), w') ∧ Env F w'
        ∧ yields w'.vis = yields w.vis ++
            ((if strict then (ListSpec.chunksN n k items).filter (fun c => c.length == n)
              else ListSpec.chunksN n k items).map Val.tup) := by
  intro k
  induction k with
  | zero =>
    intro items fuel w he hs hk hf
    cases fuel with
    | zero => simp at hf
    | succ fuel =>
      have : items = [] := by simpa using hk
      subst this
      obtain ⟨w1, hc, he1, _, hy1⟩ := collect_spec s n [] [] w he hs
      refine ⟨w1, ?_, he1, ?_⟩
      · have hn0 : ¬ n = 0 := by omega
        simp [Std.batchedLoop, bind_apply, hc, hn0, pure_apply, ListSpec.chunksN]
      · simp [hy1, ListSpec.chunksN]
  | succ k ih =>
    intro items fuel w he hs hk hf
    cases fuel with
    | zero => simp at hf
    | succ fuel =>
      obtain ⟨w1, hc, he1, hs1, hy1⟩ := collect_spec s n items [] w he hs
      by_cases hfull : n ≤ items.length
      · -- a full batch
        have hne : items ≠ [] := by intro h; subst h; simp at hfull; omega
        obtain ⟨w2, hyv, he2, hs2, hy2⟩ := yieldV_ok (.tup (items.take n)) he1
        obtain ⟨w3, hl, he3, hy3⟩ := ih (items.drop n) fuel w2 he2 (by rw [hs2]; exact hs1)
          (by simp; omega) (by omega)
        have hlen : (items.take n).length = n := by simp; omega
        refine ⟨w3, ?_, he3, ?_⟩
        · simp [Std.batchedLoop, bind_apply, hc, hfull, hyv, hl, ListSpec.chunksN, hne, hlen]
        · rw [hy3, hy2, hy1]
          cases strict <;> simp [ListSpec.chunksN, hne, hlen]
      · by_cases hemp : items = []
        · subst hemp
          refine ⟨w1, ?_, he1, ?_⟩
          · have hn0 : ¬ n = 0 := by omega
            simp [Std.batchedLoop, bind_apply, hc, hn0, pure_apply, ListSpec.chunksN]
          · simp [hy1, ListSpec.chunksN]
        · have htake : items.take n = items := List.take_of_length_le (by omega)
          have hdrop : items.drop n = [] := List.drop_of_length_le (by omega)
          have hlen : ¬ items.length = n := by omega
          cases strict with
          | true =>
            refine ⟨w1, ?_, he1, ?_⟩
            · simp [Std.batchedLoop, bind_apply, hc, hfull, hemp, htake, hdrop, raise, ListSpec.chunksN,
                chunksN_nil, hlen]
            · simp [hy1, ListSpec.chunksN, hemp, htake, hdrop, chunksN_nil, hlen]
          | false =>
            obtain ⟨w2, hyv, he2, _, hy2⟩ := yieldV_ok (.tup items) he1
            refine ⟨w2, ?_, he2, ?_⟩
            · simp [Std.batchedLoop, bind_apply, hc, hfull, hemp, htake, hyv]
            · simp [hy2, hy1, ListSpec.chunksN, hemp, htake, hdrop, chunksN_nil]

/-! ## from the step form to the statement form; lifting along a twin -/

theorem produces_of {F : Nat → FnBeh} {m : M Unit} {w : World} {r : Except Exc Unit} {ys : List Val}
    (h : ∃ w', m w = (r, w') ∧ Env F w' ∧ yields w'.vis = yields w.vis ++ ys) : Produces m w r ys := by
  obtain ⟨w', h1, _, h2⟩ := h
  exact ⟨by rw [h1], by rw [h1]; exact h2⟩

theorem _root_.AsyncVerif.Twin.produces {a b : M Unit} (h : Twin a b) {w : World} {r : Except Exc Unit} {ys : List Val}
    (hb : Produces b w r ys) : Produces a w r ys :=
  ⟨(h w).1.trans hb.1, by rw [(h w).2]; exact hb.2⟩

theorem env_of {w : World} (h : Exhausting w) : Env w.fns w := ⟨rfl, h⟩

/-! ## zip, map, strict zip: several sources, `I s` = what source `s` still holds -/

theorem minLen_spec {ls : List (List Val)} (hne : ls ≠ []) :
    (∀ l ∈ ls, ListSpec.minLen ls ≤ l.length) ∧ (∃ l ∈ ls, l.length = ListSpec.minLen ls) := by
  unfold ListSpec.minLen
  cases h : (ls.map List.length).min? with
  | none => simp [List.min?_eq_none_iff] at h; exact absurd h hne
  | some a =>
    obtain ⟨hm, hle⟩ := List.min?_eq_some_iff.mp h
    simp only [Option.getD_some]
    refine ⟨fun l hl => hle _ (List.mem_map.mpr ⟨l, hl, rfl⟩), ?_⟩
    obtain ⟨l, hl, rfl⟩ := List.mem_map.mp hm
    exact ⟨l, hl, rfl⟩

theorem maxLen_spec {ls : List (List Val)} (hne : ls ≠ []) :
    (∀ l ∈ ls, l.length ≤ ListSpec.maxLen ls) ∧ (∃ l ∈ ls, l.length = ListSpec.maxLen ls) := by
  unfold ListSpec.maxLen
  cases h : (ls.map List.length).max? with
  | none => simp [List.max?_eq_none_iff] at h; exact absurd h hne
  | some a =>
    obtain ⟨hm, hle⟩ := List.max?_eq_some_iff.mp h
    simp only [Option.getD_some]
    refine ⟨fun l hl => hle _ (List.mem_map.mpr ⟨l, hl, rfl⟩), ?_⟩
    obtain ⟨l, hl, rfl⟩ := List.mem_map.mp hm
    exact ⟨l, hl, rfl⟩

theorem zipRow_some {F : Nat → FnBeh} (fillv : Val) (I : Nat → List Val) :
    ∀ (l : List Nat) (acc : List Val) (w : World), Env F w → l.Nodup →
      (∀ s ∈ l, Has (w.srcs s) (I s)) → (∀ s ∈ l, I s ≠ []) →
      ∃ w', Std.zipRow l acc w = (.ok (some (acc ++ ListSpec.column fillv (l.map I))), w') ∧ Env F w'
        ∧ (∀ s ∈ l, Has (w'.srcs s) (I s).tail) ∧ (∀ t, t ∉ l → w'.srcs t = w.srcs t)
        ∧ yields w'.vis = yields w.vis := by
  intro l
  induction l with
  | nil =>
    intro acc w he _ _ _
    exact ⟨w, by simp [Std.zipRow, pure_apply, ListSpec.column], he, by simp, fun _ _ => rfl, rfl⟩
  | cons s rest ih =>
    intro acc w he hnd hh hne
    obtain ⟨hs_notin, hnd'⟩ := List.nodup_cons.mp hnd
    cases hI : I s with
    | nil => exact absurd hI (hne s (by simp))
    | cons x xs =>
      have hs := hh s (by simp)
      rw [hI] at hs
      obtain ⟨w1, hp, he1, hs1, ho1, hy1⟩ := pull_cons he hs
      obtain ⟨w2, hr, he2, hs2, ho2, hy2⟩ := ih (acc ++ [x]) w1 he1 hnd'
        (fun t ht => by
          have : t ≠ s := fun h => hs_notin (h ▸ ht)
          rw [ho1 t this]; exact hh t (by simp [ht]))
        (fun t ht => hne t (by simp [ht]))
      refine ⟨w2, ?_, he2, ?_, ?_, by rw [hy2, hy1]⟩
      · simp [Std.zipRow, bind_apply, hp, hr, ListSpec.column, hI]
      · intro t ht
        rcases List.mem_cons.mp ht with rfl | ht
        · rw [ho2 t hs_notin, hI]; exact hs1
        · exact hs2 t ht
      · intro t ht
        have h1 : t ≠ s := fun h => ht (by simp [h])
        have h2 : t ∉ rest := fun h => ht (by simp [h])
        rw [ho2 t h2, ho1 t h1]

theorem zipRow_none {F : Nat → FnBeh} (I : Nat → List Val) :
    ∀ (l : List Nat) (acc : List Val) (w : World), Env F w → l.Nodup →
      (∀ s ∈ l, Has (w.srcs s) (I s)) → (∃ s ∈ l, I s = []) →
      ∃ w', Std.zipRow l acc w = (.ok none, w') ∧ Env F w' ∧ yields w'.vis = yields w.vis := by
  intro l
  induction l with
  | nil => intro acc w _ _ _ hex; obtain ⟨s, hs, _⟩ := hex; simp at hs
  | cons s rest ih =>
    intro acc w he hnd hh hex
    obtain ⟨hs_notin, hnd'⟩ := List.nodup_cons.mp hnd
    have hs := hh s (by simp)
    cases hI : I s with
    | nil =>
      rw [hI] at hs
      obtain ⟨w1, hp, he1, _, _, hy1⟩ := pull_nil he hs
      exact ⟨w1, by simp [Std.zipRow, bind_apply, hp, pure_apply], he1, hy1⟩
    | cons x xs =>
      rw [hI] at hs
      obtain ⟨w1, hp, he1, hs1, ho1, hy1⟩ := pull_cons he hs
      obtain ⟨w2, hr, he2, hy2⟩ := ih (acc ++ [x]) w1 he1 hnd'
        (fun t ht => by
          have : t ≠ s := fun h => hs_notin (h ▸ ht)
          rw [ho1 t this]; exact hh t (by simp [ht]))
        (by
          obtain ⟨t, ht, hIt⟩ := hex
          rcases List.mem_cons.mp ht with rfl | ht
          · rw [hI] at hIt; simp at hIt
          · exact ⟨t, ht, hIt⟩)
      exact ⟨w2, by simp [Std.zipRow, bind_apply, hp, hr], he2, by rw [hy2, hy1]⟩

theorem zipLoop_spec {F : Nat → FnBeh} (srcs : List Nat) (hnd : srcs.Nodup)
    (k : List Val → M Unit) (g : List Val → Val)
    (hk : ∀ row w, Env F w → ∃ w', k row w = (.ok (), w') ∧ Env F w' ∧ w'.srcs = w.srcs
        ∧ yields w'.vis = yields w.vis ++ [g row]) :
    ∀ (n : Nat) (I : Nat → List Val) (fuel : Nat) (w : World), Env F w →
      (∀ s ∈ srcs, Has (w.srcs s) (I s)) → (∀ s ∈ srcs, n ≤ (I s).length) →
      (∃ s ∈ srcs, (I s).length = n) → n < fuel →
      ∃ w', Std.zipLoop srcs k fuel w = (.ok (), w') ∧ Env F w'
        ∧ yields w'.vis = yields w.vis ++ (ListSpec.rowsN .none n (srcs.map I)).map g := by
  intro n
  induction n with
  | zero =>
    intro I fuel w he hh _ hex hf
    cases fuel with
    | zero => simp at hf
    | succ fuel =>
      obtain ⟨w1, hr, he1, hy1⟩ := zipRow_none I srcs [] w he hnd hh
        (by obtain ⟨s, hs, hl⟩ := hex; exact ⟨s, hs, List.length_eq_zero_iff.mp hl⟩)
      exact ⟨w1, by simp [Std.zipLoop, bind_apply, hr, pure_apply], he1, by simp [hy1, ListSpec.rowsN]⟩
  | succ n ih =>
    intro I fuel w he hh hle hex hf
    cases fuel with
    | zero => simp at hf
    | succ fuel =>
      obtain ⟨w1, hr, he1, hs1, _, hy1⟩ := zipRow_some .none I srcs [] w he hnd hh
        (fun s hs h => by have := hle s hs; rw [h] at this; simp at this)
      obtain ⟨w2, hk2, he2, hs2, hy2⟩ := hk (ListSpec.column .none (srcs.map I)) w1 he1
      obtain ⟨w3, hl, he3, hy3⟩ := ih (fun s => (I s).tail) fuel w2 he2
        (fun s hs => by rw [hs2]; exact hs1 s hs)
        (fun s hs => by have := hle s hs; simp; omega)
        (by obtain ⟨s, hs, hl⟩ := hex; exact ⟨s, hs, by simp; omega⟩)
        (by omega)
      refine ⟨w3, by simp [Std.zipLoop, bind_apply, hr, hk2, hl], he3, ?_⟩
      rw [hy3, hy2, hy1]
      simp [ListSpec.rowsN, List.map_map, Function.comp_def]

theorem zipLoop_min {F : Nat → FnBeh} (srcs : List Nat) (hnd : srcs.Nodup) (hne : srcs ≠ [])
    (k : List Val → M Unit) (g : List Val → Val)
    (hk : ∀ row w, Env F w → ∃ w', k row w = (.ok (), w') ∧ Env F w' ∧ w'.srcs = w.srcs
        ∧ yields w'.vis = yields w.vis ++ [g row])
    (I : Nat → List Val) (fuel : Nat) (w : World) (he : Env F w)
    (hh : ∀ s ∈ srcs, Has (w.srcs s) (I s)) (hf : ListSpec.minLen (srcs.map I) < fuel) :
    ∃ w', Std.zipLoop srcs k fuel w = (.ok (), w') ∧ Env F w'
      ∧ yields w'.vis = yields w.vis ++ (ListSpec.zipRows (srcs.map I)).map g := by
  obtain ⟨h1, l, hl, h2⟩ := minLen_spec (ls := srcs.map I) (by simpa using hne)
  obtain ⟨s, hs, rfl⟩ := List.mem_map.mp hl
  exact zipLoop_spec srcs hnd k g hk _ I fuel w he hh
    (fun t ht => h1 _ (List.mem_map.mpr ⟨t, ht, rfl⟩)) ⟨s, hs, h2⟩ hf

theorem rowsN_pair : ∀ (a b : List Val),
    ListSpec.rowsN .none (min a.length b.length) [a, b] = (a.zip b).map (fun p => [p.1, p.2]) := by
  intro a
  induction a with
  | nil => intro b; simp [ListSpec.rowsN]
  | cons x xs ih =>
    intro b
    cases b with
    | nil => simp [ListSpec.rowsN]
    | cons y ys =>
      have h : min (x :: xs).length (y :: ys).length = min xs.length ys.length + 1 := by
        simp only [List.length_cons]; omega
      rw [h]
      simp [ListSpec.rowsN, ListSpec.column, ih]

/-- for two inputs the specification of `zip` is core `List.zip` -/
theorem zipRows_pair (a b : List Val) :
    ListSpec.zipRows [a, b] = (a.zip b).map (fun p => [p.1, p.2]) := by
  have h : ListSpec.minLen [a, b] = min a.length b.length := by
    simp [ListSpec.minLen, List.min?_cons]
  rw [ListSpec.zipRows, h, rowsN_pair]

theorem zipRowStrict_some {F : Nat → FnBeh} (I : Nat → List Val) :
    ∀ (l : List Nat) (i : Nat) (acc : List Val) (w : World), Env F w → l.Nodup →
      (∀ s ∈ l, Has (w.srcs s) (I s)) → (∀ s ∈ l, I s ≠ []) →
      ∃ w', Std.zipRowStrict l i acc w = (.ok (.ok (acc ++ ListSpec.column .none (l.map I))), w') ∧ Env F w'
        ∧ (∀ s ∈ l, Has (w'.srcs s) (I s).tail) ∧ (∀ t, t ∉ l → w'.srcs t = w.srcs t)
        ∧ yields w'.vis = yields w.vis := by
  intro l
  induction l with
  | nil =>
    intro i acc w he _ _ _
    exact ⟨w, by simp [Std.zipRowStrict, pure_apply, ListSpec.column], he, by simp, fun _ _ => rfl, rfl⟩
  | cons s rest ih =>
    intro i acc w he hnd hh hne
    obtain ⟨hs_notin, hnd'⟩ := List.nodup_cons.mp hnd
    cases hI : I s with
    | nil => exact absurd hI (hne s (by simp))
    | cons x xs =>
      have hs := hh s (by simp)
      rw [hI] at hs
      obtain ⟨w1, hp, he1, hs1, ho1, hy1⟩ := pull_cons he hs
      obtain ⟨w2, hr, he2, hs2, ho2, hy2⟩ := ih (i + 1) (acc ++ [x]) w1 he1 hnd'
        (fun t ht => by
          have : t ≠ s := fun h => hs_notin (h ▸ ht)
          rw [ho1 t this]; exact hh t (by simp [ht]))
        (fun t ht => hne t (by simp [ht]))
      refine ⟨w2, ?_, he2, ?_, ?_, by rw [hy2, hy1]⟩
      · simp [Std.zipRowStrict, bind_apply, hp, hr, ListSpec.column, hI]
      · intro t ht
        rcases List.mem_cons.mp ht with rfl | ht
        · rw [ho2 t hs_notin, hI]; exact hs1
        · exact hs2 t ht
      · intro t ht
        have h1 : t ≠ s := fun h => ht (by simp [h])
        have h2 : t ∉ rest := fun h => ht (by simp [h])
        rw [ho2 t h2, ho1 t h1]

theorem zipRowStrict_none {F : Nat → FnBeh} (I : Nat → List Val) :
    ∀ (l : List Nat) (i : Nat) (acc : List Val) (w : World), Env F w → l.Nodup →
      (∀ s ∈ l, Has (w.srcs s) (I s)) → (∃ s ∈ l, I s = []) →
      ∃ w' j, Std.zipRowStrict l i acc w = (.ok (.error j), w') ∧ i ≤ j ∧ Env F w'
        ∧ yields w'.vis = yields w.vis := by
  intro l
  induction l with
  | nil => intro i acc w _ _ _ hex; obtain ⟨s, hs, _⟩ := hex; simp at hs
  | cons s rest ih =>
    intro i acc w he hnd hh hex
    obtain ⟨hs_notin, hnd'⟩ := List.nodup_cons.mp hnd
    have hs := hh s (by simp)
    cases hI : I s with
    | nil =>
      rw [hI] at hs
      obtain ⟨w1, hp, he1, _, _, hy1⟩ := pull_nil he hs
      exact ⟨w1, i, by simp [Std.zipRowStrict, bind_apply, hp, pure_apply], Nat.le_refl _, he1, hy1⟩
    | cons x xs =>
      rw [hI] at hs
      obtain ⟨w1, hp, he1, hs1, ho1, hy1⟩ := pull_cons he hs
      obtain ⟨w2, j, hr, hj, he2, hy2⟩ := ih (i + 1) (acc ++ [x]) w1 he1 hnd'
        (fun t ht => by
          have : t ≠ s := fun h => hs_notin (h ▸ ht)
          rw [ho1 t this]; exact hh t (by simp [ht]))
        (by
          obtain ⟨t, ht, hIt⟩ := hex
          rcases List.mem_cons.mp ht with rfl | ht
          · rw [hI] at hIt; simp at hIt
          · exact ⟨t, ht, hIt⟩)
      exact ⟨w2, j, by simp [Std.zipRowStrict, bind_apply, hp, hr], by omega, he2, by rw [hy2, hy1]⟩

theorem checkRestEmpty_spec {F : Nat → FnBeh} (I : Nat → List Val) :
    ∀ (l : List Nat) (w : World), Env F w → l.Nodup → (∀ s ∈ l, Has (w.srcs s) (I s)) →
      ∃ w', Std.checkRestEmpty l w
          = ((if l.all (fun s => (I s).length == 0) then .ok () else .error .valueError), w')
        ∧ Env F w' ∧ yields w'.vis = yields w.vis := by
  intro l
  induction l with
  | nil => intro w he _ _; exact ⟨w, by simp [Std.checkRestEmpty, pure_apply], he, rfl⟩
  | cons s rest ih =>
    intro w he hnd hh
    obtain ⟨hs_notin, hnd'⟩ := List.nodup_cons.mp hnd
    have hs := hh s (by simp)
    cases hI : I s with
    | nil =>
      rw [hI] at hs
      obtain ⟨w1, hp, he1, _, ho1, hy1⟩ := pull_nil he hs
      obtain ⟨w2, hr, he2, hy2⟩ := ih w1 he1 hnd'
        (fun t ht => by
          have : t ≠ s := fun h => hs_notin (h ▸ ht)
          rw [ho1 t this]; exact hh t (by simp [ht]))
      exact ⟨w2, by simp [Std.checkRestEmpty, bind_apply, hp, hr, hI], he2, by rw [hy2, hy1]⟩
    | cons x xs =>
      rw [hI] at hs
      obtain ⟨w1, hp, he1, _, _, hy1⟩ := pull_cons he hs
      exact ⟨w1, by simp [Std.checkRestEmpty, bind_apply, hp, hI, raise], he1, hy1⟩

theorem all_congr_mem {α : Type} (l : List α) (p q : α → Bool) (h : ∀ a ∈ l, p a = q a) : l.all p = l.all q := by
  induction l with
  | nil => rfl
  | cons a rest ih =>
    simp only [List.all_cons, h a (by simp), ih (fun b hb => h b (by simp [hb]))]

theorem zipStrictLoop_spec {F : Nat → FnBeh} (srcs : List Nat) (hnd : srcs.Nodup) :
    ∀ (n : Nat) (I : Nat → List Val) (fuel : Nat) (w : World), Env F w →
      (∀ s ∈ srcs, Has (w.srcs s) (I s)) → (∀ s ∈ srcs, n ≤ (I s).length) →
      (∃ s ∈ srcs, (I s).length = n) → n < fuel →
      ∃ w', Std.zipStrictLoop srcs fuel w
          = ((if srcs.all (fun s => (I s).length == n) then .ok () else .error .valueError), w') ∧ Env F w'
        ∧ yields w'.vis = yields w.vis ++ (ListSpec.rowsN .none n (srcs.map I)).map Val.tup := by
  intro n
  induction n with
  | zero =>
    intro I fuel w he hh _ hex hf
    cases fuel with
    | zero => simp at hf
    | succ fuel =>
      have hex' : ∃ s ∈ srcs, I s = [] := by
        obtain ⟨s, hs, hl⟩ := hex; exact ⟨s, hs, List.length_eq_zero_iff.mp hl⟩
      cases srcs with
      | nil => obtain ⟨s, hs, _⟩ := hex; simp at hs
      | cons s0 rest =>
        obtain ⟨hs_notin, hnd'⟩ := List.nodup_cons.mp hnd
        cases hI : I s0 with
        | nil =>
          have hs := hh s0 (by simp)
          rw [hI] at hs
          obtain ⟨w1, hp, he1, _, ho1, hy1⟩ := pull_nil he hs
          obtain ⟨w2, hr, he2, hy2⟩ := checkRestEmpty_spec I rest w1 he1 hnd'
            (fun t ht => by
              have : t ≠ s0 := fun h => hs_notin (h ▸ ht)
              rw [ho1 t this]; exact hh t (by simp [ht]))
          refine ⟨w2, ?_, he2, by simp [hy2, hy1, ListSpec.rowsN]⟩
          simp [Std.zipStrictLoop, Std.zipRowStrict, bind_apply, hp, pure_apply, hr, hI]
        | cons x xs =>
          obtain ⟨w1, j, hr, hj, he1, hy1⟩ := zipRowStrict_none I (s0 :: rest) 0 [] w he hnd hh hex'
          have hs := hh s0 (by simp)
          rw [hI] at hs
          obtain ⟨wa, hpa, hea, hsa, hoa, hya⟩ := pull_cons he hs
          obtain ⟨wb, jb, hrb, hjb, heb, hyb⟩ := zipRowStrict_none I rest 1 [x] wa hea hnd'
            (fun t ht => by
              have : t ≠ s0 := fun h => hs_notin (h ▸ ht)
              rw [hoa t this]; exact hh t (by simp [ht]))
            (by
              obtain ⟨t, ht, hIt⟩ := hex'
              rcases List.mem_cons.mp ht with rfl | ht
              · rw [hI] at hIt; simp at hIt
              · exact ⟨t, ht, hIt⟩)
          refine ⟨wb, ?_, heb, by simp [hyb, hya, ListSpec.rowsN]⟩
          cases jb with
          | zero => omega
          | succ jb =>
            simp [Std.zipStrictLoop, Std.zipRowStrict, bind_apply, hpa, hrb, raise, hI]
  | succ n ih =>
    intro I fuel w he hh hle hex hf
    cases fuel with
    | zero => simp at hf
    | succ fuel =>
      obtain ⟨w1, hr, he1, hs1, _, hy1⟩ := zipRowStrict_some I srcs 0 [] w he hnd hh
        (fun s hs h => by have := hle s hs; rw [h] at this; simp at this)
      obtain ⟨w2, hyv, he2, hs2, hy2⟩ := yieldV_ok (.tup (ListSpec.column .none (srcs.map I))) he1
      obtain ⟨w3, hl, he3, hy3⟩ := ih (fun s => (I s).tail) fuel w2 he2
        (fun s hs => by rw [hs2]; exact hs1 s hs)
        (fun s hs => by have := hle s hs; simp; omega)
        (by obtain ⟨s, hs, hl⟩ := hex; exact ⟨s, hs, by simp; omega⟩)
        (by omega)
      have hall : srcs.all (fun s => ((fun s => (I s).tail) s).length == n)
          = srcs.all (fun s => (I s).length == n + 1) := by
        apply all_congr_mem
        intro s hs
        have := hle s hs
        simp only [List.length_tail]
        by_cases h : (I s).length = n + 1
        · simp [h]
        · have h' : ¬ (I s).length - 1 = n := by omega
          rw [beq_eq_false_iff_ne.mpr h', beq_eq_false_iff_ne.mpr h]
      refine ⟨w3, ?_, he3, ?_⟩
      · simp only [Std.zipStrictLoop, bind_apply, hr, List.nil_append, hyv, hl, hall]
      · rw [hy3, hy2, hy1]
        simp [ListSpec.rowsN, List.map_map, Function.comp_def]

/-! ## scoping in a fault-free run (for the tools without a twin theorem) -/

theorem closeSrc_frame (s : Nat) (w : World) :
    (closeSrc s w).1 = .ok () ∧ (closeSrc s w).2.fns = w.fns ∧ (closeSrc s w).2.cons = w.cons
      ∧ (closeSrc s w).2.vis = w.vis ∧ ∀ t, t ≠ s → (closeSrc s w).2.srcs t = w.srcs t := by
  unfold closeSrc
  cases hk : (w.srcs s).kind <;> simp only [hk]
  all_goals first
    | (split <;> simp +contextual [World.setSrc, World.pushRel])
    | (cases hs : (w.srcs s).status <;> simp +contextual [World.setSrc, World.pushRel])
    | simp +contextual [World.setSrc, World.pushRel]

theorem closeSrc_ok {F : Nat → FnBeh} (s : Nat) {w : World} (he : Env F w) :
    ∃ w', closeSrc s w = (.ok (), w') ∧ Env F w' ∧ (∀ t, t ≠ s → w'.srcs t = w.srcs t)
      ∧ w'.vis = w.vis := by
  obtain ⟨h1, h2, h3, h4, h5⟩ := closeSrc_frame s w
  refine ⟨(closeSrc s w).2, ?_, ⟨h2.trans he.fns, h3.trans he.cons⟩, h5, h4⟩
  rw [← h1]

theorem scopedIter_ok {F : Nat → FnBeh} {α : Type} (s : Nat) (body : M α) (a : α) {w w1 : World}
    (hb : body w = (.ok a, w1)) (he1 : Env F w1) :
    ∃ w', scopedIter s body w = (.ok a, w') ∧ Env F w' ∧ (∀ t, t ≠ s → w'.srcs t = w1.srcs t)
      ∧ w'.vis = w1.vis := by
  obtain ⟨w2, hc, he2, ho2, hv2⟩ := closeSrc_ok s he1
  exact ⟨w2, by simp [scopedIter, tryFinally, hb, hc], he2, ho2, hv2⟩

/-! ## chain -/

theorem outs_id (items : List Val) : outs (fun _ => true) (fun x => [x]) items = items := by
  have := outs_map id items
  simpa using this

theorem passThrough_spec {F : Nat → FnBeh} (s : Nat) (items : List Val) (fuel : Nat) (w : World)
    (he : Env F w) (hs : Has (w.srcs s) items) (hf : items.length < fuel) :
    ∃ w', forEach s (fun x => do yieldV x; pure true) fuel w = (.ok (), w') ∧ Env F w'
      ∧ (∀ t, t ≠ s → w'.srcs t = w.srcs t) ∧ yields w'.vis = yields w.vis ++ items := by
  obtain ⟨w', h, he', _, ho, hy⟩ := forEach_spec (F := F) (s := s)
    (fun x => do yieldV x; pure true) (fun _ => true) (fun x => [x]) items fuel w
    (by
      intro x _ w he
      obtain ⟨w2, hyv, he2, hs2, hy2⟩ := yieldV_ok x he
      exact ⟨w2, by simp [bind_apply, hyv, pure_apply], he2, hs2, hy2⟩)
    he hs hf
  exact ⟨w', h, he', ho, by rw [hy, outs_id]⟩

theorem chain_spec {F : Nat → FnBeh} (I : Nat → List Val) (fuel : Nat) :
    ∀ (srcs : List Nat) (w : World), Env F w → srcs.Nodup → (∀ s ∈ srcs, Has (w.srcs s) (I s)) →
      (∀ s ∈ srcs, (I s).length < fuel) →
      ∃ w', Std.chain srcs fuel w = (.ok (), w') ∧ Env F w'
        ∧ yields w'.vis = yields w.vis ++ (srcs.map I).flatten := by
  intro srcs
  induction srcs with
  | nil => intro w he _ _ _; exact ⟨w, by simp [Std.chain, pure_apply], he, by simp⟩
  | cons s rest ih =>
    intro w he hnd hh hf
    obtain ⟨hs_notin, hnd'⟩ := List.nodup_cons.mp hnd
    obtain ⟨w1, hl, he1, ho1, hy1⟩ := passThrough_spec s (I s) fuel w he (hh s (by simp)) (hf s (by simp))
    obtain ⟨w2, hr, he2, hy2⟩ := ih w1 he1 hnd'
      (fun t ht => by
        have : t ≠ s := fun h => hs_notin (h ▸ ht)
        rw [ho1 t this]; exact hh t (by simp [ht]))
      (fun t ht => hf t (by simp [ht]))
    exact ⟨w2, by simp [Std.chain, bind_apply, hl, hr], he2, by simp [hy2, hy1]⟩

theorem chainIter_spec {F : Nat → FnBeh} (I : Nat → List Val) (fuel : Nat) :
    ∀ (srcs : List Nat) (w : World), Env F w → srcs.Nodup → (∀ s ∈ srcs, Has (w.srcs s) (I s)) →
      (∀ s ∈ srcs, (I s).length < fuel) →
      ∃ w', Impl.chainIter srcs fuel w = (.ok (), w') ∧ Env F w'
        ∧ yields w'.vis = yields w.vis ++ (srcs.map I).flatten := by
  intro srcs
  induction srcs with
  | nil => intro w he _ _ _; exact ⟨w, by simp [Impl.chainIter, pure_apply], he, by simp⟩
  | cons s rest ih =>
    intro w he hnd hh hf
    obtain ⟨hs_notin, hnd'⟩ := List.nodup_cons.mp hnd
    obtain ⟨w1, hl, he1, ho1, hy1⟩ := passThrough_spec s (I s) fuel w he (hh s (by simp)) (hf s (by simp))
    obtain ⟨w1', hsc, he1', ho1', hv1'⟩ := scopedIter_ok s _ () hl he1
    obtain ⟨w2, hr, he2, hy2⟩ := ih w1' he1' hnd'
      (fun t ht => by
        have : t ≠ s := fun h => hs_notin (h ▸ ht)
        rw [ho1' t this, ho1 t this]; exact hh t (by simp [ht]))
      (fun t ht => hf t (by simp [ht]))
    exact ⟨w2, by simp [Impl.chainIter, bind_apply, hsc, hr], he2, by simp [hy2, hv1', hy1]⟩

theorem implChain_spec {F : Nat → FnBeh} (I : Nat → List Val) (fuel : Nat)
    (srcs : List Nat) (w : World) (he : Env F w) (hnd : srcs.Nodup) (hh : ∀ s ∈ srcs, Has (w.srcs s) (I s))
    (hf : ∀ s ∈ srcs, (I s).length < fuel) :
    ∃ w', Impl.chain srcs fuel w = (.ok (), w') ∧ Env F w'
      ∧ yields w'.vis = yields w.vis ++ (srcs.map I).flatten := by
  obtain ⟨w1, h, he1, hy1⟩ := chainIter_spec I fuel srcs w he hnd hh hf
  exact ⟨w1, by simp [Impl.chain, h], he1, hy1⟩

/-! ## dropwhile -/

theorem dropwhile_started_spec {F : Nat → FnBeh} (f s : Nat) :
    ∀ (items : List Val) (fuel : Nat) (w : World), Env F w → Has (w.srcs s) items → items.length < fuel →
      ∃ w', Std.dropwhileLoop f s true fuel w = (.ok (), w') ∧ Env F w'
        ∧ yields w'.vis = yields w.vis ++ items := by
  intro items
  induction items with
  | nil =>
    intro fuel w he hs hf
    cases fuel with
    | zero => simp at hf
    | succ fuel =>
      obtain ⟨w1, hp, he1, _, _, hy1⟩ := pull_nil he hs
      exact ⟨w1, by simp [Std.dropwhileLoop, bind_apply, hp, pure_apply], he1, by simp [hy1]⟩
  | cons x xs ih =>
    intro fuel w he hs hf
    cases fuel with
    | zero => simp at hf
    | succ fuel =>
      obtain ⟨w1, hp, he1, hs1, _, hy1⟩ := pull_cons he hs
      obtain ⟨w2, hyv, he2, hs2, hy2⟩ := yieldV_ok x he1
      obtain ⟨w3, hl, he3, hy3⟩ := ih fuel w2 he2 (by rw [hs2]; exact hs1) (by simp at hf; omega)
      exact ⟨w3, by simp [Std.dropwhileLoop, bind_apply, hp, hyv, hl], he3, by simp [hy3, hy2, hy1]⟩

theorem dropwhileLoop_spec {F : Nat → FnBeh} (f s : Nat) (q : List Val → Val) (hq : ∀ n a, F f n a = .ok (q a)) :
    ∀ (items : List Val) (fuel : Nat) (w : World), Env F w → Has (w.srcs s) items → items.length < fuel →
      ∃ w', Std.dropwhileLoop f s false fuel w = (.ok (), w') ∧ Env F w'
        ∧ yields w'.vis = yields w.vis ++ ListSpec.dropwhile q items := by
  intro items
  induction items with
  | nil =>
    intro fuel w he hs hf
    cases fuel with
    | zero => simp at hf
    | succ fuel =>
      obtain ⟨w1, hp, he1, _, _, hy1⟩ := pull_nil he hs
      exact ⟨w1, by simp [Std.dropwhileLoop, bind_apply, hp, pure_apply], he1, by simp [hy1, ListSpec.dropwhile]⟩
  | cons x xs ih =>
    intro fuel w he hs hf
    cases fuel with
    | zero => simp at hf
    | succ fuel =>
      have hf' : xs.length < fuel := by simp at hf; omega
      obtain ⟨w1, hp, he1, hs1, _, hy1⟩ := pull_cons he hs
      obtain ⟨w2, hc, he2, hs2, hy2⟩ := call_pure [x] he1 hq
      cases hp' : (q [x]).truthy with
      | true =>
        obtain ⟨w3, hl, he3, hy3⟩ := ih fuel w2 he2 (by rw [hs2]; exact hs1) hf'
        refine ⟨w3, by simp [Std.dropwhileLoop, bind_apply, hp, hc, hp', hl], he3, ?_⟩
        rw [hy3, hy2, hy1]; simp [ListSpec.dropwhile, List.dropWhile, hp']
      | false =>
        obtain ⟨w3, hyv, he3, hs3, hy3⟩ := yieldV_ok x he2
        obtain ⟨w4, hl, he4, hy4⟩ := dropwhile_started_spec f s xs fuel w3 he3
          (by rw [hs3, hs2]; exact hs1) hf'
        refine ⟨w4, by simp [Std.dropwhileLoop, bind_apply, hp, hc, hp', hyv, hl], he4, ?_⟩
        rw [hy4, hy3, hy2, hy1]; simp [ListSpec.dropwhile, List.dropWhile, hp']

/-! ## islice -/

/-- the elements of `l` whose index, counted from `k`, is a multiple of `step` -/
def stride (step : Nat) (k : Nat) (l : List Val) : List Val :=
  ((l.zipIdx k).filter (fun p => p.2 % step == 0)).map (fun p => p.1)

theorem stride_nil (step k : Nat) : stride step k [] = [] := rfl

theorem stride_cons_hit {step k : Nat} (h : k % step = 0) (x : Val) (l : List Val) :
    stride step k (x :: l) = x :: stride step (k + 1) l := by
  simp [stride, List.zipIdx_cons, h]

theorem stride_cons_miss {step k : Nat} (h : ¬ k % step = 0) (x : Val) (l : List Val) :
    stride step k (x :: l) = stride step (k + 1) l := by
  simp [stride, List.zipIdx_cons, h]

theorem stride_shift (step : Nat) : ∀ (l : List Val) (k : Nat), stride step (k + step) l = stride step k l := by
  intro l
  induction l with
  | nil => intro k; rfl
  | cons x xs ih =>
    intro k
    have e : (k + step) % step = k % step := Nat.add_mod_right k step
    have e2 : k + step + 1 = (k + 1) + step := by omega
    by_cases h : k % step = 0
    · rw [stride_cons_hit (by rw [e]; exact h), stride_cons_hit h, e2, ih]
    · rw [stride_cons_miss (by rw [e]; exact h), stride_cons_miss h, e2, ih]

theorem stride_skip (step : Nat) : ∀ (m : Nat) (l : List Val) (k : Nat),
    (∀ j, j < m → ¬ (k + j) % step = 0) → stride step k l = stride step (k + m) (l.drop m) := by
  intro m
  induction m with
  | zero => intro l k _; simp
  | succ m ih =>
    intro l k h
    cases l with
    | nil => simp [stride_nil]
    | cons x xs =>
      rw [stride_cons_miss (by simpa using h 0 (by omega))]
      rw [ih xs (k + 1) (fun j hj => by have := h (j + 1) (by omega); rwa [show k + 1 + j = k + (j + 1) by omega])]
      simp [show k + 1 + m = k + (m + 1) by omega]

/-- the key recurrence: after an element that is kept, the next `step - 1` are skipped -/
theorem stride_step {step : Nat} (hstep : 1 ≤ step) (x : Val) (l : List Val) :
    stride step 0 (x :: l) = x :: stride step 0 (l.drop (step - 1)) := by
  rw [stride_cons_hit (by simp)]
  rw [stride_skip step (step - 1) l (0 + 1) (fun j hj => by
    have h1 : 0 + 1 + j < step := by omega
    rw [Nat.mod_eq_of_lt h1]; omega)]
  have : 0 + 1 + (step - 1) = 0 + step := by omega
  rw [this, stride_shift]

theorem skipTo_spec {F : Nat → FnBeh} (s : Nat) :
    ∀ (d : Nat) (items : List Val) (cnt : Nat) (w : World), Env F w → Has (w.srcs s) items →
      ∃ w', Std.skipTo s d cnt w = (.ok (cnt + min d items.length, decide (d ≤ items.length)), w') ∧ Env F w'
        ∧ Has (w'.srcs s) (items.drop d) ∧ yields w'.vis = yields w.vis := by
  intro d
  induction d with
  | zero => intro items cnt w he hs; exact ⟨w, by simp [Std.skipTo, pure_apply], he, by simpa using hs, rfl⟩
  | succ d ih =>
    intro items cnt w he hs
    cases items with
    | nil =>
      obtain ⟨w1, hp, he1, hs1, _, hy1⟩ := pull_nil he hs
      exact ⟨w1, by simp [Std.skipTo, bind_apply, hp, pure_apply], he1, by simpa using hs1, hy1⟩
    | cons x xs =>
      obtain ⟨w1, hp, he1, hs1, _, hy1⟩ := pull_cons he hs
      obtain ⟨w2, hc, he2, hs2, hy2⟩ := ih xs (cnt + 1) w1 he1 hs1
      refine ⟨w2, ?_, he2, by simpa using hs2, by rw [hy2, hy1]⟩
      simp only [Std.skipTo, bind_apply, hp, hc, List.length_cons]
      have e1 : cnt + 1 + min d xs.length = cnt + min (d + 1) (xs.length + 1) := by omega
      have e2 : decide (d ≤ xs.length) = decide (d + 1 ≤ xs.length + 1) := by simp
      rw [e1, e2]

/-- `l` cut at the absolute index `stop`, when its head has the absolute index `next` -/
def cutAt (stop : Option Nat) (next : Nat) (l : List Val) : List Val :=
  match stop with
  | some st => l.take (st - next)
  | none => l

/-- one round of `isliceLoop`, given what the recursive call does on a shorter rest -/
theorem isliceLoop_step {F : Nat → FnBeh} (s : Nat) (stop : Option Nat) (step : Nat) (hstep : 1 ≤ step)
    (items : List Val) (cnt next : Nat) (fuel : Nat) (w : World) (he : Env F w)
    (hs : Has (w.srcs s) items) (hcn : cnt ≤ next)
    (hrec : ∀ (rest : List Val) (cnt' next' : Nat) (w3 : World), Env F w3 → Has (w3.srcs s) rest →
      rest.length < items.length → cnt' ≤ next' →
      ∃ w', Std.isliceLoop s stop step cnt' next' fuel w3 = (.ok (), w') ∧ Env F w'
        ∧ yields w'.vis = yields w3.vis ++ stride step 0 (cutAt stop next' (rest.drop (next' - cnt')))) :
    ∃ w', Std.isliceLoop s stop step cnt next (fuel + 1) w = (.ok (), w') ∧ Env F w'
      ∧ yields w'.vis = yields w.vis ++ stride step 0 (cutAt stop next (items.drop (next - cnt))) := by
  obtain ⟨w1, hsk, he1, hs1, hy1⟩ := skipTo_spec s (next - cnt) items cnt w he hs
  by_cases hd : next - cnt ≤ items.length
  · have hcnt : cnt + min (next - cnt) items.length = next := by omega
    rw [hcnt] at hsk
    cases stop with
    | none =>
      cases hrem : items.drop (next - cnt) with
      | nil =>
        rw [hrem] at hs1
        obtain ⟨w2, hp, he2, _, _, hy2⟩ := pull_nil he1 hs1
        exact ⟨w2, by simp [Std.isliceLoop, bind_apply, hsk, hd, hp, pure_apply], he2,
          by simp [cutAt, stride_nil, hy2, hy1]⟩
      | cons x rest =>
        rw [hrem] at hs1
        obtain ⟨w2, hp, he2, hs2, _, hy2⟩ := pull_cons he1 hs1
        obtain ⟨w3, hyv, he3, hs3, hy3⟩ := yieldV_ok x he2
        have hlen : rest.length < items.length := by
          have : (items.drop (next - cnt)).length = rest.length + 1 := by rw [hrem]; simp
          simp at this; omega
        obtain ⟨w4, hl, he4, hy4⟩ := hrec rest (next + 1) (next + step) w3 he3
          (by rw [hs3]; exact hs2) hlen (by omega)
        refine ⟨w4, ?_, he4, ?_⟩
        · simp [Std.isliceLoop, bind_apply, hsk, hd, hp, hyv, hl]
        · rw [hy4, hy3, hy2, hy1]
          simp only [cutAt]
          rw [stride_step hstep]
          simp [show next + step - (next + 1) = step - 1 by omega]
    | some st =>
      by_cases hstop : st ≤ next
      · -- reached `stop`
        have : st - next = 0 := by omega
        exact ⟨w1, by simp [Std.isliceLoop, bind_apply, hsk, hd, hstop, pure_apply], he1,
          by simp [cutAt, this, stride_nil, hy1]⟩
      · cases hrem : items.drop (next - cnt) with
        | nil =>
          rw [hrem] at hs1
          obtain ⟨w2, hp, he2, _, _, hy2⟩ := pull_nil he1 hs1
          exact ⟨w2, by simp [Std.isliceLoop, bind_apply, hsk, hd, hstop, hp, pure_apply], he2,
            by simp [cutAt, stride_nil, hy2, hy1]⟩
        | cons x rest =>
          rw [hrem] at hs1
          obtain ⟨w2, hp, he2, hs2, _, hy2⟩ := pull_cons he1 hs1
          obtain ⟨w3, hyv, he3, hs3, hy3⟩ := yieldV_ok x he2
          have hlen : rest.length < items.length := by
            have : (items.drop (next - cnt)).length = rest.length + 1 := by rw [hrem]; simp
            simp at this; omega
          obtain ⟨w4, hl, he4, hy4⟩ := hrec rest (next + 1) (if next + step > st then st else next + step)
            w3 he3 (by rw [hs3]; exact hs2) hlen (by split <;> omega)
          refine ⟨w4, ?_, he4, ?_⟩
          · simp [Std.isliceLoop, bind_apply, hsk, hd, hstop, hp, hyv, hl]
          · rw [hy4, hy3, hy2, hy1]
            simp only [cutAt]
            have e1 : st - next = (st - next - 1) + 1 := by omega
            rw [e1, List.take_succ_cons, stride_step hstep, List.drop_take]
            by_cases hcap : next + step > st
            · rw [if_pos hcap]
              have z1 : st - next - 1 - (step - 1) = 0 := by omega
              have z2 : st - st = 0 := by omega
              simp [z1, z2, stride_nil]
            · rw [if_neg hcap]
              have z1 : st - next - 1 - (step - 1) = st - (next + step) := by omega
              have z2 : next + step - (next + 1) = step - 1 := by omega
              simp [z1, z2]
  · -- the source ends while skipping
    refine ⟨w1, ?_, he1, ?_⟩
    · simp [Std.isliceLoop, bind_apply, hsk, hd, pure_apply]
    · have hdrop : items.drop (next - cnt) = [] := List.drop_of_length_le (by omega)
      rw [hdrop, hy1]
      cases stop <;> simp [cutAt, stride_nil]

theorem isliceLoop_spec {F : Nat → FnBeh} (s : Nat) (stop : Option Nat) (step : Nat) (hstep : 1 ≤ step) :
    ∀ (k : Nat) (items : List Val) (cnt next : Nat) (fuel : Nat) (w : World), Env F w →
      Has (w.srcs s) items → items.length ≤ k → k < fuel → cnt ≤ next →
      ∃ w', Std.isliceLoop s stop step cnt next fuel w = (.ok (), w') ∧ Env F w'
        ∧ yields w'.vis = yields w.vis ++ stride step 0 (cutAt stop next (items.drop (next - cnt))) := by
  intro k
  induction k with
  | zero =>
    intro items cnt next fuel w he hs hk hf hcn
    cases fuel with
    | zero => simp at hf
    | succ fuel =>
      exact isliceLoop_step s stop step hstep items cnt next fuel w he hs hcn
        (fun rest _ _ _ _ _ hlt _ => by omega)
  | succ k ih =>
    intro items cnt next fuel w he hs hk hf hcn
    cases fuel with
    | zero => simp at hf
    | succ fuel =>
      exact isliceLoop_step s stop step hstep items cnt next fuel w he hs hcn
        (fun rest cnt' next' w3 he3 hs3 hlt hcn' => ih rest cnt' next' fuel w3 he3 hs3 (by omega) (by omega) hcn')

theorem islice_spec {F : Nat → FnBeh} (s : Nat) (start : Nat) (stop : Option Nat) (step : Nat) (hstep : 1 ≤ step)
    (items : List Val) (fuel : Nat) (w : World) (he : Env F w) (hs : Has (w.srcs s) items)
    (hf : items.length < fuel) :
    ∃ w', Std.islice s start stop step fuel w = (.ok (), w') ∧ Env F w'
      ∧ yields w'.vis = yields w.vis ++ ListSpec.islice start stop step items := by
  obtain ⟨w', h, he', hy⟩ := isliceLoop_spec s stop step hstep items.length items 0 start fuel w he hs
    (Nat.le_refl _) hf (Nat.zero_le _)
  refine ⟨w', h, he', ?_⟩
  rw [hy]
  cases stop with
  | none => simp [cutAt, stride, ListSpec.islice]
  | some st => simp [cutAt, stride, ListSpec.islice, List.drop_take]

theorem idxLoop_none_spec {F : Nat → FnBeh} (s step : Nat) :
    ∀ (items : List Val) (idx fuel : Nat) (w : World), Env F w → Has (w.srcs s) items → items.length < fuel →
      ∃ w', Impl.idxLoop s step none idx fuel w = (.ok (), w') ∧ Env F w'
        ∧ yields w'.vis = yields w.vis ++ stride step idx items := by
  intro items
  induction items with
  | nil =>
    intro idx fuel w he hs hf
    cases fuel with
    | zero => simp at hf
    | succ fuel =>
      obtain ⟨w1, hp, he1, _, _, hy1⟩ := pull_nil he hs
      exact ⟨w1, by simp [Impl.idxLoop, bind_apply, hp, pure_apply], he1, by simp [hy1, stride_nil]⟩
  | cons x xs ih =>
    intro idx fuel w he hs hf
    cases fuel with
    | zero => simp at hf
    | succ fuel =>
      have hf' : xs.length < fuel := by simp at hf; omega
      obtain ⟨w1, hp, he1, hs1, _, hy1⟩ := pull_cons he hs
      by_cases hit : idx % step = 0
      · obtain ⟨w2, hyv, he2, hs2, hy2⟩ := yieldV_ok x he1
        obtain ⟨w3, hl, he3, hy3⟩ := ih (idx + 1) fuel w2 he2 (by rw [hs2]; exact hs1) hf'
        exact ⟨w3, by simp [Impl.idxLoop, bind_apply, hp, hit, hyv, hl], he3,
          by rw [hy3, hy2, hy1, stride_cons_hit hit]; simp⟩
      · obtain ⟨w3, hl, he3, hy3⟩ := ih (idx + 1) fuel w1 he1 hs1 hf'
        exact ⟨w3, by simp [Impl.idxLoop, bind_apply, hp, hit, hl], he3,
          by rw [hy3, hy1, stride_cons_miss hit]⟩

theorem idxLoop_some_spec {F : Nat → FnBeh} (s step l : Nat) :
    ∀ (items : List Val) (idx fuel : Nat) (w : World), Env F w → Has (w.srcs s) items → items.length < fuel →
      idx ≤ l →
      ∃ w', Impl.idxLoop s step (some l) idx fuel w = (.ok (), w') ∧ Env F w'
        ∧ yields w'.vis = yields w.vis ++ stride step idx (items.take (l + 1 - idx)) := by
  intro items
  induction items with
  | nil =>
    intro idx fuel w he hs hf _
    cases fuel with
    | zero => simp at hf
    | succ fuel =>
      obtain ⟨w1, hp, he1, _, _, hy1⟩ := pull_nil he hs
      exact ⟨w1, by simp [Impl.idxLoop, bind_apply, hp, pure_apply], he1, by simp [hy1, stride_nil]⟩
  | cons x xs ih =>
    intro idx fuel w he hs hf hle
    cases fuel with
    | zero => simp at hf
    | succ fuel =>
      have hf' : xs.length < fuel := by simp at hf; omega
      obtain ⟨w1, hp, he1, hs1, _, hy1⟩ := pull_cons he hs
      have e1 : l + 1 - idx = (l - idx) + 1 := by omega
      rw [e1, List.take_succ_cons]
      by_cases hlast : l ≤ idx
      · have z : l - idx = 0 := by omega
        rw [z, List.take_zero]
        by_cases hit : idx % step = 0
        · obtain ⟨w2, hyv, he2, _, hy2⟩ := yieldV_ok x he1
          exact ⟨w2, by simp [Impl.idxLoop, bind_apply, hp, hit, hyv, hlast, pure_apply], he2,
            by rw [hy2, hy1, stride_cons_hit hit]; simp [stride_nil]⟩
        · exact ⟨w1, by simp [Impl.idxLoop, bind_apply, hp, hit, hlast, pure_apply], he1,
            by rw [hy1, stride_cons_miss hit]; simp [stride_nil]⟩
      · have e2 : l - idx = l + 1 - (idx + 1) := by omega
        rw [e2]
        by_cases hit : idx % step = 0
        · obtain ⟨w2, hyv, he2, hs2, hy2⟩ := yieldV_ok x he1
          obtain ⟨w3, hl, he3, hy3⟩ := ih (idx + 1) fuel w2 he2 (by rw [hs2]; exact hs1) hf' (by omega)
          exact ⟨w3, by simp [Impl.idxLoop, bind_apply, hp, hit, hyv, hlast, hl], he3,
            by rw [hy3, hy2, hy1, stride_cons_hit hit]; simp⟩
        · obtain ⟨w3, hl, he3, hy3⟩ := ih (idx + 1) fuel w1 he1 hs1 hf' (by omega)
          exact ⟨w3, by simp [Impl.idxLoop, bind_apply, hp, hit, hlast, hl], he3,
            by rw [hy3, hy1, stride_cons_miss hit]⟩

theorem scopedIter_run {F : Nat → FnBeh} {α : Type} (s : Nat) (body : M α) (a : α) (w : World) (Y : List Val)
    (h : ∃ w1, body w = (.ok a, w1) ∧ Env F w1 ∧ yields w1.vis = Y) :
    ∃ w', scopedIter s body w = (.ok a, w') ∧ Env F w' ∧ yields w'.vis = Y := by
  obtain ⟨w1, hb, he1, hy1⟩ := h
  obtain ⟨w2, hsc, he2, _, hv2⟩ := scopedIter_ok s body a hb he1
  exact ⟨w2, hsc, he2, by rw [hv2, hy1]⟩

theorem implIslice_spec {F : Nat → FnBeh} (s : Nat) (start : Nat) (stop : Option Nat) (step : Nat)
    (items : List Val) (fuel : Nat) (w : World) (he : Env F w) (hs : Has (w.srcs s) items)
    (hf : items.length < fuel) :
    ∃ w', Impl.islice s start stop step fuel w = (.ok (), w') ∧ Env F w'
      ∧ yields w'.vis = yields w.vis ++ ListSpec.islice start stop step items := by
  unfold Impl.islice
  apply scopedIter_run
  have hdl : (items.drop start).length < fuel := by simp; omega
  cases stop with
  | none =>
    have hcont : ∀ w1, Env F w1 → Has (w1.srcs s) (items.drop start) → yields w1.vis = yields w.vis →
        ∃ w2, (if (!decide (start ≤ items.length)) = true then (pure () : M Unit)
          else Impl.idxLoop s step none 0 fuel) w1 = (.ok (), w2) ∧ Env F w2
          ∧ yields w2.vis = yields w.vis ++ ListSpec.islice start none step items := by
      intro w1 he1 hs1 hy1
      by_cases hok : start ≤ items.length
      · obtain ⟨w2, hl, he2, hy2⟩ := idxLoop_none_spec s step (items.drop start) 0 fuel w1 he1 hs1 hdl
        exact ⟨w2, by simp [hok, hl], he2, by rw [hy2, hy1]; simp [ListSpec.islice, stride]⟩
      · refine ⟨w1, by simp [hok, pure_apply], he1, ?_⟩
        have hdrop : items.drop start = [] := List.drop_of_length_le (by omega)
        simp [hy1, ListSpec.islice, hdrop]
    by_cases h0 : start > 0
    · obtain ⟨w1, hsk, he1, hs1, hy1⟩ := skipTo_spec s start items 0 w he hs
      obtain ⟨w2, hc, he2, hy2⟩ := hcont w1 he1 hs1 hy1
      exact ⟨w2, by simpa [h0, bind_apply, hsk, pure_apply] using hc, he2, hy2⟩
    · have : start = 0 := by omega
      subst this
      obtain ⟨w2, hc, he2, hy2⟩ := hcont w he (by simpa using hs) rfl
      exact ⟨w2, by simpa [bind_apply, pure_apply] using hc, he2, hy2⟩
  | some st =>
    have hcont : ∀ w1, Env F w1 → Has (w1.srcs s) (items.drop start) → yields w1.vis = yields w.vis →
        ∃ w2, (if (!decide (start ≤ items.length)) = true then (pure () : M Unit)
          else if st ≤ start then pure () else Impl.idxLoop s step (some (st - start - 1)) 0 fuel) w1
          = (.ok (), w2) ∧ Env F w2
          ∧ yields w2.vis = yields w.vis ++ ListSpec.islice start (some st) step items := by
      intro w1 he1 hs1 hy1
      by_cases hok : start ≤ items.length
      · by_cases hst : st ≤ start
        · refine ⟨w1, by simp [hok, hst, pure_apply], he1, ?_⟩
          have : st - start = 0 := by omega
          simp [hy1, ListSpec.islice, List.drop_take, this]
        · obtain ⟨w2, hl, he2, hy2⟩ := idxLoop_some_spec s step (st - start - 1) (items.drop start) 0 fuel w1
            he1 hs1 hdl (Nat.zero_le _)
          refine ⟨w2, by simp [hok, hst, hl], he2, ?_⟩
          rw [hy2, hy1]
          have : st - start - 1 + 1 - 0 = st - start := by omega
          simp [ListSpec.islice, stride, List.drop_take, this]
      · refine ⟨w1, by simp [hok, pure_apply], he1, ?_⟩
        have hdrop : items.drop start = [] := List.drop_of_length_le (by omega)
        simp [hy1, ListSpec.islice, List.drop_take, hdrop]
    by_cases h0 : start > 0
    · obtain ⟨w1, hsk, he1, hs1, hy1⟩ := skipTo_spec s start items 0 w he hs
      obtain ⟨w2, hc, he2, hy2⟩ := hcont w1 he1 hs1 hy1
      exact ⟨w2, by simpa [h0, bind_apply, hsk, pure_apply] using hc, he2, hy2⟩
    · have : start = 0 := by omega
      subst this
      obtain ⟨w2, hc, he2, hy2⟩ := hcont w he (by simpa using hs) rfl
      exact ⟨w2, by simpa [bind_apply, pure_apply] using hc, he2, hy2⟩

/-! ## zip_longest -/

/-- the sources still marked active that turn out to have ended in this row -/
def ended (I : Nat → List Val) (l : List (Nat × Bool)) : Nat :=
  l.countP (fun p => p.2 && (I p.1).isEmpty)

/-- the marks after a row -/
def remark (I : Nat → List Val) (l : List (Nat × Bool)) : List (Nat × Bool) :=
  l.map (fun p => (p.1, p.2 && !(I p.1).isEmpty))

theorem longestRow_some {F : Nat → FnBeh} (fillv : Val) (I : Nat → List Val) :
    ∀ (l : List (Nat × Bool)) (acc : List Val) (done : List (Nat × Bool)) (na : Nat) (w : World),
      Env F w → (l.map Prod.fst).Nodup → (∀ p ∈ l, Has (w.srcs p.1) (I p.1)) →
      (∀ p ∈ l, p.2 = false → I p.1 = []) → ended I l < na →
      ∃ w', Std.longestRow fillv l acc done na w
          = (.ok (some (acc ++ ListSpec.column fillv (l.map (fun p => I p.1)), done ++ remark I l,
              na - ended I l)), w')
        ∧ Env F w' ∧ (∀ p ∈ l, Has (w'.srcs p.1) (I p.1).tail)
        ∧ (∀ t, t ∉ l.map Prod.fst → w'.srcs t = w.srcs t) ∧ yields w'.vis = yields w.vis := by
  intro l
  induction l with
  | nil =>
    intro acc done na w he _ _ _ _
    exact ⟨w, by simp [Std.longestRow, pure_apply, ListSpec.column, remark, ended], he, by simp,
      fun _ _ => rfl, rfl⟩
  | cons p rest ih =>
    intro acc done na w he hnd hh hfl hna
    obtain ⟨s, b⟩ := p
    simp only [List.map_cons, List.nodup_cons] at hnd
    obtain ⟨hs_notin, hnd'⟩ := hnd
    have hs := hh (s, b) (by simp)
    have hrest : ∀ w1 : World, (∀ t, t ≠ s → w1.srcs t = w.srcs t) →
        ∀ p ∈ rest, Has (w1.srcs p.1) (I p.1) := by
      intro w1 ho p hp
      have : p.1 ≠ s := fun h => hs_notin (List.mem_map.mpr ⟨p, hp, h⟩)
      rw [ho p.1 this]; exact hh p (by simp [hp])
    have hfl' : ∀ p ∈ rest, p.2 = false → I p.1 = [] := fun p hp => hfl p (by simp [hp])
    have hfinish : ∀ (w1 w2 : World), (∀ t, t ≠ s → w1.srcs t = w.srcs t) → Has (w1.srcs s) (I s).tail →
        (∀ p ∈ rest, Has (w2.srcs p.1) (I p.1).tail) →
        (∀ t, t ∉ rest.map Prod.fst → w2.srcs t = w1.srcs t) →
        (∀ p ∈ (s, b) :: rest, Has (w2.srcs p.1) (I p.1).tail)
          ∧ (∀ t, t ∉ s :: rest.map Prod.fst → w2.srcs t = w.srcs t) := by
      intro w1 w2 ho1 hs1 hs2 ho2
      refine ⟨?_, ?_⟩
      · intro p hp
        rcases List.mem_cons.mp hp with rfl | hp
        · simp only; rw [ho2 s hs_notin]; exact hs1
        · exact hs2 p hp
      · intro t ht
        have h1 : t ≠ s := fun h => ht (by simp [h])
        have h2 : t ∉ rest.map Prod.fst := fun h => ht (by simp [h])
        rw [ho2 t h2, ho1 t h1]
    cases b with
    | false =>
      have hI : I s = [] := hfl (s, false) (by simp) rfl
      have hend : ended I ((s, false) :: rest) = ended I rest := by simp [ended]
      rw [hend] at hna ⊢
      obtain ⟨w2, hr, he2, hs2, ho2, hy2⟩ := ih (acc ++ [fillv]) (done ++ [(s, false)]) na w he hnd'
        (hrest w (fun _ _ => rfl)) hfl' hna
      obtain ⟨h1, h2⟩ := hfinish w w2 (fun _ _ => rfl) (by simpa [hI] using hs) hs2 ho2
      refine ⟨w2, ?_, he2, h1, by simpa using h2, hy2⟩
      simp [Std.longestRow, hr, ListSpec.column, hI, remark]
    | true =>
      simp only at hs
      cases hI : I s with
      | nil =>
        rw [hI] at hs
        have hend : ended I ((s, true) :: rest) = ended I rest + 1 := by simp [ended, hI]
        rw [hend] at hna ⊢
        obtain ⟨w1, hp, he1, hs1, ho1, hy1⟩ := pull_nil he hs
        obtain ⟨w2, hr, he2, hs2, ho2, hy2⟩ := ih (acc ++ [fillv]) (done ++ [(s, false)]) (na - 1) w1 he1 hnd'
          (hrest w1 ho1) hfl' (by omega)
        obtain ⟨h1, h2⟩ := hfinish w1 w2 ho1 (by simpa [hI] using hs1) hs2 ho2
        refine ⟨w2, ?_, he2, h1, by simpa using h2, by rw [hy2, hy1]⟩
        have hna' : ¬ na - 1 = 0 := by omega
        have e : na - 1 - ended I rest = na - (ended I rest + 1) := by omega
        simp [Std.longestRow, bind_apply, hp, hna', hr, ListSpec.column, hI, remark, e]
      | cons x xs =>
        rw [hI] at hs
        have hend : ended I ((s, true) :: rest) = ended I rest := by simp [ended, hI]
        rw [hend] at hna ⊢
        obtain ⟨w1, hp, he1, hs1, ho1, hy1⟩ := pull_cons he hs
        obtain ⟨w2, hr, he2, hs2, ho2, hy2⟩ := ih (acc ++ [x]) (done ++ [(s, true)]) na w1 he1 hnd'
          (hrest w1 ho1) hfl' hna
        obtain ⟨h1, h2⟩ := hfinish w1 w2 ho1 (by simpa [hI] using hs1) hs2 ho2
        refine ⟨w2, ?_, he2, h1, by simpa using h2, by rw [hy2, hy1]⟩
        simp [Std.longestRow, bind_apply, hp, hr, ListSpec.column, hI, remark]

theorem longestRow_none {F : Nat → FnBeh} (fillv : Val) (I : Nat → List Val) :
    ∀ (l : List (Nat × Bool)) (acc : List Val) (done : List (Nat × Bool)) (na : Nat) (w : World),
      Env F w → (l.map Prod.fst).Nodup → (∀ p ∈ l, Has (w.srcs p.1) (I p.1)) →
      1 ≤ ended I l → na ≤ ended I l →
      ∃ w', Std.longestRow fillv l acc done na w = (.ok none, w') ∧ Env F w'
        ∧ yields w'.vis = yields w.vis := by
  intro l
  induction l with
  | nil => intro acc done na w _ _ _ h1 _; simp [ended] at h1
  | cons p rest ih =>
    intro acc done na w he hnd hh h1 hna
    obtain ⟨s, b⟩ := p
    simp only [List.map_cons, List.nodup_cons] at hnd
    obtain ⟨hs_notin, hnd'⟩ := hnd
    have hs := hh (s, b) (by simp)
    have hrest : ∀ w1 : World, (∀ t, t ≠ s → w1.srcs t = w.srcs t) →
        ∀ p ∈ rest, Has (w1.srcs p.1) (I p.1) := by
      intro w1 ho p hp
      have : p.1 ≠ s := fun h => hs_notin (List.mem_map.mpr ⟨p, hp, h⟩)
      rw [ho p.1 this]; exact hh p (by simp [hp])
    cases b with
    | false =>
      have hend : ended I ((s, false) :: rest) = ended I rest := by simp [ended]
      rw [hend] at hna h1
      obtain ⟨w2, hr, he2, hy2⟩ := ih (acc ++ [fillv]) (done ++ [(s, false)]) na w he hnd'
        (hrest w (fun _ _ => rfl)) h1 hna
      exact ⟨w2, by simp [Std.longestRow, hr], he2, hy2⟩
    | true =>
      simp only at hs
      cases hI : I s with
      | nil =>
        rw [hI] at hs
        have hend : ended I ((s, true) :: rest) = ended I rest + 1 := by simp [ended, hI]
        rw [hend] at hna
        obtain ⟨w1, hp, he1, _, ho1, hy1⟩ := pull_nil he hs
        by_cases hz : na - 1 = 0
        · exact ⟨w1, by simp [Std.longestRow, bind_apply, hp, hz, pure_apply], he1, hy1⟩
        · obtain ⟨w2, hr, he2, hy2⟩ := ih (acc ++ [fillv]) (done ++ [(s, false)]) (na - 1) w1 he1 hnd'
            (hrest w1 ho1) (by omega) (by omega)
          exact ⟨w2, by simp [Std.longestRow, bind_apply, hp, hz, hr], he2, by rw [hy2, hy1]⟩
      | cons x xs =>
        rw [hI] at hs
        have hend : ended I ((s, true) :: rest) = ended I rest := by simp [ended, hI]
        rw [hend] at hna h1
        obtain ⟨w1, hp, he1, _, ho1, hy1⟩ := pull_cons he hs
        obtain ⟨w2, hr, he2, hy2⟩ := ih (acc ++ [x]) (done ++ [(s, true)]) na w1 he1 hnd'
          (hrest w1 ho1) h1 hna
        exact ⟨w2, by simp [Std.longestRow, bind_apply, hp, hr], he2, by rw [hy2, hy1]⟩

theorem countP_split (I : Nat → List Val) (l : List (Nat × Bool)) :
    l.countP (fun p => p.2 && (I p.1).isEmpty) + l.countP (fun p => p.2 && !(I p.1).isEmpty)
      = l.countP (fun p => p.2) := by
  induction l with
  | nil => rfl
  | cons p rest ih =>
    simp only [List.countP_cons]
    cases p.2 <;> cases (I p.1).isEmpty <;> simp <;> omega

theorem ended_add_remark (I : Nat → List Val) (l : List (Nat × Bool)) :
    ended I l + (remark I l).countP (fun p => p.2) = l.countP (fun p => p.2) := by
  have h := countP_split I l
  simpa [ended, remark, List.countP_map, Function.comp_def] using h

theorem ended_all_empty (I : Nat → List Val) (l : List (Nat × Bool)) (h : ∀ p ∈ l, I p.1 = []) :
    ended I l = l.countP (fun p => p.2) := by
  induction l with
  | nil => rfl
  | cons p rest ih =>
    have ih' := ih (fun p hp => h p (by simp [hp]))
    have hp := h p (by simp)
    simp only [ended] at ih' ⊢
    simp [List.countP_cons, hp, ih']

theorem zipLongestLoop_spec {F : Nat → FnBeh} (fillv : Val) (srcs : List Nat) (hnd : srcs.Nodup) :
    ∀ (n : Nat) (I : Nat → List Val) (st : List (Nat × Bool)) (na : Nat) (fuel : Nat) (w : World), Env F w →
      st.map Prod.fst = srcs → (∀ s ∈ srcs, Has (w.srcs s) (I s)) →
      (∀ p ∈ st, p.2 = false → I p.1 = []) → na = st.countP (fun p => p.2) → 1 ≤ na →
      (∀ s ∈ srcs, (I s).length ≤ n) → (∃ s ∈ srcs, (I s).length = n) → n < fuel →
      ∃ w', Std.zipLongestLoop fillv st na fuel w = (.ok (), w') ∧ Env F w'
        ∧ yields w'.vis = yields w.vis ++ (ListSpec.rowsN fillv n (srcs.map I)).map Val.tup := by
  intro n
  induction n with
  | zero =>
    intro I st na fuel w he hst hh _ hna hna1 hle _ hf
    cases fuel with
    | zero => simp at hf
    | succ fuel =>
      have hall : ∀ p ∈ st, I p.1 = [] := by
        intro p hp
        have : p.1 ∈ srcs := by rw [← hst]; exact List.mem_map.mpr ⟨p, hp, rfl⟩
        exact List.length_eq_zero_iff.mp (Nat.le_zero.mp (hle p.1 this))
      have hend := ended_all_empty I st hall
      obtain ⟨w1, hr, he1, hy1⟩ := longestRow_none fillv I st [] [] na w he (by rw [hst]; exact hnd)
        (fun p hp => hh p.1 (by rw [← hst]; exact List.mem_map.mpr ⟨p, hp, rfl⟩))
        (by omega) (by omega)
      exact ⟨w1, by simp [Std.zipLongestLoop, bind_apply, hr, pure_apply], he1,
        by simp [hy1, ListSpec.rowsN]⟩
  | succ n ih =>
    intro I st na fuel w he hst hh hfl hna hna1 hle hex hf
    cases fuel with
    | zero => simp at hf
    | succ fuel =>
      -- a source that still has items keeps the row going and stays active
      obtain ⟨s0, hs0, hl0⟩ := hex
      have hI0 : I s0 ≠ [] := by intro h; rw [h] at hl0; simp at hl0
      obtain ⟨p0, hp0, hp0s⟩ : ∃ p ∈ st, p.1 = s0 := by
        rw [← hst] at hs0
        obtain ⟨p, hp, h⟩ := List.mem_map.mp hs0
        exact ⟨p, hp, h⟩
      have hb0 : p0.2 = true := by
        cases hb : p0.2 with
        | true => rfl
        | false => exact absurd (hfl p0 hp0 hb) (by rw [hp0s]; exact hI0)
      have hpos : 1 ≤ (remark I st).countP (fun p => p.2) := by
        apply List.countP_pos_iff.mpr
        refine ⟨(p0.1, p0.2 && !(I p0.1).isEmpty), List.mem_map.mpr ⟨p0, hp0, rfl⟩, ?_⟩
        have : (I p0.1).isEmpty = false := by
          rw [hp0s]; cases h : I s0 with
          | nil => exact absurd h hI0
          | cons _ _ => rfl
        simp [hb0, this]
      have hsum := ended_add_remark I st
      obtain ⟨w1, hr, he1, hs1, _, hy1⟩ := longestRow_some fillv I st [] [] na w he (by rw [hst]; exact hnd)
        (fun p hp => hh p.1 (by rw [← hst]; exact List.mem_map.mpr ⟨p, hp, rfl⟩)) hfl (by omega)
      obtain ⟨w2, hyv, he2, hs2, hy2⟩ := yieldV_ok (.tup (ListSpec.column fillv (st.map (fun p => I p.1)))) he1
      have hst' : (remark I st).map Prod.fst = srcs := by
        rw [← hst]; simp [remark, List.map_map, Function.comp_def]
      obtain ⟨w3, hl, he3, hy3⟩ := ih (fun s => (I s).tail) (remark I st) (na - ended I st) fuel w2 he2 hst'
        (fun s hs => by
          rw [hs2]
          rw [← hst] at hs
          obtain ⟨p, hp, h⟩ := List.mem_map.mp hs
          rw [← h]; exact hs1 p hp)
        (fun p hp hb => by
          obtain ⟨p', hp', rfl⟩ := List.mem_map.mp hp
          simp only at hb ⊢
          cases hb' : p'.2 with
          | false => rw [hfl p' hp' hb']; rfl
          | true =>
            rw [hb'] at hb
            cases hI : I p'.1 with
            | nil => rfl
            | cons _ _ => rw [hI] at hb; simp at hb)
        (by omega) (by omega)
        (fun s hs => by have := hle s hs; simp; omega)
        ⟨s0, hs0, by simp; omega⟩
        (by omega)
      have hcol : st.map (fun p => I p.1) = srcs.map I := by
        rw [← hst]; simp [List.map_map, Function.comp_def]
      refine ⟨w3, by simp [Std.zipLongestLoop, bind_apply, hr, hyv, hl], he3, ?_⟩
      rw [hy3, hy2, hy1, hcol]
      simp [ListSpec.rowsN, List.map_map, Function.comp_def]

theorem zipLongest_spec {F : Nat → FnBeh} (fillv : Val) (srcs : List Nat) (hnd : srcs.Nodup)
    (I : Nat → List Val) (fuel : Nat) (w : World) (he : Env F w)
    (hh : ∀ s ∈ srcs, Has (w.srcs s) (I s)) (hf : ListSpec.maxLen (srcs.map I) < fuel) :
    ∃ w', Std.zipLongest fillv srcs fuel w = (.ok (), w') ∧ Env F w'
      ∧ yields w'.vis = yields w.vis ++ ListSpec.zipLongest fillv (srcs.map I) := by
  by_cases hne : srcs = []
  · subst hne
    exact ⟨w, by simp [Std.zipLongest, pure_apply], he,
      by simp [ListSpec.zipLongest, ListSpec.maxLen, ListSpec.rowsN]⟩
  · obtain ⟨h1, l, hl, h2⟩ := maxLen_spec (ls := srcs.map I) (by simpa using hne)
    obtain ⟨s, hs, rfl⟩ := List.mem_map.mp hl
    have hlen : 1 ≤ srcs.length := by
      cases srcs with
      | nil => exact absurd rfl hne
      | cons _ _ => simp
    obtain ⟨w', h, he', hy⟩ := zipLongestLoop_spec fillv srcs hnd _ I (srcs.map (·, true)) srcs.length fuel w he
      (by simp [List.map_map, Function.comp_def]) hh (by simp)
      (by simp [List.countP_map, Function.comp_def]) hlen
      (fun t ht => h1 _ (List.mem_map.mpr ⟨t, ht, rfl⟩)) ⟨s, hs, h2⟩ hf
    exact ⟨w', by simpa [Std.zipLongest, hne] using h, he', by rw [hy]; rfl⟩

end AsyncVerif.V1
