import AsyncVerif.Machines.CachedPropertyHandoff
import AsyncVerif.Proofs.CachedPropertyMono
/-!
# cached_property under a hand-off lock — invariant of reachable states and helper lemmas
(used by Properties/C12Handoff.lean)

The base component of the hand-off machine moves by steps of the plain machine (or not at all), so
the plain invariant `Inv` is inherited; on top of it: tasks inside `__aexit__` sit at a finished or
`entered` continuation, the last returned run's value is in the slot, and (with a lock) the number
of getter starts since the last `del` is bounded by the number of failures since then plus one.
-/
namespace AsyncVerif.CachedPropertyHandoff
open AsyncVerif.CachedProperty

/-! ## two-state facts about the plain machine -/

/-- a plain step that neither starts nor ends a getter run and deletes nothing -/
structure Quiet (b b' : State) : Prop where
  slot : ∀ i, b'.slot i = b.slot i ∨ (b.slot i = none ∧ b'.slot i = some (.ph b.nextP))
  getter_fwd : ∀ t p r k, b.pc t = .getter p r k → ∃ k', b'.pc t = .getter p r k'
  getter_bwd : ∀ t p r k, b'.pc t = .getter p r k → ∃ k', b.pc t = .getter p r k'
  dels : b'.dels = b.dels
  nruns : b'.nRuns = b.nRuns
  run : b'.run = b.run

theorem Quiet.refl (b : State) : Quiet b b := by
  constructor <;> grind

theorem access_quiet (s : State) (i : Nat) : Quiet s (access s i).1 := by
  rcases access_cases s i with ⟨x, _, he⟩ | ⟨hn, he⟩ <;> rw [he]
  · exact Quiet.refl s
  · constructor <;> simp only [newPh] <;> grind

theorem Quiet.trans_pc {b b1 b' : State} (h : Quiet b b1) (hs : b'.slot = b1.slot)
    (hf : ∀ t p r k, b1.pc t = .getter p r k → ∃ k', b'.pc t = .getter p r k')
    (hb : ∀ t p r k, b'.pc t = .getter p r k → ∃ k', b1.pc t = .getter p r k')
    (hd : b'.dels = b1.dels ∧ b'.nRuns = b1.nRuns ∧ b'.run = b1.run) : Quiet b b' := by
  obtain ⟨a1, a2, a3, a4, a5, a6⟩ := h
  constructor
  · intro i; rw [hs]; exact a1 i
  · intro t p r k hk; obtain ⟨k1, h1⟩ := a2 t p r k hk; exact hf t p r k1 h1
  · intro t p r k hk; obtain ⟨k1, h1⟩ := hb t p r k hk; exact a3 t p r k1 h1
  · rw [hd.1, a4]
  · rw [hd.2.1, a5]
  · rw [hd.2.2, a6]

/-- every micro-step except "a getter run starts" and "the getter run ends" is quiet -/
theorem micro_quiet (cfg : Cfg) (s : State) (t : Nat)
    (h1 : ∀ p, s.pc t = .holding p → (instanceValue s p).2 ≠ .ph p)
    (h2 : ∀ p r, s.pc t ≠ .getter p r 0) : Quiet s (micro cfg s t).1 := by
  unfold micro
  split
  · exact Quiet.refl s
  · exact Quiet.refl s
  · constructor <;> simp only [setPc] <;> grind
  · constructor <;> simp only [setPc] <;> grind
  · rename_i p hpc
    have hm := access_quiet s (s.phInst p)
    have hpc' := access_pc s (s.phInst p)
    unfold instanceValue
    generalize access s (s.phInst p) = r at hm hpc'
    obtain ⟨s1, x⟩ := r
    simp only at hm hpc' ⊢
    refine Quiet.trans_pc hm ?_ ?_ ?_ ?hd
    · split
      · split
        · split <;> rfl
        · rfl
      · cases x <;> rfl
    case hd =>
      split
      · split
        · split <;> exact ⟨rfl, rfl, rfl⟩
        · exact ⟨rfl, rfl, rfl⟩
      · cases x <;> exact ⟨rfl, rfl, rfl⟩
    all_goals
      split
      · split
        · split <;> simp only [setPc, setLock] <;> grind
        · simp only [setPc] <;> grind
      · cases x <;> simp only [awaitStored, setPc] <;> grind
  · split
    · exact Quiet.refl s
    · constructor <;> simp only [setPc, setLock] <;> grind
  · rename_i p hpc
    have hne := h1 p hpc
    have hm := access_quiet s (s.phInst p)
    have hpc' := access_pc s (s.phInst p)
    unfold instanceValue at hne ⊢
    generalize access s (s.phInst p) = r at hm hpc' hne
    obtain ⟨s1, x⟩ := r
    simp only at hm hpc' hne ⊢
    rw [if_neg hne]
    refine Quiet.trans_pc hm ?_ ?_ ?_ ?hd
    · cases x <;> cases hl : cfg.lock <;> simp [awaitStored, release, hl, setPc, setLock]
    case hd => cases x <;> cases hl : cfg.lock <;> simp [awaitStored, release, hl, setPc, setLock]
    all_goals
      cases x <;> cases hl : cfg.lock <;> simp only [awaitStored, release, hl, setPc, setLock] <;> grind
  · rename_i p r hpc
    exact absurd hpc (h2 p r)
  · constructor <;> simp only [setPc] <;> grind

/-- "a getter run starts": the slot holds this placeholder, nothing but the task's pc and the run
    table changes -/
theorem micro_start (cfg : Cfg) (s : State) (t p : Nat) (h : Inv cfg s) (hpc : s.pc t = .holding p)
    (he : (instanceValue s p).2 = .ph p) :
    s.slot (s.phInst p) = some (.ph p) ∧ (micro cfg s t).1.slot = s.slot ∧
    (micro cfg s t).1.pc = fun t' => if t' = t then .getter p s.nRuns (cfg.susp s.nRuns) else s.pc t' := by
  have hlt := (h.pc_holding t p hpc).1
  have hsl : s.slot (s.phInst p) = some (.ph p) := by
    unfold instanceValue at he
    rcases access_cases s (s.phInst p) with ⟨x, hx, e⟩ | ⟨hn, e⟩
    · rw [e] at he; simp only at he; rw [hx, he]
    · rw [e] at he; simp only [Stored.ph.injEq] at he; omega
  refine ⟨hsl, ?_⟩
  simp [micro, hpc, instanceValue_of_slot s p _ hsl, setPc]

theorem micro_start_runs (cfg : Cfg) (s : State) (t p : Nat) (hpc : s.pc t = .holding p)
    (hsl : s.slot (s.phInst p) = some (.ph p)) :
    (micro cfg s t).1.dels = s.dels ∧ (micro cfg s t).1.nRuns = s.nRuns + 1 ∧
    (micro cfg s t).1.run = fun r' => if r' = s.nRuns then ⟨s.phInst p, p, t, .running⟩ else s.run r' := by
  simp [micro, hpc, instanceValue_of_slot s p _ hsl, setPc]

theorem complete_runs (cfg : Cfg) (s : State) (t p r : Nat) :
    (complete cfg s t p r).1.dels = s.dels ∧ (complete cfg s t p r).1.nRuns = s.nRuns ∧
    (complete cfg s t p r).1.run =
      fun r' => if r' = r then { s.run r with st := if cfg.ok r then .returned else .raised } else s.run r' := by
  cases hl : cfg.lock <;> cases hok : cfg.ok r <;> simp [complete, hok, setPc, setRunSt, release, hl, setLock, setSlot]

theorem micro_getter0 (cfg : Cfg) (s : State) (t p r : Nat) (hpc : s.pc t = .getter p r 0) :
    micro cfg s t = complete cfg s t p r := by
  simp [micro, hpc]

theorem complete_slot_ok (cfg : Cfg) (s : State) (t p r : Nat) (hok : cfg.ok r = true) :
    (complete cfg s t p r).1.slot = fun i' => if i' = s.phInst p then some (.val r) else s.slot i' := by
  cases hl : cfg.lock <;> simp [complete, hok, setPc, setRunSt, release, hl, setSlot, setLock]

theorem complete_slot_fail (cfg : Cfg) (s : State) (t p r : Nat) (hok : cfg.ok r = false) :
    (complete cfg s t p r).1.slot = s.slot := by
  cases hl : cfg.lock <;> simp [complete, hok, setPc, setRunSt, release, hl, setLock]

theorem complete_pc (cfg : Cfg) (s : State) (t p r : Nat) :
    (complete cfg s t p r).1.pc = fun t' => if t' = t then .done (if cfg.ok r then .ok r else .failed r) else s.pc t' := by
  cases hl : cfg.lock <;> cases hok : cfg.ok r <;> simp [complete, hok, setPc, setRunSt, release, hl, setLock, setSlot]

/-! ## the ghost counters -/

/-- with a lock: starts since the last `del` ≤ failures since the last `del` + 1, and no start is
    "in credit" while the slot is empty or holds a placeholder for which no getter is running -/
structure Once (b : State) (st fl : Nat → Nat) : Prop where
  le : ∀ i, st i ≤ fl i + 1
  none : ∀ i, b.slot i = none → st i ≤ fl i
  ph : ∀ i p, b.slot i = some (.ph p) → (∀ t r k, b.pc t ≠ .getter p r k) → st i ≤ fl i

/-- the last run that returned since the last `del` has its value in the slot -/
def LastOk (b : State) (lo : Nat → Option Nat) : Prop := ∀ i r, lo i = some r → b.slot i = some (.val r)

theorem once_quiet {b b' : State} {st fl : Nat → Nat} (h : Once b st fl) (q : Quiet b b') : Once b' st fl := by
  obtain ⟨a1, a2, a3⟩ := h
  obtain ⟨q1, q2, q3⟩ := q
  constructor
  · exact a1
  · intro i hi; rcases q1 i with e | ⟨e, e'⟩
    · exact a2 i (by rw [← e]; exact hi)
    · rw [e'] at hi; cases hi
  · intro i p hi hno; rcases q1 i with e | ⟨e, e'⟩
    · refine a3 i p (by rw [← e]; exact hi) ?_
      intro t r k hk; obtain ⟨k', hk'⟩ := q2 t p r k hk; exact hno t r k' hk'
    · exact a2 i e

theorem lastOk_quiet {b b' : State} {lo : Nat → Option Nat} (h : LastOk b lo) (q : Quiet b b') : LastOk b' lo := by
  intro i r hr
  have := h i r hr
  rcases q.slot i with e | ⟨e, _⟩
  · rw [e]; exact this
  · rw [e] at this; cases this

theorem once_start {b b' : State} {st fl : Nat → Nat} (t p r0 k0 : Nat) (h : Once b st fl)
    (hsl : b.slot (b.phInst p) = some (.ph p)) (hno : ∀ t' r k, b.pc t' ≠ .getter p r k)
    (ht : ∀ p' r k, b.pc t ≠ .getter p' r k)
    (hs : b'.slot = b.slot) (hp : b'.pc = fun t' => if t' = t then .getter p r0 k0 else b.pc t') :
    Once b' (bump st (b.phInst p)) fl := by
  obtain ⟨a1, a2, a3⟩ := h
  constructor
  · intro i; simp only [bump]; split
    · rename_i e; subst e
      have := a3 _ p hsl hno; omega
    · exact a1 i
  · intro i hi; rw [hs] at hi
    have hne : i ≠ b.phInst p := by intro e; subst e; rw [hsl] at hi; cases hi
    simp only [bump, hne, if_false]; exact a2 i hi
  · intro i p1 hi hno'
    rw [hs] at hi
    by_cases e : i = b.phInst p
    · subst e; rw [hsl] at hi; cases hi
      exact absurd (by rw [hp]; simp) (hno' t r0 k0)
    · simp only [bump, e, if_false]
      refine a3 i p1 hi ?_
      intro t' r k hk
      have hne : t' ≠ t := by intro e'; subst e'; exact ht _ _ _ hk
      exact hno' t' r k (by rw [hp]; simp only [hne, if_false]; exact hk)

theorem once_ok {b b' : State} {st fl : Nat → Nat} (t p r : Nat) (x : Res) (h : Once b st fl)
    (hpc : b.pc t = .getter p r 0)
    (hph : ∀ i p, b.slot i = some (.ph p) → b.phInst p = i)
    (hs : b'.slot = fun i' => if i' = b.phInst p then some (.val r) else b.slot i')
    (hp : b'.pc = fun t' => if t' = t then .done x else b.pc t') : Once b' st fl := by
  obtain ⟨a1, a2, a3⟩ := h
  constructor
  · exact a1
  · intro i hi; rw [hs] at hi; simp only at hi
    split at hi
    · cases hi
    · exact a2 i hi
  · intro i p1 hi hno'
    rw [hs] at hi; simp only at hi
    split at hi
    · cases hi
    · rename_i e
      have hpp : p1 ≠ p := by intro e'; subst e'; exact e (hph i _ hi).symm
      refine a3 i p1 hi ?_
      intro t' r' k hk
      have hne : t' ≠ t := by intro e'; subst e'; rw [hpc] at hk; cases hk; exact hpp rfl
      exact hno' t' r' k (by rw [hp]; simp only [hne, if_false]; exact hk)

theorem once_fail {b b' : State} {st fl : Nat → Nat} (t p r k : Nat) (x : Res) (h : Once b st fl)
    (hpc : b.pc t = .getter p r k)
    (hph : ∀ i p, b.slot i = some (.ph p) → b.phInst p = i)
    (hs : b'.slot = b.slot)
    (hp : b'.pc = fun t' => if t' = t then .done x else b.pc t') : Once b' st (bump fl (b.phInst p)) := by
  obtain ⟨a1, a2, a3⟩ := h
  constructor
  · intro i; have := a1 i; simp only [bump]; split
    · rename_i e; subst e; omega
    · omega
  · intro i hi; rw [hs] at hi; have := a2 i hi; simp only [bump]; split
    · rename_i e; subst e; omega
    · omega
  · intro i p1 hi hno'
    rw [hs] at hi
    by_cases e : i = b.phInst p
    · subst e; have := a1 (b.phInst p); simp only [bump, if_true]; omega
    · have hpp : p1 ≠ p := by intro e'; subst e'; exact e (hph i _ hi).symm
      simp only [bump, e, if_false]
      refine a3 i p1 hi ?_
      intro t' r' k' hk
      have hne : t' ≠ t := by intro e'; subst e'; rw [hpc] at hk; cases hk; exact hpp rfl
      exact hno' t' r' k' (by rw [hp]; simp only [hne, if_false]; exact hk)

theorem once_del {b : State} {st fl : Nat → Nat} (i : Nat) (h : Once b st fl) :
    Once (delSlot b i) (setAt st i 0) (setAt fl i 0) := by
  obtain ⟨a1, a2, a3⟩ := h
  constructor <;> simp only [delSlot, setAt] <;> grind

theorem lastOk_del {b : State} {lo : Nat → Option Nat} (i : Nat) (h : LastOk b lo) :
    LastOk (delSlot b i) (setAt lo i none) := by
  intro j r; have := h j r; simp only [delSlot, setAt]; grind

theorem lastOk_ok {b b' : State} {lo : Nat → Option Nat} (j r : Nat) (h : LastOk b lo)
    (hs : b'.slot = fun i' => if i' = j then some (.val r) else b.slot i') : LastOk b' (setAt lo j (some r)) := by
  intro i r'; have := h i r'; simp only [hs, setAt]; grind

theorem lastOk_same {b b' : State} {lo : Nat → Option Nat} (h : LastOk b lo) (hs : b'.slot = b.slot) : LastOk b' lo := by
  intro i r hr; rw [hs]; exact h i r hr

/-! ## counting getter-run records -/

/-- number of getter runs among the first n that satisfy P -/
def countRuns (b : State) (P : Run → Bool) : Nat → Nat
  | 0 => 0
  | n + 1 => countRuns b P n + (if P (b.run n) then 1 else 0)

/-- the run was called with instance i -/
def onInst (i : Nat) (r : Run) : Bool := decide (r.inst = i)

/-- the run was called with instance i and raised or was cancelled -/
def failedOn (i : Nat) (r : Run) : Bool := decide (r.inst = i) && (decide (r.st = .raised) || decide (r.st = .cancelled))

theorem countRuns_congr (b b' : State) (P : Run → Bool) (n : Nat) (h : ∀ r, r < n → P (b'.run r) = P (b.run r)) :
    countRuns b' P n = countRuns b P n := by
  induction n with
  | zero => rfl
  | succ n ih =>
    simp only [countRuns]
    rw [ih (fun r hr => h r (by omega)), h n (by omega)]

theorem countRuns_flip (b b' : State) (P : Run → Bool) (n r : Nat) (hr : r < n)
    (h : ∀ r', r' ≠ r → r' < n → P (b'.run r') = P (b.run r')) (h0 : P (b.run r) = false) (h1 : P (b'.run r) = true) :
    countRuns b' P n = countRuns b P n + 1 := by
  induction n with
  | zero => omega
  | succ n ih =>
    simp only [countRuns]
    by_cases e : r = n
    · subst e
      rw [countRuns_congr b b' P r (fun r' hr' => h r' (by omega) (by omega)), h0, h1]; simp
    · rw [ih (by omega) (fun r' hne hr' => h r' hne (by omega)), h n (fun e' => e e'.symm) (by omega)]; omega

/-- on an instance whose attribute was never deleted the ghost counters count the run records -/
def Counts (b : State) (st fl : Nat → Nat) : Prop :=
  ∀ i, b.dels i = 0 → st i = countRuns b (onInst i) b.nRuns ∧ fl i = countRuns b (failedOn i) b.nRuns

theorem counts_quiet {b b' : State} {st fl : Nat → Nat} (h : Counts b st fl) (q : Quiet b b') : Counts b' st fl := by
  intro i hd
  rw [q.dels] at hd
  obtain ⟨e1, e2⟩ := h i hd
  rw [q.nruns, countRuns_congr b b' _ _ (fun r _ => by rw [q.run]), countRuns_congr b b' _ _ (fun r _ => by rw [q.run])]
  exact ⟨e1, e2⟩

theorem counts_start {b b' : State} {st fl : Nat → Nat} (j p t : Nat) (h : Counts b st fl)
    (hd : b'.dels = b.dels) (hn : b'.nRuns = b.nRuns + 1)
    (hr : b'.run = fun r' => if r' = b.nRuns then ⟨j, p, t, .running⟩ else b.run r') : Counts b' (bump st j) fl := by
  intro i hd0
  rw [hd] at hd0
  obtain ⟨e1, e2⟩ := h i hd0
  have hc : ∀ P, countRuns b' P b.nRuns = countRuns b P b.nRuns := fun P =>
    countRuns_congr b b' P _ (fun r hlt => by rw [hr]; simp only; rw [if_neg (by omega)])
  have hnew : b'.run b.nRuns = ⟨j, p, t, .running⟩ := by rw [hr]; simp
  rw [hn]; simp only [countRuns, hc, hnew, onInst, failedOn, bump]
  refine ⟨?_, by simpa using e2⟩
  by_cases e : i = j
  · subst e; simp [e1]
  · have : ¬ j = i := fun e' => e e'.symm
    simp [e, this, e1]

theorem counts_returned {b b' : State} {st fl : Nat → Nat} (r : Nat) (h : Counts b st fl)
    (hd : b'.dels = b.dels) (hn : b'.nRuns = b.nRuns)
    (hr : b'.run = fun r' => if r' = r then { b.run r with st := .returned } else b.run r')
    (hrun : (b.run r).st = .running) : Counts b' st fl := by
  intro i hd0
  rw [hd] at hd0
  obtain ⟨e1, e2⟩ := h i hd0
  rw [hn, countRuns_congr b b' (onInst i), countRuns_congr b b' (failedOn i)]
  · exact ⟨e1, e2⟩
  · intro r' _; rw [hr]; simp only; split
    · rename_i e; subst e; simp [failedOn, hrun]
    · rfl
  · intro r' _; rw [hr]; simp only; split
    · rename_i e; subst e; simp [onInst]
    · rfl

theorem counts_failed {b b' : State} {st fl : Nat → Nat} (r j : Nat) (x : RunSt) (h : Counts b st fl)
    (hd : b'.dels = b.dels) (hn : b'.nRuns = b.nRuns)
    (hr : b'.run = fun r' => if r' = r then { b.run r with st := x } else b.run r')
    (hx : x = .raised ∨ x = .cancelled) (hlt : r < b.nRuns)
    (hrun : (b.run r).st = .running) (hj : (b.run r).inst = j) : Counts b' st (bump fl j) := by
  intro i hd0
  rw [hd] at hd0
  obtain ⟨e1, e2⟩ := h i hd0
  have hother : ∀ r', r' ≠ r → b'.run r' = b.run r' := by intro r' hne; rw [hr]; simp [hne]
  have hself : b'.run r = { b.run r with st := x } := by rw [hr]; simp
  rw [hn, countRuns_congr b b' (onInst i)]
  · refine ⟨e1, ?_⟩
    by_cases e : i = j
    · subst e
      rw [countRuns_flip b b' (failedOn i) _ r hlt (fun r' hne _ => by rw [hother r' hne])
        (by simp [failedOn, hrun]) (by rw [hself]; rcases hx with hx | hx <;> simp [failedOn, hj, hx])]
      simp [bump, e2]
    · rw [countRuns_congr b b' (failedOn i)]
      · simp [bump, e, e2]
      · intro r' _
        by_cases e' : r' = r
        · subst e'; rw [hself]
          have : ¬ j = i := fun e'' => e e''.symm
          simp [failedOn, hj, this]
        · rw [hother r' e']
  · intro r' _
    by_cases e' : r' = r
    · subst e'; rw [hself]; simp [onInst]
    · rw [hother r' e']

theorem counts_del {b : State} {st fl : Nat → Nat} (i : Nat) (h : Counts b st fl) :
    Counts (delSlot b i) (setAt st i 0) (setAt fl i 0) := by
  intro j hd
  simp only [delSlot] at hd
  by_cases e : j = i
  · simp [e] at hd
  · simp only [e, if_false] at hd
    obtain ⟨e1, e2⟩ := h j hd
    simp only [setAt, e, if_false]
    rw [countRuns_congr b (delSlot b i) _ _ (fun _ _ => rfl), countRuns_congr b (delSlot b i) _ _ (fun _ _ => rfl)]
    exact ⟨e1, e2⟩

/-! ## equations for `hmicro` -/

theorem hmicro_unl_succ (hc : HCfg) (s : HState) (t k : Nat) (st : Option (Nat × Nat))
    (hu : s.unl t = some ⟨k + 1, st⟩) : hmicro hc s t = (setUnl s t (some ⟨k, st⟩), some .handoff) := by
  unfold hmicro; rw [hu]

theorem hmicro_unl_zero (hc : HCfg) (s : HState) (t : Nat) (st : Option (Nat × Nat))
    (hu : s.unl t = some ⟨0, st⟩) : hmicro hc s t = finishExit s t st := by
  unfold hmicro; rw [hu]

theorem hmicro_other (hc : HCfg) (s : HState) (t : Nat) (hu : s.unl t = none)
    (h1 : ∀ p, s.base.pc t ≠ .holding p) (h2 : ∀ p r, s.base.pc t ≠ .getter p r 0) :
    hmicro hc s t = ({ s with base := (micro hc.cfg s.base t).1 }, (micro hc.cfg s.base t).2.map .base) := by
  unfold hmicro; rw [hu]; simp only

theorem hmicro_start (hc : HCfg) (s : HState) (t p : Nat) (hu : s.unl t = none)
    (hpc : s.base.pc t = .holding p) (he : (instanceValue s.base p).2 = .ph p) :
    hmicro hc s t = ({ s with base := (micro hc.cfg s.base t).1, starts := bump s.starts (s.base.phInst p) },
      (micro hc.cfg s.base t).2.map .base) := by
  unfold hmicro; rw [hu]; simp only [hpc, he, if_true]

theorem hmicro_leave (hc : HCfg) (s : HState) (t p : Nat) (hu : s.unl t = none)
    (hpc : s.base.pc t = .holding p) (he : (instanceValue s.base p).2 ≠ .ph p) :
    hmicro hc s t = exitLock hc { s with base := (micro hc.cfg s.base t).1 } t none := by
  unfold hmicro; rw [hu]; simp only [hpc, he, if_false]

theorem hmicro_ok (hc : HCfg) (s : HState) (t p r : Nat) (hu : s.unl t = none)
    (hpc : s.base.pc t = .getter p r 0) (hok : hc.cfg.ok r = true) (hs : hc.lateStore = false) :
    hmicro hc s t = exitLock hc { s with base := (micro hc.cfg s.base t).1,
                                         lastOk := setAt s.lastOk (s.base.phInst p) (some r) } t none := by
  unfold hmicro; rw [hu]; simp [hpc, hok, hs]

theorem hmicro_fail (hc : HCfg) (s : HState) (t p r : Nat) (hu : s.unl t = none)
    (hpc : s.base.pc t = .getter p r 0) (hok : hc.cfg.ok r = false) :
    hmicro hc s t = exitLock hc { s with base := (micro hc.cfg s.base t).1,
                                         fails := bump s.fails (s.base.phInst p) } t none := by
  unfold hmicro; rw [hu]; simp [hpc, hok]

theorem finishExit_none_fst (s : HState) (t : Nat) : (finishExit s t none).1 = setUnl s t none := by
  unfold finishExit; simp only; split <;> rfl

theorem exitLock_none_fst (hc : HCfg) (s : HState) (t : Nat) :
    (exitLock hc s t none).1 = setUnl s t none ∨
    (hc.cfg.lock = true ∧ hc.handoff ≠ 0 ∧ (exitLock hc s t none).1 = setUnl s t (some ⟨hc.handoff - 1, none⟩)) := by
  unfold exitLock; split
  · rename_i h
    simp only [Bool.and_eq_true, decide_eq_true_eq] at h
    exact Or.inr ⟨h.1, by omega, rfl⟩
  · exact Or.inl (finishExit_none_fst s t)

/-! ## the invariant -/

/-- task t sits at a continuation: finished, or at the first line of some `_await_impl` -/
def AtCont (b : State) (t : Nat) : Prop := (∃ res, b.pc t = .done res) ∨ (∃ p, b.pc t = .entered p)

structure HInv (hc : HCfg) (s : HState) : Prop where
  inv : Inv hc.cfg s.base
  nopend : ∀ t u, s.unl t = some u → u.store = none
  unl_pc : ∀ t u, s.unl t = some u → AtCont s.base t
  unl_none : (hc.cfg.lock = false ∨ hc.handoff = 0) → ∀ t, s.unl t = none
  last : LastOk s.base s.lastOk
  once : hc.cfg.lock = true → Once s.base s.starts s.fails
  counts : Counts s.base s.starts s.fails

theorem hinv_setUnl {hc : HCfg} {s : HState} (h : HInv hc s) (t : Nat) (u : Option Unl)
    (hu : ∀ u', u = some u' → u'.store = none ∧ AtCont s.base t ∧ hc.cfg.lock = true ∧ hc.handoff ≠ 0) :
    HInv hc (setUnl s t u) := by
  obtain ⟨h1, h2, h3, h4, h5, h6, h7⟩ := h
  constructor
  · exact h1
  · intro t' u'; simp only [setUnl]; split
    · intro e; exact (hu u' e).1
    · exact h2 t' u'
  · intro t' u'; simp only [setUnl]; split
    · rename_i e; subst e; intro e; exact (hu u' e).2.1
    · exact h3 t' u'
  · intro hh t'; simp only [setUnl]; split
    · cases u with
      | none => rfl
      | some u' => have := hu u' rfl; rcases hh with hh | hh <;> simp_all
    · exact h4 hh t'
  · exact h5
  · exact h6
  · exact h7

/-- replace the base by the result of a step of task t (which is not inside `__aexit__`) -/
theorem hinv_base {hc : HCfg} {s : HState} (h : HInv hc s) (t : Nat) (b' : State) (lo' : Nat → Option Nat)
    (st' fl' : Nat → Nat) (hu : s.unl t = none) (hinv : Inv hc.cfg b')
    (hfr : ∀ t', t' ≠ t → b'.pc t' = s.base.pc t') (hl : LastOk b' lo')
    (ho : hc.cfg.lock = true → Once b' st' fl') (hcn : Counts b' st' fl') :
    HInv hc { s with base := b', lastOk := lo', starts := st', fails := fl' } := by
  obtain ⟨h1, h2, h3, h4, h5, h6, h7⟩ := h
  refine ⟨hinv, h2, ?_, h4, hl, ho, hcn⟩
  intro t' u' hu'
  have hne : t' ≠ t := by intro e; subst e; rw [hu] at hu'; cases hu'
  have := h3 t' u' hu'
  simp only [AtCont] at this ⊢
  rw [hfr t' hne]; exact this

theorem exitLock_inv {hc : HCfg} {s : HState} (h : HInv hc s) (t : Nat) (hc' : AtCont s.base t) :
    HInv hc (exitLock hc s t none).1 := by
  rcases exitLock_none_fst hc s t with e | ⟨hl, hh, e⟩ <;> rw [e]
  · exact hinv_setUnl h t none (by intro u' hu'; cases hu')
  · exact hinv_setUnl h t _ (by intro u' hu'; cases hu'; exact ⟨rfl, hc', hl, hh⟩)

theorem micro_leave_cont (cfg : Cfg) (s : State) (t p : Nat) (hpc : s.pc t = .holding p)
    (he : (instanceValue s p).2 ≠ .ph p) : AtCont (micro cfg s t).1 t := by
  unfold micro; rw [hpc]; simp only
  generalize instanceValue s p = r at he
  obtain ⟨s1, x⟩ := r
  simp only at he ⊢
  rw [if_neg he]
  cases x with
  | val v => exact Or.inl ⟨.ok v, by simp [awaitStored, setPc]⟩
  | ph p' => exact Or.inr ⟨p', by simp [awaitStored, setPc]⟩

theorem unl_some_handoff {hc : HCfg} {s : HState} (h : HInv hc s) (t : Nat) (u : Unl) (hu : s.unl t = some u) :
    hc.cfg.lock = true ∧ hc.handoff ≠ 0 := by
  refine ⟨?_, ?_⟩
  · cases hl : hc.cfg.lock
    · have := h.unl_none (Or.inl hl) t; rw [hu] at this; cases this
    · rfl
  · intro hh; have := h.unl_none (Or.inr hh) t; rw [hu] at this; cases this

theorem no_getter_of_holding {cfg : Cfg} {b : State} (h : Inv cfg b) (hl : cfg.lock = true) (t p : Nat)
    (hpc : b.pc t = .holding p) : ∀ t' r k, b.pc t' ≠ .getter p r k := by
  intro t' r k hk
  have e1 := h.owner_getter hl p t' r k hk
  have e2 := h.owner_holding hl p t hpc
  rw [e1] at e2
  have : t' = t := Option.some.inj e2
  subst this
  rw [hpc] at hk; cases hk

theorem hmicro_other_inv {hc : HCfg} {s : HState} (t : Nat) (h : HInv hc s) (hu : s.unl t = none)
    (h1 : ∀ p, s.base.pc t ≠ .holding p) (h2 : ∀ p r, s.base.pc t ≠ .getter p r 0) : HInv hc (hmicro hc s t).1 := by
  rw [hmicro_other hc s t hu h1 h2]
  have q := micro_quiet hc.cfg s.base t (fun p hp => absurd hp (h1 p)) h2
  exact hinv_base h t _ _ _ _ hu (micro_inv hc.cfg s.base t h.inv) (micro_frame hc.cfg s.base t)
    (lastOk_quiet h.last q) (fun hl => once_quiet (h.once hl) q) (counts_quiet h.counts q)

theorem hmicro_inv (hc : HCfg) (hs : hc.lateStore = false) (s : HState) (t : Nat) (h : HInv hc s) :
    HInv hc (hmicro hc s t).1 := by
  cases hu : s.unl t with
  | some u =>
    obtain ⟨k, st⟩ := u
    have hst : st = none := h.nopend t _ hu
    subst hst
    cases k with
    | zero =>
      rw [hmicro_unl_zero hc s t _ hu, finishExit_none_fst]
      exact hinv_setUnl h t none (by intro u' e; cases e)
    | succ k =>
      rw [hmicro_unl_succ hc s t k _ hu]
      refine hinv_setUnl h t _ ?_
      intro u' e; cases e
      exact ⟨rfl, h.unl_pc t _ hu, unl_some_handoff h t _ hu⟩
  | none =>
    have hmi := micro_inv hc.cfg s.base t h.inv
    have hfr := micro_frame hc.cfg s.base t
    cases hpc : s.base.pc t with
    | holding p =>
      by_cases he : (instanceValue s.base p).2 = .ph p
      · rw [hmicro_start hc s t p hu hpc he]
        obtain ⟨hsl, hs', hp'⟩ := micro_start hc.cfg s.base t p h.inv hpc he
        exact hinv_base h t _ _ _ _ hu hmi hfr (lastOk_same h.last hs')
          (fun hl => once_start t p _ _ (h.once hl) hsl (no_getter_of_holding h.inv hl t p hpc)
            (by intro p' r k hk; rw [hpc] at hk; cases hk) hs' hp')
          (by obtain ⟨d1, d2, d3⟩ := micro_start_runs hc.cfg s.base t p hpc hsl
              exact counts_start _ p t h.counts d1 d2 d3)
      · rw [hmicro_leave hc s t p hu hpc he]
        have q := micro_quiet hc.cfg s.base t (fun p' hp' => by rw [hpc] at hp'; cases hp'; exact he)
          (by intro p' r hk; rw [hpc] at hk; cases hk)
        exact exitLock_inv (hinv_base h t _ _ _ _ hu hmi hfr (lastOk_quiet h.last q) (fun hl => once_quiet (h.once hl) q) (counts_quiet h.counts q))
          t (micro_leave_cont hc.cfg s.base t p hpc he)
    | getter p r k =>
      cases k with
      | succ k =>
        exact hmicro_other_inv t h hu (by intro p' hk; rw [hpc] at hk; cases hk) (by intro p' r' hk; rw [hpc] at hk; cases hk)
      | zero =>
        have hcont : AtCont (micro hc.cfg s.base t).1 t := by
          rw [micro_getter0 hc.cfg s.base t p r hpc]; unfold AtCont; rw [complete_pc]; exact Or.inl ⟨if hc.cfg.ok r then .ok r else .failed r, by simp⟩
        have hpc' := complete_pc hc.cfg s.base t p r
        rw [← micro_getter0 hc.cfg s.base t p r hpc] at hpc'
        have hcr := complete_runs hc.cfg s.base t p r
        rw [← micro_getter0 hc.cfg s.base t p r hpc] at hcr
        obtain ⟨hgl, hgr⟩ := h.inv.getter_run t p r 0 hpc
        cases hok : hc.cfg.ok r with
        | true =>
          rw [hmicro_ok hc s t p r hu hpc hok hs]
          have hsl := complete_slot_ok hc.cfg s.base t p r hok
          rw [← micro_getter0 hc.cfg s.base t p r hpc] at hsl
          exact exitLock_inv (hinv_base h t _ _ _ _ hu hmi hfr (lastOk_ok _ r h.last hsl)
            (fun hl => once_ok t p r _ (h.once hl) hpc (fun i p hi => (h.inv.slot_ph i p hi).2) hsl hpc')
            (counts_returned r h.counts hcr.1 hcr.2.1 (by rw [hcr.2.2, hok]; rfl) (by rw [hgr]))) t hcont
        | false =>
          rw [hmicro_fail hc s t p r hu hpc hok]
          have hsl := complete_slot_fail hc.cfg s.base t p r hok
          rw [← micro_getter0 hc.cfg s.base t p r hpc] at hsl
          exact exitLock_inv (hinv_base h t _ _ _ _ hu hmi hfr (lastOk_same h.last hsl)
            (fun hl => once_fail t p r 0 _ (h.once hl) hpc (fun i p hi => (h.inv.slot_ph i p hi).2) hsl hpc')
            (counts_failed r _ .raised h.counts hcr.1 hcr.2.1 (by rw [hcr.2.2, hok]; rfl) (Or.inl rfl) hgl (by rw [hgr])
              (by rw [hgr]))) t hcont
    | _ =>
      exact hmicro_other_inv t h hu (by intro p' hk; rw [hpc] at hk; cases hk) (by intro p' r' hk; rw [hpc] at hk; cases hk)

theorem hschedN_inv (hc : HCfg) (hs : hc.lateStore = false) (n : Nat) :
    ∀ (s : HState) (t : Nat), HInv hc s → HInv hc (hschedN hc n s t).1 := by
  induction n with
  | zero => intro s t h; exact h
  | succ n ih =>
    intro s t h
    unfold hschedN
    have hm := hmicro_inv hc hs s t h
    generalize hmicro hc s t = r at hm
    obtain ⟨s1, o⟩ := r
    cases o with
    | some o => exact hm
    | none => exact ih s1 t hm

/-! ## cancellation -/

theorem cancelled_inv (cfg : Cfg) (s : State) (t : Nat) (h : Inv cfg s) (hc : AtCont s t) :
    Inv cfg (setPc s t (.done .cancelled)) := by
  obtain ⟨h1,h2a,h2b,h2c,h2d,h2e,h3,h4,h5,h6,h6b,h7,h8,h9,h10,h11,h12,h13,h14,h15,h16,h17,h18⟩ := h
  rcases hc with ⟨res, hc⟩ | ⟨p, hc⟩ <;> inv_auto

theorem setPc_done_quiet (s : State) (t : Nat) (x : Res) (hn : ∀ p r k, s.pc t ≠ .getter p r k) :
    Quiet s (setPc s t (.done x)) := by
  constructor <;> simp only [setPc] <;> grind

theorem cancel_frame (cfg : Cfg) (s : State) (t t' : Nat) (hne : t' ≠ t) : (cancel cfg s t).1.pc t' = s.pc t' := by
  unfold cancel; split
  · simp [setPc, hne]
  · simp [setPc, hne]
  · simp only [setPc, hne, if_false, setRunSt]; rw [release_pc]
  · rfl

theorem cancel_slot (cfg : Cfg) (s : State) (t : Nat) : (cancel cfg s t).1.slot = s.slot := by
  simp only [cancel]
  split <;> try rfl
  simp only [setPc, setRunSt, release]; split <;> rfl

theorem cancel_getter_pc (cfg : Cfg) (s : State) (t p r k : Nat) (hpc : s.pc t = .getter p r k) :
    (cancel cfg s t).1.pc = fun t' => if t' = t then .done .cancelled else s.pc t' := by
  simp only [cancel, hpc, setPc, setRunSt]; rw [release_pc]

theorem cancel_getter_runs (cfg : Cfg) (s : State) (t p r k : Nat) (hpc : s.pc t = .getter p r k) :
    (cancel cfg s t).1.dels = s.dels ∧ (cancel cfg s t).1.nRuns = s.nRuns ∧
    (cancel cfg s t).1.run = fun r' => if r' = r then { s.run r with st := .cancelled } else s.run r' := by
  cases hl : cfg.lock <;> simp [cancel, hpc, setPc, setRunSt, release, hl, setLock]

theorem cancel_quiet (cfg : Cfg) (s : State) (t : Nat) (hn : ∀ p r k, s.pc t ≠ .getter p r k) :
    Quiet s (cancel cfg s t).1 := by
  unfold cancel; split
  · exact setPc_done_quiet s t _ hn
  · exact setPc_done_quiet s t _ hn
  · rename_i p r k hpc; exact absurd hpc (hn p r k)
  · exact Quiet.refl s

theorem hcancel_unl (hc : HCfg) (s : HState) (t : Nat) (u : Unl) (hu : s.unl t = some u) :
    hcancel hc s t = (setUnl { s with base := setPc s.base t (.done .cancelled) } t none, .base .cancelled) := by
  unfold hcancel; rw [hu]

theorem hcancel_getter (hc : HCfg) (s : HState) (t p r k : Nat) (hu : s.unl t = none)
    (hpc : s.base.pc t = .getter p r k) :
    (hcancel hc s t).1 = setUnl { s with base := (cancel hc.cfg s.base t).1, fails := bump s.fails (s.base.phInst p) } t none ∨
    (hc.cfg.lock = true ∧ hc.handoff ≠ 0 ∧
     (hcancel hc s t).1 = setUnl { s with base := (cancel hc.cfg s.base t).1, fails := bump s.fails (s.base.phInst p) } t
        (some ⟨hc.handoff - 1, none⟩)) := by
  unfold hcancel; rw [hu]; simp only [hpc]
  split
  · rename_i h
    simp only [Bool.and_eq_true, decide_eq_true_eq] at h
    exact Or.inr ⟨h.1, by omega, rfl⟩
  · left
    simp only [setUnl]
    congr 1
    funext t'; split
    · rename_i e; subst e; exact hu
    · rfl

theorem hcancel_other (hc : HCfg) (s : HState) (t : Nat) (hu : s.unl t = none)
    (hn : ∀ p r k, s.base.pc t ≠ .getter p r k) :
    hcancel hc s t = ({ s with base := (cancel hc.cfg s.base t).1 }, .base (cancel hc.cfg s.base t).2) := by
  unfold hcancel; rw [hu]; simp only

theorem hcancel_inv (hc : HCfg) (s : HState) (t : Nat) (h : HInv hc s) : HInv hc (hcancel hc s t).1 := by
  cases hu : s.unl t with
  | some u =>
    rw [hcancel_unl hc s t u hu]
    have hcont := h.unl_pc t u hu
    have h0 : HInv hc (setUnl s t none) := hinv_setUnl h t none (by intro u' e; cases e)
    have hn : ∀ p r k, s.base.pc t ≠ .getter p r k := by
      intro p r k hk; rcases hcont with ⟨_, e⟩ | ⟨_, e⟩ <;> rw [hk] at e <;> cases e
    have q := setPc_done_quiet s.base t .cancelled hn
    exact hinv_base h0 t (setPc s.base t (.done .cancelled)) s.lastOk s.starts s.fails (by simp [setUnl])
      (cancelled_inv hc.cfg s.base t h.inv hcont) (by intro t' hne; simp [setPc, setUnl, hne])
      (lastOk_quiet h.last q) (fun hl => once_quiet (h.once hl) q) (counts_quiet h.counts q)
  | none =>
    have hci := cancel_inv hc.cfg s.base t h.inv
    have hfr := cancel_frame hc.cfg s.base t
    by_cases hg : ∃ p r k, s.base.pc t = .getter p r k
    · obtain ⟨p, r, k, hpc⟩ := hg
      have hpc' := cancel_getter_pc hc.cfg s.base t p r k hpc
      have hsl := cancel_slot hc.cfg s.base t
      have hb : HInv hc { s with base := (cancel hc.cfg s.base t).1, fails := bump s.fails (s.base.phInst p) } :=
        hinv_base h t _ _ _ _ hu hci hfr (lastOk_same h.last hsl)
          (fun hl => once_fail t p r k _ (h.once hl) hpc (fun i p hi => (h.inv.slot_ph i p hi).2) hsl hpc')
          (by obtain ⟨d1, d2, d3⟩ := cancel_getter_runs hc.cfg s.base t p r k hpc
              obtain ⟨hgl, hgr⟩ := h.inv.getter_run t p r k hpc
              exact counts_failed r _ .cancelled h.counts d1 d2 d3 (Or.inr rfl) hgl (by rw [hgr]) (by rw [hgr]))
      rcases hcancel_getter hc s t p r k hu hpc with e | ⟨hl, hh, e⟩ <;> rw [e]
      · exact hinv_setUnl hb t none (by intro u' e; cases e)
      · refine hinv_setUnl hb t _ ?_
        intro u' e; cases e
        exact ⟨rfl, Or.inl ⟨.cancelled, by simp [hpc']⟩, hl, hh⟩
    · have hn : ∀ p r k, s.base.pc t ≠ .getter p r k := fun p r k hk => hg ⟨p, r, k, hk⟩
      rw [hcancel_other hc s t hu hn]
      have q := cancel_quiet hc.cfg s.base t hn
      exact hinv_base h t _ _ _ _ hu hci hfr (lastOk_quiet h.last q) (fun hl => once_quiet (h.once hl) q) (counts_quiet h.counts q)

/-! ## operations -/

theorem unl_fresh {hc : HCfg} {s : HState} (h : HInv hc s) : s.unl s.base.nTasks = none := by
  cases hu : s.unl s.base.nTasks with
  | none => rfl
  | some u =>
    have hf := h.inv.fresh_task s.base.nTasks (Nat.le_refl _)
    rcases h.unl_pc _ u hu with ⟨_, e⟩ | ⟨_, e⟩ <;> rw [hf] at e <;> cases e

theorem addTask_quiet (s : State) (i : Nat) (x : Stored) (hf : s.pc s.nTasks = .unborn) : Quiet s (addTask s i x) := by
  constructor <;> simp only [addTask] <;> grind

theorem spawn_quiet (cfg : Cfg) (s : State) (i : Nat) (hf : s.pc s.nTasks = .unborn) :
    Quiet s (step cfg s (.spawn i)).1 := by
  simp only [step]
  have hm := access_quiet s i
  have hpc := access_pc s i
  have hnt : (access s i).1.nTasks = s.nTasks := by
    rcases access_cases s i with ⟨x, _, he⟩ | ⟨_, he⟩ <;> rw [he] <;> rfl
  generalize access s i = r at hm hpc hnt
  obtain ⟨s1, x⟩ := r
  simp only at hm hpc hnt ⊢
  refine Quiet.trans_pc hm rfl ?_ ?_ ⟨rfl, rfl, rfl⟩ <;> simp only [addTask] <;> grind

theorem spawn_frame (cfg : Cfg) (s : State) (i t' : Nat) (hne : t' ≠ s.nTasks) :
    (step cfg s (.spawn i)).1.pc t' = s.pc t' := by
  simp only [step]
  have hpc := access_pc s i
  have hnt : (access s i).1.nTasks = s.nTasks := by
    rcases access_cases s i with ⟨x, _, he⟩ | ⟨_, he⟩ <;> rw [he] <;> rfl
  generalize access s i = r at hpc hnt
  obtain ⟨s1, x⟩ := r
  simp only at hpc hnt ⊢
  simp only [addTask, hnt, hne, if_false, hpc]

theorem respawn_quiet (cfg : Cfg) (s : State) (t : Nat) (hf : s.pc s.nTasks = .unborn) :
    Quiet s (step cfg s (.respawn t)).1 := by
  simp only [step]; split
  · exact addTask_quiet s _ _ hf
  · exact Quiet.refl s

theorem respawn_frame (cfg : Cfg) (s : State) (t t' : Nat) (hne : t' ≠ s.nTasks) :
    (step cfg s (.respawn t)).1.pc t' = s.pc t' := by
  simp only [step]; split
  · simp [addTask, hne]
  · rfl

theorem hstep_inv (hc : HCfg) (hs : hc.lateStore = false) (s : HState) (op : Op) (h : HInv hc s) :
    HInv hc (hstep hc s op).1 := by
  have hf := h.inv.fresh_task s.base.nTasks (Nat.le_refl _)
  cases op with
  | spawn i =>
    have q := spawn_quiet hc.cfg s.base i hf
    exact hinv_base h s.base.nTasks _ _ _ _ (unl_fresh h) (step_inv hc.cfg s.base _ h.inv)
      (spawn_frame hc.cfg s.base i) (lastOk_quiet h.last q) (fun hl => once_quiet (h.once hl) q) (counts_quiet h.counts q)
  | respawn t =>
    have q := respawn_quiet hc.cfg s.base t hf
    exact hinv_base h s.base.nTasks _ _ _ _ (unl_fresh h) (step_inv hc.cfg s.base _ h.inv)
      (respawn_frame hc.cfg s.base t) (lastOk_quiet h.last q) (fun hl => once_quiet (h.once hl) q) (counts_quiet h.counts q)
  | sched t => exact hschedN_inv hc hs _ s t h
  | cancel t => exact hcancel_inv hc s t h
  | del i =>
    simp only [hstep]
    split
    · exact h
    · exact hinv_base h s.base.nTasks _ _ _ _ (unl_fresh h) (del_inv hc.cfg s.base i h.inv)
        (fun _ _ => rfl) (lastOk_del i h.last) (fun hl => once_del i (h.once hl)) (counts_del i h.counts)

theorem hinit_inv (hc : HCfg) : HInv hc HState.init := by
  refine ⟨init_inv hc.cfg, ?_, ?_, ?_, ?_, ?_, ?_⟩
  · intro t u e; cases e
  · intro t u e; cases e
  · intro _ t; rfl
  · intro i r e; cases e
  · intro _; constructor <;> simp [HState.init, State.init]
  · intro i _; exact ⟨rfl, rfl⟩

theorem hexec_inv (hc : HCfg) (hs : hc.lateStore = false) (ops : List Op) :
    ∀ s, HInv hc s → HInv hc (hexec hc s ops) := by
  induction ops with
  | nil => intro s h; exact h
  | cons op ops ih => intro s h; exact ih _ (hstep_inv hc hs s op h)

theorem hreach_inv (hc : HCfg) (hs : hc.lateStore = false) (ops : List Op) : HInv hc (hreach hc ops) :=
  hexec_inv hc hs ops _ (hinit_inv hc)

/-! ## no release suspensions: the plain machine -/

/-- the result a finished continuation delivers, as `finishExit` computes it -/
def contOut (b : State) (t : Nat) : Option Out :=
  match b.pc t with
  | .done res => some (resOut res)
  | _ => none

theorem finishExit_none (s : HState) (t : Nat) :
    finishExit s t none = (setUnl s t none, (contOut s.base t).map .base) := by
  unfold finishExit contOut; simp only; split <;> simp [*]

theorem micro_leave_out (cfg : Cfg) (s : State) (t p : Nat) (hpc : s.pc t = .holding p)
    (he : (instanceValue s p).2 ≠ .ph p) : (micro cfg s t).2 = contOut (micro cfg s t).1 t := by
  unfold micro contOut; rw [hpc]; simp only
  generalize instanceValue s p = r at he
  obtain ⟨s1, x⟩ := r
  simp only at he ⊢
  rw [if_neg he]
  cases x <;> simp [awaitStored, setPc, resOut]

theorem micro_getter0_out (cfg : Cfg) (s : State) (t p r : Nat) (hpc : s.pc t = .getter p r 0) :
    (micro cfg s t).2 = contOut (micro cfg s t).1 t := by
  rw [micro_getter0 cfg s t p r hpc]; unfold contOut; rw [complete_pc]
  cases hok : cfg.ok r <;> simp [complete, hok, resOut]

/-- the environments in which `__aexit__` never suspends -/
def HCfg.plain (hc : HCfg) : Prop := (hc.cfg.lock = false ∨ hc.handoff = 0) ∧ hc.lateStore = false

theorem exitLock_plain (hc : HCfg) (hp : hc.plain) (s : HState) (t : Nat) :
    exitLock hc s t none = (setUnl s t none, (contOut s.base t).map .base) := by
  unfold exitLock
  have : (hc.cfg.lock && decide (hc.handoff > 0)) = false := by
    rcases hp.1 with e | e <;> simp [e]
  rw [this]; simp only [Bool.false_eq_true, if_false]; exact finishExit_none s t

theorem setUnl_none_unl (s : HState) (t : Nat) (hu : ∀ t, s.unl t = none) : ∀ t', (setUnl s t none).unl t' = none := by
  intro t'; simp only [setUnl]; split <;> simp [hu]

theorem hmicro_plain (hc : HCfg) (hp : hc.plain) (s : HState) (t : Nat) (hu : ∀ t, s.unl t = none) :
    (hmicro hc s t).1.base = (micro hc.cfg s.base t).1 ∧ (hmicro hc s t).2 = (micro hc.cfg s.base t).2.map .base ∧
    ∀ t', (hmicro hc s t).1.unl t' = none := by
  cases hpc : s.base.pc t with
  | holding p =>
    by_cases he : (instanceValue s.base p).2 = .ph p
    · rw [hmicro_start hc s t p (hu t) hpc he]; exact ⟨rfl, rfl, hu⟩
    · rw [hmicro_leave hc s t p (hu t) hpc he, exitLock_plain hc hp]
      exact ⟨rfl, by simp only; rw [micro_leave_out hc.cfg s.base t p hpc he], setUnl_none_unl _ t hu⟩
  | getter p r k =>
    cases k with
    | succ k =>
      rw [hmicro_other hc s t (hu t) (by intro p' hk; rw [hpc] at hk; cases hk) (by intro p' r' hk; rw [hpc] at hk; cases hk)]
      exact ⟨rfl, rfl, hu⟩
    | zero =>
      cases hok : hc.cfg.ok r with
      | true =>
        rw [hmicro_ok hc s t p r (hu t) hpc hok hp.2, exitLock_plain hc hp]
        exact ⟨rfl, by simp only; rw [micro_getter0_out hc.cfg s.base t p r hpc], setUnl_none_unl _ t hu⟩
      | false =>
        rw [hmicro_fail hc s t p r (hu t) hpc hok, exitLock_plain hc hp]
        exact ⟨rfl, by simp only; rw [micro_getter0_out hc.cfg s.base t p r hpc], setUnl_none_unl _ t hu⟩
  | _ =>
    rw [hmicro_other hc s t (hu t) (by intro p' hk; rw [hpc] at hk; cases hk) (by intro p' r' hk; rw [hpc] at hk; cases hk)]
    exact ⟨rfl, rfl, hu⟩

theorem hschedN_plain (hc : HCfg) (hp : hc.plain) (n : Nat) : ∀ (s : HState) (t : Nat), (∀ t, s.unl t = none) →
    (hschedN hc n s t).1.base = (schedN hc.cfg n s.base t).1 ∧ (hschedN hc n s t).2 = .base (schedN hc.cfg n s.base t).2 ∧
    ∀ t', (hschedN hc n s t).1.unl t' = none := by
  induction n with
  | zero => intro s t hu; exact ⟨rfl, rfl, hu⟩
  | succ n ih =>
    intro s t hu
    obtain ⟨e1, e2, e3⟩ := hmicro_plain hc hp s t hu
    unfold hschedN schedN
    generalize hmicro hc s t = r at e1 e2 e3
    obtain ⟨s1, o⟩ := r
    generalize micro hc.cfg s.base t = r' at e1 e2
    obtain ⟨b1, o'⟩ := r'
    simp only at e1 e2 e3
    cases o' with
    | some o' => subst e2; simp only [Option.map]; exact ⟨e1, trivial, e3⟩
    | none =>
      subst e2; simp only [Option.map]
      have := ih s1 t e3
      rw [e1] at this; exact this

theorem hcancel_plain (hc : HCfg) (hp : hc.plain) (s : HState) (t : Nat) (hu : ∀ t, s.unl t = none) :
    (hcancel hc s t).1.base = (cancel hc.cfg s.base t).1 ∧ (hcancel hc s t).2 = .base (cancel hc.cfg s.base t).2 ∧
    ∀ t', (hcancel hc s t).1.unl t' = none := by
  have hno : (hc.cfg.lock && decide (hc.handoff > 0)) = false := by
    rcases hp.1 with e | e <;> simp [e]
  unfold hcancel; rw [hu t]; simp only [hno, Bool.false_eq_true, if_false]
  split <;> exact ⟨rfl, rfl, hu⟩

theorem hstep_plain (hc : HCfg) (hp : hc.plain) (s : HState) (op : Op) (hu : ∀ t, s.unl t = none) :
    (hstep hc s op).1.base = (step hc.cfg s.base op).1 ∧ (hstep hc s op).2 = .base (step hc.cfg s.base op).2 ∧
    ∀ t', (hstep hc s op).1.unl t' = none := by
  cases op with
  | spawn i => exact ⟨rfl, rfl, hu⟩
  | respawn t => exact ⟨rfl, rfl, hu⟩
  | sched t => exact hschedN_plain hc hp _ s t hu
  | cancel t => exact hcancel_plain hc hp s t hu
  | del i =>
    simp only [hstep, step]
    split <;> simp_all

theorem hexec_plain (hc : HCfg) (hp : hc.plain) (ops : List Op) : ∀ (s : HState), (∀ t, s.unl t = none) →
    (hexec hc s ops).base = exec hc.cfg s.base ops ∧ houts hc s ops = (outs hc.cfg s.base ops).map .base ∧
    ∀ t', (hexec hc s ops).unl t' = none := by
  induction ops with
  | nil => intro s hu; exact ⟨rfl, rfl, hu⟩
  | cons op ops ih =>
    intro s hu
    obtain ⟨e1, e2, e3⟩ := hstep_plain hc hp s op hu
    obtain ⟨f1, f2, f3⟩ := ih _ e3
    simp only [hexec, exec, houts, outs, List.map_cons]
    rw [e1] at f1 f2
    exact ⟨f1, by rw [e2, f2], f3⟩

/-! ## what a step does to the base component; `del` counts -/

theorem exitLock_base (hc : HCfg) (s : HState) (t : Nat) : (exitLock hc s t none).1.base = s.base := by
  rcases exitLock_none_fst hc s t with e | ⟨_, _, e⟩ <;> rw [e] <;> rfl

/-- the base component moves by the plain micro-step of the same task, or not at all -/
theorem hmicro_base (hc : HCfg) (hs : hc.lateStore = false) (s : HState) (t : Nat) (h : HInv hc s) :
    (s.unl t ≠ none ∧ (hmicro hc s t).1.base = s.base) ∨
    (s.unl t = none ∧ (hmicro hc s t).1.base = (micro hc.cfg s.base t).1) := by
  cases hu : s.unl t with
  | some u =>
    left
    refine ⟨by simp, ?_⟩
    obtain ⟨k, st⟩ := u
    have hst : st = none := h.nopend t _ hu
    subst hst
    cases k with
    | zero => rw [hmicro_unl_zero hc s t _ hu, finishExit_none_fst]; rfl
    | succ k => rw [hmicro_unl_succ hc s t k _ hu]; rfl
  | none =>
    right
    refine ⟨rfl, ?_⟩
    cases hpc : s.base.pc t with
    | holding p =>
      by_cases he : (instanceValue s.base p).2 = .ph p
      · rw [hmicro_start hc s t p hu hpc he]
      · rw [hmicro_leave hc s t p hu hpc he, exitLock_base]
    | getter p r k =>
      cases k with
      | succ k =>
        rw [hmicro_other hc s t hu (by intro p' hk; rw [hpc] at hk; cases hk) (by intro p' r' hk; rw [hpc] at hk; cases hk)]
      | zero =>
        cases hok : hc.cfg.ok r with
        | true => rw [hmicro_ok hc s t p r hu hpc hok hs, exitLock_base]
        | false => rw [hmicro_fail hc s t p r hu hpc hok, exitLock_base]
    | _ =>
      rw [hmicro_other hc s t hu (by intro p' hk; rw [hpc] at hk; cases hk) (by intro p' r' hk; rw [hpc] at hk; cases hk)]

theorem hschedN_dels (hc : HCfg) (hs : hc.lateStore = false) (n : Nat) :
    ∀ (s : HState) (t : Nat), HInv hc s → (hschedN hc n s t).1.base.dels = s.base.dels := by
  induction n with
  | zero => intro s t h; rfl
  | succ n ih =>
    intro s t h
    unfold hschedN
    have hm := hmicro_inv hc hs s t h
    have hd : (hmicro hc s t).1.base.dels = s.base.dels := by
      rcases hmicro_base hc hs s t h with ⟨_, e⟩ | ⟨_, e⟩ <;> rw [e]
      exact (micro_mono hc.cfg s.base t).dels_eq
    generalize hmicro hc s t = r at hm hd
    obtain ⟨s1, o⟩ := r
    cases o with
    | some o => exact hd
    | none => simp only at hd ⊢; rw [ih s1 t hm, hd]

theorem hcancel_dels (hc : HCfg) (s : HState) (t : Nat) : (hcancel hc s t).1.base.dels = s.base.dels := by
  have hcd : (cancel hc.cfg s.base t).1.dels = s.base.dels :=
    (step_mono hc.cfg s.base (.cancel t) (by intro k; simp)).dels_eq
  unfold hcancel
  split
  · rfl
  · simp only; split
    · split <;> exact hcd
    · exact hcd

theorem hstep_dels (hc : HCfg) (hs : hc.lateStore = false) (s : HState) (op : Op) (i : Nat) (h : HInv hc s)
    (hop : op ≠ .del i) : (hstep hc s op).1.base.dels i = s.base.dels i := by
  cases op with
  | spawn j => exact step_dels hc.cfg s.base (.spawn j) i (by simp)
  | respawn t => exact step_dels hc.cfg s.base (.respawn t) i (by simp)
  | sched t => simp only [hstep, hsched]; rw [hschedN_dels hc hs _ s t h]
  | cancel t => simp only [hstep]; rw [hcancel_dels]
  | del j =>
    have hji : i ≠ j := by intro e; subst e; exact hop rfl
    simp only [hstep]; split
    · rfl
    · simp [delSlot, hji]

theorem hexec_dels (hc : HCfg) (hs : hc.lateStore = false) (i : Nat) (ops : List Op) :
    ∀ s, HInv hc s → (∀ op ∈ ops, op ≠ .del i) → (hexec hc s ops).base.dels i = s.base.dels i := by
  induction ops with
  | nil => intro s _ _; rfl
  | cons op ops ih =>
    intro s h hn
    simp only [hexec]
    rw [ih _ (hstep_inv hc hs s op h) (fun o ho => hn o (List.mem_cons_of_mem _ ho)),
      hstep_dels hc hs s op i h (hn op (List.mem_cons_self ..))]

/-! ## the micro-step budget of `hsched` is never exhausted -/

theorem contOut_not_stuck (b : State) (t : Nat) : contOut b t ≠ some .stuck := by
  unfold contOut; split
  · rename_i res _; cases res <;> simp [resOut]
  · simp

/-- leaving the lock: the task suspends inside `__aexit__`, or goes on at its continuation -/
theorem exitLock_cases (hc : HCfg) (s : HState) (t : Nat) :
    (exitLock hc s t none).2 = some .handoff ∨
    exitLock hc s t none = (setUnl s t none, (contOut s.base t).map .base) := by
  unfold exitLock; split
  · exact Or.inl rfl
  · exact Or.inr (finishExit_none s t)

/-- one micro-step of a task that is not inside `__aexit__`: its output is `handoff`, or it is the
    plain micro-step's output and the task is still not inside `__aexit__` -/
theorem hmicro_out (hc : HCfg) (hs : hc.lateStore = false) (s : HState) (t : Nat) (hu : s.unl t = none) :
    (hmicro hc s t).2 = some .handoff ∨
    ((hmicro hc s t).2 = (micro hc.cfg s.base t).2.map .base ∧ (hmicro hc s t).1.unl t = none) := by
  have key : ∀ (s' : HState), s'.base = (micro hc.cfg s.base t).1 →
      (micro hc.cfg s.base t).2 = contOut (micro hc.cfg s.base t).1 t →
      (exitLock hc s' t none).2 = some .handoff ∨
      ((exitLock hc s' t none).2 = (micro hc.cfg s.base t).2.map .base ∧ (exitLock hc s' t none).1.unl t = none) := by
    intro s' hb ho
    rcases exitLock_cases hc s' t with e | e
    · exact Or.inl e
    · right; rw [e, hb, ← ho]; exact ⟨rfl, by simp [setUnl]⟩
  cases hpc : s.base.pc t with
  | holding p =>
    by_cases he : (instanceValue s.base p).2 = .ph p
    · rw [hmicro_start hc s t p hu hpc he]; exact Or.inr ⟨rfl, hu⟩
    · rw [hmicro_leave hc s t p hu hpc he]
      exact key _ rfl (micro_leave_out hc.cfg s.base t p hpc he)
  | getter p r k =>
    cases k with
    | succ k =>
      rw [hmicro_other hc s t hu (by intro p' hk; rw [hpc] at hk; cases hk) (by intro p' r' hk; rw [hpc] at hk; cases hk)]
      exact Or.inr ⟨rfl, hu⟩
    | zero =>
      cases hok : hc.cfg.ok r with
      | true =>
        rw [hmicro_ok hc s t p r hu hpc hok hs]
        exact key _ rfl (micro_getter0_out hc.cfg s.base t p r hpc)
      | false =>
        rw [hmicro_fail hc s t p r hu hpc hok]
        exact key _ rfl (micro_getter0_out hc.cfg s.base t p r hpc)
  | _ =>
    rw [hmicro_other hc s t hu (by intro p' hk; rw [hpc] at hk; cases hk) (by intro p' r' hk; rw [hpc] at hk; cases hk)]
    exact Or.inr ⟨rfl, hu⟩

theorem hschedN_not_stuck (hc : HCfg) (hs : hc.lateStore = false) (n : Nat) :
    ∀ (s : HState) (t : Nat), HInv hc s → s.unl t = none → rank s.base t < n →
    (hschedN hc n s t).2 ≠ .base .stuck := by
  induction n with
  | zero => intro s t _ _ hr; omega
  | succ n ih =>
    intro s t h hu hr
    unfold hschedN
    have hm := hmicro_inv hc hs s t h
    have hb := hmicro_base hc hs s t h
    have ho := hmicro_out hc hs s t hu
    have hns := micro_not_stuck hc.cfg s.base t
    have hrk := micro_rank hc.cfg s.base t h.inv
    generalize hmicro hc s t = r at hm hb ho
    obtain ⟨s1, o⟩ := r
    simp only at hm hb ho
    cases o with
    | some o =>
      simp only
      rcases ho with e | ⟨e, _⟩
      · cases e; simp
      · intro e'; subst e'
        cases hmo : (micro hc.cfg s.base t).2 with
        | none => rw [hmo] at e; cases e
        | some x => rw [hmo] at e hns; simp only [Option.map, Option.some.injEq, HOut.base.injEq] at e; subst e; exact hns rfl
    | none =>
      simp only
      rcases ho with e | ⟨e, hu1⟩
      · cases e
      · rcases hb with ⟨hne, _⟩ | ⟨_, hb⟩
        · exact absurd hu hne
        · have hmo : (micro hc.cfg s.base t).2 = none := by
            cases hmo : (micro hc.cfg s.base t).2 with
            | none => rfl
            | some x => rw [hmo] at e; cases e
          have hlt := hrk s1.base (by rw [hb]; exact Prod.ext rfl hmo)
          exact ih s1 t hm hu1 (by omega)

theorem hstep_not_stuck (hc : HCfg) (hs : hc.lateStore = false) (s : HState) (op : Op) (h : HInv hc s) :
    (hstep hc s op).2 ≠ .base .stuck := by
  cases op with
  | spawn i => simp only [hstep, ne_eq, HOut.base.injEq]; exact step_not_stuck hc.cfg s.base _ h.inv
  | respawn t => simp only [hstep, ne_eq, HOut.base.injEq]; exact step_not_stuck hc.cfg s.base _ h.inv
  | sched t =>
    simp only [hstep, hsched]
    cases hu : s.unl t with
    | none => exact hschedN_not_stuck hc hs _ s t h hu (by have := rank_le s.base t; unfold schedFuel; omega)
    | some u =>
      obtain ⟨k, st⟩ := u
      have hst : st = none := h.nopend t _ hu
      subst hst
      unfold schedFuel hschedN
      cases k with
      | succ k => rw [hmicro_unl_succ hc s t k _ hu]; simp
      | zero =>
        rw [hmicro_unl_zero hc s t _ hu, finishExit_none]
        cases hco : contOut s.base t with
        | some x =>
          simp only [Option.map, ne_eq, HOut.base.injEq]
          intro e; subst e; exact contOut_not_stuck s.base t hco
        | none =>
          simp only [Option.map]
          exact hschedN_not_stuck hc hs _ _ t (hinv_setUnl h t none (by intro u' e; cases e)) (by simp [setUnl])
            (by have := rank_le s.base t; show rank s.base t < 7; omega)
  | cancel t =>
    have hcs : (cancel hc.cfg s.base t).2 ≠ .stuck := step_not_stuck hc.cfg s.base (.cancel t) h.inv
    simp only [hstep, hcancel]
    split
    · simp
    · split
      · split
        · simp
        · simpa using hcs
      · simpa using hcs
  | del i => simp only [hstep]; split <;> simp

/-! ## any number of release suspensions, histories without `del` and cancellation:
   the plain machine on the schedule with the steps inside `__aexit__` erased -/

/-- the operation only moves a task that is inside `__aexit__` -/
def inExit (s : HState) : Op → Bool
  | .sched t => (s.unl t).isSome
  | _ => false

/-- the schedule without the steps taken inside `__aexit__` -/
def eraseExit (hc : HCfg) : HState → List Op → List Op
  | _, [] => []
  | s, op :: ops =>
    if inExit s op then eraseExit hc (hstep hc s op).1 ops else op :: eraseExit hc (hstep hc s op).1 ops

/-- histories in which `return await stored` after the release never has a placeholder to await -/
def plainOp : Op → Bool
  | .del _ => false
  | .cancel _ => false
  | _ => true

structure PInv (hc : HCfg) (s : HState) : Prop extends HInv hc s where
  nodel : ∀ i, s.base.dels i = 0
  unl_done : ∀ t u, s.unl t = some u → ∃ res, s.base.pc t = .done res

/-- without `del`, the re-check under the lock finds this placeholder or a value -/
theorem leave_val (cfg : Cfg) (b : State) (p : Nat) (h : Inv cfg b) (hp : p < b.nextP) (hd : b.dels (b.phInst p) = 0)
    (he : (instanceValue b p).2 ≠ .ph p) : ∃ v, instanceValue b p = (b, .val v) := by
  cases hsl : b.slot (b.phInst p) with
  | none => exact absurd rfl (h.df_none _ p hsl hd hp)
  | some x =>
    cases x with
    | val v => exact ⟨v, instanceValue_of_slot b p _ hsl⟩
    | ph p' =>
      obtain ⟨hp', hi'⟩ := h.slot_ph _ _ hsl
      have : p' = p := h.df_inj p' p hp' hp hi' (by rw [hi']; exact hd)
      subst this
      rw [instanceValue_of_slot b p' _ hsl] at he
      exact absurd rfl he

theorem micro_leave_done (cfg : Cfg) (b : State) (t p : Nat) (h : Inv cfg b) (hpc : b.pc t = .holding p)
    (hd : b.dels (b.phInst p) = 0) (he : (instanceValue b p).2 ≠ .ph p) :
    ∃ res, (micro cfg b t).1.pc t = .done res := by
  obtain ⟨v, hv⟩ := leave_val cfg b p h (h.pc_holding t p hpc).1 hd he
  refine ⟨.ok v, ?_⟩
  simp [micro, hpc, hv, awaitStored, setPc]

theorem exitLock_unl (hc : HCfg) (s : HState) (t t' : Nat) (hne : t' ≠ t) :
    (exitLock hc s t none).1.unl t' = s.unl t' := by
  rcases exitLock_none_fst hc s t with e | ⟨_, _, e⟩ <;> rw [e] <;> simp [setUnl, hne]

theorem contOut_done (b : State) (t : Nat) (res : Res) (h : b.pc t = .done res) : contOut b t = some (resOut res) := by
  simp [contOut, h]

/-- leaving the lock with a finished continuation -/
theorem exit_proj {hc : HCfg} {s : HState} (s' : HState) (t : Nat) (h : PInv hc s) (hu : s.unl t = none)
    (hb : s'.base = (micro hc.cfg s.base t).1) (hun : s'.unl = s.unl)
    (hinv : HInv hc (exitLock hc s' t none).1) (res : Res) (hpc : (micro hc.cfg s.base t).1.pc t = .done res)
    (hout : (micro hc.cfg s.base t).2 ≠ none) :
    PInv hc (exitLock hc s' t none).1 ∧ (exitLock hc s' t none).1.base = (micro hc.cfg s.base t).1 ∧
    ((exitLock hc s' t none).2 = none ↔ (micro hc.cfg s.base t).2 = none) ∧
    ((exitLock hc s' t none).2 = none → (exitLock hc s' t none).1.unl t = none) := by
  have hbase : (exitLock hc s' t none).1.base = (micro hc.cfg s.base t).1 := by rw [exitLock_base, hb]
  have hsome : (exitLock hc s' t none).2 ≠ none := by
    rcases exitLock_cases hc s' t with e | e
    · rw [e]; simp
    · rw [e, hb, contOut_done _ t res hpc]; simp
  refine ⟨⟨hinv, ?_, ?_⟩, hbase, ⟨fun e => absurd e hsome, fun e => absurd e hout⟩, fun e => absurd e hsome⟩
  · intro i; rw [hbase, (micro_mono hc.cfg s.base t).dels_eq]; exact h.nodel i
  · intro t' u hu'
    rw [hbase]
    by_cases e : t' = t
    · subst e; exact ⟨res, hpc⟩
    · rw [exitLock_unl hc s' t t' e, hun] at hu'
      rw [micro_frame hc.cfg s.base t t' e]; exact h.unl_done t' u hu'

theorem hmicro_proj (hc : HCfg) (hs : hc.lateStore = false) (s : HState) (t : Nat) (h : PInv hc s)
    (hu : s.unl t = none) :
    PInv hc (hmicro hc s t).1 ∧ (hmicro hc s t).1.base = (micro hc.cfg s.base t).1 ∧
    ((hmicro hc s t).2 = none ↔ (micro hc.cfg s.base t).2 = none) ∧
    ((hmicro hc s t).2 = none → (hmicro hc s t).1.unl t = none) := by
  have hinv := hmicro_inv hc hs s t h.toHInv
  -- a step that does not leave the lock
  have stay : ∀ (st' : Nat → Nat),
      hmicro hc s t = ({ s with base := (micro hc.cfg s.base t).1, starts := st' }, (micro hc.cfg s.base t).2.map .base) →
      PInv hc (hmicro hc s t).1 ∧ (hmicro hc s t).1.base = (micro hc.cfg s.base t).1 ∧
      ((hmicro hc s t).2 = none ↔ (micro hc.cfg s.base t).2 = none) ∧
      ((hmicro hc s t).2 = none → (hmicro hc s t).1.unl t = none) := by
    intro st' e
    rw [e] at hinv ⊢
    refine ⟨⟨hinv, ?_, ?_⟩, rfl, by simp, fun _ => hu⟩
    · intro i; show (micro hc.cfg s.base t).1.dels i = 0
      rw [(micro_mono hc.cfg s.base t).dels_eq]; exact h.nodel i
    · intro t' u hu'
      have hne : t' ≠ t := by intro e'; subst e'; exact absurd (show s.unl t' = some u from hu') (by rw [hu]; simp)
      show ∃ res, (micro hc.cfg s.base t).1.pc t' = .done res
      rw [micro_frame hc.cfg s.base t t' hne]; exact h.unl_done t' u hu'
  cases hpc : s.base.pc t with
  | holding p =>
    by_cases he : (instanceValue s.base p).2 = .ph p
    · exact stay _ (hmicro_start hc s t p hu hpc he)
    · rw [hmicro_leave hc s t p hu hpc he] at hinv ⊢
      obtain ⟨res, hres⟩ := micro_leave_done hc.cfg s.base t p h.inv hpc (h.nodel _) he
      refine exit_proj _ t h hu rfl rfl hinv res hres ?_
      rw [micro_leave_out hc.cfg s.base t p hpc he, contOut_done _ t res hres]; simp
  | getter p r k =>
    cases k with
    | succ k =>
      exact stay _ (hmicro_other hc s t hu (by intro p' hk; rw [hpc] at hk; cases hk) (by intro p' r' hk; rw [hpc] at hk; cases hk))
    | zero =>
      have hres : (micro hc.cfg s.base t).1.pc t = .done (if hc.cfg.ok r then .ok r else .failed r) := by
        rw [micro_getter0 hc.cfg s.base t p r hpc, complete_pc]; simp
      have hout : (micro hc.cfg s.base t).2 ≠ none := by
        rw [micro_getter0_out hc.cfg s.base t p r hpc, contOut_done _ t _ hres]; simp
      cases hok : hc.cfg.ok r with
      | true =>
        rw [hmicro_ok hc s t p r hu hpc hok hs] at hinv ⊢
        exact exit_proj _ t h hu rfl rfl hinv _ hres hout
      | false =>
        rw [hmicro_fail hc s t p r hu hpc hok] at hinv ⊢
        exact exit_proj _ t h hu rfl rfl hinv _ hres hout
  | _ =>
    exact stay _ (hmicro_other hc s t hu (by intro p' hk; rw [hpc] at hk; cases hk) (by intro p' r' hk; rw [hpc] at hk; cases hk))

theorem hschedN_proj (hc : HCfg) (hs : hc.lateStore = false) (n : Nat) :
    ∀ (s : HState) (t : Nat), PInv hc s → s.unl t = none →
    PInv hc (hschedN hc n s t).1 ∧ (hschedN hc n s t).1.base = (schedN hc.cfg n s.base t).1 := by
  induction n with
  | zero => intro s t h _; exact ⟨h, rfl⟩
  | succ n ih =>
    intro s t h hu
    obtain ⟨e1, e2, e3, e4⟩ := hmicro_proj hc hs s t h hu
    unfold hschedN schedN
    generalize hmicro hc s t = r at e1 e2 e3 e4
    obtain ⟨s1, o⟩ := r
    generalize micro hc.cfg s.base t = r' at e2 e3
    obtain ⟨b1, o'⟩ := r'
    simp only at e1 e2 e3 e4
    cases o with
    | some o =>
      cases o' with
      | some o' => exact ⟨e1, e2⟩
      | none => exact absurd (e3.2 rfl) (by simp)
    | none =>
      cases o' with
      | some o' => exact absurd (e3.1 rfl) (by simp)
      | none =>
        have := ih s1 t e1 (e4 rfl)
        rw [e2] at this; exact this

/-- a step of a task inside `__aexit__` changes nothing but that task's position there -/
theorem hsched_inExit (hc : HCfg) (s : HState) (t : Nat) (u : Unl) (h : PInv hc s) (hu : s.unl t = some u) :
    PInv hc (hsched hc s t).1 ∧ (hsched hc s t).1.base = s.base := by
  obtain ⟨k, st⟩ := u
  have hst : st = none := h.nopend t _ hu
  subst hst
  obtain ⟨res, hres⟩ := h.unl_done t _ hu
  have hset : ∀ u', (∀ u'', u' = some u'' → u''.store = none) → PInv hc (setUnl s t u') := by
    intro u' hu'
    refine ⟨hinv_setUnl h.toHInv t u' ?_, h.nodel, ?_⟩
    · intro u'' e; exact ⟨hu' u'' e, h.unl_pc t _ hu, unl_some_handoff h.toHInv t _ hu⟩
    · intro t' u''; simp only [setUnl]; split
      · rename_i e; subst e; intro _; exact ⟨res, hres⟩
      · exact h.unl_done t' u''
  unfold hsched schedFuel hschedN
  cases k with
  | succ k =>
    rw [hmicro_unl_succ hc s t k _ hu]
    exact ⟨hset _ (by intro u'' e; cases e; rfl), rfl⟩
  | zero =>
    rw [hmicro_unl_zero hc s t _ hu, finishExit_none, contOut_done _ t res hres]
    exact ⟨hset none (by intro u'' e; cases e), rfl⟩

theorem hstep_proj (hc : HCfg) (hs : hc.lateStore = false) (s : HState) (op : Op) (h : PInv hc s) (hop : plainOp op = true) :
    PInv hc (hstep hc s op).1 ∧
    (hstep hc s op).1.base = if inExit s op then s.base else (step hc.cfg s.base op).1 := by
  have hi := hstep_inv hc hs s op h.toHInv
  have hnd : ∀ i, (hstep hc s op).1.base.dels i = 0 := by
    intro i
    rw [hstep_dels hc hs s op i h.toHInv (by intro e; subst e; simp [plainOp] at hop)]; exact h.nodel i
  cases op with
  | spawn i =>
    refine ⟨⟨hi, hnd, ?_⟩, rfl⟩
    intro t' u hu'
    have hu' : s.unl t' = some u := hu'
    have hne : t' ≠ s.base.nTasks := by intro e; subst e; rw [unl_fresh h.toHInv] at hu'; cases hu'
    show ∃ res, (step hc.cfg s.base (.spawn i)).1.pc t' = .done res
    rw [spawn_frame hc.cfg s.base i t' hne]; exact h.unl_done t' u hu'
  | respawn t =>
    refine ⟨⟨hi, hnd, ?_⟩, rfl⟩
    intro t' u hu'
    have hu' : s.unl t' = some u := hu'
    have hne : t' ≠ s.base.nTasks := by intro e; subst e; rw [unl_fresh h.toHInv] at hu'; cases hu'
    show ∃ res, (step hc.cfg s.base (.respawn t)).1.pc t' = .done res
    rw [respawn_frame hc.cfg s.base t t' hne]; exact h.unl_done t' u hu'
  | sched t =>
    cases hu : s.unl t with
    | some u =>
      simp only [inExit, hu, Option.isSome_some, if_true]
      exact hsched_inExit hc s t u h hu
    | none =>
      simp only [inExit, hu, Option.isSome_none, Bool.false_eq_true, if_false]
      exact hschedN_proj hc hs _ s t h hu
  | cancel t => exact absurd hop (by simp [plainOp])
  | del i => exact absurd hop (by simp [plainOp])

theorem hexec_proj (hc : HCfg) (hs : hc.lateStore = false) (ops : List Op) :
    ∀ s, PInv hc s → (∀ op ∈ ops, plainOp op = true) →
    (hexec hc s ops).base = exec hc.cfg s.base (eraseExit hc s ops) := by
  induction ops with
  | nil => intro s _ _; rfl
  | cons op ops ih =>
    intro s h hn
    obtain ⟨h1, e1⟩ := hstep_proj hc hs s op h (hn op (List.mem_cons_self ..))
    have := ih _ h1 (fun o ho => hn o (List.mem_cons_of_mem _ ho))
    simp only [hexec, eraseExit]
    rw [this, e1]
    split
    · rfl
    · rfl

theorem hinit_pinv (hc : HCfg) : PInv hc HState.init :=
  ⟨hinit_inv hc, fun _ => rfl, by intro t u e; cases e⟩

end AsyncVerif.CachedPropertyHandoff
