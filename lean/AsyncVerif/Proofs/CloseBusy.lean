import AsyncVerif.Machines.CloseBusy
/-!
# Helper lemmas for `Properties/C17CloseBusy.lean`

`SrcFrame` / `BStep` / `AStep` describe what `S.aclose()`, one `send` on B and one `send` on A do, seen from
outside; `bRemaining` is the measure that bounds B's own steps; the `…Inv` predicates are the invariants of the
runs of `exec`.
-/
namespace AsyncVerif.CloseBusy

/-! ## `S.aclose()` begins -/

/-- a call of `S.aclose()` touches only the source's own fields -/
structure SrcFrame (s s' : St) : Prop where
  kind : s'.kind = s.kind
  srcKind : s'.srcKind = s.srcKind
  k : s'.k = s.k
  closeSusp : s'.closeSusp = s.closeSusp
  a : s'.a = s.a
  b : s'.b = s.b
  aOut : s'.aOut = s.aOut
  bOut : s'.bOut = s.bOut
  aSteps : s'.aSteps = s.aSteps
  bSteps : s'.bSteps = s.bSteps
  events : s'.events = s.events
  handleDone : s'.handleDone = s.handleDone

theorem beginClose_frame (s : St) : SrcFrame s (beginClose s).1 := by
  unfold beginClose
  split <;> constructor <;> rfl

theorem callSrcClose_frame (s : St) : SrcFrame s (callSrcClose s).1 := by
  unfold callSrcClose
  split
  · split
    · constructor <;> rfl
    · split
      · constructor <;> rfl
      · exact beginClose_frame s
  · exact beginClose_frame s

theorem beginClose_susp (s : St) (j : Nat) (h : (beginClose s).2 = .suspended j) : j + 1 = s.closeSusp := by
  unfold beginClose at h
  split at h
  · simp at h
  · rename_i j' hj; simp at h; omega

theorem beginClose_not_refused (s : St) : (beginClose s).2 ≠ .refused := by
  unfold beginClose; split <;> simp

theorem callSrcClose_susp (s : St) (j : Nat) (h : (callSrcClose s).2 = .suspended j) :
    j + 1 = s.closeSusp := by
  unfold callSrcClose at h
  split at h
  · split at h
    · simp at h
    · split at h
      · simp at h
      · exact beginClose_susp s j h
  · exact beginClose_susp s j h

/-- a native generator refuses only while A is inside it; a class-based source never refuses -/
theorem callSrcClose_refused (s : St) (h : (callSrcClose s).2 = .refused) :
    s.srcKind = .native ∧ s.aInside = true := by
  unfold callSrcClose at h
  split at h
  · rename_i hk
    split at h
    · rename_i ha; exact ⟨hk, ha⟩
    · split at h
      · simp at h
      · exact absurd h (beginClose_not_refused s)
  · exact absurd h (beginClose_not_refused s)

/-! ## one `send` on B -/

/-- what B's coroutine may still have to do after `S.aclose()` returns: `chain` may close `S` once more -/
def contCost (cs : Nat) : Cont → Nat
  | .thenIter => cs
  | .genExit _ => 0
  | .ret => 0

/-- an upper bound on the `send`s B still needs -/
def bRemaining (s : St) : Nat :=
  match s.b with
  | .idle => closeBound s.kind s.closeSusp + 1
  | .inUserClose j c => j + 1 + contCost s.closeSusp c
  | .done => 0

/-- the parts of the state B's code does not touch -/
structure BFrame (s s' : St) : Prop where
  kind : s'.kind = s.kind
  srcKind : s'.srcKind = s.srcKind
  k : s'.k = s.k
  closeSusp : s'.closeSusp = s.closeSusp
  a : s'.a = s.a
  aOut : s'.aOut = s.aOut
  aSteps : s'.aSteps = s.aSteps
  bSteps : s'.bSteps = s.bSteps

theorem BFrame.refl (s : St) : BFrame s s := by constructor <;> rfl

theorem BFrame.trans {s s1 s2 : St} (h1 : BFrame s s1) (h2 : BFrame s1 s2) : BFrame s s2 := by
  constructor
  · rw [h2.kind, h1.kind]
  · rw [h2.srcKind, h1.srcKind]
  · rw [h2.k, h1.k]
  · rw [h2.closeSusp, h1.closeSusp]
  · rw [h2.a, h1.a]
  · rw [h2.aOut, h1.aOut]
  · rw [h2.aSteps, h1.aSteps]
  · rw [h2.bSteps, h1.bSteps]

theorem SrcFrame.bframe {s s' : St} (h : SrcFrame s s') : BFrame s s' :=
  ⟨h.kind, h.srcKind, h.k, h.closeSusp, h.a, h.aOut, h.aSteps, h.bSteps⟩

/-- how a piece of B's code ends, relative to the event log `ev` and B's outputs `bo` it started with: B is
    through (no new event), or B is suspended on ONE token of the user's `S.aclose()`, with at most `bound`
    `send`s to go -/
def BEnds (ev : List Ev) (bo : List Out) (cs bound : Nat) (s' : St) : Prop :=
  (s'.b = .done ∧ s'.events = ev ∧ ∃ o, s'.bOut = bo ++ [o] ∧ (o = .ret ∨ o = .busy)) ∨
  (∃ t j c, s'.b = .inUserClose j c ∧ j + 1 + contCost cs c ≤ bound ∧ t + j + 1 = cs ∧
     s'.events = ev ++ [⟨.B, .user (.close t)⟩] ∧ s'.bOut = bo ++ [.susp (.user (.close t))])

theorem BEnds.mono {ev bo cs b1 b2 s'} (h : BEnds ev bo cs b1 s') (hb : b1 ≤ b2) : BEnds ev bo cs b2 s' := by
  rcases h with h | ⟨t, j, c, h1, h2, h3⟩
  · exact Or.inl h
  · exact Or.inr ⟨t, j, c, h1, by omega, h3⟩

theorem bRaise_ends (s : St) (n : Nat) : BFrame s (bRaise s) ∧ BEnds s.events s.bOut s.closeSusp n (bRaise s) :=
  ⟨by constructor <;> rfl, Or.inl ⟨rfl, rfl, .busy, rfl, Or.inr rfl⟩⟩

theorem bFinish_ends (fail : Bool) (s : St) (n : Nat) :
    BFrame s (bFinish fail s) ∧ BEnds s.events s.bOut s.closeSusp n (bFinish fail s) := by
  refine ⟨by constructor <;> rfl, Or.inl ⟨rfl, rfl, _, rfl, ?_⟩⟩
  cases fail <;> simp

theorem bIterClose_ends (fail : Bool) (s : St) :
    BFrame s (bIterClose fail s) ∧ BEnds s.events s.bOut s.closeSusp s.closeSusp (bIterClose fail s) := by
  unfold bIterClose
  split
  · exact bRaise_ends s _
  · split
    · exact bFinish_ends fail s _
    · have hf := callSrcClose_frame s
      have hs := callSrcClose_susp s
      rcases hc : callSrcClose s with ⟨s1, r⟩
      rw [hc] at hf hs
      dsimp only at hf hs
      cases r with
      | refused =>
        refine ⟨hf.bframe.trans ⟨rfl, rfl, rfl, rfl, rfl, rfl, rfl, rfl⟩, ?_⟩
        dsimp only
        rw [← hf.events, ← hf.bOut, ← hf.closeSusp]
        exact (bRaise_ends { s1 with handleDone := true } _).2
      | returned =>
        refine ⟨hf.bframe.trans ⟨rfl, rfl, rfl, rfl, rfl, rfl, rfl, rfl⟩, ?_⟩
        dsimp only
        rw [← hf.events, ← hf.bOut, ← hf.closeSusp]
        exact (bFinish_ends fail { s1 with handleDone := true } _).2
      | suspended j =>
        refine ⟨hf.bframe.trans ⟨rfl, rfl, rfl, rfl, rfl, rfl, rfl, rfl⟩,
          Or.inr ⟨0, j, .genExit fail, rfl, ?_, ?_, ?_, ?_⟩⟩
        · have := hs j rfl; simp [contCost]; omega
        · have := hs j rfl; omega
        · simp [bSusp, hf.events]
        · simp [bSusp, hf.bOut]

theorem bDirectClose_ends (s : St) :
    BFrame s (bDirectClose s) ∧ BEnds s.events s.bOut s.closeSusp s.closeSusp (bDirectClose s) := by
  unfold bDirectClose
  have hf := callSrcClose_frame s
  have hs := callSrcClose_susp s
  rcases hc : callSrcClose s with ⟨s1, r⟩
  rw [hc] at hf hs
  dsimp only at hf hs
  cases r with
  | refused =>
    refine ⟨hf.bframe.trans (bRaise_ends s1 0).1, ?_⟩
    dsimp only
    rw [← hf.events, ← hf.bOut, ← hf.closeSusp]
    exact (bRaise_ends s1 _).2
  | returned =>
    refine ⟨hf.bframe.trans (bFinish_ends false s1 0).1, ?_⟩
    dsimp only
    rw [← hf.events, ← hf.bOut, ← hf.closeSusp]
    exact (bFinish_ends false s1 _).2
  | suspended j =>
    refine ⟨hf.bframe.trans ⟨rfl, rfl, rfl, rfl, rfl, rfl, rfl, rfl⟩,
      Or.inr ⟨0, j, .ret, rfl, ?_, ?_, ?_, ?_⟩⟩
    · have := hs j rfl; simp [contCost]; omega
    · have := hs j rfl; omega
    · simp [bSusp, hf.events]
    · simp [bSusp, hf.bOut]

theorem bStart_ends (s : St) :
    BFrame s (bStart s) ∧
      BEnds s.events s.bOut s.closeSusp (closeBound s.kind s.closeSusp) (bStart s) := by
  unfold bStart
  split
  · -- gen
    rename_i hk
    have := bIterClose_ends false s
    exact ⟨this.1, this.2.mono (by simp [closeBound, hk])⟩
  · -- chain
    rename_i hk
    have hf := callSrcClose_frame s
    have hs := callSrcClose_susp s
    rcases hc : callSrcClose s with ⟨s1, r⟩
    rw [hc] at hf hs
    dsimp only at hf hs
    cases r with
    | refused =>
      have := bIterClose_ends true s1
      refine ⟨hf.bframe.trans this.1, ?_⟩
      dsimp only
      rw [← hf.events, ← hf.bOut, ← hf.closeSusp]
      exact this.2.mono (by simp [closeBound, hk])
    | returned =>
      have := bIterClose_ends false s1
      refine ⟨hf.bframe.trans this.1, ?_⟩
      dsimp only
      rw [← hf.events, ← hf.bOut, ← hf.closeSusp]
      exact this.2.mono (by simp [closeBound, hk])
    | suspended j =>
      refine ⟨hf.bframe.trans ⟨rfl, rfl, rfl, rfl, rfl, rfl, rfl, rfl⟩,
        Or.inr ⟨0, j, .thenIter, rfl, ?_, ?_, ?_, ?_⟩⟩
      · have := hs j rfl; simp [contCost, closeBound, hk]; omega
      · have := hs j rfl; omega
      · simp [bSusp, hf.events]
      · simp [bSusp, hf.bOut]
  · -- groupby
    rename_i hk
    have := bDirectClose_ends s
    exact ⟨this.1, this.2.mono (by simp [closeBound, hk])⟩
  · -- borrowed
    split
    · exact bRaise_ends s _
    · exact ⟨⟨rfl, rfl, rfl, rfl, rfl, rfl, rfl, rfl⟩, (bFinish_ends false { s with handleDone := true } _).2⟩
  · -- teeChild
    split
    · exact bRaise_ends s _
    · exact ⟨⟨rfl, rfl, rfl, rfl, rfl, rfl, rfl, rfl⟩, (bFinish_ends false { s with handleDone := true } _).2⟩
  · -- scoped
    exact bFinish_ends false s _
  · -- teeAll
    rename_i hk
    split
    · exact bRaise_ends s _
    · have := bDirectClose_ends { s with handleDone := true }
      exact ⟨⟨this.1.kind, this.1.srcKind, this.1.k, this.1.closeSusp, this.1.a, this.1.aOut, this.1.aSteps,
        this.1.bSteps⟩, this.2.mono (by simp [closeBound, hk])⟩

theorem bContinue_ends (c : Cont) (s : St) :
    BFrame s (bContinue c s) ∧
      BEnds s.events s.bOut s.closeSusp (contCost s.closeSusp c) (bContinue c s) := by
  cases c with
  | thenIter => exact bIterClose_ends false s
  | genExit fail =>
    exact ⟨⟨rfl, rfl, rfl, rfl, rfl, rfl, rfl, rfl⟩, (bFinish_ends fail { s with handleDone := true } _).2⟩
  | ret => exact bFinish_ends false s _

/-- B's program counter is well-formed: inside `S.aclose()` fewer than `closeSusp` suspensions are to come -/
def WFb (s : St) : Prop := ∀ j c, s.b = .inUserClose j c → j < s.closeSusp

/-- how one `send` on B ends: B is through without a new event, or it is suspended on one more token of the
    user's `S.aclose()` and the bound on its remaining `send`s went down -/
def BEndsW (s s' : St) : Prop :=
  (s'.b = .done ∧ s'.events = s.events ∧ ∃ o, s'.bOut = s.bOut ++ [o] ∧ (o = .ret ∨ o = .busy)) ∨
  (∃ t j c, s'.b = .inUserClose j c ∧ j + 1 + contCost s.closeSusp c + 1 ≤ bRemaining s ∧
    (WFb s → t + j + 1 = s.closeSusp) ∧
    s'.events = s.events ++ [⟨.B, .user (.close t)⟩] ∧ s'.bOut = s.bOut ++ [.susp (.user (.close t))])

theorem BEndsW.of_ends {s s' : St} {bound : Nat} (hb : bound + 1 ≤ bRemaining s)
    (he : BEnds s.events s.bOut s.closeSusp bound s') : BEndsW s s' := by
  rcases he with he | ⟨t, j, c, h1, h2, h3, h4⟩
  · exact Or.inl he
  · exact Or.inr ⟨t, j, c, h1, by omega, fun _ => h3, h4⟩

theorem stepB_ends (s : St) (h : s.b ≠ .done) : BFrame s (stepB s) ∧ BEndsW s (stepB s) := by
  unfold stepB
  split
  · rename_i hb
    have := bStart_ends s
    exact ⟨this.1, BEndsW.of_ends (by simp [bRemaining, hb]) this.2⟩
  · rename_i j c hb
    refine ⟨⟨rfl, rfl, rfl, rfl, rfl, rfl, rfl, rfl⟩, Or.inr ⟨s.closeSusp - 1 - j, j, c, rfl, ?_, ?_, ?_, ?_⟩⟩
    · simp [bRemaining, hb]; omega
    · intro hw; have := hw (j + 1) c hb; omega
    · simp [bSusp]
    · simp [bSusp]
  · rename_i c hb
    have := bContinue_ends c (srcClosed s)
    exact ⟨⟨this.1.kind, this.1.srcKind, this.1.k, this.1.closeSusp, this.1.a, this.1.aOut, this.1.aSteps,
      this.1.bSteps⟩, BEndsW.of_ends (s := s) (by simp [bRemaining, hb, srcClosed]; omega) this.2⟩
  · rename_i hb; exact absurd hb h

/-- what one `send` on B does -/
structure BStep (s s' : St) : Prop where
  kind : s'.kind = s.kind
  srcKind : s'.srcKind = s.srcKind
  k : s'.k = s.k
  closeSusp : s'.closeSusp = s.closeSusp
  a : s'.a = s.a
  aOut : s'.aOut = s.aOut
  aSteps : s'.aSteps = s.aSteps
  bSteps : s'.bSteps = s.bSteps + 1
  ends : BEndsW s s'

theorem stepB_spec (s : St) (h : s.b ≠ .done) : BStep s (step s (.sched .B)) := by
  have := stepB_ends { s with bSteps := s.bSteps + 1 } h
  have hs : step s (.sched .B) = stepB { s with bSteps := s.bSteps + 1 } := by
    cases hb : s.b with
    | done => exact absurd hb h
    | _ => simp only [step, hb]
  rw [hs]
  exact ⟨this.1.kind, this.1.srcKind, this.1.k, this.1.closeSusp, this.1.a, this.1.aOut, this.1.aSteps,
    this.1.bSteps, this.2⟩

theorem step_B_done (s : St) (h : s.b = .done) : step s (.sched .B) = s := by
  simp only [step]; simp [h]

/-! ## one `send` on A -/

/-- A's program counter is well-formed -/
def WFa (s : St) : Prop := (∀ j, s.a = .inSrc j → j ≤ s.k) ∧ (∀ j, s.a = .inClose j → j < s.closeSusp)

/-- the parts of the state A's code does not touch -/
structure AFrame (s s' : St) : Prop where
  kind : s'.kind = s.kind
  srcKind : s'.srcKind = s.srcKind
  k : s'.k = s.k
  closeSusp : s'.closeSusp = s.closeSusp
  b : s'.b = s.b
  bOut : s'.bOut = s.bOut
  bSteps : s'.bSteps = s.bSteps
  aSteps : s'.aSteps = s.aSteps

/-- how one `send` on A ends: A is through without a new event, or it is suspended on one more token of the
    user's `S.__anext__()` / `S.aclose()` -/
def AEndsW (s s' : St) : Prop :=
  (∃ r, s'.a = .done r ∧ s'.events = s.events ∧ s'.aOut = s.aOut ++ [r.out]) ∨
  (∃ tok, s'.events = s.events ++ [⟨.A, .user tok⟩] ∧ s'.aOut = s.aOut ++ [.susp (.user tok)] ∧
     ((∃ t j, tok = .src t ∧ s'.a = .inSrc j ∧ (WFa s → t + j = s.k ∧ 1 ≤ t)) ∨
      (∃ t j, tok = .close t ∧ s'.a = .inClose j ∧ (WFa s → t + j + 1 = s.closeSusp))))

theorem aFinish_ends (r : ARes) (s : St) : AFrame s (aFinish r s) ∧ AEndsW s (aFinish r s) :=
  ⟨⟨rfl, rfl, rfl, rfl, rfl, rfl, rfl, rfl⟩, Or.inl ⟨r, rfl, rfl, rfl⟩⟩

theorem aAfterStop_ends (s : St) : AFrame s (aAfterStop s) ∧ AEndsW s (aAfterStop s) := by
  have key : AFrame s (match beginClose s with
      | (s1, .suspended j) => aSusp (.close 0) { s1 with a := .inClose j }
      | (s1, _) => aFinish .stop { s1 with handleDone := true }) ∧
      AEndsW s (match beginClose s with
      | (s1, .suspended j) => aSusp (.close 0) { s1 with a := .inClose j }
      | (s1, _) => aFinish .stop { s1 with handleDone := true }) := by
    have hf := beginClose_frame s
    have hs := beginClose_susp s
    rcases hc : beginClose s with ⟨s1, r⟩
    rw [hc] at hf hs
    dsimp only at hf hs
    have hfr : ∀ s2 : St, s2.kind = s1.kind → s2.srcKind = s1.srcKind → s2.k = s1.k → s2.closeSusp = s1.closeSusp →
        s2.b = s1.b → s2.bOut = s1.bOut → s2.bSteps = s1.bSteps → s2.aSteps = s1.aSteps → AFrame s s2 :=
      fun s2 h1 h2 h3 h4 h5 h6 h7 h8 => ⟨h1.trans hf.kind, h2.trans hf.srcKind, h3.trans hf.k, h4.trans hf.closeSusp,
        h5.trans hf.b, h6.trans hf.bOut, h7.trans hf.bSteps, h8.trans hf.aSteps⟩
    cases r with
    | suspended j =>
      dsimp only
      refine ⟨hfr _ rfl rfl rfl rfl rfl rfl rfl rfl, Or.inr ⟨.close 0, ?_, ?_, Or.inr ⟨0, j, rfl, rfl, ?_⟩⟩⟩
      · simp [aSusp, hf.events]
      · simp [aSusp, hf.aOut]
      · intro _; have := hs j rfl; omega
    | refused =>
      dsimp only
      refine ⟨hfr _ rfl rfl rfl rfl rfl rfl rfl rfl, Or.inl ⟨.stop, rfl, ?_, ?_⟩⟩
      · simp [aFinish, hf.events]
      · simp [aFinish, hf.aOut]
    | returned =>
      dsimp only
      refine ⟨hfr _ rfl rfl rfl rfl rfl rfl rfl rfl, Or.inl ⟨.stop, rfl, ?_, ?_⟩⟩
      · simp [aFinish, hf.events]
      · simp [aFinish, hf.aOut]
  unfold aAfterStop
  split
  · exact key
  · exact key
  · exact aFinish_ends .stop s
  · exact ⟨⟨rfl, rfl, rfl, rfl, rfl, rfl, rfl, rfl⟩, Or.inl ⟨.stop, rfl, rfl, rfl⟩⟩
  · exact ⟨⟨rfl, rfl, rfl, rfl, rfl, rfl, rfl, rfl⟩, Or.inl ⟨.stop, rfl, rfl, rfl⟩⟩
  · exact ⟨⟨rfl, rfl, rfl, rfl, rfl, rfl, rfl, rfl⟩, Or.inl ⟨.stop, rfl, rfl, rfl⟩⟩
  · exact ⟨⟨rfl, rfl, rfl, rfl, rfl, rfl, rfl, rfl⟩, Or.inl ⟨.stop, rfl, rfl, rfl⟩⟩

theorem stepA_ends (s : St) (h : s.aInside = true) : AFrame s (stepA s) ∧ AEndsW s (stepA s) := by
  unfold stepA
  split
  · rename_i j ha
    refine ⟨⟨rfl, rfl, rfl, rfl, rfl, rfl, rfl, rfl⟩,
      Or.inr ⟨.src (s.k - j), by simp [aSusp], by simp [aSusp], Or.inl ⟨s.k - j, j, rfl, rfl, ?_⟩⟩⟩
    intro hw; have := hw.1 (j + 1) ha; omega
  · split
    · exact aAfterStop_ends s
    · exact aFinish_ends .item s
  · rename_i j ha
    refine ⟨⟨rfl, rfl, rfl, rfl, rfl, rfl, rfl, rfl⟩,
      Or.inr ⟨.close (s.closeSusp - 1 - j), by simp [aSusp], by simp [aSusp],
        Or.inr ⟨s.closeSusp - 1 - j, j, rfl, rfl, ?_⟩⟩⟩
    intro hw; have := hw.2 (j + 1) ha; omega
  · exact ⟨⟨rfl, rfl, rfl, rfl, rfl, rfl, rfl, rfl⟩, Or.inl ⟨.stop, rfl, rfl, rfl⟩⟩
  · rename_i r ha; simp [St.aInside, ha] at h

/-- what one `send` on A does -/
structure AStep (s s' : St) : Prop where
  kind : s'.kind = s.kind
  srcKind : s'.srcKind = s.srcKind
  k : s'.k = s.k
  closeSusp : s'.closeSusp = s.closeSusp
  b : s'.b = s.b
  bOut : s'.bOut = s.bOut
  bSteps : s'.bSteps = s.bSteps
  aSteps : s'.aSteps = s.aSteps + 1
  ends : AEndsW s s'

theorem step_A_eq (s : St) (h : s.aInside = true) :
    step s (.sched .A) = stepA { s with aSteps := s.aSteps + 1 } := by
  cases ha : s.a with
  | done r => simp [St.aInside, ha] at h
  | _ => simp only [step, ha]

theorem stepA_spec (s : St) (h : s.aInside = true) : AStep s (step s (.sched .A)) := by
  have := stepA_ends { s with aSteps := s.aSteps + 1 } h
  rw [step_A_eq s h]
  exact ⟨this.1.kind, this.1.srcKind, this.1.k, this.1.closeSusp, this.1.b, this.1.bOut, this.1.bSteps,
    this.1.aSteps, this.2⟩

theorem step_A_done (s : St) (h : s.aInside = false) : step s (.sched .A) = s := by
  cases ha : s.a with
  | done r => simp only [step, ha]
  | _ => simp [St.aInside, ha] at h

theorem step_B_eq (s : St) (h : s.b ≠ .done) :
    step s (.sched .B) = stepB { s with bSteps := s.bSteps + 1 } := by
  cases hb : s.b with
  | done => exact absurd hb h
  | _ => simp only [step, hb]

/-! ## runs -/

theorem run_append (s : St) (l1 l2 : List Op) : run s (l1 ++ l2) = run (run s l1) l2 := by
  induction l1 generalizing s with
  | nil => rfl
  | cons op l1 ih => exact ih (step s op)

theorem count_append (t : Task) (l1 l2 : List Op) : count t (l1 ++ l2) = count t l1 + count t l2 := by
  induction l1 with
  | nil => simp [count]
  | cons op l1 ih => cases op with | sched u => simp [count, ih]; omega

/-- an invariant of every step is an invariant of every run -/
theorem run_inv (P : St → Prop) (hstep : ∀ s op, P s → P (step s op)) :
    ∀ (ops : List Op) (s : St), P s → P (run s ops) := by
  intro ops
  induction ops with
  | nil => intro s h; exact h
  | cons op ops ih => intro s h; exact ih _ (hstep s op h)

/-- the configuration never changes -/
theorem step_cfg (s : St) (op : Op) :
    (step s op).kind = s.kind ∧ (step s op).srcKind = s.srcKind ∧ (step s op).k = s.k ∧
      (step s op).closeSusp = s.closeSusp := by
  cases op with
  | sched t =>
    cases t with
    | A =>
      cases h : s.aInside with
      | false => rw [step_A_done s h]; exact ⟨rfl, rfl, rfl, rfl⟩
      | true => have := stepA_spec s h; exact ⟨this.kind, this.srcKind, this.k, this.closeSusp⟩
    | B =>
      by_cases h : s.b = .done
      · rw [step_B_done s h]; exact ⟨rfl, rfl, rfl, rfl⟩
      · have := stepB_spec s h; exact ⟨this.kind, this.srcKind, this.k, this.closeSusp⟩

theorem run_cfg (ops : List Op) (s : St) :
    (run s ops).kind = s.kind ∧ (run s ops).srcKind = s.srcKind ∧ (run s ops).k = s.k ∧
      (run s ops).closeSusp = s.closeSusp := by
  induction ops generalizing s with
  | nil => exact ⟨rfl, rfl, rfl, rfl⟩
  | cons op ops ih =>
    have h1 := ih (step s op)
    have h2 := step_cfg s op
    exact ⟨h1.1.trans h2.1, h1.2.1.trans h2.2.1, h1.2.2.1.trans h2.2.2.1, h1.2.2.2.trans h2.2.2.2⟩

/-! ### every event is a token of the user's source -/

/-- the token of an event is one the user's source really produces: suspension `1 … k` of the pull A is in
    (only A is in there), or suspension `0 … closeSusp-1` of a `S.aclose()` -/
def TokOk (k cs : Nat) (e : Ev) : Prop :=
  match e.origin with
  | .user (.src t) => e.task = .A ∧ 1 ≤ t ∧ t ≤ k
  | .user (.close t) => t < cs
  | .lib => False

structure WF (s : St) : Prop where
  a : WFa s
  b : WFb s
  ev : ∀ e ∈ s.events, TokOk s.k s.closeSusp e

theorem init_wf (kind : Kind) (srcKind : SrcKind) (k cs : Nat) : WF (init kind srcKind k cs) := by
  refine ⟨⟨?_, ?_⟩, ?_, ?_⟩
  · intro j h; simp [init] at h ⊢; omega
  · intro j h; simp [init] at h
  · intro j c h; simp [init] at h
  · intro e h; simp [init] at h

theorem step_wf (s : St) (op : Op) (h : WF s) : WF (step s op) := by
  cases op with
  | sched t =>
    cases t with
    | A =>
      cases hin : s.aInside with
      | false => rw [step_A_done s hin]; exact h
      | true =>
        have hs := stepA_spec s hin
        rcases hs.ends with ⟨r, h1, h2, _⟩ | ⟨tok, h2, _, h3⟩
        · refine ⟨⟨?_, ?_⟩, ?_, ?_⟩
          · intro j hj; rw [h1] at hj; cases hj
          · intro j hj; rw [h1] at hj; cases hj
          · intro j c hj; rw [hs.b] at hj; rw [hs.closeSusp]; exact h.b j c hj
          · rw [h2, hs.k, hs.closeSusp]; exact h.ev
        · rcases h3 with ⟨t, j, rfl, h4, h5⟩ | ⟨t, j, rfl, h4, h5⟩
          · have h6 := h5 h.a
            refine ⟨⟨?_, ?_⟩, ?_, ?_⟩
            · intro j' hj; rw [h4] at hj; cases hj; rw [hs.k]; omega
            · intro j' hj; rw [h4] at hj; cases hj
            · intro j' c hj; rw [hs.b] at hj; rw [hs.closeSusp]; exact h.b j' c hj
            · rw [h2, hs.k, hs.closeSusp]
              intro e he
              rcases List.mem_append.1 he with he | he
              · exact h.ev e he
              · simp at he; subst he; simp only [TokOk]; exact ⟨trivial, h6.2, by omega⟩
          · have h6 := h5 h.a
            refine ⟨⟨?_, ?_⟩, ?_, ?_⟩
            · intro j' hj; rw [h4] at hj; cases hj
            · intro j' hj; rw [h4] at hj; cases hj; rw [hs.closeSusp]; omega
            · intro j' c hj; rw [hs.b] at hj; rw [hs.closeSusp]; exact h.b j' c hj
            · rw [h2, hs.k, hs.closeSusp]
              intro e he
              rcases List.mem_append.1 he with he | he
              · exact h.ev e he
              · simp at he; subst he; simp only [TokOk]; omega
    | B =>
      by_cases hb : s.b = .done
      · rw [step_B_done s hb]; exact h
      · have hs := stepB_spec s hb
        have hwa : WFa (step s (.sched .B)) := by
          refine ⟨?_, ?_⟩
          · intro j hj; rw [hs.a] at hj; rw [hs.k]; exact h.a.1 j hj
          · intro j hj; rw [hs.a] at hj; rw [hs.closeSusp]; exact h.a.2 j hj
        rcases hs.ends with ⟨h1, h2, _⟩ | ⟨t, j, c, h1, _, h3, h4, _⟩
        · refine ⟨hwa, ?_, ?_⟩
          · intro j c hj; rw [h1] at hj; cases hj
          · rw [h2, hs.k, hs.closeSusp]; exact h.ev
        · have h6 := h3 h.b
          refine ⟨hwa, ?_, ?_⟩
          · intro j' c' hj; rw [h1] at hj; cases hj; rw [hs.closeSusp]; omega
          · rw [h4, hs.k, hs.closeSusp]
            intro e he
            rcases List.mem_append.1 he with he | he
            · exact h.ev e he
            · simp at he; subst he; simp only [TokOk]; omega

theorem run_wf (ops : List Op) (s : St) (h : WF s) : WF (run s ops) := run_inv WF step_wf ops s h

/-! ### B's own steps -/

theorem bRemaining_zero (s : St) : bRemaining s = 0 ↔ s.b = .done := by
  unfold bRemaining
  cases s.b <;> simp

/-- a step of A does not change what B still has to do; a step of B takes one off -/
theorem step_bRemaining (s : St) (t : Task) :
    bRemaining (step s (.sched t)) + (if t = .B then 1 else 0) ≤ bRemaining s ∨
      (bRemaining (step s (.sched t)) = 0 ∧ bRemaining s = 0) := by
  cases t with
  | A =>
    left
    cases hin : s.aInside with
    | false => rw [step_A_done s hin]; simp
    | true =>
      have hs := stepA_spec s hin
      simp [bRemaining, hs.b, hs.kind, hs.closeSusp]
  | B =>
    by_cases hb : s.b = .done
    · right; rw [step_B_done s hb]; exact ⟨(bRemaining_zero s).2 hb, (bRemaining_zero s).2 hb⟩
    · left
      have hs := stepB_spec s hb
      rcases hs.ends with ⟨h1, _⟩ | ⟨t, j, c, h1, h2, _⟩
      · have : 0 < bRemaining s := by
          rcases Nat.eq_zero_or_pos (bRemaining s) with h0 | h0
          · exact absurd ((bRemaining_zero s).1 h0) hb
          · exact h0
        rw [(bRemaining_zero _).2 h1]; simp; omega
      · simp only [bRemaining, h1, hs.closeSusp, if_true]; exact h2

theorem run_bRemaining (ops : List Op) (s : St) : bRemaining (run s ops) ≤ bRemaining s - count .B ops := by
  induction ops generalizing s with
  | nil => simp [run, count]
  | cons op ops ih =>
    cases op with
    | sched t =>
      have h1 := ih (step s (.sched t))
      have h2 := step_bRemaining s t
      simp only [run, count]
      rcases h2 with h2 | ⟨h2, _⟩
      · cases t <;> simp at h2 ⊢ <;> omega
      · omega

/-- `bSteps + bRemaining` never grows -/
theorem step_potential (s : St) (op : Op) :
    (step s op).bSteps + bRemaining (step s op) ≤ s.bSteps + bRemaining s := by
  cases op with
  | sched t =>
    cases t with
    | A =>
      cases hin : s.aInside with
      | false => rw [step_A_done s hin]; exact Nat.le_refl _
      | true =>
        have hs := stepA_spec s hin
        have := step_bRemaining s .A
        simp at this
        rw [hs.bSteps]; omega
    | B =>
      by_cases hb : s.b = .done
      · rw [step_B_done s hb]; exact Nat.le_refl _
      · have hs := stepB_spec s hb
        have := step_bRemaining s .B
        rcases this with h | ⟨_, h⟩
        · simp at h; rw [hs.bSteps]; omega
        · exact absurd ((bRemaining_zero s).1 h) hb

theorem run_potential (ops : List Op) (s : St) :
    (run s ops).bSteps + bRemaining (run s ops) ≤ s.bSteps + bRemaining s :=
  run_inv (fun s' => s'.bSteps + bRemaining s' ≤ s.bSteps + bRemaining s)
    (fun s' op h => Nat.le_trans (step_potential s' op) h) ops s (Nat.le_refl _)

/-- B's `send`s so far = the user suspensions B made, plus the one `send` that finished it -/
def BCount (s : St) : Prop := s.bSteps = (s.eventsOf .B).length + (if s.b = .done then 1 else 0)

/-- A's `send`s so far = the user suspensions A made, plus the one `send` that finished it -/
def ACount (s : St) : Prop := s.aSteps = (s.eventsOf .A).length + (if s.aInside = true then 0 else 1)

theorem eventsOf_append (s : St) (l : List Ev) (e : Ev) (t : Task) (h : s.events = l ++ [e]) :
    s.eventsOf t = l.filter (fun e => e.task = t) ++ (if e.task = t then [e] else []) := by
  unfold St.eventsOf
  rw [h, List.filter_append]
  by_cases he : e.task = t <;> simp [he]

theorem step_counts (s : St) (op : Op) (h : BCount s ∧ ACount s) : BCount (step s op) ∧ ACount (step s op) := by
  cases op with
  | sched t =>
    cases t with
    | A =>
      cases hin : s.aInside with
      | false => rw [step_A_done s hin]; exact h
      | true =>
        have hs := stepA_spec s hin
        have hA := h.2
        have hB := h.1
        unfold BCount ACount at *
        rcases hs.ends with ⟨r, h1, h2, _⟩ | ⟨tok, h2, _, h3⟩
        · constructor
          · rw [hs.bSteps, hs.b, hB]; simp [St.eventsOf, h2]
          · have e1 : (step s (.sched .A)).aInside = false := by simp [St.aInside, h1]
            rw [hs.aSteps, hA, hin, e1]; simp [St.eventsOf, h2]
        · have hin' : (step s (.sched .A)).aInside = true := by
            rcases h3 with ⟨_, _, _, h4, _⟩ | ⟨_, _, _, h4, _⟩ <;> simp [St.aInside, h4]
          constructor
          · rw [hs.bSteps, hs.b, hB, eventsOf_append _ _ _ .B h2]; simp [St.eventsOf]
          · rw [hs.aSteps, hA, eventsOf_append _ _ _ .A h2]; simp [St.eventsOf, hin, hin']
    | B =>
      by_cases hb : s.b = .done
      · rw [step_B_done s hb]; exact h
      · have hs := stepB_spec s hb
        have hA := h.2
        have hB := h.1
        have hin : (step s (.sched .B)).aInside = s.aInside := by simp [St.aInside, hs.a]
        unfold BCount ACount at *
        rcases hs.ends with ⟨h1, h2, _⟩ | ⟨t, j, c, h1, _, _, h4, _⟩
        · constructor
          · rw [hs.bSteps, hB]; simp [St.eventsOf, h2, h1, hb]
          · rw [hs.aSteps, hA, hin]; simp [St.eventsOf, h2]
        · constructor
          · rw [hs.bSteps, hB, eventsOf_append _ _ _ .B h4]; simp [St.eventsOf, h1, hb]
          · rw [hs.aSteps, hA, hin, eventsOf_append _ _ _ .A h4]; simp [St.eventsOf]

theorem init_counts (kind : Kind) (srcKind : SrcKind) (k cs : Nat) :
    BCount (init kind srcKind k cs) ∧ ACount (init kind srcKind k cs) := by
  simp [BCount, ACount, init, St.eventsOf, St.aInside]

theorem run_counts (ops : List Op) (s : St) (h : BCount s ∧ ACount s) :
    BCount (run s ops) ∧ ACount (run s ops) :=
  run_inv (fun s => BCount s ∧ ACount s) step_counts ops s h

/-! ### finished is finished; `send`s on an unfinished task all count -/

theorem run_b_done (ops : List Op) (s : St) (h : s.b = .done) : (run s ops).b = .done := by
  refine run_inv (fun s => s.b = .done) ?_ ops s h
  intro s op hb
  cases op with
  | sched t =>
    cases t with
    | A =>
      cases hin : s.aInside with
      | false => rw [step_A_done s hin]; exact hb
      | true => rw [(stepA_spec s hin).b]; exact hb
    | B => rw [step_B_done s hb]; exact hb

theorem run_a_done (ops : List Op) (s : St) (h : s.aInside = false) : (run s ops).aInside = false := by
  refine run_inv (fun s => s.aInside = false) ?_ ops s h
  intro s op ha
  cases op with
  | sched t =>
    cases t with
    | A => rw [step_A_done s ha]; exact ha
    | B =>
      by_cases hb : s.b = .done
      · rw [step_B_done s hb]; exact ha
      · simp only [St.aInside, (stepB_spec s hb).a] at ha ⊢; exact ha

theorem run_bSteps (ops : List Op) (s : St) :
    (run s ops).bSteps ≤ s.bSteps + count .B ops ∧
      ((run s ops).b ≠ .done → (run s ops).bSteps = s.bSteps + count .B ops) := by
  induction ops generalizing s with
  | nil => simp [run, count]
  | cons op ops ih =>
    cases op with
    | sched t =>
      have h1 := ih (step s (.sched t))
      simp only [run, count]
      cases t with
      | A =>
        have : (step s (.sched .A)).bSteps = s.bSteps := by
          cases hin : s.aInside with
          | false => rw [step_A_done s hin]
          | true => exact (stepA_spec s hin).bSteps
        rw [this] at h1
        simpa using h1
      | B =>
        by_cases hb : s.b = .done
        · rw [step_B_done s hb] at h1 ⊢
          refine ⟨by have := h1.1; simp; omega, fun hn => absurd (run_b_done ops s hb) hn⟩
        · rw [(stepB_spec s hb).bSteps] at h1
          simp only [if_true]
          exact ⟨by omega, fun hn => by have := h1.2 hn; omega⟩

theorem run_aSteps (ops : List Op) (s : St) :
    (run s ops).aSteps ≤ s.aSteps + count .A ops ∧
      ((run s ops).aInside = true → (run s ops).aSteps = s.aSteps + count .A ops) := by
  induction ops generalizing s with
  | nil => simp [run, count]
  | cons op ops ih =>
    cases op with
    | sched t =>
      have h1 := ih (step s (.sched t))
      simp only [run, count]
      cases t with
      | B =>
        have : (step s (.sched .B)).aSteps = s.aSteps := by
          by_cases hb : s.b = .done
          · rw [step_B_done s hb]
          · exact (stepB_spec s hb).aSteps
        rw [this] at h1
        simpa using h1
      | A =>
        cases hin : s.aInside with
        | false =>
          rw [step_A_done s hin] at h1 ⊢
          refine ⟨by have := h1.1; simp; omega, fun hn => ?_⟩
          rw [run_a_done ops s hin] at hn; cases hn
        | true =>
          rw [(stepA_spec s hin).aSteps] at h1
          simp only [if_true]
          exact ⟨by omega, fun hn => by have := h1.2 hn; omega⟩

/-! ### A's pull when the source is not closed under it -/

/-- what A's coroutine has yielded after `n` further suspensions of `S.__anext__()` -/
def aTrace (n : Nat) : List Out := (List.range n).map fun i => Out.susp (.user (.src (i + 1)))

theorem aTrace_succ (n : Nat) : aTrace (n + 1) = aTrace n ++ [.susp (.user (.src (n + 1)))] := by
  simp [aTrace, List.range_succ]

/-- A is exactly where its own `send`s took it through `S.__anext__()` -/
def ALive (s : St) : Prop :=
  (∃ j, s.a = .inSrc j ∧ j + s.aSteps = s.k ∧ s.aOut = aTrace s.aSteps) ∨
  (s.a = .done .item ∧ s.aSteps = s.k + 1 ∧ s.aOut = aTrace s.k ++ [.item])

/-- nobody has entered the user's `S.aclose()`, B has not been suspended, A's pull is undisturbed -/
structure Quiet (s : St) : Prop where
  dead : s.dead = false
  closes : s.closes = 0
  closeCalls : s.closeCalls = 0
  live : ALive s
  bEvents : s.eventsOf .B = []

/-- a `send` on A in a quiet state: A makes its next suspension in the source or gets its item; nothing else
    changes -/
theorem stepA_quiet (s : St) (h : Quiet s) :
    Quiet (step s (.sched .A)) ∧ (step s (.sched .A)).b = s.b ∧ (step s (.sched .A)).bOut = s.bOut ∧
      (step s (.sched .A)).bSteps = s.bSteps ∧ (step s (.sched .A)).handleDone = s.handleDone ∧
      (step s (.sched .A)).kind = s.kind ∧ (step s (.sched .A)).srcKind = s.srcKind := by
  rcases h.live with ⟨j, ha, hj, ho⟩ | ⟨ha, _, _⟩
  · cases j with
    | succ j =>
      have e : step s (.sched .A) =
          aSusp (.src (s.k - j)) { s with aSteps := s.aSteps + 1, a := .inSrc j } := by
        simp [step, ha, stepA]
      rw [e]
      refine ⟨⟨h.dead, h.closes, h.closeCalls, Or.inl ⟨j, rfl, ?_, ?_⟩, ?_⟩, rfl, rfl, rfl, rfl, rfl, rfl⟩
      · simp [aSusp]; omega
      · have : s.k - j = s.aSteps + 1 := by omega
        simp [aSusp, ho, aTrace_succ, this]
      · have := h.bEvents
        simp [St.eventsOf, aSusp] at this ⊢
        exact this
    | zero =>
      have e : step s (.sched .A) = aFinish .item { s with aSteps := s.aSteps + 1 } := by
        simp [step, ha, stepA, h.dead]
      rw [e]
      refine ⟨⟨h.dead, h.closes, h.closeCalls, Or.inr ⟨rfl, ?_, ?_⟩, h.bEvents⟩, rfl, rfl, rfl, rfl, rfl, rfl⟩
      · simp [aFinish]; omega
      · have : s.aSteps = s.k := by omega
        simp [aFinish, ho, this, ARes.out]
  · have : s.aInside = false := by simp [St.aInside, ha]
    rw [step_A_done s this]
    exact ⟨h, rfl, rfl, rfl, rfl, rfl, rfl⟩

/-- where a live A is after `n` of its `send`s -/
theorem alive_result (s : St) (n : Nat) (h : ALive s) (h1 : s.aSteps ≤ n)
    (h2 : s.aInside = true → s.aSteps = n) :
    (s.k < n → s.a = .done .item ∧ s.aOut = aTrace s.k ++ [.item]) ∧
      (n ≤ s.k → s.a = .inSrc (s.k - n) ∧ s.aOut = aTrace n) := by
  rcases h with ⟨j, ha, hj, ho⟩ | ⟨ha, hs, ho⟩
  · have := h2 (by simp [St.aInside, ha])
    subst this
    refine ⟨fun hlt => by omega, fun _ => ⟨?_, ho⟩⟩
    rw [ha]; congr 1; omega
  · exact ⟨fun _ => ⟨ha, ho⟩, fun hle => by omega⟩

/-- the handles whose `aclose()` refuses (RuntimeError) while A is inside: every generator-based one, and the
    class-based ones (`chain`, `groupby`) whose close goes straight to a NATIVE generator source -/
def refusesWhenBusy (kind : Kind) (srcKind : SrcKind) : Bool :=
  match kind with
  | .gen | .borrowed | .teeChild | .teeAll => true
  | .chainObj | .groupbyObj => srcKind = .native
  | .scoped => false

theorem bStart_refused (s : St) (hin : s.aInside = true)
    (hr : refusesWhenBusy s.kind s.srcKind = true) : bStart s = bRaise s := by
  unfold bStart
  split
  · simp [bIterClose, hin]
  · rename_i hk
    have hsk : s.srcKind = .native := by simpa [refusesWhenBusy, hk] using hr
    simp [callSrcClose, hsk, hin, bIterClose]
  · rename_i hk
    have hsk : s.srcKind = .native := by simpa [refusesWhenBusy, hk] using hr
    simp [bDirectClose, callSrcClose, hsk, hin]
  · simp [hin]
  · simp [hin]
  · rename_i hk; simp [refusesWhenBusy, hk] at hr
  · simp [hin]

/-- `H.aclose()` on a busy handle that refuses: one `send`, RuntimeError, nothing else changes -/
theorem stepB_refused (s : St) (hin : s.aInside = true) (hb : s.b = .idle)
    (hr : refusesWhenBusy s.kind s.srcKind = true) :
    step s (.sched .B) = bRaise { s with bSteps := s.bSteps + 1 } := by
  rw [step_B_eq s (by rw [hb]; simp)]
  have : stepB { s with bSteps := s.bSteps + 1 } = bStart { s with bSteps := s.bSteps + 1 } := by
    unfold stepB; simp only [hb]
  rw [this]
  exact bStart_refused _ hin hr

/-! ### the invariants behind C07 / C08 -/

/-- the handles whose `aclose()` never touches the source: `borrow`, the handle of `scoped_iter`, one child of a
    `tee` that has a sibling -/
def noSourceAccess (kind : Kind) : Bool :=
  match kind with
  | .borrowed | .scoped | .teeChild => true
  | _ => false

theorem bStart_noSourceAccess (s : St) (hk : noSourceAccess s.kind = true) :
    bStart s = bRaise s ∨ bStart s = bFinish false s ∨ bStart s = bFinish false { s with handleDone := true } := by
  unfold bStart
  split
  · rename_i h; simp [noSourceAccess, h] at hk
  · rename_i h; simp [noSourceAccess, h] at hk
  · rename_i h; simp [noSourceAccess, h] at hk
  · split
    · exact Or.inl rfl
    · exact Or.inr (Or.inr rfl)
  · split
    · exact Or.inl rfl
    · exact Or.inr (Or.inr rfl)
  · exact Or.inr (Or.inl rfl)
  · rename_i h; simp [noSourceAccess, h] at hk

/-- invariant of the runs on a handle whose `aclose()` never touches the source -/
structure Untouched (s : St) : Prop where
  kind : noSourceAccess s.kind = true
  quiet : Quiet s
  b : (s.b = .idle ∧ s.bOut = [] ∧ s.bSteps = 0) ∨
      (s.b = .done ∧ s.bSteps = 1 ∧ (s.bOut = [.busy] ∨ s.bOut = [.ret]))

theorem step_untouched (s : St) (op : Op) (h : Untouched s) : Untouched (step s op) := by
  cases op with
  | sched t =>
    cases t with
    | A =>
      have := stepA_quiet s h.quiet
      obtain ⟨hq, hb, hbo, hbs, _, hk, _⟩ := this
      exact ⟨by rw [hk]; exact h.kind, hq, by rw [hb, hbo, hbs]; exact h.b⟩
    | B =>
      rcases h.b with ⟨hb, hbo, hbs⟩ | ⟨hb, _⟩
      · rw [step_B_eq s (by rw [hb]; simp)]
        have e : stepB { s with bSteps := s.bSteps + 1 } = bStart { s with bSteps := s.bSteps + 1 } := by
          unfold stepB; simp only [hb]
        rw [e]
        have hq := h.quiet
        rcases bStart_noSourceAccess { s with bSteps := s.bSteps + 1 } h.kind with e | e | e <;> rw [e]
        · exact ⟨h.kind, ⟨hq.dead, hq.closes, hq.closeCalls, hq.live, hq.bEvents⟩,
            Or.inr ⟨rfl, by simp [bRaise, hbs], Or.inl (by simp [bRaise, hbo])⟩⟩
        · exact ⟨h.kind, ⟨hq.dead, hq.closes, hq.closeCalls, hq.live, hq.bEvents⟩,
            Or.inr ⟨rfl, by simp [bFinish, hbs], Or.inr (by simp [bFinish, hbo])⟩⟩
        · exact ⟨h.kind, ⟨hq.dead, hq.closes, hq.closeCalls, hq.live, hq.bEvents⟩,
            Or.inr ⟨rfl, by simp [bFinish, hbs], Or.inr (by simp [bFinish, hbo])⟩⟩
      · rw [step_B_done s hb]; exact h

theorem init_quiet (kind : Kind) (srcKind : SrcKind) (k cs : Nat) : Quiet (init kind srcKind k cs) :=
  ⟨rfl, rfl, rfl, Or.inl ⟨k, rfl, rfl, rfl⟩, rfl⟩

theorem init_untouched (kind : Kind) (srcKind : SrcKind) (k cs : Nat) (hk : noSourceAccess kind = true) :
    Untouched (init kind srcKind k cs) :=
  ⟨hk, init_quiet kind srcKind k cs, Or.inl ⟨rfl, rfl, rfl⟩⟩

theorem run_untouched (ops : List Op) (s : St) (h : Untouched s) : Untouched (run s ops) :=
  run_inv Untouched step_untouched ops s h

/-- B has not called `H.aclose()` yet and only A has run -/
structure Before (s : St) : Prop where
  quiet : Quiet s
  handleDone : s.handleDone = false
  b : s.b = .idle
  bOut : s.bOut = []
  bSteps : s.bSteps = 0

/-- `H.aclose()` was refused: B is through with RuntimeError after ONE `send`, the source and the handle are
    as they were, A's pull goes on -/
structure Refused (s : St) : Prop where
  quiet : Quiet s
  handleDone : s.handleDone = false
  b : s.b = .done
  bOut : s.bOut = [.busy]
  bSteps : s.bSteps = 1

theorem run_before (ops : List Op) (s : St) (h : Before s) (hB : count .B ops = 0) : Before (run s ops) := by
  induction ops generalizing s with
  | nil => exact h
  | cons op ops ih =>
    cases op with
    | sched t =>
      cases t with
      | B => simp [count] at hB
      | A =>
        have hB' : count .B ops = 0 := by simpa [count] using hB
        obtain ⟨hq, hb, hbo, hbs, hhd, _, _⟩ := stepA_quiet s h.quiet
        exact ih _ ⟨hq, by rw [hhd]; exact h.handleDone, by rw [hb]; exact h.b, by rw [hbo]; exact h.bOut,
          by rw [hbs]; exact h.bSteps⟩ hB'

theorem step_refused (s : St) (op : Op) (h : Refused s) : Refused (step s op) := by
  cases op with
  | sched t =>
    cases t with
    | A =>
      obtain ⟨hq, hb, hbo, hbs, hhd, _, _⟩ := stepA_quiet s h.quiet
      exact ⟨hq, by rw [hhd]; exact h.handleDone, by rw [hb]; exact h.b, by rw [hbo]; exact h.bOut,
        by rw [hbs]; exact h.bSteps⟩
    | B => rw [step_B_done s h.b]; exact h

theorem run_refused (ops : List Op) (s : St) (h : Refused s) : Refused (run s ops) :=
  run_inv Refused step_refused ops s h

/-- the refusing `send` -/
theorem before_refused (s : St) (h : Before s) (hin : s.aInside = true)
    (hr : refusesWhenBusy s.kind s.srcKind = true) : Refused (step s (.sched .B)) := by
  rw [stepB_refused s hin h.b hr]
  have hq := h.quiet
  exact ⟨⟨hq.dead, hq.closes, hq.closeCalls, hq.live, hq.bEvents⟩, h.handleDone, rfl,
    by simp [bRaise, h.bOut], by simp [bRaise, h.bSteps]⟩

/-- the whole scenario: only A runs (`pre`), B calls `H.aclose()` while A is still inside, anything goes (`post`) -/
theorem refused_run (kind : Kind) (srcKind : SrcKind) (k cs : Nat) (pre post : List Op)
    (hr : refusesWhenBusy kind srcKind = true) (hB : count .B pre = 0) (hA : count .A pre ≤ k) :
    Refused (exec kind srcKind k cs (pre ++ .sched .B :: post)) := by
  unfold exec
  rw [run_append]
  simp only [run]
  apply run_refused
  have hb : Before (run (init kind srcKind k cs) pre) :=
    run_before pre _ ⟨init_quiet kind srcKind k cs, rfl, rfl, rfl, rfl⟩ hB
  have hcfg := run_cfg pre (init kind srcKind k cs)
  have hst := run_aSteps pre (init kind srcKind k cs)
  have hin : (run (init kind srcKind k cs) pre).aInside = true := by
    rcases hb.quiet.live with ⟨j, ha, _, _⟩ | ⟨_, hs, _⟩
    · simp [St.aInside, ha]
    · have := hst.1
      rw [hs, hcfg.2.2.1] at this
      simp [init] at this
      omega
  apply before_refused _ hb hin
  rw [hcfg.1, hcfg.2.1]
  exact hr

/-- the common content of the two C07 theorems -/
theorem untouched_summary (kind : Kind) (hk : noSourceAccess kind = true) (srcKind : SrcKind)
    (k cs : Nat) (ops : List Op) :
    let s := exec kind srcKind k cs ops
    s.dead = false ∧ s.closes = 0 ∧ s.closeCalls = 0 ∧ s.eventsOf .B = [] ∧ s.bSteps ≤ 1 ∧
    (s.bOut = [] ∨ s.bOut = [.busy] ∨ s.bOut = [.ret]) ∧
    (k < count .A ops → s.a = .done .item ∧ s.aOut = aTrace k ++ [.item]) ∧
    (count .A ops ≤ k → s.a = .inSrc (k - count .A ops) ∧ s.aOut = aTrace (count .A ops)) := by
  intro s
  have hu : Untouched s := run_untouched ops _ (init_untouched kind srcKind k cs hk)
  have hst := run_aSteps ops (init kind srcKind k cs)
  have hc := run_cfg ops (init kind srcKind k cs)
  have hk' : s.k = k := hc.2.2.1
  have h0 : (init kind srcKind k cs).aSteps = 0 := rfl
  rw [h0, Nat.zero_add] at hst
  have hres := alive_result s (count .A ops) hu.quiet.live hst.1 hst.2
  rw [hk'] at hres
  refine ⟨hu.quiet.dead, hu.quiet.closes, hu.quiet.closeCalls, hu.quiet.bEvents, ?_, ?_, hres.1, hres.2⟩
  · rcases hu.b with ⟨_, _, h⟩ | ⟨_, h, _⟩ <;> omega
  · rcases hu.b with ⟨_, h, _⟩ | ⟨_, _, h | h⟩
    · exact Or.inl h
    · exact Or.inr (Or.inl h)
    · exact Or.inr (Or.inr h)

end AsyncVerif.CloseBusy
