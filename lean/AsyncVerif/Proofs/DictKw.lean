import AsyncVerif.Proofs.SetDict
import AsyncVerif.Proofs.SetDictFuel
import AsyncVerif.Std.ListSpec
import AsyncVerif.Proofs.FaithfulTools
import AsyncVerif.Proofs.KindFreeTools
/-!
# `dict(iterable, **kwargs)`: key equality is an equivalence, `dictInsert` = `dictUpdate` on dictionaries,
  algebra of `dictUpdate` / `dictLookup`, and the run lemmas for `Impl.dictKw` / `Std.dictKw`
-/
namespace AsyncVerif

open ListSpec

/-! ## `hashEq` is a partial equivalence (reflexive exactly on the hashable values) -/

theorem hashEq_symm_aux :
    (∀ a b : Val, Std.hashEq a b = Std.hashEq b a) ∧ (∀ a b : List Val, Std.hashEqList a b = Std.hashEqList b a) := by
  apply Std.hashEq.mutual_induct
  · intro i k j l; simp [Std.hashEq, Bool.beq_comm]
  · intro n m; simp [Std.hashEq, Bool.beq_comm]
  · intro n b; simp [Std.hashEq]
  · intro b n; simp [Std.hashEq]
  · intro a b; simp [Std.hashEq, Bool.beq_comm]
  · rfl
  · rfl
  · intro a b ih; simpa [Std.hashEq] using ih
  · intro t x h1 h2 h3 h4 h5 h6 h7 h8
    cases t <;> cases x <;> first
      | exact (h1 _ _ _ _ rfl rfl).elim | exact (h2 _ _ rfl rfl).elim | exact (h3 _ _ rfl rfl).elim
      | exact (h4 _ _ rfl rfl).elim | exact (h5 _ _ rfl rfl).elim | exact (h6 rfl rfl).elim
      | exact (h7 rfl rfl).elim | exact (h8 _ _ rfl rfl).elim | simp [Std.hashEq]
  · rfl
  · intro x xs y ys h1 h2; simp [Std.hashEqList, h1, h2]
  · intro t x h1 h2
    cases t <;> cases x <;> first
      | exact (h1 rfl rfl).elim | exact (h2 _ _ _ _ rfl rfl).elim | simp [Std.hashEqList]

theorem hashEq_symm (a b : Val) : Std.hashEq a b = Std.hashEq b a := hashEq_symm_aux.1 a b

theorem hashEq_trans_aux :
    (∀ a b : Val, ∀ c, Std.hashEq a b = true → Std.hashEq b c = true → Std.hashEq a c = true) ∧
    (∀ a b : List Val, ∀ c, Std.hashEqList a b = true → Std.hashEqList b c = true → Std.hashEqList a c = true) := by
  apply Std.hashEq.mutual_induct
  · intro i k j l c; cases c <;> simp [Std.hashEq]; intro h1 h2; omega
  · intro n m c; cases c <;> simp [Std.hashEq] <;> intro h1 h2 <;> simp_all
  · intro n b c; cases c <;> simp [Std.hashEq] <;> intro h1 h2 <;> simp_all
  · intro b n c; cases c <;> simp [Std.hashEq] <;> intro h1 h2 <;> simp_all
    rename_i b'; cases b <;> cases b' <;> simp_all
  · intro a b c; cases c <;> simp [Std.hashEq] <;> intro h1 h2 <;> simp_all
  · intro c _ h; exact h
  · intro c _ h; exact h
  · intro a b ih c
    cases c <;> simp [Std.hashEq]
    exact ih _
  · intro t x h1 h2 h3 h4 h5 h6 h7 h8 c h
    exfalso
    revert h
    cases t <;> cases x <;> first
      | exact (h1 _ _ _ _ rfl rfl).elim | exact (h2 _ _ rfl rfl).elim | exact (h3 _ _ rfl rfl).elim
      | exact (h4 _ _ rfl rfl).elim | exact (h5 _ _ rfl rfl).elim | exact (h6 rfl rfl).elim
      | exact (h7 rfl rfl).elim | exact (h8 _ _ rfl rfl).elim | simp [Std.hashEq]
  · intro c _ h; exact h
  · intro x xs y ys h1 h2 c
    cases c with
    | nil => simp [Std.hashEqList]
    | cons z zs =>
      simp only [Std.hashEqList, Bool.and_eq_true]
      exact fun ⟨a1, a2⟩ ⟨b1, b2⟩ => ⟨h1 z a1 b1, h2 zs a2 b2⟩
  · intro t x h1 h2 c h
    exfalso
    revert h
    cases t <;> cases x <;> first
      | exact (h1 rfl rfl).elim | exact (h2 _ _ _ _ rfl rfl).elim | simp [Std.hashEqList]

theorem hashEq_trans {a b c : Val} (h1 : Std.hashEq a b = true) (h2 : Std.hashEq b c = true) :
    Std.hashEq a c = true := hashEq_trans_aux.1 a b c h1 h2

theorem hashEq_refl_aux :
    (∀ a : Val, Std.hashable a = true → Std.hashEq a a = true) ∧
    (∀ a : List Val, Std.hashableList a = true → Std.hashEqList a a = true) := by
  apply Std.hashable.mutual_induct
  · intro vs; simp [Std.hashable]
  · intro vs ih; simpa [Std.hashable, Std.hashEq] using ih
  · intro t h1 h2 _
    cases t <;> first | exact (h1 _ rfl).elim | exact (h2 _ rfl).elim | simp [Std.hashEq]
  · intro _; rfl
  · intro v r h1 h2
    simp only [Std.hashableList, Std.hashEqList, Bool.and_eq_true]
    exact fun ⟨a, b⟩ => ⟨h1 a, h2 b⟩

/-- a hashable value equals itself (an unhashable one — a list — equals nothing) -/
theorem hashEq_refl {a : Val} (h : Std.hashable a = true) : Std.hashEq a a = true := hashEq_refl_aux.1 a h

/-- two keys equal to the same key are equal to each other -/
theorem hashEq_euclid {a b c : Val} (h1 : Std.hashEq a c = true) (h2 : Std.hashEq b c = true) :
    Std.hashEq a b = true := hashEq_trans h1 (by rw [hashEq_symm]; exact h2)

/-- equal keys match the same keys -/
theorem hashEq_congr_right {a b : Val} (h : Std.hashEq a b = true) (c : Val) : Std.hashEq c a = Std.hashEq c b := by
  cases h1 : Std.hashEq c b with
  | true => exact hashEq_trans h1 (by rw [hashEq_symm]; exact h) |> fun x => x
  | false =>
    cases h2 : Std.hashEq c a with
    | false => rfl
    | true => rw [hashEq_trans h2 h] at h1; exact h1

/-! ## algebra of `dictUpdate` / `dictLookup` -/

namespace ListSpec

theorem dictUpdate_absent : ∀ (d : List (Val × Val)) (k v : Val), (∀ p ∈ d, Std.hashEq p.1 k = false) →
    dictUpdate d k v = d ++ [(k, v)] := by
  intro d k v
  induction d with
  | nil => intro _; rfl
  | cons p rest ih =>
    intro h
    rcases p with ⟨k0, v0⟩
    have h0 : Std.hashEq k0 k = false := h (k0, v0) (by simp)
    simp only [dictUpdate, h0, Bool.false_eq_true, if_false, List.cons_append]
    rw [ih (fun q hq => h q (by simp [hq]))]

/-- the model's `d[k] = v` (`Std.dictInsert`) is `dictUpdate` on every dictionary (distinct keys) -/
theorem dictInsert_eq_dictUpdate : ∀ (d : List (Val × Val)) (k v : Val), DictKeysDistinct d →
    Std.dictInsert d k v = dictUpdate d k v := by
  intro d k v
  induction d with
  | nil => intro _; rfl
  | cons p rest ih =>
    intro hd
    rcases p with ⟨k0, v0⟩
    have hd' := List.pairwise_cons.mp hd
    cases h0 : Std.hashEq k0 k with
    | true =>
      have hrest : ∀ q ∈ rest, Std.hashEq q.1 k = false := by
        intro q hq
        cases hqk : Std.hashEq q.1 k with
        | false => rfl
        | true =>
          have := hashEq_euclid h0 hqk
          rw [hd'.1 q hq] at this; exact this.symm
      have hmap : rest.map (fun p => if Std.hashEq p.1 k = true then (p.1, v) else p) = rest := by
        conv => rhs; rw [← List.map_id rest]
        apply List.map_congr_left
        intro q hq
        simp [hrest q hq]
      simp [Std.dictInsert, dictUpdate, h0, hmap]
    | false =>
      have ih' := ih hd'.2
      unfold Std.dictInsert at ih' ⊢
      simp only [List.any_cons, h0, Bool.false_or, dictUpdate, Bool.false_eq_true, if_false, List.map_cons,
        List.cons_append]
      split
      · rename_i ha; simp only [ha, if_true] at ih'; rw [ih']
      · rename_i ha; simp only [ha, Bool.false_eq_true, if_false] at ih'; rw [← ih']

/-- the keys after `d[k] = v`: unchanged if the key is present, else `k` is appended (this is `set.add` on the keys) -/
theorem dictUpdate_keys : ∀ (d : List (Val × Val)) (k v : Val),
    (dictUpdate d k v).map Prod.fst = Std.setInsert (d.map Prod.fst) k := by
  intro d k v
  induction d with
  | nil => rfl
  | cons p rest ih =>
    rcases p with ⟨k0, v0⟩
    cases h0 : Std.hashEq k0 k with
    | true => simp [dictUpdate, Std.setInsert, h0]
    | false =>
      simp only [dictUpdate, h0, Bool.false_eq_true, if_false, List.map_cons, ih]
      unfold Std.setInsert
      simp only [List.any_cons, h0, Bool.false_or]
      split <;> simp

theorem dictUpdate_distinct (d : List (Val × Val)) (k v : Val) (hd : DictKeysDistinct d) :
    DictKeysDistinct (dictUpdate d k v) := by
  unfold DictKeysDistinct at hd ⊢
  have hk := dictUpdate_keys d k v
  have key : ∀ l : List (Val × Val), l.Pairwise (fun p q => Std.hashEq p.1 q.1 = false) ↔
      (l.map Prod.fst).Pairwise (fun a b => Std.hashEq a b = false) := by
    intro l; rw [List.pairwise_map]
  rw [key] at hd ⊢
  rw [hk]
  unfold Std.setInsert
  split
  · exact hd
  · rename_i ha
    rw [List.pairwise_append]
    refine ⟨hd, by simp, ?_⟩
    intro a ha' b hb
    simp only [List.mem_singleton] at hb
    subst hb
    simp only [List.any_eq_true, not_exists, not_and, Bool.not_eq_true] at ha
    exact ha a ha'

theorem dictUpdateAll_nil (d : List (Val × Val)) : dictUpdateAll d [] = d := rfl

theorem dictUpdateAll_cons (d : List (Val × Val)) (p : Val × Val) (kw : List (Val × Val)) :
    dictUpdateAll d (p :: kw) = dictUpdateAll (dictUpdate d p.1 p.2) kw := rfl

theorem dictUpdateAll_append (d : List (Val × Val)) (a b : List (Val × Val)) :
    dictUpdateAll d (a ++ b) = dictUpdateAll (dictUpdateAll d a) b := by
  simp [dictUpdateAll, List.foldl_append]

theorem dictUpdateAll_distinct : ∀ (kw d : List (Val × Val)), DictKeysDistinct d →
    DictKeysDistinct (dictUpdateAll d kw) := by
  intro kw
  induction kw with
  | nil => intro d h; exact h
  | cons p rest ih => intro d h; exact ih _ (dictUpdate_distinct d p.1 p.2 h)

/-- the comprehension's dictionary is `dictUpdate` folded over the pairs -/
theorem dictOf_eq_dictUpdateAll : ∀ (pairs acc : List (Val × Val)), DictKeysDistinct acc →
    dictOf acc pairs = dictUpdateAll acc pairs := by
  intro pairs
  induction pairs with
  | nil => intro acc _; rfl
  | cons p rest ih =>
    intro acc h
    show dictOf (Std.dictInsert acc p.1 p.2) rest = dictUpdateAll (dictUpdate acc p.1 p.2) rest
    rw [dictInsert_eq_dictUpdate acc p.1 p.2 h]
    exact ih _ (dictUpdate_distinct acc p.1 p.2 h)

theorem distinct_nil : DictKeysDistinct [] := List.Pairwise.nil

theorem dictOf_distinct (pairs acc : List (Val × Val)) (h : DictKeysDistinct acc) :
    DictKeysDistinct (dictOf acc pairs) := by
  rw [dictOf_eq_dictUpdateAll pairs acc h]; exact dictUpdateAll_distinct pairs acc h

/-- the keys after `d.update(kw)`: the keys of `d` in their order, then the new keys in first-occurrence order -/
theorem dictUpdateAll_keys : ∀ (kw d : List (Val × Val)),
    (dictUpdateAll d kw).map Prod.fst = distinct (d.map Prod.fst) (kw.map Prod.fst) := by
  intro kw
  induction kw with
  | nil => intro d; rfl
  | cons p rest ih =>
    intro d
    rw [dictUpdateAll_cons, ih, dictUpdate_keys]
    rfl

theorem setInsert_prefix (acc : List Val) (x : Val) : acc <+: Std.setInsert acc x := by
  unfold Std.setInsert; split
  · exact List.prefix_refl _
  · exact List.prefix_append _ _

theorem distinct_prefix : ∀ (items acc : List Val), acc <+: distinct acc items := by
  intro items
  induction items with
  | nil => intro acc; exact List.prefix_refl _
  | cons x rest ih => intro acc; exact List.IsPrefix.trans (setInsert_prefix acc x) (ih _)

/-- lookup after `d[k] = v`: the new value under every key equal to `k`, the old content under every other key -/
theorem dictLookup_dictUpdate : ∀ (d : List (Val × Val)) (k v k' : Val),
    dictLookup (dictUpdate d k v) k' = if Std.hashEq k k' then some v else dictLookup d k' := by
  intro d k v k'
  induction d with
  | nil => rfl
  | cons p rest ih =>
    rcases p with ⟨k0, v0⟩
    cases h0 : Std.hashEq k0 k with
    | true =>
      have hc : Std.hashEq k0 k' = Std.hashEq k k' := by
        rw [hashEq_symm k0 k', hashEq_symm k k']; exact hashEq_congr_right h0 k'
      simp only [dictUpdate, h0, if_true, dictLookup, hc]
      split <;> rfl
    | false =>
      simp only [dictUpdate, h0, Bool.false_eq_true, if_false, dictLookup, ih]
      cases h1 : Std.hashEq k0 k' with
      | false => simp
      | true =>
        cases h2 : Std.hashEq k k' with
        | false => simp
        | true => rw [hashEq_euclid h1 h2] at h0; exact absurd h0 (by simp)

theorem dictLookup_append : ∀ (a b : List (Val × Val)) (k : Val),
    dictLookup (a ++ b) k = (dictLookup a k).orElse (fun _ => dictLookup b k) := by
  intro a b k
  induction a with
  | nil => rfl
  | cons p rest ih =>
    rcases p with ⟨k0, v0⟩
    simp only [List.cons_append, dictLookup]
    split
    · rfl
    · exact ih

/-- lookup after `d.update(kw)`: the value of the last keyword equal to the key, else the old content -/
theorem dictLookup_dictUpdateAll : ∀ (kw d : List (Val × Val)) (k : Val),
    dictLookup (dictUpdateAll d kw) k = (dictLookup kw.reverse k).orElse (fun _ => dictLookup d k) := by
  intro kw
  induction kw with
  | nil => intro d k; rfl
  | cons p rest ih =>
    intro d k
    rcases p with ⟨k0, v0⟩
    rw [dictUpdateAll_cons, ih, List.reverse_cons, dictLookup_append, dictLookup_dictUpdate]
    cases dictLookup rest.reverse k with
    | some v => rfl
    | none =>
      simp only [Option.orElse, dictLookup]
      split <;> rfl

/-- a later assignment to an equal key wins; the entry keeps its position and its first key object -/
theorem dictUpdate_dictUpdate : ∀ (d : List (Val × Val)) (k v k' v' : Val), Std.hashEq k k' = true →
    dictUpdate (dictUpdate d k v) k' v' = dictUpdate d k v' := by
  intro d k v k' v' hk
  induction d with
  | nil => simp [dictUpdate, hk]
  | cons p rest ih =>
    rcases p with ⟨k0, v0⟩
    cases h0 : Std.hashEq k0 k with
    | true => simp [dictUpdate, h0, hashEq_trans h0 hk]
    | false =>
      have h1 : Std.hashEq k0 k' = false := by
        cases h1 : Std.hashEq k0 k' with
        | false => rfl
        | true => rw [hashEq_euclid h1 hk] at h0; exact h0.symm ▸ rfl
      simp [dictUpdate, h0, h1, ih]

end ListSpec

open ListSpec

/-! ## the runs of `Std.dictUpdateKw`, `Std.dictKw`, `Impl.dictKw` -/

/-- the outcome of `base.update(kwargs)` as a plain function: it does not depend on the world -/
def dictUpdateKwR : List (Val × Val) → List (Val × Val) → Except Exc (List (Val × Val))
  | acc, [] => .ok acc
  | acc, (k, v) :: rest => if Std.hashable k then dictUpdateKwR (Std.dictInsert acc k v) rest else .error .typeError

/-- `base.update(kwargs)` touches nothing in the world -/
theorem dictUpdateKw_apply : ∀ (kw acc : List (Val × Val)) (w : World),
    Std.dictUpdateKw acc kw w = (dictUpdateKwR acc kw, w) := by
  intro kw
  induction kw with
  | nil => intro acc w; rfl
  | cons p rest ih =>
    intro acc w
    rcases p with ⟨k, v⟩
    unfold Std.dictUpdateKw dictUpdateKwR
    split
    · exact ih _ w
    · rfl

theorem dictUpdateKwR_ne_oof : ∀ (kw acc : List (Val × Val)), dictUpdateKwR acc kw ≠ .error .outOfFuel := by
  intro kw
  induction kw with
  | nil => intro acc; simp [dictUpdateKwR]
  | cons p rest ih =>
    intro acc
    rcases p with ⟨k, v⟩
    unfold dictUpdateKwR
    split
    · exact ih _
    · simp

/-- with hashable keywords on a dictionary, `base.update(kwargs)` is `dictUpdateAll` -/
theorem dictUpdateKwR_value : ∀ (kw acc : List (Val × Val)), (∀ p ∈ kw, Std.hashable p.1 = true) →
    DictKeysDistinct acc → dictUpdateKwR acc kw = .ok (dictUpdateAll acc kw) := by
  intro kw
  induction kw with
  | nil => intro acc _ _; rfl
  | cons p rest ih =>
    intro acc hh hd
    rcases p with ⟨k, v⟩
    have hk : Std.hashable k = true := hh (k, v) (by simp)
    simp only [dictUpdateKwR, hk, if_true, dictUpdateAll_cons]
    rw [dictInsert_eq_dictUpdate acc k v hd]
    exact ih _ (fun q hq => hh q (by simp [hq])) (dictUpdate_distinct acc k v hd)

/-- an unhashable keyword key (impossible in Python, where keywords are `str`): `TypeError`, as for `d[k] = v` -/
theorem dictUpdateKwR_unhashable : ∀ (kw acc : List (Val × Val)), (∃ p ∈ kw, Std.hashable p.1 = false) →
    dictUpdateKwR acc kw = .error .typeError := by
  intro kw
  induction kw with
  | nil => intro acc h; simp at h
  | cons p rest ih =>
    intro acc h
    rcases p with ⟨k, v⟩
    unfold dictUpdateKwR
    split
    · rename_i hk
      apply ih
      obtain ⟨q, hq, hq2⟩ := h
      simp only [List.mem_cons] at hq
      rcases hq with rfl | hq
      · simp [hk] at hq2
      · exact ⟨q, hq, hq2⟩
    · rfl

/-- what the comprehension returns, in every world, is a dictionary: its keys are pairwise different -/
theorem dictLoop_distinct (s : Nat) : ∀ (fuel : Nat) (acc : List (Val × Val)) (w : World) (d : List (Val × Val)),
    DictKeysDistinct acc → (Std.dictLoop s acc fuel w).1 = .ok d → DictKeysDistinct d := by
  intro fuel
  induction fuel with
  | zero => intro acc w d _ h; simp [Std.dictLoop, raise] at h
  | succ fuel ih =>
    intro acc w d hd h
    simp only [Std.dictLoop, bind_apply] at h
    rcases hp : pull s w with ⟨r, w1⟩
    rw [hp] at h
    cases r with
    | error e => simp at h
    | ok o =>
      cases o with
      | none => simp only [pure_apply] at h; cases h; exact hd
      | some x =>
        simp only [bind_apply, liftExc_apply] at h
        cases hu : Std.unpackPair x with
        | error e => rw [hu] at h; simp at h
        | ok kv =>
          rcases kv with ⟨k, v⟩
          rw [hu] at h
          simp only at h
          split at h
          · rw [dictInsert_eq_dictUpdate acc k v hd] at h
            exact ih _ w1 d (dictUpdate_distinct acc k v hd) h
          · simp [raise] at h

/-- leaving the scope commutes with a final pure step -/
theorem scopedIter_map {α β : Type} (s : Nat) (body : M α) (f : α → β) (w : World) :
    scopedIter s (do pure (f (← body))) w
      = match scopedIter s body w with
        | (.ok a, w') => (.ok (f a), w')
        | (.error e, w') => (.error e, w') := by
  unfold scopedIter tryFinally
  simp only [bind_apply, pure_apply]
  rcases body w with ⟨r, w1⟩
  cases r with
  | ok a => simp only; rcases closeSrc s w1 with ⟨r2, w2⟩; cases r2 <;> rfl
  | error e =>
    by_cases he : e = .outOfFuel
    · subst he; rfl
    · simp only; split <;> simp_all <;> (rcases closeSrc s w1 with ⟨r2, w2⟩; cases r2 <;> simp_all)

/-- `Impl.dict` in terms of the scoped comprehension -/
theorem dict_run (s fuel : Nat) (w : World) :
    Impl.dict s fuel w
      = match scopedIter s (Std.dictLoop s [] fuel) w with
        | (.ok d, w') => (.ok (Std.dictVal d), w')
        | (.error e, w') => (.error e, w') := by
  unfold Impl.dict Std.dict
  rw [scopedIter_map s (Std.dictLoop s [] fuel) Std.dictVal w]
  rcases scopedIter s (Std.dictLoop s [] fuel) w with ⟨r, w1⟩
  cases r <;> rfl

/-- `Impl.dictKw` in terms of the scoped comprehension: the keywords are merged after the scope was left -/
theorem dictKw_run (kw : List (Val × Val)) (s fuel : Nat) (w : World) :
    Impl.dictKw kw s fuel w
      = match scopedIter s (Std.dictLoop s [] fuel) w with
        | (.ok d, w') => ((dictUpdateKwR d kw).map Std.dictVal, w')
        | (.error e, w') => (.error e, w') := by
  unfold Impl.dictKw
  simp only [bind_apply]
  rcases scopedIter s (Std.dictLoop s [] fuel) w with ⟨r, w1⟩
  cases r with
  | error e => rfl
  | ok d =>
    simp only
    cases kw with
    | nil => rfl
    | cons p rest =>
      simp only [List.isEmpty_cons, Bool.false_eq_true, if_false, bind_apply, dictUpdateKw_apply]
      cases dictUpdateKwR d (p :: rest) <;> rfl

/-- what the scoped comprehension returns, in every world, is a dictionary -/
theorem scoped_dictLoop_distinct (s fuel : Nat) (w : World) (d : List (Val × Val))
    (h : (scopedIter s (Std.dictLoop s [] fuel) w).1 = .ok d) : DictKeysDistinct d := by
  rw [(scopedIter_lift s _ w).1] at h
  exact dictLoop_distinct s fuel [] w d distinct_nil h

/-- the final world of `dict(iterable, **kw)` is the final world of `dict(iterable)` -/
theorem dictKw_world (kw : List (Val × Val)) (s fuel : Nat) (w : World) :
    (Impl.dictKw kw s fuel w).2 = (Impl.dict s fuel w).2 := by
  rw [dictKw_run, dict_run]
  rcases scopedIter s (Std.dictLoop s [] fuel) w with ⟨r, w1⟩
  cases r <;> rfl

/-- `dict(iterable, **kw)` in every world, relative to `dict(iterable)` -/
theorem dictKw_over_dict (kw : List (Val × Val)) (s fuel : Nat) (w : World)
    (hk : ∀ p ∈ kw, Std.hashable p.1 = true) :
    (∃ e, (Impl.dict s fuel w).1 = .error e ∧ (Impl.dictKw kw s fuel w).1 = .error e) ∨
    (∃ d, DictKeysDistinct d ∧ (Impl.dict s fuel w).1 = .ok (Std.dictVal d) ∧
      (Impl.dictKw kw s fuel w).1 = .ok (Std.dictVal (dictUpdateAll d kw))) := by
  have hd := scoped_dictLoop_distinct s fuel w
  rw [dictKw_run, dict_run]
  generalize scopedIter s (Std.dictLoop s [] fuel) w = x at hd ⊢
  rcases x with ⟨r, w1⟩
  cases r with
  | error e => exact Or.inl ⟨e, rfl, rfl⟩
  | ok d =>
    refine Or.inr ⟨d, hd d rfl, rfl, ?_⟩
    simp only [dictUpdateKwR_value kw d hk (hd d rfl)]
    rfl

theorem dictKw_ne_oof (kw : List (Val × Val)) (s fuel : Nat) (w : World)
    (h : (Impl.dict s fuel w).1 ≠ .error .outOfFuel) : (Impl.dictKw kw s fuel w).1 ≠ .error .outOfFuel := by
  rw [dict_run] at h
  rw [dictKw_run]
  generalize scopedIter s (Std.dictLoop s [] fuel) w = x at h ⊢
  rcases x with ⟨r, w1⟩
  cases r with
  | error e => exact h
  | ok d =>
    simp only
    have := dictUpdateKwR_ne_oof kw d
    cases hr : dictUpdateKwR d kw with
    | ok x => simp [Except.map]
    | error e => rw [hr] at this; simpa [Except.map] using this

theorem dictKw_fuel_adequate (kw : List (Val × Val)) (s : Nat) (w : World) :
    ∀ fuel, fuel ≥ fuelBound1 s w → (Impl.dictKw kw s fuel w).1 ≠ .error .outOfFuel :=
  fun fuel h => dictKw_ne_oof kw s fuel w (dict_fuel_adequate s w fuel h)

/-- if `dict(iterable, **kw)` did not run out of fuel, neither did `dict(iterable)` -/
theorem dict_ne_oof_of_dictKw (kw : List (Val × Val)) (s fuel : Nat) (w : World)
    (h : (Impl.dictKw kw s fuel w).1 ≠ .error .outOfFuel) : (Impl.dict s fuel w).1 ≠ .error .outOfFuel := by
  rw [dictKw_run] at h
  rw [dict_run]
  generalize scopedIter s (Std.dictLoop s [] fuel) w = x at h ⊢
  rcases x with ⟨r, w1⟩
  cases r with
  | error e => exact h
  | ok d => simp

/-- `Std.dictKw` in terms of the comprehension -/
theorem std_dictKw_run (kw : List (Val × Val)) (s fuel : Nat) (w : World) :
    Std.dictKw kw s fuel w
      = match Std.dictLoop s [] fuel w with
        | (.ok d, w') => ((dictUpdateKwR d kw).map Std.dictVal, w')
        | (.error e, w') => (.error e, w') := by
  unfold Std.dictKw
  rw [bind_apply]
  rcases Std.dictLoop s [] fuel w with ⟨r, w1⟩
  cases r with
  | error e => rfl
  | ok d =>
    simp only [bind_apply, dictUpdateKw_apply]
    cases dictUpdateKwR d kw <;> rfl

/-- the two models are twins: same result, same visible events (in every world) -/
theorem dictKw_twin (kw : List (Val × Val)) (s fuel : Nat) : Twin (Impl.dictKw kw s fuel) (Std.dictKw kw s fuel) := by
  intro w
  have ht := scopedIter_twin s (Std.dictLoop s [] fuel) w
  rw [dictKw_run, std_dictKw_run]
  generalize scopedIter s (Std.dictLoop s [] fuel) w = x at ht ⊢
  generalize Std.dictLoop s [] fuel w = y at ht ⊢
  rcases x with ⟨r, w1⟩
  rcases y with ⟨r', w1'⟩
  obtain ⟨h1, h2⟩ := ht
  simp only at h1 h2
  subst h1
  cases r with
  | error e => exact ⟨rfl, h2⟩
  | ok d => exact ⟨rfl, h2⟩

/-- no keywords: `dict(iterable, **{})` is `dict(iterable)` -/
theorem dictKw_nil (s fuel : Nat) : Impl.dictKw [] s fuel = Impl.dict s fuel := by
  funext w
  rw [dictKw_run, dict_run]
  rcases scopedIter s (Std.dictLoop s [] fuel) w with ⟨r, w1⟩
  cases r <;> rfl

theorem std_dictKw_nil (s fuel : Nat) : Std.dictKw [] s fuel = Std.dict s fuel := by
  funext w
  unfold Std.dictKw Std.dict
  simp only [bind_apply]
  rcases Std.dictLoop s [] fuel w with ⟨r, w1⟩
  cases r <;> rfl

/-! ## metatheory instances: faults surface unchanged, the flavour of the source does not matter -/

theorem faithful_dictUpdateKw : ∀ (kw acc : List (Val × Val)), Faithful (Std.dictUpdateKw acc kw) := by
  intro kw
  induction kw with
  | nil => intro acc; unfold Std.dictUpdateKw; faith
  | cons p rest ih => intro acc; rcases p with ⟨k, v⟩; unfold Std.dictUpdateKw; faith [ih]

theorem kf_dictUpdateKw : ∀ (kw acc : List (Val × Val)), KindFree (Std.dictUpdateKw acc kw) := by
  intro kw
  induction kw with
  | nil => intro acc; unfold Std.dictUpdateKw; kfree
  | cons p rest ih => intro acc; rcases p with ⟨k, v⟩; unfold Std.dictUpdateKw; kfree [ih]

theorem faithful_dictKw (kw : List (Val × Val)) (s fuel : Nat) : Faithful (Impl.dictKw kw s fuel) := by
  unfold Impl.dictKw; faith [Std.faithful_dictLoop s fuel, faithful_dictUpdateKw]

theorem kf_dictKw (kw : List (Val × Val)) (s fuel : Nat) : KindFree (Impl.dictKw kw s fuel) := by
  unfold Impl.dictKw; kfree [Std.kf_dictLoop s fuel, kf_dictUpdateKw]

end AsyncVerif
