import AsyncVerif.Impl.Tools
/-!
# Generic lemmas about the primitives: scoping and cleanup are invisible on the `vis` channel
-/
namespace AsyncVerif

/-- two programs are *twins*: in every world (every input, every fault position, every consumer
    behaviour) they end the same way and leave the same visible event log -/
def Twin {α : Type} (a b : M α) : Prop :=
  ∀ w, (a w).1 = (b w).1 ∧ (a w).2.vis = (b w).2.vis

/-- cleanup code that cannot fail and touches neither the visible log nor the consumer -/
def Quiet (fin : M Unit) : Prop :=
  ∀ w, (fin w).1 = .ok () ∧ (fin w).2.vis = w.vis ∧ (fin w).2.cons = w.cons

theorem closeSrc_quiet (s : Nat) : Quiet (closeSrc s) := by
  intro w
  unfold closeSrc
  cases hk : (w.srcs s).kind <;> simp only [hk]
  all_goals first
    | (split <;> simp [World.setSrc, World.pushRel])
    | (cases hs : (w.srcs s).status <;> simp [World.setSrc, World.pushRel])
    | simp [World.setSrc, World.pushRel]

theorem bind_apply {α β : Type} (m : M α) (f : α → M β) (w : World) :
    (m >>= f) w = match m w with
      | (.ok a, w') => f a w'
      | (.error e, w') => (.error e, w') := rfl

theorem pure_apply {α : Type} (a : α) (w : World) : (pure a : M α) w = (.ok a, w) := rfl

theorem closeAll_quiet (l : List Nat) : Quiet (closeAll l) := by
  induction l with
  | nil => intro w; simp [closeAll, pure_apply]
  | cons s rest ih =>
    intro w
    have h1 := closeSrc_quiet s w
    simp only [closeAll, bind_apply]
    rcases hc : closeSrc s w with ⟨r, w1⟩
    rw [hc] at h1
    obtain ⟨hr, hv, hcn⟩ := h1
    simp only at hr hv hcn
    subst hr
    simp only
    have h2 := ih w1
    exact ⟨h2.1, h2.2.1.trans hv, h2.2.2.trans hcn⟩

/-- `try … finally` with quiet cleanup: same outcome, same visible log as the bare body -/
theorem tryFinally_quiet {α : Type} (body : M α) (fin : M Unit) (hq : Quiet fin) (w : World) :
    (tryFinally body fin w).1 = (body w).1 ∧ (tryFinally body fin w).2.vis = (body w).2.vis
    ∧ (tryFinally body fin w).2.cons = (body w).2.cons := by
  unfold tryFinally
  rcases hb : body w with ⟨r, w1⟩
  have h := hq w1
  rcases hf : fin w1 with ⟨r2, w2⟩
  rw [hf] at h
  obtain ⟨hr, hv, hc⟩ := h
  simp only at hr hv hc
  subst hr
  cases r with
  | ok a => simp [hf, hv, hc]
  | error e => cases e <;> simp [hf, hv, hc]

theorem tryFinally_twin {α : Type} (body : M α) (fin : M Unit) (hq : Quiet fin) :
    Twin (tryFinally body fin) body := fun w =>
  ⟨(tryFinally_quiet body fin hq w).1, (tryFinally_quiet body fin hq w).2.1⟩

theorem scopedIter_twin {α : Type} (s : Nat) (body : M α) : Twin (scopedIter s body) body :=
  tryFinally_twin body _ (closeSrc_quiet s)

theorem Twin.refl {α : Type} (a : M α) : Twin a a := fun _ => ⟨rfl, rfl⟩
theorem Twin.trans {α : Type} {a b c : M α} (h1 : Twin a b) (h2 : Twin b c) : Twin a c := fun w =>
  ⟨(h1 w).1.trans (h2 w).1, (h1 w).2.trans (h2 w).2⟩

end AsyncVerif
