import AsyncVerif.Proofs.Core
/-!
# Twins whose asyncstdlib body continues after the scope ended (cycle)

`VisOnly m`: `m` reads and writes nothing but the visible log and the consumer (it only yields), so it
behaves the same from any two worlds that agree on those — whatever happened to the sources.
-/
namespace AsyncVerif

def VisOnly {α : Type} (m : M α) : Prop :=
  ∀ w w', w.vis = w'.vis → w.cons = w'.cons →
    (m w).1 = (m w').1 ∧ (m w).2.vis = (m w').2.vis ∧ (m w).2.cons = (m w').2.cons

theorem visOnly_pure {α : Type} (a : α) : VisOnly (pure a : M α) := fun _ _ hv hc => ⟨rfl, hv, hc⟩

theorem visOnly_raise {α : Type} (x : Exc) : VisOnly (raise x : M α) := fun _ _ hv hc => ⟨rfl, hv, hc⟩

theorem visOnly_yieldV (v : Val) : VisOnly (yieldV v) := by
  intro w w' hv hc
  unfold yieldV
  rw [← hc]
  cases h : w.cons with
  | done => simp [World.pushVis, hv, ← hc, h]
  | run n fin =>
    cases n with
    | succ n => simp [World.pushVis, hv]
    | zero => cases fin <;> simp [World.pushVis, hv, ← hc, h]

theorem visOnly_bind {α β : Type} {m : M α} {f : α → M β} (hm : VisOnly m) (hf : ∀ a, VisOnly (f a)) :
    VisOnly (m >>= f) := by
  intro w w' hv hc
  obtain ⟨hr, hv1, hc1⟩ := hm w w' hv hc
  rw [bind_apply, bind_apply]
  rcases hmw : m w with ⟨r, w1⟩
  rcases hmw' : m w' with ⟨r', w1'⟩
  rw [hmw, hmw'] at hr hv1 hc1
  simp only at hr hv1 hc1
  subst hr
  cases r with
  | ok a => exact hf a w1 w1' hv1 hc1
  | error x => exact ⟨rfl, hv1, hc1⟩

theorem visOnly_replay (buffer : List Val) (fuel : Nat) : ∀ l, VisOnly (Std.replay buffer l fuel) := by
  induction fuel with
  | zero => intro l; unfold Std.replay; exact visOnly_raise _
  | succ fuel ih =>
    intro l
    cases l with
    | nil =>
      unfold Std.replay
      split
      · exact visOnly_pure _
      · exact ih _
    | cons x rest =>
      unfold Std.replay
      exact visOnly_bind (visOnly_yieldV x) (fun _ => ih rest)

/-- two programs that agree on outcome, visible log and consumer, followed by the same `VisOnly` continuation -/
theorem twin_bind_visOnly {α β : Type} {a b : M α} {f : α → M β}
    (hab : ∀ w, (a w).1 = (b w).1 ∧ (a w).2.vis = (b w).2.vis ∧ (a w).2.cons = (b w).2.cons)
    (hf : ∀ x, VisOnly (f x)) : Twin (a >>= f) (b >>= f) := by
  intro w
  obtain ⟨hr, hv, hc⟩ := hab w
  rw [bind_apply, bind_apply]
  rcases ha : a w with ⟨r, w1⟩
  rcases hb : b w with ⟨r', w1'⟩
  rw [ha, hb] at hr hv hc
  simp only at hr hv hc
  subst hr
  cases r with
  | ok x => have := hf x w1 w1' hv hc; exact ⟨this.1, this.2.1⟩
  | error e => exact ⟨rfl, hv⟩

end AsyncVerif

namespace AsyncVerif

/-- the loop body `compress` runs over `zip(data, selectors)` -/
def compressK : List Val → M Unit := fun row =>
  match row with
  | [x, k] => if k.truthy then yieldV x else pure ()
  | _ => pure ()

/-- `zip` of two iterators followed by the selection is literally `compress_next`'s loop -/
theorem zipLoop_eq_compressLoop (d sel : Nat) : ∀ (fuel : Nat) (w : World),
    Std.zipLoop [d, sel] compressK fuel w = Std.compressLoop d sel fuel w := by
  intro fuel
  induction fuel with
  | zero => intro w; rfl
  | succ fuel ih =>
    intro w
    simp only [Std.zipLoop, Std.compressLoop, Std.zipRow, bind_apply, pure_apply]
    rcases hd : pull d w with ⟨r, w1⟩
    cases r with
    | error e => rfl
    | ok o =>
      cases o with
      | none => rfl
      | some x =>
        simp only [List.nil_append, bind_apply]
        rcases hs : pull sel w1 with ⟨r2, w2⟩
        cases r2 with
        | error e => rfl
        | ok o2 =>
          cases o2 with
          | none => rfl
          | some k =>
            simp only [pure_apply, List.cons_append, List.nil_append, compressK]
            by_cases hk : k.truthy
            · simp only [hk, if_true, bind_apply]
              rcases hy : yieldV x w2 with ⟨r3, w3⟩
              cases r3 with
              | error e => rfl
              | ok u => exact ih w3
            · simp only [hk, Bool.false_eq_true, if_false, bind_apply, pure_apply]
              exact ih w2

end AsyncVerif

namespace AsyncVerif

/-- once started, `dropwhile_next` is a plain pass-through loop -/
theorem dropwhileLoop_started (f s : Nat) : ∀ (fuel : Nat) (w : World),
    Std.dropwhileLoop f s true fuel w = forEach s (fun x => do yieldV x; pure true) fuel w := by
  intro fuel
  induction fuel with
  | zero => intro w; rfl
  | succ fuel ih =>
    intro w
    simp only [Std.dropwhileLoop, forEach, bind_apply, pure_apply]
    rcases hp : pull s w with ⟨r, w1⟩
    cases r with
    | error e => rfl
    | ok o =>
      cases o with
      | none => rfl
      | some x =>
        simp only [if_true, bind_apply]
        rcases hy : yieldV x w1 with ⟨r2, w2⟩
        cases r2 with
        | error e => rfl
        | ok u => simp only [pure_apply, if_true]; exact ih w2

/-- asyncstdlib's two loops over one iterator = CPython's single loop with the `start` flag -/
theorem dropwhile_body_eq (f s : Nat) : ∀ (fuel : Nat) (w : World),
    (do match ← Impl.dropPhase f s fuel with
        | some rest => forEach s (fun x => do yieldV x; pure true) rest
        | none => pure () : M Unit) w = Std.dropwhileLoop f s false fuel w := by
  intro fuel
  induction fuel with
  | zero => intro w; rfl
  | succ fuel ih =>
    intro w
    simp only [Impl.dropPhase, Std.dropwhileLoop, bind_apply, pure_apply]
    rcases hp : pull s w with ⟨r, w1⟩
    cases r with
    | error e => rfl
    | ok o =>
      cases o with
      | none => rfl
      | some x =>
        simp only [bind_apply, Bool.false_eq_true, if_false]
        rcases hc : call f [x] w1 with ⟨r2, w2⟩
        cases r2 with
        | error e => rfl
        | ok v =>
          simp only
          by_cases hv : v.truthy
          · simp only [hv, if_true]
            have := ih w2
            simp only [bind_apply] at this
            exact this
          · simp only [hv, Bool.false_eq_true, if_false, bind_apply]
            rcases hy : yieldV x w2 with ⟨r3, w3⟩
            cases r3 with
            | error e => rfl
            | ok u =>
              simp only [pure_apply]
              exact (dropwhileLoop_started f s fuel w3).symm

end AsyncVerif
