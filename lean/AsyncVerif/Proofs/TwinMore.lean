import AsyncVerif.Proofs.Core
/-!
# Twins whose asyncstdlib body continues after the scope ended (cycle)

`VisOnly m`: `m` reads and writes nothing but the visible log and the consumer (it only yields), so it
behaves the same from any two worlds that agree on those — whatever happened to the sources.
-/
namespace AsyncVerif

def VisOnly {α : Type} (m : M α) : Prop :=
  ∀ w w', w.vis = w'.vis → w.cons = w'.cons →
    (m w).1 = (m w').1 ∧ (m w).2.vis = (m w').2.vis ∧ (m w).2.cons = (m w').2.cons

theorem visOnly_pure {α : Type} (a : α) : VisOnly (pure a : M α) := fun _ _ hv hc => ⟨rfl, hv, hc⟩

theorem visOnly_raise {α : Type} (x : Exc) : VisOnly (raise x : M α) := fun _ _ hv hc => ⟨rfl, hv, hc⟩

theorem visOnly_yieldV (v : Val) : VisOnly (yieldV v) := by
  intro w w' hv hc
  unfold yieldV
  rw [← hc]
  cases h : w.cons with
  | done => simp [World.pushVis, hv, ← hc, h]
  | run n fin =>
    cases n with
    | succ n => simp [World.pushVis, hv]
    | zero => cases fin <;> simp [World.pushVis, hv, ← hc, h]

theorem visOnly_bind {α β : Type} {m : M α} {f : α → M β} (hm : VisOnly m) (hf : ∀ a, VisOnly (f a)) :
    VisOnly (m >>= f) := by
  intro w w' hv hc
  obtain ⟨hr, hv1, hc1⟩ := hm w w' hv hc
  rw [bind_apply, bind_apply]
  rcases hmw : m w with ⟨r, w1⟩
  rcases hmw' : m w' with ⟨r', w1'⟩
  rw [hmw, hmw'] at hr hv1 hc1
  simp only at hr hv1 hc1
  subst hr
  cases r with
  | ok a => exact hf a w1 w1' hv1 hc1
  | error x => exact ⟨rfl, hv1, hc1⟩

theorem visOnly_replay (buffer : List Val) (fuel : Nat) : ∀ l, VisOnly (Std.replay buffer l fuel) := by
  induction fuel with
  | zero => intro l; unfold Std.replay; exact visOnly_raise _
  | succ fuel ih =>
    intro l
    cases l with
    | nil =>
      unfold Std.replay
      split
      · exact visOnly_pure _
      · exact ih _
    | cons x rest =>
      unfold Std.replay
      exact visOnly_bind (visOnly_yieldV x) (fun _ => ih rest)

/-- two programs that agree on outcome, visible log and consumer, followed by the same `VisOnly` continuation -/
theorem twin_bind_visOnly {α β : Type} {a b : M α} {f : α → M β}
    (hab : ∀ w, (a w).1 = (b w).1 ∧ (a w).2.vis = (b w).2.vis ∧ (a w).2.cons = (b w).2.cons)
    (hf : ∀ x, VisOnly (f x)) : Twin (a >>= f) (b >>= f) := by
  intro w
  obtain ⟨hr, hv, hc⟩ := hab w
  rw [bind_apply, bind_apply]
  rcases ha : a w with ⟨r, w1⟩
  rcases hb : b w with ⟨r', w1'⟩
  rw [ha, hb] at hr hv hc
  simp only at hr hv hc
  subst hr
  cases r with
  | ok x => have := hf x w1 w1' hv hc; exact ⟨this.1, this.2.1⟩
  | error e => exact ⟨rfl, hv⟩

end AsyncVerif
