import AsyncVerif.Proofs.Core
/-!
# Release lemmas (C04): what `closeSrc` / `closeAll` / scoping guarantee about the final world
-/
namespace AsyncVerif

/-- C04's predicate on one source: closed, or run to exhaustion (async generators also finish by
    failing). Only async iterators that can be closed are constrained. -/
def Released (src : Src) : Prop :=
  match src.kind with
  | .aobj => 0 < src.closes ∨ src.status = .exhausted
  | .agen => src.status = .closed ∨ src.status = .exhausted ∨ src.status = .failed
  | _ => True

theorem closeSrc_srcs_other (s t : Nat) (w : World) (h : t ≠ s) :
    (closeSrc s w).2.srcs t = w.srcs t := by
  unfold closeSrc
  cases hk : (w.srcs s).kind <;> simp only [hk]
  all_goals first
    | (split <;> simp [World.setSrc, World.pushRel, h])
    | (cases hs : (w.srcs s).status <;> simp [World.setSrc, World.pushRel, h])
    | simp [World.setSrc, World.pushRel, h]

theorem closeSrc_releases (s : Nat) (w : World) : Released ((closeSrc s w).2.srcs s) := by
  unfold closeSrc
  cases hk : (w.srcs s).kind <;> simp only [hk]
  · by_cases hl : (w.srcs s).status.live <;> simp [hl, World.setSrc, Released, hk]
  · by_cases hl : (w.srcs s).status.live <;> simp [hl, World.setSrc, Released, hk]
  · by_cases hl : (w.srcs s).status.live <;> simp [hl, World.setSrc, Released, hk]
  · cases hs : (w.srcs s).status <;> simp [World.setSrc, World.pushRel, Released, hk, hs]
  · simp [World.setSrc, World.pushRel, Released]
  · simp [Released, hk]

theorem closeSrc_preserves (s t : Nat) (w : World) (h : Released (w.srcs t)) :
    Released ((closeSrc s w).2.srcs t) := by
  by_cases hts : t = s
  · subst hts; exact closeSrc_releases t w
  · rw [closeSrc_srcs_other s t w hts]; exact h

theorem closeAll_preserves (l : List Nat) (t : Nat) (w : World) (h : Released (w.srcs t)) :
    Released ((closeAll l w).2.srcs t) := by
  induction l generalizing w with
  | nil => simpa [closeAll, pure_apply] using h
  | cons s rest ih =>
    simp only [closeAll, bind_apply]
    have hq := closeSrc_quiet s w
    rcases hc : closeSrc s w with ⟨r, w1⟩
    rw [hc] at hq
    have hr : r = .ok () := hq.1
    subst hr
    simp only
    apply ih
    have := closeSrc_preserves s t w h
    rwa [hc] at this

theorem closeAll_releases (l : List Nat) (w : World) : ∀ s ∈ l, Released ((closeAll l w).2.srcs s) := by
  induction l generalizing w with
  | nil => intro s hs; simp at hs
  | cons a rest ih =>
    intro s hs
    simp only [closeAll, bind_apply]
    have hq := closeSrc_quiet a w
    rcases hc : closeSrc a w with ⟨r, w1⟩
    rw [hc] at hq
    have hr : r = .ok () := hq.1
    subst hr
    simp only
    rcases List.mem_cons.mp hs with h | h
    · subst h
      apply closeAll_preserves
      have := closeSrc_releases s w
      rwa [hc] at this
    · exact ih w1 s h

/-- unless the model ran out of fuel, the world after `try … finally` is the world `fin` leaves
    when started from the world the body left -/
theorem tryFinally_final {α : Type} (body : M α) (fin : M Unit) (w : World)
    (h : (tryFinally body fin w).1 ≠ .error .outOfFuel) :
    (tryFinally body fin w).2 = (fin (body w).2).2 ∧ (body w).1 ≠ .error .outOfFuel := by
  unfold tryFinally at h ⊢
  rcases hb : body w with ⟨r, w1⟩
  rw [hb] at h
  cases r with
  | ok a => simp only; rcases fin w1 with ⟨r2, w2⟩; cases r2 <;> simp
  | error e =>
    cases e <;> first
      | (exact absurd rfl h)
      | (simp only; rcases fin w1 with ⟨r2, w2⟩; cases r2 <;> simp)

theorem scopedIter_released {α : Type} (s : Nat) (body : M α) (w : World)
    (h : (scopedIter s body w).1 ≠ .error .outOfFuel) :
    Released ((scopedIter s body w).2.srcs s) := by
  obtain ⟨hw, _⟩ := tryFinally_final body (closeSrc s) w h
  unfold scopedIter
  rw [hw]; exact closeSrc_releases s _

theorem tryFinally_closeAll_released {α : Type} (srcs : List Nat) (body : M α) (w : World)
    (h : (tryFinally body (closeAll srcs) w).1 ≠ .error .outOfFuel) :
    ∀ s ∈ srcs, Released ((tryFinally body (closeAll srcs) w).2.srcs s) := by
  obtain ⟨hw, _⟩ := tryFinally_final body (closeAll srcs) w h
  rw [hw]; exact closeAll_releases srcs _

end AsyncVerif
