import AsyncVerif.Machines.TeeClose
import AsyncVerif.Proofs.Tee
/-!
Helper lemmas for `Tee.aclose()` with a source whose `aclose()` may fail (`Machines/TeeClose.lean`).
Property theorems live in `Properties/C20TeeClose.lean`.
-/
namespace AsyncVerif.TeeClose
open AsyncVerif.Tee

/-! ## The invariant of the tee machine does not read `closeable` -/

/-- the same state with another answer to `hasattr(iterator, "aclose")` -/
def setCl (s : St) (b : Bool) : St := { s with closeable := b }

@[simp] theorem setCl_kids (s : St) (b) : (setCl s b).kids = s.kids := rfl
@[simp] theorem setCl_kid (s : St) (b j) : (setCl s b).kid j = s.kid j := rfl
@[simp] theorem setCl_closeable (s : St) (b) : (setCl s b).closeable = b := rfl
@[simp] theorem setCl_srcCloses (s : St) (b) : (setCl s b).srcCloses = s.srcCloses := rfl
theorem setCl_self (s : St) : setCl s s.closeable = s := rfl
@[simp] theorem setCl_setCl (s : St) (a b) : setCl (setCl s a) b = setCl s b := rfl

theorem inv_of_eq {s s' : St} (h : Inv s) (hk : s'.kids = s.kids)
    (hf : s'.fetched = s.fetched) (hs : s'.src = s.src) (hc : s'.srcCloses = s.srcCloses)
    (he : s'.srcEnded = s.srcEnded) (hx : s'.srcKilled = s.srcKilled)
    (hw : s'.withLock = s.withLock) (hp : s'.suspPat = s.suspPat) (ho : s'.overlap = s.overlap)
    (hh : s'.holder = s.holder) : Inv s' := by
  have hkid : ∀ j, s'.kid j = s.kid j := by intro j; simp [St.kid, hk]
  have hsafe : Safe s' ↔ Safe s := by simp [Safe, NoSusp, hw, hp]
  have hns : NoSusp s' ↔ NoSusp s := by simp [NoSusp, hp]
  obtain ⟨d, h1, h2, h3, h4, h5⟩ := h
  refine ⟨d.of_eq hk hf hs hc he hx hw hp ho, ?_, ?_, ?_, ?_, ?_⟩ <;>
    simp only [hkid, hk, hw, hh, hsafe, hns] <;> assumption

theorem inv_setCl {s : St} (h : Inv s) (b : Bool) : Inv (setCl s b) :=
  inv_of_eq h rfl rfl rfl rfl rfl rfl rfl rfl rfl rfl

/-! ## The failing-source functions are the ones of `Machines/Tee.lean` in a world whose source can
be closed iff `canClose` -/

theorem finishKidF_fst (s : St) (i : Nat) (t : Task) (sc : SrcClose) :
    (finishKidF s i t sc).1 = setCl (finishKid (setCl s (canClose s sc)) i t) s.closeable := by
  unfold finishKidF finishKid
  simp only []
  split
  · rename_i h; rw [if_pos (by exact h)]; rfl
  · rename_i h; rw [if_neg (by exact h)]; rfl

/-- the error is raised iff this `finally:` block called the source's `aclose()` and that raises -/
theorem finishKidF_snd (s : St) (i : Nat) (t : Task) (sc : SrcClose) :
    (finishKidF s i t sc).2 =
      (decide (sc = .raises) && decide (s.srcCloses < (finishKidF s i t sc).1.srcCloses)) := by
  unfold finishKidF; simp only []; split <;> simp

theorem closeKidF_fst (s : St) (i : Nat) (sc : SrcClose) :
    (closeKidF s i sc).1 = setCl (closeKid (setCl s (canClose s sc)) i).1 s.closeable := by
  cases hp : (s.kid i).pc <;> simp only [closeKidF, closeKid, setCl_kid, hp]
  · rfl
  · exact finishKidF_fst s i _ sc
  · rfl
  · rfl
  · rfl

theorem clearBuffersF_fst (s : St) (sc : SrcClose) :
    (clearBuffersF s sc).1 = setCl (clearBuffers (setCl s (canClose s sc))) s.closeable := by
  by_cases h1 : (s.kids.any fun c => c.buf.isSome) = true
  · simp only [clearBuffersF, clearBuffers, setCl_kids, h1, ↓reduceIte]
    split
    · rename_i h; rw [if_pos (by exact h)]; rfl
    · rename_i h; rw [if_neg (by exact h)]; rfl
  · simp only [clearBuffersF, clearBuffers, setCl_kids, h1]
    rfl

/-- everything but the children and the count of `iterator.aclose()` calls -/
def base (s : St) : St := { s with kids := [], srcCloses := 0 }

theorem base_ext {s s' : St} (hb : base s' = base s) (hc : s'.srcCloses = s.srcCloses) :
    { s' with kids := s.kids } = s := by
  cases s; cases s'; simp_all [base]

theorem finishKidF_base (s : St) (i : Nat) (t : Task) (sc : SrcClose) :
    base (finishKidF s i t sc).1 = base s := by
  unfold finishKidF; simp only []; split <;> rfl

theorem closeKidF_base (s : St) (i : Nat) (sc : SrcClose) : base (closeKidF s i sc).1 = base s := by
  cases hp : (s.kid i).pc <;> simp only [closeKidF, hp] <;>
    first | rfl | exact finishKidF_base s i _ sc

theorem clearBuffersF_base (s : St) (sc : SrcClose) : base (clearBuffersF s sc).1 = base s := by
  unfold clearBuffersF; simp only []; split
  · split <;> rfl
  · rfl

theorem canClose_of_base {s s' : St} (h : base s' = base s) (sc : SrcClose) :
    canClose s' sc = canClose s sc := by
  have h2 : (base s').closeable = (base s).closeable := congrArg St.closeable h
  have : s'.closeable = s.closeable := h2
  simp [canClose, this]

/-! ## One `child.aclose()` -/

@[simp] theorem closeKidF_length (s : St) (i : Nat) (sc : SrcClose) :
    (closeKidF s i sc).1.kids.length = s.kids.length := by
  rw [closeKidF_fst]; simp

theorem inv_closeKidF {s : St} (h : Inv s) (i : Nat) (hi : i < s.kids.length) (sc : SrcClose) :
    Inv (closeKidF s i sc).1 := by
  rw [closeKidF_fst]
  exact inv_setCl ((inv_setCl h (canClose s sc)).closeKid_inv i hi) _

theorem closedChild_done (c : Child) (h : c.pc = .done) : closedChild c = c := by
  simp [closedChild, h]

theorem closedChild_busy (c : Child) (h : isBusy c.pc = true) : closedChild c = c := by
  cases hp : c.pc <;> simp [closedChild, hp, isBusy] at h ⊢

theorem closedChild_pc (c : Child) (h : isBusy c.pc = false) : (closedChild c).pc = .done := by
  cases hp : c.pc <;> simp [closedChild, hp, isBusy] at h ⊢

theorem closedChild_idem (c : Child) : closedChild (closedChild c) = closedChild c := by
  cases hp : c.pc <;> simp [closedChild, hp]

theorem closedChild_out (c : Child) : (closedChild c).out = c.out ∧ (closedChild c).task = c.task := by
  cases hp : c.pc <;> simp [closedChild, hp]

theorem bufLen_closedChild (c : Child) : bufLen (closedChild c) ≤ bufLen c := by
  cases hp : c.pc <;> simp [closedChild, hp, bufLen]

/-- what `child.aclose()` does to the children: child `i` is closed as the specification says,
    the others are not touched -/
theorem closeKidF_kid (s : St) (i j : Nat) (hi : i < s.kids.length) (sc : SrcClose) :
    (closeKidF s i sc).1.kid j = if j = i then closedChild (s.kid i) else s.kid j := by
  rw [closeKidF_fst]
  simp only [setCl_kid]
  have hi' : i < (setCl s (canClose s sc)).kids.length := hi
  cases hp : (s.kid i).pc <;> simp only [closeKid, setCl_kid, hp, closedChild]
  · rw [kid_setKid _ _ _ _ hi']; rfl
  · rw [finishKid_kid _ _ _ _ hi']; rfl
  · split
    · rename_i h; rw [h]
    · rfl
  · split
    · rename_i h; rw [h]
    · rfl
  · split
    · rename_i h; rw [h]
    · rfl

theorem closeKidF_busy_iff (s : St) (i : Nat) (sc : SrcClose) :
    (closeKidF s i sc).2.1 = .busy ↔ isBusy (s.kid i).pc = true := by
  cases hp : (s.kid i).pc <;> simp only [closeKidF, hp, isBusy] <;> (try split) <;> simp

/-- RuntimeError of a busy child: nothing has changed -/
theorem closeKidF_of_busy (s : St) (i : Nat) (sc : SrcClose) (h : isBusy (s.kid i).pc = true) :
    closeKidF s i sc = (s, .busy, false) := by
  cases hp : (s.kid i).pc <;> simp [closeKidF, hp, isBusy] at h ⊢

theorem closeKidF_of_done (s : St) (i : Nat) (sc : SrcClose) (h : (s.kid i).pc = .done) :
    closeKidF s i sc = (s, .closed, false) := by
  simp [closeKidF, h]

/-- the answer of `child.aclose()` is determined by whether it raised the source's error -/
theorem closeKidF_out (s : St) (i : Nat) (sc : SrcClose) :
    ((closeKidF s i sc).2.2 = true → (closeKidF s i sc).2.1 = .error) ∧
    ((closeKidF s i sc).2.2 = false →
      (closeKidF s i sc).2.1 = .closed ∨ (closeKidF s i sc).2.1 = .busy) := by
  cases hp : (s.kid i).pc <;> simp only [closeKidF, hp] <;> (try split) <;> simp_all

/-- bookkeeping of `iterator.aclose()` calls in one `child.aclose()`: none, or one — then the source
    can be closed and no buffer is registered any more; the error is raised iff a call was made and
    the source's `aclose()` raises -/
theorem closeKidF_acct (s : St) (i : Nat) (sc : SrcClose) :
    ((closeKidF s i sc).1.srcCloses = s.srcCloses ∨
      ((closeKidF s i sc).1.srcCloses = s.srcCloses + 1 ∧ canClose s sc = true ∧
        ∀ j, j < s.kids.length → ((closeKidF s i sc).1.kid j).buf = none)) ∧
    (closeKidF s i sc).2.2 =
      (decide (sc = .raises) && decide (s.srcCloses < (closeKidF s i sc).1.srcCloses)) := by
  cases hp : (s.kid i).pc <;> simp only [closeKidF, hp] <;> try (simp; done)
  refine ⟨?_, finishKidF_snd s i _ sc⟩
  unfold finishKidF; simp only []
  split
  · rename_i h
    right
    simp only [Bool.and_eq_true] at h
    refine ⟨rfl, h.2, ?_⟩
    intro j hj
    exact (all_none_iff _).1 h.1 j (by simpa using hj)
  · left; rfl

/-! ## The loop `for child in self._children: await child.aclose()` -/

theorem closeFromF_cons (s : St) (sc : SrcClose) (i : Nat) (rest : List Nat) :
    closeFromF s sc (i :: rest) =
      if (closeKidF s i sc).2.1 = .busy then ((closeKidF s i sc).1, .busy, false)
      else if (closeKidF s i sc).2.2 = true then closeKidF s i sc
      else closeFromF (closeKidF s i sc).1 sc rest := by
  simp only [closeFromF]
  generalize closeKidF s i sc = r
  obtain ⟨s', o, b⟩ := r
  cases o <;> cases b <;> simp

/-- the three ways one round of the loop can go -/
theorem closeFromF_cases (s : St) (sc : SrcClose) (i : Nat) (rest : List Nat) :
    (isBusy (s.kid i).pc = true ∧ closeFromF s sc (i :: rest) = (s, .busy, false)) ∨
    (isBusy (s.kid i).pc = false ∧ (closeKidF s i sc).2.2 = true ∧
      closeFromF s sc (i :: rest) = ((closeKidF s i sc).1, .error, true)) ∨
    (isBusy (s.kid i).pc = false ∧ (closeKidF s i sc).2.2 = false ∧
      closeFromF s sc (i :: rest) = closeFromF (closeKidF s i sc).1 sc rest) := by
  rw [closeFromF_cons]
  cases hb : isBusy (s.kid i).pc with
  | true =>
    left
    rw [closeKidF_of_busy s i sc hb]; simp
  | false =>
    right
    have hnb : ¬ (closeKidF s i sc).2.1 = .busy := by
      rw [closeKidF_busy_iff, hb]; simp
    rw [if_neg hnb]
    cases hr : (closeKidF s i sc).2.2 with
    | true =>
      left
      refine ⟨rfl, rfl, ?_⟩
      have := (closeKidF_out s i sc).1 hr
      simp only [if_true]
      ext <;> simp [this, hr]
    | false =>
      right
      simp

@[simp] theorem closeFromF_length (s : St) (sc : SrcClose) (l : List Nat) :
    (closeFromF s sc l).1.kids.length = s.kids.length := by
  induction l generalizing s with
  | nil => rfl
  | cons i rest ih =>
    rcases closeFromF_cases s sc i rest with ⟨_, e⟩ | ⟨_, _, e⟩ | ⟨_, _, e⟩ <;> rw [e] <;> simp [ih]

theorem closeFromF_base (s : St) (sc : SrcClose) (l : List Nat) :
    base (closeFromF s sc l).1 = base s := by
  induction l generalizing s with
  | nil => rfl
  | cons i rest ih =>
    rcases closeFromF_cases s sc i rest with ⟨_, e⟩ | ⟨_, _, e⟩ | ⟨_, _, e⟩ <;> rw [e]
    · exact closeKidF_base s i sc
    · rw [ih]; exact closeKidF_base s i sc

theorem inv_closeFromF {s : St} (h : Inv s) (sc : SrcClose) (l : List Nat)
    (hl : ∀ i ∈ l, i < s.kids.length) : Inv (closeFromF s sc l).1 := by
  induction l generalizing s with
  | nil => exact h
  | cons i rest ih =>
    have hi := hl i (by simp)
    have h1 := inv_closeKidF h i hi sc
    rcases closeFromF_cases s sc i rest with ⟨_, e⟩ | ⟨_, _, e⟩ | ⟨_, _, e⟩ <;> rw [e]
    · exact h
    · exact h1
    · exact ih h1 (by intro k hk; rw [closeKidF_length]; exact hl k (by simp [hk]))

/-- every child is either untouched or closed as the specification of `child.aclose()` says -/
theorem closeFromF_kid (s : St) (sc : SrcClose) (l : List Nat) (hl : ∀ i ∈ l, i < s.kids.length)
    (j : Nat) :
    (closeFromF s sc l).1.kid j = s.kid j ∨ (closeFromF s sc l).1.kid j = closedChild (s.kid j) := by
  induction l generalizing s with
  | nil => left; rfl
  | cons i rest ih =>
    have hi := hl i (by simp)
    have hk := closeKidF_kid s i j hi sc
    have h1 : (closeKidF s i sc).1.kid j = s.kid j ∨
        (closeKidF s i sc).1.kid j = closedChild (s.kid j) := by
      rw [hk]; split
      · rename_i e; subst e; right; rfl
      · left; rfl
    rcases closeFromF_cases s sc i rest with ⟨_, e⟩ | ⟨_, _, e⟩ | ⟨_, _, e⟩ <;> rw [e]
    · left; rfl
    · exact h1
    · have := ih (s := (closeKidF s i sc).1)
        (by intro k hk'; rw [closeKidF_length]; exact hl k (by simp [hk']))
      rcases this with a | a <;> rcases h1 with b | b <;> rw [a, b]
      · left; rfl
      · right; rfl
      · right; rfl
      · right; exact closedChild_idem _

/-- children the loop does not go over are not touched -/
theorem closeFromF_frame (s : St) (sc : SrcClose) (l : List Nat) (hl : ∀ i ∈ l, i < s.kids.length)
    (j : Nat) (hj : j ∉ l) : (closeFromF s sc l).1.kid j = s.kid j := by
  induction l generalizing s with
  | nil => rfl
  | cons i rest ih =>
    have hi := hl i (by simp)
    have hji : j ≠ i := fun e => hj (by simp [e])
    have hk : (closeKidF s i sc).1.kid j = s.kid j := by rw [closeKidF_kid s i j hi sc]; simp [hji]
    rcases closeFromF_cases s sc i rest with ⟨_, e⟩ | ⟨_, _, e⟩ | ⟨_, _, e⟩ <;> rw [e]
    · exact hk
    · rw [ih (s := (closeKidF s i sc).1)
        (by intro k hk'; rw [closeKidF_length]; exact hl k (by simp [hk']))
        (fun e => hj (by simp [e]))]
      exact hk

/-- the answer of the loop is determined by the Bool -/
theorem closeFromF_out (s : St) (sc : SrcClose) (l : List Nat) :
    ((closeFromF s sc l).2.2 = true → (closeFromF s sc l).2.1 = .error) ∧
    ((closeFromF s sc l).2.2 = false →
      (closeFromF s sc l).2.1 = .closed ∨ (closeFromF s sc l).2.1 = .busy) := by
  induction l generalizing s with
  | nil => simp [closeFromF]
  | cons i rest ih =>
    rcases closeFromF_cases s sc i rest with ⟨_, e⟩ | ⟨_, _, e⟩ | ⟨_, _, e⟩ <;> rw [e]
    · simp
    · simp
    · exact ih _

/-- a loop over children that are all closed already does nothing -/
theorem closeFromF_of_done (s : St) (sc : SrcClose) (l : List Nat)
    (h : ∀ i ∈ l, (s.kid i).pc = .done) : closeFromF s sc l = (s, .closed, false) := by
  induction l with
  | nil => rfl
  | cons i rest ih =>
    rw [closeFromF_cons, closeKidF_of_done s i sc (h i (by simp))]
    simp only [reduceCtorEq, if_false, Bool.false_eq_true]
    exact ih (fun k hk => h k (by simp [hk]))

/-- a child the loop has closed stays closed -/
theorem closeFromF_keeps_done (s : St) (sc : SrcClose) (l : List Nat)
    (hl : ∀ i ∈ l, i < s.kids.length) (j : Nat) (hd : (s.kid j).pc = .done) :
    ((closeFromF s sc l).1.kid j).pc = .done := by
  rcases closeFromF_kid s sc l hl j with e | e <;> rw [e]
  · exact hd
  · rw [closedChild_done _ hd]; exact hd

/-- a loop that was left by no exception has closed every child it went over -/
theorem closeFromF_pc_done (s : St) (sc : SrcClose) (l : List Nat) (hl : ∀ i ∈ l, i < s.kids.length)
    (hb : (closeFromF s sc l).2.1 ≠ .busy) (hr : (closeFromF s sc l).2.2 = false) :
    ∀ i ∈ l, ((closeFromF s sc l).1.kid i).pc = .done := by
  induction l generalizing s with
  | nil => intro i hi; simp at hi
  | cons i rest ih =>
    have hi := hl i (by simp)
    have hl' : ∀ k ∈ rest, k < (closeKidF s i sc).1.kids.length := by
      intro k hk; rw [closeKidF_length]; exact hl k (by simp [hk])
    rcases closeFromF_cases s sc i rest with ⟨_, e⟩ | ⟨_, _, e⟩ | ⟨hnb, _, e⟩
    · rw [e] at hb; simp at hb
    · rw [e] at hr; simp at hr
    · rw [e] at hb hr ⊢
      intro k hk
      rcases List.mem_cons.1 hk with e' | hk'
      · subst e'
        apply closeFromF_keeps_done _ sc rest hl'
        rw [closeKidF_kid s k k hi sc]; simp only [if_true]
        exact closedChild_pc _ hnb
      · exact ih _ hl' hb hr k hk'

/-- the loop was left by the error of the source's `aclose()`: it was raised in the `finally:` block
    of the last registered child, so no buffer is registered any more -/
theorem closeFromF_raised (s : St) (sc : SrcClose) (l : List Nat)
    (hr : (closeFromF s sc l).2.2 = true) :
    sc = .raises ∧ canClose s sc = true ∧
      ∀ j, j < s.kids.length → ((closeFromF s sc l).1.kid j).buf = none := by
  induction l generalizing s with
  | nil => simp [closeFromF] at hr
  | cons i rest ih =>
    rcases closeFromF_cases s sc i rest with ⟨_, e⟩ | ⟨_, hr', e⟩ | ⟨_, _, e⟩
    · rw [e] at hr; simp at hr
    · rw [e]
      have ha := closeKidF_acct s i sc
      rw [hr'] at ha
      have h2 := ha.2
      simp only [Bool.true_eq, Bool.and_eq_true, decide_eq_true_eq] at h2
      rcases ha.1 with h1 | h1
      · omega
      · exact ⟨h2.1, h1.2.1, h1.2.2⟩
    · rw [e] at hr ⊢
      have := ih _ hr
      rw [canClose_of_base (closeKidF_base s i sc), closeKidF_length] at this
      exact this

/-- bookkeeping of `iterator.aclose()` calls in the loop: the count never decreases, and the error is
    raised iff a call was made and the source's `aclose()` raises -/
theorem closeFromF_acct (s : St) (sc : SrcClose) (l : List Nat) :
    s.srcCloses ≤ (closeFromF s sc l).1.srcCloses ∧
    (closeFromF s sc l).2.2 =
      (decide (sc = .raises) && decide (s.srcCloses < (closeFromF s sc l).1.srcCloses)) := by
  induction l generalizing s with
  | nil => simp [closeFromF]
  | cons i rest ih =>
    have ha := closeKidF_acct s i sc
    have hmono : s.srcCloses ≤ (closeKidF s i sc).1.srcCloses := by
      rcases ha.1 with h | h <;> omega
    rcases closeFromF_cases s sc i rest with ⟨_, e⟩ | ⟨_, hr', e⟩ | ⟨_, hr', e⟩ <;> rw [e]
    · simp
    · refine ⟨hmono, ?_⟩
      rw [← ha.2, hr']
    · have := ih (closeKidF s i sc).1
      refine ⟨Nat.le_trans hmono this.1, ?_⟩
      rw [this.2]
      have h2 := ha.2
      rw [hr'] at h2
      cases hd : decide (sc = .raises) with
      | false => simp
      | true =>
        rw [hd] at h2
        simp only [Bool.true_and, Bool.false_eq, decide_eq_false_iff_not] at h2
        have : (closeKidF s i sc).1.srcCloses = s.srcCloses := by omega
        rw [this]

/-- without a closeable source the loop never calls `iterator.aclose()` -/
theorem closeFromF_cannot (s : St) (sc : SrcClose) (l : List Nat) (hc : canClose s sc = false) :
    (closeFromF s sc l).1.srcCloses = s.srcCloses := by
  induction l generalizing s with
  | nil => rfl
  | cons i rest ih =>
    have ha := (closeKidF_acct s i sc).1
    have h1 : (closeKidF s i sc).1.srcCloses = s.srcCloses := by
      rcases ha with h | h
      · exact h
      · rw [hc] at h; simp at h
    rcases closeFromF_cases s sc i rest with ⟨_, e⟩ | ⟨_, _, e⟩ | ⟨_, _, e⟩ <;> rw [e]
    · exact h1
    · rw [ih _ (by rw [canClose_of_base (closeKidF_base s i sc)]; exact hc)]; exact h1

/-! ## The loop over `range' a m` = children `a, a+1, …, a+m-1`: the busy case -/

/-- a child that is suspended inside the generator is registered -/
theorem inv_busy_registered {s : St} (h : Inv s) (k : Nat) (hk : k < s.kids.length)
    (hb : isBusy (s.kid k).pc = true) : (s.kid k).buf ≠ none := by
  apply h.buf_ne_none k hk
  intro hd; rw [hd] at hb; simp [isBusy] at hb

/-- **The busy case.** The loop answers RuntimeError iff it meets a busy child; it stops at the
    first one, `k`: the children before `k` have been closed as `closedChild` says, `k` and all
    others are untouched, the source has not been closed and no error of the source was raised. -/
theorem closeFromF_busy_range' (sc : SrcClose) : ∀ (m a : Nat) (s : St), Inv s →
    a + m ≤ s.kids.length → (closeFromF s sc (List.range' a m)).2.1 = .busy →
    ∃ k, a ≤ k ∧ k < a + m ∧ isBusy (s.kid k).pc = true ∧
      (∀ j, a ≤ j → j < k → isBusy (s.kid j).pc = false ∧
        (closeFromF s sc (List.range' a m)).1.kid j = closedChild (s.kid j)) ∧
      (∀ j, (j < a ∨ k ≤ j) → (closeFromF s sc (List.range' a m)).1.kid j = s.kid j) ∧
      (closeFromF s sc (List.range' a m)).2.2 = false ∧
      (closeFromF s sc (List.range' a m)).1.srcCloses = s.srcCloses := by
  intro m
  induction m with
  | zero => intro a s _ _ hb; simp [closeFromF] at hb
  | succ m ih =>
    intro a s hinv hlen hb
    have ha : a < s.kids.length := by omega
    rw [List.range'_succ] at hb ⊢
    rcases closeFromF_cases s sc a (List.range' (a + 1) m) with ⟨hbusy, e⟩ | ⟨_, _, e⟩ | ⟨hnb, hr, e⟩
    · rw [e]
      exact ⟨a, Nat.le_refl _, by omega, hbusy, fun j h1 h2 => by omega, fun _ _ => rfl, rfl, rfl⟩
    · rw [e] at hb; simp at hb
    · rw [e] at hb ⊢
      have hinv1 := inv_closeKidF hinv a ha sc
      have hkid := fun j => closeKidF_kid s a j ha sc
      obtain ⟨k, hk1, hk2, hk3, hk4, hk5, hk6, hk7⟩ :=
        ih (a + 1) (closeKidF s a sc).1 hinv1 (by rw [closeKidF_length]; omega) hb
      have hka : k ≠ a := by omega
      rw [hkid k, if_neg hka] at hk3
      refine ⟨k, by omega, by omega, hk3, ?_, ?_, hk6, ?_⟩
      · intro j h1 h2
        by_cases hja : j = a
        · subst hja
          refine ⟨hnb, ?_⟩
          rw [hk5 j (Or.inl (by omega)), hkid j]; simp
        · have := hk4 j (by omega) h2
          rw [hkid j, if_neg hja] at this
          exact this
      · intro j hj
        have hja : j ≠ a := by omega
        rw [hk5 j (by omega), hkid j, if_neg hja]
      · rw [hk7]
        rcases (closeKidF_acct s a sc).1 with h | h
        · exact h
        · exfalso
          have hreg := inv_busy_registered hinv1 k (by rw [closeKidF_length]; omega)
            (by rw [hkid k, if_neg hka]; exact hk3)
          exact hreg (h.2.2 k (by omega))

/-- a loop that meets a busy child after children that are all closed already changes nothing -/
theorem closeFromF_stops (sc : SrcClose) (s : St) (k : Nat) (hb : isBusy (s.kid k).pc = true) :
    ∀ (m a : Nat), a ≤ k → k < a + m → (∀ j, a ≤ j → j < k → (s.kid j).pc = .done) →
      closeFromF s sc (List.range' a m) = (s, .busy, false) := by
  intro m
  induction m with
  | zero => intro a h1 h2; omega
  | succ m ih =>
    intro a h1 h2 hd
    rw [List.range'_succ, closeFromF_cons]
    by_cases hak : a = k
    · subst hak
      rw [closeKidF_of_busy s a sc hb]; simp
    · rw [closeKidF_of_done s a sc (hd a (Nat.le_refl _) (by omega))]
      simp only [reduceCtorEq, if_false, Bool.false_eq_true]
      exact ih (a + 1) (by omega) (by omega) (fun j h3 h4 => hd j (by omega) h4)

/-! ## The tee machine calls `iterator.aclose()` at most once (new invariant of `Machines/Tee.lean`) -/

/-- `iterator.aclose()` has been called at most once -/
def Once (s : St) : Prop := s.srcCloses ≤ 1

/-- every child is closed and unregistered -/
def Dead (s : St) : Prop := ∀ j, j < s.kids.length → (s.kid j).pc = .done ∧ (s.kid j).buf = none

/-- once the source has been closed, every child is closed and unregistered -/
theorem inv_dead {s : St} (h : Inv s) (hc : 0 < s.srcCloses) : Dead s := by
  intro j hj
  have hb := h.d.closedAll hc j hj
  exact ⟨(h.d.unreg j hj hb).2, hb⟩

theorem finishKid_le (s : St) (i : Nat) (t : Task) : (finishKid s i t).srcCloses ≤ s.srcCloses + 1 := by
  unfold finishKid; simp only []; split <;> simp

theorem popYield_le (s : St) (i : Nat) : (popYield s i).1.srcCloses ≤ s.srcCloses + 1 := by
  unfold popYield; split
  · simp
  · exact finishKid_le s i _

theorem completeFetch_le (s : St) (i : Nat) : (completeFetch s i).1.srcCloses ≤ s.srcCloses + 1 := by
  unfold completeFetch
  split
  · have := finishKid_le (release s i) i .ended; simpa using this
  · split
    · have := finishKid_le (release { s with srcEnded := true } i) i .ended; simpa using this
    · rename_i v r _
      have := popYield_le (release (broadcast { s with src := r, fetched := s.fetched ++ [v] } v) i) i
      simpa using this

theorem startFetch_le (s : St) (i : Nat) : (startFetch s i).1.srcCloses ≤ s.srcCloses + 1 := by
  unfold startFetch; simp only []
  split
  · exact completeFetch_le _ i
  · split
    · exact completeFetch_le _ i
    · simp

theorem enterCritical_le (s : St) (i : Nat) : (enterCritical s i).1.srcCloses ≤ s.srcCloses + 1 := by
  unfold enterCritical; simp only []
  have hc : (if s.withLock = true then { s with holder := some i } else s).srcCloses = s.srcCloses := by
    split <;> rfl
  split
  · have := popYield_le (release (if s.withLock = true then { s with holder := some i } else s) i) i
    simpa [hc] using this
  · have := startFetch_le (if s.withLock = true then { s with holder := some i } else s) i
    simpa [hc] using this

theorem loopTop_le (s : St) (i : Nat) : (loopTop s i).1.srcCloses ≤ s.srcCloses + 1 := by
  unfold loopTop; split
  · exact popYield_le s i
  · split
    · simp
    · exact enterCritical_le s i

theorem sched_le (s : St) (i : Nat) : (sched s i).1.srcCloses ≤ s.srcCloses + 1 := by
  unfold sched; split
  · split
    · simp
    · exact loopTop_le s i
    · exact loopTop_le s i
    · split
      · simp
      · exact enterCritical_le s i
    · exact completeFetch_le s i
    · simp
  · simp

theorem closeKid_le (s : St) (i : Nat) : (closeKid s i).1.srcCloses ≤ s.srcCloses + 1 := by
  unfold closeKid; split
  · simp
  · exact finishKid_le s i _
  · simp
  · simp

theorem cancel_le (s : St) (i : Nat) : (cancel s i).1.srcCloses ≤ s.srcCloses + 1 := by
  unfold cancel; split
  · split
    · exact finishKid_le s i _
    · simp only []
      have hc : (if s.diesOnCancel = true then { s with srcKilled := true } else s).srcCloses
          = s.srcCloses := by split <;> rfl
      have := finishKid_le (release (if s.diesOnCancel = true then { s with srcKilled := true } else s) i)
        i .cancelled
      simpa [hc] using this
    · simp
  · simp

/-! in a state where every child is closed and unregistered, nothing closes the source -/

theorem dead_sched {s : St} (h : Dead s) (i : Nat) (hi : i < s.kids.length) :
    (sched s i).1.srcCloses = s.srcCloses := by
  unfold sched
  rw [(h i hi).1]
  split <;> rfl

theorem dead_closeKid {s : St} (h : Dead s) (i : Nat) (hi : i < s.kids.length) :
    closeKid s i = (s, .closed) := by
  unfold closeKid
  rw [(h i hi).1]

theorem dead_cancel {s : St} (h : Dead s) (i : Nat) (hi : i < s.kids.length) :
    (cancel s i).1.srcCloses = s.srcCloses := by
  unfold cancel
  rw [(h i hi).1]
  split <;> rfl

theorem dead_clearBuffers {s : St} (h : Dead s) : clearBuffers s = s := by
  have : s.kids.any (fun c => c.buf.isSome) = false :=
    (any_some_iff s).2 (fun j hj => (h j hj).2)
  unfold clearBuffers
  simp [this]

theorem once_sched {s : St} (h : Inv s) (ho : Once s) (i : Nat) (hi : i < s.kids.length) :
    Once (sched s i).1 := by
  unfold Once at *
  by_cases h0 : s.srcCloses = 0
  · have := sched_le s i; omega
  · rw [dead_sched (inv_dead h (by omega)) i hi]; exact ho

theorem once_closeKid {s : St} (h : Inv s) (ho : Once s) (i : Nat) (hi : i < s.kids.length) :
    Once (closeKid s i).1 := by
  unfold Once at *
  by_cases h0 : s.srcCloses = 0
  · have := closeKid_le s i; omega
  · rw [dead_closeKid (inv_dead h (by omega)) i hi]; exact ho

theorem once_cancel {s : St} (h : Inv s) (ho : Once s) (i : Nat) (hi : i < s.kids.length) :
    Once (cancel s i).1 := by
  unfold Once at *
  by_cases h0 : s.srcCloses = 0
  · have := cancel_le s i; omega
  · rw [dead_cancel (inv_dead h (by omega)) i hi]; exact ho

theorem once_closeFrom {s : St} (h : Inv s) (ho : Once s) (l : List Nat)
    (hl : ∀ i ∈ l, i < s.kids.length) : Once (closeFrom s l).1 := by
  induction l generalizing s with
  | nil => exact ho
  | cons i rest ih =>
    have hi := hl i (by simp)
    rw [closeFrom_cons]
    split
    · exact once_closeKid h ho i hi
    · exact ih (h.closeKid_inv i hi) (once_closeKid h ho i hi)
        (by intro k hk; rw [closeKid_length]; exact hl k (by simp [hk]))

theorem once_clearBuffers {s : St} (h : Inv s) (ho : Once s) : Once (clearBuffers s) := by
  unfold Once at *
  by_cases h0 : s.srcCloses = 0
  · unfold clearBuffers; simp only []
    split
    · split <;> simp [h0]
    · exact ho
  · rw [dead_clearBuffers (inv_dead h (by omega))]; exact ho

theorem once_closeAll {s : St} (h : Inv s) (ho : Once s) : Once (closeAll s).1 := by
  have h1 := once_closeFrom h ho _ (range_lt s)
  by_cases hb : (closeFrom s (List.range s.kids.length)).2 = .busy
  · rw [closeAll_busy s hb]; exact h1
  · rw [closeAll_not_busy s hb]
    exact once_clearBuffers (h.closeFrom_inv _ (range_lt s)) h1

theorem once_step {s : St} (h : Inv s) (ho : Once s) (op : Op) : Once (step s op).1 := by
  cases op with
  | sched i => simp only [step]; split; exact once_sched h ho i ‹_›; exact ho
  | close i => simp only [step]; split; exact once_closeKid h ho i ‹_›; exact ho
  | cancel i => simp only [step]; split; exact once_cancel h ho i ‹_›; exact ho
  | closeAll => exact once_closeAll h ho

theorem once_runOps {s : St} (h : Inv s) (ho : Once s) (ops : List Op) : Once (runOps s ops) := by
  induction ops generalizing s with
  | nil => exact ho
  | cons op rest ih => exact ih (h.step_inv op) (once_step h ho op)

/-- in every reachable state of the tee machine `iterator.aclose()` has been called at most once -/
theorem reach_once (items n susp lock closeable dies ops) :
    Once (reach items n susp lock closeable dies ops) :=
  once_runOps (init_inv items n susp lock closeable dies) (by simp [Once, init]) ops

/-! ## The end of `Tee.aclose`: `self._buffers.clear()`, then `iterator.aclose()` -/

@[simp] theorem clearBuffersF_length (s : St) (sc : SrcClose) :
    (clearBuffersF s sc).1.kids.length = s.kids.length := by
  rw [clearBuffersF_fst]; simp

theorem clearBuffersF_kid (s : St) (sc : SrcClose) (j : Nat) (hj : j < s.kids.length) :
    (clearBuffersF s sc).1.kid j = { s.kid j with buf := none } := by
  rw [clearBuffersF_fst, setCl_kid, clearBuffers_kid _ j (by simpa using hj)]
  rfl

theorem inv_clearBuffersF {s : St} (h : Inv s) (sc : SrcClose)
    (hd : ∀ j, j < s.kids.length → (s.kid j).pc = .done) : Inv (clearBuffersF s sc).1 := by
  rw [clearBuffersF_fst]
  exact inv_setCl ((inv_setCl h (canClose s sc)).clearBuffers_inv hd) _

theorem clearBuffersF_of_none (s : St) (sc : SrcClose)
    (h : ∀ j, j < s.kids.length → (s.kid j).buf = none) : clearBuffersF s sc = (s, false) := by
  have : s.kids.any (fun c => c.buf.isSome) = false := (any_some_iff s).2 h
  unfold clearBuffersF
  simp [this]

/-- bookkeeping of `iterator.aclose()` calls at the end of `Tee.aclose` -/
theorem clearBuffersF_acct (s : St) (sc : SrcClose) :
    ((clearBuffersF s sc).1.srcCloses = s.srcCloses ∨
      ((clearBuffersF s sc).1.srcCloses = s.srcCloses + 1 ∧ canClose s sc = true)) ∧
    (clearBuffersF s sc).2 =
      (decide (sc = .raises) && decide (s.srcCloses < (clearBuffersF s sc).1.srcCloses)) := by
  unfold clearBuffersF; simp only []
  split
  · split
    · rename_i h; exact ⟨Or.inr ⟨rfl, h⟩, by simp⟩
    · exact ⟨Or.inl rfl, by simp⟩
  · exact ⟨Or.inl rfl, by simp⟩

/-! ## `Tee.aclose()` -/

/-- the loop of `Tee.aclose()` over all children -/
abbrev loopF (s : St) (sc : SrcClose) : St × Out × Bool :=
  closeFromF s sc (List.range s.kids.length)

theorem closeAllF_of_busy (s : St) (sc : SrcClose) (hb : (loopF s sc).2.1 = .busy) :
    closeAllF s sc = loopF s sc := by
  unfold loopF at *
  unfold closeAllF; simp only []
  generalize closeFromF s sc (List.range s.kids.length) = r at hb
  obtain ⟨s', o, b⟩ := r
  simp only at hb
  subst hb
  rfl

theorem closeAllF_of_raised (s : St) (sc : SrcClose) (hr : (loopF s sc).2.2 = true) :
    closeAllF s sc = loopF s sc := by
  unfold loopF at *
  unfold closeAllF; simp only []
  generalize closeFromF s sc (List.range s.kids.length) = r at hr
  obtain ⟨s', o, b⟩ := r
  simp only at hr
  subst hr
  cases o <;> rfl

theorem closeAllF_of_done (s : St) (sc : SrcClose) (hb : (loopF s sc).2.1 ≠ .busy)
    (hr : (loopF s sc).2.2 = false) :
    closeAllF s sc = ((clearBuffersF (loopF s sc).1 sc).1,
      if (clearBuffersF (loopF s sc).1 sc).2 = true then Out.error else .closed,
      (clearBuffersF (loopF s sc).1 sc).2) := by
  have ho := (closeFromF_out s sc (List.range s.kids.length)).2 hr
  unfold loopF at *
  unfold closeAllF; simp only []
  generalize closeFromF s sc (List.range s.kids.length) = r at hb hr ho
  obtain ⟨s', o, b⟩ := r
  simp only at hr hb ho
  subst hr
  rcases ho with e | e
  · subst e; rfl
  · exact absurd e hb

theorem closeAllF_busy_iff (s : St) (sc : SrcClose) :
    (closeAllF s sc).2.1 = .busy ↔ (loopF s sc).2.1 = .busy := by
  by_cases hb : (loopF s sc).2.1 = .busy
  · rw [closeAllF_of_busy s sc hb]
  · cases hr : (loopF s sc).2.2 with
    | true => rw [closeAllF_of_raised s sc hr]
    | false =>
      rw [closeAllF_of_done s sc hb hr]
      simp only [hb, iff_false]
      split <;> simp

@[simp] theorem closeAllF_length (s : St) (sc : SrcClose) :
    (closeAllF s sc).1.kids.length = s.kids.length := by
  by_cases hb : (loopF s sc).2.1 = .busy
  · rw [closeAllF_of_busy s sc hb]; simp
  · cases hr : (loopF s sc).2.2 with
    | true => rw [closeAllF_of_raised s sc hr]; simp
    | false => rw [closeAllF_of_done s sc hb hr]; simp

theorem closeAllF_base (s : St) (sc : SrcClose) : base (closeAllF s sc).1 = base s := by
  by_cases hb : (loopF s sc).2.1 = .busy
  · rw [closeAllF_of_busy s sc hb]; exact closeFromF_base s sc _
  · cases hr : (loopF s sc).2.2 with
    | true => rw [closeAllF_of_raised s sc hr]; exact closeFromF_base s sc _
    | false =>
      rw [closeAllF_of_done s sc hb hr]
      exact (clearBuffersF_base _ sc).trans (closeFromF_base s sc _)

theorem inv_closeAllF {s : St} (h : Inv s) (sc : SrcClose) : Inv (closeAllF s sc).1 := by
  have h1 := inv_closeFromF h sc _ (range_lt s)
  by_cases hb : (loopF s sc).2.1 = .busy
  · rw [closeAllF_of_busy s sc hb]; exact h1
  · cases hr : (loopF s sc).2.2 with
    | true => rw [closeAllF_of_raised s sc hr]; exact h1
    | false =>
      rw [closeAllF_of_done s sc hb hr]
      refine inv_clearBuffersF h1 sc ?_
      intro j hj
      rw [closeFromF_length] at hj
      exact closeFromF_pc_done s sc _ (range_lt s) hb hr j (by simpa using hj)

/-- the answer is determined by the Bool, unless a busy child aborted the call -/
theorem closeAllF_out (s : St) (sc : SrcClose) (hb : (closeAllF s sc).2.1 ≠ .busy) :
    (closeAllF s sc).2.1 = if (closeAllF s sc).2.2 = true then .error else .closed := by
  have hb' : (loopF s sc).2.1 ≠ .busy := fun e => hb ((closeAllF_busy_iff s sc).2 e)
  cases hr : (loopF s sc).2.2 with
  | true =>
    rw [closeAllF_of_raised s sc hr, hr, if_pos rfl]
    exact (closeFromF_out s sc _).1 hr
  | false => rw [closeAllF_of_done s sc hb' hr]

theorem child_closed_eq (c c' : Child) (h : c' = c ∨ c' = closedChild c) (hd : c'.pc = .done) :
    { c' with buf := none } = { c with pc := .done, buf := none } := by
  rcases h with e | e
  · subst e
    cases c'; simp_all
  · subst e
    cases hp : c.pc <;> simp_all [closedChild]

/-- **Not busy ⇒ everything is closed and unregistered**, also when the source's `aclose()` raises:
    every child is as before except that it is closed and its buffer is no longer registered -/
theorem closeAllF_kid {s : St} (h : Inv s) (sc : SrcClose) (hb : (closeAllF s sc).2.1 ≠ .busy)
    (j : Nat) (hj : j < s.kids.length) :
    (closeAllF s sc).1.kid j = { s.kid j with pc := .done, buf := none } := by
  have hb' : (loopF s sc).2.1 ≠ .busy := fun e => hb ((closeAllF_busy_iff s sc).2 e)
  have hk := closeFromF_kid s sc _ (range_lt s) j
  have h1 := inv_closeFromF h sc _ (range_lt s)
  cases hr : (loopF s sc).2.2 with
  | true =>
    rw [closeAllF_of_raised s sc hr]
    have hnone := (closeFromF_raised s sc _ hr).2.2 j hj
    have hd := (h1.d.unreg j (by simpa using hj) hnone).2
    have := child_closed_eq _ _ hk hd
    rw [← this]
    show (loopF s sc).1.kid j = _
    cases hc : (loopF s sc).1.kid j with
    | mk pc buf out task =>
      have : ((loopF s sc).1.kid j).buf = none := hnone
      rw [hc] at this; simp at this; subst this; rfl
  | false =>
    rw [closeAllF_of_done s sc hb' hr]
    simp only []
    rw [clearBuffersF_kid _ sc j (by simpa using hj)]
    exact child_closed_eq _ _ hk
      (closeFromF_pc_done s sc _ (range_lt s) hb' hr j (by simpa using hj))

/-- bookkeeping of `iterator.aclose()` calls of one `Tee.aclose()`: the count never decreases, and
    the source's error is raised iff a call was made and the source's `aclose()` raises -/
theorem closeAllF_acct (s : St) (sc : SrcClose) :
    s.srcCloses ≤ (closeAllF s sc).1.srcCloses ∧
    (closeAllF s sc).2.2 =
      (decide (sc = .raises) && decide (s.srcCloses < (closeAllF s sc).1.srcCloses)) := by
  have ha : s.srcCloses ≤ (loopF s sc).1.srcCloses ∧ (loopF s sc).2.2 =
      (decide (sc = .raises) && decide (s.srcCloses < (loopF s sc).1.srcCloses)) :=
    closeFromF_acct s sc (List.range s.kids.length)
  by_cases hb : (loopF s sc).2.1 = .busy
  · rw [closeAllF_of_busy s sc hb]; exact ha
  · cases hr : (loopF s sc).2.2 with
    | true => rw [closeAllF_of_raised s sc hr]; exact ha
    | false =>
      rw [closeAllF_of_done s sc hb hr]
      simp only []
      have hc := clearBuffersF_acct (loopF s sc).1 sc
      have hmono : (loopF s sc).1.srcCloses ≤ (clearBuffersF (loopF s sc).1 sc).1.srcCloses := by
        rcases hc.1 with e | e <;> omega
      refine ⟨Nat.le_trans ha.1 hmono, ?_⟩
      rw [hc.2]
      have h2 := ha.2
      rw [hr] at h2
      cases hd : decide (sc = .raises) with
      | false => simp
      | true =>
        rw [hd] at h2
        simp only [Bool.true_and, Bool.false_eq, decide_eq_false_iff_not] at h2
        have h3 : s.srcCloses ≤ (loopF s sc).1.srcCloses := ha.1
        have : (loopF s sc).1.srcCloses = s.srcCloses := by omega
        rw [this]

/-- a source that cannot be closed is not closed -/
theorem closeAllF_cannot (s : St) (sc : SrcClose) (hc : canClose s sc = false) :
    (closeAllF s sc).1.srcCloses = s.srcCloses := by
  have ha := closeFromF_cannot s sc (List.range s.kids.length) hc
  by_cases hb : (loopF s sc).2.1 = .busy
  · rw [closeAllF_of_busy s sc hb]; exact ha
  · cases hr : (loopF s sc).2.2 with
    | true => rw [closeAllF_of_raised s sc hr]; exact ha
    | false =>
      rw [closeAllF_of_done s sc hb hr]
      simp only []
      rcases (clearBuffersF_acct (loopF s sc).1 sc).1 with e | e
      · rw [e]; exact ha
      · rw [canClose_of_base (closeFromF_base s sc _), hc] at e; simp at e

/-! ### a source that can be closed is closed exactly once -/

theorem setCl_eq_self {s : St} {b : Bool} (h : s.closeable = b) : setCl s b = s := by
  subst h; rfl

theorem canClose_closeable {s : St} {sc : SrcClose} (h : canClose s sc = true) : s.closeable = true := by
  simp only [canClose, Bool.and_eq_true] at h; exact h.1

theorem closeKid_closeable (s : St) (i : Nat) : (closeKid s i).1.closeable = s.closeable := by
  have := cfg_closeKid s i
  simp only [St.cfg, Prod.mk.injEq] at this
  exact this.2.2

theorem closeKidF_eq_closeKid (s : St) (i : Nat) (sc : SrcClose) (hc : canClose s sc = true) :
    (closeKidF s i sc).1 = (closeKid s i).1 := by
  have hcl := canClose_closeable hc
  rw [closeKidF_fst, hc, setCl_eq_self hcl, setCl_eq_self (closeKid_closeable s i)]

theorem clearBuffersF_eq_clearBuffers (s : St) (sc : SrcClose) (hc : canClose s sc = true) :
    (clearBuffersF s sc).1 = clearBuffers s := by
  have hcl := canClose_closeable hc
  rw [clearBuffersF_fst, hc, setCl_eq_self hcl, setCl_eq_self (clearBuffers_closeable s)]

theorem good_closeFromF {s : St} {sc : SrcClose} (hc : canClose s sc = true) (h : Inv s) (ho : Once s)
    (hcl : ClosedLast s) (l : List Nat) (hl : ∀ i ∈ l, i < s.kids.length) :
    Once (closeFromF s sc l).1 ∧ ClosedLast (closeFromF s sc l).1 := by
  induction l generalizing s with
  | nil => exact ⟨ho, hcl⟩
  | cons i rest ih =>
    have hi := hl i (by simp)
    have e1 := closeKidF_eq_closeKid s i sc hc
    have ho1 : Once (closeKidF s i sc).1 := by rw [e1]; exact once_closeKid h ho i hi
    have hcl1 : ClosedLast (closeKidF s i sc).1 := by rw [e1]; exact hcl.closeKid_ok i hi
    rcases closeFromF_cases s sc i rest with ⟨_, e⟩ | ⟨_, _, e⟩ | ⟨_, _, e⟩ <;> rw [e]
    · exact ⟨ho, hcl⟩
    · exact ⟨ho1, hcl1⟩
    · exact ih (by rw [canClose_of_base (closeKidF_base s i sc)]; exact hc)
        (inv_closeKidF h i hi sc) ho1 hcl1
        (by intro k hk; rw [closeKidF_length]; exact hl k (by simp [hk]))

theorem good_closeAllF {s : St} {sc : SrcClose} (hc : canClose s sc = true) (h : Inv s) (ho : Once s)
    (hcl : ClosedLast s) : Once (closeAllF s sc).1 ∧ ClosedLast (closeAllF s sc).1 := by
  have hg := good_closeFromF hc h ho hcl _ (range_lt s)
  by_cases hb : (loopF s sc).2.1 = .busy
  · rw [closeAllF_of_busy s sc hb]; exact hg
  · cases hr : (loopF s sc).2.2 with
    | true => rw [closeAllF_of_raised s sc hr]; exact hg
    | false =>
      rw [closeAllF_of_done s sc hb hr]
      simp only []
      rw [clearBuffersF_eq_clearBuffers _ sc
        (by rw [canClose_of_base (closeFromF_base s sc _)]; exact hc)]
      exact ⟨once_clearBuffers (inv_closeFromF h sc _ (range_lt s)) hg.1, hg.2.clearBuffers_ok⟩

/-- **The source is closed exactly once.** If the source can be closed and the tee has a child,
    then after a `Tee.aclose()` that no busy child aborted `iterator.aclose()` has been called
    exactly once — by this call or before it -/
theorem closeAllF_closes_once {s : St} {sc : SrcClose} (hc : canClose s sc = true) (h : Inv s)
    (ho : Once s) (hcl : ClosedLast s) (hb : (closeAllF s sc).2.1 ≠ .busy) (hn : 0 < s.kids.length) :
    (closeAllF s sc).1.srcCloses = 1 := by
  have hg := good_closeAllF hc h ho hcl
  have hcl' : (closeAllF s sc).1.closeable = true := by
    have h2 : (base (closeAllF s sc).1).closeable = (base s).closeable :=
      congrArg St.closeable (closeAllF_base s sc)
    exact h2.trans (canClose_closeable hc)
  have hpos := hg.2 hcl' (by rw [closeAllF_length]; exact hn) (by
    intro j hj
    rw [closeAllF_length] at hj
    rw [closeAllF_kid h sc hb j hj])
  have := hg.1
  unfold Once at this
  omega

/-! ### the busy case, and a second `Tee.aclose()` -/

/-- **The busy case of `Tee.aclose()`.** -/
theorem closeAllF_busy {s : St} (h : Inv s) (sc : SrcClose) (hb : (closeAllF s sc).2.1 = .busy) :
    ∃ k, k < s.kids.length ∧ isBusy (s.kid k).pc = true ∧
      (∀ j, j < k → isBusy (s.kid j).pc = false ∧ (closeAllF s sc).1.kid j = closedChild (s.kid j)) ∧
      (∀ j, k ≤ j → (closeAllF s sc).1.kid j = s.kid j) ∧
      (closeAllF s sc).2.2 = false ∧ (closeAllF s sc).1.srcCloses = s.srcCloses := by
  have hb' := (closeAllF_busy_iff s sc).1 hb
  rw [closeAllF_of_busy s sc hb']
  unfold loopF at hb' ⊢
  rw [List.range_eq_range'] at hb' ⊢
  obtain ⟨k, _, hk2, hk3, hk4, hk5, hk6, hk7⟩ :=
    closeFromF_busy_range' sc s.kids.length 0 s h (by omega) hb'
  exact ⟨k, by omega, hk3, fun j hj => hk4 j (Nat.zero_le _) hj, fun j hj => hk5 j (Or.inr hj), hk6, hk7⟩

/-- **A second `Tee.aclose()` changes nothing**: if the first one was aborted by a busy child, so is
    the second (that child is still busy); otherwise the second returns normally — whatever the
    source's `aclose()` would do now, it is not called again -/
theorem closeAllF_idem {s : St} (h : Inv s) (sc sc2 : SrcClose) :
    closeAllF (closeAllF s sc).1 sc2 =
      ((closeAllF s sc).1, if (closeAllF s sc).2.1 = .busy then .busy else .closed, false) := by
  by_cases hb : (closeAllF s sc).2.1 = .busy
  · obtain ⟨k, hk1, hk2, hk3, hk4, _, _⟩ := closeAllF_busy h sc hb
    have hloop : loopF (closeAllF s sc).1 sc2 = ((closeAllF s sc).1, .busy, false) := by
      unfold loopF
      rw [List.range_eq_range']
      refine closeFromF_stops sc2 _ k (by rw [hk4 k (Nat.le_refl _)]; exact hk2) _ 0 (Nat.zero_le _)
        (by rw [closeAllF_length]; omega) ?_
      intro j _ hj
      rw [(hk3 j hj).2]
      exact closedChild_pc _ (hk3 j hj).1
    rw [closeAllF_of_busy _ sc2 (by rw [hloop]), hloop, if_pos hb]
  · have hdone : ∀ j, j < (closeAllF s sc).1.kids.length →
        ((closeAllF s sc).1.kid j).pc = .done ∧ ((closeAllF s sc).1.kid j).buf = none := by
      intro j hj
      rw [closeAllF_length] at hj
      rw [closeAllF_kid h sc hb j hj]
      exact ⟨rfl, rfl⟩
    have hloop : loopF (closeAllF s sc).1 sc2 = ((closeAllF s sc).1, .closed, false) := by
      unfold loopF
      exact closeFromF_of_done _ sc2 _ (fun i hi => (hdone i (by simpa using hi)).1)
    rw [closeAllF_of_done _ sc2 (by rw [hloop]; simp) (by rw [hloop]), hloop]
    simp only []
    rw [clearBuffersF_of_none _ sc2 (fun j hj => (hdone j hj).2), if_neg hb]
    simp

/-! ## `retained` -/

theorem sum_bufLen_le : ∀ (l1 l2 : List Child), l1.length = l2.length →
    (∀ j, j < l1.length → bufLen (l1.getD j {}) ≤ bufLen (l2.getD j {})) →
    (l1.map bufLen).sum ≤ (l2.map bufLen).sum
  | [], [], _, _ => by simp
  | a :: l1, b :: l2, hl, h => by
    have h0 := h 0 (by simp)
    simp only [List.getD_cons_zero] at h0
    have := sum_bufLen_le l1 l2 (by simpa using hl) (fun j hj => by
      have := h (j + 1) (by simp; omega)
      simpa using this)
    simp only [List.map_cons, List.sum_cons]
    omega
  | [], _ :: _, hl, _ => by simp at hl
  | _ :: _, [], hl, _ => by simp at hl

/-- if no child holds more than before, the tee does not retain more than before -/
theorem retained_le {s s' : St} (hl : s'.kids.length = s.kids.length)
    (h : ∀ j, j < s.kids.length → bufLen (s'.kid j) ≤ bufLen (s.kid j)) : retained s' ≤ retained s :=
  sum_bufLen_le s'.kids s.kids hl (fun j hj => h j (by rw [← hl]; exact hj))

theorem sum_bufLen_zero (l : List Child) (h : ∀ c ∈ l, c.buf = none) : (l.map bufLen).sum = 0 := by
  induction l with
  | nil => rfl
  | cons c r ih =>
    have hc := h c (by simp)
    simp only [List.map_cons, List.sum_cons, ih (fun d hd => h d (by simp [hd]))]
    simp [bufLen, hc]

/-- no registered buffer, nothing retained -/
theorem retained_zero {s : St} (h : ∀ j, j < s.kids.length → (s.kid j).buf = none) : retained s = 0 := by
  apply sum_bufLen_zero
  have := (all_none_iff s).2 h
  simp only [List.all_eq_true, Option.isNone_iff_eq_none] at this
  exact this

/-- what a registered buffer holds is what has been fetched and not yet yielded by its child -/
theorem retained_eq_lag {s : St}
    (h : ∀ j, j < s.kids.length → ∀ b, (s.kid j).buf = some b → (s.kid j).out ++ b = s.fetched) :
    retained s = lag s := by
  unfold retained lag
  congr 1
  apply List.map_congr_left
  intro c hc
  obtain ⟨j, hj, rfl⟩ := List.getElem_of_mem hc
  rw [← kid_eq_getElem s j hj]
  cases hb : (s.kid j).buf with
  | none => simp [bufLen, hb]
  | some b =>
    have := h j hj b hb
    have hlen : (s.kid j).out.length + b.length = s.fetched.length := by
      rw [← this]; simp
    simp only [bufLen, hb, Option.isSome_some, if_true]
    rw [← hlen, Nat.add_sub_cancel_left]

/-! ## Further facts used by the property theorems -/

/-- any state, reachable or not: a `Tee.aclose()` that no busy child aborted leaves no buffer registered -/
theorem closeAllF_buf_none (s : St) (sc : SrcClose) (hb : (closeAllF s sc).2.1 ≠ .busy)
    (j : Nat) (hj : j < s.kids.length) : ((closeAllF s sc).1.kid j).buf = none := by
  have hb' : (loopF s sc).2.1 ≠ .busy := fun e => hb ((closeAllF_busy_iff s sc).2 e)
  cases hr : (loopF s sc).2.2 with
  | true =>
    rw [closeAllF_of_raised s sc hr]
    exact (closeFromF_raised s sc _ hr).2.2 j hj
  | false =>
    rw [closeAllF_of_done s sc hb' hr]
    simp only []
    rw [clearBuffersF_kid _ sc j (by simpa using hj)]

/-- a tee without children: `Tee.aclose()` does nothing at all -/
theorem closeAllF_no_kids (s : St) (sc : SrcClose) (h : s.kids.length = 0) :
    closeAllF s sc = (s, .closed, false) := by
  have hk : s.kids = [] := List.length_eq_zero_iff.1 h
  simp [closeAllF, closeFromF, clearBuffersF, hk]

/-! ### with a source whose `aclose()` does not raise, `closeAllF` is `closeAll` of `Machines/Tee.lean` -/

theorem finishKidF_eq (s : St) (i : Nat) (t : Task) (sc : SrcClose)
    (hc : canClose s sc = s.closeable) (hr : sc ≠ .raises) :
    finishKidF s i t sc = (finishKid s i t, false) := by
  apply Prod.ext
  · rw [finishKidF_fst, hc, setCl_self, setCl_eq_self (finishKid_closeable s i t)]
  · rw [finishKidF_snd]; simp [hr]

theorem closeKidF_eq (s : St) (i : Nat) (sc : SrcClose)
    (hc : canClose s sc = s.closeable) (hr : sc ≠ .raises) :
    closeKidF s i sc = ((closeKid s i).1, (closeKid s i).2, false) := by
  cases hp : (s.kid i).pc <;> simp [closeKidF, closeKid, hp, finishKidF_eq s i _ sc hc hr]

theorem closeFromF_eq (s : St) (sc : SrcClose) (l : List Nat)
    (hc : canClose s sc = s.closeable) (hr : sc ≠ .raises) :
    closeFromF s sc l = ((closeFrom s l).1, (closeFrom s l).2, false) := by
  induction l generalizing s with
  | nil => rfl
  | cons i rest ih =>
    rw [closeFromF_cons, Tee.closeFrom_cons, closeKidF_eq s i sc hc hr]
    simp only [Bool.false_eq_true, if_false]
    split
    · rfl
    · exact ih _ (by
        have h1 : canClose (closeKid s i).1 sc = canClose s sc := by
          simp [canClose, closeKid_closeable]
        rw [h1, hc, closeKid_closeable])

theorem clearBuffersF_eq (s : St) (sc : SrcClose)
    (hc : canClose s sc = s.closeable) (hr : sc ≠ .raises) :
    clearBuffersF s sc = (clearBuffers s, false) := by
  apply Prod.ext
  · rw [clearBuffersF_fst, hc, setCl_self, setCl_eq_self (clearBuffers_closeable s)]
  · rw [(clearBuffersF_acct s sc).2]; simp [hr]

theorem closeFrom_closeable (s : St) (l : List Nat) : (closeFrom s l).1.closeable = s.closeable := by
  have := cfg_closeFrom s l
  simp only [St.cfg, Prod.mk.injEq] at this
  exact this.2.2

theorem closeAllF_eq (s : St) (sc : SrcClose)
    (hc : canClose s sc = s.closeable) (hr : sc ≠ .raises) :
    closeAllF s sc = ((closeAll s).1, (closeAll s).2, false) := by
  have hl : loopF s sc = ((closeFrom s (List.range s.kids.length)).1,
      (closeFrom s (List.range s.kids.length)).2, false) := closeFromF_eq s sc _ hc hr
  by_cases hb : (closeFrom s (List.range s.kids.length)).2 = .busy
  · rw [closeAllF_of_busy s sc (by rw [hl]; exact hb), hl, closeAll_busy s hb]
  · rw [closeAllF_of_done s sc (by rw [hl]; exact hb) (by rw [hl]), hl, closeAll_not_busy s hb]
    simp only []
    rw [clearBuffersF_eq _ sc (by
      have h1 : canClose (closeFrom s (List.range s.kids.length)).1 sc = canClose s sc := by
        simp [canClose, closeFrom_closeable]
      rw [h1, hc, closeFrom_closeable]) hr]
    simp only [Bool.false_eq_true, if_false]
    rcases closeFrom_out s (List.range s.kids.length) with e | e
    · rw [e]
    · exact absurd e hb

end AsyncVerif.TeeClose
