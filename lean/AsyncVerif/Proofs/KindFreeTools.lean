import AsyncVerif.Proofs.KindFree
/-! `KindFree` for every loop of the tool models (mechanical: closure lemmas + induction on fuel). -/
namespace AsyncVerif

syntax "kfree" ("[" term,* "]")? : tactic
macro_rules
  | `(tactic| kfree) => `(tactic| kfree [])
  | `(tactic| kfree [$hs,*]) => `(tactic| repeat' (with_reducible first
      | assumption
      | exact kf_pure _ | exact kf_pull _ | exact kf_call _ _ | exact kf_yieldV _
      | exact kf_anext _ | exact kf_test _ _ | exact kf_closeSrc _ | exact kf_closeAll _
      | exact kf_raise _
      | (first $[| apply $hs]*)
      | (dsimp -proj only)
      | apply kf_bind | apply kf_scopedIter | apply kf_tryCatchStop
      | apply kf_forEach
      | intro _ | split))

theorem kf_asArgs (x : Val) : KindFree (liftExc x.asArgs) := kf_liftExc _

theorem kf_add (a b : Val) : KindFree (liftExc (a.add b)) := kf_liftExc _

namespace Std

theorem kf_filterLoop (fn : Option Nat) (neg : Bool) (s fuel : Nat) : KindFree (filterLoop fn neg s fuel) := by
  unfold filterLoop; kfree

theorem kf_enumerateLoop (s : Nat) (fuel : Nat) : ∀ (c : Int), KindFree (enumerateLoop s c fuel) := by
  induction fuel with
  | zero => intro c; unfold enumerateLoop; kfree
  | succ fuel ih => intro c; unfold enumerateLoop; kfree [ih]

theorem kf_takewhileLoop (f s fuel : Nat) : KindFree (takewhileLoop f s fuel) := by
  unfold takewhileLoop; kfree

theorem kf_dropwhileLoop (f s : Nat) (fuel : Nat) : ∀ (b : Bool), KindFree (dropwhileLoop f s b fuel) := by
  induction fuel with
  | zero => intro b; unfold dropwhileLoop; kfree
  | succ fuel ih => intro b; unfold dropwhileLoop; kfree [ih]

theorem kf_starmapLoop (f s fuel : Nat) : KindFree (starmapLoop f s fuel) := by
  unfold starmapLoop
  apply kf_forEach
  intro x
  kfree [kf_asArgs x]

theorem kf_accStep (fn : Option Nat) (t x : Val) : KindFree (accStep fn t x) := by
  unfold accStep
  cases fn with
  | none => exact kf_add t x
  | some f => exact kf_call f _

theorem kf_accLoop (fn : Option Nat) (s : Nat) (fuel : Nat) : ∀ (t : Val), KindFree (accLoop fn s t fuel) := by
  have h2 := kf_accStep fn
  induction fuel with
  | zero => intro t; unfold accLoop; kfree
  | succ fuel ih => intro t; unfold accLoop; kfree [ih, h2]

theorem kf_accumulate (fn : Option Nat) (ini : Option Val) (s fuel : Nat) : KindFree (accumulate fn ini s fuel) := by
  unfold accumulate
  kfree [kf_accLoop fn s fuel]

theorem kf_collect (s : Nat) (n : Nat) : ∀ (acc : List Val), KindFree (collect s n acc) := by
  induction n with
  | zero => intro acc; unfold collect; kfree
  | succ n ih => intro acc; unfold collect; kfree [ih]

theorem kf_batchedLoop (n : Nat) (strict : Bool) (s : Nat) (fuel : Nat) : KindFree (batchedLoop n strict s fuel) := by
  have h2 := kf_collect s n
  induction fuel with
  | zero => unfold batchedLoop; kfree
  | succ fuel ih => unfold batchedLoop; kfree [ih, h2]

theorem kf_batched (n : Nat) (strict : Bool) (s : Nat) (fuel : Nat) : KindFree (batched n strict s fuel) := by
  unfold batched
  kfree [kf_batchedLoop n strict s fuel]

theorem kf_pairwiseLoop (s : Nat) (fuel : Nat) : ∀ (old : Val), KindFree (pairwiseLoop s old fuel) := by
  induction fuel with
  | zero => intro old; unfold pairwiseLoop; kfree
  | succ fuel ih => intro old; unfold pairwiseLoop; kfree [ih]

theorem kf_pairwise (s fuel : Nat) : KindFree (pairwise s fuel) := by
  unfold pairwise
  kfree [kf_pairwiseLoop s fuel]

theorem kf_zipRow (l : List Nat) : ∀ (acc : List Val), KindFree (zipRow l acc) := by
  induction l with
  | nil => intro acc; unfold zipRow; kfree
  | cons s rest ih => intro acc; unfold zipRow; kfree [ih]

theorem kf_zipLoop (srcs : List Nat) (k : List Val → M Unit) (hk : ∀ row, KindFree (k row)) (fuel : Nat) :
    KindFree (zipLoop srcs k fuel) := by
  have h2 := kf_zipRow srcs
  induction fuel with
  | zero => unfold zipLoop; kfree
  | succ fuel ih => unfold zipLoop; kfree [ih, h2, hk]

theorem kf_zipRowStrict (l : List Nat) : ∀ (i : Nat) (acc : List Val), KindFree (zipRowStrict l i acc) := by
  induction l with
  | nil => intro i acc; unfold zipRowStrict; kfree
  | cons s rest ih => intro i acc; unfold zipRowStrict; kfree [ih]

theorem kf_checkRestEmpty (l : List Nat) : KindFree (checkRestEmpty l) := by
  induction l with
  | nil => unfold checkRestEmpty; kfree
  | cons s rest ih => unfold checkRestEmpty; kfree [ih]

theorem kf_zipStrictLoop (srcs : List Nat) (fuel : Nat) : KindFree (zipStrictLoop srcs fuel) := by
  have h2 := kf_zipRowStrict srcs
  have h3 := kf_checkRestEmpty srcs.tail
  induction fuel with
  | zero => unfold zipStrictLoop; kfree
  | succ fuel ih => unfold zipStrictLoop; kfree [ih, h2, h3]

theorem kf_longestRow (fillv : Val) (l : List (Nat × Bool)) :
    ∀ (acc : List Val) (done : List (Nat × Bool)) (na : Nat), KindFree (longestRow fillv l acc done na) := by
  induction l with
  | nil => intro acc done na; unfold longestRow; kfree
  | cons p rest ih =>
    intro acc done na
    obtain ⟨s, b⟩ := p
    cases b
    · unfold longestRow; exact ih _ _ _
    · unfold longestRow; kfree [ih]

theorem kf_zipLongestLoop (fillv : Val) (fuel : Nat) : ∀ (st : List (Nat × Bool)) (na : Nat),
    KindFree (zipLongestLoop fillv st na fuel) := by
  have h2 := kf_longestRow fillv
  induction fuel with
  | zero => intro st na; unfold zipLongestLoop; kfree
  | succ fuel ih => intro st na; unfold zipLongestLoop; kfree [ih, h2]

theorem kf_iterSentinel (f : Nat) (sv : Val) (fuel : Nat) : KindFree (iterSentinel f sv fuel) := by
  induction fuel with
  | zero => unfold iterSentinel; kfree
  | succ fuel ih => unfold iterSentinel; kfree [ih]

theorem kf_allLoop (s : Nat) (fuel : Nat) : KindFree (allLoop s fuel) := by
  induction fuel with
  | zero => unfold allLoop; kfree
  | succ fuel ih => unfold allLoop; kfree [ih]

theorem kf_anyLoop (s : Nat) (fuel : Nat) : KindFree (anyLoop s fuel) := by
  induction fuel with
  | zero => unfold anyLoop; kfree
  | succ fuel ih => unfold anyLoop; kfree [ih]

theorem kf_skipTo (s : Nat) (k : Nat) : ∀ (cnt : Nat), KindFree (skipTo s k cnt) := by
  induction k with
  | zero => intro cnt; unfold skipTo; kfree
  | succ k ih => intro cnt; unfold skipTo; kfree [ih]

theorem kf_cycleFirst (s : Nat) (fuel : Nat) : ∀ (buf : List Val), KindFree (cycleFirst s buf fuel) := by
  induction fuel with
  | zero => intro buf; unfold cycleFirst; kfree
  | succ fuel ih => intro buf; unfold cycleFirst; kfree [ih]

theorem kf_replay (buffer : List Val) (fuel : Nat) : ∀ (l : List Val), KindFree (replay buffer l fuel) := by
  induction fuel with
  | zero => intro l; unfold replay; kfree
  | succ fuel ih =>
    intro l
    cases l with
    | nil => unfold replay; kfree [ih]
    | cons x rest => unfold replay; kfree [ih]

end Std

namespace Impl

theorem kf_dropPhase (f s : Nat) (fuel : Nat) : KindFree (dropPhase f s fuel) := by
  induction fuel with
  | zero => unfold dropPhase; kfree
  | succ fuel ih => unfold dropPhase; kfree [ih]

theorem kf_idxLoop (s step : Nat) (lim : Option Nat) (fuel : Nat) : ∀ (idx : Nat), KindFree (idxLoop s step lim idx fuel) := by
  induction fuel with
  | zero => intro idx; unfold idxLoop; kfree
  | succ fuel ih => intro idx; unfold idxLoop; kfree [ih]

theorem kf_chainIter (l : List Nat) (fuel : Nat) : KindFree (chainIter l fuel) := by
  induction l with
  | nil => unfold chainIter; kfree
  | cons s rest ih => unfold chainIter; kfree [ih]

end Impl

end AsyncVerif
