import AsyncVerif.Proofs.Lru
/-! Helper lemmas for C11: invariants of the machine with overlapping calls, the task layer. -/
namespace AsyncVerif.Lru

/-- invariant of the cache with calls in flight, together with the ghost bookkeeping -/
structure CInv (cfg : Cfg) (x : CSt × Ghost) : Prop where
  inv : Inv cfg x.1.core
  total : x.1.core.hits + x.1.core.misses = x.2.calls
  missed : x.1.core.misses = x.2.invoked
  produced : ∀ e ∈ x.1.core.store, e ∈ x.2.produced

theorem CInv.init (cfg : Cfg) : CInv cfg (CSt.init, Ghost.init) :=
  ⟨Inv.init cfg, rfl, rfl, by intro e he; simp [CSt.init, St.init] at he⟩

/-- `begin` changes counters by exactly one and keeps the set of entries -/
theorem begin_counts (cfg : Cfg) (s : St) (p : Pattern) :
    ((Impl.begin cfg s p).2.isSome → (Impl.begin cfg s p).1.hits = s.hits + 1 ∧ (Impl.begin cfg s p).1.misses = s.misses) ∧
    ((Impl.begin cfg s p).2 = none → (Impl.begin cfg s p).1.hits = s.hits ∧ (Impl.begin cfg s p).1.misses = s.misses + 1) := by
  obtain ⟨var, typed⟩ := cfg
  unfold Impl.begin
  cases var with
  | uncached => simp
  | memo => simp only; cases find (Impl.eqv typed) p s.store <;> simp
  | bounded n => simp only; cases find (Impl.eqv typed) p s.store <;> simp

theorem begin_store_subset (cfg : Cfg) (s : St) (p : Pattern) :
    ∀ e ∈ (Impl.begin cfg s p).1.store, e ∈ s.store := by
  obtain ⟨var, typed⟩ := cfg
  unfold Impl.begin
  cases var with
  | uncached => simp
  | memo => simp only; cases find (Impl.eqv typed) p s.store <;> simp
  | bounded n =>
    simp only
    cases hf : find (Impl.eqv typed) p s.store with
    | none => simp
    | some e0 =>
      intro e he
      simp only [List.mem_append, List.mem_singleton] at he
      rcases he with he | he
      · exact mem_erase_of_mem he
      · rw [he]; exact (find_mem hf).1

/-- a hit returns a stored value of an entry with an equal key -/
theorem begin_hit (cfg : Cfg) (s : St) (p : Pattern) (v : Nat) (h : (Impl.begin cfg s p).2 = some v) :
    ∃ q, (q, v) ∈ s.store ∧ Impl.eqv cfg.typed q p = true := by
  obtain ⟨var, typed⟩ := cfg
  unfold Impl.begin at h
  cases var with
  | uncached => simp at h
  | memo =>
    simp only at h
    cases hf : find (Impl.eqv typed) p s.store with
    | none => simp [hf] at h
    | some e =>
      simp only [hf, Option.some.injEq] at h
      subst h
      exact ⟨e.1, (find_mem hf).1, (find_mem hf).2⟩
  | bounded n =>
    simp only at h
    cases hf : find (Impl.eqv typed) p s.store with
    | none => simp [hf] at h
    | some e =>
      simp only [hf, Option.some.injEq] at h
      subst h
      exact ⟨e.1, (find_mem hf).1, (find_mem hf).2⟩

theorem resume_counts (cfg : Cfg) (s : St) (p : Pattern) (v : Nat) :
    (Impl.resume cfg s p v).hits = s.hits ∧ (Impl.resume cfg s p v).misses = s.misses := by
  obtain ⟨var, typed⟩ := cfg
  unfold Impl.resume
  cases var with
  | uncached => simp
  | memo => simp only; split <;> simp
  | bounded n =>
    simp only
    split
    · simp
    · split <;> simp

theorem resume_store_subset (cfg : Cfg) (s : St) (p : Pattern) (v : Nat) :
    ∀ e ∈ (Impl.resume cfg s p v).store, e ∈ s.store ∨ e = (p, v) := by
  obtain ⟨var, typed⟩ := cfg
  unfold Impl.resume
  cases var with
  | uncached => intro e he; exact Or.inl he
  | memo =>
    simp only
    split
    · intro e he; exact Or.inl he
    · intro e he; simpa using he
  | bounded n =>
    simp only
    split
    · intro e he; exact Or.inl he
    · split
      · intro e he
        simp only [List.mem_append, List.mem_singleton] at he
        rcases he with he | he
        · exact Or.inl (List.mem_of_mem_drop he)
        · exact Or.inr he
      · intro e he; simpa using he

theorem clear_counts (cfg : Cfg) (s : St) (hwf : Wf cfg s) :
    (Impl.clear cfg s).hits = 0 ∧ (Impl.clear cfg s).misses = 0 ∧ (Impl.clear cfg s).store = [] := by
  obtain ⟨var, typed⟩ := cfg
  unfold Impl.clear
  cases var with
  | uncached => have := hwf rfl; simp [this.1, this.2]
  | memo => simp
  | bounded n => simp

theorem discard_counts (cfg : Cfg) (s : St) (p : Pattern) :
    (Impl.discard cfg s p).hits = s.hits ∧ (Impl.discard cfg s p).misses = s.misses ∧
    ∀ e ∈ (Impl.discard cfg s p).store, e ∈ s.store := by
  obtain ⟨var, typed⟩ := cfg
  unfold Impl.discard
  cases var with
  | uncached => simp
  | memo => exact ⟨rfl, rfl, fun e he => mem_erase_of_mem he⟩
  | bounded n => exact ⟨rfl, rfl, fun e he => mem_erase_of_mem he⟩

theorem gstep_inv (cfg : Cfg) (hok : cfg.ok) (x : CSt × Ghost) (h : CInv cfg x) (op : COp) :
    CInv cfg (gstep cfg x op).1 := by
  obtain ⟨s, g⟩ := x
  cases op with
  | «begin» c p =>
    simp only [gstep, cstep]
    by_cases hl : (lookupCall c s.inflight).isSome = true
    · simp only [hl, if_true, gupd]; exact h
    · simp only [hl, Bool.false_eq_true, if_false]
      have hc := begin_counts cfg s.core p
      have hs := begin_store_subset cfg s.core p
      have hi := begin_inv cfg s.core h.inv p
      rcases hb : Impl.begin cfg s.core p with ⟨s1, o⟩
      rw [hb] at hc hs hi
      cases o with
      | some v =>
        have := hc.1 rfl
        simp only [gupd]
        refine ⟨hi, ?_, ?_, ?_⟩
        · simp only; rw [this.1, this.2]; have := h.total; simp only at this; omega
        · simp only; rw [this.2]; exact h.missed
        · intro e he; exact h.produced e (hs e he)
      | none =>
        have := hc.2 rfl
        simp only [gupd]
        refine ⟨hi, ?_, ?_, ?_⟩
        · simp only; rw [this.1, this.2]; have := h.total; simp only at this; omega
        · simp only; rw [this.2]; have := h.missed; simp only at this; omega
        · intro e he; exact h.produced e (hs e he)
  | finish c r =>
    simp only [gstep, cstep]
    cases hl : lookupCall c s.inflight with
    | none => simp only [gupd]; cases r <;> exact h
    | some p =>
      cases r with
      | ok v =>
        simp only [gupd, hl]
        have hc := resume_counts cfg s.core p v
        have hs := resume_store_subset cfg s.core p v
        refine ⟨resume_inv cfg hok s.core h.inv p v, ?_, ?_, ?_⟩
        · simp only; rw [hc.1, hc.2]; exact h.total
        · simp only; rw [hc.2]; exact h.missed
        · intro e he
          simp only [List.mem_append, List.mem_singleton]
          rcases hs e he with h1 | h1
          · exact Or.inl (h.produced e h1)
          · exact Or.inr h1
      | fail e => simp only [gupd]; exact ⟨h.inv, h.total, h.missed, h.produced⟩
      | cancel => simp only [gupd]; exact ⟨h.inv, h.total, h.missed, h.produced⟩
  | clear =>
    simp only [gstep, cstep, gupd]
    have hc := clear_counts cfg s.core h.inv.wf
    refine ⟨clear_inv cfg s.core h.inv, ?_, ?_, ?_⟩
    · simp only; rw [hc.1, hc.2.1]
    · simp only; rw [hc.2.1]
    · intro e he; simp only at he; rw [hc.2.2] at he; simp at he
  | discard p =>
    simp only [gstep, cstep, gupd]
    have hc := discard_counts cfg s.core p
    refine ⟨discard_inv cfg s.core h.inv p, ?_, ?_, ?_⟩
    · simp only; rw [hc.1, hc.2.1]; exact h.total
    · simp only; rw [hc.2.1]; exact h.missed
    · intro e he; exact h.produced e (hc.2.2 e he)
  | info => simp only [gstep, cstep, gupd]; exact h

theorem grun_inv (cfg : Cfg) (hok : cfg.ok) : ∀ (ops : List COp) (x : CSt × Ghost), CInv cfg x →
    CInv cfg (grun cfg x ops) := by
  intro ops
  induction ops with
  | nil => intro x h; exact h
  | cons op rest ih => intro x h; exact ih _ (gstep_inv cfg hok x h op)

/-- the ghost does not influence the machine -/
theorem grun_fst (cfg : Cfg) : ∀ (ops : List COp) (x : CSt × Ghost), (grun cfg x ops).1 = crun cfg x.1 ops := by
  intro ops
  induction ops with
  | nil => intro x; rfl
  | cons op rest ih => intro x; simp only [grun, crun]; rw [ih]; rfl

theorem crun_append (cfg : Cfg) : ∀ (a b : List COp) (s : CSt), crun cfg s (a ++ b) = crun cfg (crun cfg s a) b := by
  intro a
  induction a with
  | nil => intro b s; rfl
  | cons op rest ih => intro b s; simp only [List.cons_append, crun]; exact ih b _

/-! ## in-flight bookkeeping -/

theorem lookupCall_append_new (c : Nat) (p : Pattern) : ∀ (l : List (Nat × Pattern)),
    lookupCall c l = none → lookupCall c (l ++ [(c, p)]) = some p := by
  intro l
  induction l with
  | nil => intro _; simp [lookupCall]
  | cons e r ih =>
    intro h
    simp only [lookupCall] at h
    by_cases he : e.1 = c
    · simp [he] at h
    · simp only [he, if_false] at h
      simp only [List.cons_append, lookupCall, he, if_false, ih h]

theorem dropCall_append_new (c : Nat) (p : Pattern) : ∀ (l : List (Nat × Pattern)),
    lookupCall c l = none → dropCall c (l ++ [(c, p)]) = l := by
  intro l
  induction l with
  | nil => intro _; simp [dropCall]
  | cons e r ih =>
    intro h
    simp only [lookupCall] at h
    by_cases he : e.1 = c
    · simp [he] at h
    · simp only [he, if_false] at h
      simp only [List.cons_append, dropCall, he, if_false, ih h]

/-! ## the task layer only ever performs machine steps -/

theorem runProg_crun (cfg : Cfg) (t : Nat) : ∀ (prog : List Act) (pc : Nat) (s : CSt),
    (runProg cfg t prog pc s).1 = crun cfg s ((runProg cfg t prog pc s).2.2.map Prod.fst) := by
  intro prog
  induction prog with
  | nil => intro pc s; rfl
  | cons a rest ih =>
    intro pc s
    cases a with
    | call p k r =>
      simp only [runProg]
      rcases hb : cstep cfg s (.begin (100 * t + pc) p) with ⟨s1, o⟩
      have hs1 : s1 = (cstep cfg s (.begin (100 * t + pc) p)).1 := by rw [hb]
      cases o with
      | started =>
        cases k with
        | zero =>
          simp only [List.map_cons, crun]
          rw [ih, ← hs1]
        | succ k =>
          simp only [List.map_cons, List.map_nil, crun]
          rw [← hs1]
      | hit v => simp only [List.map_cons, crun]; rw [ih, ← hs1]
      | ret v => simp only [List.map_cons, crun]; rw [ih, ← hs1]
      | raised e => simp only [List.map_cons, crun]; rw [ih, ← hs1]
      | cancelled => simp only [List.map_cons, crun]; rw [ih, ← hs1]
      | seq o => simp only [List.map_cons, crun]; rw [ih, ← hs1]
      | ignored => simp only [List.map_cons, crun]; rw [ih, ← hs1]
    | clear => simp only [runProg, List.map_cons, crun]; rw [ih]
    | discard p => simp only [runProg, List.map_cons, crun]; rw [ih]
    | info => simp only [runProg, List.map_cons, crun]; rw [ih]

theorem sendTask_crun (cfg : Cfg) (t : Nat) (tk : Task) (s : CSt) :
    (sendTask cfg t tk s).1 = crun cfg s ((sendTask cfg t tk s).2.2.map Prod.fst) := by
  unfold sendTask
  rcases hw : tk.waiting with _ | ⟨c, k, r⟩
  · simp only; exact runProg_crun cfg t _ _ _
  · cases k with
    | zero => simp only [List.map_cons, crun]; rw [runProg_crun]
    | succ k => simp only [List.map_nil, crun]

theorem cancelTask_crun (cfg : Cfg) (t : Nat) (tk : Task) (s : CSt) :
    (cancelTask cfg t tk s).1 = crun cfg s ((cancelTask cfg t tk s).2.2.map Prod.fst) := by
  unfold cancelTask
  rcases hw : tk.waiting with _ | ⟨c, k, r⟩
  · simp only; exact sendTask_crun cfg t tk s
  · simp only [List.map_cons, List.map_nil, crun]

theorem schedStep_crun (cfg : Cfg) (x : CSt × List Task) (op : SOp) :
    (schedStep cfg x op).1.1 = crun cfg x.1 ((schedStep cfg x op).2.map Prod.fst) := by
  cases op with
  | send t =>
    simp only [schedStep]
    cases x.2[t]? with
    | none => rfl
    | some tk => simp only; exact sendTask_crun cfg t tk x.1
  | cancel t =>
    simp only [schedStep]
    cases x.2[t]? with
    | none => rfl
    | some tk => simp only; exact cancelTask_crun cfg t tk x.1

theorem schedFinal_crun (cfg : Cfg) : ∀ (ops : List SOp) (x : CSt × List Task),
    (schedFinal cfg x ops).1 = crun cfg x.1 ((schedEvents cfg x ops).map Prod.fst) := by
  intro ops
  induction ops with
  | nil => intro x; rfl
  | cons op rest ih =>
    intro x
    simp only [schedFinal, schedEvents, List.map_append]
    rw [crun_append, ih, ← schedStep_crun]

end AsyncVerif.Lru
