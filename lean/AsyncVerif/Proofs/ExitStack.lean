import AsyncVerif.Machines.ExitStack
/-! Helper lemmas for C14 (ExitStack). Property theorems live in `Properties/C14.lean`. -/
namespace AsyncVerif.ExitStack

/-- loop invariant: the in-flight exception is the outcome of the entries processed so far -/
def Good (body : Outcome) (st : LoopSt) : Prop :=
  (st.exc = (stOutcome body st).exc) ∧ (st.reraise = true → st.exc.isSome = true)

theorem loop_nested (body : Outcome) (stack : List Entry) :
    Good body (stack.reverse.foldl stepLoop (loopInit body))
    ∧ (stOutcome body (stack.reverse.foldl stepLoop (loopInit body)),
        (stack.reverse.foldl stepLoop (loopInit body)).log) = nested stack body := by
  induction stack with
  | nil => cases body <;> simp [Good, stOutcome, nested, loopInit, Outcome.exc]
  | cons en rest ih =>
    simp only [List.reverse_cons, List.foldl_append, List.foldl_cons, List.foldl_nil]
    generalize (rest.reverse.foldl stepLoop _) = st at ih ⊢
    obtain ⟨⟨hexc, hre⟩, hout⟩ := ih
    simp only [nested, ← hout]
    simp only [← hexc]
    unfold stepLoop
    cases hrun : en.run st.exc with
    | truthy =>
      cases hso : stOutcome body st <;> cases body <;> simp [Good, stOutcome, Outcome.exc]
    | falsy =>
      simp only [Good]
      exact ⟨⟨hexc, hre⟩, rfl⟩
    | raise e =>
      cases body <;> simp [Good, stOutcome, Outcome.exc]

theorem stepLoop_log (st : LoopSt) (en : Entry) :
    (stepLoop st en).log.map Prod.fst = st.log.map Prod.fst ++ [en.id] := by
  unfold stepLoop; cases en.run st.exc <;> simp

theorem foldl_log (l : List Entry) (st : LoopSt) :
    (l.foldl stepLoop st).log.map Prod.fst = st.log.map Prod.fst ++ l.map (·.id) := by
  induction l generalizing st with
  | nil => simp
  | cons en rest ih => simp [ih, stepLoop_log, List.append_assoc]

end AsyncVerif.ExitStack

namespace AsyncVerif.ExitStack

/-! ## Histories -/

theorem nodup_reverse' {α} (l : List α) (h : l.Nodup) : l.reverse.Nodup := by
  unfold List.Nodup at *
  rw [List.pairwise_reverse]
  exact h.imp (fun hab => fun e => hab e.symm)

def ids (l : List Entry) : List Nat := l.map (·.id)

/-- ids registered by a history, in order -/
def regIds : List Op → List Nat
  | [] => []
  | .register _ en :: r => en.id :: regIds r
  | _ :: r => regIds r

theorem stack_oob (h : Hist) (sid : Nat) (hs : h.stacks.length ≤ sid) : h.stack sid = [] := by
  simp [Hist.stack, List.getD, List.getElem?_eq_none hs]

theorem stack_set (h : Hist) (sid j : Nat) (v : List Entry) :
    (h.stacks.set sid v).getD j [] = if j = sid ∧ sid < h.stacks.length then v else h.stack j := by
  simp only [Hist.stack, List.getD_eq_getElem?_getD, List.getElem?_set]
  by_cases hj : sid = j
  · subst hj; by_cases hl : sid < h.stacks.length <;> simp [hl]
  · have : ¬ (j = sid) := fun h' => hj h'.symm
    simp [hj, this]

theorem stack_register (h : Hist) (sid j : Nat) (en : Entry) :
    (step h (.register sid en)).stack j =
      if j = sid ∧ sid < h.stacks.length then h.stack sid ++ [en] else h.stack j := by
  simp only [step]; exact stack_set h sid j _

theorem stack_unwind (h : Hist) (sid j : Nat) (body : Outcome) :
    (unwind h sid body).stack j = if j = sid then [] else h.stack j := by
  have := stack_set h sid j []
  simp only [unwind, Hist.stack] at this ⊢
  rw [this]
  by_cases hj : j = sid
  · subst hj
    by_cases hl : j < h.stacks.length
    · simp [hl]
    · have := stack_oob h j (Nat.le_of_not_lt hl)
      simp [hl, Hist.stack] at this ⊢
  · simp [hj]

theorem stack_popAll (h : Hist) (sid j : Nat) (hl : sid < h.stacks.length) :
    (step h (.popAll sid)).stack j =
      if j = sid then [] else if j = h.stacks.length then h.stack sid else h.stack j := by
  simp only [step, hl, if_true, Hist.stack, List.getD_eq_getElem?_getD]
  by_cases hj : j < h.stacks.length
  · rw [List.getElem?_append_left (by simpa using hj)]
    simp only [List.getElem?_set]
    by_cases hjs : sid = j
    · subst hjs; simp [hl]
    · have h1 : ¬ (j = sid) := fun h' => hjs h'.symm
      have h2 : ¬ (j = h.stacks.length) := by omega
      simp [hjs, h1, h2]
  · have hge : h.stacks.length ≤ j := Nat.le_of_not_lt hj
    rw [List.getElem?_append_right (by simpa using hge)]
    have h1 : ¬ (j = sid) := by omega
    simp only [List.length_set, h1, if_false]
    by_cases hje : j = h.stacks.length
    · subst hje; simp
    · have : j - h.stacks.length ≠ 0 := by omega
      have hoob : h.stacks[j]? = none := List.getElem?_eq_none hge
      simp only [hje, if_false, hoob, Option.getD_none]
      cases hq : j - h.stacks.length with
      | zero => omega
      | succ n => simp

/-- log of an unwind = old log ++ the unwound stack's ids, last registered first -/
theorem log_unwind (h : Hist) (sid : Nat) (body : Outcome) :
    (unwind h sid body).log.map Prod.fst = h.log.map Prod.fst ++ (ids (h.stack sid)).reverse := by
  simp only [unwind, implExit, List.map_append, foldl_log, loopInit, ids, List.map_reverse,
    List.map_nil, List.nil_append]

structure HInv (h : Hist) (regs : List Nat) : Prop where
  logNodup : (h.log.map Prod.fst).Nodup
  stackNodup : ∀ sid, (ids (h.stack sid)).Nodup
  logStack : ∀ sid x, x ∈ ids (h.stack sid) → x ∉ h.log.map Prod.fst
  stackStack : ∀ s1 s2 x, s1 ≠ s2 → x ∈ ids (h.stack s1) → x ∉ ids (h.stack s2)
  known : ∀ x, (x ∈ h.log.map Prod.fst ∨ ∃ sid, x ∈ ids (h.stack sid)) → x ∈ regs

theorem HInv.init : HInv Hist.init [] := by
  have hs : ∀ sid, Hist.init.stack sid = [] := by
    intro sid
    cases sid with
    | zero => rfl
    | succ n => simp [Hist.init, Hist.stack]
  constructor
  · simp [Hist.init]
  · intro sid; rw [hs]; simp [ids]
  · intro sid x hx; rw [hs] at hx; simp [ids] at hx
  · intro s1 s2 x _ hx; rw [hs] at hx; simp [ids] at hx
  · intro x hx
    rcases hx with hx | ⟨sid, hx⟩
    · simp [Hist.init] at hx
    · rw [hs] at hx; simp [ids] at hx

theorem HInv.unwind {h regs} (hi : HInv h regs) (sid : Nat) (body : Outcome) :
    HInv (unwind h sid body) regs := by
  constructor
  · rw [log_unwind]
    refine List.nodup_append.mpr ⟨hi.logNodup, nodup_reverse' _ (hi.stackNodup sid), ?_⟩
    intro a ha b hb hab
    subst hab
    exact hi.logStack sid a (List.mem_reverse.mp hb) ha
  · intro j; rw [stack_unwind]; split
    · simp [ids]
    · exact hi.stackNodup j
  · intro j x hx
    rw [stack_unwind] at hx
    rw [log_unwind]
    split at hx
    · simp [ids] at hx
    · rename_i hj
      intro hmem
      rcases List.mem_append.mp hmem with h1 | h1
      · exact hi.logStack j x hx h1
      · exact hi.stackStack j sid x hj hx (List.mem_reverse.mp h1)
  · intro s1 s2 x hne h1 h2
    rw [stack_unwind] at h1 h2
    split at h1
    · simp [ids] at h1
    · split at h2
      · simp [ids] at h2
      · exact hi.stackStack s1 s2 x hne h1 h2
  · intro x hx
    rw [log_unwind] at hx
    rcases hx with hx | ⟨j, hx⟩
    · rcases List.mem_append.mp hx with h1 | h1
      · exact hi.known x (Or.inl h1)
      · exact hi.known x (Or.inr ⟨sid, List.mem_reverse.mp h1⟩)
    · rw [stack_unwind] at hx
      split at hx
      · simp [ids] at hx
      · exact hi.known x (Or.inr ⟨j, hx⟩)

theorem HInv.register {h regs} (hi : HInv h regs) (sid : Nat) (en : Entry) (hfresh : en.id ∉ regs) :
    HInv (step h (.register sid en)) (regs ++ [en.id]) := by
  have hlog : (step h (.register sid en)).log = h.log := rfl
  have hnew_log : en.id ∉ h.log.map Prod.fst := fun hm => hfresh (hi.known _ (Or.inl hm))
  have hnew_stack : ∀ j, en.id ∉ ids (h.stack j) := fun j hm => hfresh (hi.known _ (Or.inr ⟨j, hm⟩))
  constructor
  · rw [hlog]; exact hi.logNodup
  · intro j; rw [stack_register]; split
    · simp only [ids, List.map_append, List.map_cons, List.map_nil]
      refine List.nodup_append.mpr ⟨hi.stackNodup sid, by simp, ?_⟩
      intro a ha b hb hab
      simp at hb; subst hb; subst hab
      exact hnew_stack sid ha
    · exact hi.stackNodup j
  · intro j x hx
    rw [hlog]
    rw [stack_register] at hx
    split at hx
    · simp only [ids, List.map_append, List.map_cons, List.map_nil, List.mem_append,
        List.mem_singleton] at hx
      rcases hx with hx | hx
      · exact hi.logStack sid x hx
      · subst hx; exact hnew_log
    · exact hi.logStack j x hx
  · intro s1 s2 x hne h1 h2
    rw [stack_register] at h1 h2
    split at h1 <;> split at h2
    · rename_i ha hb; exact hne (ha.1.trans hb.1.symm)
    · rename_i ha hb
      simp only [ids, List.map_append, List.map_cons, List.map_nil, List.mem_append,
        List.mem_singleton] at h1
      rcases h1 with h1 | h1
      · exact hi.stackStack sid s2 x (by rw [← ha.1]; exact hne) h1 h2
      · subst h1; exact hnew_stack s2 h2
    · rename_i ha hb
      simp only [ids, List.map_append, List.map_cons, List.map_nil, List.mem_append,
        List.mem_singleton] at h2
      rcases h2 with h2 | h2
      · exact hi.stackStack s1 sid x (by rw [← hb.1]; exact hne) h1 h2
      · subst h2; exact hnew_stack s1 h1
    · exact hi.stackStack s1 s2 x hne h1 h2
  · intro x hx
    rw [hlog] at hx
    rcases hx with hx | ⟨j, hx⟩
    · exact List.mem_append_left _ (hi.known x (Or.inl hx))
    · rw [stack_register] at hx
      split at hx
      · simp only [ids, List.map_append, List.map_cons, List.map_nil, List.mem_append,
          List.mem_singleton] at hx
        rcases hx with hx | hx
        · exact List.mem_append_left _ (hi.known x (Or.inr ⟨sid, hx⟩))
        · subst hx; simp
      · exact List.mem_append_left _ (hi.known x (Or.inr ⟨j, hx⟩))

theorem HInv.popAll {h regs} (hi : HInv h regs) (sid : Nat) :
    HInv (step h (.popAll sid)) regs := by
  by_cases hl : sid < h.stacks.length
  · have hlog : (step h (.popAll sid)).log = h.log := by simp [step, hl]
    have hnew : h.stack h.stacks.length = [] := stack_oob h _ (Nat.le_refl _)
    constructor
    · rw [hlog]; exact hi.logNodup
    · intro j; rw [stack_popAll h sid j hl]
      split
      · simp [ids]
      · split
        · exact hi.stackNodup sid
        · exact hi.stackNodup j
    · intro j x hx
      rw [hlog]
      rw [stack_popAll h sid j hl] at hx
      split at hx
      · simp [ids] at hx
      · split at hx
        · exact hi.logStack sid x hx
        · exact hi.logStack j x hx
    · intro s1 s2 x hne h1 h2
      rw [stack_popAll h sid _ hl] at h1 h2
      split at h1
      · simp [ids] at h1
      · split at h2
        · simp [ids] at h2
        · rename_i hs1 hs2
          split at h1 <;> split at h2
          · rename_i ha hb; exact hne (ha.trans hb.symm)
          · rename_i ha hb
            exact hi.stackStack sid s2 x (fun hh => hs2 hh.symm) h1 h2
          · rename_i ha hb
            exact hi.stackStack s1 sid x hs1 h1 h2
          · exact hi.stackStack s1 s2 x hne h1 h2
    · intro x hx
      rw [hlog] at hx
      rcases hx with hx | ⟨j, hx⟩
      · exact hi.known x (Or.inl hx)
      · rw [stack_popAll h sid j hl] at hx
        split at hx
        · simp [ids] at hx
        · split at hx
          · exact hi.known x (Or.inr ⟨sid, hx⟩)
          · exact hi.known x (Or.inr ⟨j, hx⟩)
  · have : step h (.popAll sid) = h := by simp [step, hl]
    rw [this]; exact hi

theorem HInv.mono {h regs regs'} (hi : HInv h regs) (hsub : ∀ x, x ∈ regs → x ∈ regs') : HInv h regs' :=
  { hi with known := fun x hx => hsub x (hi.known x hx) }

/-- the invariant holds along every history whose registered ids are fresh and distinct -/
theorem HInv.run (ops : List Op) : ∀ (h : Hist) (regs : List Nat), HInv h regs →
    (regIds ops).Nodup → (∀ x, x ∈ regIds ops → x ∉ regs) →
    HInv (ops.foldl step h) (regs ++ regIds ops) := by
  induction ops with
  | nil => intro h regs hi _ _; simpa [regIds] using hi
  | cons op rest ih =>
    intro h regs hi hnd hfresh
    simp only [List.foldl_cons]
    cases op with
    | register sid en =>
      simp only [regIds, List.nodup_cons] at hnd
      have h1 := hi.register sid en (hfresh en.id (by simp [regIds]))
      have := ih _ _ h1 hnd.2 (by
        intro x hx hmem
        rcases List.mem_append.mp hmem with hm | hm
        · exact hfresh x (by simp [regIds, hx]) hm
        · simp at hm; subst hm; exact hnd.1 hx)
      simpa [regIds, List.append_assoc] using this
    | enterFails sid en e =>
      simpa [regIds, step] using ih h regs hi (by simpa [regIds] using hnd)
        (fun x hx => hfresh x (by simpa [regIds] using hx))
    | leave sid body =>
      simpa [regIds, step] using ih _ regs (hi.unwind sid body) (by simpa [regIds] using hnd)
        (fun x hx => hfresh x (by simpa [regIds] using hx))
    | aclose sid =>
      simpa [regIds, step] using ih _ regs (hi.unwind sid .normal) (by simpa [regIds] using hnd)
        (fun x hx => hfresh x (by simpa [regIds] using hx))
    | popAll sid =>
      simpa [regIds] using ih _ regs (hi.popAll sid) (by simpa [regIds] using hnd)
        (fun x hx => hfresh x (by simpa [regIds] using hx))

end AsyncVerif.ExitStack
