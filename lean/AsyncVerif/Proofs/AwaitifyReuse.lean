import AsyncVerif.Machines.AwaitifyReuse
namespace AsyncVerif.AwaitifyReuse

/-- all answers plain, or all answers awaitable; calls that raise at call time are allowed anywhere -/
def Stable (as : List Answer) : Prop :=
  (∀ a ∈ as, a.flavour ≠ some true) ∨ (∀ a ∈ as, a.flavour ≠ some false)

/-- every tool call sees answers of one flavour (which may differ from tool call to tool call);
    `c` = how often each function object has been called before -/
def StableTools (fs : Nat → Func) : (Nat → Nat) → List ToolCall → Prop
  | _, [] => True
  | c, tc :: rest => Stable (segment (fs tc.f) (c tc.f) tc.ncalls) ∧ StableTools fs (bumpBy c tc.f tc.ncalls) rest

/-- forget the wrapper states -/
def proj (s : St) : SpecSt := ⟨s.wrappers.map Wrapper.fn, s.calls⟩

/-- the reference outcome for the same call -/
def specEv (e : Event) : Event :=
  { e with out := match e.answer with | some a => awaitIfNeeded a | none => e.out }

theorem proj_init : proj init = specInit := rfl

/-! ### the table and the code agree -/

theorem callWrapper_out (ws : WState) (a : Answer) : (callWrapper ws a).2 = outIn ws a := by
  cases ws <;> cases a <;> rfl

theorem decidedBy_nil : decidedBy [] = .undecided := rfl

theorem decidedBy_snoc (as : List Answer) (a : Answer) :
    decidedBy (as ++ [a]) = (callWrapper (decidedBy as) a).1 := by
  unfold decidedBy
  rw [List.findSome?_append]
  cases h : as.findSome? Answer.flavour with
  | none => cases a <;> rfl
  | some b => cases b <;> cases a <;> rfl

theorem decidedBy_sync {as : List Answer} (h : decidedBy as = .sync) : ∃ b ∈ as, b.flavour = some false := by
  unfold decidedBy at h
  cases h' : as.findSome? Answer.flavour with
  | none => simp [h'] at h
  | some b =>
    cases b with
    | true => simp [h'] at h
    | false =>
      obtain ⟨x, hx, hf⟩ := List.exists_of_findSome?_eq_some h'
      exact ⟨x, hx, hf⟩

theorem decidedBy_async {as : List Answer} (h : decidedBy as = .async) : ∃ b ∈ as, b.flavour = some true := by
  unfold decidedBy at h
  cases h' : as.findSome? Answer.flavour with
  | none => simp [h'] at h
  | some b =>
    cases b with
    | false => simp [h'] at h
    | true =>
      obtain ⟨x, hx, hf⟩ := List.exists_of_findSome?_eq_some h'
      exact ⟨x, hx, hf⟩

/-! ### simulation: the reference run is the run with every outcome replaced by the reference outcome -/

theorem map_fn_set (l : List Wrapper) (w f : Nat) (ws ws' : WState) (h : l[w]? = some (.awaitify f ws)) :
    (l.set w (.awaitify f ws')).map Wrapper.fn = l.map Wrapper.fn := by
  apply List.ext_getElem?
  intro i
  by_cases hi : i = w
  · subst hi
    have hlt : i < l.length := by
      rcases Nat.lt_or_ge i l.length with h' | h'
      · exact h'
      · rw [List.getElem?_eq_none h'] at h; cases h
    rw [List.getElem?_map, List.getElem?_set_self hlt, List.getElem?_map, h]
    rfl
  · have : w ≠ i := fun h => hi h.symm
    simp [List.getElem?_map, List.getElem?_set_ne this]

theorem step_spec (fs : Nat → Func) (s : St) (op : Op) :
    specStep fs (proj s) op = (proj (step fs s op).1, specEv (step fs s op).2) := by
  cases op with
  | wrap f =>
    simp only [step, specStep, proj, specEv, List.map_append, List.length_map, List.map_cons, List.map_nil]
    split <;> rfl
  | call w =>
    simp only [step, specStep, proj, List.getElem?_map]
    cases h : s.wrappers[w]? with
    | none => rfl
    | some wr =>
      cases wr with
      | function f => rfl
      | awaitify f ws =>
        simp only [Option.map_some, Wrapper.fn, specEv, map_fn_set _ _ _ _ _ h]

theorem specRun_eq (fs : Nat → Func) (ops : List Op) (s : St) :
    specRun fs (proj s) ops = (run fs s ops).map specEv := by
  induction ops generalizing s with
  | nil => rfl
  | cons op ops ih =>
    simp only [specRun, run, List.map_cons, step_spec, ih]

/-! ### runs, prefixes, positions -/

theorem step_op (fs : Nat → Func) (s : St) (op : Op) : (step fs s op).2.op = op := by
  cases op with
  | wrap f => rfl
  | call w =>
    simp only [step]
    cases s.wrappers[w]? with
    | none => rfl
    | some wr => cases wr <;> rfl

theorem run_take (fs : Nat → Func) (ops : List Op) (s : St) (i : Nat) :
    (run fs s ops).take i = run fs s (ops.take i) := by
  induction ops generalizing s i with
  | nil => simp [run]
  | cons op ops ih =>
    cases i with
    | zero => simp [run]
    | succ i => simp [run, ih]

theorem run_getElem? (fs : Nat → Func) (ops : List Op) (s : St) (i : Nat) :
    (run fs s ops)[i]? = ops[i]?.map (fun op => (step fs (stateAfter fs s (ops.take i)) op).2) := by
  induction ops generalizing s i with
  | nil => simp [run]
  | cons op ops ih =>
    cases i with
    | zero => simp [run, stateAfter]
    | succ i => simp [run, stateAfter, ih]

theorem run_length (fs : Nat → Func) (ops : List Op) (s : St) : (run fs s ops).length = ops.length := by
  induction ops generalizing s with
  | nil => rfl
  | cons op ops ih => simp [run, ih]

theorem run_append (fs : Nat → Func) (p q : List Op) (s : St) :
    run fs s (p ++ q) = run fs s p ++ run fs (stateAfter fs s p) q := by
  induction p generalizing s with
  | nil => rfl
  | cons op p ih => simp [run, stateAfter, ih]

theorem stateAfter_append (fs : Nat → Func) (p q : List Op) (s : St) :
    stateAfter fs s (p ++ q) = stateAfter fs (stateAfter fs s p) q := by
  induction p generalizing s with
  | nil => rfl
  | cons op p ih => simp [stateAfter, ih]

/-! ### the invariant: a wrapper's state is a function of the answers that went through IT -/

theorem answersVia_snoc (w : Nat) (tr : List Event) (e : Event) :
    answersVia w (tr ++ [e]) = answersVia w tr ++ (if e.op = .call w then e.answer.toList else []) := by
  unfold answersVia
  rw [List.filterMap_append]
  congr 1
  by_cases hop : e.op = .call w
  · cases ha : e.answer <;> simp [hop, ha]
  · simp [hop]

structure Inv (fs : Nat → Func) (tr : List Event) (st : St) : Prop where
  none_ : ∀ w : Nat, st.wrappers[w]? = none → answersVia w tr = []
  fn_ : ∀ w f : Nat, st.wrappers[w]? = some (Wrapper.function f) → (fs f).coro = true
  aw_ : ∀ (w f : Nat) (ws : WState), st.wrappers[w]? = some (Wrapper.awaitify f ws) →
    (fs f).coro = false ∧ ws = decidedBy (answersVia w tr)
  wrap_ : ∀ f w : Nat, (⟨.wrap f, none, .wrapper w⟩ : Event) ∈ tr → ∃ wr, st.wrappers[w]? = some wr ∧ wr.fn = f

theorem inv_init (fs : Nat → Func) : Inv fs [] init := by
  constructor
  · intro w _; rfl
  · intro w f h; simp [init] at h
  · intro w f ws h; simp [init] at h
  · intro f w h; cases h

theorem lt_of_getElem?_some {α} {l : List α} {i : Nat} {x : α} (h : l[i]? = some x) : i < l.length := by
  rcases Nat.lt_or_ge i l.length with h' | h'
  · exact h'
  · rw [List.getElem?_eq_none h'] at h; cases h

theorem inv_step (fs : Nat → Func) (tr : List Event) (s : St) (op : Op) (h : Inv fs tr s) :
    Inv fs (tr ++ [(step fs s op).2]) (step fs s op).1 := by
  cases op with
  | wrap f =>
    have hav : ∀ w, answersVia w (tr ++ [(step fs s (.wrap f)).2]) = answersVia w tr := by
      intro w; rw [answersVia_snoc]; simp [step]
    have hget : ∀ w, (step fs s (.wrap f)).1.wrappers[w]? =
        if w < s.wrappers.length then s.wrappers[w]?
        else if w = s.wrappers.length then
          some (if (fs f).coro then Wrapper.function f else Wrapper.awaitify f .undecided) else none := by
      intro w
      simp only [step]
      by_cases h1 : w < s.wrappers.length
      · simp [h1, List.getElem?_append_left h1]
      · by_cases h2 : w = s.wrappers.length
        · subst h2; simp
        · have : s.wrappers.length + 1 ≤ w := by omega
          simp [h1, h2, this]
    constructor
    · intro w hw
      rw [hav]; apply h.none_
      rw [hget] at hw
      by_cases h1 : w < s.wrappers.length
      · simp [h1] at hw
      · by_cases h2 : w = s.wrappers.length
        · simp [h2] at hw
        · exact List.getElem?_eq_none (by omega)
    · intro w g hw
      rw [hget] at hw
      by_cases h1 : w < s.wrappers.length
      · simp only [h1, if_true] at hw; exact h.fn_ w g hw
      · by_cases h2 : w = s.wrappers.length
        · simp only [h2, if_true] at hw
          by_cases hc : (fs f).coro
          · simp [hc] at hw; subst hw; exact hc
          · simp [hc] at hw
        · simp [h1, h2] at hw
    · intro w g ws hw
      rw [hget] at hw
      rw [hav]
      by_cases h1 : w < s.wrappers.length
      · simp only [h1, if_true] at hw; exact h.aw_ w g ws hw
      · by_cases h2 : w = s.wrappers.length
        · simp only [h2, if_true] at hw
          by_cases hc : (fs f).coro
          · simp [hc] at hw
          · simp [hc] at hw
            obtain ⟨rfl, rfl⟩ := hw
            have : answersVia w tr = [] := h.none_ w (List.getElem?_eq_none (by omega))
            rw [this]
            exact ⟨by simpa using hc, rfl⟩
        · simp [h1, h2] at hw
    · intro g w hmem
      rw [List.mem_append] at hmem
      rcases hmem with hmem | hmem
      · obtain ⟨wr, hwr, hfn⟩ := h.wrap_ g w hmem
        refine ⟨wr, ?_, hfn⟩
        rw [hget, if_pos (lt_of_getElem?_some hwr)]; exact hwr
      · simp only [step, List.mem_singleton, Event.mk.injEq, Op.wrap.injEq, Out.wrapper.injEq, true_and] at hmem
        obtain ⟨rfl, rfl⟩ := hmem
        rw [hget]
        simp only [Nat.lt_irrefl, if_false, if_true]
        by_cases hc : (fs g).coro <;> simp [hc, Wrapper.fn]
  | call w0 =>
    cases hw0 : s.wrappers[w0]? with
    | none =>
      have hst : step fs s (.call w0) = (s, ⟨.call w0, none, .noSuchWrapper⟩) := by simp [step, hw0]
      have hav : ∀ w, answersVia w (tr ++ [(step fs s (.call w0)).2]) = answersVia w tr := by
        intro w; rw [answersVia_snoc, hst]; simp
      rw [hst] at hav ⊢
      exact ⟨fun w hw => by rw [hav]; exact h.none_ w hw, h.fn_,
        fun w f ws hw => by rw [hav]; exact h.aw_ w f ws hw,
        fun f w hm => by
          rw [List.mem_append] at hm
          rcases hm with hm | hm
          · exact h.wrap_ f w hm
          · simp at hm⟩
    | some wr =>
      cases wr with
      | function f0 =>
        have hst : step fs s (.call w0) = ({ s with calls := bump s.calls f0 },
            ⟨.call w0, some ((fs f0).answer (s.calls f0)), awaitIfNeeded ((fs f0).answer (s.calls f0))⟩) := by
          simp [step, hw0]
        have hav : ∀ w, w ≠ w0 → answersVia w (tr ++ [(step fs s (.call w0)).2]) = answersVia w tr := by
          intro w hne; rw [answersVia_snoc, hst]
          have : ¬ (Op.call w0 = Op.call w) := by intro hh; cases hh; exact hne rfl
          simp [this]
        rw [hst] at hav ⊢
        refine ⟨?_, h.fn_, ?_, ?_⟩
        · intro w hw
          have hne : w ≠ w0 := by intro hh; subst hh; simp only at hw; rw [hw0] at hw; cases hw
          rw [hav w hne]; exact h.none_ w hw
        · intro w f ws hw
          have hne : w ≠ w0 := by intro hh; subst hh; simp only at hw; rw [hw0] at hw; cases hw
          rw [hav w hne]; exact h.aw_ w f ws hw
        · intro f w hm
          rw [List.mem_append] at hm
          rcases hm with hm | hm
          · exact h.wrap_ f w hm
          · simp at hm
      | awaitify f0 ws0 =>
        have hlt := lt_of_getElem?_some hw0
        have hst : step fs s (.call w0) =
            ({ wrappers := s.wrappers.set w0 (.awaitify f0 (callWrapper ws0 ((fs f0).answer (s.calls f0))).1),
               calls := bump s.calls f0 },
             ⟨.call w0, some ((fs f0).answer (s.calls f0)), (callWrapper ws0 ((fs f0).answer (s.calls f0))).2⟩) := by
          simp [step, hw0]
        have hav : ∀ w, w ≠ w0 → answersVia w (tr ++ [(step fs s (.call w0)).2]) = answersVia w tr := by
          intro w hne; rw [answersVia_snoc, hst]
          have : ¬ (Op.call w0 = Op.call w) := by intro hh; cases hh; exact hne rfl
          simp [this]
        have hav0 : answersVia w0 (tr ++ [(step fs s (.call w0)).2]) =
            answersVia w0 tr ++ [(fs f0).answer (s.calls f0)] := by
          rw [answersVia_snoc, hst]; simp
        rw [hst] at hav hav0 ⊢
        refine ⟨?_, ?_, ?_, ?_⟩
        · intro w hw
          have hne : w ≠ w0 := by
            intro hh; subst hh; simp only [List.getElem?_set_self hlt] at hw; cases hw
          simp only [List.getElem?_set_ne (Ne.symm hne)] at hw
          rw [hav w hne]; exact h.none_ w hw
        · intro w f hw
          have hne : w ≠ w0 := by
            intro hh; subst hh; simp only [List.getElem?_set_self hlt] at hw; cases hw
          simp only [List.getElem?_set_ne (Ne.symm hne)] at hw
          exact h.fn_ w f hw
        · intro w f ws hw
          by_cases hne : w = w0
          · subst hne
            simp only [List.getElem?_set_self hlt, Option.some.injEq, Wrapper.awaitify.injEq] at hw
            obtain ⟨rfl, rfl⟩ := hw
            obtain ⟨hc, hws⟩ := h.aw_ w f0 ws0 hw0
            rw [hav0, decidedBy_snoc, ← hws]
            exact ⟨hc, rfl⟩
          · simp only [List.getElem?_set_ne (Ne.symm hne)] at hw
            rw [hav w hne]; exact h.aw_ w f ws hw
        · intro f w hm
          rw [List.mem_append] at hm
          rcases hm with hm | hm
          · obtain ⟨wr, hwr, hfn⟩ := h.wrap_ f w hm
            by_cases hne : w = w0
            · subst hne
              rw [hw0] at hwr; cases hwr
              exact ⟨_, List.getElem?_set_self hlt, hfn⟩
            · exact ⟨wr, by simpa only [List.getElem?_set_ne (Ne.symm hne)] using hwr, hfn⟩
          · simp at hm

theorem inv_run (fs : Nat → Func) (ops : List Op) (tr : List Event) (s : St) (h : Inv fs tr s) :
    Inv fs (tr ++ run fs s ops) (stateAfter fs s ops) := by
  induction ops generalizing tr s with
  | nil => simpa [run, stateAfter] using h
  | cons op ops ih =>
    have := ih _ _ (inv_step fs tr s op h)
    simpa [run, stateAfter, List.append_assoc] using this

/-- at every position of a history: the event is one step from the state after the prefix, which
    satisfies the invariant w.r.t. the trace before that position -/
theorem run_index' (fs : Nat → Func) (ops : List Op) (i : Nat) (e : Event)
    (h : (run fs init ops)[i]? = some e) :
    Inv fs ((run fs init ops).take i) (stateAfter fs init (ops.take i)) ∧
      e = (step fs (stateAfter fs init (ops.take i)) e.op).2 := by
  rw [run_getElem?] at h
  cases hop : ops[i]? with
  | none => simp [hop] at h
  | some op =>
    simp only [hop, Option.map_some, Option.some.injEq] at h
    refine ⟨?_, ?_⟩
    · rw [run_take]
      simpa using inv_run fs (ops.take i) [] init (inv_init fs)
    · rw [← h, step_op]

theorem run_index (fs : Nat → Func) (ops : List Op) (i : Nat) (e : Event)
    (h : (run fs init ops)[i]? = some e) :
    ∃ st, Inv fs ((run fs init ops).take i) st ∧ e = (step fs st e.op).2 :=
  ⟨_, run_index' fs ops i e h⟩

/-! ### consequences used by the property theorems -/

theorem answersVia_take_subset (w : Nat) (tr : List Event) (i : Nat) (b : Answer)
    (h : b ∈ answersVia w (tr.take i)) : b ∈ answersVia w tr := by
  unfold answersVia at h ⊢
  rw [List.mem_filterMap] at h ⊢
  obtain ⟨e, he, hb⟩ := h
  exact ⟨e, List.mem_of_mem_take he, hb⟩

theorem mem_answersVia (w : Nat) (tr : List Event) (i : Nat) (e : Event) (a : Answer)
    (h : tr[i]? = some e) (hop : e.op = .call w) (ha : e.answer = some a) : a ∈ answersVia w tr := by
  unfold answersVia
  rw [List.mem_filterMap]
  exact ⟨e, List.mem_of_getElem? h, by simp [hop, ha]⟩

theorem outIn_stable (all pre : List Answer) (a : Answer) (hsub : ∀ b ∈ pre, b ∈ all) (ha : a ∈ all)
    (hs : Stable all) : outIn (decidedBy pre) a = awaitIfNeeded a := by
  cases hd : decidedBy pre with
  | undecided => rfl
  | sync =>
    obtain ⟨b, hb, hbf⟩ := decidedBy_sync hd
    rcases hs with h1 | h2
    · have := h1 a ha
      cases a <;> simp [outIn, Answer.flavour, awaitIfNeeded] at this ⊢
    · exact absurd hbf (h2 b (hsub b hb))
  | async =>
    obtain ⟨b, hb, hbf⟩ := decidedBy_async hd
    rcases hs with h1 | h2
    · exact absurd hbf (h1 b (hsub b hb))
    · have := h2 a ha
      cases a <;> simp [outIn, Answer.flavour, awaitIfNeeded] at this ⊢

/-- the three shapes of a `call` event -/
theorem step_call_cases (fs : Nat → Func) (st : St) (w : Nat) :
    (st.wrappers[w]? = none ∧ (step fs st (.call w)).2 = ⟨.call w, none, .noSuchWrapper⟩) ∨
    (∃ f, st.wrappers[w]? = some (.function f) ∧ ∃ a, (step fs st (.call w)).2 = ⟨.call w, some a, awaitIfNeeded a⟩) ∨
    (∃ f ws, st.wrappers[w]? = some (.awaitify f ws) ∧ ∃ a, (step fs st (.call w)).2 = ⟨.call w, some a, outIn ws a⟩) := by
  cases h : st.wrappers[w]? with
  | none => left; simp [step, h]
  | some wr =>
    cases wr with
    | function f => right; left; exact ⟨f, rfl, (fs f).answer (st.calls f), by simp [step, h]⟩
    | awaitify f ws => right; right; exact ⟨f, ws, rfl, (fs f).answer (st.calls f), by simp [step, h, callWrapper_out]⟩

/-- at one position: the outcome is the reference outcome as soon as the answers that went through
    the handle used there are flavour-stable -/
theorem specEv_eq_of_stable (fs : Nat → Func) (ops : List Op) (i : Nat) (e : Event)
    (h : (run fs init ops)[i]? = some e)
    (hs : ∀ w, e.op = .call w → Stable (answersVia w (run fs init ops))) : specEv e = e := by
  obtain ⟨st, hinv, he⟩ := run_index fs ops i e h
  cases hop : e.op with
  | wrap f => rw [hop] at he; rw [he]; rfl
  | call w =>
    rw [hop] at he
    rcases step_call_cases fs st w with ⟨_, h1⟩ | ⟨f, _, a, h1⟩ | ⟨f, ws, hw, a, h1⟩
    · rw [he, h1]; rfl
    · rw [he, h1]; rfl
    · rw [h1] at he
      obtain ⟨_, hws⟩ := hinv.aw_ w f ws hw
      have hans : e.answer = some a := by rw [he]
      have := outIn_stable (answersVia w (run fs init ops)) (answersVia w ((run fs init ops).take i)) a
        (answersVia_take_subset w _ i) (mem_answersVia w _ i e a h hop hans) (hs w hop)
      rw [he, hws, this]; rfl

theorem map_specEv_eq_self (tr : List Event) (h : ∀ (i : Nat) (e : Event), tr[i]? = some e → specEv e = e) :
    tr.map specEv = tr := by
  apply List.ext_getElem?
  intro i
  rw [List.getElem?_map]
  cases hi : tr[i]? with
  | none => rfl
  | some e => simp [h i e hi]

/-! ### handles keep denoting the same object -/

def Wrapper.erase : Wrapper → Wrapper
  | .function f => .function f
  | .awaitify f _ => .awaitify f .undecided

theorem step_erase_prefix (fs : Nat → Func) (s : St) (op : Op) :
    s.wrappers.map Wrapper.erase <+: (step fs s op).1.wrappers.map Wrapper.erase := by
  cases op with
  | wrap f => simp only [step, List.map_append]; exact List.prefix_append _ _
  | call w =>
    cases h : s.wrappers[w]? with
    | none => simp [step, h]
    | some wr =>
      cases wr with
      | function f => simp [step, h]
      | awaitify f ws =>
        have hlt := lt_of_getElem?_some h
        have : (s.wrappers.set w (.awaitify f (callWrapper ws ((fs f).answer (s.calls f))).1)).map Wrapper.erase
            = s.wrappers.map Wrapper.erase := by
          apply List.ext_getElem?
          intro i
          by_cases hi : i = w
          · subst hi
            rw [List.getElem?_map, List.getElem?_set_self hlt, List.getElem?_map, h]; rfl
          · simp [List.getElem?_map, List.getElem?_set_ne (Ne.symm hi)]
        simp only [step, h, this]
        exact List.prefix_refl _

theorem stateAfter_erase_prefix (fs : Nat → Func) (ops : List Op) (s : St) :
    s.wrappers.map Wrapper.erase <+: (stateAfter fs s ops).wrappers.map Wrapper.erase := by
  induction ops generalizing s with
  | nil => exact List.prefix_refl _
  | cons op ops ih => exact List.IsPrefix.trans (step_erase_prefix fs s op) (ih _)

theorem erase_later (fs : Nat → Func) (ops : List Op) (s : St) (w : Nat) (wr : Wrapper)
    (h : s.wrappers[w]? = some wr) :
    ∃ wr', (stateAfter fs s ops).wrappers[w]? = some wr' ∧ wr'.erase = wr.erase := by
  obtain ⟨t, ht⟩ := stateAfter_erase_prefix fs ops s
  have h1 : (s.wrappers.map Wrapper.erase)[w]? = some wr.erase := by rw [List.getElem?_map, h]; rfl
  have hlt : w < (s.wrappers.map Wrapper.erase).length := lt_of_getElem?_some h1
  have h2 : ((stateAfter fs s ops).wrappers.map Wrapper.erase)[w]? = some wr.erase := by
    rw [← ht, List.getElem?_append_left hlt, h1]
  rw [List.getElem?_map] at h2
  cases h3 : (stateAfter fs s ops).wrappers[w]? with
  | none => simp [h3] at h2
  | some wr' => exact ⟨wr', rfl, by simpa [h3] using h2⟩

/-- what the real code does at a call through an `Awaitify` object, whatever went through it before -/
theorem out_characterised (fs : Nat → Func) (ops : List Op) (f w : Nat)
    (hwrap : (⟨.wrap f, none, .wrapper w⟩ : Event) ∈ run fs init ops) (hc : (fs f).coro = false)
    (i : Nat) (e : Event) (a : Answer) (h : (run fs init ops)[i]? = some e) (hop : e.op = .call w)
    (ha : e.answer = some a) :
    e.out = outIn (decidedBy (answersVia w ((run fs init ops).take i))) a := by
  obtain ⟨hinv, he⟩ := run_index' fs ops i e h
  rw [hop] at he
  -- the final state knows that `w` is an `Awaitify` object around `f`
  have hfin : Inv fs (run fs init ops) (stateAfter fs init ops) := by
    simpa using inv_run fs ops [] init (inv_init fs)
  obtain ⟨wrF, hwrF, hfnF⟩ := hfin.wrap_ f w hwrap
  have hsplit : stateAfter fs init ops = stateAfter fs (stateAfter fs init (ops.take i)) (ops.drop i) := by
    rw [← stateAfter_append, List.take_append_drop]
  rcases step_call_cases fs (stateAfter fs init (ops.take i)) w with ⟨_, h1⟩ | ⟨g, hw, b, h1⟩ | ⟨g, ws, hw, b, h1⟩
  · rw [h1] at he; rw [he] at ha; cases ha
  · exfalso
    obtain ⟨wr', hwr', her⟩ := erase_later fs (ops.drop i) _ w _ hw
    rw [← hsplit, hwrF] at hwr'
    cases hwr'
    cases wrF with
    | awaitify g' ws' => simp [Wrapper.erase] at her
    | function g' =>
      simp only [Wrapper.erase, Wrapper.function.injEq] at her
      subst her
      have := hfin.fn_ w g' hwrF
      simp only [Wrapper.fn] at hfnF
      subst hfnF
      rw [hc] at this; cases this
  · rw [h1] at he
    obtain ⟨_, hws⟩ := hinv.aw_ w g ws hw
    rw [he] at ha
    simp only [Option.some.injEq] at ha
    subst ha
    rw [he, hws]

/-! ### tool calls run one after the other -/

/-- the wrapper state does not contradict the answers still to come -/
def Compat (ws : WState) (as : List Answer) : Prop :=
  (ws = .sync → ∀ a ∈ as, a.flavour ≠ some true) ∧ (ws = .async → ∀ a ∈ as, a.flavour ≠ some false)

theorem stable_tail {a : Answer} {rest : List Answer} (h : Stable (a :: rest)) : Stable rest := by
  rcases h with h | h
  · exact Or.inl fun b hb => h b (List.mem_cons_of_mem _ hb)
  · exact Or.inr fun b hb => h b (List.mem_cons_of_mem _ hb)

theorem compat_step (ws : WState) (a : Answer) (rest : List Answer) (hs : Stable (a :: rest))
    (hc : Compat ws (a :: rest)) :
    Compat (callWrapper ws a).1 rest ∧ (callWrapper ws a).2 = awaitIfNeeded a := by
  have hrest : Compat ws rest :=
    ⟨fun h b hb => hc.1 h b (List.mem_cons_of_mem _ hb), fun h b hb => hc.2 h b (List.mem_cons_of_mem _ hb)⟩
  have ha1 := fun h => hc.1 h a List.mem_cons_self
  have ha2 := fun h => hc.2 h a List.mem_cons_self
  cases ws with
  | sync => cases a <;> simp_all [callWrapper, awaitIfNeeded, Answer.flavour]
  | async => cases a <;> simp_all [callWrapper, awaitIfNeeded, Answer.flavour]
  | undecided =>
    cases a with
    | raisesSync e => exact ⟨hrest, rfl⟩
    | plain v =>
      refine ⟨⟨fun _ b hb => ?_, (fun h => by cases h)⟩, rfl⟩
      rcases hs with h | h
      · exact h b (List.mem_cons_of_mem _ hb)
      · exact absurd rfl (h (.plain v) List.mem_cons_self)
    | awaitable v =>
      refine ⟨⟨(fun h => by cases h), fun _ b hb => ?_⟩, rfl⟩
      rcases hs with h | h
      · exact absurd rfl (h (.awaitable v) List.mem_cons_self)
      · exact h b (List.mem_cons_of_mem _ hb)
    | awaitableRaising v =>
      refine ⟨⟨(fun h => by cases h), fun _ b hb => ?_⟩, rfl⟩
      rcases hs with h | h
      · exact absurd rfl (h (.awaitableRaising v) List.mem_cons_self)
      · exact h b (List.mem_cons_of_mem _ hb)

theorem bumpBy_succ (c : Nat → Nat) (f k : Nat) : bumpBy (bump c f) f k = bumpBy c f (k + 1) := by
  funext g
  simp only [bumpBy, bump]
  split <;> omega

theorem bumpBy_zero (c : Nat → Nat) (f : Nat) : bumpBy c f 0 = c := by
  funext g
  simp [bumpBy]

theorem calls_through_awaitify (fs : Nat → Func) (n f : Nat) : ∀ (k : Nat) (s : St) (ws : WState),
    s.wrappers[n]? = some (.awaitify f ws) → Stable (segment (fs f) (s.calls f) k) →
    Compat ws (segment (fs f) (s.calls f) k) →
    (∀ e ∈ run fs s (List.replicate k (.call n)), specEv e = e) ∧
    (stateAfter fs s (List.replicate k (.call n))).wrappers.length = s.wrappers.length ∧
    (stateAfter fs s (List.replicate k (.call n))).calls = bumpBy s.calls f k := by
  intro k
  induction k with
  | zero => intro s ws _ _ _; simp [run, stateAfter, bumpBy_zero]
  | succ k ih =>
    intro s ws hw hs hc
    have hlt := lt_of_getElem?_some hw
    have hst : step fs s (.call n) =
        ({ wrappers := s.wrappers.set n (.awaitify f (callWrapper ws ((fs f).answer (s.calls f))).1),
           calls := bump s.calls f },
         ⟨.call n, some ((fs f).answer (s.calls f)), (callWrapper ws ((fs f).answer (s.calls f))).2⟩) := by
      simp [step, hw]
    simp only [segment] at hs hc
    obtain ⟨hc', hout⟩ := compat_step ws _ _ hs hc
    have hcalls : bump s.calls f f = s.calls f + 1 := by simp [bump]
    obtain ⟨h1, h2, h3⟩ := ih (step fs s (.call n)).1 (callWrapper ws ((fs f).answer (s.calls f))).1
      (by rw [hst]; exact List.getElem?_set_self hlt)
      (by rw [hst]; simp only [hcalls]; exact stable_tail hs)
      (by rw [hst]; simp only [hcalls]; exact hc')
    simp only [List.replicate_succ, run, stateAfter]
    refine ⟨?_, ?_, ?_⟩
    · intro e he
      rcases List.mem_cons.mp he with rfl | he
      · rw [hst]; simp only [specEv, hout]
      · exact h1 e he
    · rw [h2, hst]; simp
    · rw [h3, hst]; exact bumpBy_succ _ _ _

theorem calls_through_function (fs : Nat → Func) (n f : Nat) : ∀ (k : Nat) (s : St),
    s.wrappers[n]? = some (.function f) →
    (∀ e ∈ run fs s (List.replicate k (.call n)), specEv e = e) ∧
    (stateAfter fs s (List.replicate k (.call n))).wrappers.length = s.wrappers.length ∧
    (stateAfter fs s (List.replicate k (.call n))).calls = bumpBy s.calls f k := by
  intro k
  induction k with
  | zero => intro s _; simp [run, stateAfter, bumpBy_zero]
  | succ k ih =>
    intro s hw
    have hst : step fs s (.call n) = ({ s with calls := bump s.calls f },
        ⟨.call n, some ((fs f).answer (s.calls f)), awaitIfNeeded ((fs f).answer (s.calls f))⟩) := by
      simp [step, hw]
    obtain ⟨h1, h2, h3⟩ := ih (step fs s (.call n)).1 (by rw [hst]; exact hw)
    simp only [List.replicate_succ, run, stateAfter]
    refine ⟨?_, ?_, ?_⟩
    · intro e he
      rcases List.mem_cons.mp he with rfl | he
      · rw [hst]; rfl
      · exact h1 e he
    · rw [h2, hst]
    · rw [h3, hst]; exact bumpBy_succ _ _ _

theorem tools_match (fs : Nat → Func) : ∀ (tcs : List ToolCall) (s : St), StableTools fs s.calls tcs →
    ∀ e ∈ run fs s (toolOps s.wrappers.length tcs), specEv e = e := by
  intro tcs
  induction tcs with
  | nil => intro s _ e he; simp [toolOps, run] at he
  | cons tc rest ih =>
    intro s hst e he
    obtain ⟨hs1, hs2⟩ := hst
    simp only [toolOps, run, run_append, List.mem_cons, List.mem_append] at he
    have hlen : (step fs s (.wrap tc.f)).1.wrappers.length = s.wrappers.length + 1 := by simp [step]
    have hcalls : (step fs s (.wrap tc.f)).1.calls = s.calls := rfl
    have hget : (step fs s (.wrap tc.f)).1.wrappers[s.wrappers.length]? =
        some (if (fs tc.f).coro then Wrapper.function tc.f else Wrapper.awaitify tc.f .undecided) := by
      simp [step]
    have key : (∀ e ∈ run fs (step fs s (.wrap tc.f)).1 (List.replicate tc.ncalls (.call s.wrappers.length)), specEv e = e) ∧
        (stateAfter fs (step fs s (.wrap tc.f)).1 (List.replicate tc.ncalls (.call s.wrappers.length))).wrappers.length
          = s.wrappers.length + 1 ∧
        (stateAfter fs (step fs s (.wrap tc.f)).1 (List.replicate tc.ncalls (.call s.wrappers.length))).calls
          = bumpBy s.calls tc.f tc.ncalls := by
      by_cases hco : (fs tc.f).coro
      · simp only [hco, if_true] at hget
        have := calls_through_function fs s.wrappers.length tc.f tc.ncalls _ hget
        rw [hlen, hcalls] at this; exact this
      · simp only [hco, Bool.false_eq_true, if_false] at hget
        have := calls_through_awaitify fs s.wrappers.length tc.f tc.ncalls _ .undecided hget
          (by rw [hcalls]; exact hs1) ⟨(fun h => by cases h), (fun h => by cases h)⟩
        rw [hlen, hcalls] at this; exact this
    obtain ⟨k1, k2, k3⟩ := key
    rcases he with rfl | he | he
    · rfl
    · exact k1 e he
    · rw [← k2] at he
      exact ih _ (by rw [k3]; exact hs2) e he

theorem map_specEv_eq_self' (tr : List Event) (h : ∀ e ∈ tr, specEv e = e) : tr.map specEv = tr := by
  induction tr with
  | nil => rfl
  | cons e tr ih =>
    simp only [List.map_cons, h e List.mem_cons_self, ih (fun e he => h e (List.mem_cons_of_mem _ he))]

/-! ### glue for the property statements -/

instance (as : List Answer) : Decidable (Stable as) := by unfold Stable; exact inferInstance

theorem answersVia_specRun (fs : Nat → Func) (ops : List Op) (w : Nat) :
    answersVia w (specRun fs specInit ops) = answersVia w (run fs init ops) := by
  rw [← proj_init, specRun_eq]
  unfold answersVia
  rw [List.filterMap_map]
  rfl

theorem outIn_ne_spec_iff (ws : WState) (a : Answer) :
    outIn ws a ≠ awaitIfNeeded a ↔
      (ws = .sync ∧ a.flavour = some true) ∨ (ws = .async ∧ a.flavour = some false) := by
  cases ws <;> cases a <;> simp [outIn, awaitIfNeeded, Answer.flavour]

end AsyncVerif.AwaitifyReuse
