import AsyncVerif.Machines.BorrowSend
/-!
# Lemmas about `Machines/BorrowSend.lean` (used by `Properties/C07Send.lean`)
-/
namespace AsyncVerif.BorrowSend
open AsyncVerif.Borrow (Val ExcId Kind SendTgt)

def resItems : Res → List Val
  | .item v => [v]
  | _ => []

def outItems : Out → List Val
  | .res r => resItems r
  | _ => []

theorem delivered_cons (o : Out) (r : List Out) : delivered (o :: r) = outItems o ++ delivered r := by
  cases o with
  | res x => cases x <;> simp [delivered, outItems, resItems]
  | _ => simp [delivered, outItems]

/-! ## The underlying iterator -/

theorem advance_log (u : U) : (advance u).1.log = u.log := by
  unfold advance; split
  · rfl
  · split <;> rfl

theorem advance_hasClose (u : U) : (advance u).1.hasClose = u.hasClose := by
  unfold advance; split
  · rfl
  · split <;> rfl

theorem advance_items (u : U) : u.rest = resItems (advance u).2 ++ (advance u).1.rest := by
  unfold advance; split
  · simp [resItems]
  · split <;> simp_all [resItems]

theorem pullU_log (u : U) : (pullU u).1.log = u.log ++ [.pull] := by
  simp [pullU, advance_log, logged]

theorem pullU_hasClose (u : U) : (pullU u).1.hasClose = u.hasClose := by
  simp [pullU, advance_hasClose, logged]

theorem pullU_items (u : U) : u.rest = resItems (pullU u).2 ++ (pullU u).1.rest := by
  simpa [pullU, logged] using advance_items (logged u .pull)

theorem sendU_log (v : Option Val) (u : U) : (sendU v u).1.log = u.log ++ [.sent v] := by
  simp only [sendU]; split <;> simp [advance_log, logged]

theorem sendU_hasClose (v : Option Val) (u : U) : (sendU v u).1.hasClose = u.hasClose := by
  simp only [sendU]; split <;> simp [advance_hasClose, logged]

theorem sendU_items (v : Option Val) (u : U) : u.rest = resItems (sendU v u).2 ++ (sendU v u).1.rest := by
  simp only [sendU]; split
  · simp [resItems, logged]
  · simpa [logged] using advance_items (logged u (.sent v))

theorem throwU_log (e : ExcId) (u : U) : (throwU e u).1.log = u.log ++ [.thrown e] := by
  simp only [throwU]
  split
  · split
    · simp [logged]
    · simp [logged]
    · split <;> simp [advance_log, logged]
  · split <;> simp [advance_log, logged]

theorem throwU_hasClose (e : ExcId) (u : U) : (throwU e u).1.hasClose = u.hasClose := by
  simp only [throwU]
  split
  · split
    · simp [logged]
    · simp [logged]
    · split <;> simp [advance_hasClose, logged]
  · split <;> simp [advance_hasClose, logged]

theorem throwU_items (e : ExcId) (u : U) : u.rest = resItems (throwU e u).2 ++ (throwU e u).1.rest := by
  simp only [throwU]
  split
  · split
    · simp [resItems, logged]
    · simp [resItems, logged]
    · split
      · simpa [logged] using advance_items (logged u (.thrown e))
      · simp [resItems, logged]
  · split
    · simpa [logged] using advance_items (logged u (.thrown e))
    · simp [resItems, logged]

theorem count_closed_append_one (l : List UEv) (ev : UEv) (h : ev ≠ .closed) :
    (l ++ [ev]).count .closed = l.count .closed := by
  simp [List.count_append, h]

/-! ## How handle records evolve -/

structure HLe (a b : Handle) : Prop where
  parent : b.parent = a.parent
  kind : b.kind = a.kind
  closedStays : a.wopen = false → b.wopen = false
  sendDead : a.send = .dead → b.send = .dead
  throwDead : a.throw = .dead → b.throw = .dead
  sendAbsent : a.send = .absent → b.send = .absent
  throwAbsent : a.throw = .absent → b.throw = .absent

theorem HLe.refl (a : Handle) : HLe a a := ⟨rfl, rfl, id, id, id, id, id⟩

theorem HLe.trans {a b c : Handle} (h1 : HLe a b) (h2 : HLe b c) : HLe a c :=
  ⟨h2.parent.trans h1.parent, h2.kind.trans h1.kind, fun h => h2.closedStays (h1.closedStays h),
   fun h => h2.sendDead (h1.sendDead h), fun h => h2.throwDead (h1.throwDead h),
   fun h => h2.sendAbsent (h1.sendAbsent h), fun h => h2.throwAbsent (h1.throwAbsent h)⟩

theorem HLe.finish (a : Handle) : HLe a (finishWrapper a) :=
  ⟨rfl, rfl, fun _ => rfl, id, id, id, id⟩

theorem HLe.close (a : Handle) : HLe a (closeWrapper a) := by
  refine ⟨rfl, rfl, fun _ => rfl, ?_, ?_, ?_, ?_⟩ <;> intro h <;> simp [closeWrapper, h, deaden]

/-- the handle table only grows, and each record evolves by `HLe` -/
def HsMono (hs hs' : List Handle) : Prop :=
  hs.length ≤ hs'.length ∧ ∀ (j : Nat) (hd : Handle), hs[j]? = some hd → ∃ hd', hs'[j]? = some hd' ∧ HLe hd hd'

theorem HsMono.refl (hs : List Handle) : HsMono hs hs :=
  ⟨Nat.le_refl _, fun _ hd h => ⟨hd, h, HLe.refl hd⟩⟩

theorem HsMono.trans {a b c : List Handle} (h1 : HsMono a b) (h2 : HsMono b c) : HsMono a c := by
  refine ⟨Nat.le_trans h1.1 h2.1, ?_⟩
  intro j hd h
  obtain ⟨hd1, e1, l1⟩ := h1.2 j hd h
  obtain ⟨hd2, e2, l2⟩ := h2.2 j hd1 e1
  exact ⟨hd2, e2, l1.trans l2⟩

theorem HsMono.modify (hs : List Handle) (i : Nat) (f : Handle → Handle) (hf : ∀ hd, HLe hd (f hd)) :
    HsMono hs (hs.modify i f) := by
  refine ⟨by simp, ?_⟩
  intro j hd h
  rw [List.getElem?_modify, h]
  by_cases hij : i = j
  · exact ⟨f hd, by simp [hij], hf hd⟩
  · exact ⟨hd, by simp [hij], HLe.refl hd⟩

theorem lt_of_getElem? {α} {l : List α} {i : Nat} {a : α} (h : l[i]? = some a) : i < l.length := by
  rcases Nat.lt_or_ge i l.length with h' | h'
  · exact h'
  · rw [List.getElem?_eq_none h'] at h; cases h

theorem HsMono.append (hs : List Handle) (l : List Handle) : HsMono hs (hs ++ l) := by
  refine ⟨by simp, ?_⟩
  intro j hd h
  have hj : j < hs.length := lt_of_getElem? h
  exact ⟨hd, by rw [List.getElem?_append_left hj]; exact h, HLe.refl hd⟩

/-! ## One pull through the handle tree -/

structure PullSpec (s : State) (r : State × Res) : Prop where
  hasClose : r.1.u.hasClose = s.u.hasClose
  closed : r.1.u.log.count .closed = s.u.log.count .closed
  mono : HsMono s.hs r.1.hs
  len : r.1.hs.length = s.hs.length
  items : s.u.rest = resItems r.2 ++ r.1.u.rest

theorem pullH_none (fuel : Nat) (s : State) :
    pullH fuel s none = ({ s with u := (pullU s.u).1 }, (pullU s.u).2) := by
  cases fuel <;> rfl

theorem pullSpec_same (s : State) (r : Res) (h : resItems r = []) : PullSpec s (s, r) :=
  ⟨rfl, rfl, HsMono.refl _, rfl, by simp [h]⟩

theorem pullH_spec : ∀ (fuel : Nat) (s : State) (t : Option Nat), PullSpec s (pullH fuel s t) := by
  intro fuel
  induction fuel with
  | zero =>
    intro s t
    cases t with
    | none =>
      rw [pullH_none]
      exact ⟨pullU_hasClose _, by simp [pullU_log], HsMono.refl _, rfl,
        pullU_items _⟩
    | some h => exact pullSpec_same s _ rfl
  | succ fuel ih =>
    intro s t
    cases t with
    | none =>
      rw [pullH_none]
      exact ⟨pullU_hasClose _, by simp [pullU_log], HsMono.refl _, rfl,
        pullU_items _⟩
    | some h =>
      simp only [pullH]
      split
      · exact pullSpec_same s _ rfl
      · rename_i hd _
        split
        · exact pullSpec_same s _ rfl
        · have hp := ih s hd.parent
          split
          · rename_i v hv
            refine ⟨hp.hasClose, hp.closed, hp.mono, hp.len, ?_⟩
            have := hp.items
            rw [hv] at this
            exact this
          · exact ⟨hp.hasClose, hp.closed, hp.mono.trans (HsMono.modify _ h finishWrapper HLe.finish),
              by simp [hp.len], hp.items⟩

/-! ## One step -/

structure StepSpec (s : State) (op : Op) : Prop where
  hasClose : (step s op).1.u.hasClose = s.u.hasClose
  closed : (step s op).1.u.log.count .closed = s.u.log.count .closed + (if ownerExit s op then 1 else 0)
  mono : HsMono s.hs (step s op).1.hs
  items : s.u.rest = outItems (step s op).2 ++ (step s op).1.u.rest

theorem stepSpec_same (s : State) (op : Op) (o : Out) (h : step s op = (s, o)) (ho : outItems o = [])
    (hx : ownerExit s op = false) : StepSpec s op := by
  refine ⟨by rw [h], by rw [h, hx]; simp, by rw [h]; exact HsMono.refl _, by rw [h]; simp [ho]⟩

theorem closeH_u (s : State) (h : Nat) : (closeH s h).u = s.u := by
  unfold closeH; split
  · rfl
  · split <;> rfl

theorem closeH_mono (s : State) (h : Nat) : HsMono s.hs (closeH s h).hs := by
  unfold closeH; split
  · exact HsMono.refl _
  · split
    · exact HsMono.modify _ _ _ HLe.close
    · exact HsMono.refl _

theorem closeU_hasClose (u : U) : (closeU u).hasClose = u.hasClose := by
  unfold closeU; split <;> rfl

theorem closeU_rest (u : U) : (closeU u).rest = u.rest := by
  unfold closeU; split <;> rfl

theorem closeU_closed (u : U) :
    (closeU u).log.count .closed = u.log.count .closed + (if u.hasClose then 1 else 0) := by
  unfold closeU; split <;> simp_all [List.count_append]

theorem step_spec (s : State) (op : Op) : StepSpec s op := by
  cases op with
  | next h =>
    by_cases hv : h < s.hs.length
    · have hp := pullH_spec s.hs.length s (some h)
      have e : step s (.next h) = ((pullH s.hs.length s (some h)).1, .res (pullH s.hs.length s (some h)).2) := by
        simp [step, hv]
      exact ⟨by rw [e]; exact hp.hasClose, by rw [e]; simpa [ownerExit] using hp.closed,
        by rw [e]; exact hp.mono, by rw [e]; exact hp.items⟩
    · exact stepSpec_same s _ .invalid (by simp [step, hv]) rfl rfl
  | asend h v =>
    cases hh : s.hs[h]? with
    | none => exact stepSpec_same s _ .invalid (by simp [step, hh]) rfl rfl
    | some hd =>
      cases hs : hd.send with
      | absent => exact stepSpec_same s _ .noattr (by simp [step, hh, hs]) rfl rfl
      | dead => exact stepSpec_same s _ (.res .stop) (by simp [step, hh, hs]) rfl rfl
      | direct =>
        have e : step s (.asend h v) = ({ s with u := (sendU v s.u).1 }, .res (sendU v s.u).2) := by
          simp [step, hh, hs]
        exact ⟨by rw [e]; exact sendU_hasClose _ _,
          by rw [e]; simp [ownerExit, sendU_log],
          by rw [e]; exact HsMono.refl _, by rw [e]; exact sendU_items _ _⟩
  | athrow h x =>
    cases hh : s.hs[h]? with
    | none => exact stepSpec_same s _ .invalid (by simp [step, hh]) rfl rfl
    | some hd =>
      cases hs : hd.throw with
      | absent => exact stepSpec_same s _ .noattr (by simp [step, hh, hs]) rfl rfl
      | dead => exact stepSpec_same s _ (.res .nothing) (by simp [step, hh, hs]) rfl rfl
      | direct =>
        have e : step s (.athrow h x) = ({ s with u := (throwU x s.u).1 }, .res (throwU x s.u).2) := by
          simp [step, hh, hs]
        exact ⟨by rw [e]; exact throwU_hasClose _ _,
          by rw [e]; simp [ownerExit, throwU_log],
          by rw [e]; exact HsMono.refl _, by rw [e]; exact throwU_items _ _⟩
  | close h =>
    by_cases hv : h < s.hs.length
    · have e : step s (.close h) = (closeH s h, .ok) := by simp [step, hv]
      exact ⟨by rw [e, closeH_u], by rw [e, closeH_u]; simp [ownerExit],
        by rw [e]; exact closeH_mono s h, by rw [e, closeH_u]; simp [outItems]⟩
    · exact stepSpec_same s _ .invalid (by simp [step, hv]) rfl rfl
  | scopeExit h =>
    cases hh : s.hs[h]? with
    | none => exact stepSpec_same s _ .invalid (by simp [step, hh]) rfl (by simp [ownerExit, hh])
    | some hd =>
      cases hk : hd.kind
      · exact stepSpec_same s _ .invalid (by simp [step, hh, hk]) rfl (by simp [ownerExit, hh, hk])
      · have e : step s (.scopeExit h)
            = (closeT { s with hs := s.hs.modify h closeWrapper } hd.parent, .ok) := by
          simp [step, hh, hk]
        have hm : HsMono s.hs (s.hs.modify h closeWrapper) := HsMono.modify _ _ _ HLe.close
        cases hp : hd.parent with
        | none =>
          rw [hp] at e
          refine ⟨by rw [e]; simp [closeT, closeU_hasClose], ?_, by rw [e]; exact hm,
            by rw [e]; simp [closeT, closeU_rest, outItems]⟩
          rw [e]
          simp only [closeT, closeU_closed, ownerExit, hh, hk, hp]
          cases s.u.hasClose <;> simp
        | some p =>
          rw [hp] at e
          refine ⟨by rw [e]; simp [closeT, closeH_u], ?_, ?_, by rw [e]; simp [closeT, closeH_u, outItems]⟩
          · rw [e]; simp [closeT, closeH_u, ownerExit, hh, hk, hp]
          · rw [e]; exact hm.trans (closeH_mono { s with hs := s.hs.modify h closeWrapper } p)
  | borrow t =>
    by_cases hv : validT s t = true
    · have e : step s (.borrow t) = ({ s with hs := s.hs ++ [newHandle s t .borrowed] }, .handle s.hs.length) := by
        simp [step, hv]
      exact ⟨by rw [e], by rw [e]; simp [ownerExit], by rw [e]; exact HsMono.append _ _,
        by rw [e]; simp [outItems]⟩
    · exact stepSpec_same s _ .invalid (by simp [step, hv]) rfl rfl
  | scope t =>
    by_cases hv : validT s t = true
    · by_cases hn : (t = none && !s.u.hasClose) = true
      · exact stepSpec_same s _ .nullctx (by simp only [step, hv, hn]; simp) rfl rfl
      · have e : step s (.scope t) = ({ s with hs := s.hs ++ [newHandle s t .scoped] }, .handle s.hs.length) := by
          simp only [step, hv, hn]; simp
        exact ⟨by rw [e], by rw [e]; simp [ownerExit], by rw [e]; exact HsMono.append _ _,
          by rw [e]; simp [outItems]⟩
    · exact stepSpec_same s _ .invalid (by simp [step, hv]) rfl rfl

/-! ## Runs -/

theorem exec_cons (s : State) (op : Op) (ops : List Op) :
    exec s (op :: ops) = exec (step s op).1 ops := rfl

theorem exec_closed (ops : List Op) : ∀ s : State,
    (exec s ops).u.log.count .closed = s.u.log.count .closed + ownerExits s ops := by
  induction ops with
  | nil => intro s; simp [exec, ownerExits]
  | cons op r ih =>
    intro s
    rw [exec_cons, ih, (step_spec s op).closed]
    simp only [ownerExits]; omega

theorem exec_items (ops : List Op) : ∀ s : State,
    s.u.rest = delivered (outs s ops) ++ (exec s ops).u.rest := by
  induction ops with
  | nil => intro s; simp [exec, outs, delivered]
  | cons op r ih =>
    intro s
    rw [exec_cons, outs, delivered_cons, List.append_assoc, ← ih, ← (step_spec s op).items]

theorem exec_mono (ops : List Op) : ∀ s : State, HsMono s.hs (exec s ops).hs := by
  induction ops with
  | nil => intro s; exact HsMono.refl _
  | cons op r ih =>
    intro s
    rw [exec_cons]
    exact (step_spec s op).mono.trans (ih _)

theorem ownerExits_zero (ops : List Op) (h : ∀ op ∈ ops, ∀ x, op ≠ .scopeExit x) :
    ∀ s : State, ownerExits s ops = 0 := by
  induction ops with
  | nil => intro s; rfl
  | cons op r ih =>
    intro s
    have h1 : ownerExit s op = false := by
      cases op with
      | scopeExit x => exact absurd rfl (h _ (by simp) x)
      | _ => rfl
    simp only [ownerExits, h1]
    rw [ih (fun o ho => h o (by simp [ho]))]
    simp

/-! ## A handle nobody closes keeps its slots -/

def slots (hd : Handle) : SendTgt × SendTgt := (hd.send, hd.throw)

/-- an `aclose()` aimed at handle `h`, leaving the scope `h` belongs to, or leaving a scope that
    was opened on `h` -/
def aimsAt (s : State) (h : Nat) : Op → Bool
  | .close x => x == h
  | .scopeExit c => c == h || (match s.hs[c]? with | some cd => cd.parent == some h | none => false)
  | _ => false

/-- no operation of the run is aimed at `h` -/
def untouched (h : Nat) : State → List Op → Bool
  | _, [] => true
  | s, op :: ops => !aimsAt s h op && untouched h (step s op).1 ops

theorem modify_finish_slots (l : List Handle) (i j : Nat) :
    ((l.modify i finishWrapper)[j]?).map slots = (l[j]?).map slots := by
  rw [List.getElem?_modify]
  split <;> cases l[j]? <;> simp [slots, finishWrapper]

theorem modify_ne (l : List Handle) (i j : Nat) (f : Handle → Handle) (hij : i ≠ j) :
    (l.modify i f)[j]? = l[j]? := by
  rw [List.getElem?_modify]; simp [hij]

theorem pullH_slots : ∀ (fuel : Nat) (s : State) (t : Option Nat) (j : Nat),
    ((pullH fuel s t).1.hs[j]?).map slots = (s.hs[j]?).map slots := by
  intro fuel
  induction fuel with
  | zero =>
    intro s t j
    cases t with
    | none => rw [pullH_none]
    | some h => rfl
  | succ fuel ih =>
    intro s t j
    cases t with
    | none => rw [pullH_none]
    | some h =>
      simp only [pullH]
      split
      · rfl
      · rename_i hd _
        split
        · rfl
        · split
          · exact ih s hd.parent j
          · simp only []
            rw [modify_finish_slots]; exact ih s hd.parent j

theorem closeH_ne (s : State) (p h : Nat) (hne : p ≠ h) : (closeH s p).hs[h]? = s.hs[h]? := by
  unfold closeH; split
  · rfl
  · split
    · exact modify_ne _ _ _ _ hne
    · rfl

theorem step_slots (s : State) (h : Nat) (op : Op) (hu : aimsAt s h op = false) (hd : Handle)
    (hh : s.hs[h]? = some hd) : ((step s op).1.hs[h]?).map slots = some (slots hd) := by
  have hl := lt_of_getElem? hh
  have base : (s.hs[h]?).map slots = some (slots hd) := by rw [hh]; rfl
  cases op with
  | next x =>
    simp only [step]; split
    · rw [pullH_slots]; exact base
    · exact base
  | asend x v =>
    simp only [step]; split
    · exact base
    · split <;> exact base
  | athrow x e =>
    simp only [step]; split
    · exact base
    · split <;> exact base
  | close x =>
    have hne : x ≠ h := by simpa [aimsAt] using hu
    simp only [step]; split
    · rw [closeH_ne _ _ _ hne]; exact base
    · exact base
  | scopeExit c =>
    simp only [aimsAt, Bool.or_eq_false_iff] at hu
    have hne : c ≠ h := by simpa using hu.1
    simp only [step]; split
    · exact base
    · rename_i cd hc
      split
      · exact base
      · have hm : (s.hs.modify c closeWrapper)[h]? = s.hs[h]? := modify_ne _ _ _ _ hne
        cases hp : cd.parent with
        | none => simp only [closeT]; rw [hm]; exact base
        | some p =>
          have hpne : p ≠ h := by
            have := hu.2; rw [hc] at this; simp [hp] at this; exact this
          simp only [closeT]; rw [closeH_ne _ _ _ hpne, hm]; exact base
  | borrow t =>
    simp only [step]; split
    · simp only []; rw [List.getElem?_append_left hl]; exact base
    · exact base
  | scope t =>
    simp only [step]; split
    · split
      · exact base
      · simp only []; rw [List.getElem?_append_left hl]; exact base
    · exact base

theorem exec_slots (ops : List Op) : ∀ (s : State) (h : Nat) (hd : Handle), s.hs[h]? = some hd →
    untouched h s ops = true → ((exec s ops).hs[h]?).map slots = some (slots hd) := by
  induction ops with
  | nil => intro s h hd hh _; simp [exec, hh]
  | cons op r ih =>
    intro s h hd hh hu
    simp only [untouched, Bool.and_eq_true, Bool.not_eq_true'] at hu
    have h1 := step_slots s h op hu.1 hd hh
    cases h2 : (step s op).1.hs[h]? with
    | none => rw [h2] at h1; cases h1
    | some hd1 =>
      rw [h2] at h1
      have e : slots hd1 = slots hd := by simpa using h1
      rw [exec_cons, ih _ h hd1 h2 hu.2, e]

/-! ## Closing a handle -/

/-- the operations whose real counterpart runs `_aclose_wrapper` of handle `h`: `h.aclose()` on a
    borrowed handle, leaving the scope that `h` is the scoped handle of, and leaving a scope that
    was opened *on* the borrowed handle `h` (its `__aexit__` calls `h.aclose()`) -/
def ClosesHandle (s : State) (h : Nat) (hd : Handle) (op : Op) : Prop :=
  (op = .close h ∧ hd.kind = .borrowed)
  ∨ (op = .scopeExit h ∧ hd.kind = .scoped)
  ∨ (∃ c cd, op = .scopeExit c ∧ s.hs[c]? = some cd ∧ cd.kind = .scoped ∧ cd.parent = some h
      ∧ hd.kind = .borrowed)

/-- `_aclose_wrapper` reached the handle: its slots no longer point to the underlying iterator -/
theorem closesHandle_slots (s : State) (h : Nat) (hd : Handle) (hh : s.hs[h]? = some hd)
    (op : Op) (hc : ClosesHandle s h hd op) :
    (step s op).1.hs[h]? = some (closeWrapper hd) := by
  have hl := lt_of_getElem? hh
  rcases hc with ⟨rfl, hk⟩ | ⟨rfl, hk⟩ | ⟨c, cd, rfl, hcc, hck, hcp, hk⟩
  · have e : closeH s h = { s with hs := s.hs.modify h closeWrapper } := by simp [closeH, hh, hk]
    have e2 : step s (.close h) = (closeH s h, .ok) := by simp [step, hl]
    rw [e2, e]; simp [hh]
  · cases hp : hd.parent with
    | none => simp [step, hh, hk, hp, closeT]
    | some p =>
      have hne : p ≠ h ∨ p = h := by omega
      simp only [step, hh, hk, hp, closeT, closeH]
      split
      · simp [hh]
      · rename_i pd hpd
        split
        · rename_i hpk
          rcases hne with hne | rfl
          · simp [hh, hne]
          · simp [hh] at hpd
            subst hpd
            simp [closeWrapper, hk] at hpk
        · simp [hh]
  · have hne : c ≠ h := by
      intro e; subst e; rw [hh] at hcc; injection hcc with e; subst e; rw [hk] at hck; cases hck
    have h1 : (s.hs.modify c closeWrapper)[h]? = some hd := by
      simp [hh, hne]
    simp [step, hcc, hck, hcp, closeT, closeH, h1, hk]

end AsyncVerif.BorrowSend
