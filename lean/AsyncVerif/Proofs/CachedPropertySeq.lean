import AsyncVerif.Proofs.CachedPropertyMono
/-!
# cached_property — sequential histories refine the specification (`Spec`, `specStep`)

Closed form of a sequential await (`sched_start_*`, `drive_getter`, `afterRun`) and the simulation
`Sim` between quiescent machine states and specification states.
-/
namespace AsyncVerif.CachedProperty

theorem setPc_setPc (s : State) (t : Nat) (a b : Pc) : setPc (setPc s t a) t b = setPc s t b := by
  simp only [setPc]
  congr 1
  funext t'
  split <;> rfl

theorem setPc_self (s : State) (t : Nat) (a : Pc) (h : s.pc t = a) : setPc s t a = s := by
  cases s
  simp only [setPc] at *
  congr 1
  funext t'
  split
  · rename_i e; rw [e, h]
  · rfl

theorem sched_done (cfg : Cfg) (s : State) (t : Nat) (res : Res) (h : s.pc t = .done res) :
    sched cfg s t = (s, .noop) := by
  simp [sched, schedFuel, schedN, micro, h]

theorem drive_done (cfg : Cfg) (t : Nat) (res : Res) : ∀ (n : Nat) (s : State), s.pc t = .done res →
    drive cfg s t n = s := by
  intro n
  induction n with
  | zero => intro s h; simp [drive, sched_done cfg s t res h]
  | succ n ih => intro s h; simp only [drive, sched_done cfg s t res h]; exact ih s h

/-- a task inside getter run r with k suspensions to go, scheduled k+1 times, completes the run -/
theorem drive_getter (cfg : Cfg) (t p r : Nat) : ∀ (k : Nat) (s : State), s.pc t = .getter p r k →
    drive cfg s t k = (complete cfg (setPc s t (.getter p r 0)) t p r).1 := by
  intro k
  induction k with
  | zero =>
    intro s h
    rw [setPc_self s t _ h]
    cases hok : cfg.ok r <;> simp [drive, sched, schedFuel, schedN, micro, h, complete, hok]
  | succ k ih =>
    intro s h
    have : sched cfg s t = (setPc s t (.getter p r k), .suspended r) := by
      simp [sched, schedFuel, schedN, micro, h]
    simp only [drive, this]
    rw [ih _ (by simp [setPc]), setPc_setPc]

theorem State.ext' {s s' : State} (h1 : ∀ i, s.slot i = s'.slot i) (h2 : s.nextP = s'.nextP)
    (h3 : ∀ p, s.phInst p = s'.phInst p) (h4 : ∀ p, s.lock p = s'.lock p) (h5 : s.nTasks = s'.nTasks)
    (h6 : ∀ t, s.pc t = s'.pc t) (h7 : ∀ t, s.tinst t = s'.tinst t) (h8 : ∀ t, s.thandle t = s'.thandle t)
    (h9 : s.nRuns = s'.nRuns) (h10 : ∀ r, s.run r = s'.run r) (h11 : ∀ i, s.dels i = s'.dels i) : s = s' := by
  cases s; cases s'
  simp only [State.mk.injEq]
  exact ⟨funext h1, h2, funext h3, funext h4, h5, funext h6, funext h7, funext h8, h9, funext h10, funext h11⟩

/-- the state in which task t has just begun getter run `s.nRuns` for placeholder q (lock taken) -/
def begun (cfg : Cfg) (s : State) (t q : Nat) : State :=
  { (if cfg.lock then setLock s q (some t) else s) with
    nRuns := s.nRuns + 1,
    run := fun r' => if r' = s.nRuns then ⟨s.phInst q, q, t, .running⟩ else s.run r' }

theorem schedN_succ (cfg : Cfg) (n : Nat) (s : State) (t : Nat) :
    schedN cfg (n + 1) s t = match micro cfg s t with
      | (s1, some o) => (s1, o)
      | (s1, none) => schedN cfg n s1 t := rfl

/-- from the first line of `q._await_impl()` with the slot holding q and q's lock free: the getter
    run begins and reaches its first suspension or its end -/
theorem schedN_entered_self (cfg : Cfg) (s : State) (t q : Nat) (n : Nat)
    (hpc : s.pc t = .entered q) (hs : s.slot (s.phInst q) = some (.ph q)) (hl : s.lock q = none) :
    schedN cfg (n + 4) s t =
      match cfg.susp s.nRuns with
      | 0 => ((complete cfg (setPc (begun cfg s t q) t (.getter q s.nRuns 0)) t q s.nRuns).1,
              if cfg.ok s.nRuns then .ret s.nRuns else .raised s.nRuns)
      | k + 1 => (setPc (begun cfg s t q) t (.getter q s.nRuns k), .suspended s.nRuns) := by
  cases hlk : cfg.lock <;> cases hsu : cfg.susp s.nRuns <;> cases hok : cfg.ok s.nRuns <;>
    simp [schedN, micro, hpc, instanceValue, access, hs, hl, hlk, hsu, hok, setPc, setLock, complete, begun, release,
      setRunSt, setSlot] <;>
    (repeat' apply And.intro) <;> (funext x; grind)

/-- the state after a sequential await that had to run the getter: run `s.nRuns` for placeholder q -/
def afterRun (cfg : Cfg) (s : State) (t q : Nat) : State :=
  (complete cfg (setPc (begun cfg s t q) t (.getter q s.nRuns 0)) t q s.nRuns).1

theorem resultOf_afterRun (cfg : Cfg) (s : State) (t q : Nat) :
    resultOf (afterRun cfg s t q) t = if cfg.ok s.nRuns then .ret s.nRuns else .raised s.nRuns := by
  cases hok : cfg.ok s.nRuns <;> simp [afterRun, complete, hok, resultOf, setPc]

/-- driving the await to completion from the first line of `q._await_impl()` (slot holds q, lock free) -/
theorem drive_from_sched (cfg : Cfg) (s sE : State) (t q : Nat) (hn : sE.nRuns = s.nRuns)
    (hsched : sched cfg s t = match cfg.susp s.nRuns with
      | 0 => (afterRun cfg sE t q, if cfg.ok s.nRuns then .ret s.nRuns else .raised s.nRuns)
      | k + 1 => (setPc (begun cfg sE t q) t (.getter q s.nRuns k), .suspended s.nRuns)) :
    drive cfg s t (cfg.susp s.nRuns) = afterRun cfg sE t q := by
  cases hsu : cfg.susp s.nRuns with
  | zero => simp only [hsu] at hsched; simp [drive, hsched]
  | succ k =>
    simp only [hsu] at hsched
    simp only [drive, hsched]
    rw [drive_getter cfg t q s.nRuns k _ (by simp [setPc]), setPc_setPc, afterRun, hn]

theorem sched_start_self (cfg : Cfg) (s : State) (t p : Nat) (hpc : s.pc t = .start (.ph p))
    (hs : s.slot (s.phInst p) = some (.ph p)) (hl : s.lock p = none) :
    sched cfg s t = match cfg.susp s.nRuns with
      | 0 => (afterRun cfg (setPc s t (.entered p)) t p, if cfg.ok s.nRuns then .ret s.nRuns else .raised s.nRuns)
      | k + 1 => (setPc (begun cfg (setPc s t (.entered p)) t p) t (.getter p s.nRuns k), .suspended s.nRuns) := by
  have h1 : micro cfg s t = (setPc s t (.entered p), none) := by simp [micro, hpc]
  unfold sched schedFuel
  rw [schedN_succ, h1]
  simp only
  rw [schedN_entered_self cfg (setPc s t (.entered p)) t p 3 (by simp [setPc]) (by simpa [setPc] using hs)
    (by simpa [setPc] using hl)]
  rfl

theorem sched_start_other (cfg : Cfg) (s : State) (t p q : Nat) (hpc : s.pc t = .start (.ph p))
    (hs : s.slot (s.phInst p) = some (.ph q)) (hne : q ≠ p) (hq : s.phInst q = s.phInst p) (hl : s.lock q = none) :
    sched cfg s t = match cfg.susp s.nRuns with
      | 0 => (afterRun cfg (setPc s t (.entered q)) t q, if cfg.ok s.nRuns then .ret s.nRuns else .raised s.nRuns)
      | k + 1 => (setPc (begun cfg (setPc s t (.entered q)) t q) t (.getter q s.nRuns k), .suspended s.nRuns) := by
  have h1 : micro cfg s t = (setPc s t (.entered p), none) := by simp [micro, hpc]
  have h2 : micro cfg (setPc s t (.entered p)) t = (setPc s t (.entered q), none) := by
    simp [micro, setPc, instanceValue, access, hs, hne, awaitStored]
    funext x; grind
  unfold sched schedFuel
  rw [schedN_succ, h1]
  simp only
  rw [schedN_succ, h2]
  simp only
  rw [schedN_entered_self cfg (setPc s t (.entered q)) t q 2 (by simp [setPc]) (by simp only [setPc]; rw [hq]; exact hs)
    (by simpa [setPc] using hl)]
  rfl

theorem sched_start_none (cfg : Cfg) (s : State) (t p : Nat) (hpc : s.pc t = .start (.ph p))
    (hs : s.slot (s.phInst p) = none) (hp : p < s.nextP) :
    sched cfg s t = match cfg.susp s.nRuns with
      | 0 => (afterRun cfg (setPc (newPh s (s.phInst p)) t (.entered s.nextP)) t s.nextP,
              if cfg.ok s.nRuns then .ret s.nRuns else .raised s.nRuns)
      | k + 1 => (setPc (begun cfg (setPc (newPh s (s.phInst p)) t (.entered s.nextP)) t s.nextP) t
                  (.getter s.nextP s.nRuns k), .suspended s.nRuns) := by
  have hpn : ¬ s.nextP = p := by omega
  have h1 : micro cfg s t = (setPc s t (.entered p), none) := by simp [micro, hpc]
  have h2 : micro cfg (setPc s t (.entered p)) t = (setPc (newPh s (s.phInst p)) t (.entered s.nextP), none) := by
    simp [micro, setPc, instanceValue, access, hs, awaitStored, newPh, hpn]
    refine ⟨rfl, rfl, rfl, ?_⟩
    funext x; grind
  unfold sched schedFuel
  rw [schedN_succ, h1]
  simp only
  rw [schedN_succ, h2]
  simp only
  rw [schedN_entered_self cfg (setPc (newPh s (s.phInst p)) t (.entered s.nextP)) t s.nextP 2 (by simp [setPc])
    (by simp [setPc, newPh]) (by simp [setPc, newPh])]
  rfl

theorem sched_start_val (cfg : Cfg) (s : State) (t p v : Nat) (hpc : s.pc t = .start (.ph p))
    (hs : s.slot (s.phInst p) = some (.val v)) :
    sched cfg s t = (setPc s t (.done (.ok v)), .ret v) := by
  simp [sched, schedFuel, schedN, micro, hpc, setPc, instanceValue, access, hs, awaitStored]
  funext x; grind

theorem sched_start_handle_val (cfg : Cfg) (s : State) (t v : Nat) (hpc : s.pc t = .start (.val v)) :
    sched cfg s t = (setPc s t (.done (.ok v)), .ret v) := by
  simp [sched, schedFuel, schedN, micro, hpc]

/-! ## the simulation between sequential histories of the machine and the specification -/

def absSlot : Option Stored → Entry
  | none => .none
  | some (.ph _) => .touched
  | some (.val v) => .cached v

def absPc (s : State) : Pc → SHandle
  | .start (.val v) => .fixed v
  | .start (.ph p) => .late (s.phInst p)
  | _ => .used

/-- quiescent machine state ↔ specification state -/
structure Sim (cfg : Cfg) (s : State) (σ : Spec) : Prop where
  inv : Inv cfg s
  quiet : ∀ t, s.pc t = .unborn ∨ (∃ h, s.pc t = .start h) ∨ (∃ res, s.pc t = .done res)
  runs : σ.nRuns = s.nRuns
  tasks : σ.nTasks = s.nTasks
  cache : ∀ i, σ.cache i = absSlot (s.slot i)
  handle : ∀ t, σ.handle t = absPc s (s.pc t)

theorem Sim.free {cfg : Cfg} {s : State} {σ : Spec} (h : Sim cfg s σ) (p : Nat) : s.lock p = none := by
  cases hl : s.lock p with
  | none => rfl
  | some t =>
    exfalso
    rcases h.inv.lock_owner p t hl with hh | ⟨r, k, hh⟩ <;>
      rcases h.quiet t with h1 | ⟨x, h1⟩ | ⟨x, h1⟩ <;> rw [h1] at hh <;> cases hh

theorem drive_inv (cfg : Cfg) (t : Nat) : ∀ (n : Nat) (s : State), Inv cfg s → Inv cfg (drive cfg s t n) := by
  intro n
  induction n with
  | zero => intro s h; exact schedN_inv cfg _ s t h
  | succ n ih => intro s h; exact ih _ (schedN_inv cfg _ s t h)

theorem drive_finished (cfg : Cfg) (s : State) (t : Nat) (res : Res) (n : Nat)
    (h : ((sched cfg s t).1).pc t = .done res) : drive cfg s t n = (sched cfg s t).1 := by
  cases n with
  | zero => rfl
  | succ n => exact drive_done cfg t res n _ h

theorem init_sim (cfg : Cfg) : Sim cfg State.init Spec.init := by
  refine ⟨init_inv cfg, ?_, rfl, rfl, ?_, ?_⟩ <;> intro x <;> simp [State.init, Spec.init, absSlot, absPc]

theorem afterRun_proj (cfg : Cfg) (s : State) (t q : Nat) :
    (afterRun cfg s t q).slot = (if cfg.ok s.nRuns then
        (fun j => if j = s.phInst q then some (.val s.nRuns) else s.slot j) else s.slot) ∧
    (∀ t', (afterRun cfg s t q).pc t' = if t' = t then
        .done (if cfg.ok s.nRuns then .ok s.nRuns else .failed s.nRuns) else s.pc t') ∧
    (afterRun cfg s t q).nRuns = s.nRuns + 1 ∧ (afterRun cfg s t q).phInst = s.phInst ∧
    (afterRun cfg s t q).nTasks = s.nTasks := by
  cases hok : cfg.ok s.nRuns <;> cases hl : cfg.lock <;>
    simp [afterRun, complete, begun, hok, hl, setPc, setLock, setRunSt, setSlot, release] <;>
    intro t' <;> split <;> simp_all

theorem sim_served (cfg : Cfg) (s : State) (σ : Spec) (t v : Nat) (h : Sim cfg s σ)
    (hpc : ∃ x, s.pc t = .start x) (hinv : Inv cfg (setPc s t (.done (.ok v)))) :
    Sim cfg (setPc s t (.done (.ok v))) (σ.useTask t) := by
  obtain ⟨h1, h2, h3, h4, h5, h6⟩ := h
  refine ⟨hinv, ?_, h3, h4, h5, ?_⟩
  · intro t'; simp only [setPc]; grind
  · intro t'; simp only [setPc, Spec.useTask, absPc]; grind [absPc]

theorem sim_run (cfg : Cfg) (s sE : State) (σ : Spec) (t q i : Nat) (h : Sim cfg s σ)
    (hx : ∃ x, s.pc t = .start x) (hlate : σ.handle t = .late i)
    (hnv : ∀ v, s.slot i ≠ some (.val v))
    (e_pc : ∀ t', t' ≠ t → sE.pc t' = s.pc t')
    (e_slot : ∀ j, j ≠ i → sE.slot j = s.slot j) (e_sloti : sE.slot i = some (.ph q)) (e_phq : sE.phInst q = i)
    (e_ph : ∀ p', p' < s.nextP → sE.phInst p' = s.phInst p')
    (e_nr : sE.nRuns = s.nRuns) (e_nt : sE.nTasks = s.nTasks)
    (hinv : Inv cfg (afterRun cfg sE t q)) :
    Sim cfg (afterRun cfg sE t q) ((σ.useTask t).await cfg i).1 ∧
    ((σ.useTask t).await cfg i).2 = (if cfg.ok s.nRuns then .ret s.nRuns else .raised s.nRuns) := by
  obtain ⟨h1, h2, h3, h4, h5, h6⟩ := h
  obtain ⟨p1, p2, p3, p4, p5⟩ := afterRun_proj cfg sE t q
  have hc : ∀ v, (σ.useTask t).cache i ≠ .cached v := by
    intro v; simp only [Spec.useTask]; rw [h5 i]
    cases hsl : s.slot i with
    | none => simp [absSlot]
    | some x => cases x with
      | ph _ => simp [absSlot]
      | val w => exact absurd hsl (hnv w)
  have hstart := h1.pc_start
  cases hok : cfg.ok s.nRuns <;>
  · have hok' : cfg.ok sE.nRuns = cfg.ok s.nRuns := by rw [e_nr]
    simp only [hok, hok', e_nr] at p1 p2 ⊢
    unfold Spec.await
    split
    · rename_i v hv; exact absurd hv (hc v)
    · simp only [Spec.useTask, h3, hok, Bool.false_eq_true, if_false, if_true, and_true]
      refine ⟨hinv, ?_, ?_, ?_, ?_, ?_⟩
      · intro t'; rw [p2 t']; grind
      · rw [p3, e_nr]
      · rw [p5, e_nt]; exact h4
      · intro j; rw [p1]; simp only [Spec.setCache]; grind [absSlot]
      · intro t'
        rw [p2 t']
        by_cases ht : t' = t
        · simp [ht, absPc, Spec.setCache]
        · simp only [ht, if_false, Spec.setCache]
          rw [e_pc t' ht, h6 t']
          cases hpc : s.pc t' with
          | start x =>
            cases x with
            | ph p => simp only [absPc, p4]; rw [e_ph p (hstart t' p hpc).1]
            | val v => rfl
          | _ => rfl

/-- the run case, once the first `sched` has been computed -/
theorem awaitNow_run (cfg : Cfg) (s sE : State) (σ : Spec) (t p q : Nat) (h : Sim cfg s σ)
    (hpc : s.pc t = .start (.ph p)) (hnv : ∀ v, s.slot (s.phInst p) ≠ some (.val v))
    (hsched : sched cfg s t = match cfg.susp s.nRuns with
      | 0 => (afterRun cfg sE t q, if cfg.ok s.nRuns then .ret s.nRuns else .raised s.nRuns)
      | k + 1 => (setPc (begun cfg sE t q) t (.getter q s.nRuns k), .suspended s.nRuns))
    (e_pc : ∀ t', t' ≠ t → sE.pc t' = s.pc t')
    (e_slot : ∀ j, j ≠ s.phInst p → sE.slot j = s.slot j) (e_sloti : sE.slot (s.phInst p) = some (.ph q))
    (e_phq : sE.phInst q = s.phInst p) (e_ph : ∀ p', p' < s.nextP → sE.phInst p' = s.phInst p')
    (e_nr : sE.nRuns = s.nRuns) (e_nt : sE.nTasks = s.nTasks) :
    Sim cfg (awaitNow cfg s t).1 (specStep cfg σ (.awaitTaken t)).1 ∧
    (awaitNow cfg s t).2 = (specStep cfg σ (.awaitTaken t)).2 := by
  have hd := drive_from_sched cfg s sE t q e_nr hsched
  have hlate : σ.handle t = .late (s.phInst p) := by rw [h.handle t, hpc]; rfl
  have hinv : Inv cfg (afterRun cfg sE t q) := by rw [← hd]; exact drive_inv cfg t _ s h.inv
  have := sim_run cfg s sE σ t q (s.phInst p) h ⟨_, hpc⟩ hlate hnv e_pc e_slot e_sloti e_phq e_ph e_nr e_nt hinv
  simp only [awaitNow, hpc, hd, specStep, hlate, resultOf_afterRun, e_nr]
  exact ⟨this.1, this.2.symm⟩

theorem awaitNow_sim (cfg : Cfg) (s : State) (σ : Spec) (t : Nat) (h : Sim cfg s σ) :
    Sim cfg (awaitNow cfg s t).1 (specStep cfg σ (.awaitTaken t)).1 ∧
    (awaitNow cfg s t).2 = (specStep cfg σ (.awaitTaken t)).2 := by
  have hh := h.handle t
  cases hpc : s.pc t with
  | start x =>
    cases x with
    | val v =>
      have hs := sched_start_handle_val cfg s t v hpc
      have hd : drive cfg s t (cfg.susp s.nRuns) = setPc s t (.done (.ok v)) := by
        rw [drive_finished cfg s t (.ok v) _ (by rw [hs]; simp [setPc]), hs]
      have hinv : Inv cfg (setPc s t (.done (.ok v))) := by rw [← hd]; exact drive_inv cfg t _ s h.inv
      rw [hpc] at hh
      simp only [awaitNow, hpc, hd, specStep, hh, absPc, resultOf, setPc, if_true]
      exact ⟨sim_served cfg s σ t v h ⟨_, hpc⟩ hinv, trivial⟩
    | ph p =>
      rw [hpc] at hh
      cases hsl : s.slot (s.phInst p) with
      | none =>
        have hp := (h.inv.pc_start t p hpc).1
        have hpn : ¬ p = s.nextP := by omega
        refine awaitNow_run cfg s (setPc (newPh s (s.phInst p)) t (.entered s.nextP)) σ t p s.nextP h hpc
          (by intro v; rw [hsl]; simp) (sched_start_none cfg s t p hpc hsl hp) ?_ ?_ ?_ ?_ ?_ rfl rfl
        · intro t' ht; simp [setPc, newPh, ht]
        · intro j hj; simp [setPc, newPh, hj]
        · simp [setPc, newPh]
        · simp [setPc, newPh]
        · intro p' hp'; have : ¬ p' = s.nextP := by omega
          simp [setPc, newPh, this]
      | some x =>
        cases x with
        | val v =>
          have hs := sched_start_val cfg s t p v hpc hsl
          have hd : drive cfg s t (cfg.susp s.nRuns) = setPc s t (.done (.ok v)) := by
            rw [drive_finished cfg s t (.ok v) _ (by rw [hs]; simp [setPc]), hs]
          have hinv : Inv cfg (setPc s t (.done (.ok v))) := by rw [← hd]; exact drive_inv cfg t _ s h.inv
          have hc : σ.cache (s.phInst p) = .cached v := by rw [h.cache, hsl]; rfl
          simp only [awaitNow, hpc, hd, specStep, hh, absPc, resultOf, setPc, if_true, Spec.await, Spec.useTask, hc]
          exact ⟨sim_served cfg s σ t v h ⟨_, hpc⟩ hinv, trivial⟩
        | ph q =>
          by_cases hqp : q = p
          · subst hqp
            refine awaitNow_run cfg s (setPc s t (.entered q)) σ t q q h hpc (by intro v; rw [hsl]; simp)
              (sched_start_self cfg s t q hpc hsl (h.free q)) ?_ ?_ ?_ rfl ?_ rfl rfl
            · intro t' ht; simp [setPc, ht]
            · intro j _; rfl
            · exact hsl
            · intro p' _; rfl
          · have hq := (h.inv.slot_ph _ q hsl).2
            refine awaitNow_run cfg s (setPc s t (.entered q)) σ t p q h hpc (by intro v; rw [hsl]; simp)
              (sched_start_other cfg s t p q hpc hsl hqp hq (h.free q)) ?_ ?_ ?_ hq ?_ rfl rfl
            · intro t' ht; simp [setPc, ht]
            · intro j _; rfl
            · exact hsl
            · intro p' _; rfl
  | unborn => rw [hpc] at hh; simp only [awaitNow, hpc, specStep, hh, absPc]; exact ⟨h, trivial⟩
  | entered p => rw [hpc] at hh; simp only [awaitNow, hpc, specStep, hh, absPc]; exact ⟨h, trivial⟩
  | lockwait p => rw [hpc] at hh; simp only [awaitNow, hpc, specStep, hh, absPc]; exact ⟨h, trivial⟩
  | holding p => rw [hpc] at hh; simp only [awaitNow, hpc, specStep, hh, absPc]; exact ⟨h, trivial⟩
  | getter p r k => rw [hpc] at hh; simp only [awaitNow, hpc, specStep, hh, absPc]; exact ⟨h, trivial⟩
  | done res => rw [hpc] at hh; simp only [awaitNow, hpc, specStep, hh, absPc]; exact ⟨h, trivial⟩

theorem spawn_sim (cfg : Cfg) (s : State) (σ : Spec) (i : Nat) (h : Sim cfg s σ) :
    Sim cfg (step cfg s (.spawn i)).1 (specStep cfg σ (.take i)).1 := by
  have hinv := step_inv cfg s (.spawn i) h.inv
  obtain ⟨h1, h2, h3, h4, h5, h6⟩ := h
  have hstart := h1.pc_start
  have hc := h5 i
  cases hsl : s.slot i with
  | none =>
    rw [hsl] at hc
    simp only [step, access, hsl, specStep, hc, absSlot] at hinv ⊢
    refine ⟨hinv, ?_, h3, ?_, ?_, ?_⟩
    · intro t; simp only [addTask, newPh]; grind
    · simp [addTask, newPh, Spec.newTask, Spec.setCache, h4]
    · intro j; simp only [addTask, newPh, Spec.newTask, Spec.setCache]; grind [absSlot]
    · intro t
      simp only [addTask, newPh, Spec.newTask, Spec.setCache, h4]
      by_cases ht : t = s.nTasks
      · simp [ht, absPc]
      · simp only [ht, if_false]; rw [h6 t]
        cases hpc : s.pc t with
        | start x =>
          cases x with
          | ph p => have : ¬ p = s.nextP := by have := (hstart t p hpc).1; omega
                    simp [absPc, this]
          | val v => rfl
        | _ => rfl
  | some x =>
    cases x with
    | ph q =>
      rw [hsl] at hc
      have hq := (h1.slot_ph i q hsl).2
      simp only [step, access, hsl, specStep, hc, absSlot] at hinv ⊢
      refine ⟨hinv, ?_, h3, ?_, ?_, ?_⟩
      · intro t; simp only [addTask]; grind
      · simp [addTask, Spec.newTask, Spec.setCache, h4]
      · intro j; simp only [addTask, Spec.newTask, Spec.setCache]; grind [absSlot]
      · intro t
        simp only [addTask, Spec.newTask, Spec.setCache, h4]
        by_cases ht : t = s.nTasks
        · simp [ht, absPc, hq]
        · simp only [ht, if_false]; rw [h6 t]
          cases hpc : s.pc t with
          | start x => cases x <;> rfl
          | _ => rfl
    | val v =>
      rw [hsl] at hc
      simp only [step, access, hsl, specStep, hc, absSlot] at hinv ⊢
      refine ⟨hinv, ?_, h3, ?_, ?_, ?_⟩
      · intro t; simp only [addTask]; grind
      · simp [addTask, Spec.newTask, h4]
      · intro j; simp only [addTask, Spec.newTask]; exact h5 j
      · intro t
        simp only [addTask, Spec.newTask, h4]
        by_cases ht : t = s.nTasks
        · simp [ht, absPc]
        · simp only [ht, if_false]; rw [h6 t]
          cases hpc : s.pc t with
          | start x => cases x <;> rfl
          | _ => rfl

theorem del_sim (cfg : Cfg) (s : State) (σ : Spec) (i : Nat) (h : Sim cfg s σ) :
    Sim cfg (seqStep cfg s (.del i)).1 (specStep cfg σ (.del i)).1 ∧
    (seqStep cfg s (.del i)).2 = (specStep cfg σ (.del i)).2 := by
  have hinv := step_inv cfg s (.del i) h.inv
  obtain ⟨h1, h2, h3, h4, h5, h6⟩ := h
  have hc := h5 i
  cases hsl : s.slot i with
  | none =>
    rw [hsl] at hc
    simp only [seqStep, step, hsl, specStep, hc, absSlot]
    exact ⟨⟨h1, h2, h3, h4, h5, h6⟩, trivial⟩
  | some x =>
    rw [hsl] at hc
    simp only [step, hsl] at hinv
    have hne : σ.cache i ≠ .none := by rw [hc]; cases x <;> simp [absSlot]
    simp only [seqStep, step, hsl, specStep]
    refine ⟨⟨hinv, h2, h3, h4, ?_, ?_⟩, trivial⟩
    · intro j; simp only [delSlot, Spec.setCache]; grind [absSlot]
    · intro t; simp only [delSlot, Spec.setCache]; rw [h6 t]; cases hpc : s.pc t with
      | start x => cases x <;> rfl
      | _ => rfl

theorem Spec.ext' {σ σ' : Spec} (h1 : ∀ i, σ.cache i = σ'.cache i) (h2 : σ.nRuns = σ'.nRuns)
    (h3 : σ.nTasks = σ'.nTasks) (h4 : ∀ t, σ.handle t = σ'.handle t) : σ = σ' := by
  cases σ; cases σ'
  simp only [Spec.mk.injEq]
  exact ⟨funext h1, h2, h3, funext h4⟩

/-- in the specification `await instance.attr` is "take the attribute, then await what was taken" -/
theorem spec_await_eq (cfg : Cfg) (σ : Spec) (i : Nat) :
    specStep cfg σ (.await i) = specStep cfg (specStep cfg σ (.take i)).1 (.awaitTaken σ.nTasks) := by
  cases hc : σ.cache i <;> cases hok : cfg.ok σ.nRuns <;>
    simp [specStep, Spec.await, hc, hok, Spec.newTask, Spec.useTask, Spec.setCache] <;>
    (repeat' apply And.intro) <;> (funext x; grind)

theorem seqStep_sim (cfg : Cfg) (s : State) (σ : Spec) (op : SOp) (h : Sim cfg s σ) :
    Sim cfg (seqStep cfg s op).1 (specStep cfg σ op).1 ∧ (seqStep cfg s op).2 = (specStep cfg σ op).2 := by
  cases op with
  | await i =>
    rw [spec_await_eq, h.tasks]
    exact awaitNow_sim cfg _ _ s.nTasks (spawn_sim cfg s σ i h)
  | take i =>
    refine ⟨spawn_sim cfg s σ i h, ?_⟩
    simp only [seqStep, specStep]; split <;> rfl
  | awaitTaken t => exact awaitNow_sim cfg s σ t h
  | del i => exact del_sim cfg s σ i h

theorem seq_refines (cfg : Cfg) (ops : List SOp) : ∀ (s : State) (σ : Spec), Sim cfg s σ →
    seqOuts cfg s ops = specOuts cfg σ ops := by
  induction ops with
  | nil => intro s σ _; rfl
  | cons op ops ih =>
    intro s σ h
    obtain ⟨h1, h2⟩ := seqStep_sim cfg s σ op h
    simp only [seqOuts, specOuts, h2, ih _ _ h1]

end AsyncVerif.CachedProperty
