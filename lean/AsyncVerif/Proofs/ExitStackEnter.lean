import AsyncVerif.Machines.ExitStackEnter
/-! Helper lemmas for `Properties/C14Enter.lean` (ExitStack.enter_context with suspending managers). -/
namespace AsyncVerif.ExitStackEnter
open AsyncVerif.ExitStack (ExcId ExitResp Outcome)

/-! ## Part A: the ExitStack task simulates the nested statements -/

/-- loop invariant of `__aexit__`: the loop variables encode the outcome of the innermost blocks
    already left -/
def LInv (recv : Outcome) (ls : Impl.Loop) (o : Outcome) : Prop :=
  ls.exc = o.exc ∧ Impl.outcome recv ls = o

theorem linv_init (recv : Outcome) : LInv recv (Impl.loopInit recv) recv := by
  cases recv <;> simp [LInv, Impl.loopInit, Impl.outcome, Outcome.exc]

theorem linv_react {recv : Outcome} {ls : Impl.Loop} {o : Outcome} (h : LInv recv ls o)
    (r : ExitResp) : LInv recv (Impl.react ls r) (Nested.combine o r) := by
  cases r with
  | truthy => cases recv <;> simp [LInv, Impl.react, Nested.combine, Impl.outcome, Outcome.exc]
  | falsy => exact h
  | raise e => simp [LInv, Impl.react, Nested.combine, Impl.outcome, Outcome.exc]

/-- corresponding control points -/
inductive SimPc : Impl.Pc → Nested.Pc → Prop
  | enter (s m l t) : SimPc (.enter s m l t) (.enter s m l t)
  | body (s l) : SimPc (.body s l) (.body s l)
  | exit (r m l) {ls recv o} : LInv recv ls o → SimPc (.exit r m l ls recv) (.exit r m l o)
  | done (o) : SimPc (.done o) (.done o)

/-- corresponding results of a run-to-next-suspension -/
def SimR (a : Impl.Pc × List Ev) (b : Nested.Pc × List Ev) : Prop := SimPc a.1 b.1 ∧ a.2 = b.2

theorem unwind_sim (recv : Outcome) (rest : List Mgr) (ls : Impl.Loop) (o : Outcome)
    (h : LInv recv ls o) : SimR (Impl.unwind recv rest ls) (Nested.unwind rest o) := by
  induction rest generalizing ls o with
  | nil =>
    simp only [Impl.unwind, Nested.unwind, SimR, and_true]
    rw [h.2]; exact .done o
  | cons m rest ih =>
    simp only [Impl.unwind, Nested.unwind, h.1]
    rcases m.xSusp with _ | k
    · have := ih _ _ (linv_react h m.resp)
      exact ⟨this.1, by simp only [this.2]⟩
    · exact ⟨.exit rest m k h, rfl⟩

theorem fail_sim (stack : List Mgr) (e : ExcId) :
    SimR (Impl.fail stack e) (Nested.unwind stack (.raises e)) :=
  unwind_sim _ _ _ _ (linv_init _)

theorem runBody_sim (cfg : Cfg) (stack : List Mgr) :
    SimR (Impl.runBody cfg stack) (Nested.runBody cfg stack) := by
  unfold Impl.runBody Nested.runBody
  rcases cfg.bodySusp with _ | k
  · exact unwind_sim _ _ _ _ (linv_init _)
  · exact ⟨.body stack k, rfl⟩

theorem enterFrom_sim (cfg : Cfg) (stack todo : List Mgr) :
    SimR (Impl.enterFrom cfg stack todo) (Nested.enterFrom cfg stack todo) := by
  induction todo generalizing stack with
  | nil => simpa only [Impl.enterFrom, Nested.enterFrom] using runBody_sim cfg stack
  | cons m todo ih =>
    have h1 := ih (m :: stack)
    simp only [Impl.enterFrom, Nested.enterFrom]
    cases m.flavour <;> simp only
    all_goals first
      | exact ⟨h1.1, by simp only [h1.2]⟩
      | (rcases m.eSusp with _ | k
         · cases m.enter with
           | ok v => exact ⟨h1.1, by simp only [h1.2]⟩
           | raises e =>
             have h2 := fail_sim stack e
             exact ⟨h2.1, by simp only [h2.2]⟩
         · exact ⟨.enter stack m k todo, rfl⟩)

theorem finishEnter_sim (cfg : Cfg) (stack : List Mgr) (m : Mgr) (todo : List Mgr) :
    SimR (Impl.finishEnter cfg stack m todo) (Nested.finishEnter cfg stack m todo) := by
  unfold Impl.finishEnter Nested.finishEnter
  cases m.enter with
  | ok v =>
    have h1 := enterFrom_sim cfg (m :: stack) todo
    exact ⟨h1.1, by simp only [h1.2]⟩
  | raises e => exact fail_sim stack e

theorem next_sim (cfg : Cfg) {p : Impl.Pc} {q : Nested.Pc} (h : SimPc p q) (op : Op) :
    SimR (Impl.next cfg p op) (Nested.next cfg q op) := by
  cases h with
  | enter s m l t =>
    cases op with
    | send =>
      cases l with
      | zero => exact finishEnter_sim cfg s m t
      | succ k => exact ⟨.enter s m k t, rfl⟩
    | throw e => cases l <;> exact fail_sim s e
  | body s l =>
    cases op with
    | send =>
      cases l with
      | zero => exact unwind_sim _ _ _ _ (linv_init _)
      | succ k => exact ⟨.body s k, rfl⟩
    | throw e => cases l <;> exact fail_sim s e
  | exit r m l hl =>
    cases op with
    | send =>
      cases l with
      | zero => exact unwind_sim _ _ _ _ (linv_react hl m.resp)
      | succ k => exact ⟨.exit r m k hl, rfl⟩
    | throw e => cases l <;> exact unwind_sim _ _ _ _ (linv_react hl (.raise e))
  | done o => cases op <;> exact ⟨.done o, rfl⟩

theorem out_sim {p : Impl.Pc} {q : Nested.Pc} (h : SimPc p q) : p.out = q.out := by
  cases h <;> rfl

theorem result_sim {p : Impl.Pc} {q : Nested.Pc} (h : SimPc p q) : p.result = q.result := by
  cases h <;> rfl

/-- corresponding task states -/
def SimSt (a : Impl.St) (b : Nested.St) : Prop := SimPc a.pc b.pc ∧ a.log = b.log ∧ a.outs = b.outs

theorem init_sim (cfg : Cfg) : SimSt (Impl.init cfg) (Nested.init cfg) := by
  have h := enterFrom_sim cfg [] cfg.mgrs
  exact ⟨h.1, h.2, by simp only [Impl.init, Nested.init, out_sim h.1]⟩

theorem step_sim (cfg : Cfg) {a : Impl.St} {b : Nested.St} (h : SimSt a b) (op : Op) :
    SimSt (Impl.step cfg a op) (Nested.step cfg b op) := by
  obtain ⟨pa, la, oa⟩ := a
  obtain ⟨pb, lb, ob⟩ := b
  obtain ⟨hp, hl, ho⟩ := h
  simp only at hp hl ho
  subst hl ho
  have hn := next_sim cfg hp op
  cases hp <;>
    first
    | exact ⟨.done _, rfl, rfl⟩
    | exact ⟨hn.1, by simp only [Impl.step, Nested.step, hn.2],
        by simp only [Impl.step, Nested.step, out_sim hn.1]⟩

theorem run_sim (cfg : Cfg) (ops : List Op) : SimSt (Impl.run cfg ops) (Nested.run cfg ops) := by
  unfold Impl.run Nested.run
  generalize Impl.init cfg = a, Nested.init cfg = b, init_sim cfg = h
  induction ops generalizing a b with
  | nil => exact h
  | cons op ops ih => exact ih _ _ (step_sim cfg h op)

/-! ## Part B: which exits run -/

theorem enteredIds_append (a b : List Ev) : enteredIds (a ++ b) = enteredIds a ++ enteredIds b := by
  induction a with
  | nil => rfl
  | cons x r ih => cases x <;> simp [enteredIds, ih]

theorem exitIds_append (a b : List Ev) : exitIds (a ++ b) = exitIds a ++ exitIds b := by
  induction a with
  | nil => rfl
  | cons x r ih => cases x <;> simp [exitIds, ih]

/-- the exits that ran so far (`ex`) plus those still on the stack are the managers `k-1 .. 0` -/
def UnwP (k : Nat) (pc : Impl.Pc) (ex : List Nat) : Prop :=
  match pc with
  | .exit rest _ _ _ _ => ex ++ (List.range rest.length).reverse = (List.range k).reverse
  | .done _ => ex = (List.range k).reverse
  | _ => False

theorem range_succ_reverse (n : Nat) : (List.range (n + 1)).reverse = n :: (List.range n).reverse := by
  simp [List.range_succ]

theorem unwind_ids (recv : Outcome) (rest : List Mgr) (ls : Impl.Loop) :
    enteredIds (Impl.unwind recv rest ls).2 = [] ∧
    ∀ k pre, pre ++ (List.range rest.length).reverse = (List.range k).reverse →
      UnwP k (Impl.unwind recv rest ls).1 (pre ++ exitIds (Impl.unwind recv rest ls).2) := by
  induction rest generalizing ls with
  | nil =>
    refine ⟨rfl, fun k pre h => ?_⟩
    simpa [Impl.unwind, UnwP, exitIds] using h
  | cons m rest ih =>
    simp only [Impl.unwind]
    rcases m.xSusp with _ | x
    · obtain ⟨h1, h2⟩ := ih (Impl.react ls m.resp)
      refine ⟨by simpa [enteredIds] using h1, fun k pre h => ?_⟩
      have := h2 k (pre ++ [rest.length]) (by
        rw [← h, List.length_cons, range_succ_reverse]; simp)
      simpa [exitIds] using this
    · refine ⟨rfl, fun k pre h => ?_⟩
      simp only [UnwP, exitIds]
      rw [← h, List.length_cons, range_succ_reverse]; simp

theorem range_reverse_nodup (k : Nat) : (List.range k).reverse.Nodup := by
  rw [List.nodup_iff_count]
  intro a
  rw [List.count_reverse, List.count_range]
  split <;> omega

/-- the task is unwinding (or done) and `k` managers had been entered when the unwinding began -/
def UnwSt (k : Nat) (pc : Impl.Pc) (log : List Ev) : Prop :=
  enteredIds log = List.range k ∧ UnwP k pc (exitIds log)

theorem unwind_unwSt (recv : Outcome) (rest : List Mgr) (ls : Impl.Loop) (k : Nat) (log : List Ev)
    (h1 : enteredIds log = List.range k)
    (h2 : exitIds log ++ (List.range rest.length).reverse = (List.range k).reverse) :
    UnwSt k (Impl.unwind recv rest ls).1 (log ++ (Impl.unwind recv rest ls).2) := by
  obtain ⟨a, b⟩ := unwind_ids recv rest ls
  refine ⟨by rw [enteredIds_append, a, h1]; simp, ?_⟩
  rw [exitIds_append]
  exact b k _ h2

/-- invariant of every reachable state of the ExitStack task -/
def InvP (cfg : Cfg) (pc : Impl.Pc) (log : List Ev) : Prop :=
  match pc with
  | .enter stack m _ todo =>
    stack.reverse ++ m :: todo = cfg.mgrs ∧ enteredIds log = List.range stack.length ∧ exitIds log = []
  | .body stack _ =>
    stack.reverse = cfg.mgrs ∧ enteredIds log = List.range stack.length ∧ exitIds log = []
  | pc => ∃ k, UnwSt k pc log

theorem invP_of_unwSt {cfg : Cfg} {k : Nat} {pc : Impl.Pc} {log : List Ev} (h : UnwSt k pc log) :
    InvP cfg pc log := by
  cases pc with
  | enter _ _ _ _ => exact h.2.elim
  | body _ _ => exact h.2.elim
  | exit _ _ _ _ _ => exact ⟨k, h⟩
  | done _ => exact ⟨k, h⟩

theorem fail_unwSt (stack : List Mgr) (e : ExcId) (log : List Ev)
    (h1 : enteredIds log = List.range stack.length) (h2 : exitIds log = []) :
    UnwSt stack.length (Impl.fail stack e).1 (log ++ (Impl.fail stack e).2) :=
  unwind_unwSt _ _ _ _ _ h1 (by simp [h2])

theorem runBody_inv (cfg : Cfg) (stack : List Mgr) (log : List Ev)
    (h0 : stack.reverse = cfg.mgrs)
    (h1 : enteredIds log = List.range stack.length) (h2 : exitIds log = []) :
    InvP cfg (Impl.runBody cfg stack).1 (log ++ (Impl.runBody cfg stack).2) := by
  unfold Impl.runBody
  rcases cfg.bodySusp with _ | k
  · exact invP_of_unwSt (unwind_unwSt _ _ _ _ _ h1 (by simp [h2]))
  · simpa [InvP] using ⟨h0, h1, h2⟩

theorem enterFrom_inv (cfg : Cfg) (stack todo : List Mgr) (log : List Ev)
    (h0 : stack.reverse ++ todo = cfg.mgrs)
    (h1 : enteredIds log = List.range stack.length) (h2 : exitIds log = []) :
    InvP cfg (Impl.enterFrom cfg stack todo).1 (log ++ (Impl.enterFrom cfg stack todo).2) := by
  induction todo generalizing stack log with
  | nil =>
    simp only [Impl.enterFrom]
    exact runBody_inv cfg stack log (by simpa using h0) h1 h2
  | cons m todo ih =>
    have h0' : (m :: stack).reverse ++ todo = cfg.mgrs := by simpa using h0
    have hpush := ih (m :: stack) (log ++ [.pushed stack.length]) h0'
      (by simp [enteredIds_append, enteredIds, h1, List.range_succ])
      (by simp [exitIds_append, exitIds, h2])
    have hent : ∀ v, InvP cfg (Impl.enterFrom cfg (m :: stack) todo).1
        ((log ++ [.enter stack.length, .entered stack.length v]) ++
          (Impl.enterFrom cfg (m :: stack) todo).2) := fun v =>
      ih (m :: stack) _ h0'
        (by simp [enteredIds_append, enteredIds, h1, List.range_succ])
        (by simp [exitIds_append, exitIds, h2])
    have hfail : ∀ e, InvP cfg (Impl.fail stack e).1
        ((log ++ [.enter stack.length]) ++ (Impl.fail stack e).2) := fun e =>
      invP_of_unwSt (fail_unwSt stack e _
        (by simp [enteredIds_append, enteredIds, h1])
        (by simp [exitIds_append, exitIds, h2]))
    have hsusp : ∀ k, InvP cfg (.enter stack m k todo) (log ++ [.enter stack.length]) := fun k => by
      simp only [InvP]
      exact ⟨h0, by simp [enteredIds_append, enteredIds, h1], by simp [exitIds_append, exitIds, h2]⟩
    simp only [Impl.enterFrom]
    cases m.flavour <;> simp only
    all_goals first
      | simpa using hpush
      | (rcases m.eSusp with _ | k
         · cases m.enter with
           | ok v => simpa using hent v
           | raises e => simpa using hfail e
         · exact hsusp k)

theorem finishEnter_inv (cfg : Cfg) (stack : List Mgr) (m : Mgr) (todo : List Mgr) (log : List Ev)
    (h0 : stack.reverse ++ m :: todo = cfg.mgrs)
    (h1 : enteredIds log = List.range stack.length) (h2 : exitIds log = []) :
    InvP cfg (Impl.finishEnter cfg stack m todo).1 (log ++ (Impl.finishEnter cfg stack m todo).2) := by
  unfold Impl.finishEnter
  cases m.enter with
  | ok v =>
    have := enterFrom_inv cfg (m :: stack) todo (log ++ [.entered stack.length v])
      (by simpa using h0)
      (by simp [enteredIds_append, enteredIds, h1, List.range_succ])
      (by simp [exitIds_append, exitIds, h2])
    simpa using this
  | raises e => exact invP_of_unwSt (fail_unwSt stack e log h1 h2)

/-- once unwinding, every operation keeps the task unwinding the same `k` managers -/
theorem next_unwSt (cfg : Cfg) (k : Nat) (pc : Impl.Pc) (log : List Ev) (op : Op)
    (h : UnwSt k pc log) :
    UnwSt k (Impl.next cfg pc op).1 (log ++ (Impl.next cfg pc op).2) := by
  cases pc with
  | enter _ _ _ _ => exact h.2.elim
  | body _ _ => exact h.2.elim
  | done o => cases op <;> simpa [Impl.next] using h
  | exit rest m l ls recv =>
    have hu : ∀ ls', UnwSt k (Impl.unwind recv rest ls').1 (log ++ (Impl.unwind recv rest ls').2) :=
      fun ls' => unwind_unwSt recv rest ls' k log h.1 h.2
    cases op with
    | send =>
      cases l with
      | zero => exact hu _
      | succ x => simpa [Impl.next, UnwSt, UnwP] using h
    | throw e => cases l <;> exact hu _

theorem next_inv (cfg : Cfg) (pc : Impl.Pc) (log : List Ev) (op : Op) (h : InvP cfg pc log) :
    InvP cfg (Impl.next cfg pc op).1 (log ++ (Impl.next cfg pc op).2) := by
  cases pc with
  | enter stack m l todo =>
    obtain ⟨h0, h1, h2⟩ := h
    cases op with
    | send =>
      cases l with
      | zero => exact finishEnter_inv cfg stack m todo log h0 h1 h2
      | succ x => simpa [Impl.next, InvP] using ⟨h0, h1, h2⟩
    | throw e => cases l <;> exact invP_of_unwSt (fail_unwSt stack e log h1 h2)
  | body stack l =>
    obtain ⟨h0, h1, h2⟩ := h
    cases op with
    | send =>
      cases l with
      | zero => exact invP_of_unwSt (unwind_unwSt _ _ _ _ _ h1 (by simp [h2]))
      | succ x => simpa [Impl.next, InvP] using ⟨h0, h1, h2⟩
    | throw e => cases l <;> exact invP_of_unwSt (fail_unwSt stack e log h1 h2)
  | exit rest m l ls recv =>
    obtain ⟨k, hk⟩ := h
    exact invP_of_unwSt (next_unwSt cfg k _ log op hk)
  | done o =>
    obtain ⟨k, hk⟩ := h
    exact invP_of_unwSt (next_unwSt cfg k _ log op hk)

theorem step_pc_log (cfg : Cfg) (s : Impl.St) (op : Op) :
    (Impl.step cfg s op).pc = (Impl.next cfg s.pc op).1 ∧
    (Impl.step cfg s op).log = s.log ++ (Impl.next cfg s.pc op).2 := by
  obtain ⟨pc, log, outs⟩ := s
  cases pc <;> simp [Impl.step, Impl.next]

theorem step_inv (cfg : Cfg) (s : Impl.St) (op : Op) (h : InvP cfg s.pc s.log) :
    InvP cfg (Impl.step cfg s op).pc (Impl.step cfg s op).log := by
  rw [(step_pc_log cfg s op).1, (step_pc_log cfg s op).2]
  exact next_inv cfg _ _ op h

theorem step_unwSt (cfg : Cfg) (k : Nat) (s : Impl.St) (op : Op) (h : UnwSt k s.pc s.log) :
    UnwSt k (Impl.step cfg s op).pc (Impl.step cfg s op).log := by
  rw [(step_pc_log cfg s op).1, (step_pc_log cfg s op).2]
  exact next_unwSt cfg k _ _ op h

theorem foldl_unwSt (cfg : Cfg) (k : Nat) (ops : List Op) (s : Impl.St) (h : UnwSt k s.pc s.log) :
    UnwSt k (ops.foldl (Impl.step cfg) s).pc (ops.foldl (Impl.step cfg) s).log := by
  induction ops generalizing s with
  | nil => exact h
  | cons op ops ih => exact ih _ (step_unwSt cfg k s op h)

theorem init_inv (cfg : Cfg) : InvP cfg (Impl.init cfg).pc (Impl.init cfg).log := by
  have := enterFrom_inv cfg [] cfg.mgrs [] (by simp) rfl rfl
  simpa [Impl.init] using this

theorem run_inv (cfg : Cfg) (ops : List Op) :
    InvP cfg (Impl.run cfg ops).pc (Impl.run cfg ops).log := by
  unfold Impl.run
  generalize Impl.init cfg = s, init_inv cfg = h
  induction ops generalizing s with
  | nil => exact h
  | cons op ops ih => exact ih _ (step_inv cfg s op h)

theorem run_append (cfg : Cfg) (a b : List Op) :
    Impl.run cfg (a ++ b) = b.foldl (Impl.step cfg) (Impl.run cfg a) := by
  simp [Impl.run, List.foldl_append]

/-! ## Part C: every run can be completed -/

def xSum : List Mgr → Nat
  | [] => 0
  | m :: r => m.xSusp + xSum r

def wSum : List Mgr → Nat
  | [] => 0
  | m :: r => m.eSusp + m.xSusp + wSum r

/-- an upper bound of the number of `send`s the task can still absorb -/
def mu (cfg : Cfg) : Impl.Pc → Nat
  | .enter stack m left todo => left + 1 + wSum todo + cfg.bodySusp + m.xSusp + xSum stack
  | .body stack left => left + 1 + xSum stack
  | .exit rest _ left _ _ => left + 1 + xSum rest
  | .done _ => 0

theorem unwind_mu (cfg : Cfg) (recv : Outcome) (rest : List Mgr) (ls : Impl.Loop) :
    mu cfg (Impl.unwind recv rest ls).1 ≤ xSum rest := by
  induction rest generalizing ls with
  | nil => simp [Impl.unwind, mu]
  | cons m rest ih =>
    simp only [Impl.unwind, xSum]
    rcases m.xSusp with _ | x
    · have := ih (Impl.react ls m.resp); simp only; omega
    · simp only [mu]; omega

theorem runBody_mu (cfg : Cfg) (stack : List Mgr) :
    mu cfg (Impl.runBody cfg stack).1 ≤ cfg.bodySusp + xSum stack := by
  unfold Impl.runBody
  split
  · have := unwind_mu cfg cfg.body stack (Impl.loopInit cfg.body); omega
  · simp only [mu]; omega

theorem enterFrom_mu (cfg : Cfg) (stack todo : List Mgr) :
    mu cfg (Impl.enterFrom cfg stack todo).1 ≤ wSum todo + cfg.bodySusp + xSum stack := by
  induction todo generalizing stack with
  | nil => simpa [Impl.enterFrom, wSum] using runBody_mu cfg stack
  | cons m todo ih =>
    have h1 := ih (m :: stack)
    have h2 : ∀ e, mu cfg (Impl.fail stack e).1 ≤ xSum stack := fun e => unwind_mu cfg _ stack _
    simp only [xSum] at h1
    simp only [Impl.enterFrom, wSum]
    cases m.flavour <;> simp only
    all_goals first
      | omega
      | (rcases m.eSusp with _ | k
         · cases m.enter with
           | ok v => simp only; omega
           | raises e => have := h2 e; simp only; omega
         · simp only [mu]; omega)

theorem finishEnter_mu (cfg : Cfg) (stack : List Mgr) (m : Mgr) (todo : List Mgr) :
    mu cfg (Impl.finishEnter cfg stack m todo).1 ≤ wSum todo + cfg.bodySusp + m.xSusp + xSum stack := by
  unfold Impl.finishEnter
  cases m.enter with
  | ok v => have := enterFrom_mu cfg (m :: stack) todo; simp only [xSum] at this; simp only; omega
  | raises e => have := unwind_mu cfg (.raises e) stack (Impl.loopInit (.raises e)); simp only [Impl.fail]; omega

theorem next_send_mu (cfg : Cfg) (pc : Impl.Pc) :
    mu cfg (Impl.next cfg pc .send).1 ≤ mu cfg pc - 1 := by
  cases pc with
  | enter stack m l todo =>
    cases l with
    | zero =>
      have := finishEnter_mu cfg stack m todo
      show mu cfg (Impl.finishEnter cfg stack m todo).1
        ≤ (0 + 1 + wSum todo + cfg.bodySusp + m.xSusp + xSum stack) - 1
      omega
    | succ k => simp only [Impl.next, mu]; omega
  | body stack l =>
    cases l with
    | zero =>
      have := unwind_mu cfg cfg.body stack (Impl.loopInit cfg.body)
      show mu cfg (Impl.unwind cfg.body stack (Impl.loopInit cfg.body)).1 ≤ (0 + 1 + xSum stack) - 1
      omega
    | succ k => simp only [Impl.next, mu]; omega
  | exit rest m l ls recv =>
    cases l with
    | zero =>
      have := unwind_mu cfg recv rest (Impl.react ls m.resp)
      show mu cfg (Impl.unwind recv rest (Impl.react ls m.resp)).1 ≤ (0 + 1 + xSum rest) - 1
      omega
    | succ k => simp only [Impl.next, mu]; omega
  | done o => simp [Impl.next, mu]

theorem finished_of_mu_zero (cfg : Cfg) (s : Impl.St) (h : mu cfg s.pc = 0) : s.finished = true := by
  obtain ⟨pc, log, outs⟩ := s
  cases pc <;> simp_all [mu, Impl.St.finished, Impl.Pc.result]

theorem sends_finish (cfg : Cfg) (n : Nat) (s : Impl.St) (h : mu cfg s.pc ≤ n) :
    ((List.replicate n Op.send).foldl (Impl.step cfg) s).finished = true := by
  induction n generalizing s with
  | zero => exact finished_of_mu_zero cfg s (by omega)
  | succ n ih =>
    simp only [List.replicate_succ, List.foldl_cons]
    apply ih
    rw [(step_pc_log cfg s .send).1]
    have := next_send_mu cfg s.pc
    omega

end AsyncVerif.ExitStackEnter
