import AsyncVerif.Proofs.Heap
import AsyncVerif.Machines.HeapUse
import AsyncVerif.Std.AggSpec
import AsyncVerif.Proofs.Select
/-!
# The binary heap refines the abstract heaps of the models

* `Std.popMin` (merge): "take the minimum entry under `Entry.before reverse` out of the list of entries";
* `Sel.insV` on the ordered list of entries (nlargest / nsmallest): "drop the last, insert in order".

Both entry orders are lexicographic on an integer rank `(key rank, position / stamp rank)`; on entries with orderable
keys that is a strict weak order, with pairwise distinct positions / stamps a strict total order.
-/
namespace AsyncVerif.Heap

variable {α : Type}

/-! ## Orders given by a lexicographic integer rank -/

/-- lexicographic order on pairs of integers -/
def lexLtI (p q : Int × Int) : Prop := p.1 < q.1 ∨ (p.1 = q.1 ∧ p.2 < q.2)

theorem lt_false_iff {lt : α → α → Bool} {S : α → Prop} {rank : α → Int × Int}
    (h : ∀ a b, S a → S b → (lt a b = true ↔ lexLtI (rank a) (rank b))) {a b : α} (ha : S a) (hb : S b) :
    lt a b = false ↔ ¬ lexLtI (rank a) (rank b) := by
  rw [← h a b ha hb]; cases lt a b <;> simp

/-- an order that is the lexicographic order of an integer rank is a strict weak order -/
theorem strictWeakOn_of_rank {lt : α → α → Bool} {S : α → Prop} (rank : α → Int × Int)
    (h : ∀ a b, S a → S b → (lt a b = true ↔ lexLtI (rank a) (rank b))) : StrictWeakOn lt S where
  irrefl := by
    intro a ha
    rw [lt_false_iff h ha ha]; unfold lexLtI; omega
  trans := by
    intro a b c ha hb hc
    rw [h a b ha hb, h b c hb hc, h a c ha hc]; unfold lexLtI; omega
  ntrans := by
    intro a b c ha hb hc
    rw [lt_false_iff h ha hb, lt_false_iff h hb hc, lt_false_iff h ha hc]; unfold lexLtI; omega

/-- … and a strict total order where distinct elements have distinct ranks -/
theorem strictTotalOn_of_rank {lt : α → α → Bool} {S : α → Prop} (rank : α → Int × Int)
    (h : ∀ a b, S a → S b → (lt a b = true ↔ lexLtI (rank a) (rank b)))
    (hinj : ∀ a b, S a → S b → a ≠ b → rank a ≠ rank b) : StrictTotalOn lt S where
  irrefl := (strictWeakOn_of_rank rank h).irrefl
  trans := (strictWeakOn_of_rank rank h).trans
  total := by
    intro a b ha hb hne
    have := hinj a b ha hb hne
    rw [h a b ha hb, h b a hb ha]; unfold lexLtI
    have : (rank a).1 ≠ (rank b).1 ∨ (rank a).2 ≠ (rank b).2 := by
      apply Classical.byContradiction; intro hc
      apply this; apply Prod.ext <;> omega
    omega

theorem StrictWeakOn.asymm {lt : α → α → Bool} {S : α → Prop} (ho : StrictWeakOn lt S) {a b : α} (ha : S a) (hb : S b)
    (h : lt a b = true) : lt b a = false := by
  cases hba : lt b a with
  | false => rfl
  | true => have := ho.trans a b a ha hb ha h hba; rw [ho.irrefl a ha] at this; cases this

/-! ## merge: `Entry.before reverse` -/

open AsyncVerif.Std in
/-- rank of a merge entry: the key (negated for `reverse`), then the position -/
def entryRank (reverse : Bool) (e : Std.Entry) : Int × Int :=
  (if reverse then -(e.key.key?.getD 0) else e.key.key?.getD 0, (e.idx : Int))

/-- the entries of a merge heap: orderable keys, pairwise distinct positions -/
def EntriesOK (l : List Std.Entry) : Prop :=
  (∀ e ∈ l, e.key.key?.isSome = true) ∧ (l.map (·.idx)).Nodup

theorem before_iff_rank (reverse : Bool) (a b : Std.Entry) (ha : a.key.key?.isSome = true)
    (hb : b.key.key?.isSome = true) :
    Std.Entry.before reverse a b = true ↔ lexLtI (entryRank reverse a) (entryRank reverse b) := by
  obtain ⟨x, hx⟩ := Option.isSome_iff_exists.mp ha
  obtain ⟨y, hy⟩ := Option.isSome_iff_exists.mp hb
  simp only [Std.Entry.before, entryRank, lexLtI, hx, hy, Option.getD_some]
  cases reverse <;> by_cases hxy : x = y <;> simp [hxy] <;> omega

/-- `Entry.before reverse` is a strict weak order on entries with orderable keys -/
theorem before_weakOn (reverse : Bool) :
    StrictWeakOn (Std.Entry.before reverse) (fun e => e.key.key?.isSome = true) :=
  strictWeakOn_of_rank (entryRank reverse) (before_iff_rank reverse)

theorem eq_of_nodup_map {β γ : Type} (f : β → γ) : ∀ (l : List β), (l.map f).Nodup → ∀ a b, a ∈ l → b ∈ l → f a = f b → a = b
  | [], _, _, _, ha, _, _ => by cases ha
  | x :: l, hnd, a, b, ha, hb, hf => by
    simp only [List.map_cons, List.nodup_cons, List.mem_map, not_exists, not_and] at hnd
    rcases List.mem_cons.mp ha with rfl | ha' <;> rcases List.mem_cons.mp hb with rfl | hb'
    · rfl
    · exact absurd hf.symm (hnd.1 b hb')
    · exact absurd hf (hnd.1 a ha')
    · exact eq_of_nodup_map f l hnd.2 a b ha' hb' hf

theorem EntriesOK.idx_ne {l : List Std.Entry} (ok : EntriesOK l) {a b : Std.Entry} (ha : a ∈ l) (hb : b ∈ l)
    (hne : a ≠ b) : a.idx ≠ b.idx := by
  intro h
  exact hne (eq_of_nodup_map _ l ok.2 a b ha hb h)

/-- `Entry.before reverse` is a strict total order on a list of entries with orderable keys and distinct positions -/
theorem before_totalOn (reverse : Bool) (l : List Std.Entry) (ok : EntriesOK l) :
    StrictTotalOn (Std.Entry.before reverse) (· ∈ l) :=
  strictTotalOn_of_rank (entryRank reverse)
    (fun a b ha hb => before_iff_rank reverse a b (ok.1 a ha) (ok.1 b hb))
    (fun a b ha hb hne h => by
      have := ok.idx_ne ha hb hne
      simp only [entryRank, Prod.mk.injEq] at h
      omega)

theorem EntriesOK.perm {l l' : List Std.Entry} (ok : EntriesOK l) (h : l.Perm l') : EntriesOK l' :=
  ⟨fun e he => ok.1 e (h.mem_iff.mpr he), (h.map _).nodup_iff.mp ok.2⟩


/-! ## `Std.popMin` takes a minimum out -/

theorem popMin_none (reverse : Bool) : ∀ (l : List Std.Entry), Std.popMin reverse l = none ↔ l = []
  | [] => by simp [Std.popMin]
  | e :: rest => by
    unfold Std.popMin
    cases hp : Std.popMin reverse rest with
    | none => simp
    | some p => simp only; split <;> simp

/-- `popMin` returns an entry that no entry of the list goes before, and the other entries -/
theorem popMin_spec_on (reverse : Bool) {S : Std.Entry → Prop} (ho : StrictWeakOn (Std.Entry.before reverse) S) :
    ∀ (l : List Std.Entry), (∀ e ∈ l, S e) → ∀ m others, Std.popMin reverse l = some (m, others) →
      l.Perm (m :: others) ∧ ∀ e ∈ l, Std.Entry.before reverse e m = false
  | [], _, m, others, h => by simp [Std.popMin] at h
  | e :: rest, hS, m, others, h => by
    have hSe : S e := hS e (by simp)
    have hSr : ∀ x ∈ rest, S x := fun x hx => hS x (by simp [hx])
    unfold Std.popMin at h
    cases hp : Std.popMin reverse rest with
    | none =>
      rw [hp] at h
      simp only [Option.some.injEq, Prod.mk.injEq] at h
      obtain ⟨rfl, rfl⟩ := h
      have := (popMin_none reverse rest).mp hp
      subst this
      exact ⟨List.Perm.refl _, fun x hx => by
        simp only [List.mem_singleton] at hx; subst hx; exact ho.irrefl _ hSe⟩
    | some p =>
      obtain ⟨m', os⟩ := p
      rw [hp] at h
      obtain ⟨hperm, hmin⟩ := popMin_spec_on reverse ho rest hSr m' os hp
      have hm'mem : m' ∈ rest := hperm.mem_iff.mpr (by simp)
      have hSm' : S m' := hSr m' hm'mem
      simp only at h
      split at h
      · next hb =>
        simp only [Option.some.injEq, Prod.mk.injEq] at h
        obtain ⟨rfl, rfl⟩ := h
        refine ⟨(List.Perm.cons e hperm).trans (List.Perm.swap _ _ _), ?_⟩
        intro x hx
        rcases List.mem_cons.mp hx with rfl | hx
        · exact ho.asymm hSm' hSe hb
        · exact hmin x hx
      · next hb =>
        simp only [Option.some.injEq, Prod.mk.injEq] at h
        obtain ⟨rfl, rfl⟩ := h
        refine ⟨List.Perm.cons _ hperm, ?_⟩
        intro x hx
        rcases List.mem_cons.mp hx with rfl | hx
        · exact ho.irrefl _ hSe
        · exact ho.ntrans x m' _ (hSr x hx) hSm' hSe (hmin x hx) (by simpa using hb)

/-! ## The heap of `merge` refines `popMin` -/

/-- the concrete heap `a` represents the abstract list of entries `l` -/
structure MergeRel (reverse : Bool) (a : Array Std.Entry) (l : List Std.Entry) : Prop where
  perm : a.toList.Perm l
  heap : IsHeap (Std.Entry.before reverse) a
  ok : EntriesOK l

theorem MergeRel.okA {reverse : Bool} {a : Array Std.Entry} {l : List Std.Entry} (r : MergeRel reverse a l) :
    EntriesOK a.toList := r.ok.perm r.perm.symm

/-- `heap[0]` is the entry `popMin` takes out -/
theorem MergeRel.root {reverse : Bool} {a : Array Std.Entry} {l : List Std.Entry} (r : MergeRel reverse a l)
    {m : Std.Entry} {others : List Std.Entry} (hp : Std.popMin reverse l = some (m, others)) :
    ∃ h0 : 0 < a.size, a[0] = m := by
  obtain ⟨hperm, hmin⟩ := popMin_spec_on reverse (before_weakOn reverse) l r.ok.1 m others hp
  have hm : m ∈ a.toList := r.perm.mem_iff.mpr (hperm.mem_iff.mpr (by simp))
  have h0 : 0 < a.size := by
    have := List.length_pos_of_mem hm; simpa using this
  refine ⟨h0, ?_⟩
  symm
  exact r.heap.root_unique_on (before_totalOn reverse a.toList r.okA) (fun _ hx => hx) h0 m hm
    (fun x hx => hmin x (r.perm.mem_iff.mp hx))

theorem heapPopMin_eq (lt : α → α → Bool) (a : Array α) : heapPopMin lt a = heappop lt a := by
  unfold heapPopMin
  by_cases h0 : 0 < a.size
  · rw [dif_pos h0, heappop_eq lt a h0]
  · rw [dif_neg h0, (heappop_none lt a).mpr (by omega)]

/-- `heappop` refines "`popMin`, keep the others" -/
theorem MergeRel.pop {reverse : Bool} {a : Array Std.Entry} {l : List Std.Entry} (r : MergeRel reverse a l)
    {m : Std.Entry} {others : List Std.Entry} (hp : Std.popMin reverse l = some (m, others)) :
    ∃ rest, heappop (Std.Entry.before reverse) a = some (m, rest) ∧ MergeRel reverse rest others := by
  obtain ⟨h0, hm⟩ := r.root hp
  obtain ⟨hperm, _⟩ := popMin_spec_on reverse (before_weakOn reverse) l r.ok.1 m others hp
  have he := heappop_eq (Std.Entry.before reverse) a h0
  rw [hm] at he
  refine ⟨_, he, ?_⟩
  have hpp := heappop_perm _ a _ _ he
  have hperm' : (m :: _).Perm (m :: others) := hpp.symm.trans (r.perm.trans hperm)
  have hok : EntriesOK others := by
    have := r.ok.perm hperm
    exact ⟨fun e he => this.1 e (by simp [he]), by
      have := this.2; simp only [List.map_cons, List.nodup_cons] at this; exact this.2⟩
  exact ⟨(List.Perm.cons_inv hperm'), heappop_isHeap_on (before_weakOn reverse) a _ _ r.okA.1 r.heap he, hok⟩

/-- `heapreplace` with the same entry carrying a new head refines "`popMin`, put the new entry with the others" -/
theorem MergeRel.replace {reverse : Bool} {a : Array Std.Entry} {l : List Std.Entry} (r : MergeRel reverse a l)
    {m : Std.Entry} {others : List Std.Entry} (hp : Std.popMin reverse l = some (m, others))
    (e : Std.Entry) (hidx : e.idx = m.idx) (hkey : e.key.key?.isSome = true) :
    ∃ rest, heapreplace (Std.Entry.before reverse) a e = some (m, rest) ∧ MergeRel reverse rest (e :: others) := by
  obtain ⟨h0, hm⟩ := r.root hp
  obtain ⟨hperm, _⟩ := popMin_spec_on reverse (before_weakOn reverse) l r.ok.1 m others hp
  have he := heapreplace_eq (Std.Entry.before reverse) a e h0
  rw [hm] at he
  refine ⟨_, he, ?_⟩
  have hpp := heapreplace_perm _ a _ _ _ he
  have hperm' : (m :: _).Perm (m :: e :: others) :=
    hpp.trans ((List.Perm.cons e (r.perm.trans hperm)).trans (List.Perm.swap _ _ _))
  have hok : EntriesOK (e :: others) := by
    have := r.ok.perm hperm
    refine ⟨fun x hx => ?_, ?_⟩
    · rcases List.mem_cons.mp hx with rfl | hx
      · exact hkey
      · exact this.1 x (by simp [hx])
    · have h2 := this.2
      simp only [List.map_cons, List.nodup_cons] at h2 ⊢
      rw [hidx]; exact h2
  exact ⟨List.Perm.cons_inv hperm',
    heapreplace_isHeap_on (before_weakOn reverse) a e _ _ r.okA.1 hkey r.heap he, hok⟩

/-- `heapify` of the collected entries represents them -/
theorem MergeRel.heapify (reverse : Bool) (hs : List Std.Entry) (ok : EntriesOK hs) :
    MergeRel reverse (heapify (Std.Entry.before reverse) hs.toArray) hs :=
  ⟨(heapify_perm _ hs.toArray).toList, heapify_isHeap_on (before_weakOn reverse) _ (by simpa using ok.1), ok⟩

/-! ## Any sequence of merge rounds -/

/-- one round: both heaps yield the same entry and stay related -/
theorem MergeRel.step {reverse : Bool} {a : Array Std.Entry} {l : List Std.Entry} (r : MergeRel reverse a l)
    (op : MergeStep) (hop : op.ok) :
    (absStep reverse l op = none ∧ heapStep reverse a op = none) ∨
    ∃ m l' a', absStep reverse l op = some (m, l') ∧ heapStep reverse a op = some (m, a') ∧ MergeRel reverse a' l' := by
  cases hp : Std.popMin reverse l with
  | none =>
    left
    have hl := (popMin_none reverse l).mp hp
    have ha : ¬ 0 < a.size := by
      have := r.perm.length_eq; rw [hl] at this; simp only [Array.length_toList, List.length_nil] at this; omega
    exact ⟨by simp only [absStep, hp], by simp only [heapStep, dif_neg ha]⟩
  | some p =>
    right
    obtain ⟨m, others⟩ := p
    obtain ⟨h0, hm⟩ := r.root hp
    cases op with
    | pulled hd k =>
      obtain ⟨rest, hr, hrel⟩ := r.replace hp { m with head := hd, key := k } rfl hop
      refine ⟨m, _, rest, by simp only [absStep, hp], ?_, hrel⟩
      simp only [heapStep, dif_pos h0, hm]; exact hr
    | exhausted =>
      obtain ⟨rest, hr, hrel⟩ := r.pop hp
      refine ⟨m, _, rest, by simp only [absStep, hp], ?_, hrel⟩
      simp only [heapStep, dif_pos h0]; exact hr

/-- any sequence of rounds: the same entries are yielded in the same order, and the heaps stay related -/
theorem MergeRel.run {reverse : Bool} : ∀ (ops : List MergeStep) (a : Array Std.Entry) (l : List Std.Entry),
    MergeRel reverse a l → (∀ op ∈ ops, op.ok) →
    (heapRun reverse a ops).1 = (absRun reverse l ops).1 ∧
      MergeRel reverse (heapRun reverse a ops).2 (absRun reverse l ops).2
  | [], a, l, r, _ => ⟨rfl, r⟩
  | op :: ops, a, l, r, hops => by
    rcases r.step op (hops op (by simp)) with ⟨h1, h2⟩ | ⟨m, l', a', h1, h2, r'⟩
    · simp only [heapRun, absRun, h1, h2]; exact ⟨trivial, r⟩
    · obtain ⟨ih1, ih2⟩ := MergeRel.run ops a' l' r' (fun o ho => hops o (by simp [ho]))
      simp only [heapRun, absRun, h1, h2]
      exact ⟨by rw [ih1], ih2⟩

/-! ## nlargest / nsmallest: the bounded heap behind the ordered list of `Sel.insV` -/

open AsyncVerif.Sel

/-- rank of a selection entry: the key (negated for `nsmallest`), then the stamp in arrival order, reversed -/
def veRank (c : Cfg) (e : VE) : Int × Int :=
  (if c.largest then e.key.ikey else -e.key.ikey, if c.pos then -e.idx else e.idx)

/-- the entries of a selection heap: orderable keys, pairwise distinct stamps -/
def VEsOK (l : List VE) : Prop := (∀ e ∈ l, e.key.orderable = true) ∧ (l.map (·.idx)).Nodup

/-- ordered best first: every later entry is worse than every earlier one -/
def SortedV (c : Cfg) (l : List VE) : Prop := l.Pairwise (fun x y => worseB c y x = true)

theorem worseV_ok (c : Cfg) (e a : VE) (he : e.key.orderable = true) (ha : a.key.orderable = true) :
    worseV c e a = .ok (worseB c e a) := by
  unfold worseB worseV
  rw [pyEq_ord he ha, kbV_ord c.largest ha he]
  split <;> rfl

theorem worseB_iff_rank (c : Cfg) (e a : VE) (he : e.key.orderable = true) (ha : a.key.orderable = true) :
    worseB c e a = true ↔ lexLtI (veRank c e) (veRank c a) := by
  unfold worseB worseV
  rw [pyEq_ord he ha, kbV_ord c.largest ha he]
  obtain ⟨largest, pos⟩ := c
  simp only [veRank, lexLtI, later, kb]
  by_cases hk : e.key.ikey = a.key.ikey
  · cases largest <;> cases pos <;> simp [hk] <;> omega
  · cases largest <;> cases pos <;> simp [hk] <;> omega

/-- the entry order of the selection heap is a strict weak order on entries with orderable keys -/
theorem worse_weakOn (c : Cfg) : StrictWeakOn (worseB c) (fun e => e.key.orderable = true) :=
  strictWeakOn_of_rank (veRank c) (worseB_iff_rank c)

theorem VEsOK.idx_ne {l : List VE} (ok : VEsOK l) {a b : VE} (ha : a ∈ l) (hb : b ∈ l) (hne : a ≠ b) :
    a.idx ≠ b.idx := fun h => hne (eq_of_nodup_map _ l ok.2 a b ha hb h)

/-- … and a strict total order on a list of entries with orderable keys and distinct stamps -/
theorem worse_totalOn (c : Cfg) (l : List VE) (ok : VEsOK l) : StrictTotalOn (worseB c) (· ∈ l) :=
  strictTotalOn_of_rank (veRank c)
    (fun a b ha hb => worseB_iff_rank c a b (ok.1 a ha) (ok.1 b hb))
    (fun a b ha hb hne h => by
      have := ok.idx_ne ha hb hne
      simp only [veRank, Prod.mk.injEq] at h
      obtain ⟨_, h2⟩ := h
      split at h2 <;> omega)

theorem worseB_total (c : Cfg) (e a : VE) (he : e.key.orderable = true) (ha : a.key.orderable = true)
    (hne : e.idx ≠ a.idx) : worseB c e a = true ∨ worseB c a e = true := by
  rw [worseB_iff_rank c e a he ha, worseB_iff_rank c a e ha he]
  simp only [veRank, lexLtI]
  split <;> split <;> omega

theorem VEsOK.perm {l l' : List VE} (ok : VEsOK l) (h : l.Perm l') : VEsOK l' :=
  ⟨fun e he => ok.1 e (h.mem_iff.mpr he), (h.map _).nodup_iff.mp ok.2⟩

/-- `insV` on orderable entries does not raise, adds the entry, and keeps the list ordered -/
theorem insV_ok (c : Cfg) (e : VE) (he : e.key.orderable = true) : ∀ (l : List VE),
    (∀ x ∈ l, x.key.orderable = true) →
    ∃ r, insV c e l = .ok r ∧ r.Perm (e :: l) ∧ ((∀ x ∈ l, x.idx ≠ e.idx) → SortedV c l → SortedV c r)
  | [], _ => ⟨[e], rfl, List.Perm.refl _, fun _ _ => List.pairwise_singleton _ _⟩
  | a :: l, hl => by
    have ha : a.key.orderable = true := hl a (by simp)
    have hl' : ∀ x ∈ l, x.key.orderable = true := fun x hx => hl x (by simp [hx])
    obtain ⟨r, hr, hperm, hsorted⟩ := insV_ok c e he l hl'
    unfold insV
    rw [worseV_ok c e a he ha]
    cases hb : worseB c e a with
    | true =>
      refine ⟨a :: r, by simp [bind, Except.bind, hr, pure, Except.pure], ?_, ?_⟩
      · exact (List.Perm.cons a hperm).trans (List.Perm.swap _ _ _)
      · intro hfresh hs
        have hs' := List.pairwise_cons.mp hs
        refine List.pairwise_cons.mpr ⟨?_, hsorted (fun x hx => hfresh x (by simp [hx])) hs'.2⟩
        intro y hy
        rcases List.mem_cons.mp (hperm.mem_iff.mp hy) with rfl | hy
        · exact hb
        · exact hs'.1 y hy
    | false =>
      refine ⟨e :: a :: l, by simp [bind, Except.bind, pure, Except.pure], List.Perm.refl _, ?_⟩
      intro hfresh hs
      have hae : worseB c a e = true := by
        rcases worseB_total c e a he ha (Ne.symm (hfresh a (by simp))) with h | h
        · rw [h] at hb; cases hb
        · exact h
      refine List.pairwise_cons.mpr ⟨?_, hs⟩
      intro y hy
      rcases List.mem_cons.mp hy with rfl | hy
      · exact hae
      · exact (worse_weakOn c).trans y a e (hl' y hy) ha he ((List.pairwise_cons.mp hs).1 y hy) hae

/-- in an ordered list the last entry is the minimum of the heap order: no entry is worse -/
theorem SortedV.last_min {c : Cfg} {ys : List VE} {w : VE} (hs : SortedV c (ys ++ [w]))
    (hk : ∀ x ∈ ys ++ [w], x.key.orderable = true) : ∀ x ∈ ys ++ [w], worseB c x w = false := by
  intro x hx
  have hw := hk w (by simp)
  rcases List.mem_append.mp hx with hx' | hx'
  · have := (List.pairwise_append.mp hs).2.2 x hx' w (by simp)
    exact (worse_weakOn c).asymm hw (hk x hx) this
  · simp only [List.mem_singleton] at hx'; subst hx'
    exact (worse_weakOn c).irrefl _ hw

/-- the binary heap `a` is a heap of the entries that `Std/Select.lean` presents as the ordered list `l` -/
structure SelRel (c : Cfg) (a : Array VE) (l : List VE) : Prop where
  perm : a.toList.Perm l
  heap : IsHeap (worseB c) a
  ok : VEsOK l
  sorted : SortedV c l

/-- the last entry of the ordered list is `heap[0]` -/
theorem SelRel.root {c : Cfg} {a : Array VE} {l : List VE} (r : SelRel c a l) : l.getLast? = a[0]? := by
  cases hl : l.getLast? with
  | none =>
    have : l = [] := List.getLast?_eq_none_iff.mp hl
    have hs : a.size = 0 := by
      have := r.perm.length_eq; rw [‹l = []›] at this
      simpa only [Array.length_toList, List.length_nil] using this
    rw [Array.getElem?_eq_none (by omega)]
  | some w =>
    obtain ⟨ys, rfl⟩ := List.getLast?_eq_some_iff.mp hl
    have hw : w ∈ a.toList := r.perm.mem_iff.mpr (by simp)
    have h0 : 0 < a.size := by
      have := List.length_pos_of_mem hw; simpa using this
    have okA : VEsOK a.toList := r.ok.perm r.perm.symm
    have := r.heap.root_unique_on (worse_totalOn c a.toList okA) (fun _ hx => hx) h0 w hw
      (fun x hx => r.sorted.last_min r.ok.1 x (r.perm.mem_iff.mp hx))
    rw [Array.getElem?_eq_getElem h0, this]

/-- `heapreplace` on the binary heap is "drop the last, insert in order" on the ordered list: same size, the worst
    entry goes, the new entry comes -/
theorem SelRel.replace {c : Cfg} {a : Array VE} {l : List VE} (r : SelRel c a l) {w : VE} (hw : l.getLast? = some w)
    (e : VE) (he : e.key.orderable = true) (hfresh : ∀ x ∈ l.dropLast, x.idx ≠ e.idx) :
    ∃ l' a', insV c e l.dropLast = .ok l' ∧ heapreplace (worseB c) a e = some (w, a') ∧ a'.size = a.size ∧
      SelRel c a' l' := by
  have hroot := r.root
  rw [hw] at hroot
  have h0 : 0 < a.size := by
    apply Classical.byContradiction; intro h
    rw [Array.getElem?_eq_none (by omega)] at hroot; cases hroot
  rw [Array.getElem?_eq_getElem h0] at hroot
  have hroot : a[0] = w := by simpa using hroot.symm
  obtain ⟨ys, rfl⟩ := List.getLast?_eq_some_iff.mp hw
  have hdl : (ys ++ [w]).dropLast = ys := by simp
  rw [hdl] at hfresh ⊢
  have hys : ∀ x ∈ ys, x.key.orderable = true := fun x hx => r.ok.1 x (by simp [hx])
  obtain ⟨l', hins, hperm, hsorted⟩ := insV_ok c e he ys hys
  have hrep := heapreplace_eq (worseB c) a e h0
  rw [hroot] at hrep
  refine ⟨l', _, hins, hrep, by rw [siftup_size, Array.size_set], ?_⟩
  have hpp := heapreplace_perm _ a _ _ _ hrep
  have h1 : (w :: (siftup (worseB c) (a.set 0 e h0) 0).toList).Perm (w :: e :: ys) :=
    hpp.trans ((List.Perm.cons e (r.perm.trans (List.perm_append_singleton w ys))).trans (List.Perm.swap _ _ _))
  have okys : VEsOK (e :: ys) := by
    refine ⟨fun x hx => ?_, ?_⟩
    · rcases List.mem_cons.mp hx with rfl | hx
      · exact he
      · exact hys x hx
    · have h2 := r.ok.2
      simp only [List.map_append, List.map_cons, List.map_nil] at h2
      have h3 := (List.nodup_append.mp h2).1
      simp only [List.map_cons, List.nodup_cons, List.mem_map, not_exists, not_and]
      exact ⟨fun x hx hxe => hfresh x hx hxe, h3⟩
  refine ⟨(List.Perm.cons_inv h1).trans hperm.symm, ?_, okys.perm hperm.symm, ?_⟩
  · exact heapreplace_isHeap_on (worse_weakOn c) a e _ _ (r.ok.perm r.perm.symm).1 he r.heap hrep
  · exact hsorted hfresh (List.pairwise_append.mp r.sorted).1

/-- inserting entries one by one into the ordered list: no `TypeError`, all entries are there, in order -/
theorem insAll_ok (c : Cfg) : ∀ (es h0 : List VE), VEsOK (h0 ++ es) → SortedV c h0 →
    ∃ l, es.foldlM (fun h e => insV c e h) h0 = .ok l ∧ l.Perm (h0 ++ es) ∧ SortedV c l
  | [], h0, _, hs => ⟨h0, rfl, by simp, hs⟩
  | e :: es, h0, ok, hs => by
    have he : e.key.orderable = true := ok.1 e (by simp)
    obtain ⟨r, hr, hperm, hsorted⟩ := insV_ok c e he h0 (fun x hx => ok.1 x (by simp [hx]))
    have hfresh : ∀ x ∈ h0, x.idx ≠ e.idx := by
      intro x hx
      have h2 := ok.2
      simp only [List.map_append, List.map_cons] at h2
      exact (List.nodup_append.mp h2).2.2 x.idx (List.mem_map.mpr ⟨x, hx, rfl⟩) e.idx (by simp)
    have hp2 : (h0 ++ e :: es).Perm (r ++ es) := by
      have : (h0 ++ e :: es).Perm ((e :: h0) ++ es) := List.perm_middle
      exact this.trans (List.Perm.append_right es hperm.symm)
    obtain ⟨l, hl, hpl, hsl⟩ := insAll_ok c es r (ok.perm hp2) (hsorted hfresh hs)
    refine ⟨l, ?_, hpl.trans hp2.symm, hsl⟩
    simp only [List.foldlM_cons, hr, bind, Except.bind]
    exact hl

theorem heapifyV_eq (c : Cfg) (first : List (Val × Val)) :
    heapifyV c first = (firstEntries c first).foldlM (fun h e => insV c e h) [] := by
  unfold heapifyV firstEntries; rw [List.foldlM_map]

theorem firstEntries_ok (c : Cfg) (first : List (Val × Val)) (hk : ∀ p ∈ first, p.1.orderable = true) :
    VEsOK (firstEntries c first) := by
  constructor
  · intro e he
    simp only [firstEntries, List.mem_map] at he
    obtain ⟨p, hp, rfl⟩ := he
    have := List.mem_zipIdx hp
    exact hk p.1 (this.2.2 ▸ List.getElem_mem _)
  · have : (firstEntries c first).map (·.idx) = (List.range' 0 first.length).map (stamp c.pos) := by
      rw [firstEntries, List.map_map, ← List.zipIdx_map_snd 0 first, List.map_map]; rfl
    rw [this, List.nodup_iff_pairwise_ne, List.pairwise_map]
    refine List.Pairwise.imp ?_ (List.nodup_iff_pairwise_ne.mp (List.nodup_range' (s := 0) (n := first.length)))
    intro a b hab h
    apply hab
    unfold stamp at h
    split at h <;> omega

/-- `heapify` of the first entries is a heap of the entries in the ordered list that `heapifyV` builds -/
theorem SelRel.heapify (c : Cfg) (first : List (Val × Val)) (hk : ∀ p ∈ first, p.1.orderable = true) :
    ∃ l, heapifyV c first = .ok l ∧ SelRel c (heapify (worseB c) (firstEntries c first).toArray) l := by
  have ok := firstEntries_ok c first hk
  obtain ⟨l, hl, hperm, hs⟩ := insAll_ok c (firstEntries c first) [] (by simpa using ok) List.Pairwise.nil
  rw [List.nil_append] at hperm
  refine ⟨l, by rw [heapifyV_eq]; exact hl, ?_, ?_, ok.perm hperm.symm, hs⟩
  · exact (heapify_perm _ _).toList.trans (by simpa using hperm.symm)
  · exact heapify_isHeap_on (worse_weakOn c) _ (by simpa using ok.1)

/-! ## The whole bounded selection on the binary heap -/

/-- one round of the scan: the ordered list and the binary heap move together; the size stays -/
theorem SelRel.accept {c : Cfg} {a : Array VE} {l : List VE} (r : SelRel c a l) (nx : Int) (k x : Val)
    (hk : k.orderable = true) (hlater : ∀ e ∈ l, later c.pos nx e.idx = true) :
    ∃ l' a' nx', acceptV c (l, nx) k x = .ok (l', nx') ∧ heapAccept c (a, nx) k x = .ok (a', nx') ∧
      a'.size = a.size ∧ SelRel c a' l' ∧ ∀ e ∈ l', later c.pos nx' e.idx = true := by
  have hroot := r.root
  unfold acceptV heapAccept
  simp only
  cases hl : l.getLast? with
  | none =>
    rw [hl] at hroot; rw [← hroot]
    exact ⟨l, a, nx, rfl, rfl, rfl, r, hlater⟩
  | some w =>
    rw [hl] at hroot; rw [← hroot]
    have hwmem : w ∈ l := List.mem_of_getLast? hl
    have hwk : w.key.orderable = true := r.ok.1 w hwmem
    simp only [kbV_ord c.largest hk hwk, bind, Except.bind]
    cases hb : kb c.largest k.ikey w.key.ikey with
    | false => exact ⟨l, a, nx, rfl, rfl, rfl, r, hlater⟩
    | true =>
      have hfresh : ∀ e ∈ l.dropLast, e.idx ≠ (⟨k, nx, x⟩ : VE).idx := by
        intro e he heq
        have h1 := hlater e (List.dropLast_subset l he)
        simp only at heq
        rw [heq] at h1
        unfold later at h1; split at h1 <;> simp at h1
      obtain ⟨l', a', hins, hrep, hsz, r'⟩ := r.replace hl ⟨k, nx, x⟩ hk hfresh
      refine ⟨l', a', nextStamp c.pos nx, ?_, ?_, hsz, r', ?_⟩
      · simp only [if_true, hins, pure, Except.pure]
      · simp only [if_true, hrep, pure, Except.pure]
      · intro e he
        obtain ⟨r0, hr0, hperm, _⟩ := insV_ok c ⟨k, nx, x⟩ hk l.dropLast
          (fun y hy => r.ok.1 y (List.dropLast_subset l hy))
        have he' : e ∈ (⟨k, nx, x⟩ : VE) :: l.dropLast := by
          rw [hins] at hr0
          simp only [Except.ok.injEq] at hr0
          subst hr0; exact hperm.mem_iff.mp he
        rcases List.mem_cons.mp he' with rfl | he'
        · exact later_next_self c.pos nx
        · exact later_next c.pos nx _ (hlater e (List.dropLast_subset l he'))

/-- the whole scan -/
theorem SelRel.scan {c : Cfg} : ∀ (rest : List (Val × Val)) (a : Array VE) (l : List VE) (nx : Int),
    SelRel c a l → (∀ p ∈ rest, p.1.orderable = true) → (∀ e ∈ l, later c.pos nx e.idx = true) →
    ∃ l' a' nx', rest.foldlM (fun st p => acceptV c st p.1 p.2) (l, nx) = .ok (l', nx') ∧
      rest.foldlM (fun st p => heapAccept c st p.1 p.2) (a, nx) = .ok (a', nx') ∧ a'.size = a.size ∧ SelRel c a' l'
  | [], a, l, nx, r, _, _ => ⟨l, a, nx, rfl, rfl, rfl, r⟩
  | p :: rest, a, l, nx, r, hk, hlater => by
    obtain ⟨l1, a1, nx1, h1, h2, hsz1, r1, hl1⟩ := r.accept nx p.1 p.2 (hk p (by simp)) hlater
    obtain ⟨l2, a2, nx2, h3, h4, hsz2, r2⟩ := SelRel.scan rest a1 l1 nx1 r1 (fun q hq => hk q (by simp [hq])) hl1
    refine ⟨l2, a2, nx2, ?_, ?_, by omega, r2⟩
    · simp only [List.foldlM_cons, h1, bind, Except.bind]; exact h3
    · simp only [List.foldlM_cons, h2, bind, Except.bind]; exact h4

/-- the whole selection: the binary heap ends as a heap of exactly the entries of the ordered list of
    `Sel.selectV`, whose items — best first — are the result; it never holds more than `n` entries -/
theorem heapSelect_refines (c : Cfg) (n : Nat) (keyed : List (Val × Val)) (hk : ∀ p ∈ keyed, p.1.orderable = true) :
    ∃ a l, heapSelect c n keyed = .ok a ∧ SelRel c a l ∧ selectV c n keyed = .ok (l.map (·.item)) ∧
      a.size = min n keyed.length := by
  unfold heapSelect selectV
  by_cases hemp : (keyed.take n).isEmpty = true
  · rw [if_pos hemp, if_pos hemp]
    refine ⟨#[], [], rfl, ⟨List.Perm.refl _, fun i hi => by simp at hi, ⟨by simp, by simp⟩, List.Pairwise.nil⟩,
      rfl, ?_⟩
    have : (keyed.take n).length = 0 := by simpa using hemp
    simpa [List.length_take] using this.symm
  · rw [if_neg hemp, if_neg hemp]
    have hk1 : ∀ p ∈ keyed.take n, p.1.orderable = true := fun p hp => hk p (List.mem_of_mem_take hp)
    obtain ⟨l0, hl0, r0⟩ := SelRel.heapify c (keyed.take n) hk1
    have hlater : ∀ e ∈ l0, later c.pos (stamp c.pos n) e.idx = true := by
      intro e he
      have he' : e ∈ firstEntries c (keyed.take n) := by
        have h1 := r0.perm.mem_iff.mpr he
        have h2 := (heapify_perm (worseB c) (firstEntries c (keyed.take n)).toArray).toList.mem_iff.mp h1
        simpa using h2
      simp only [firstEntries, List.mem_map] at he'
      obtain ⟨p, hp, rfl⟩ := he'
      have := List.mem_zipIdx hp
      exact later_stamp c.pos n p.2 (by
        have h3 := this.2.1
        simp only [List.length_take] at h3; omega)
    obtain ⟨l', a', nx', h1, h2, hsz, r'⟩ := SelRel.scan (keyed.drop n) _ l0 (stamp c.pos n) r0
      (fun p hp => hk p (List.mem_of_mem_drop hp)) hlater
    refine ⟨a', l', ?_, r', ?_, ?_⟩
    · simp only [h2, bind, Except.bind, pure, Except.pure]
    · simp only [hl0, h1, bind, Except.bind, pure, Except.pure]
    · rw [hsz, heapify_size]
      simp [firstEntries, List.length_take]
end AsyncVerif.Heap
