import AsyncVerif.Proofs.Tee
/-!
Liveness of the `tee` machine under fair (round-robin) schedules — helper lemmas for
`Properties/C09Live.lean`.

* `round n` = one `send` on every consumer `0 … n-1`, `roundRobin n k` = `k` such rounds (the "drain"
  of the harness).
* `St.measure` — a natural number that bounds the work that is left: the suspensions the source's
  script still holds, plus, for every child whose consumer is still running, twice the number of items
  it may still have to yield (its buffer and what the source still holds) plus a small rank of its
  program counter.
* every `send` leaves the measure unchanged or makes it smaller (`sched_measure_le`); a `send` on a
  running consumer that is not waiting for a held lock makes it strictly smaller
  (`sched_measure_lt`); a `send` that does not make it smaller does not change the state at all
  (`step_sched_id_or_lt`).
* in a state that satisfies the invariant `Inv` a held lock has a holder that is inside the source and
  whose consumer is running, so a round over all children contains a strictly decreasing `send`
  whenever a consumer is still running (`Inv.round_lt`); as many rounds as the measure says leave no
  consumer running (`Inv.drain`).
* `aclose()`, cancellation and `Tee.aclose()` do not make the measure larger either
  (`step_measure_le`), so in every reachable state it is at most `drainBound items n susp`, the
  measure of the fresh tee (`reach_measure_le`).
* `Running s j`: child `j` was not closed and its consumer is running, or it has ended by itself —
  kept by every operation except `close j`, `cancel j`, `closeAll` (`Running.runOps_ok`);
  `killed_runOps`: only a cancellation sets `srcKilled`.
-/
namespace AsyncVerif.Tee

/-! ## Fair schedules -/

/-- one `send` on every consumer, in order -/
def round (n : Nat) : List Op := (List.range n).map Op.sched

/-- `k` rounds over all `n` consumers -/
def roundRobin (n : Nat) : Nat → List Op
  | 0 => []
  | k + 1 => round n ++ roundRobin n k

/-! ## The measure -/

/-- how far a `tee_peer` generator is from its next `yield`, in `send`s (without the source's
    suspensions that have not started yet) -/
def Pc.rank : Pc → Nat
  | .unstarted => 2
  | .atYield => 2
  | .acquiring => 1
  | .fetching k => k + 1
  | .done => 1

/-- work left for a child whose consumer is still running, if the source still holds `L` items -/
def Child.weight (L : Nat) (c : Child) : Nat :=
  if c.task = .active then 2 * ((c.buf.getD []).length + L) + c.pc.rank else 0

def kidsWeight (L : Nat) (kids : List Child) : Nat := (kids.map (Child.weight L)).sum

/-- suspensions of the pulls that have not started yet + work left for every running consumer -/
def St.measure (s : St) : Nat :=
  (s.suspPat.drop s.pulls).sum + kidsWeight s.src.length s.kids

theorem rank_pos (p : Pc) : 1 ≤ p.rank := by cases p <;> simp [Pc.rank]
@[simp] theorem rank_unstarted : Pc.rank .unstarted = 2 := rfl
@[simp] theorem rank_atYield : Pc.rank .atYield = 2 := rfl
@[simp] theorem rank_acquiring : Pc.rank .acquiring = 1 := rfl
@[simp] theorem rank_fetching (k : Nat) : Pc.rank (.fetching k) = k + 1 := rfl
@[simp] theorem rank_done : Pc.rank .done = 1 := rfl

theorem kidsWeight_set (L : Nat) (kids : List Child) (i : Nat) (c : Child) (hi : i < kids.length) :
    kidsWeight L (kids.set i c) + (kids[i]).weight L = kidsWeight L kids + c.weight L := by
  induction kids generalizing i with
  | nil => simp at hi
  | cons a r ih =>
    cases i with
    | zero => simp [kidsWeight]; omega
    | succ i =>
      have := ih i (by simpa using hi)
      simp only [kidsWeight, List.set_cons_succ, List.map_cons, List.sum_cons,
        List.getElem_cons_succ] at this ⊢
      omega

theorem kidsWeight_map_le (L L' : Nat) (f : Child → Child) (kids : List Child)
    (h : ∀ c, (f c).weight L ≤ c.weight L') : kidsWeight L (kids.map f) ≤ kidsWeight L' kids := by
  induction kids with
  | nil => simp [kidsWeight]
  | cons a r ih =>
    have := h a
    simp only [kidsWeight, List.map_cons, List.sum_cons] at ih ⊢
    omega

theorem weight_le_kidsWeight (L : Nat) (kids : List Child) (i : Nat) (hi : i < kids.length) :
    (kids[i]).weight L ≤ kidsWeight L kids := by
  induction kids generalizing i with
  | nil => simp at hi
  | cons a r ih =>
    cases i with
    | zero => simp [kidsWeight]
    | succ i =>
      have := ih i (by simpa using hi)
      simp only [kidsWeight, List.map_cons, List.sum_cons, List.getElem_cons_succ] at this ⊢
      omega

theorem measure_congr {s s' : St} (h1 : s'.suspPat = s.suspPat) (h2 : s'.pulls = s.pulls)
    (h3 : s'.src = s.src) (h4 : s'.kids = s.kids) : s'.measure = s.measure := by
  simp [St.measure, h1, h2, h3, h4]

theorem measure_setKid (s : St) (i : Nat) (c : Child) (hi : i < s.kids.length) :
    (s.setKid i c).measure + (s.kid i).weight s.src.length = s.measure + c.weight s.src.length := by
  have := kidsWeight_set s.src.length s.kids i c hi
  rw [kid_eq_getElem s i hi]
  simp only [St.measure, St.setKid]
  omega

@[simp] theorem measure_release (s : St) (i : Nat) : (release s i).measure = s.measure := by
  unfold release; split <;> rfl

theorem measure_finishKid (s : St) (i : Nat) (t : Task) (hi : i < s.kids.length) :
    (finishKid s i t).measure + (s.kid i).weight s.src.length
      = s.measure + ((s.kid i).finished t).weight s.src.length := by
  have : (finishKid s i t).measure = (s.setKid i ((s.kid i).finished t)).measure := by
    unfold finishKid; simp only []; split <;> rfl
  rw [this]; exact measure_setKid s i _ hi

theorem weight_active (L : Nat) (c : Child) (h : c.task = .active) :
    c.weight L = 2 * ((c.buf.getD []).length + L) + c.pc.rank := by
  simp [Child.weight, h]

theorem weight_inactive (L : Nat) (c : Child) (h : c.task ≠ .active) : c.weight L = 0 := by
  simp [Child.weight, h]

/-- a running consumer's child is replaced by another running one -/
theorem measure_setKid_active (s : St) (i : Nat) (c : Child) (hi : i < s.kids.length)
    (ha : (s.kid i).task = .active) (hc : c.task = .active) :
    (s.setKid i c).measure + 2 * ((s.kid i).buf.getD []).length + (s.kid i).pc.rank
      = s.measure + 2 * (c.buf.getD []).length + c.pc.rank := by
  have := measure_setKid s i c hi
  rw [weight_active _ _ ha, weight_active _ _ hc] at this
  omega

/-- a running consumer's child is replaced by one whose consumer does not run any more -/
theorem measure_setKid_inactive (s : St) (i : Nat) (c : Child) (hi : i < s.kids.length)
    (ha : (s.kid i).task = .active) (hc : c.task ≠ .active) :
    (s.setKid i c).measure + 2 * (((s.kid i).buf.getD []).length + s.src.length) + (s.kid i).pc.rank
      = s.measure := by
  have := measure_setKid s i c hi
  rw [weight_active _ _ ha, weight_inactive _ _ hc] at this
  omega

theorem measure_finishKid_inactive (s : St) (i : Nat) (t : Task) (hi : i < s.kids.length)
    (ha : (s.kid i).task = .active) (ht : t ≠ .active) :
    (finishKid s i t).measure + 2 * (((s.kid i).buf.getD []).length + s.src.length) + (s.kid i).pc.rank
      = s.measure := by
  have := measure_finishKid s i t hi
  rw [weight_active _ _ ha, weight_inactive _ _ (by simpa [Child.finished] using ht)] at this
  omega

/-- a running consumer contributes at least one -/
theorem measure_pos_of_active (s : St) (j : Nat) (hj : j < s.kids.length)
    (ha : (s.kid j).task = .active) : 1 ≤ s.measure := by
  have h1 := weight_le_kidsWeight s.src.length s.kids j hj
  rw [← kid_eq_getElem s j hj, weight_active _ _ ha] at h1
  have h2 := rank_pos (s.kid j).pc
  simp only [St.measure]
  omega

/-! ## One `send` -/

theorem popYield_measure (s : St) (i : Nat) (hi : i < s.kids.length)
    (ha : (s.kid i).task = .active) :
    (popYield s i).1.measure + (s.kid i).pc.rank ≤ s.measure := by
  unfold popYield
  split
  · rename_i v r hb
    have := measure_setKid_active s i
      { (s.kid i) with pc := .atYield, buf := some r, out := (s.kid i).out ++ [v] } hi ha ha
    simp only [hb, rank_atYield, Option.getD_some, List.length_cons] at this ⊢
    omega
  · have := measure_finishKid_inactive s i .failed hi ha (by simp)
    dsimp only
    omega

theorem weight_broadcast_le (L : Nat) (v : Val) (c : Child) :
    ({ c with buf := c.buf.map (· ++ [v]) } : Child).weight L ≤ c.weight (L + 1) := by
  simp only [Child.weight]
  split
  · cases c.buf <;> simp <;> omega
  · exact Nat.le_refl _

theorem measure_fetch_le (s : St) (v : Val) (r : List Val) (hs : s.src = v :: r) :
    (broadcast { s with src := r, fetched := s.fetched ++ [v] } v).measure ≤ s.measure := by
  have := kidsWeight_map_le r.length (r.length + 1)
    (fun c => { c with buf := c.buf.map (· ++ [v]) }) s.kids (weight_broadcast_le r.length v)
  simp only [St.measure, broadcast, hs, List.length_cons]
  omega

theorem completeFetch_measure (s : St) (i : Nat) (hi : i < s.kids.length)
    (ha : (s.kid i).task = .active) :
    (completeFetch s i).1.measure + (s.kid i).pc.rank ≤ s.measure := by
  unfold completeFetch
  split
  · have := measure_finishKid_inactive (release s i) i .ended (by simpa using hi)
      (by rw [release_kid]; exact ha) (by simp)
    rw [release_kid, release_src, measure_release] at this
    dsimp only
    omega
  · split
    · have := measure_finishKid_inactive (release { s with srcEnded := true } i) i .ended
        (by simpa using hi) (by rw [release_kid]; exact ha) (by simp)
      rw [release_kid, release_src, measure_release] at this
      have hk : ({ s with srcEnded := true } : St).kid i = s.kid i := rfl
      have hm : ({ s with srcEnded := true } : St).measure = s.measure := rfl
      have hsrc : ({ s with srcEnded := true } : St).src = s.src := rfl
      rw [hk, hm, hsrc] at this
      dsimp only
      omega
    · rename_i v r hs
      have h1 := measure_fetch_le s v r hs
      have hlen : (release (broadcast { s with src := r, fetched := s.fetched ++ [v] } v) i).kids.length
          = s.kids.length := by simp
      have hkid : (release (broadcast { s with src := r, fetched := s.fetched ++ [v] } v) i).kid i
          = { s.kid i with buf := (s.kid i).buf.map (· ++ [v]) } := by
        rw [release_kid, kid_broadcast _ _ _ (by simpa using hi)]; rfl
      have h2 := popYield_measure
        (release (broadcast { s with src := r, fetched := s.fetched ++ [v] } v) i) i
        (by rw [hlen]; exact hi) (by rw [hkid]; exact ha)
      rw [hkid, measure_release] at h2
      simp only [] at h2
      omega

theorem sum_drop_getD (l : List Nat) (n : Nat) :
    (l.drop n).sum = l.getD n 0 + (l.drop (n + 1)).sum := by
  induction l generalizing n with
  | nil => simp
  | cons a r ih =>
    cases n with
    | zero => simp
    | succ n => simpa using ih n

/-- the pull counter advances: the suspensions of the pull that starts leave the script's budget -/
theorem measure_pull (s s' : St) (hk : s'.kids = s.kids) (hs : s'.src = s.src)
    (hp : s'.suspPat = s.suspPat) (hpl : s'.pulls = s.pulls + 1) :
    s'.measure + s.suspPat.getD s.pulls 0 = s.measure := by
  have hd := sum_drop_getD s.suspPat s.pulls
  simp only [St.measure, hk, hs, hp, hpl]
  omega

theorem completeFetch_measure' (s s' : St) (i : Nat) (hi : i < s.kids.length)
    (ha : (s.kid i).task = .active) (hk : s'.kids = s.kids) (hm : s'.measure ≤ s.measure) :
    (completeFetch s' i).1.measure + (s.kid i).pc.rank ≤ s.measure := by
  have hkid : s'.kid i = s.kid i := by simp [St.kid, hk]
  have := completeFetch_measure s' i (by rw [hk]; exact hi) (by rw [hkid]; exact ha)
  rw [hkid] at this
  omega

theorem suspend_measure (s s' : St) (i k : Nat) (hi : i < s.kids.length)
    (ha : (s.kid i).task = .active) (hk : s'.kids = s.kids) (hs : s'.src = s.src)
    (hp : s'.suspPat = s.suspPat) (hpl : s'.pulls = s.pulls + 1)
    (hg : s.suspPat.getD s.pulls 0 = k + 1) :
    (s'.setKid i { (s'.kid i) with pc := .fetching k }).measure + (s.kid i).pc.rank ≤ s.measure := by
  have hkid : s'.kid i = s.kid i := by simp [St.kid, hk]
  have h1 := measure_setKid_active s' i { (s'.kid i) with pc := .fetching k } (by rw [hk]; exact hi)
    (by rw [hkid]; exact ha) (by rw [hkid]; exact ha)
  have h2 := measure_pull s s' hk hs hp hpl
  simp only [hkid, rank_fetching] at h1 ⊢
  omega

theorem startFetch_measure (s : St) (i : Nat) (hi : i < s.kids.length)
    (ha : (s.kid i).task = .active) :
    (startFetch s i).1.measure + (s.kid i).pc.rank ≤ s.measure := by
  unfold startFetch
  simp only []
  split
  · exact completeFetch_measure' s _ i hi ha rfl (Nat.le_of_eq rfl)
  · split
    · refine completeFetch_measure' s _ i hi ha rfl ?_
      exact Nat.le.intro (measure_pull s _ rfl rfl rfl rfl)
    · rename_i k hk
      exact suspend_measure s _ i k hi ha rfl rfl rfl rfl hk

theorem enterCritical_measure (s : St) (i : Nat) (hi : i < s.kids.length)
    (ha : (s.kid i).task = .active) :
    (enterCritical s i).1.measure + (s.kid i).pc.rank ≤ s.measure := by
  unfold enterCritical
  simp only []
  have hk : (if s.withLock = true then { s with holder := some i } else s).kids = s.kids := by
    split <;> rfl
  have hkid : (if s.withLock = true then { s with holder := some i } else s).kid i = s.kid i := by
    simp [St.kid, hk]
  have hm : (if s.withLock = true then { s with holder := some i } else s).measure = s.measure := by
    split <;> rfl
  rw [hkid]
  split
  · have := popYield_measure (release (if s.withLock = true then { s with holder := some i } else s) i) i
      (by simpa [hk] using hi) (by rw [release_kid, hkid]; exact ha)
    rw [release_kid, hkid, measure_release, hm] at this
    exact this
  · have := startFetch_measure (if s.withLock = true then { s with holder := some i } else s) i
      (by simpa [hk] using hi) (by rw [hkid]; exact ha)
    rw [hkid, hm] at this
    exact this

theorem loopTop_measure (s : St) (i : Nat) (hi : i < s.kids.length)
    (ha : (s.kid i).task = .active) :
    (loopTop s i).1.measure + (s.kid i).pc.rank ≤ s.measure + 1 := by
  unfold loopTop
  split
  · have := popYield_measure s i hi ha; omega
  · split
    · have := measure_setKid_active s i { (s.kid i) with pc := .acquiring } hi ha ha
      simp only [rank_acquiring] at this ⊢
      omega
    · have := enterCritical_measure s i hi ha; omega

/-- the only `send`s that change nothing: the consumer is not running any more, or its child waits
    for a lock that is held -/
def Blocked (s : St) (i : Nat) : Prop :=
  (s.kid i).task ≠ .active ∨ ((s.kid i).pc = .acquiring ∧ s.holder.isSome = true)

theorem sched_blocked (s : St) (i : Nat) (h : Blocked s i) : (sched s i).1 = s := by
  unfold sched
  rcases h with h | ⟨h1, h2⟩
  · split
    · rename_i ha; exact absurd ha h
    · rfl
  · split
    · simp [h1, h2]
    · rfl

theorem sched_measure_lt (s : St) (i : Nat) (hi : i < s.kids.length) (h : ¬ Blocked s i) :
    (sched s i).1.measure < s.measure := by
  have ha : (s.kid i).task = .active := by
    cases ht : (s.kid i).task with
    | active => rfl
    | _ => exact absurd (Or.inl (by simp [ht])) h
  have hr := rank_pos (s.kid i).pc
  unfold sched
  split
  · split
    · have := measure_setKid_inactive s i { (s.kid i) with task := .stopped } hi ha (by simp)
      dsimp only at this ⊢
      omega
    · rename_i hp
      have := loopTop_measure s i hi ha
      simp only [hp, rank_unstarted] at this
      omega
    · rename_i hp
      have := loopTop_measure s i hi ha
      simp only [hp, rank_atYield] at this
      omega
    · rename_i hp
      split
      · rename_i hh; exact absurd (Or.inr ⟨hp, hh⟩) h
      · have := enterCritical_measure s i hi ha
        omega
    · have := completeFetch_measure s i hi ha
      omega
    · rename_i k hp
      have := measure_setKid_active s i { (s.kid i) with pc := .fetching k } hi ha ha
      simp only [hp, rank_fetching] at this ⊢
      omega
  · rename_i hna; exact absurd ha (by simpa using hna)

theorem step_sched_id_or_lt (s : St) (i : Nat) :
    (step s (.sched i)).1 = s ∨ (step s (.sched i)).1.measure < s.measure := by
  simp only [step]
  split
  · rename_i hi
    by_cases hb : Blocked s i
    · exact Or.inl (sched_blocked s i hb)
    · exact Or.inr (sched_measure_lt s i hi hb)
  · exact Or.inl rfl

theorem step_sched_measure_le (s : St) (i : Nat) : (step s (.sched i)).1.measure ≤ s.measure := by
  rcases step_sched_id_or_lt s i with h | h
  · rw [h]; exact Nat.le_refl _
  · exact Nat.le_of_lt h

theorem sched_measure_le (s : St) (i : Nat) (hi : i < s.kids.length) :
    (sched s i).1.measure ≤ s.measure := by
  have := step_sched_measure_le s i
  simpa [step, hi] using this

theorem runSched_measure_le (s : St) (l : List Nat) :
    (runOps s (l.map Op.sched)).measure ≤ s.measure := by
  induction l generalizing s with
  | nil => exact Nat.le_refl _
  | cons i rest ih =>
    exact Nat.le_trans (ih _) (step_sched_measure_le s i)

/-- a sequence of `send`s makes the measure smaller, or none of them changes the state -/
theorem runSched_lt_or_id (s : St) (l : List Nat) :
    (runOps s (l.map Op.sched)).measure < s.measure ∨ ∀ i ∈ l, (step s (.sched i)).1 = s := by
  induction l generalizing s with
  | nil => right; intro i hi; simp at hi
  | cons i rest ih =>
    rcases step_sched_id_or_lt s i with h | h
    · rcases ih s with h' | h'
      · left
        show (runOps (step s (.sched i)).1 (rest.map Op.sched)).measure < s.measure
        rw [h]; exact h'
      · right
        intro j hj
        rcases List.mem_cons.1 hj with e | e
        · rw [e]; exact h
        · exact h' j e
    · left
      exact Nat.lt_of_le_of_lt (runSched_measure_le _ rest) h

/-! ## One round -/

/-- **Progress.** In a state that satisfies the invariant, if some consumer is still running then a
    round over all children makes the measure strictly smaller: the running consumer moves, or it
    waits for the lock, whose holder is inside the source with a running consumer and moves. -/
theorem Inv.round_lt {s : St} (h : Inv s) (j : Nat) (hj : j < s.kids.length)
    (ha : (s.kid j).task = .active) :
    (runOps s (round s.kids.length)).measure < s.measure := by
  rcases runSched_lt_or_id s (List.range s.kids.length) with hlt | hid
  · exact hlt
  · exfalso
    have moves : ∀ i, i < s.kids.length → ¬ Blocked s i → False := by
      intro i hi hb
      have h1 := hid i (by simpa using hi)
      have h2 := sched_measure_lt s i hi hb
      simp only [step, hi, if_true] at h1
      rw [h1] at h2
      exact Nat.lt_irrefl _ h2
    by_cases hb : Blocked s j
    · rcases hb with hb | ⟨_, hh⟩
      · exact hb ha
      · cases hx : s.holder with
        | none => simp [hx] at hh
        | some x =>
          have hl := h.holder_lt x hx
          have hact := h.inside x hl.1 (Or.inl hl.2.2)
          refine moves x hl.1 ?_
          rintro (hb | ⟨hb, _⟩)
          · exact hb hact
          · have := hl.2.2; rw [hb] at this; simp [isFetching] at this
    · exact moves j hj hb

theorem runOps_round_length (s : St) (n : Nat) : (runOps s (round n)).kids.length = s.kids.length :=
  length_runOps s _

/-- when no consumer is running any more, `send`s do nothing -/
theorem runSched_id_of_finished (s : St) (hf : ∀ j, j < s.kids.length → (s.kid j).task ≠ .active)
    (ops : List Op) (hops : ∀ op ∈ ops, ∃ i, op = .sched i) : runOps s ops = s := by
  induction ops with
  | nil => rfl
  | cons op rest ih =>
    obtain ⟨i, rfl⟩ := hops _ (List.mem_cons_self ..)
    have : (step s (.sched i)).1 = s := by
      simp only [step]
      split
      · rename_i hi; exact sched_blocked s i (Or.inl (hf i hi))
      · rfl
    show runOps (step s (.sched i)).1 rest = s
    rw [this]
    exact ih (fun op h => hops op (List.mem_cons_of_mem _ h))

theorem round_sched (n : Nat) : ∀ op ∈ round n, ∃ i, op = .sched i := by
  intro op h
  simp only [round, List.mem_map] at h
  obtain ⟨i, _, e⟩ := h
  exact ⟨i, e.symm⟩

theorem roundRobin_sched (n k : Nat) : ∀ op ∈ roundRobin n k, ∃ i, op = .sched i := by
  induction k with
  | zero => intro op h; simp [roundRobin] at h
  | succ k ih =>
    intro op h
    simp only [roundRobin, List.mem_append] at h
    rcases h with h | h
    · exact round_sched n op h
    · exact ih op h

/-- **Fair drain.** From a state that satisfies the invariant, as many rounds as the measure says
    (or more) leave no consumer running. -/
theorem Inv.drain {s : St} (h : Inv s) (n : Nat) (hn : s.kids.length = n) (B : Nat)
    (hB : s.measure ≤ B) :
    ∀ j, j < n → ((runOps s (roundRobin n B)).kid j).task ≠ .active := by
  induction B generalizing s with
  | zero =>
    intro j hj ha
    simp only [roundRobin, runOps] at ha
    have := measure_pos_of_active s j (by rw [hn]; exact hj) ha
    omega
  | succ B ih =>
    by_cases hex : ∃ j, j < s.kids.length ∧ (s.kid j).task = .active
    · obtain ⟨j, hj, ha⟩ := hex
      have hlt := h.round_lt j hj ha
      rw [hn] at hlt
      simp only [roundRobin, runOps_append]
      exact ih (h.runOps_inv _) (by rw [length_runOps]; exact hn) (by omega)
    · have hf : ∀ j, j < s.kids.length → (s.kid j).task ≠ .active :=
        fun j hj ha => hex ⟨j, hj, ha⟩
      rw [runSched_id_of_finished s hf _ (roundRobin_sched n (B + 1))]
      intro j hj
      exact hf j (by rw [hn]; exact hj)

/-! ## No operation adds work: a bound from the configuration alone -/

theorem measure_setKid_le (s : St) (i : Nat) (c : Child) (hi : i < s.kids.length)
    (hw : c.weight s.src.length ≤ (s.kid i).weight s.src.length) :
    (s.setKid i c).measure ≤ s.measure := by
  have := measure_setKid s i c hi
  omega

theorem measure_finishKid_le (s : St) (i : Nat) (t : Task) (hi : i < s.kids.length)
    (hw : ((s.kid i).finished t).weight s.src.length ≤ (s.kid i).weight s.src.length) :
    (finishKid s i t).measure ≤ s.measure := by
  have := measure_finishKid s i t hi
  omega

theorem closeKid_measure_le (s : St) (i : Nat) (hi : i < s.kids.length) :
    (closeKid s i).1.measure ≤ s.measure := by
  unfold closeKid
  split
  · rename_i hp
    refine measure_setKid_le s i _ hi ?_
    simp only [Child.weight, hp, rank_done, rank_unstarted]
    split <;> omega
  · rename_i hp
    refine measure_finishKid_le s i _ hi ?_
    have hr := rank_pos (s.kid i).pc
    by_cases ha : (s.kid i).task = .active
    · simp [Child.weight, Child.finished, ha]; omega
    · simp [Child.weight, Child.finished, ha]
  · exact Nat.le_refl _
  · exact Nat.le_refl _

theorem cancel_measure_le (s : St) (i : Nat) (hi : i < s.kids.length) :
    (cancel s i).1.measure ≤ s.measure := by
  unfold cancel
  split
  · split
    · exact measure_finishKid_le s i _ hi (by simp [Child.weight, Child.finished])
    · dsimp only
      have hk : (if s.diesOnCancel = true then { s with srcKilled := true } else s).kids = s.kids := by
        split <;> rfl
      have hm : (if s.diesOnCancel = true then { s with srcKilled := true } else s).measure
          = s.measure := by split <;> rfl
      have := measure_finishKid_le (release (if s.diesOnCancel = true then { s with srcKilled := true } else s) i)
        i .cancelled (by simpa [hk] using hi) (by simp [Child.weight, Child.finished])
      rw [measure_release, hm] at this
      exact this
    · exact measure_setKid_le s i _ hi (by simp [Child.weight])
  · exact Nat.le_refl _

theorem closeFrom_measure_le (s : St) (l : List Nat) (hl : ∀ i ∈ l, i < s.kids.length) :
    (closeFrom s l).1.measure ≤ s.measure := by
  induction l generalizing s with
  | nil => exact Nat.le_refl _
  | cons i rest ih =>
    have hi : i < s.kids.length := hl i (by simp)
    have h1 := closeKid_measure_le s i hi
    rw [closeFrom_cons]
    split
    · exact h1
    · refine Nat.le_trans (ih _ ?_) h1
      intro k hk; rw [closeKid_length]; exact hl k (by simp [hk])

theorem clearBuffers_measure_le (s : St) : (clearBuffers s).measure ≤ s.measure := by
  have := kidsWeight_map_le s.src.length s.src.length (fun (c : Child) => { c with buf := none }) s.kids
    (by intro c; simp only [Child.weight]; split
        · simp; omega
        · exact Nat.le_refl _)
  unfold clearBuffers
  simp only []
  split
  · split
    · simp only [St.measure]; omega
    · simp only [St.measure]; omega
  · exact Nat.le_refl _

theorem closeAll_measure_le (s : St) : (closeAll s).1.measure ≤ s.measure := by
  have h1 := closeFrom_measure_le s _ (range_lt s)
  by_cases hb : (closeFrom s (List.range s.kids.length)).2 = .busy
  · rw [closeAll_busy s hb]; exact h1
  · rw [closeAll_not_busy s hb]; exact Nat.le_trans (clearBuffers_measure_le _) h1

/-- no operation — `send`, `aclose()`, cancellation, `Tee.aclose()` — adds work -/
theorem step_measure_le (s : St) (op : Op) : (step s op).1.measure ≤ s.measure := by
  cases op with
  | sched i => exact step_sched_measure_le s i
  | close i => simp only [step]; split; exact closeKid_measure_le s i ‹_›; exact Nat.le_refl _
  | cancel i => simp only [step]; split; exact cancel_measure_le s i ‹_›; exact Nat.le_refl _
  | closeAll => exact closeAll_measure_le s

theorem runOps_measure_le (s : St) (ops : List Op) : (runOps s ops).measure ≤ s.measure := by
  induction ops generalizing s with
  | nil => exact Nat.le_refl _
  | cons op rest ih => exact Nat.le_trans (ih _) (step_measure_le s op)

/-- the measure of a fresh tee: every suspension of the script, and for each of the `n` children
    two `send`s per item plus two -/
def drainBound (items : List Val) (n : Nat) (susp : List Nat) : Nat :=
  susp.sum + n * (2 * items.length + 2)

theorem kidsWeight_replicate (L n : Nat) (c : Child) :
    kidsWeight L (List.replicate n c) = n * c.weight L := by
  induction n with
  | zero => simp [kidsWeight]
  | succ n ih =>
    simp only [kidsWeight, List.replicate_succ, List.map_cons, List.sum_cons] at ih ⊢
    rw [ih, Nat.succ_mul]; omega

theorem measure_init (items : List Val) (n : Nat) (susp : List Nat) (lock closeable dies : Bool) :
    (init items n susp lock closeable dies).measure = drainBound items n susp := by
  simp [St.measure, init, kidsWeight_replicate, drainBound, Child.weight]

theorem reach_measure_le (items n susp lock closeable dies ops) :
    (reach items n susp lock closeable dies ops).measure ≤ drainBound items n susp := by
  rw [← measure_init items n susp lock closeable dies]
  exact runOps_measure_le _ ops

/-! ## A child that is never closed and whose consumer is never cancelled -/

/-- the consumer of child `j` is running and the child has not been closed, or the child has
    reported the end of the source by itself -/
def Running (s : St) (j : Nat) : Prop :=
  ((s.kid j).task = .active ∧ (s.kid j).pc ≠ .done) ∨ (s.kid j).task = .ended

/-- what a `send` on a running consumer `i` of a child that was not closed can lead to -/
def GoodSend (r : St × Out) (i : Nat) : Prop :=
  r.2 = .error ∨ (r.1.kid i).task = .ended ∨ ((r.1.kid i).task = .active ∧ (r.1.kid i).pc ≠ .done)

theorem popYield_good (s : St) (i : Nat) (hi : i < s.kids.length) (ha : (s.kid i).task = .active) :
    GoodSend (popYield s i) i := by
  unfold popYield
  split
  · right; right
    dsimp only
    rw [kid_setKid _ _ _ _ hi]
    simp [ha]
  · left; rfl

theorem completeFetch_good (s : St) (i : Nat) (hi : i < s.kids.length)
    (ha : (s.kid i).task = .active) : GoodSend (completeFetch s i) i := by
  unfold completeFetch
  split
  · right; left
    dsimp only
    rw [finishKid_kid _ _ _ _ (by simpa using hi)]
    simp [Child.finished]
  · split
    · right; left
      dsimp only
      rw [finishKid_kid _ _ _ _ (by simpa using hi)]
      simp [Child.finished]
    · rename_i v r hs
      refine popYield_good _ i (by simpa using hi) ?_
      rw [release_kid, kid_broadcast _ _ _ (by simpa using hi)]
      exact ha

theorem completeFetch_good' (s s' : St) (i : Nat) (hi : i < s.kids.length)
    (ha : (s.kid i).task = .active) (hk : s'.kids = s.kids) : GoodSend (completeFetch s' i) i := by
  have hkid : s'.kid i = s.kid i := by simp [St.kid, hk]
  exact completeFetch_good s' i (by rw [hk]; exact hi) (by rw [hkid]; exact ha)

theorem startFetch_good (s : St) (i : Nat) (hi : i < s.kids.length)
    (ha : (s.kid i).task = .active) : GoodSend (startFetch s i) i := by
  unfold startFetch
  simp only []
  split
  · exact completeFetch_good' s _ i hi ha rfl
  · split
    · exact completeFetch_good' s _ i hi ha rfl
    · right; right
      dsimp only
      rw [kid_setKid _ _ _ _ (by simpa using hi)]
      exact ⟨by simp only [if_true]; exact ha, by simp⟩

theorem enterCritical_good (s : St) (i : Nat) (hi : i < s.kids.length)
    (ha : (s.kid i).task = .active) : GoodSend (enterCritical s i) i := by
  unfold enterCritical
  simp only []
  have hk : (if s.withLock = true then { s with holder := some i } else s).kids = s.kids := by
    split <;> rfl
  have hkid : (if s.withLock = true then { s with holder := some i } else s).kid i = s.kid i := by
    simp [St.kid, hk]
  split
  · exact popYield_good _ i (by simpa [hk] using hi) (by rw [release_kid, hkid]; exact ha)
  · exact startFetch_good _ i (by simpa [hk] using hi) (by rw [hkid]; exact ha)

theorem loopTop_good (s : St) (i : Nat) (hi : i < s.kids.length)
    (ha : (s.kid i).task = .active) : GoodSend (loopTop s i) i := by
  unfold loopTop
  split
  · exact popYield_good s i hi ha
  · split
    · right; right
      dsimp only
      rw [kid_setKid _ _ _ _ hi]
      exact ⟨by simpa using ha, by simp⟩
    · exact enterCritical_good s i hi ha

theorem sched_good (s : St) (i : Nat) (hi : i < s.kids.length)
    (ha : (s.kid i).task = .active) (hl : (s.kid i).pc ≠ .done) : GoodSend (sched s i) i := by
  unfold sched
  split
  · split
    · rename_i hp; exact absurd hp hl
    · exact loopTop_good s i hi ha
    · exact loopTop_good s i hi ha
    · split
      · right; right; exact ⟨ha, hl⟩
      · exact enterCritical_good s i hi ha
    · exact completeFetch_good s i hi ha
    · right; right
      dsimp only
      rw [kid_setKid _ _ _ _ hi]
      exact ⟨by simpa using ha, by simp⟩
  · right; right; exact ⟨ha, hl⟩

/-- an operation other than `aclose()` of child `j`, a cancellation of consumer `j` and
    `Tee.aclose()` keeps child `j` running (or finished by itself) -/
theorem Running.step_ok {s : St} {j : Nat} (h : Running s j) (hinv : Inv s) (hj : j < s.kids.length)
    (op : Op) (h1 : op ≠ .close j) (h2 : op ≠ .cancel j) (h3 : op ≠ .closeAll) :
    Running (step s op).1 j := by
  cases op with
  | sched i =>
    simp only [step]
    split
    · rename_i hi
      by_cases hji : j = i
      · subst hji
        rcases h with ⟨ha, hl⟩ | he
        · rcases sched_good s j hj ha hl with e | e | e
          · exact absurd e (hinv.sched_noerr j hj)
          · exact Or.inr e
          · exact Or.inl e
        · right
          have : (sched s j).1 = s := sched_blocked s j (Or.inl (by simp [he]))
          rw [this]; exact he
      · have := (sched_eff s i hi).others j hj hji
        unfold Running
        rw [this.1, this.2.1]; exact h
    · exact h
  | close i =>
    simp only [step]
    split
    · rename_i hi
      have hji : j ≠ i := fun e => h1 (by rw [e])
      have := (closeKid_frame s i j hi hji).1
      unfold Running; rw [this]; exact h
    · exact h
  | cancel i =>
    simp only [step]
    split
    · rename_i hi
      have hji : j ≠ i := fun e => h2 (by rw [e])
      have := (cancel_frame s i j hi hji).1
      unfold Running; rw [this]; exact h
    · exact h
  | closeAll => exact absurd rfl h3

theorem Running.runOps_ok {s : St} {j : Nat} (h : Running s j) (hinv : Inv s) (hj : j < s.kids.length)
    (ops : List Op) (h1 : Op.close j ∉ ops) (h2 : Op.cancel j ∉ ops) (h3 : Op.closeAll ∉ ops) :
    Running (runOps s ops) j := by
  induction ops generalizing s with
  | nil => exact h
  | cons op rest ih =>
    refine ih (h.step_ok hinv hj op ?_ ?_ ?_) (hinv.step_inv op) (by rw [length_step]; exact hj)
      ?_ ?_ ?_
    · intro e; exact h1 (by rw [e]; exact List.mem_cons_self ..)
    · intro e; exact h2 (by rw [e]; exact List.mem_cons_self ..)
    · intro e; exact h3 (by rw [e]; exact List.mem_cons_self ..)
    · intro e; exact h1 (List.mem_cons_of_mem _ e)
    · intro e; exact h2 (List.mem_cons_of_mem _ e)
    · intro e; exact h3 (List.mem_cons_of_mem _ e)

theorem init_running (items : List Val) (n : Nat) (susp : List Nat) (lock closeable dies : Bool)
    (j : Nat) : Running (init items n susp lock closeable dies) j := by
  left; rw [kid_init]; simp

/-! ## Only a cancellation can kill the source -/

@[simp] theorem killed_popYield (s : St) (i) : (popYield s i).1.srcKilled = s.srcKilled := by
  unfold popYield; split <;> simp

@[simp] theorem killed_completeFetch (s : St) (i) : (completeFetch s i).1.srcKilled = s.srcKilled := by
  unfold completeFetch
  split
  · simp
  · split
    · rw [finishKid_srcKilled, release_srcKilled]
    · rw [killed_popYield, release_srcKilled, broadcast_srcKilled]

@[simp] theorem killed_startFetch (s : St) (i) : (startFetch s i).1.srcKilled = s.srcKilled := by
  unfold startFetch; simp only []
  split
  · rw [killed_completeFetch]
  · split
    · rw [killed_completeFetch]
    · rfl

@[simp] theorem killed_enterCritical (s : St) (i) : (enterCritical s i).1.srcKilled = s.srcKilled := by
  unfold enterCritical; simp only []
  split
  · rw [killed_popYield, release_srcKilled]; split <;> rfl
  · rw [killed_startFetch]; split <;> rfl

@[simp] theorem killed_loopTop (s : St) (i) : (loopTop s i).1.srcKilled = s.srcKilled := by
  unfold loopTop; split
  · simp
  · split <;> simp

@[simp] theorem killed_sched (s : St) (i) : (sched s i).1.srcKilled = s.srcKilled := by
  unfold sched; split
  · split <;> try simp
    split <;> simp
  · rfl

@[simp] theorem killed_closeKid (s : St) (i) : (closeKid s i).1.srcKilled = s.srcKilled := by
  unfold closeKid; split <;> simp

@[simp] theorem killed_closeFrom (s : St) (l) : (closeFrom s l).1.srcKilled = s.srcKilled := by
  induction l generalizing s with
  | nil => rfl
  | cons i rest ih => rw [closeFrom_cons]; split <;> simp [ih]

@[simp] theorem killed_closeAll (s : St) : (closeAll s).1.srcKilled = s.srcKilled := by
  by_cases hb : (closeFrom s (List.range s.kids.length)).2 = .busy
  · rw [closeAll_busy s hb]; simp
  · rw [closeAll_not_busy s hb]; simp

theorem killed_runOps (s : St) (ops : List Op) (h : ∀ i, Op.cancel i ∉ ops) :
    (runOps s ops).srcKilled = s.srcKilled := by
  induction ops generalizing s with
  | nil => rfl
  | cons op rest ih =>
    have hrest : ∀ i, Op.cancel i ∉ rest := fun i e => h i (List.mem_cons_of_mem _ e)
    show (runOps (step s op).1 rest).srcKilled = s.srcKilled
    rw [ih _ hrest]
    cases op with
    | sched i => simp only [step]; split <;> simp
    | close i => simp only [step]; split <;> simp
    | cancel i => exact absurd (List.mem_cons_self ..) (h i)
    | closeAll => simp [step]

end AsyncVerif.Tee
