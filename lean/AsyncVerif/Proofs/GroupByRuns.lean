import AsyncVerif.Proofs.GroupBy
/-!
# groupby against the readable specification `runs` (maximal runs of equal keys)

Two canonical consumers are related to `runs items`:
* the *draining* consumer (`fullOps`): advance the groupby, advance the group until it stops, repeat;
* the *keys-only* consumer (`keyOps`): advance the groupby only.
-/
namespace AsyncVerif.GroupBy

/-- values of the leading items of `r` whose key is `k` -/
def headRun (k : Key) (r : List (Val × Key)) : List Val :=
  (r.takeWhile (fun p => decide (p.2 = k))).map (·.1)

/-- what is left of `r` after its leading items with key `k` -/
def afterRun (k : Key) (r : List (Val × Key)) : List (Val × Key) :=
  r.dropWhile (fun p => decide (p.2 = k))

theorem headRun_cons_eq (k : Key) (v : Val) (r : List (Val × Key)) :
    headRun k ((v, k) :: r) = v :: headRun k r := by simp [headRun]

theorem afterRun_cons_eq (k : Key) (v : Val) (r : List (Val × Key)) :
    afterRun k ((v, k) :: r) = afterRun k r := by simp [afterRun]

theorem headRun_cons_ne {k k' : Key} (h : k' ≠ k) (v : Val) (r : List (Val × Key)) :
    headRun k ((v, k') :: r) = [] := by simp [headRun, h]

theorem afterRun_cons_ne {k k' : Key} (h : k' ≠ k) (v : Val) (r : List (Val × Key)) :
    afterRun k ((v, k') :: r) = (v, k') :: r := by simp [afterRun, h]

theorem afterRun_length_le (k : Key) (r : List (Val × Key)) : (afterRun k r).length ≤ r.length := by
  induction r with
  | nil => simp [afterRun]
  | cons p r ih =>
    rcases p with ⟨v, k'⟩
    by_cases h : k' = k
    · subst h; rw [afterRun_cons_eq]; simp; omega
    · rw [afterRun_cons_ne h]; simp

/-- the head of what is left after a run has a different key -/
theorem afterRun_head_ne (k : Key) (r : List (Val × Key)) (v' : Val) (k' : Key) (r' : List (Val × Key))
    (h : afterRun k r = (v', k') :: r') : k' ≠ k := by
  induction r with
  | nil => simp [afterRun] at h
  | cons p r ih =>
    rcases p with ⟨v, k2⟩
    by_cases h2 : k2 = k
    · subst h2; rw [afterRun_cons_eq] at h; exact ih h
    · rw [afterRun_cons_ne h2] at h
      simp only [List.cons.injEq, Prod.mk.injEq] at h
      rw [← h.1.2]; exact h2

/-- `runs` peels off one maximal run at a time -/
theorem runs_cons (v : Val) (k : Key) (r : List (Val × Key)) :
    runs ((v, k) :: r) = (k, v :: headRun k r) :: runs (afterRun k r) := by
  induction r generalizing v k with
  | nil => simp [runs, headRun, afterRun]
  | cons p r ih =>
    rcases p with ⟨v', k'⟩
    have h := ih v' k'
    by_cases hk : k' = k
    · subst hk
      rw [headRun_cons_eq, afterRun_cons_eq]
      show (match runs ((v', k') :: r) with
        | (k'', vs) :: rest => if k' = k'' then (k', v :: vs) :: rest else (k', [v]) :: (k'', vs) :: rest
        | [] => [(k', [v])]) = _
      rw [h]; simp
    · rw [headRun_cons_ne hk, afterRun_cons_ne hk]
      show (match runs ((v', k') :: r) with
        | (k'', vs) :: rest => if k = k'' then (k, v :: vs) :: rest else (k, [v]) :: (k'', vs) :: rest
        | [] => [(k, [v])]) = _
      rw [h]
      have : ¬ k = k' := fun e => hk e.symm
      simp [this]

/-! ## the draining consumer -/

/-- advance the groupby, then advance the group until it stops (one more `next` than it has items) -/
def fullOps : Nat → List (Key × List Val) → List Op
  | _, [] => [.adv]
  | g, (_, vs) :: rest => .adv :: (List.replicate (vs.length + 1) (.grpNext g) ++ fullOps (g + 1) rest)

/-- what the draining consumer must see: each run's key with a fresh handle, its items, a stop -/
def fullOuts : Nat → List (Key × List Val) → List Out
  | _, [] => [.stop]
  | g, (k, vs) :: rest => .key k g :: (vs.map .item ++ (.stop :: fullOuts (g + 1) rest))

/-- the state a drained group leaves behind -/
def afterDrain (s : St) (k : Key) (r : List (Val × Key)) : St :=
  match afterRun k r with
  | [] => { s with items := [] }
  | (v', k') :: r' => { s with items := r', cur := some v', curKey := some k' }

theorem run_cons (f : St → Op → St × Out) (s : St) (op : Op) (ops : List Op) :
    run f s (op :: ops) = (f s op).2 :: run f (f s op).1 ops := rfl

/-- draining the current group after its first item was taken -/
theorem drain (k : Key) (g : Nat) (ops : List Op) : ∀ (r : List (Val × Key)) (s : St),
    s.items = r → s.cur = none → s.curKey = some k → s.grp = some g → s.groups[g]? = some k →
    run stepI s (List.replicate ((headRun k r).length + 1) (.grpNext g) ++ ops)
      = (headRun k r).map .item ++ (.stop :: run stepI (afterDrain s k r) ops) := by
  intro r
  induction r with
  | nil =>
    intro s hi hc hk hg hgs
    rcases s with ⟨items, cur, curKey, tgt, grp, groups⟩
    simp only at hi hc hk hg hgs
    subst hi hc hk hg
    simp [headRun, afterDrain, afterRun, run_cons, stepI, grpNext, step]
  | cons p r ih =>
    intro s hi hc hk hg hgs
    rcases s with ⟨items, cur, curKey, tgt, grp, groups⟩
    simp only at hi hc hk hg hgs
    subst hi hc hk hg
    rcases p with ⟨v', k'⟩
    by_cases h : k' = k
    · subst h
      rw [headRun_cons_eq]
      have hstep : stepI ⟨(v', k') :: r, none, some k', tgt, some g, groups⟩ (.grpNext g)
          = (⟨r, none, some k', tgt, some g, groups⟩, .item v') := by
        simp [stepI, grpNext, step, hgs]
      rw [List.length_cons, List.replicate_succ, List.cons_append, run_cons, hstep]
      have := ih ⟨r, none, some k', tgt, some g, groups⟩ rfl rfl rfl rfl hgs
      simp only [] at this ⊢
      rw [this]
      simp [afterDrain, afterRun_cons_eq]
    · rw [headRun_cons_ne h]
      have hne : ¬ (k = k') := fun e => h e.symm
      have hstep : stepI ⟨(v', k') :: r, none, some k, tgt, some g, groups⟩ (.grpNext g)
          = (⟨r, some v', some k', tgt, some g, groups⟩, .stop) := by
        simp [stepI, grpNext, step, hgs, hne]
      simp [run_cons, hstep, afterDrain, afterRun_cons_ne h]

/-- a group that was just handed out, drained, and everything after it -/
theorem drained_from_group : ∀ (n : Nat) (r : List (Val × Key)) (s : St) (gs : List Key) (v : Val) (k : Key),
    r.length ≤ n → s.items = r → s.cur = some v → s.curKey = some k → s.tgt = some k →
    s.groups = gs ++ [k] → s.grp = some gs.length →
    run stepI s (List.replicate ((headRun k r).length + 2) (.grpNext gs.length)
        ++ fullOps (gs.length + 1) (runs (afterRun k r)))
      = .item v :: ((headRun k r).map .item ++ (.stop :: fullOuts (gs.length + 1) (runs (afterRun k r)))) := by
  intro n
  induction n with
  | zero =>
    intro r s gs v k hn hi hc hk ht hgs hg
    have hr : r = [] := List.length_eq_zero_iff.mp (Nat.le_zero.mp hn)
    subst hr
    rcases s with ⟨items, cur, curKey, tgt, grp, groups⟩
    simp only at hi hc hk ht hgs hg
    subst hi hc hk ht hgs hg
    simp [headRun, afterRun, runs, fullOps, fullOuts, run_cons, run, stepI, grpNext, step, advI]
  | succ n ih =>
    intro r s gs v k hn hi hc hk ht hgs hg
    rcases s with ⟨items, cur, curKey, tgt, grp, groups⟩
    simp only at hi hc hk ht hgs hg
    have hi' := hi.symm
    subst hi' hc hk ht hgs hg
    have hget : (gs ++ [k])[gs.length]? = some k := by simp
    have hstep : stepI ⟨r, some v, some k, some k, some gs.length, gs ++ [k]⟩ (.grpNext gs.length)
        = (⟨r, none, some k, some k, some gs.length, gs ++ [k]⟩, .item v) := by
      simp [stepI, grpNext]
    have hd := drain k gs.length (fullOps (gs.length + 1) (runs (afterRun k r)))
      r ⟨r, none, some k, some k, some gs.length, gs ++ [k]⟩ rfl rfl rfl rfl hget
    rw [List.replicate_succ, List.cons_append, run_cons, hstep]
    simp only []
    rw [hd]
    congr 2
    congr 1
    -- what follows the drained group
    cases hr : afterRun k r with
    | nil =>
      simp [afterDrain, hr, runs, fullOps, fullOuts, run_cons, run, stepI, advI, step]
    | cons p r' =>
      rcases p with ⟨v', k'⟩
      have hne : k' ≠ k := afterRun_head_ne k r v' k' r' hr
      have hlen : r'.length ≤ n := by
        have := afterRun_length_le k r
        rw [hr] at this; simp at this; omega
      rw [runs_cons]
      simp only [afterDrain, hr, fullOps, fullOuts]
      -- the groupby is advanced: the pending item opens the next group
      have hadv : stepI ⟨r', some v', some k', some k, some gs.length, gs ++ [k]⟩ .adv
          = (⟨r', some v', some k', some k', some (gs.length + 1), gs ++ [k] ++ [k']⟩, .key k' (gs.length + 1)) := by
        cases r' with
        | nil => simp [stepI, advI, scanI, scanL, hne, finish]
        | cons q r'' =>
          rcases q with ⟨v2, k2⟩
          simp [stepI, advI, scanI, scanL, hne, finish]
      rw [run_cons, hadv]
      have := ih r' ⟨r', some v', some k', some k', some (gs.length + 1), gs ++ [k] ++ [k']⟩ (gs ++ [k]) v' k'
        hlen rfl rfl rfl rfl rfl (by simp)
      simp only [List.length_append, List.length_cons, List.length_nil, Nat.zero_add] at this
      rw [show (v' :: headRun k' r').length + 1 = (headRun k' r').length + 2 by simp]
      simp only []
      rw [this]
      simp

/-- **groupby against the readable specification, draining consumer.**  For every input, advancing the
    groupby and draining each group before the next advance produces, for each maximal run of equal
    keys in turn, the run's key with a fresh group handle, exactly the run's items in order, and a
    stop; after the last run the groupby stops. -/
theorem full_consumption (items : List (Val × Key)) :
    run stepI (init items) (fullOps 0 (runs items)) = fullOuts 0 (runs items) := by
  cases items with
  | nil => simp [runs, fullOps, fullOuts, run, stepI, advI, init, step]
  | cons p r =>
    rcases p with ⟨v, k⟩
    rw [runs_cons]
    simp only [fullOps, fullOuts]
    have hadv : stepI (init ((v, k) :: r)) .adv
        = (⟨r, some v, some k, some k, some 0, [k]⟩, .key k 0) := by
      simp [stepI, advI, init, step, finish]
    rw [run_cons, hadv]
    have := drained_from_group r.length r ⟨r, some v, some k, some k, some 0, [k]⟩ [] v k
      (Nat.le_refl _) rfl rfl rfl rfl rfl rfl
    simp only [List.length_nil, Nat.zero_add] at this
    rw [show (v :: headRun k r).length + 1 = (headRun k r).length + 2 by simp]
    simp only []
    rw [this]
    simp

/-! ## the keys-only consumer -/

/-- what a consumer that only advances the groupby must see: the key of each run, then stop -/
def keyOuts : Nat → List (Key × List Val) → List Out
  | _, [] => [.stop]
  | g, (k, _) :: rest => .key k g :: keyOuts (g + 1) rest

/-- skipping the rest of the current run: `scanL` on a state whose current key is the target -/
theorem scanL_run (k : Key) : ∀ (r : List (Val × Key)) (cur : Option Val) (tgt : Option Key) (grp : Option Nat)
    (groups : List Key),
    (afterRun k r = [] → (scanL k r ⟨r, cur, some k, tgt, grp, groups⟩).2 = false) ∧
    (∀ v' k' r', afterRun k r = (v', k') :: r' →
      scanL k r ⟨r, cur, some k, tgt, grp, groups⟩ = (⟨r', some v', some k', tgt, grp, groups⟩, true)) := by
  intro r
  induction r with
  | nil => intro cur tgt grp groups; simp [afterRun, scanL]
  | cons p r ih =>
    intro cur tgt grp groups
    rcases p with ⟨v, k2⟩
    by_cases h : k2 = k
    · subst h
      rw [afterRun_cons_eq]
      have := ih (some v) tgt grp groups
      simpa [scanL] using this
    · rw [afterRun_cons_ne h]
      have hne : ¬ (k2 = k) := h
      constructor
      · intro e; simp at e
      · intro v' k' r' e
        simp only [List.cons.injEq, Prod.mk.injEq] at e
        obtain ⟨⟨rfl, rfl⟩, rfl⟩ := e
        cases r with
        | nil => simp [scanL, hne]
        | cons q r2 => rcases q with ⟨v3, k3⟩; simp [scanL, hne]

theorem keys_from_group : ∀ (n : Nat) (r : List (Val × Key)) (gs : List Key) (v : Val) (k : Key) (grp : Option Nat),
    r.length ≤ n →
    run stepI ⟨r, some v, some k, some k, grp, gs ++ [k]⟩ (List.replicate ((runs (afterRun k r)).length + 1) .adv)
      = keyOuts (gs.length + 1) (runs (afterRun k r)) := by
  intro n
  induction n with
  | zero =>
    intro r gs v k grp hn
    have hr : r = [] := List.length_eq_zero_iff.mp (Nat.le_zero.mp hn)
    subst hr
    simp [afterRun, runs, keyOuts, run_cons, run, stepI, advI, scanI, scanL]
  | succ n ih =>
    intro r gs v k grp hn
    have hs := scanL_run k r (some v) (some k) none (gs ++ [k])
    cases hr : afterRun k r with
    | nil =>
      have h2 := hs.1 hr
      have hadv : (stepI ⟨r, some v, some k, some k, grp, gs ++ [k]⟩ .adv).2 = .stop := by
        simp only [stepI, advI, scanI]
        rcases hsc : scanL k r ⟨r, some v, some k, some k, none, gs ++ [k]⟩ with ⟨s2, b⟩
        rw [hsc] at h2
        simp only at h2
        subst h2
        simp [hsc]
      simp [runs, keyOuts, run_cons, run, hadv]
    | cons p r' =>
      rcases p with ⟨v', k'⟩
      have h2 := hs.2 v' k' r' hr
      have hlen : r'.length ≤ n := by
        have := afterRun_length_le k r
        rw [hr] at this; simp at this; omega
      have hadv : stepI ⟨r, some v, some k, some k, grp, gs ++ [k]⟩ .adv
          = (⟨r', some v', some k', some k', some (gs.length + 1), gs ++ [k] ++ [k']⟩, .key k' (gs.length + 1)) := by
        simp [stepI, advI, scanI, h2, finish]
      rw [runs_cons]
      simp only [List.length_cons, keyOuts]
      rw [List.replicate_succ, run_cons, hadv]
      have := ih r' (gs ++ [k]) v' k' (some (gs.length + 1)) hlen
      simp only [List.length_append, List.length_cons, List.length_nil, Nat.zero_add] at this
      simp only []
      rw [this]

/-- **groupby against the readable specification, keys-only consumer.**  Advancing only the groupby
    yields the key of every maximal run of equal keys, in order, each with a fresh group handle, and
    then stops — the items of skipped groups are consumed silently. -/
theorem keys_only (items : List (Val × Key)) :
    run stepI (init items) (List.replicate ((runs items).length + 1) .adv) = keyOuts 0 (runs items) := by
  cases items with
  | nil => simp [runs, keyOuts, run_cons, run, stepI, advI, init, step]
  | cons p r =>
    rcases p with ⟨v, k⟩
    rw [runs_cons]
    simp only [List.length_cons, keyOuts]
    have hadv : stepI (init ((v, k) :: r)) .adv = (⟨r, some v, some k, some k, some 0, [k]⟩, .key k 0) := by
      simp [stepI, advI, init, step, finish]
    rw [List.replicate_succ, run_cons, hadv]
    have := keys_from_group r.length r [] v k (some 0) (Nat.le_refl _)
    simpa using this

end AsyncVerif.GroupBy
