import AsyncVerif.Std.Select
import AsyncVerif.Std.AggSpec
/-!
# The bounded heap of `nlargest` / `nsmallest` selects `sorted(…)[:n]`

Three layers:
1. integer keys, no stamps: keeping the best `n` while folding (`selK`) is `(stable sort).take n` (`selK_eq_spec`);
2. the stamps implement exactly that: for every stamp direction the stamped heap, with stamps erased, is the stamp-free
   list (`insV_erase`, `selectV_eq_selectKV`) — so all four variants (asyncstdlib / CPython × largest / smallest) compute
   the same thing on every input, orderable or not;
3. orderable keys: the `Val`-level functions are the integer-level ones (`selectKV_orderable`).
-/
namespace AsyncVerif.Sel

open AsyncVerif List

/-! ## 1. integer keys -/

theorem kb_asymm (largest : Bool) (x y : Int) : kb largest x y = true → kb largest y x = false := by
  unfold kb; cases largest <;> simp <;> omega

theorem kb_irrefl (largest : Bool) (x : Int) : kb largest x x = false := by
  unfold kb; cases largest <;> simp

theorem kb_of_kb_of_not (largest : Bool) {e a z : Int} (h1 : kb largest e a = true) (h2 : kb largest z a = false) :
    kb largest e z = true := by
  unfold kb at *; cases largest <;> simp at * <;> omega

theorem insK_length (largest : Bool) (e : Int × Val) : ∀ l, (insK largest e l).length = l.length + 1
  | [] => rfl
  | a :: l => by
    unfold insK; split
    · simp
    · simp [insK_length largest e l]

theorem insK_perm (largest : Bool) (e : Int × Val) : ∀ l, insK largest e l ~ e :: l
  | [] => Perm.refl _
  | a :: l => by
    unfold insK; split
    · exact Perm.refl _
    · exact ((insK_perm largest e l).cons a).trans (Perm.swap e a l)

/-- best first: no later entry has a strictly better key than an earlier one -/
def SortedK (largest : Bool) (l : List (Int × Val)) : Prop := l.Pairwise (fun a b => kb largest b.1 a.1 = false)

theorem insK_sorted (largest : Bool) (e : Int × Val) : ∀ l, SortedK largest l → SortedK largest (insK largest e l)
  | [], _ => by simp [insK, SortedK]
  | a :: l, h => by
    unfold SortedK at h ⊢
    rw [pairwise_cons] at h
    unfold insK; split
    · rename_i hk
      rw [pairwise_cons, pairwise_cons]
      refine ⟨?_, h.1, h.2⟩
      intro b hb
      rcases mem_cons.mp hb with rfl | hb
      · exact kb_asymm largest _ _ hk
      · -- b not better than a, e better than a  ⇒  b not better than e
        have hba := h.1 b hb
        unfold kb at *; cases largest <;> simp at * <;> omega
    · rename_i hk
      rw [pairwise_cons]
      refine ⟨?_, insK_sorted largest e l h.2⟩
      intro b hb
      have hb' : b ∈ e :: l := (insK_perm largest e l).mem_iff.mp hb
      rcases mem_cons.mp hb' with rfl | hb'
      · simpa using hk
      · exact h.1 b hb'

theorem take_insK (largest : Bool) (e : Int × Val) : ∀ (l : List (Int × Val)) (n : Nat),
    (insK largest e l).take n = (insK largest e (l.take n)).take n
  | _, 0 => by simp
  | [], n+1 => by simp
  | a :: l, n+1 => by
    simp only [take_succ_cons]
    unfold insK
    split
    · simp only [take_succ_cons]
      congr 1
      cases n with
      | zero => simp
      | succ m => simp [take_take]
    · simp only [take_succ_cons]
      rw [take_insK largest e l n]

theorem foldl_insK_take (largest : Bool) (n : Nat) : ∀ (keyed init : List (Int × Val)),
    (keyed.foldl (fun acc e => insK largest e acc) init).take n =
      keyed.foldl (fun acc e => (insK largest e acc).take n) (init.take n)
  | [], init => by simp
  | e :: rest, init => by
    simp only [foldl_cons]
    rw [foldl_insK_take largest n rest (insK largest e init), take_insK largest e init n]

theorem selK_eq_take (largest : Bool) (n : Nat) (keyed : List (Int × Val)) :
    selK largest n keyed = (keyed.foldl (fun acc e => insK largest e acc) []).take n := by
  unfold selK
  rw [foldl_insK_take largest n keyed []]
  simp

/-! ### insertion in arrival order is the stable sort (`List.mergeSort`): by uniqueness of the sorted permutation of the
position-decorated list -/

theorem specLe_trans (largest : Bool) (a b c : Int × Val) :
    specLe largest a b = true → specLe largest b c = true → specLe largest a c = true := by
  unfold specLe kb; cases largest <;> simp <;> omega

theorem specLe_total (largest : Bool) (a b : Int × Val) : (specLe largest a b || specLe largest b a) = true := by
  unfold specLe kb; cases largest <;> simp <;> omega

abbrev ZE := (Int × Val) × Nat

def zle (largest : Bool) (a b : ZE) : Bool := zipIdxLE (specLe largest) a b

theorem zle_trans (largest : Bool) (a b c : ZE) : zle largest a b = true → zle largest b c = true → zle largest a c = true :=
  zipIdxLE_trans (specLe_trans largest) a b c

theorem zle_total (largest : Bool) (a b : ZE) : (zle largest a b || zle largest b a) = true :=
  zipIdxLE_total (specLe_total largest) a b

/-- insert `e` in front of the first entry it precedes in the decorated order -/
def insZ (largest : Bool) (e : ZE) : List ZE → List ZE
  | [] => [e]
  | a :: l => if zle largest e a then e :: a :: l else a :: insZ largest e l

theorem insZ_perm (largest : Bool) (e : ZE) : ∀ l, insZ largest e l ~ e :: l
  | [] => Perm.refl _
  | a :: l => by
    unfold insZ; split
    · exact Perm.refl _
    · exact ((insZ_perm largest e l).cons a).trans (Perm.swap e a l)

theorem insZ_sorted (largest : Bool) (e : ZE) : ∀ l, l.Pairwise (fun a b => zle largest a b = true) →
    (insZ largest e l).Pairwise (fun a b => zle largest a b = true)
  | [], _ => by simp [insZ]
  | a :: l, h => by
    rw [pairwise_cons] at h
    unfold insZ; split
    · rename_i hk
      rw [pairwise_cons, pairwise_cons]
      refine ⟨?_, h.1, h.2⟩
      intro b hb
      rcases mem_cons.mp hb with rfl | hb
      · exact hk
      · exact zle_trans largest _ _ _ hk (h.1 b hb)
    · rename_i hk
      rw [pairwise_cons]
      refine ⟨?_, insZ_sorted largest e l h.2⟩
      intro b hb
      have hb' : b ∈ e :: l := (insZ_perm largest e l).mem_iff.mp hb
      rcases mem_cons.mp hb' with rfl | hb'
      · have := zle_total largest a b
        simp only [Bool.or_eq_true] at this
        rcases this with h1 | h1
        · exact h1
        · exact absurd h1 hk
      · exact h.1 b hb'

/-- with a position later than every position in `l`, the decorated insertion is the key-only insertion -/
theorem insZ_erase (largest : Bool) (x : Int × Val) (i : Nat) : ∀ (l : List ZE), (∀ a ∈ l, a.2 < i) →
    (insZ largest (x, i) l).map (·.1) = insK largest x (l.map (·.1))
  | [], _ => rfl
  | a :: l, h => by
    have ha : a.2 < i := h a mem_cons_self
    have hz : zle largest (x, i) a = kb largest x.1 a.1.1 := by
      unfold zle zipIdxLE specLe
      have := kb_asymm largest x.1 a.1.1
      have := kb_asymm largest a.1.1 x.1
      cases h1 : kb largest x.1 a.1.1 <;> cases h2 : kb largest a.1.1 x.1 <;> simp_all
    unfold insZ insK
    simp only [hz, map_cons]
    split
    · simp
    · simp only [map_cons]
      rw [insZ_erase largest x i l (fun b hb => h b (mem_cons_of_mem a hb))]

theorem foldl_insZ_erase (largest : Bool) : ∀ (keyed : List (Int × Val)) (k : Nat) (acc : List ZE),
    (∀ a ∈ acc, a.2 < k) →
    ((keyed.zipIdx k).foldl (fun acc e => insZ largest e acc) acc).map (·.1) =
      keyed.foldl (fun acc e => insK largest e acc) (acc.map (·.1))
  | [], _, _, _ => by simp
  | x :: rest, k, acc, h => by
    simp only [zipIdx_cons, foldl_cons]
    rw [foldl_insZ_erase largest rest (k + 1) (insZ largest (x, k) acc), insZ_erase largest x k acc h]
    intro a ha
    have ha' : a ∈ (x, k) :: acc := (insZ_perm largest (x, k) acc).mem_iff.mp ha
    rcases mem_cons.mp ha' with rfl | ha'
    · simp
    · exact Nat.lt_succ_of_lt (h a ha')

theorem foldl_insZ_perm (largest : Bool) : ∀ (D acc : List ZE), D.foldl (fun acc e => insZ largest e acc) acc ~ acc ++ D
  | [], acc => by simp
  | e :: rest, acc => by
    simp only [foldl_cons]
    refine (foldl_insZ_perm largest rest (insZ largest e acc)).trans ?_
    refine ((insZ_perm largest e acc).append_right rest).trans ?_
    simpa using (perm_middle (a := e) (l₁ := acc) (l₂ := rest)).symm

theorem foldl_insZ_sorted (largest : Bool) : ∀ (D acc : List ZE), acc.Pairwise (fun a b => zle largest a b = true) →
    (D.foldl (fun acc e => insZ largest e acc) acc).Pairwise (fun a b => zle largest a b = true)
  | [], _, h => h
  | e :: rest, acc, h => foldl_insZ_sorted largest rest _ (insZ_sorted largest e acc h)

theorem zle_antisymm_zipIdx (largest : Bool) (keyed : List (Int × Val)) (a b : ZE)
    (ha : a ∈ keyed.zipIdx) (hb : b ∈ keyed.zipIdx) (h1 : zle largest a b = true) (h2 : zle largest b a = true) : a = b := by
  obtain ⟨⟨ak, ai⟩⟩ := a
  rename_i ai'
  obtain ⟨⟨bk, bi⟩⟩ := b
  rename_i bi'
  have hidx : ai' = bi' := by
    unfold zle zipIdxLE at h1 h2
    simp only at h1 h2
    by_cases c1 : specLe largest (ak, ai) (bk, bi) = true <;> by_cases c2 : specLe largest (bk, bi) (ak, ai) = true <;>
      simp [c1, c2] at h1 h2
    omega
  subst hidx
  obtain ⟨_, hx⟩ := mem_zipIdx' ha
  obtain ⟨_, hy⟩ := mem_zipIdx' hb
  rw [hx, hy]

/-- **stable sort = insertion in arrival order** -/
theorem foldl_insK_eq_mergeSort (largest : Bool) (keyed : List (Int × Val)) :
    keyed.foldl (fun acc e => insK largest e acc) [] = keyed.mergeSort (specLe largest) := by
  have hz : (keyed.zipIdx).mergeSort (zle largest) = (keyed.zipIdx).foldl (fun acc e => insZ largest e acc) [] := by
    refine Perm.eq_of_pairwise (le := fun a b => zle largest a b = true) ?_ ?_ ?_ ?_
    · intro a b ha hb h1 h2
      have ha' : a ∈ keyed.zipIdx := (mergeSort_perm _ _).mem_iff.mp ha
      have hb' : b ∈ keyed.zipIdx := by
        have := (foldl_insZ_perm largest keyed.zipIdx []).mem_iff.mp hb
        simpa using this
      exact zle_antisymm_zipIdx largest keyed a b ha' hb' h1 h2
    · exact pairwise_mergeSort (zle_trans largest) (zle_total largest) _
    · exact foldl_insZ_sorted largest _ [] Pairwise.nil
    · exact (mergeSort_perm _ _).trans (by simpa using (foldl_insZ_perm largest keyed.zipIdx []).symm)
  have h1 : (keyed.zipIdx.mergeSort (zle largest)).map (·.1) = keyed.mergeSort (specLe largest) :=
    mergeSort_zipIdx
  rw [← h1, hz]
  have := foldl_insZ_erase largest keyed 0 [] (by simp)
  simpa using this.symm

/-- **layer 1**: keeping the best `n` while folding is `sorted(…)[:n]` -/
theorem selK_eq_spec (largest : Bool) (n : Nat) (keyed : List (Int × Val)) :
    selK largest n keyed = spec largest n keyed := by
  rw [selK_eq_take, foldl_insK_eq_mergeSort]; rfl

/-! ## 2. the stamps implement "equal keys keep their arrival order" — every key, every stamp direction -/

def eraseE (e : VE) : Val × Val := (e.key, e.item)

/-- both computations fail with the same exception, or both succeed with related results -/
def ExRel {α β : Type} (R : α → β → Prop) : Except Exc α → Except Exc β → Prop
  | .ok a, .ok b => R a b
  | .error e1, .error e2 => e1 = e2
  | _, _ => False

/-- the stamped heap `h` erases to `acc`, and `nx` is a later stamp than every stamp in `h` -/
def RelH (pos : Bool) (nx : Int) (h : List VE) (acc : List (Val × Val)) : Prop :=
  h.map eraseE = acc ∧ ∀ a ∈ h, later pos nx a.idx = true

theorem later_next (pos : Bool) (nx i : Int) (h : later pos nx i = true) : later pos (nextStamp pos nx) i = true := by
  unfold later nextStamp at *; cases pos <;> simp at * <;> omega

theorem later_next_self (pos : Bool) (nx : Int) : later pos (nextStamp pos nx) nx = true := by
  unfold later nextStamp; cases pos <;> simp <;> omega

theorem later_stamp (pos : Bool) (i j : Nat) (h : j < i) : later pos (stamp pos i) (stamp pos j) = true := by
  unfold later stamp; cases pos <;> simp <;> omega

theorem stamp_succ (pos : Bool) (i : Nat) : stamp pos (i + 1) = nextStamp pos (stamp pos i) := by
  unfold stamp nextStamp; cases pos <;> simp <;> omega

/-- inserting an entry whose stamp is later than all others: same comparisons, same outcome, as the key-only insertion;
    the result keeps every stamp earlier than the next stamp -/
theorem insV_sim (c : Cfg) (k x : Val) (nx : Int) : ∀ (h : List VE) (acc : List (Val × Val)),
    RelH c.pos nx h acc →
    ExRel (fun h' acc' => RelH c.pos (nextStamp c.pos nx) h' acc' ∧ h'.length = h.length + 1)
      (insV c ⟨k, nx, x⟩ h) (insKV c.largest (k, x) acc)
  | [], acc, hr => by
    obtain ⟨rfl, _⟩ := hr
    simp only [insV, insKV, map_nil, ExRel, RelH, map_cons, eraseE, mem_cons, not_mem_nil, or_false, forall_eq,
      length_cons, length_nil, and_true, true_and]
    exact later_next_self c.pos nx
  | a :: l, acc, hr => by
    obtain ⟨rfl, hf⟩ := hr
    have hla : later c.pos nx a.idx = true := hf a mem_cons_self
    have hw : worseV c ⟨k, nx, x⟩ a = (if Val.pyEq k a.key then .ok true else kbV c.largest a.key k) := by
      unfold worseV; simp only [hla]
    have ih := insV_sim c k x nx l (l.map eraseE) ⟨rfl, fun b hb => hf b (mem_cons_of_mem a hb)⟩
    simp only [insV, insKV, map_cons, hw, eraseE]
    cases hcmp : (if Val.pyEq k a.key then (Except.ok true : Except Exc Bool) else kbV c.largest a.key k) with
    | error e => simp [ExRel, bind, Except.bind]
    | ok b =>
      cases b with
      | false =>
        simp only [bind, Except.bind, Bool.false_eq_true, if_false, pure, Except.pure, ExRel, RelH, map_cons, eraseE,
          length_cons, and_true, true_and]
        intro b hb
        rcases mem_cons.mp hb with rfl | hb
        · exact later_next_self c.pos nx
        · exact later_next c.pos nx _ (hf b hb)
      | true =>
        simp only [bind, Except.bind, if_true]
        cases h1 : insV c ⟨k, nx, x⟩ l with
        | error e1 =>
          cases h2 : insKV c.largest (k, x) (map eraseE l) with
          | error e2 => rw [h1, h2] at ih; simpa [ExRel, eraseE] using ih
          | ok r2 => rw [h1, h2] at ih; simp [ExRel] at ih
        | ok r1 =>
          cases h2 : insKV c.largest (k, x) (map eraseE l) with
          | error e2 => rw [h1, h2] at ih; simp [ExRel] at ih
          | ok r2 =>
            rw [h1, h2] at ih
            simp only [ExRel, RelH] at ih
            obtain ⟨⟨he, hfr⟩, hlen⟩ := ih
            simp only [pure, Except.pure, ExRel, RelH, map_cons, length_cons, hlen, and_true]
            refine ⟨by rw [he]; rfl, ?_⟩
            intro b hb
            rcases mem_cons.mp hb with rfl | hb
            · exact later_next c.pos nx _ hla
            · exact hfr b hb

theorem ExRel.bind {α β α' β' : Type} {R : α → β → Prop} {R' : α' → β' → Prop}
    {m1 : Except Exc α} {m2 : Except Exc β} {f1 : α → Except Exc α'} {f2 : β → Except Exc β'}
    (h : ExRel R m1 m2) (hf : ∀ a b, R a b → ExRel R' (f1 a) (f2 b)) : ExRel R' (m1 >>= f1) (m2 >>= f2) := by
  cases m1 with
  | error e1 =>
    cases m2 with
    | error e2 => exact h
    | ok b => exact h.elim
  | ok a =>
    cases m2 with
    | error e2 => exact h.elim
    | ok b => exact hf a b h

theorem ExRel.mono {α β : Type} {R R' : α → β → Prop} {m1 : Except Exc α} {m2 : Except Exc β}
    (h : ExRel R m1 m2) (hi : ∀ a b, R a b → R' a b) : ExRel R' m1 m2 := by
  cases m1 <;> cases m2 <;> simp_all [ExRel]

theorem heapify_sim (c : Cfg) : ∀ (first : List (Val × Val)) (k : Nat) (h : List VE) (acc : List (Val × Val)),
    RelH c.pos (stamp c.pos k) h acc →
    ExRel (fun h' acc' => RelH c.pos (stamp c.pos (k + first.length)) h' acc' ∧ h'.length = h.length + first.length)
      ((first.zipIdx k).foldlM (fun h (p : (Val × Val) × Nat) => insV c ⟨p.1.1, stamp c.pos p.2, p.1.2⟩ h) h)
      (first.foldlM (fun acc e => insKV c.largest e acc) acc)
  | [], k, h, acc, hr => by simpa [ExRel, pure, Except.pure] using hr
  | (kk, x) :: rest, k, h, acc, hr => by
    simp only [zipIdx_cons, foldlM_cons, length_cons]
    refine ExRel.bind (insV_sim c kk x (stamp c.pos k) h acc hr) ?_
    intro h1 acc1 ⟨hr1, hl1⟩
    rw [← stamp_succ] at hr1
    refine (heapify_sim c rest (k + 1) h1 acc1 hr1).mono ?_
    intro h2 acc2 ⟨hr2, hl2⟩
    refine ⟨by rw [show k + (rest.length + 1) = k + 1 + rest.length by omega]; exact hr2, by omega⟩

theorem accept_sim (c : Cfg) (h : List VE) (nx : Int) (acc : List (Val × Val)) (hr : RelH c.pos nx h acc) (k x : Val) :
    ExRel (fun st acc' => RelH c.pos st.2 st.1 acc' ∧ st.1.length = h.length)
      (acceptV c (h, nx) k x) (acceptKV c.largest acc (k, x)) := by
  obtain ⟨rfl, hf⟩ := hr
  unfold acceptV acceptKV
  rw [getLast?_map]
  cases hl : h.getLast? with
  | none => simpa [ExRel, RelH] using hf
  | some worst =>
    simp only [Option.map_some, eraseE]
    cases hk : kbV c.largest k worst.key with
    | error e => simp [ExRel, bind, Except.bind]
    | ok b =>
      cases b with
      | false => simpa [ExRel, bind, Except.bind, pure, Except.pure, RelH] using hf
      | true =>
        simp only [bind, Except.bind, if_true]
        have hne : h ≠ [] := by intro h0; simp [h0] at hl
        have hsub : RelH c.pos nx h.dropLast (map eraseE h).dropLast :=
          ⟨by rw [map_dropLast], fun a ha => hf a (dropLast_subset h ha)⟩
        have := insV_sim c k x nx h.dropLast _ hsub
        have hpos : 0 < h.length := length_pos_iff.mpr hne
        cases h1 : insV c ⟨k, nx, x⟩ h.dropLast with
        | error e1 =>
          cases h2 : insKV c.largest (k, x) (map eraseE h).dropLast with
          | error e2 => rw [h1, h2] at this; exact this
          | ok r2 => rw [h1, h2] at this; exact this.elim
        | ok r1 =>
          cases h2 : insKV c.largest (k, x) (map eraseE h).dropLast with
          | error e2 => rw [h1, h2] at this; exact this.elim
          | ok r2 =>
            rw [h1, h2] at this
            obtain ⟨hr', hl'⟩ := this
            refine ⟨hr', ?_⟩
            show r1.length = h.length
            rw [hl', length_dropLast]; omega

theorem scan_sim (c : Cfg) : ∀ (rest : List (Val × Val)) (h : List VE) (nx : Int) (acc : List (Val × Val)),
    RelH c.pos nx h acc →
    ExRel (fun st acc' => RelH c.pos st.2 st.1 acc' ∧ st.1.length = h.length)
      (rest.foldlM (fun st p => acceptV c st p.1 p.2) (h, nx)) (rest.foldlM (acceptKV c.largest) acc)
  | [], h, nx, acc, hr => by simpa [ExRel, pure, Except.pure] using hr
  | (k, x) :: rest, h, nx, acc, hr => by
    simp only [foldlM_cons]
    refine ExRel.bind (accept_sim c h nx acc hr k x) ?_
    intro st acc1 ⟨hr1, hl1⟩
    refine (scan_sim c rest st.1 st.2 acc1 hr1).mono ?_
    intro st2 acc2 ⟨hr2, hl2⟩
    exact ⟨hr2, by omega⟩

/-- **layer 2**: for every stamp direction and every key (orderable or not), the stamped bounded heap computes what the
    stamp-free selection computes, raising the same `TypeError` at the same comparison.  In particular asyncstdlib's
    `_largest` and CPython's `heapq.nlargest` / `heapq.nsmallest` agree on every input. -/
theorem selectV_eq_selectKV (c : Cfg) (n : Nat) (keyed : List (Val × Val)) :
    selectV c n keyed = selectKV c.largest n keyed := by
  unfold selectV selectKV
  split
  · rfl
  · have h0 := heapify_sim c (keyed.take n) 0 [] [] ⟨rfl, by simp⟩
    unfold heapifyV
    cases h1 : (keyed.take n).zipIdx.foldlM (fun h (p : (Val × Val) × Nat) => insV c ⟨p.1.1, stamp c.pos p.2, p.1.2⟩ h) [] with
    | error e1 =>
      cases h2 : (keyed.take n).foldlM (fun acc e => insKV c.largest e acc) [] with
      | error e2 =>
        rw [h1, h2] at h0
        have : e1 = e2 := h0
        subst this; rfl
      | ok acc => rw [h1, h2] at h0; exact h0.elim
    | ok hh =>
      cases h2 : (keyed.take n).foldlM (fun acc e => insKV c.largest e acc) [] with
      | error e2 => rw [h1, h2] at h0; exact h0.elim
      | ok acc =>
      rw [h1, h2] at h0
      obtain ⟨hr, hlen⟩ := h0
      show ((keyed.drop n).foldlM (fun st p => acceptV c st p.1 p.2) (hh, stamp c.pos n) >>= fun st =>
              (pure (st.1.map (·.item)) : Except Exc (List Val))) =
           ((keyed.drop n).foldlM (acceptKV c.largest) acc >>= fun acc => pure (acc.map (·.2)))
      have hn : stamp c.pos (0 + (keyed.take n).length) = stamp c.pos n ∨ keyed.drop n = [] := by
        by_cases hle : n ≤ keyed.length
        · left; simp [length_take, Nat.min_eq_left hle]
        · right; exact drop_eq_nil_of_le (by omega)
      rcases hn with hn | hn
      · rw [hn] at hr
        have := scan_sim c (keyed.drop n) hh (stamp c.pos n) acc hr
        cases h3 : (keyed.drop n).foldlM (fun st p => acceptV c st p.1 p.2) (hh, stamp c.pos n) with
        | error e3 =>
          cases h4 : (keyed.drop n).foldlM (acceptKV c.largest) acc with
          | error e4 =>
            rw [h3, h4] at this
            have : e3 = e4 := this
            subst this; rfl
          | ok r4 => rw [h3, h4] at this; exact this.elim
        | ok st =>
          cases h4 : (keyed.drop n).foldlM (acceptKV c.largest) acc with
          | error e4 => rw [h3, h4] at this; exact this.elim
          | ok r4 =>
            rw [h3, h4] at this
            obtain ⟨⟨he, _⟩, _⟩ := this
            show Except.ok (st.1.map (·.item)) = Except.ok (r4.map (·.2))
            rw [← he, map_map]; rfl
      · rw [hn]
        show Except.ok (hh.map (·.item)) = Except.ok (acc.map (·.2))
        rw [← hr.1, map_map]; rfl

/-! ### the only exception the selection itself can raise is the `TypeError` of a key comparison -/

theorem kbV_error (largest : Bool) (x y : Val) (e : Exc) (h : kbV largest x y = .error e) : e = .typeError := by
  unfold kbV Val.lt at h
  cases largest <;> simp only [Bool.false_eq_true, if_false, if_true] at h <;>
    (split at h <;> simp at h <;> exact h.symm)

theorem worseV_error (c : Cfg) (a b : VE) (e : Exc) (h : worseV c a b = .error e) : e = .typeError := by
  unfold worseV at h
  split at h
  · simp at h
  · exact kbV_error _ _ _ _ h

theorem insV_error (c : Cfg) (x : VE) : ∀ (l : List VE) (e : Exc), insV c x l = .error e → e = .typeError
  | [], e, h => by simp [insV] at h
  | a :: l, e, h => by
    simp only [insV, bind, Except.bind] at h
    cases hw : worseV c x a with
    | error e' => rw [hw] at h; simp at h; subst h; exact worseV_error c x a _ hw
    | ok b =>
      rw [hw] at h
      cases b with
      | false => simp [pure, Except.pure] at h
      | true =>
        simp only [if_true] at h
        cases hr : insV c x l with
        | error e' => rw [hr] at h; simp at h; subst h; exact insV_error c x l _ hr
        | ok r => rw [hr] at h; simp [pure, Except.pure] at h

theorem foldlM_error {σ ι : Type} (f : σ → ι → Except Exc σ) (P : Exc → Prop)
    (hf : ∀ s i e, f s i = .error e → P e) : ∀ (l : List ι) (s : σ) (e : Exc), l.foldlM f s = .error e → P e
  | [], s, e, h => by simp [pure, Except.pure] at h
  | i :: rest, s, e, h => by
    simp only [foldlM_cons, bind, Except.bind] at h
    cases hs : f s i with
    | error e' => rw [hs] at h; simp at h; subst h; exact hf s i _ hs
    | ok s' => rw [hs] at h; exact foldlM_error f P hf rest s' e h

theorem heapifyV_error (c : Cfg) (first : List (Val × Val)) (e : Exc) (h : heapifyV c first = .error e) : e = .typeError :=
  foldlM_error _ (· = .typeError) (fun s i e he => insV_error c _ s e he) _ _ e h

theorem acceptV_error (c : Cfg) (st : List VE × Int) (k x : Val) (e : Exc) (h : acceptV c st k x = .error e) : e = .typeError := by
  unfold acceptV at h
  split at h
  · simp at h
  · simp only [bind, Except.bind] at h
    rename_i worst _
    cases hk : kbV c.largest k worst.key with
    | error e' => rw [hk] at h; simp at h; subst h; exact kbV_error _ _ _ _ hk
    | ok b =>
      rw [hk] at h
      cases b with
      | false => simp [pure, Except.pure] at h
      | true =>
        simp only [if_true] at h
        cases hi : insV c ⟨k, st.2, x⟩ st.1.dropLast with
        | error e' => rw [hi] at h; simp at h; subst h; exact insV_error c _ _ _ hi
        | ok r => rw [hi] at h; simp [pure, Except.pure] at h

theorem heapifyV_ne_oof (c : Cfg) (first : List (Val × Val)) : heapifyV c first ≠ .error .outOfFuel :=
  fun h => by have := heapifyV_error c first _ h; cases this

theorem acceptV_ne_oof (c : Cfg) (st : List VE × Int) (k x : Val) : acceptV c st k x ≠ .error .outOfFuel :=
  fun h => by have := acceptV_error c st k x _ h; cases this

/-- the heap never holds more entries than were put in: `insV` adds exactly one -/
theorem insV_length (c : Cfg) (x : VE) : ∀ (l r : List VE), insV c x l = .ok r → r.length = l.length + 1
  | [], r, h => by simp [insV] at h; subst h; rfl
  | a :: l, r, h => by
    simp only [insV, bind, Except.bind] at h
    cases hw : worseV c x a with
    | error e' => rw [hw] at h; simp at h
    | ok b =>
      rw [hw] at h
      cases b with
      | false => simp [pure, Except.pure] at h; subst h; simp
      | true =>
        simp only [if_true] at h
        cases hr : insV c x l with
        | error e' => rw [hr] at h; simp at h
        | ok r' =>
          rw [hr] at h; simp [pure, Except.pure] at h; subst h
          simp [insV_length c x l r' hr]

/-- a round of the scan never changes the size of the heap -/
theorem acceptV_length (c : Cfg) (st st' : List VE × Int) (k x : Val) (h : acceptV c st k x = .ok st') :
    st'.1.length = st.1.length := by
  unfold acceptV at h
  split at h
  · simp at h; subst h; rfl
  · rename_i worst hl
    simp only [bind, Except.bind] at h
    cases hk : kbV c.largest k worst.key with
    | error e' => rw [hk] at h; simp at h
    | ok b =>
      rw [hk] at h
      cases b with
      | false => simp [pure, Except.pure] at h; subst h; rfl
      | true =>
        simp only [if_true] at h
        cases hi : insV c ⟨k, st.2, x⟩ st.1.dropLast with
        | error e' => rw [hi] at h; simp at h
        | ok r =>
          rw [hi] at h; simp [pure, Except.pure] at h; subst h
          have := insV_length c _ _ _ hi
          simp only [this, length_dropLast]
          have hne : st.1 ≠ [] := by intro h0; simp [h0] at hl
          have := length_pos_iff.mpr hne
          omega

/-- `heapify` of `k` entries holds `k` entries -/
theorem heapifyV_length (c : Cfg) : ∀ (first : List (Val × Val)) (i : Nat) (h0 r : List VE),
    (first.zipIdx i).foldlM (fun h (p : (Val × Val) × Nat) => insV c ⟨p.1.1, stamp c.pos p.2, p.1.2⟩ h) h0 = .ok r →
    r.length = h0.length + first.length
  | [], _, h0, r, h => by simp [pure, Except.pure] at h; subst h; simp
  | p :: rest, i, h0, r, h => by
    simp only [zipIdx_cons, foldlM_cons, bind, Except.bind] at h
    cases hi : insV c ⟨p.1, stamp c.pos i, p.2⟩ h0 with
    | error e => rw [hi] at h; simp at h
    | ok h1 =>
      rw [hi] at h
      have := heapifyV_length c rest (i + 1) h1 r h
      rw [this, insV_length c _ _ _ hi]; simp; omega

/-! ## 3. orderable keys: the key-only selection is the integer one, and never raises -/

/-- one round of the integer-level scan: replace the worst entry if the new key is strictly better -/
def acceptK (largest : Bool) (acc : List (Int × Val)) (e : Int × Val) : List (Int × Val) :=
  match acc.getLast? with
  | none => acc
  | some w => if kb largest e.1 w.1 then insK largest e acc.dropLast else acc

theorem acceptK_some (largest : Bool) {acc : List (Int × Val)} {w : Int × Val} (e : Int × Val) (h : acc.getLast? = some w) :
    acceptK largest acc e = if kb largest e.1 w.1 = true then insK largest e acc.dropLast else acc := by
  unfold acceptK; rw [h]

theorem SortedK.dropLast {largest : Bool} {l : List (Int × Val)} (h : SortedK largest l) : SortedK largest l.dropLast :=
  Pairwise.sublist (dropLast_sublist l) h

/-- on a full, ordered heap "insert and keep the best `n`" is "replace the worst if strictly better" -/
theorem take_insK_full (largest : Bool) (e : Int × Val) : ∀ (acc : List (Int × Val)), SortedK largest acc → acc ≠ [] →
    (insK largest e acc).take acc.length = acceptK largest acc e
  | [], _, h => absurd rfl h
  | [a], _, _ => by
    unfold acceptK insK
    by_cases hk : kb largest e.1 a.1 = true <;> simp [hk, insK]
  | a :: b :: l, hs, _ => by
    have hs' : SortedK largest (b :: l) := (pairwise_cons.mp hs).2
    have ih := take_insK_full largest e (b :: l) hs' (by simp)
    have hlast : (a :: b :: l).getLast? = (b :: l).getLast? := by simp [getLast?_cons_cons]
    obtain ⟨w, hw⟩ : ∃ w, (b :: l).getLast? = some w := by
      cases h : (b :: l).getLast? with
      | none => simp at h
      | some w => exact ⟨w, rfl⟩
    have hwm : w ∈ b :: l := mem_of_getLast? hw
    rw [acceptK_some largest e hw] at ih
    rw [acceptK_some largest e (hlast.trans hw)]
    by_cases hk : kb largest e.1 a.1 = true
    · -- e goes to the front; it is then also strictly better than the worst entry
      have hwa : kb largest w.1 a.1 = false := (pairwise_cons.mp hs).1 w hwm
      have hkw : kb largest e.1 w.1 = true := kb_of_kb_of_not largest hk hwa
      simp only [hkw, if_true]
      have : (a :: b :: l).dropLast = a :: (b :: l).dropLast := by simp [dropLast]
      rw [this]
      unfold insK
      simp only [hk, if_true, length_cons, take_succ_cons]
      congr 1
      rw [dropLast_eq_take]; simp
    · have h1 : insK largest e (a :: b :: l) = a :: insK largest e (b :: l) := by
        conv => lhs; unfold insK
        simp [hk]
      rw [h1]
      simp only [length_cons, take_succ_cons]
      have ih' : (insK largest e (b :: l)).take (l.length + 1) =
          if kb largest e.1 w.1 = true then insK largest e (b :: l).dropLast else b :: l := by simpa using ih
      rw [ih']
      have : (a :: b :: l).dropLast = a :: (b :: l).dropLast := by simp [dropLast]
      rw [this]
      split
      · conv => rhs; unfold insK
        simp [hk]
      · rfl

theorem acceptK_length (largest : Bool) (acc : List (Int × Val)) (e : Int × Val) : (acceptK largest acc e).length = acc.length := by
  unfold acceptK
  cases h : acc.getLast? with
  | none => rfl
  | some w =>
    simp only
    split
    · rw [insK_length, length_dropLast]
      have : acc ≠ [] := by intro h0; simp [h0] at h
      have := length_pos_iff.mpr this
      omega
    · rfl

theorem acceptK_sorted (largest : Bool) (acc : List (Int × Val)) (e : Int × Val) (hs : SortedK largest acc) :
    SortedK largest (acceptK largest acc e) := by
  unfold acceptK
  cases h : acc.getLast? with
  | none => exact hs
  | some w =>
    simp only
    split
    · exact insK_sorted largest e _ hs.dropLast
    · exact hs

/-- folding "insert, keep `n`" over a list that still fits is plain insertion -/
theorem foldl_take_fits (largest : Bool) (n : Nat) : ∀ (l init : List (Int × Val)), init.length + l.length ≤ n →
    l.foldl (fun acc e => (insK largest e acc).take n) init = l.foldl (fun acc e => insK largest e acc) init
  | [], _, _ => rfl
  | e :: rest, init, h => by
    simp only [foldl_cons, length_cons] at h ⊢
    have hl : (insK largest e init).length ≤ n := by rw [insK_length]; omega
    rw [take_of_length_le hl]
    exact foldl_take_fits largest n rest _ (by rw [insK_length]; omega)

theorem foldl_insK_length (largest : Bool) : ∀ (l init : List (Int × Val)),
    (l.foldl (fun acc e => insK largest e acc) init).length = init.length + l.length
  | [], _ => by simp
  | e :: rest, init => by
    simp only [foldl_cons, length_cons]
    rw [foldl_insK_length largest rest, insK_length]; omega

theorem foldl_insK_sorted (largest : Bool) : ∀ (l init : List (Int × Val)), SortedK largest init →
    SortedK largest (l.foldl (fun acc e => insK largest e acc) init)
  | [], _, h => h
  | e :: rest, init, h => foldl_insK_sorted largest rest _ (insK_sorted largest e init h)

/-- on a full heap the rest of the fold is the scan with `acceptK` -/
theorem foldl_take_full (largest : Bool) (n : Nat) (hn : 0 < n) : ∀ (l acc : List (Int × Val)), acc.length = n →
    SortedK largest acc →
    l.foldl (fun acc e => (insK largest e acc).take n) acc = l.foldl (acceptK largest) acc
  | [], _, _, _ => rfl
  | e :: rest, acc, hl, hs => by
    simp only [foldl_cons]
    have hne : acc ≠ [] := by intro h0; subst h0; simp at hl; omega
    have h1 : (insK largest e acc).take n = acceptK largest acc e := by
      rw [← hl]; exact take_insK_full largest e acc hs hne
    rw [h1]
    exact foldl_take_full largest n hn rest _ (by rw [acceptK_length, hl]) (acceptK_sorted largest acc e hs)

/-- the integer-level selection in two phases, as the algorithm runs it -/
theorem selK_phases (largest : Bool) (n : Nat) (keyed : List (Int × Val)) :
    selK largest n keyed =
      (keyed.drop n).foldl (acceptK largest) ((keyed.take n).foldl (fun acc e => insK largest e acc) []) := by
  unfold selK
  conv => lhs; rw [← take_append_drop n keyed, foldl_append]
  rw [foldl_take_fits largest n (keyed.take n) [] (by simp [length_take]; omega)]
  by_cases hle : n ≤ keyed.length
  · by_cases hn : n = 0
    · subst hn
      simp only [take_zero, foldl_nil, drop_zero]
      -- nothing is ever kept
      have : ∀ (l : List (Int × Val)), l.foldl (fun acc e => (insK largest e acc).take 0) [] = l.foldl (acceptK largest) [] := by
        intro l; induction l with
        | nil => rfl
        | cons e rest ih => simpa [acceptK] using ih
      exact this keyed
    · exact foldl_take_full largest n (by omega) _ _
        (by rw [foldl_insK_length]; simp [length_take, Nat.min_eq_left hle])
        (foldl_insK_sorted largest _ [] Pairwise.nil)
  · rw [drop_eq_nil_of_le (by omega)]; rfl

/-! ### `Val` keys that are orderable behave as their integer keys -/

def ikp (p : Val × Val) : Int × Val := (p.1.ikey, p.2)

def AllOrd (l : List (Val × Val)) : Prop := ∀ a ∈ l, a.1.orderable = true

theorem lt_ord {a b : Val} (ha : a.orderable = true) (hb : b.orderable = true) :
    Val.lt a b = .ok (decide (a.ikey < b.ikey)) := by
  unfold Val.orderable at ha hb
  unfold Val.lt Val.ikey
  cases h1 : a.key? <;> cases h2 : b.key? <;> simp_all

theorem pyEq_ord {a b : Val} (ha : a.orderable = true) (hb : b.orderable = true) :
    Val.pyEq a b = decide (a.ikey = b.ikey) := by
  unfold Val.orderable at ha hb
  cases a <;> cases b <;> simp_all [Val.pyEq, Val.key?, Val.ikey] <;> exact Bool.beq_eq_decide_eq _ _

theorem kbV_ord (largest : Bool) {x y : Val} (hx : x.orderable = true) (hy : y.orderable = true) :
    kbV largest x y = .ok (kb largest x.ikey y.ikey) := by
  unfold kbV kb; cases largest <;> simp [lt_ord, hx, hy]

theorem insKV_ord (largest : Bool) (e : Val × Val) (he : e.1.orderable = true) : ∀ (l : List (Val × Val)), AllOrd l →
    ∃ r, insKV largest e l = .ok r ∧ r.map ikp = insK largest (ikp e) (l.map ikp) ∧ AllOrd r
  | [], _ => ⟨[e], rfl, rfl, by intro a ha; simp at ha; subst ha; exact he⟩
  | a :: l, hl => by
    have ha : a.1.orderable = true := hl a mem_cons_self
    have hl' : AllOrd l := fun b hb => hl b (mem_cons_of_mem a hb)
    obtain ⟨r, hr, hm, ho⟩ := insKV_ord largest e he l hl'
    have hcond : (if Val.pyEq e.1 a.1 then (Except.ok true : Except Exc Bool) else kbV largest a.1 e.1) =
        .ok (!(kb largest e.1.ikey a.1.ikey)) := by
      rw [pyEq_ord he ha, kbV_ord largest ha he]
      by_cases heq : e.1.ikey = a.1.ikey
      · simp [heq, kb_irrefl]
      · have : kb largest a.1.ikey e.1.ikey = !(kb largest e.1.ikey a.1.ikey) := by
          unfold kb; cases largest <;> (rw [Bool.eq_iff_iff]; simp; omega)
        simp [heq, this]
    unfold insKV insK
    simp only [hcond, map_cons, ikp]
    by_cases hk : kb largest e.1.ikey a.1.ikey = true
    · refine ⟨e :: a :: l, by simp [hk, bind, Except.bind, pure, Except.pure], by simp [hk, ikp], ?_⟩
      intro b hb
      rcases mem_cons.mp hb with rfl | hb
      · exact he
      · exact hl b hb
    · have hk' : kb largest e.1.ikey a.1.ikey = false := by simpa using hk
      refine ⟨a :: r, by simp [hk', bind, Except.bind, pure, Except.pure, hr], ?_, ?_⟩
      · simp only [hk', Bool.false_eq_true, if_false, map_cons]
        rw [hm]; rfl
      · intro b hb
        rcases mem_cons.mp hb with rfl | hb
        · exact ha
        · exact ho b hb

theorem foldlM_insKV_ord (largest : Bool) : ∀ (first acc : List (Val × Val)), AllOrd first → AllOrd acc →
    ∃ r, first.foldlM (fun acc e => insKV largest e acc) acc = .ok r ∧
      r.map ikp = (first.map ikp).foldl (fun acc e => insK largest e acc) (acc.map ikp) ∧ AllOrd r
  | [], acc, _, ha => ⟨acc, rfl, rfl, ha⟩
  | e :: rest, acc, hf, ha => by
    obtain ⟨r1, h1, m1, o1⟩ := insKV_ord largest e (hf e mem_cons_self) acc ha
    obtain ⟨r, h2, m2, o2⟩ := foldlM_insKV_ord largest rest r1 (fun b hb => hf b (mem_cons_of_mem e hb)) o1
    refine ⟨r, by simp [foldlM_cons, h1, bind, Except.bind, h2], ?_, o2⟩
    rw [m2, m1]; rfl

theorem acceptKV_ord (largest : Bool) (acc : List (Val × Val)) (e : Val × Val) (ha : AllOrd acc) (he : e.1.orderable = true) :
    ∃ r, acceptKV largest acc e = .ok r ∧ r.map ikp = acceptK largest (acc.map ikp) (ikp e) ∧ AllOrd r := by
  unfold acceptKV acceptK
  rw [getLast?_map]
  cases hl : acc.getLast? with
  | none => exact ⟨acc, rfl, rfl, ha⟩
  | some w =>
    have hw : w.1.orderable = true := ha w (mem_of_getLast? hl)
    simp only [Option.map_some, kbV_ord largest he hw, bind, Except.bind, ikp]
    by_cases hk : kb largest e.1.ikey w.1.ikey = true
    · simp only [hk, if_true]
      obtain ⟨r, hr, hm, ho⟩ := insKV_ord largest e he acc.dropLast (fun b hb => ha b (dropLast_subset acc hb))
      refine ⟨r, hr, ?_, ho⟩
      rw [hm, map_dropLast]; rfl
    · have hk' : kb largest e.1.ikey w.1.ikey = false := by simpa using hk
      simp only [hk', Bool.false_eq_true, if_false]
      exact ⟨acc, rfl, rfl, ha⟩

theorem foldlM_acceptKV_ord (largest : Bool) : ∀ (rest acc : List (Val × Val)), AllOrd rest → AllOrd acc →
    ∃ r, rest.foldlM (acceptKV largest) acc = .ok r ∧ r.map ikp = (rest.map ikp).foldl (acceptK largest) (acc.map ikp)
  | [], acc, _, _ => ⟨acc, rfl, rfl⟩
  | e :: rest, acc, hf, ha => by
    obtain ⟨r1, h1, m1, o1⟩ := acceptKV_ord largest acc e ha (hf e mem_cons_self)
    obtain ⟨r, h2, m2⟩ := foldlM_acceptKV_ord largest rest r1 (fun b hb => hf b (mem_cons_of_mem e hb)) o1
    refine ⟨r, by simp [foldlM_cons, h1, bind, Except.bind, h2], ?_⟩
    rw [m2, m1]; rfl

/-- **layer 3**: with orderable keys nothing raises and the result is the integer-level selection -/
theorem selectKV_orderable (largest : Bool) (n : Nat) (keyed : List (Val × Val)) (h : AllOrd keyed) :
    selectKV largest n keyed = .ok ((selK largest n (keyed.map ikp)).map (·.2)) := by
  have ht : AllOrd (keyed.take n) := fun a ha => h a (mem_of_mem_take ha)
  have hd : AllOrd (keyed.drop n) := fun a ha => h a (mem_of_mem_drop ha)
  rw [selK_phases, ← map_take, ← map_drop]
  unfold selectKV
  split
  · rename_i he
    have : keyed.take n = [] := by simpa using he
    rw [this]
    simp only [map_nil, foldl_nil]
    -- nothing in the heap: nothing is ever admitted
    have : ∀ (l : List (Int × Val)), l.foldl (acceptK largest) [] = [] := by
      intro l; induction l with
      | nil => rfl
      | cons e rest ih => simpa [acceptK] using ih
    rw [this]; rfl
  · obtain ⟨r0, h0, m0, o0⟩ := foldlM_insKV_ord largest (keyed.take n) [] ht (by intro a ha; simp at ha)
    obtain ⟨r, h1, m1⟩ := foldlM_acceptKV_ord largest (keyed.drop n) r0 hd o0
    simp only [h0, bind, Except.bind, h1, pure, Except.pure]
    congr 1
    have : r.map (·.2) = (r.map ikp).map (·.2) := by simp [map_map, ikp, Function.comp_def]
    rw [this, m1, m0]; rfl

/-- **the bounded heap selects `sorted(…)[:n]`**: for every direction, every stamp convention, every `n` and every input
    with orderable keys, `selectV` returns the first `n` items of the stable sort by key (descending for `nlargest`),
    and raises nothing. -/
theorem selectV_orderable (c : Cfg) (n : Nat) (keyed : List (Val × Val)) (h : AllOrd keyed) :
    selectV c n keyed = .ok ((spec c.largest n (keyed.map ikp)).map (·.2)) := by
  rw [selectV_eq_selectKV, selectKV_orderable c.largest n keyed h, selK_eq_spec]

end AsyncVerif.Sel
