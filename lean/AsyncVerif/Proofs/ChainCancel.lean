import AsyncVerif.Proofs.Chain
import AsyncVerif.Proofs.FaithfulTools
/-!
# chain: faithfulness of the handle, and the owner's `aclose()` after a raise (C06, C18, C04 / D19)

`Impl.chain` is `Impl.chainIter` plus "the consumer's `aclose()` also closes every owned iterator".
`Faithful` only speaks about the outcome and the visible log, so it transfers along a `Twin`.
`Impl.closeOwned` — the model of `for it in self._owned_iterators: await it.aclose()` — changes only
sources that are async iterators with `aclose` (`.agen`, `.aobj`): every other source is left as it was.
-/
namespace AsyncVerif

/-- `Faithful` is a property of the outcome and the visible log only -/
theorem faithful_of_twin {α : Type} {a b : M α} (ht : Twin a b) (hb : Faithful b) : Faithful a := by
  refine ⟨fun w => ?_⟩
  obtain ⟨new, hv, hr⟩ := hb.run w
  obtain ⟨h1, h2⟩ := ht w
  exact ⟨new, by rw [h2, hv], by rw [h1]; exact hr⟩

/-- the `chain` handle is faithful: it differs from its iterator only when the consumer closes it -/
theorem Impl.faithful_chain (srcs : List Nat) (fuel : Nat) : Faithful (Impl.chain srcs fuel) :=
  faithful_of_twin (chain_handle_twin srcs fuel) (Impl.faithful_chainIter srcs fuel)

/-- a source that `chain` does not own (not an async iterator with `aclose`) is not touched by
    `chain.aclose()` -/
theorem closeIfOwned_srcs_unowned (s t : Nat) (w : World)
    (h : ¬ ((w.srcs t).kind = .agen ∨ (w.srcs t).kind = .aobj)) :
    (Impl.closeIfOwned s w).2.srcs t = w.srcs t := by
  unfold Impl.closeIfOwned
  split
  · rename_i hk
    by_cases hts : t = s
    · subst hts; exact absurd hk h
    · exact closeSrc_srcs_other s t w hts
  · rfl

theorem closeOwned_srcs_unowned : ∀ (l : List Nat) (t : Nat) (w : World),
    ¬ ((w.srcs t).kind = .agen ∨ (w.srcs t).kind = .aobj) →
    (Impl.closeOwned l w).2.srcs t = w.srcs t := by
  intro l
  induction l with
  | nil => intro t w _; rfl
  | cons a rest ih =>
    intro t w h
    unfold Impl.closeOwned
    rw [bind_apply]
    have hok := closeIfOwned_ok a w
    have h1 := closeIfOwned_srcs_unowned a t w h
    rcases hc : Impl.closeIfOwned a w with ⟨r, w1⟩
    rw [hc] at hok h1
    simp only at hok h1
    subst hok
    simp only
    rw [ih t w1 (by rw [h1]; exact h), h1]

/-- a source that is not among the arguments is not touched by `chain.aclose()` -/
theorem closeOwned_srcs_other : ∀ (l : List Nat) (t : Nat) (w : World), t ∉ l →
    (Impl.closeOwned l w).2.srcs t = w.srcs t := by
  intro l
  induction l with
  | nil => intro t w _; rfl
  | cons a rest ih =>
    intro t w h
    have hta : t ≠ a := fun e => h (by simp [e])
    have htr : t ∉ rest := fun e => h (by simp [e])
    unfold Impl.closeOwned
    rw [bind_apply]
    have hok := closeIfOwned_ok a w
    have h1 : (Impl.closeIfOwned a w).2.srcs t = w.srcs t := by
      unfold Impl.closeIfOwned
      split
      · exact closeSrc_srcs_other a t w hta
      · rfl
    rcases hc : Impl.closeIfOwned a w with ⟨r, w1⟩
    rw [hc] at hok h1
    simp only at hok h1
    subst hok
    simp only
    rw [ih t w1 htr, h1]

end AsyncVerif

namespace AsyncVerif

/-! ## Frame: `chain`'s iterator touches its inputs one at a time -/

/-- a program that leaves every source other than `s` exactly as it was -/
def OthersFrame {α : Type} (s : Nat) (m : M α) : Prop :=
  ∀ w t, t ≠ s → (m w).2.srcs t = w.srcs t

theorem othersFrame_pure {α : Type} (s : Nat) (a : α) : OthersFrame s (pure a : M α) := fun _ _ _ => rfl
theorem othersFrame_raise {α : Type} (s : Nat) (x : Exc) : OthersFrame s (raise x : M α) := fun _ _ _ => rfl

theorem othersFrame_bind {α β : Type} {s : Nat} {m : M α} {f : α → M β} (hm : OthersFrame s m)
    (hf : ∀ a, OthersFrame s (f a)) : OthersFrame s (m >>= f) := by
  intro w t ht
  rw [bind_apply]
  have h1 := hm w t ht
  rcases hmw : m w with ⟨r, w1⟩
  rw [hmw] at h1
  cases r with
  | ok a => exact (hf a w1 t ht).trans h1
  | error e => exact h1

theorem othersFrame_yieldV (s : Nat) (v : Val) : OthersFrame s (yieldV v) := by
  intro w t _
  rw [yieldV_srcs]

theorem othersFrame_closeSrc (s : Nat) : OthersFrame s (closeSrc s) :=
  fun w t ht => closeSrc_srcs_other s t w ht

theorem othersFrame_pull (s : Nat) : OthersFrame s (pull s) := by
  intro w t ht
  unfold pull
  by_cases hl : (w.srcs s).status.live
  · rw [if_pos hl]
    cases hs : (w.srcs s).script with
    | nil => simp [World.pushVis, World.setSrc, ht]
    | cons r rest => cases r <;> simp [World.pushVis, World.setSrc, ht]
  · rw [if_neg hl]
    by_cases hv : (w.srcs s).kind.repollVisible
    · rw [if_pos hv]; simp [World.pushVis]
    · rw [if_neg hv]

theorem othersFrame_tryFinally {α : Type} {s : Nat} {body : M α} {fin : M Unit} (hb : OthersFrame s body)
    (hf : OthersFrame s fin) : OthersFrame s (tryFinally body fin) := by
  intro w t ht
  have h1 := hb w t ht
  rcases hbw : body w with ⟨r, w1⟩
  rw [hbw] at h1
  have h2 := hf w1 t ht
  rcases hfw : fin w1 with ⟨r2, w2⟩
  rw [hfw] at h2
  simp only at h1 h2
  cases r with
  | ok a => cases r2 <;> simp [tryFinally, hbw, hfw, h1, h2]
  | error e => cases e <;> cases r2 <;> simp [tryFinally, hbw, hfw, h1, h2]

theorem othersFrame_passLoop (s : Nat) : ∀ fuel, OthersFrame s (passLoop s fuel) := by
  intro fuel
  induction fuel with
  | zero => exact othersFrame_raise s _
  | succ fuel ih =>
    unfold passLoop forEach
    refine othersFrame_bind (othersFrame_pull s) ?_
    intro r
    cases r with
    | none => exact othersFrame_pure s _
    | some x =>
      refine othersFrame_bind (othersFrame_bind (othersFrame_yieldV s x) (fun _ => othersFrame_pure s true)) ?_
      intro b
      cases b
      · exact othersFrame_pure s _
      · exact ih

/-- however `chain`'s iterator ends (fuel aside), an input that is not released at that point has
    not been touched at all: it is exactly as it was handed in -/
theorem chainIter_unreleased_untouched (fuel : Nat) : ∀ (srcs : List Nat) (w : World),
    (Impl.chainIter srcs fuel w).1 ≠ .error .outOfFuel →
    ∀ t ∈ srcs, Released ((Impl.chainIter srcs fuel w).2.srcs t) ∨ (Impl.chainIter srcs fuel w).2.srcs t = w.srcs t := by
  intro srcs
  induction srcs with
  | nil => intro w _ t ht; simp at ht
  | cons a rest ih =>
    intro w hne t ht
    have e1 : Impl.chainIter (a :: rest) fuel = (scopedIter a (passLoop a fuel) >>= fun _ => Impl.chainIter rest fuel) := rfl
    rw [e1] at hne ⊢
    rw [bind_apply] at hne ⊢
    have hfr : OthersFrame a (scopedIter a (passLoop a fuel)) :=
      othersFrame_tryFinally (othersFrame_passLoop a fuel) (othersFrame_closeSrc a)
    have hfr' := hfr w
    have hrel' := scopedIter_released a (passLoop a fuel) w
    rcases hA : scopedIter a (passLoop a fuel) w with ⟨r, w1⟩
    rw [hA] at hne hfr' hrel'
    simp only at hfr' hrel'
    cases r with
    | error e =>
      simp only at hne ⊢
      by_cases hta : t = a
      · subst hta; exact Or.inl (hrel' hne)
      · exact Or.inr (hfr' t hta)
    | ok u =>
      simp only at hne ⊢
      have hrel : Released (w1.srcs a) := hrel' (by simp)
      by_cases hta : t = a
      · subst hta; exact Or.inl (relMono_chainIter fuel rest w1 t hrel)
      · have htr : t ∈ rest := by
          rcases List.mem_cons.mp ht with h | h
          · exact absurd h hta
          · exact h
        rcases ih w1 hne t htr with h | h
        · exact Or.inl h
        · exact Or.inr (h.trans (hfr' t hta))

/-- unless the consumer closes it, advancing the `chain` handle is advancing its iterator -/
theorem chain_eq_chainIter (srcs : List Nat) (fuel : Nat) (w : World)
    (h : (Impl.chain srcs fuel w).1 ≠ .error .genExit) : Impl.chain srcs fuel w = Impl.chainIter srcs fuel w := by
  have ht := (chain_handle_twin srcs fuel w).1
  rw [ht] at h
  unfold Impl.chain
  rcases hi : Impl.chainIter srcs fuel w with ⟨r, w1⟩
  rw [hi] at h
  cases r with
  | ok u => rfl
  | error e => cases e <;> first | rfl | exact absurd rfl h

end AsyncVerif
