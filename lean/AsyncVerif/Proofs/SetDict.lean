import AsyncVerif.Proofs.AggTools
import AsyncVerif.Proofs.Release
import AsyncVerif.Proofs.AggValues
/-!
# `set` / `dict`: metatheory instances (faithful, flavour-free) and the value theorems
-/
namespace AsyncVerif.Std

theorem faithful_setLoop (s : Nat) (fuel : Nat) : ∀ acc, Faithful (setLoop s acc fuel) := by
  induction fuel with
  | zero => intro acc; unfold setLoop; faith
  | succ fuel ih => intro acc; unfold setLoop; faith [ih]

theorem kf_setLoop (s : Nat) (fuel : Nat) : ∀ acc, KindFree (setLoop s acc fuel) := by
  induction fuel with
  | zero => intro acc; unfold setLoop; kfree
  | succ fuel ih => intro acc; unfold setLoop; kfree [ih]

theorem faithful_unpackPair (x : Val) : Faithful (liftExc (unpackPair x)) := by
  apply faithful_liftExc
  intro e
  unfold unpackPair
  split <;> simp

theorem faithful_dictLoop (s : Nat) (fuel : Nat) : ∀ acc, Faithful (dictLoop s acc fuel) := by
  induction fuel with
  | zero => intro acc; unfold dictLoop; faith
  | succ fuel ih => intro acc; unfold dictLoop; faith [ih, faithful_unpackPair]

theorem kf_dictLoop (s : Nat) (fuel : Nat) : ∀ acc, KindFree (dictLoop s acc fuel) := by
  induction fuel with
  | zero => intro acc; unfold dictLoop; kfree
  | succ fuel ih => intro acc; unfold dictLoop; kfree [ih, kf_liftExc]

end AsyncVerif.Std

namespace AsyncVerif

/-- the distinct elements of `items` in first-occurrence order, starting from `acc` -/
def ListSpec.distinct (acc items : List Val) : List Val := items.foldl Std.setInsert acc

/-- the dictionary built from `(key, value)` pairs: first key object and position, last value -/
def ListSpec.dictOf (acc : List (Val × Val)) (pairs : List (Val × Val)) : List (Val × Val) :=
  pairs.foldl (fun a p => Std.dictInsert a p.1 p.2) acc

theorem setLoop_value (s : Nat) : ∀ (items acc : List Val) (fuel : Nat) (w : World),
    Feeds w s items → (∀ x ∈ items, Std.hashable x = true) → items.length < fuel →
    (Std.setLoop s acc fuel w).1 = .ok (ListSpec.distinct acc items) ∧
    ((Std.setLoop s acc fuel w).2.srcs s).script = [] ∧
    (Std.setLoop s acc fuel w).2.vis = w.vis ++ ListSpec.pullLog s items ++ ListSpec.endLog s := by
  intro items
  induction items with
  | nil =>
    intro acc fuel w hf _ hlt
    cases fuel with
    | zero => simp at hlt
    | succ fuel =>
      obtain ⟨w', hp, hs, -, -, -, hv⟩ := pull_nil hf
      simp [Std.setLoop, bind_apply, hp, pure_apply, hs, hv, ListSpec.pullLog, ListSpec.endLog, ListSpec.distinct]
  | cons x rest ih =>
    intro acc fuel w hf hh hlt
    cases fuel with
    | zero => simp at hlt
    | succ fuel =>
      obtain ⟨w', hp, hf', -, -, -, hv⟩ := pull_cons hf
      have hx : Std.hashable x = true := hh x (by simp)
      simp only [Std.setLoop, bind_apply, hp, hx, if_true]
      have := ih (Std.setInsert acc x) fuel w' hf' (fun y hy => hh y (by simp [hy])) (by simp at hlt; omega)
      simpa [hv, ListSpec.pullLog, ListSpec.distinct] using this

theorem dictLoop_value (s : Nat) : ∀ (pairs acc : List (Val × Val)) (fuel : Nat) (w : World),
    Feeds w s (pairs.map fun p => Val.tup [p.1, p.2]) → (∀ p ∈ pairs, Std.hashable p.1 = true) → pairs.length < fuel →
    (Std.dictLoop s acc fuel w).1 = .ok (ListSpec.dictOf acc pairs) ∧
    ((Std.dictLoop s acc fuel w).2.srcs s).script = [] ∧
    (Std.dictLoop s acc fuel w).2.vis
      = w.vis ++ ListSpec.pullLog s (pairs.map fun p => Val.tup [p.1, p.2]) ++ ListSpec.endLog s := by
  intro pairs
  induction pairs with
  | nil =>
    intro acc fuel w hf _ hlt
    cases fuel with
    | zero => simp at hlt
    | succ fuel =>
      obtain ⟨w', hp, hs, -, -, -, hv⟩ := pull_nil hf
      simp [Std.dictLoop, bind_apply, hp, pure_apply, hs, hv, ListSpec.pullLog, ListSpec.endLog, ListSpec.dictOf]
  | cons p rest ih =>
    intro acc fuel w hf hh hlt
    rcases p with ⟨k, v⟩
    cases fuel with
    | zero => simp at hlt
    | succ fuel =>
      obtain ⟨w', hp, hf', -, -, -, hv⟩ := pull_cons hf
      have hk : Std.hashable k = true := hh (k, v) (by simp)
      simp only [Std.dictLoop, bind_apply, hp, Std.unpackPair, liftExc_apply, hk, if_true]
      have := ih (Std.dictInsert acc k v) fuel w' hf' (fun y hy => hh y (by simp [hy])) (by simp at hlt; omega)
      simpa [hv, ListSpec.pullLog, ListSpec.dictOf] using this

end AsyncVerif
