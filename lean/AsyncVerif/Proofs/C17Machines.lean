import AsyncVerif.Proofs.Tee
import AsyncVerif.Proofs.CachedPropertyMono
import AsyncVerif.Proofs.LruConc
import AsyncVerif.Proofs.Decorator
import AsyncVerif.Proofs.Adapters
/-!
Helper lemmas for `Properties/C17Machines.lean`: where the tasks of the schedule-driven machines
can be suspended.  One section per machine; every function of a machine gets a lemma saying which
suspension outputs it can produce and in which state it then leaves the task.
-/

/-! ## tee -/
namespace AsyncVerif.Tee

/-- child `i` is now suspended inside `iterator.__anext__()` of the USER's source, and this is so
    because the suspension script says so: either it was already there with one more suspension
    to go, or this step started pull number `s.pulls` of a live source and the script's entry for
    that pull is positive (`k + 1`: this suspension and `k` more) -/
def InUserPull (s s' : St) (i : Nat) : Prop :=
  ∃ k, (s'.kid i).pc = .fetching k ∧
    ((s.kid i).pc = .fetching (k + 1) ∨
     (s.srcDead = false ∧ s.suspPat.getD s.pulls 0 = k + 1 ∧ s'.pulls = s.pulls + 1))

/-- child `i` is now suspended inside `lock.__aenter__()` of the USER's lock, and the lock is held
    (before and after the step, by the same child `h`) -/
def InUserLock (s s' : St) (i : Nat) : Prop :=
  (s'.kid i).pc = .acquiring ∧ ∃ h, s.holder = some h ∧ s'.holder = some h

theorem popYield_out (s : St) (i : Nat) :
    (∃ v, (popYield s i).2 = .item v) ∨ (popYield s i).2 = .error := by
  unfold popYield; split <;> simp

theorem popYield_nosusp (s : St) (i : Nat) :
    (popYield s i).2 ≠ .suspSrc ∧ (popYield s i).2 ≠ .suspLock := by
  rcases popYield_out s i with ⟨v, h⟩ | h <;> simp [h]

theorem completeFetch_nosusp (s : St) (i : Nat) :
    (completeFetch s i).2 ≠ .suspSrc ∧ (completeFetch s i).2 ≠ .suspLock := by
  unfold completeFetch
  split
  · simp
  · split
    · simp
    · exact popYield_nosusp _ i

theorem startFetch_susp (s : St) (i : Nat) (hi : i < s.kids.length) :
    (startFetch s i).2 ≠ .suspLock ∧
    ((startFetch s i).2 = .suspSrc → ∃ k, ((startFetch s i).1.kid i).pc = .fetching k ∧
      s.srcDead = false ∧ s.suspPat.getD s.pulls 0 = k + 1 ∧ (startFetch s i).1.pulls = s.pulls + 1) := by
  unfold startFetch
  simp only []
  split
  · exact ⟨(completeFetch_nosusp _ i).2, fun h => absurd h (completeFetch_nosusp _ i).1⟩
  · rename_i hd
    split
    · exact ⟨(completeFetch_nosusp _ i).2, fun h => absurd h (completeFetch_nosusp _ i).1⟩
    · rename_i k hk
      refine ⟨by simp, fun _ => ⟨k, ?_, ?_, hk, rfl⟩⟩
      · rw [kid_setKid _ _ _ _ (by simpa using hi)]; simp
      · simpa [St.srcDead] using hd

theorem enterCritical_susp (s : St) (i : Nat) (hi : i < s.kids.length) :
    (enterCritical s i).2 ≠ .suspLock ∧
    ((enterCritical s i).2 = .suspSrc → ∃ k, ((enterCritical s i).1.kid i).pc = .fetching k ∧
      s.srcDead = false ∧ s.suspPat.getD s.pulls 0 = k + 1 ∧
      (enterCritical s i).1.pulls = s.pulls + 1) := by
  unfold enterCritical
  simp only []
  split
  · exact ⟨(popYield_nosusp _ i).2, fun h => absurd h (popYield_nosusp _ i).1⟩
  · have := startFetch_susp (if s.withLock = true then { s with holder := some i } else s) i
      (by split <;> exact hi)
    refine ⟨this.1, fun h => ?_⟩
    obtain ⟨k, h1, h2, h3, h4⟩ := this.2 h
    refine ⟨k, h1, ?_, ?_, ?_⟩
    · rw [← h2]; split <;> rfl
    · rw [← h3]; split <;> rfl
    · rw [h4]; split <;> rfl

theorem loopTop_susp (s : St) (i : Nat) (hi : i < s.kids.length) :
    ((loopTop s i).2 = .suspLock → InUserLock s (loopTop s i).1 i) ∧
    ((loopTop s i).2 = .suspSrc → ∃ k, ((loopTop s i).1.kid i).pc = .fetching k ∧
      s.srcDead = false ∧ s.suspPat.getD s.pulls 0 = k + 1 ∧ (loopTop s i).1.pulls = s.pulls + 1) := by
  unfold loopTop
  split
  · exact ⟨fun h => absurd h (popYield_nosusp _ i).2, fun h => absurd h (popYield_nosusp _ i).1⟩
  · split
    · rename_i hc
      simp only [Bool.and_eq_true] at hc
      refine ⟨fun _ => ⟨?_, ?_⟩, by simp⟩
      · rw [kid_setKid _ _ _ _ hi]; simp
      · obtain ⟨h, hh⟩ := Option.isSome_iff_exists.1 hc.2
        exact ⟨h, hh, hh⟩
    · have := enterCritical_susp s i hi
      exact ⟨fun h => absurd h this.1, this.2⟩

/-- **one `send` on consumer `i`, any state**: the two suspension outputs are produced only in the
    two user awaitables -/
theorem sched_susp (s : St) (i : Nat) (hi : i < s.kids.length) :
    ((sched s i).2 = .suspLock → InUserLock s (sched s i).1 i) ∧
    ((sched s i).2 = .suspSrc → InUserPull s (sched s i).1 i) := by
  unfold sched
  split
  · split
    · simp
    · have := loopTop_susp s i hi
      refine ⟨this.1, fun h => ?_⟩
      obtain ⟨k, h1, h2⟩ := this.2 h
      exact ⟨k, h1, Or.inr h2⟩
    · have := loopTop_susp s i hi
      refine ⟨this.1, fun h => ?_⟩
      obtain ⟨k, h1, h2⟩ := this.2 h
      exact ⟨k, h1, Or.inr h2⟩
    · rename_i hp
      split
      · rename_i hh
        refine ⟨fun _ => ?_, by simp⟩
        obtain ⟨h, hh'⟩ := Option.isSome_iff_exists.1 hh
        exact ⟨hp, h, hh', hh'⟩
      · have := enterCritical_susp s i hi
        refine ⟨fun h => absurd h this.1, fun h => ?_⟩
        obtain ⟨k, h1, h2⟩ := this.2 h
        exact ⟨k, h1, Or.inr h2⟩
    · exact ⟨fun h => absurd h (completeFetch_nosusp _ i).2,
        fun h => absurd h (completeFetch_nosusp _ i).1⟩
    · rename_i k hp
      refine ⟨by simp, fun _ => ⟨k, ?_, Or.inl hp⟩⟩
      rw [kid_setKid _ _ _ _ hi]
      simp
  · simp

/-- only a `send` on an existing consumer can report a suspension: `aclose()` of a child,
    `Tee.aclose()` and a cancellation never end suspended -/
theorem step_susp_is_sched (s : St) (op : Op)
    (h : (step s op).2 = .suspSrc ∨ (step s op).2 = .suspLock) :
    ∃ i, op = .sched i ∧ i < s.kids.length := by
  cases op with
  | sched i =>
    by_cases hi : i < s.kids.length
    · exact ⟨i, rfl, hi⟩
    · simp [step, hi] at h
  | close i =>
    simp only [step] at h
    split at h
    · rcases closeKid_out s i with e | e <;> simp [e] at h
    · simp at h
  | cancel i =>
    simp only [step] at h
    split at h
    · rcases cancel_out s i with e | e <;> simp [e] at h
    · simp at h
  | closeAll =>
    simp only [step] at h
    rcases closeAll_out s with e | e <;> simp [e] at h

/-! ### a source that never suspends: nobody is ever left inside a user awaitable -/

/-- the child is not suspended inside a user awaitable -/
def Calm (c : Child) : Prop := c.pc ≠ .acquiring ∧ isFetching c.pc = false

def KidsCalm (s : St) : Prop := ∀ c ∈ s.kids, Calm c

/-- between two operations: the lock is free and no child is inside a user awaitable -/
structure Quiet (s : St) : Prop where
  holder : s.holder = none
  kids : KidsCalm s

theorem calm_default : Calm ({} : Child) := ⟨by simp, rfl⟩

theorem KidsCalm.kid {s : St} (h : KidsCalm s) (i : Nat) : Calm (s.kid i) := by
  by_cases hi : i < s.kids.length
  · rw [kid_eq_getElem s i hi]; exact h _ (List.getElem_mem hi)
  · have : s.kid i = {} := by simp [St.kid, List.getD_eq_getElem?_getD, hi]
    rw [this]; exact calm_default

theorem KidsCalm.of_kids {s s' : St} (h : KidsCalm s) (hk : s'.kids = s.kids) : KidsCalm s' := by
  intro c hc; rw [hk] at hc; exact h c hc

theorem KidsCalm.setKid {s : St} (h : KidsCalm s) (i : Nat) (c : Child) (hc : Calm c) :
    KidsCalm (s.setKid i c) := by
  intro c' hc'
  rcases List.mem_or_eq_of_mem_set hc' with h1 | h1
  · exact h c' h1
  · rw [h1]; exact hc

theorem KidsCalm.finishKid {s : St} (h : KidsCalm s) (i : Nat) (t : Task) :
    KidsCalm (finishKid s i t) := by
  unfold Tee.finishKid
  simp only []
  have : KidsCalm (s.setKid i { (s.kid i) with pc := .done, buf := none, task := t }) :=
    h.setKid i _ ⟨by simp, rfl⟩
  split
  · exact this.of_kids rfl
  · exact this

theorem KidsCalm.broadcast {s : St} (h : KidsCalm s) (v : Val) : KidsCalm (broadcast s v) := by
  intro c hc
  simp only [Tee.broadcast, List.mem_map] at hc
  obtain ⟨c0, hc0, rfl⟩ := hc
  exact h c0 hc0

theorem KidsCalm.release {s : St} (h : KidsCalm s) (i : Nat) : KidsCalm (release s i) :=
  h.of_kids (by simp)

theorem KidsCalm.popYield {s : St} (h : KidsCalm s) (i : Nat) : KidsCalm (popYield s i).1 := by
  unfold Tee.popYield
  split
  · exact h.setKid i _ ⟨by simp, rfl⟩
  · exact h.finishKid i _

theorem popYield_holder (s : St) (i : Nat) : (popYield s i).1.holder = s.holder := by
  unfold popYield; split <;> simp

theorem release_holder_none (s : St) (i : Nat) (hh : s.holder = none ∨ s.holder = some i) :
    (release s i).holder = none := by
  rw [release_holder]; rcases hh with h | h <;> simp [h]

theorem completeFetch_quiet (s : St) (i : Nat) (hk : KidsCalm s)
    (hh : s.holder = none ∨ s.holder = some i) : Quiet (completeFetch s i).1 := by
  unfold completeFetch
  split
  · exact ⟨by simp [release_holder_none s i hh], (hk.release i).finishKid i _⟩
  · split
    · refine ⟨?_, ?_⟩
      · rw [finishKid_holder]; exact release_holder_none _ i hh
      · have hk' : KidsCalm { s with srcEnded := true } := hk.of_kids rfl
        exact (hk'.release i).finishKid i _
    · rename_i v r _
      refine ⟨?_, ?_⟩
      · rw [popYield_holder]; exact release_holder_none _ i (by simpa using hh)
      · have hk' : KidsCalm { s with src := r, fetched := s.fetched ++ [v] } := hk.of_kids rfl
        exact ((hk'.broadcast v).release i).popYield i

theorem startFetch_quiet (s : St) (i : Nat) (hn : NoSusp s) (hk : KidsCalm s)
    (hh : s.holder = none ∨ s.holder = some i) :
    Quiet (startFetch s i).1 ∧ (startFetch s i).2 ≠ .suspSrc ∧ (startFetch s i).2 ≠ .suspLock := by
  unfold startFetch
  simp only []
  split
  · exact ⟨completeFetch_quiet _ i (hk.of_kids rfl) hh, completeFetch_nosusp _ i⟩
  · split
    · exact ⟨completeFetch_quiet _ i (hk.of_kids rfl) hh, completeFetch_nosusp _ i⟩
    · rename_i k hk'
      have := hn s.pulls
      rw [show ({ s with overlap := s.overlap || s.kids.any (fun c => isFetching c.pc),
                         pulls := s.pulls + 1 } : St).suspPat = s.suspPat from rfl, this] at hk'
      exact absurd hk' (by simp)

theorem enterCritical_quiet (s : St) (i : Nat) (hn : NoSusp s) (hq : Quiet s) :
    Quiet (enterCritical s i).1 ∧ (enterCritical s i).2 ≠ .suspSrc ∧
      (enterCritical s i).2 ≠ .suspLock := by
  unfold enterCritical
  simp only []
  have hk : KidsCalm (if s.withLock = true then { s with holder := some i } else s) :=
    hq.kids.of_kids (by split <;> rfl)
  have hh : (if s.withLock = true then { s with holder := some i } else s).holder = none ∨
      (if s.withLock = true then { s with holder := some i } else s).holder = some i := by
    split
    · exact Or.inr rfl
    · exact Or.inl hq.holder
  split
  · exact ⟨⟨by rw [popYield_holder]; exact release_holder_none _ i hh, (hk.release i).popYield i⟩,
      popYield_nosusp _ i⟩
  · exact startFetch_quiet _ i (by split <;> exact hn) hk hh

theorem loopTop_quiet (s : St) (i : Nat) (hn : NoSusp s) (hq : Quiet s) :
    Quiet (loopTop s i).1 ∧ (loopTop s i).2 ≠ .suspSrc ∧ (loopTop s i).2 ≠ .suspLock := by
  unfold loopTop
  split
  · exact ⟨⟨by rw [popYield_holder]; exact hq.holder, hq.kids.popYield i⟩, popYield_nosusp _ i⟩
  · split
    · rename_i hc
      simp [hq.holder] at hc
    · exact enterCritical_quiet s i hn hq

theorem sched_quiet (s : St) (i : Nat) (hn : NoSusp s) (hq : Quiet s) :
    Quiet (sched s i).1 ∧ (sched s i).2 ≠ .suspSrc ∧ (sched s i).2 ≠ .suspLock := by
  have hc := hq.kids.kid i
  unfold sched
  split
  · split
    · exact ⟨⟨hq.holder, hq.kids.setKid i _ ⟨by simp [*], by simp [*, isFetching]⟩⟩, by simp, by simp⟩
    · exact loopTop_quiet s i hn hq
    · exact loopTop_quiet s i hn hq
    · rename_i hp; exact absurd hp hc.1
    · rename_i hp; have := hc.2; rw [hp] at this; simp [isFetching] at this
    · rename_i k hp; have := hc.2; rw [hp] at this; simp [isFetching] at this
  · exact ⟨hq, by simp, by simp⟩

theorem closeKid_quiet (s : St) (i : Nat) (hq : Quiet s) : Quiet (closeKid s i).1 := by
  unfold closeKid
  split
  · exact ⟨hq.holder, hq.kids.setKid i _ ⟨by simp, rfl⟩⟩
  · exact ⟨by simp [hq.holder], hq.kids.finishKid i _⟩
  · exact hq
  · exact hq

theorem cancel_quiet (s : St) (i : Nat) (hq : Quiet s) : Quiet (cancel s i).1 := by
  have hc := hq.kids.kid i
  unfold cancel
  split
  · split
    · exact ⟨by simp [hq.holder], hq.kids.finishKid i _⟩
    · rename_i k hp; have := hc.2; rw [hp] at this; simp [isFetching] at this
    · refine ⟨hq.holder, hq.kids.setKid i _ ⟨hc.1, hc.2⟩⟩
  · exact hq

theorem closeFrom_quiet (s : St) (l : List Nat) (hq : Quiet s) : Quiet (closeFrom s l).1 := by
  induction l generalizing s with
  | nil => exact hq
  | cons i rest ih =>
    rw [closeFrom_cons]
    split
    · exact closeKid_quiet s i hq
    · exact ih _ (closeKid_quiet s i hq)

theorem clearBuffers_quiet (s : St) (hq : Quiet s) : Quiet (clearBuffers s) := by
  refine ⟨by simp [hq.holder], ?_⟩
  unfold clearBuffers
  split
  · have : KidsCalm { s with kids := s.kids.map fun (c : Child) => { c with buf := none } } := by
      intro c hc
      simp only [List.mem_map] at hc
      obtain ⟨c0, hc0, rfl⟩ := hc
      exact hq.kids c0 hc0
    simp only []
    split
    · exact this.of_kids rfl
    · exact this
  · exact hq.kids

theorem closeAll_quiet (s : St) (hq : Quiet s) : Quiet (closeAll s).1 := by
  by_cases hb : (closeFrom s (List.range s.kids.length)).2 = .busy
  · rw [closeAll_busy s hb]; exact closeFrom_quiet s _ hq
  · rw [closeAll_not_busy s hb]; exact clearBuffers_quiet _ (closeFrom_quiet s _ hq)

theorem step_quiet (s : St) (op : Op) (hn : NoSusp s) (hq : Quiet s) :
    Quiet (step s op).1 ∧ (step s op).2 ≠ .suspSrc ∧ (step s op).2 ≠ .suspLock := by
  cases op with
  | sched i =>
    simp only [step]; split
    · exact sched_quiet s i hn hq
    · exact ⟨hq, by simp, by simp⟩
  | close i =>
    refine ⟨?_, fun h => ?_, fun h => ?_⟩
    · simp only [step]; split
      · exact closeKid_quiet s i hq
      · exact hq
    · obtain ⟨j, e, _⟩ := step_susp_is_sched s _ (Or.inl h); cases e
    · obtain ⟨j, e, _⟩ := step_susp_is_sched s _ (Or.inr h); cases e
  | cancel i =>
    refine ⟨?_, fun h => ?_, fun h => ?_⟩
    · simp only [step]; split
      · exact cancel_quiet s i hq
      · exact hq
    · obtain ⟨j, e, _⟩ := step_susp_is_sched s _ (Or.inl h); cases e
    · obtain ⟨j, e, _⟩ := step_susp_is_sched s _ (Or.inr h); cases e
  | closeAll =>
    refine ⟨closeAll_quiet s hq, fun h => ?_, fun h => ?_⟩
    · obtain ⟨j, e, _⟩ := step_susp_is_sched s _ (Or.inl h); cases e
    · obtain ⟨j, e, _⟩ := step_susp_is_sched s _ (Or.inr h); cases e

theorem noSusp_step (s : St) (op : Op) (hn : NoSusp s) : NoSusp (step s op).1 := by
  have := cfg_step s op
  simp only [St.cfg, Prod.mk.injEq] at this
  intro k; rw [this.2.1]; exact hn k

theorem runOps_quiet (s : St) (ops : List Op) (hn : NoSusp s) (hq : Quiet s) :
    Quiet (runOps s ops) ∧ NoSusp (runOps s ops) := by
  induction ops generalizing s with
  | nil => exact ⟨hq, hn⟩
  | cons op rest ih => exact ih _ (noSusp_step s op hn) (step_quiet s op hn hq).1

theorem init_quiet (items : List Val) (n : Nat) (susp : List Nat) (lock closeable dies : Bool) :
    Quiet (init items n susp lock closeable dies) := by
  refine ⟨rfl, ?_⟩
  intro c hc
  simp only [init, List.mem_replicate] at hc
  rw [hc.2]; exact calm_default

theorem reach_quiet (items n susp lock closeable dies ops) (h : ∀ k ∈ susp, k = 0) :
    Quiet (reach items n susp lock closeable dies ops) ∧
      NoSusp (reach items n susp lock closeable dies ops) :=
  runOps_quiet _ ops (noSusp_of_zeros susp h) (init_quiet items n susp lock closeable dies)

/-! ### what a `send` can report at all -/

/-- the outputs of a `send` that mean "the operation completed": an item was delivered, the
    iteration ended, or the task had already finished -/
def Out.completed : Out → Prop
  | .item _ => True
  | .end_ => True
  | .noop => True
  | _ => False

theorem popYield_out' (s : St) (i : Nat) :
    (popYield s i).2.completed ∨ (popYield s i).2 = .error := by
  rcases popYield_out s i with ⟨v, h⟩ | h
  · left; rw [h]; trivial
  · right; exact h

theorem completeFetch_out (s : St) (i : Nat) :
    (completeFetch s i).2.completed ∨ (completeFetch s i).2 = .error := by
  unfold completeFetch
  split
  · left; trivial
  · split
    · left; trivial
    · exact popYield_out' _ i

theorem startFetch_out (s : St) (i : Nat) :
    (startFetch s i).2.completed ∨ (startFetch s i).2 = .error ∨ (startFetch s i).2 = .suspSrc := by
  unfold startFetch
  simp only []
  split
  · rcases completeFetch_out _ i with h | h
    · exact Or.inl h
    · exact Or.inr (Or.inl h)
  · split
    · rcases completeFetch_out _ i with h | h
      · exact Or.inl h
      · exact Or.inr (Or.inl h)
    · exact Or.inr (Or.inr rfl)

theorem enterCritical_out (s : St) (i : Nat) :
    (enterCritical s i).2.completed ∨ (enterCritical s i).2 = .error ∨
      (enterCritical s i).2 = .suspSrc := by
  unfold enterCritical
  simp only []
  split
  · rcases popYield_out' _ i with h | h
    · exact Or.inl h
    · exact Or.inr (Or.inl h)
  · exact startFetch_out _ i

theorem loopTop_out (s : St) (i : Nat) :
    (loopTop s i).2.completed ∨ (loopTop s i).2 = .error ∨ (loopTop s i).2 = .suspSrc ∨
      (loopTop s i).2 = .suspLock := by
  unfold loopTop
  split
  · rcases popYield_out' _ i with h | h
    · exact Or.inl h
    · exact Or.inr (Or.inl h)
  · split
    · exact Or.inr (Or.inr (Or.inr rfl))
    · rcases enterCritical_out s i with h | h | h
      · exact Or.inl h
      · exact Or.inr (Or.inl h)
      · exact Or.inr (Or.inr (Or.inl h))

/-- a `send` completes, fails on an empty deque (excluded for reachable states by
    `Inv.step_noerr`), or ends suspended in one of the two user awaitables -/
theorem sched_out (s : St) (i : Nat) :
    (sched s i).2.completed ∨ (sched s i).2 = .error ∨ (sched s i).2 = .suspSrc ∨
      (sched s i).2 = .suspLock := by
  unfold sched
  split
  · split
    · left; trivial
    · exact loopTop_out s i
    · exact loopTop_out s i
    · split
      · exact Or.inr (Or.inr (Or.inr rfl))
      · rcases enterCritical_out s i with h | h | h
        · exact Or.inl h
        · exact Or.inr (Or.inl h)
        · exact Or.inr (Or.inr (Or.inl h))
    · rcases completeFetch_out s i with h | h
      · exact Or.inl h
      · exact Or.inr (Or.inl h)
    · exact Or.inr (Or.inr (Or.inl rfl))
  · left; trivial

theorem reach_withLock (items n susp lock closeable dies ops) :
    (reach items n susp lock closeable dies ops).withLock = lock := by
  have := cfg_runOps (init items n susp lock closeable dies) ops
  simp only [St.cfg, Prod.mk.injEq] at this
  exact this.1

theorem reach_suspPat (items n susp lock closeable dies ops) :
    (reach items n susp lock closeable dies ops).suspPat = susp := by
  have := cfg_runOps (init items n susp lock closeable dies) ops
  simp only [St.cfg, Prod.mk.injEq] at this
  exact this.2.1

/-! ### every pending pull is within the script -/

/-- a child that is inside the source's `__anext__` is inside a pull that has been started
    (number `m < s.pulls`) and has fewer suspensions to come than the script gives that pull -/
def Within (s : St) : Prop :=
  ∀ c ∈ s.kids, ∀ k, c.pc = .fetching k → ∃ m, m < s.pulls ∧ k < s.suspPat.getD m 0

@[simp] theorem release_pulls (s : St) (i) : (release s i).pulls = s.pulls := by
  unfold release; split <;> rfl
@[simp] theorem finishKid_pulls (s : St) (i t) : (finishKid s i t).pulls = s.pulls := by
  unfold finishKid; simp only []; split <;> rfl

theorem Within.of_eq {s s' : St} (h : Within s) (hk : s'.kids = s.kids) (hp : s.pulls ≤ s'.pulls)
    (hs : s'.suspPat = s.suspPat) : Within s' := by
  intro c hc k hpc
  rw [hk] at hc
  obtain ⟨m, h1, h2⟩ := h c hc k hpc
  exact ⟨m, by omega, by rw [hs]; exact h2⟩

theorem Within.setKid {s : St} (h : Within s) (i : Nat) (c : Child)
    (hc : ∀ k, c.pc = .fetching k → ∃ m, m < s.pulls ∧ k < s.suspPat.getD m 0) :
    Within (s.setKid i c) := by
  intro c' hc' k hpc
  rcases List.mem_or_eq_of_mem_set hc' with h1 | h1
  · exact h c' h1 k hpc
  · rw [h1] at hpc; exact hc k hpc

theorem Within.finishKid {s : St} (h : Within s) (i : Nat) (t : Task) : Within (finishKid s i t) := by
  have : Within (s.setKid i { (s.kid i) with pc := .done, buf := none, task := t }) :=
    h.setKid i _ (by simp)
  unfold Tee.finishKid
  simp only []
  split
  · exact this.of_eq rfl (Nat.le_refl _) rfl
  · exact this

theorem Within.broadcast {s : St} (h : Within s) (v : Val) : Within (broadcast s v) := by
  intro c hc k hpc
  simp only [Tee.broadcast, List.mem_map] at hc
  obtain ⟨c0, hc0, rfl⟩ := hc
  exact h c0 hc0 k hpc

theorem Within.release {s : St} (h : Within s) (i : Nat) : Within (release s i) :=
  h.of_eq (by simp) (by simp) (by simp)

theorem Within.popYield {s : St} (h : Within s) (i : Nat) : Within (popYield s i).1 := by
  unfold Tee.popYield
  split
  · exact h.setKid i _ (by simp)
  · exact h.finishKid i _

theorem popYield_pulls (s : St) (i : Nat) : (popYield s i).1.pulls = s.pulls := by
  unfold popYield; split <;> simp

theorem completeFetch_pulls (s : St) (i : Nat) : (completeFetch s i).1.pulls = s.pulls := by
  unfold completeFetch
  split
  · simp
  · split
    · simp
    · rw [popYield_pulls]; simp [broadcast]

theorem Within.completeFetch {s : St} (h : Within s) (i : Nat) : Within (completeFetch s i).1 := by
  unfold Tee.completeFetch
  split
  · exact (h.release i).finishKid i _
  · split
    · have h' : Within { s with srcEnded := true } := h.of_eq rfl (Nat.le_refl _) rfl
      exact (h'.release i).finishKid i _
    · rename_i v r _
      have h' : Within { s with src := r, fetched := s.fetched ++ [v] } :=
        h.of_eq rfl (Nat.le_refl _) rfl
      exact ((h'.broadcast v).release i).popYield i

theorem Within.startFetch {s : St} (h : Within s) (i : Nat) :
    Within (startFetch s i).1 ∧ s.pulls ≤ (startFetch s i).1.pulls := by
  unfold Tee.startFetch
  simp only []
  have h0 : Within { s with overlap := s.overlap || s.kids.any (fun c => isFetching c.pc) } :=
    h.of_eq rfl (Nat.le_refl _) rfl
  split
  · exact ⟨h0.completeFetch i, by rw [completeFetch_pulls]; exact Nat.le_refl _⟩
  · have h1 : Within { s with overlap := s.overlap || s.kids.any (fun c => isFetching c.pc),
                              pulls := s.pulls + 1 } :=
      h.of_eq rfl (Nat.le_succ _) rfl
    split
    · exact ⟨h1.completeFetch i, by rw [completeFetch_pulls]; exact Nat.le_succ _⟩
    · rename_i k hk
      refine ⟨h1.setKid i _ ?_, Nat.le_succ _⟩
      intro k' hk'
      simp only [Pc.fetching.injEq] at hk'
      subst hk'
      refine ⟨s.pulls, Nat.lt_succ_self _, ?_⟩
      have : s.suspPat.getD s.pulls 0 = k + 1 := hk
      show k < s.suspPat.getD s.pulls 0
      omega

theorem Within.enterCritical {s : St} (h : Within s) (i : Nat) :
    Within (enterCritical s i).1 ∧ s.pulls ≤ (enterCritical s i).1.pulls := by
  unfold Tee.enterCritical
  simp only []
  have h0 : Within (if s.withLock = true then { s with holder := some i } else s) := by
    split
    · exact h.of_eq rfl (Nat.le_refl _) rfl
    · exact h
  have hp : (if s.withLock = true then { s with holder := some i } else s).pulls = s.pulls := by
    split <;> rfl
  split
  · exact ⟨(h0.release i).popYield i, by rw [popYield_pulls, release_pulls, hp]; exact Nat.le_refl _⟩
  · have := h0.startFetch i
    exact ⟨this.1, Nat.le_trans (Nat.le_of_eq hp.symm) this.2⟩

theorem Within.loopTop {s : St} (h : Within s) (i : Nat) :
    Within (loopTop s i).1 ∧ s.pulls ≤ (loopTop s i).1.pulls := by
  unfold Tee.loopTop
  split
  · exact ⟨h.popYield i, by rw [popYield_pulls]; exact Nat.le_refl _⟩
  · split
    · exact ⟨h.setKid i _ (by simp), Nat.le_refl _⟩
    · exact h.enterCritical i

theorem Within.kid {s : St} (h : Within s) (i k : Nat) (hp : (s.kid i).pc = .fetching k) :
    ∃ m, m < s.pulls ∧ k < s.suspPat.getD m 0 := by
  by_cases hi : i < s.kids.length
  · rw [kid_eq_getElem s i hi] at hp; exact h _ (List.getElem_mem hi) k hp
  · have : s.kid i = {} := by simp [St.kid, List.getD_eq_getElem?_getD, hi]
    rw [this] at hp; cases hp

theorem Within.sched {s : St} (h : Within s) (i : Nat) : Within (sched s i).1 := by
  unfold Tee.sched
  split
  · split
    · exact h.setKid i _ (by simp [*])
    · exact (h.loopTop i).1
    · exact (h.loopTop i).1
    · split
      · exact h
      · exact (h.enterCritical i).1
    · exact h.completeFetch i
    · rename_i k hp
      refine h.setKid i _ ?_
      intro k' hk'
      simp only [Pc.fetching.injEq] at hk'
      subst hk'
      obtain ⟨m, h1, h2⟩ := h.kid i (k + 1) hp
      exact ⟨m, h1, by omega⟩
  · exact h

theorem Within.closeKid {s : St} (h : Within s) (i : Nat) : Within (closeKid s i).1 := by
  unfold Tee.closeKid
  split
  · exact h.setKid i _ (by simp)
  · exact h.finishKid i _
  · exact h
  · exact h

theorem Within.cancel {s : St} (h : Within s) (i : Nat) : Within (cancel s i).1 := by
  unfold Tee.cancel
  split
  · split
    · exact h.finishKid i _
    · have h' : Within (if s.diesOnCancel = true then { s with srcKilled := true } else s) := by
        split
        · exact h.of_eq rfl (Nat.le_refl _) rfl
        · exact h
      exact (h'.release i).finishKid i _
    · refine h.setKid i _ ?_
      intro k hk
      exact h.kid i k hk
  · exact h

theorem Within.closeFrom {s : St} (h : Within s) (l : List Nat) : Within (closeFrom s l).1 := by
  induction l generalizing s with
  | nil => exact h
  | cons i rest ih =>
    rw [closeFrom_cons]
    split
    · exact h.closeKid i
    · exact ih (h.closeKid i)

theorem Within.clearBuffers {s : St} (h : Within s) : Within (clearBuffers s) := by
  unfold Tee.clearBuffers
  split
  · have : Within { s with kids := s.kids.map fun (c : Child) => { c with buf := none } } := by
      intro c hc k hpc
      simp only [List.mem_map] at hc
      obtain ⟨c0, hc0, rfl⟩ := hc
      exact h c0 hc0 k hpc
    simp only []
    split
    · exact this.of_eq rfl (Nat.le_refl _) rfl
    · exact this
  · exact h

theorem Within.closeAll {s : St} (h : Within s) : Within (Tee.closeAll s).1 := by
  by_cases hb : (Tee.closeFrom s (List.range s.kids.length)).2 = .busy
  · rw [closeAll_busy s hb]; exact h.closeFrom _
  · rw [closeAll_not_busy s hb]; exact (h.closeFrom _).clearBuffers

theorem Within.step {s : St} (h : Within s) (op : Op) : Within (step s op).1 := by
  cases op with
  | sched i => simp only [Tee.step]; split; exact h.sched i; exact h
  | close i => simp only [Tee.step]; split; exact h.closeKid i; exact h
  | cancel i => simp only [Tee.step]; split; exact h.cancel i; exact h
  | closeAll => exact h.closeAll

theorem Within.runOps {s : St} (h : Within s) (ops : List Op) : Within (runOps s ops) := by
  induction ops generalizing s with
  | nil => exact h
  | cons op rest ih => exact ih (h.step op)

theorem reach_within (items n susp lock closeable dies ops) :
    Within (reach items n susp lock closeable dies ops) := by
  apply Within.runOps
  intro c hc k hk
  simp only [init, List.mem_replicate] at hc
  rw [hc.2] at hk; cases hk

end AsyncVerif.Tee

/-! ## cached_property -/
namespace AsyncVerif.CachedProperty

/-- what one micro-step of task `t` can do, as far as suspensions are concerned -/
structure MicroSpec (cfg : Cfg) (s : State) (t : Nat) (s' : State) (o : Option Out) : Prop where
  /-- a task is inside the getter afterwards only if it was there with one more suspension to go
      (and the step reports that suspension), or the run has just been started (not yet reported) -/
  getter : ∀ p r k, s'.pc t = .getter p r k →
    (s.pc t = .getter p r (k + 1) ∧ o = some (.suspended r)) ∨ (k = cfg.susp r ∧ o = none)
  susp : ∀ r, o = some (.suspended r) → ∃ p k, s.pc t = .getter p r (k + 1) ∧ s'.pc t = .getter p r k
  blocked : o = some .blocked → ∃ p ow, s'.pc t = .lockwait p ∧ s'.lock p = some ow
  lockwait : o = none → ∀ p, s'.pc t ≠ .lockwait p

theorem awaitStored_spec (cfg : Cfg) (s0 s : State) (t : Nat) (x : Stored) :
    MicroSpec cfg s0 t (awaitStored s t x).1 (awaitStored s t x).2 := by
  cases x <;> constructor <;> simp [awaitStored, setPc]

theorem micro_spec (cfg : Cfg) (s : State) (t : Nat) :
    MicroSpec cfg s t (micro cfg s t).1 (micro cfg s t).2 := by
  unfold micro
  split
  · rename_i h; constructor <;> simp [h]
  · rename_i h; constructor <;> simp [h]
  · rename_i h; constructor <;> simp [setPc]
  · rename_i h; constructor <;> simp [setPc]
  · rename_i p h
    generalize instanceValue s p = r; obtain ⟨s1, x⟩ := r
    simp only
    split
    · split
      · split
        · rename_i ow hl
          constructor <;> simp [setPc, hl]
        · constructor <;> simp [setPc]
      · constructor <;> simp [setPc]
    · exact awaitStored_spec cfg s s1 t x
  · rename_i p h
    split
    · rename_i ow hl
      constructor <;> simp [h, hl]
    · constructor <;> simp [setPc]
  · rename_i p h
    generalize instanceValue s p = r; obtain ⟨s1, x⟩ := r
    simp only
    split
    · constructor <;> simp [setPc]
    · exact awaitStored_spec cfg s _ t x
  · rename_i p r h
    unfold complete
    split <;> constructor <;> simp [setPc]
  · rename_i p r k h
    constructor <;> simp [setPc, h]

/-- one `sched`: a reported suspension leaves the task inside the user getter, as scripted, or
    inside the lock of a placeholder that is held -/
theorem schedN_spec (cfg : Cfg) (n : Nat) : ∀ (s : State) (t : Nat),
    (∀ r, (schedN cfg n s t).2 = .suspended r → ∃ p k, (schedN cfg n s t).1.pc t = .getter p r k ∧
      (s.pc t = .getter p r (k + 1) ∨ cfg.susp r = k + 1)) ∧
    ((schedN cfg n s t).2 = .blocked →
      ∃ p ow, (schedN cfg n s t).1.pc t = .lockwait p ∧ (schedN cfg n s t).1.lock p = some ow) := by
  induction n with
  | zero => intro s t; simp [schedN]
  | succ n ih =>
    intro s t
    unfold schedN
    have sp := micro_spec cfg s t
    generalize micro cfg s t = r at sp
    obtain ⟨s1, o⟩ := r
    cases o with
    | some o =>
      simp only at sp ⊢
      refine ⟨fun r hr => ?_, fun hb => sp.blocked (by rw [hb])⟩
      obtain ⟨p, k, h1, h2⟩ := sp.susp r (by rw [hr])
      exact ⟨p, k, h2, Or.inl h1⟩
    | none =>
      simp only at sp ⊢
      refine ⟨fun r hr => ?_, (ih s1 t).2⟩
      obtain ⟨p, k, h1, h2⟩ := (ih s1 t).1 r hr
      refine ⟨p, k, h1, ?_⟩
      rcases h2 with h2 | h2
      · rcases sp.getter p r (k + 1) h2 with ⟨_, h3⟩ | ⟨h3, _⟩
        · cases h3
        · exact Or.inr h3.symm
      · exact Or.inr h2

/-- no task is further inside a getter run than the script of that run allows -/
def GetterBound (cfg : Cfg) (s : State) : Prop := ∀ t p r k, s.pc t = .getter p r k → k ≤ cfg.susp r

theorem micro_getterBound (cfg : Cfg) (s : State) (t : Nat) (h : GetterBound cfg s) :
    GetterBound cfg (micro cfg s t).1 := by
  intro t' p r k hk
  by_cases hne : t' = t
  · subst hne
    rcases (micro_spec cfg s t').getter p r k hk with ⟨h1, _⟩ | ⟨h1, _⟩
    · have := h t' p r (k + 1) h1; omega
    · omega
  · rw [micro_frame cfg s t t' hne] at hk; exact h t' p r k hk

theorem schedN_getterBound (cfg : Cfg) (n : Nat) : ∀ (s : State) (t : Nat), GetterBound cfg s →
    GetterBound cfg (schedN cfg n s t).1 := by
  induction n with
  | zero => intro s t h; exact h
  | succ n ih =>
    intro s t h
    unfold schedN
    have hm := micro_getterBound cfg s t h
    generalize micro cfg s t = r at hm
    obtain ⟨s1, o⟩ := r
    cases o with
    | some o => exact hm
    | none => exact ih s1 t hm

theorem step_getterBound (cfg : Cfg) (s : State) (op : Op) (h : GetterBound cfg s) :
    GetterBound cfg (step cfg s op).1 := by
  cases op with
  | spawn i =>
    simp only [step]
    have e := access_pc s i
    generalize access s i = r at e; obtain ⟨s1, x⟩ := r
    simp only at e ⊢
    intro t p r k
    simp only [addTask]
    split
    · simp
    · rw [e]; exact h t p r k
  | respawn t =>
    simp only [step]
    split
    · intro t' p r k
      simp only [addTask]
      split
      · simp
      · exact h t' p r k
    · exact h
  | sched t => exact schedN_getterBound cfg _ s t h
  | cancel t =>
    simp only [step, cancel]
    split
    · intro t' p r k; simp only [setPc]; split
      · simp
      · exact h t' p r k
    · intro t' p r k; simp only [setPc]; split
      · simp
      · exact h t' p r k
    · intro t' p r k; simp only [setPc]; split
      · simp
      · simp only [setRunSt]; rw [release_pc]; exact h t' p r k
    · exact h
  | del i =>
    simp only [step]
    split
    · exact h
    · exact h

theorem reach_getterBound (cfg : Cfg) (ops : List Op) : GetterBound cfg (reach cfg ops) := by
  unfold reach
  have : ∀ s, GetterBound cfg s → GetterBound cfg (exec cfg s ops) := by
    induction ops with
    | nil => intro s h; exact h
    | cons op ops ih => intro s h; exact ih _ (step_getterBound cfg s op h)
  exact this _ (by intro t p r k; simp [State.init])

/-- operations other than `sched` never end suspended -/
theorem step_susp_is_sched (cfg : Cfg) (s : State) (op : Op)
    (h : (step cfg s op).2 = .blocked ∨ ∃ r, (step cfg s op).2 = .suspended r) :
    ∃ t, op = .sched t := by
  cases op with
  | spawn i => simp [step] at h
  | respawn t => simp only [step] at h; split at h <;> simp at h
  | sched t => exact ⟨t, rfl⟩
  | cancel t => simp only [step, cancel] at h; split at h <;> simp at h
  | del i => simp only [step] at h; split at h <;> simp at h

theorem step_nosusp_of_not_sched (cfg : Cfg) (s : State) (op : Op) (h : ∀ t, op ≠ .sched t) :
    (step cfg s op).2 ≠ .blocked ∧ ∀ q, (step cfg s op).2 ≠ .suspended q := by
  refine ⟨fun e => ?_, fun q e => ?_⟩
  · obtain ⟨t, ht⟩ := step_susp_is_sched cfg s op (Or.inl e); exact h t ht
  · obtain ⟨t, ht⟩ := step_susp_is_sched cfg s op (Or.inr ⟨q, e⟩); exact h t ht

/-! ### a getter that never suspends -/

/-- the task is not in the middle of an `await` -/
def Pc.idle : Pc → Prop
  | .unborn => True
  | .start _ => True
  | .done _ => True
  | _ => False

/-- between two operations: every lock is free and no task is in the middle of an `await` -/
structure Idle (s : State) : Prop where
  pcs : ∀ t, (s.pc t).idle
  locks : ∀ p, s.lock p = none

/-- while task `t` runs (between two of its micro-steps), with a getter that never suspends -/
structure During (cfg : Cfg) (s : State) (t : Nat) : Prop where
  others : ∀ t', t' ≠ t → (s.pc t').idle
  locks : ∀ p o, s.lock p = some o →
    cfg.lock = true ∧ o = t ∧ (s.pc t = .holding p ∨ ∃ r, s.pc t = .getter p r 0)
  nolockwait : ∀ p, s.pc t ≠ .lockwait p
  getter0 : ∀ p r k, s.pc t = .getter p r k → k = 0

theorem Idle.during {s : State} (h : Idle s) (cfg : Cfg) (t : Nat) : During cfg s t := by
  refine ⟨fun t' _ => h.pcs t', ?_, ?_, ?_⟩
  · intro p o hl; rw [h.locks p] at hl; cases hl
  · intro p hp; have := h.pcs t; rw [hp] at this; exact this
  · intro p r k hp; have := h.pcs t; rw [hp] at this; exact this.elim

theorem access_lock (s : State) (i p o : Nat) (h : (access s i).1.lock p = some o) :
    s.lock p = some o := by
  rcases access_cases s i with ⟨x, _, he⟩ | ⟨_, he⟩
  · rw [he] at h; exact h
  · rw [he] at h
    simp only [newPh] at h
    split at h
    · cases h
    · exact h

theorem During.access {cfg : Cfg} {s : State} {t : Nat} (h : During cfg s t) (i : Nat) :
    During cfg (access s i).1 t := by
  have e := access_pc s i
  refine ⟨?_, ?_, ?_, ?_⟩
  · intro t' ht; rw [e]; exact h.others t' ht
  · intro p o hl; rw [e]; exact h.locks p o (access_lock s i p o hl)
  · intro p; rw [e]; exact h.nolockwait p
  · intro p r k; rw [e]; exact h.getter0 p r k

/-- the result of a micro-step of task `t` in a world whose getter never suspends: either the
    task finished (`Idle` again, and what is reported is not a suspension) or it goes on -/
def SyncStep (cfg : Cfg) (t : Nat) (r : State × Option Out) : Prop :=
  match r.2 with
  | some o => Idle r.1 ∧ o ≠ .blocked ∧ (∀ q, o ≠ .suspended q)
  | none => During cfg r.1 t

theorem awaitStored_sync (cfg : Cfg) (s : State) (t : Nat) (x : Stored)
    (ho : ∀ t', t' ≠ t → (s.pc t').idle) (hl : ∀ p, s.lock p = none) :
    SyncStep cfg t (awaitStored s t x) := by
  cases x with
  | val v =>
    simp only [awaitStored, SyncStep]
    refine ⟨⟨?_, hl⟩, by simp, by simp⟩
    intro t'; simp only [setPc]; split
    · trivial
    · exact ho t' ‹_›
  | ph p' =>
    simp only [awaitStored, SyncStep]
    refine ⟨?_, ?_, ?_, ?_⟩
    · intro t' ht; simp only [setPc, ht, if_false]; exact ho t' ht
    · intro p o h; simp only [setPc] at h; rw [hl p] at h; cases h
    · intro p; simp [setPc]
    · intro p r k; simp [setPc]

theorem During.locks_none_of_pc {cfg : Cfg} {s : State} {t : Nat} (h : During cfg s t)
    (h1 : ∀ p, s.pc t ≠ .holding p) (h2 : ∀ p r, s.pc t ≠ .getter p r 0) : ∀ p, s.lock p = none := by
  intro p
  cases hl : s.lock p with
  | none => rfl
  | some o =>
    rcases (h.locks p o hl).2.2 with h3 | ⟨r, h3⟩
    · exact absurd h3 (h1 p)
    · exact absurd h3 (h2 p r)

theorem micro_sync (cfg : Cfg) (hs : ∀ r, cfg.susp r = 0) (s : State) (t : Nat)
    (h : During cfg s t) : SyncStep cfg t (micro cfg s t) := by
  unfold micro
  split
  · rename_i hp
    refine ⟨⟨?_, h.locks_none_of_pc (by simp [hp]) (by simp [hp])⟩, by simp, by simp⟩
    intro t'
    by_cases ht : t' = t
    · subst ht; rw [hp]; trivial
    · exact h.others t' ht
  · rename_i res hp
    refine ⟨⟨?_, h.locks_none_of_pc (by simp [hp]) (by simp [hp])⟩, by simp, by simp⟩
    intro t'
    by_cases ht : t' = t
    · subst ht; rw [hp]; trivial
    · exact h.others t' ht
  · rename_i v hp
    exact awaitStored_sync cfg s t (.val v) h.others
      (h.locks_none_of_pc (by simp [hp]) (by simp [hp]))
  · rename_i p hp
    exact awaitStored_sync cfg s t (.ph p) h.others
      (h.locks_none_of_pc (by simp [hp]) (by simp [hp]))
  · rename_i p hp
    have h1 := h.access (s.phInst p)
    have e := access_pc s (s.phInst p)
    unfold instanceValue
    generalize access s (s.phInst p) = r at h1 e; obtain ⟨s1, x⟩ := r
    simp only at h1 e ⊢
    have hl : ∀ p, s1.lock p = none :=
      h1.locks_none_of_pc (by simp [e, hp]) (by simp [e, hp])
    split
    · split
      · split
        · rename_i ow hlk; rw [hl p] at hlk; cases hlk
        · have hlock : cfg.lock = true := by assumption
          refine ⟨?_, ?_, ?_, ?_⟩
          · intro t' ht; simp only [setPc, setLock, ht, if_false]; exact h1.others t' ht
          · intro p' o hh
            simp only [setPc, setLock] at hh ⊢
            split at hh
            · rename_i hpp; subst hpp; cases hh; simp [hlock]
            · rw [hl p'] at hh; cases hh
          · intro p'; simp [setPc]
          · intro p' r k; simp [setPc]
      · refine ⟨?_, ?_, ?_, ?_⟩
        · intro t' ht; simp only [setPc, ht, if_false]; exact h1.others t' ht
        · intro p' o hh; simp only [setPc] at hh; rw [hl p'] at hh; cases hh
        · intro p'; simp [setPc]
        · intro p' r k; simp [setPc]
    · exact awaitStored_sync cfg s1 t x h1.others hl
  · rename_i p hp; exact absurd hp (h.nolockwait p)
  · rename_i p hp
    have h1 := h.access (s.phInst p)
    have e := access_pc s (s.phInst p)
    unfold instanceValue
    generalize access s (s.phInst p) = r at h1 e; obtain ⟨s1, x⟩ := r
    simp only at h1 e ⊢
    have hp1 : s1.pc t = .holding p := by rw [e]; exact hp
    split
    · refine ⟨?_, ?_, ?_, ?_⟩
      · intro t' ht; simp only [setPc, ht, if_false]; exact h1.others t' ht
      · intro p' o hh
        simp only [setPc] at hh ⊢
        obtain ⟨a, b, c⟩ := h1.locks p' o hh
        refine ⟨a, b, Or.inr ⟨s1.nRuns, ?_⟩⟩
        rcases c with c | ⟨r, c⟩
        · rw [hp1] at c; cases c; simp [hs]
        · rw [hp1] at c; cases c
      · intro p'; simp [setPc]
      · intro p' r k; simp only [setPc, if_true]; intro hh; cases hh; exact hs _
    · refine awaitStored_sync cfg _ t x ?_ ?_
      · intro t' ht; rw [release_pc]; exact h1.others t' ht
      · intro p'
        cases hl : (release cfg s1 p).lock p' with
        | none => rfl
        | some o =>
          exfalso
          unfold release at hl
          split at hl
          · simp only [setLock] at hl
            split at hl
            · cases hl
            · rename_i hne
              rcases (h1.locks p' o hl).2.2 with c | ⟨r, c⟩
              · rw [hp1] at c; cases c; exact hne rfl
              · rw [hp1] at c; cases c
          · rename_i hno
            exact hno (h1.locks p' o hl).1
  · rename_i p r hp
    have hfree : ∀ p', (release cfg s p).lock p' = none := by
      intro p'
      cases hl : (release cfg s p).lock p' with
      | none => rfl
      | some o =>
        exfalso
        unfold release at hl
        split at hl
        · simp only [setLock] at hl
          split at hl
          · cases hl
          · rename_i hne
            rcases (h.locks p' o hl).2.2 with c | ⟨r', c⟩
            · rw [hp] at c; cases c
            · rw [hp] at c; cases c; exact hne rfl
        · rename_i hno
          exact hno (h.locks p' o hl).1
    have hfree' : ∀ p', (release cfg (setSlot s (s.phInst p) (some (.val r))) p).lock p' = none := by
      intro p'
      have := hfree p'
      unfold release at this ⊢
      split
      · rename_i hc; simp only [hc, if_true] at this; exact this
      · rename_i hc; simp only [hc] at this; exact this
    unfold complete
    split
    · refine ⟨⟨?_, ?_⟩, by simp, by simp⟩
      · intro t'
        simp only [setPc]
        split
        · trivial
        · rename_i ht; simp only [setRunSt]; rw [release_pc]; exact h.others t' ht
      · intro p'; exact hfree' p'
    · refine ⟨⟨?_, ?_⟩, by simp, by simp⟩
      · intro t'
        simp only [setPc]
        split
        · trivial
        · rename_i ht; simp only [setRunSt]; rw [release_pc]; exact h.others t' ht
      · intro p'; exact hfree p'
  · rename_i p r k hp
    have := h.getter0 p r (k + 1) hp
    omega

theorem schedN_sync (cfg : Cfg) (hs : ∀ r, cfg.susp r = 0) (n : Nat) : ∀ (s : State) (t : Nat),
    During cfg s t → (schedN cfg n s t).2 ≠ .stuck →
    Idle (schedN cfg n s t).1 ∧ (schedN cfg n s t).2 ≠ .blocked ∧
      ∀ q, (schedN cfg n s t).2 ≠ .suspended q := by
  induction n with
  | zero => intro s t _ hns; simp [schedN] at hns
  | succ n ih =>
    intro s t h hns
    unfold schedN at hns ⊢
    have hm := micro_sync cfg hs s t h
    generalize micro cfg s t = r at hm hns
    obtain ⟨s1, o⟩ := r
    cases o with
    | some o => exact hm
    | none => exact ih s1 t hm hns

theorem step_sync (cfg : Cfg) (hs : ∀ r, cfg.susp r = 0) (s : State) (op : Op)
    (hi : Inv cfg s) (h : Idle s) :
    Idle (step cfg s op).1 ∧ (step cfg s op).2 ≠ .blocked ∧ ∀ q, (step cfg s op).2 ≠ .suspended q := by
  have hout : (step cfg s op).2 ≠ .blocked ∧ ∀ q, (step cfg s op).2 ≠ .suspended q := by
    cases op with
    | sched t =>
      have := schedN_sync cfg hs _ s t (h.during cfg t) (step_not_stuck cfg s (.sched t) hi)
      exact this.2
    | spawn i => exact step_nosusp_of_not_sched cfg s _ (by simp)
    | respawn i => exact step_nosusp_of_not_sched cfg s _ (by simp)
    | cancel i => exact step_nosusp_of_not_sched cfg s _ (by simp)
    | del i => exact step_nosusp_of_not_sched cfg s _ (by simp)
  refine ⟨?_, hout⟩
  cases op with
  | spawn i =>
    simp only [step]
    have e := access_pc s i
    have hl : ∀ p, (access s i).1.lock p = none := by
      intro p
      cases hh : (access s i).1.lock p with
      | none => rfl
      | some o => have := access_lock s i p o hh; rw [h.locks p] at this; cases this
    generalize access s i = r at e hl; obtain ⟨s1, x⟩ := r
    simp only at e hl ⊢
    refine ⟨?_, hl⟩
    intro t
    simp only [addTask]
    split
    · trivial
    · rw [e]; exact h.pcs t
  | respawn t =>
    simp only [step]
    split
    · refine ⟨?_, h.locks⟩
      intro t'
      simp only [addTask]
      split
      · trivial
      · exact h.pcs t'
    · exact h
  | sched t =>
    exact (schedN_sync cfg hs _ s t (h.during cfg t) (step_not_stuck cfg s (.sched t) hi)).1
  | cancel t =>
    simp only [step, cancel]
    split
    · refine ⟨?_, h.locks⟩
      intro t'; simp only [setPc]; split
      · trivial
      · exact h.pcs t'
    · rename_i p hp; have := h.pcs t; rw [hp] at this; exact this.elim
    · rename_i p r k hp; have := h.pcs t; rw [hp] at this; exact this.elim
    · exact h
  | del i =>
    simp only [step]
    split
    · exact h
    · exact ⟨h.pcs, h.locks⟩

theorem reach_idle (cfg : Cfg) (hs : ∀ r, cfg.susp r = 0) (ops : List Op) : Idle (reach cfg ops) := by
  unfold reach
  have : ∀ s, Inv cfg s → Idle s → Idle (exec cfg s ops) := by
    induction ops with
    | nil => intro s _ h; exact h
    | cons op ops ih =>
      intro s hi h
      exact ih _ (step_inv cfg s op hi) (step_sync cfg hs s op hi h).1
  exact this _ (init_inv cfg) ⟨fun t => by simp [State.init, Pc.idle], fun p => rfl⟩

/-- the outputs of a `sched` that mean "the await completed": it returned, it raised the getter's
    exception, or the task had finished before -/
def Out.completed : Out → Prop
  | .ret _ => True
  | .raised _ => True
  | .noop => True
  | _ => False

/-- what a `sched` can report at all -/
def Out.ofSched (o : Out) : Prop := o.completed ∨ o = .blocked ∨ (∃ r, o = .suspended r) ∨ o = .stuck

theorem awaitStored_out (s : State) (t : Nat) (x : Stored) :
    ∀ o, (awaitStored s t x).2 = some o → o.ofSched := by
  cases x <;> simp [awaitStored, Out.ofSched, Out.completed]

theorem micro_out (cfg : Cfg) (s : State) (t : Nat) : ∀ o, (micro cfg s t).2 = some o → o.ofSched := by
  unfold micro
  split
  · simp [Out.ofSched, Out.completed]
  · simp [Out.ofSched, Out.completed]
  · simp [Out.ofSched, Out.completed]
  · simp
  · generalize instanceValue s _ = r; obtain ⟨s1, x⟩ := r
    simp only
    split
    · split
      · split <;> simp [Out.ofSched]
      · simp
    · exact awaitStored_out _ _ _
  · split <;> simp [Out.ofSched]
  · generalize instanceValue s _ = r; obtain ⟨s1, x⟩ := r
    simp only
    split
    · simp
    · exact awaitStored_out _ _ _
  · unfold complete; split <;> simp [Out.ofSched, Out.completed]
  · simp [Out.ofSched]

theorem schedN_out (cfg : Cfg) (n : Nat) : ∀ (s : State) (t : Nat), (schedN cfg n s t).2.ofSched := by
  induction n with
  | zero => intro s t; simp [schedN, Out.ofSched]
  | succ n ih =>
    intro s t
    unfold schedN
    have hm := micro_out cfg s t
    generalize micro cfg s t = r at hm
    obtain ⟨s1, o⟩ := r
    cases o with
    | some o => exact hm o rfl
    | none => exact ih s1 t

end AsyncVerif.CachedProperty

/-! ## lru_cache, overlapping calls -/
namespace AsyncVerif.Lru

theorem cstep_begin_cases (cfg : Cfg) (s : CSt) (c : Nat) (p : Pattern) :
    ((cstep cfg s (.begin c p)).2 = .ignored ∧ (cstep cfg s (.begin c p)).1 = s) ∨
    ((∃ v, (cstep cfg s (.begin c p)).2 = .hit v) ∧
      (cstep cfg s (.begin c p)).1.inflight = s.inflight) ∨
    ((cstep cfg s (.begin c p)).2 = .started ∧ lookupCall c s.inflight = none ∧
      (cstep cfg s (.begin c p)).1.inflight = s.inflight ++ [(c, p)]) := by
  simp only [cstep]
  split
  · exact Or.inl ⟨rfl, rfl⟩
  · rename_i hn
    have hn' : lookupCall c s.inflight = none := by
      cases h : lookupCall c s.inflight with
      | none => rfl
      | some x => rw [h] at hn; simp at hn
    split
    · exact Or.inr (Or.inl ⟨⟨_, rfl⟩, rfl⟩)
    · exact Or.inr (Or.inr ⟨rfl, hn', rfl⟩)

theorem getLast?_cons_of_some {α : Type} (a x : α) (l : List α) (h : l.getLast? = some x) :
    (a :: l).getLast? = some x := by
  cases l with
  | nil => simp at h
  | cons b l => rw [List.getLast?_cons_cons]; exact h

/-- where running a task's program can leave the task suspended: inside a call of the wrapped
    USER function whose script says that it suspends -/
theorem runProg_waiting (cfg : Cfg) (t : Nat) : ∀ (prog : List Act) (pc : Nat) (s : CSt) (c k : Nat)
    (r : Res), (runProg cfg t prog pc s).2.1.waiting = some (c, k, r) →
    ∃ p, Act.call p (k + 1) r ∈ prog ∧
      (runProg cfg t prog pc s).2.2.getLast? = some (.begin c p, .started) ∧
      lookupCall c (runProg cfg t prog pc s).1.inflight = some p := by
  intro prog
  induction prog with
  | nil => intro pc s c k r h; simp [runProg] at h
  | cons a rest ih =>
    intro pc s c k r h
    have lift : ∀ (y : CSt × Task × List Ev) (evs : List Ev),
        (∃ p, Act.call p (k + 1) r ∈ rest ∧ y.2.2.getLast? = some (.begin c p, .started) ∧
          lookupCall c y.1.inflight = some p) →
        ∃ p, Act.call p (k + 1) r ∈ a :: rest ∧
          (evs ++ y.2.2).getLast? = some (.begin c p, .started) ∧
          lookupCall c y.1.inflight = some p := by
      rintro y evs ⟨p, h1, h2, h3⟩
      refine ⟨p, List.mem_cons_of_mem _ h1, ?_, h3⟩
      induction evs with
      | nil => exact h2
      | cons e evs ihe => exact getLast?_cons_of_some _ _ _ ihe
    cases a with
    | call p k' r' =>
      simp only [runProg] at h ⊢
      have hc := cstep_begin_cases cfg s (100 * t + pc) p
      rcases hb : cstep cfg s (.begin (100 * t + pc) p) with ⟨s1, o⟩
      rw [hb] at h hc
      simp only at h hc ⊢
      cases o with
      | started =>
        cases k' with
        | zero =>
          simp only at h ⊢
          exact lift _ [_, _] (ih _ _ _ _ _ h)
        | succ k' =>
          simp only [Option.some.injEq, Prod.mk.injEq] at h ⊢
          obtain ⟨rfl, rfl, rfl⟩ := h
          rcases hc with ⟨h1, _⟩ | ⟨⟨v, h1⟩, _⟩ | ⟨_, h2, h3⟩
          · cases h1
          · cases h1
          · refine ⟨p, List.mem_cons_self, rfl, ?_⟩
            rw [h3]; exact lookupCall_append_new _ p _ h2
      | hit v => simp only at h ⊢; exact lift _ [_] (ih _ _ _ _ _ h)
      | ret v => simp only at h ⊢; exact lift _ [_] (ih _ _ _ _ _ h)
      | raised e => simp only at h ⊢; exact lift _ [_] (ih _ _ _ _ _ h)
      | cancelled => simp only at h ⊢; exact lift _ [_] (ih _ _ _ _ _ h)
      | seq o => simp only at h ⊢; exact lift _ [_] (ih _ _ _ _ _ h)
      | ignored => simp only at h ⊢; exact lift _ [_] (ih _ _ _ _ _ h)
    | clear => simp only [runProg] at h ⊢; exact lift _ [_] (ih _ _ _ _ _ h)
    | discard p => simp only [runProg] at h ⊢; exact lift _ [_] (ih _ _ _ _ _ h)
    | info => simp only [runProg] at h ⊢; exact lift _ [_] (ih _ _ _ _ _ h)

/-- one `send`: the task ends suspended only inside the wrapped user function -/
theorem sendTask_waiting (cfg : Cfg) (t : Nat) (tk : Task) (s : CSt) (c k : Nat) (r : Res)
    (h : (sendTask cfg t tk s).2.1.waiting = some (c, k, r)) :
    tk.waiting = some (c, k + 1, r) ∨
    ∃ p, Act.call p (k + 1) r ∈ tk.prog ∧
      (sendTask cfg t tk s).2.2.getLast? = some (.begin c p, .started) ∧
      lookupCall c (sendTask cfg t tk s).1.inflight = some p := by
  unfold sendTask at h ⊢
  rcases hw : tk.waiting with _ | ⟨c', k', r'⟩
  · rw [hw] at h
    simp only at h ⊢
    exact Or.inr (runProg_waiting cfg t _ _ _ _ _ _ h)
  · rw [hw] at h
    cases k' with
    | zero =>
      simp only at h ⊢
      right
      obtain ⟨p, h1, h2, h3⟩ := runProg_waiting cfg t _ _ _ _ _ _ h
      exact ⟨p, h1, getLast?_cons_of_some _ _ _ h2, h3⟩
    | succ k' =>
      simp only [Option.some.injEq, Prod.mk.injEq] at h ⊢
      obtain ⟨rfl, rfl, rfl⟩ := h
      exact Or.inl ⟨rfl, rfl, rfl⟩

/-- a cancellation never leaves the task suspended, unless it acted as a `send` -/
theorem cancelTask_waiting (cfg : Cfg) (t : Nat) (tk : Task) (s : CSt) (c k : Nat) (r : Res)
    (h : (cancelTask cfg t tk s).2.1.waiting = some (c, k, r)) :
    tk.waiting = none ∧ cancelTask cfg t tk s = sendTask cfg t tk s := by
  unfold cancelTask at h ⊢
  rcases hw : tk.waiting with _ | ⟨c', k', r'⟩
  · exact ⟨rfl, rfl⟩
  · rw [hw] at h; simp at h

/-! ### a wrapped function that never suspends -/

def Act.sync : Act → Prop
  | .call _ k _ => k = 0
  | _ => True

/-- the task is not inside a call, and no call of its program is scripted to suspend -/
def Task.sync (tk : Task) : Prop := tk.waiting = none ∧ ∀ a ∈ tk.prog, a.sync

theorem runProg_sync (cfg : Cfg) (t : Nat) : ∀ (prog : List Act) (pc : Nat) (s : CSt),
    (∀ a ∈ prog, a.sync) →
    (runProg cfg t prog pc s).2.1 = ⟨[], pc + prog.length, none⟩ ∧
    (runProg cfg t prog pc s).1.inflight = s.inflight := by
  intro prog
  induction prog with
  | nil => intro pc s _; exact ⟨rfl, rfl⟩
  | cons a rest ih =>
    intro pc s hs
    have hrest : ∀ a ∈ rest, a.sync := fun a ha => hs a (List.mem_cons_of_mem _ ha)
    have hlen : pc + 1 + rest.length = pc + (a :: rest).length := by simp; omega
    cases a with
    | call p k r =>
      have hk : k = 0 := hs _ List.mem_cons_self
      subst hk
      simp only [runProg]
      have hc := cstep_begin_cases cfg s (100 * t + pc) p
      rcases hb : cstep cfg s (.begin (100 * t + pc) p) with ⟨s1, o⟩
      rw [hb] at hc
      simp only at hc ⊢
      cases o with
      | started =>
        simp only
        rcases hc with ⟨h1, _⟩ | ⟨⟨v, h1⟩, _⟩ | ⟨_, h2, h3⟩
        · cases h1
        · cases h1
        · have hl : lookupCall (100 * t + pc) s1.inflight = some p := by
            rw [h3]; exact lookupCall_append_new _ p _ h2
          have hd : dropCall (100 * t + pc) s1.inflight = s.inflight := by
            rw [h3]; exact dropCall_append_new _ p _ h2
          have hf : (cstep cfg s1 (.finish (100 * t + pc) r.toC)).1.inflight = s.inflight := by
            simp only [cstep, hl]
            cases r <;> simp [Res.toC, hd]
          obtain ⟨i1, i2⟩ := ih (pc + 1) (cstep cfg s1 (.finish (100 * t + pc) r.toC)).1 hrest
          exact ⟨by rw [i1, hlen], by rw [i2, hf]⟩
      | hit v =>
        rcases hc with ⟨h1, _⟩ | ⟨_, h2⟩ | ⟨h1, _⟩
        · cases h1
        · obtain ⟨i1, i2⟩ := ih (pc + 1) s1 hrest
          exact ⟨by rw [i1, hlen], by rw [i2, h2]⟩
        · cases h1
      | ignored =>
        rcases hc with ⟨_, h2⟩ | ⟨⟨v, h1⟩, _⟩ | ⟨h1, _⟩
        · obtain ⟨i1, i2⟩ := ih (pc + 1) s1 hrest
          exact ⟨by rw [i1, hlen], by rw [i2, h2]⟩
        · cases h1
        · cases h1
      | ret v => rcases hc with ⟨h1, _⟩ | ⟨⟨v, h1⟩, _⟩ | ⟨h1, _⟩ <;> cases h1
      | raised e => rcases hc with ⟨h1, _⟩ | ⟨⟨v, h1⟩, _⟩ | ⟨h1, _⟩ <;> cases h1
      | cancelled => rcases hc with ⟨h1, _⟩ | ⟨⟨v, h1⟩, _⟩ | ⟨h1, _⟩ <;> cases h1
      | seq o => rcases hc with ⟨h1, _⟩ | ⟨⟨v, h1⟩, _⟩ | ⟨h1, _⟩ <;> cases h1
    | clear =>
      simp only [runProg]
      obtain ⟨i1, i2⟩ := ih (pc + 1) (cstep cfg s .clear).1 hrest
      exact ⟨by rw [i1, hlen], by rw [i2]; rfl⟩
    | discard p =>
      simp only [runProg]
      obtain ⟨i1, i2⟩ := ih (pc + 1) (cstep cfg s (.discard p)).1 hrest
      exact ⟨by rw [i1, hlen], by rw [i2]; rfl⟩
    | info =>
      simp only [runProg]
      obtain ⟨i1, i2⟩ := ih (pc + 1) (cstep cfg s .info).1 hrest
      exact ⟨by rw [i1, hlen], by rw [i2]; rfl⟩

theorem sendTask_sync (cfg : Cfg) (t : Nat) (tk : Task) (s : CSt) (h : tk.sync) :
    (sendTask cfg t tk s).2.1 = ⟨[], tk.pc + tk.prog.length, none⟩ ∧
    (sendTask cfg t tk s).1.inflight = s.inflight := by
  unfold sendTask
  rw [h.1]
  exact runProg_sync cfg t tk.prog tk.pc s h.2

theorem cancelTask_sync (cfg : Cfg) (t : Nat) (tk : Task) (s : CSt) (h : tk.sync) :
    cancelTask cfg t tk s = sendTask cfg t tk s := by
  unfold cancelTask
  rw [h.1]

theorem mem_setTask (l : List Task) (t : Nat) (tk tk' : Task) (h : tk' ∈ setTask l t tk) :
    tk' ∈ l ∨ tk' = tk := by
  induction l generalizing t with
  | nil => simp [setTask] at h
  | cons x r ih =>
    cases t with
    | zero =>
      simp only [setTask, List.mem_cons] at h
      rcases h with h | h
      · exact Or.inr h
      · exact Or.inl (List.mem_cons_of_mem _ h)
    | succ n =>
      simp only [setTask, List.mem_cons] at h
      rcases h with h | h
      · exact Or.inl (by rw [h]; exact List.mem_cons_self)
      · rcases ih n h with h | h
        · exact Or.inl (List.mem_cons_of_mem _ h)
        · exact Or.inr h

theorem getElem?_setTask (l : List Task) (t : Nat) (tk : Task) (h : t < l.length) :
    (setTask l t tk)[t]? = some tk := by
  induction l generalizing t with
  | nil => simp at h
  | cons x r ih =>
    cases t with
    | zero => simp [setTask]
    | succ n => simp only [setTask, List.getElem?_cons_succ]; exact ih n (by simpa using h)

theorem sync_done (pc : Nat) : Task.sync ⟨[], pc, none⟩ := ⟨rfl, by simp⟩

theorem schedStep_sync (cfg : Cfg) (x : CSt × List Task) (op : SOp) (h : ∀ tk ∈ x.2, tk.sync) :
    (∀ tk ∈ (schedStep cfg x op).1.2, tk.sync) ∧
    (schedStep cfg x op).1.1.inflight = x.1.inflight := by
  have key : ∀ t, (∀ tk ∈ (schedStep cfg x (.send t)).1.2, tk.sync) ∧
      (schedStep cfg x (.send t)).1.1.inflight = x.1.inflight := by
    intro t
    simp only [schedStep]
    cases ht : x.2[t]? with
    | none => exact ⟨h, rfl⟩
    | some tk =>
      have hm : tk ∈ x.2 := List.mem_of_getElem? ht
      obtain ⟨e1, e2⟩ := sendTask_sync cfg t tk x.1 (h tk hm)
      refine ⟨?_, e2⟩
      intro tk' htk'
      rcases mem_setTask _ _ _ _ htk' with h1 | h1
      · exact h tk' h1
      · rw [h1, e1]; exact sync_done _
  cases op with
  | send t => exact key t
  | cancel t =>
    have : schedStep cfg x (.cancel t) = schedStep cfg x (.send t) := by
      simp only [schedStep]
      cases ht : x.2[t]? with
      | none => rfl
      | some tk => simp only; rw [cancelTask_sync cfg t tk x.1 (h tk (List.mem_of_getElem? ht))]
    rw [this]; exact key t

theorem schedFinal_sync (cfg : Cfg) (ops : List SOp) : ∀ (x : CSt × List Task),
    (∀ tk ∈ x.2, tk.sync) →
    (∀ tk ∈ (schedFinal cfg x ops).2, tk.sync) ∧ (schedFinal cfg x ops).1.inflight = x.1.inflight := by
  induction ops with
  | nil => intro x h; exact ⟨h, rfl⟩
  | cons op ops ih =>
    intro x h
    obtain ⟨h1, h2⟩ := schedStep_sync cfg x op h
    obtain ⟨h3, h4⟩ := ih _ h1
    exact ⟨h3, by simp only [schedFinal]; rw [h4, h2]⟩

end AsyncVerif.Lru

/-! ## context managers used as decorators -/
namespace AsyncVerif.Decorator

/-- the user's generator is suspended at an inner `await` of a segment that has just been
    started, and the script of that segment says that it suspends (`k + 1` times: now, and `k` more) -/
def GenStart (p : GenProg) (new : GenPc) : Prop :=
  (∃ k, new = .pre k ∧ p.preSusp = k + 1) ∨ (∃ k, new = .post k ∧ p.postSusp = k + 1) ∨
  (∃ e k, new = .thr e k ∧ p.thrSusp = k + 1)

/-- the user's generator was suspended at an inner `await` with one more suspension to go, and is
    now suspended at the next one of the same segment -/
def GenCont (old new : GenPc) : Prop :=
  (∃ k, old = .pre (k + 1) ∧ new = .pre k) ∨ (∃ k, old = .post (k + 1) ∧ new = .post k) ∨
  (∃ e k, old = .thr e (k + 1) ∧ new = .thr e k)

theorem seg_susp (n : Nat) (mk : Nat → GenPc) (fin : GRes) (hf : fin.2.1 ≠ .suspended)
    (h : (seg n mk fin).2.1 = .suspended) : ∃ k, n = k + 1 ∧ (seg n mk fin).1 = mk k := by
  cases n with
  | zero => exact absurd h hf
  | succ k => exact ⟨k, rfl, rfl⟩

/-- one `send`/`throw` into the user's generator object: it reports a suspension only from inside
    its own code, as its script says -/
theorem genAdvance_susp (p : GenProg) (pc : GenPc) (r : Resume)
    (h : (genAdvance p pc r).2.1 = .suspended) :
    ((r = .next ∨ ∃ e, r = .throwIn e) ∧ GenStart p (genAdvance p pc r).1) ∨
    (r = .cont ∧ GenCont pc (genAdvance p pc r).1) := by
  cases pc <;> cases r <;> simp only [genAdvance, addEv] at h ⊢ <;> try (exact absurd h (by simp))
  · obtain ⟨k, hk, e⟩ := seg_susp _ _ _ (preFin_ns p) h
    exact Or.inl ⟨Or.inl trivial, Or.inl ⟨k, e, hk⟩⟩
  · rename_i left
    obtain ⟨k, hk, e⟩ := seg_susp _ _ _ (preFin_ns p) h
    exact Or.inr ⟨trivial, Or.inl ⟨k, by rw [hk], e⟩⟩
  · obtain ⟨k, hk, e⟩ := seg_susp _ _ _ (postFin_ns p) h
    exact Or.inl ⟨Or.inl trivial, Or.inr (Or.inl ⟨k, e, hk⟩)⟩
  · rename_i e'
    obtain ⟨k, hk, e⟩ := seg_susp _ _ _ (thrFin_ns p e') h
    exact Or.inl ⟨Or.inr ⟨e', rfl⟩, Or.inr (Or.inr ⟨e', k, e, hk⟩)⟩
  · rename_i left
    obtain ⟨k, hk, e⟩ := seg_susp _ _ _ (postFin_ns p) h
    exact Or.inr ⟨trivial, Or.inr (Or.inl ⟨k, by rw [hk], e⟩)⟩
  · rename_i e' left
    obtain ⟨k, hk, e⟩ := seg_susp _ _ _ (thrFin_ns p e') h
    exact Or.inr ⟨trivial, Or.inr (Or.inr ⟨e', k, by rw [hk], e⟩)⟩

/-- the step ended with the call finished -/
def Ends (r : R) : Prop := ∃ x, r.2.2 = .finished x ∧ r.1.pc = .done x

/-- the call is suspended in user code that this very step started, and whose script says that it
    suspends: the user's `__aenter__` / generator, the decorated user function, the user's
    `__aexit__` / generator -/
def StartedIn (gb : Bool) (cc : CallCfg) (l' : Local) : Stage → Prop
  | .enter => ∃ left, l'.pc = .entering left ∧
      (gb = true → GenStart l'.cell.prog l'.cell.pc) ∧ (gb = false → cc.plain.enterSusp = left + 1)
  | .body => ∃ k, l'.pc = .body k ∧ cc.bodySusp = k + 1
  | .exit => ∃ o left, l'.pc = .exiting o left ∧
      (gb = true → GenStart l'.cell.prog l'.cell.pc) ∧ (gb = false → cc.plain.exitSusp = left + 1)

/-- result of a piece of `inner(...)` that only STARTS user awaitables: the call finished, or it is
    suspended inside one of them as scripted; the generator keeps its program -/
def Started (gb : Bool) (cc : CallCfg) (prog : GenProg) (r : R) : Prop :=
  r.1.cell.prog = prog ∧ (Ends r ∨ ∃ st, r.2.2 = .suspended st ∧ StartedIn gb cc r.1 st)

theorem Started.prepend {gb : Bool} {cc : CallCfg} {prog : GenProg} {r : R}
    (h : Started gb cc prog r) (evs : List LEv) : Started gb cc prog (prepend evs r) := h

theorem finishExit_ends (cell : GenCell) (o : BodyOut) (resp : ExitResp) :
    Ends (finishExit cell o resp) := ⟨_, rfl, rfl⟩

theorem contExit_cases (cell : GenCell) (o : BodyOut) (left : Nat) (aw : Aw Bool) :
    (aw = .suspended ∧
      contExit cell o left aw = ({ pc := .exiting o left, cell := cell }, [], .suspended .exit)) ∨
    (aw ≠ .suspended ∧ Ends (contExit cell o left aw) ∧ (contExit cell o left aw).1.cell = cell) := by
  cases aw with
  | suspended => exact Or.inl ⟨rfl, rfl⟩
  | returned b => exact Or.inr ⟨by simp, finishExit_ends _ _ _, rfl⟩
  | raised x => exact Or.inr ⟨by simp, finishExit_ends _ _ _, rfl⟩

theorem plainExitFin_ns (cc : CallCfg) (exc : Option Exc) : plainExitFin cc exc ≠ .suspended := by
  unfold plainExitFin plainExitAct
  cases exc with
  | none => simp only; cases cc.plain.exitNone <;> simp
  | some x => simp only; cases cc.plain.exitSome <;> simp

theorem plainExitSeg_cases (cc : CallCfg) (cell : GenCell) (o : BodyOut) (n : Nat) :
    (∃ k, n = k + 1 ∧
      plainExitSeg cc cell o n = ({ pc := .exiting o k, cell := cell }, [], .suspended .exit)) ∨
    (n = 0 ∧ Ends (plainExitSeg cc cell o n) ∧ (plainExitSeg cc cell o n).1.cell = cell) := by
  cases n with
  | zero =>
    right
    rcases contExit_cases cell o 0 (plainExitFin cc o.exc) with ⟨h, _⟩ | ⟨_, h1, h2⟩
    · exact absurd h (plainExitFin_ns _ _)
    · exact ⟨rfl, h1, h2⟩
  | succ k => exact Or.inl ⟨k, rfl, rfl⟩

theorem genAexit_suspended (exc : Option Exc) : genAexit exc .suspended = .suspended := by
  cases exc <;> rfl

theorem genExitSend_cases (cell : GenCell) (o : BodyOut) (r : Resume) :
    ((genAdvance cell.prog cell.pc r).2.1 = .suspended ∧
      (genExitSend cell o r).1 =
        { pc := .exiting o 0, cell := { cell with pc := (genAdvance cell.prog cell.pc r).1 } } ∧
      (genExitSend cell o r).2.2 = .suspended .exit) ∨
    ((genAdvance cell.prog cell.pc r).2.1 ≠ .suspended ∧ Ends (genExitSend cell o r) ∧
      (genExitSend cell o r).1.cell.prog = cell.prog) := by
  unfold genExitSend
  simp only []
  by_cases h : (genAdvance cell.prog cell.pc r).2.1 = .suspended
  · left
    rw [h, genAexit_suspended]
    exact ⟨rfl, rfl, rfl⟩
  · right
    rcases contExit_cases { cell with pc := (genAdvance cell.prog cell.pc r).1 } o 0
        (genAexit o.exc (genAdvance cell.prog cell.pc r).2.1) with ⟨h1, _⟩ | ⟨_, h1, h2⟩
    · exact absurd h1 (genAexit_ns _ _ h)
    · refine ⟨h, h1, ?_⟩
      show (contExit _ o 0 _).1.cell.prog = _
      rw [h2]

theorem exitResume_start (o : BodyOut) : exitResume o = .next ∨ ∃ e, exitResume o = .throwIn e := by
  unfold exitResume; cases o.exc <;> simp

theorem genStart_of_start (p : GenProg) (pc : GenPc) (r : Resume)
    (hr : r = .next ∨ ∃ e, r = .throwIn e) (h : (genAdvance p pc r).2.1 = .suspended) :
    GenStart p (genAdvance p pc r).1 := by
  rcases genAdvance_susp p pc r h with ⟨_, h1⟩ | ⟨h1, _⟩
  · exact h1
  · rcases hr with hr | ⟨e, hr⟩ <;> rw [hr] at h1 <;> cases h1

theorem startExit_started (gb : Bool) (cc : CallCfg) (cell : GenCell) (o : BodyOut) :
    Started gb cc cell.prog (startExit gb cc cell o) := by
  unfold startExit
  cases gb with
  | true =>
    simp only [if_true]
    rcases genExitSend_cases cell o (exitResume o) with ⟨h1, h2, h3⟩ | ⟨_, h2, h3⟩
    · refine ⟨by rw [h2], Or.inr ⟨.exit, h3, o, 0, by rw [h2], fun _ => ?_, (fun hf => by cases hf)⟩⟩
      rw [h2]
      exact genStart_of_start _ _ _ (exitResume_start o) h1
    · exact ⟨h3, Or.inl h2⟩
  | false =>
    simp only [Bool.false_eq_true, if_false]
    apply Started.prepend
    rcases plainExitSeg_cases cc cell o cc.plain.exitSusp with ⟨k, hk, e⟩ | ⟨_, h1, h2⟩
    · rw [e]
      exact ⟨rfl, Or.inr ⟨.exit, rfl, o, k, rfl, (fun hf => by cases hf), fun _ => hk⟩⟩
    · exact ⟨by rw [h2], Or.inl h1⟩

theorem afterBody_started (gb : Bool) (cc : CallCfg) (cell : GenCell) (o : BodyOut) :
    Started gb cc cell.prog (afterBody gb cc cell o) :=
  (startExit_started gb cc cell o).prepend _

theorem contBody_cases (gb : Bool) (cc : CallCfg) (cell : GenCell) (n : Nat) :
    (∃ k, n = k + 1 ∧
      contBody gb cc cell n = ({ pc := .body k, cell := cell }, [], .suspended .body)) ∨
    (n = 0 ∧ Started gb cc cell.prog (contBody gb cc cell n)) := by
  cases n with
  | zero => exact Or.inr ⟨rfl, afterBody_started gb cc cell _⟩
  | succ k => exact Or.inl ⟨k, rfl, rfl⟩

theorem contBody_started (gb : Bool) (cc : CallCfg) (cell : GenCell) :
    Started gb cc cell.prog (contBody gb cc cell cc.bodySusp) := by
  rcases contBody_cases gb cc cell cc.bodySusp with ⟨k, hk, e⟩ | ⟨_, h⟩
  · rw [e]; exact ⟨rfl, Or.inr ⟨.body, rfl, k, rfl, hk⟩⟩
  · exact h

theorem afterEnter_cases (gb : Bool) (cc : CallCfg) (cell : GenCell) (left : Nat) (aw : Aw Unit) :
    (aw = .suspended ∧
      afterEnter gb cc cell left aw = ({ pc := .entering left, cell := cell }, [], .suspended .enter)) ∨
    (aw ≠ .suspended ∧ Started gb cc cell.prog (afterEnter gb cc cell left aw)) := by
  cases aw with
  | suspended => exact Or.inl ⟨rfl, rfl⟩
  | raised x => exact Or.inr ⟨by simp, rfl, Or.inl ⟨_, rfl, rfl⟩⟩
  | returned u => exact Or.inr ⟨by simp, (contBody_started gb cc cell).prepend _⟩

theorem genEnterSend_cases (gb : Bool) (cc : CallCfg) (cell : GenCell) (r : Resume) :
    ((genAdvance cell.prog cell.pc r).2.1 = .suspended ∧
      (genEnterSend gb cc cell r).1 =
        { pc := .entering 0, cell := { cell with pc := (genAdvance cell.prog cell.pc r).1 } } ∧
      (genEnterSend gb cc cell r).2.2 = .suspended .enter) ∨
    ((genAdvance cell.prog cell.pc r).2.1 ≠ .suspended ∧
      Started gb cc cell.prog (genEnterSend gb cc cell r)) := by
  unfold genEnterSend
  simp only []
  by_cases h : (genAdvance cell.prog cell.pc r).2.1 = .suspended
  · left
    rw [h]
    exact ⟨rfl, rfl, rfl⟩
  · right
    rcases afterEnter_cases gb cc { cell with pc := (genAdvance cell.prog cell.pc r).1 } 0
        (genAenter (genAdvance cell.prog cell.pc r).2.1) with ⟨h1, _⟩ | ⟨_, h1⟩
    · exact absurd (genAenter_susp _ h1) h
    · exact ⟨h, h1.prepend _⟩

theorem plainEnterFin_ns (cc : CallCfg) : (plainEnterFin cc).1 ≠ .suspended := by
  unfold plainEnterFin; cases cc.plain.enter <;> simp

theorem plainEnterSeg_cases (gb : Bool) (cc : CallCfg) (cell : GenCell) (n : Nat) :
    (∃ k, n = k + 1 ∧
      plainEnterSeg gb cc cell n = ({ pc := .entering k, cell := cell }, [], .suspended .enter)) ∨
    (n = 0 ∧ Started gb cc cell.prog (plainEnterSeg gb cc cell n)) := by
  cases n with
  | zero =>
    right
    rcases afterEnter_cases gb cc cell 0 (plainEnterFin cc).1 with ⟨h, _⟩ | ⟨_, h⟩
    · exact absurd h (plainEnterFin_ns cc)
    · exact ⟨rfl, h.prepend _⟩
  | succ k => exact Or.inl ⟨k, rfl, rfl⟩

/-- a call that has not started yet: whatever is done to it, it finishes or is suspended in user
    code started by this step -/
theorem callStep_fresh_started (gb : Bool) (cc : CallCfg) (l : Local) (cop : COp) (h : l.pc = .fresh) :
    Started gb cc l.cell.prog (callStep gb cc l cop) := by
  unfold callStep
  cases cop with
  | resume =>
    simp only [h]
    cases gb with
    | true =>
      simp only [if_true]
      rcases genEnterSend_cases true cc l.cell .next with ⟨h1, h2, h3⟩ | ⟨_, h2⟩
      · refine ⟨by rw [h2], Or.inr ⟨.enter, h3, 0, by rw [h2], fun _ => ?_, (fun hf => by cases hf)⟩⟩
        rw [h2]
        exact genStart_of_start _ _ _ (Or.inl rfl) h1
      · exact h2
    | false =>
      simp only [Bool.false_eq_true, if_false]
      apply Started.prepend
      rcases plainEnterSeg_cases false cc l.cell cc.plain.enterSusp with ⟨k, hk, e⟩ | ⟨_, h1⟩
      · rw [e]
        exact ⟨rfl, Or.inr ⟨.enter, rfl, k, rfl, (fun hf => by cases hf), fun _ => hk⟩⟩
      · exact h1
  | cancel x =>
    simp only [h]
    exact ⟨rfl, Or.inl ⟨_, rfl, rfl⟩⟩

/-- the call is suspended in user code, as scripted: in an awaitable this step started (script
    positive), or in the one it was suspended in before, with one more suspension to go -/
def InUser (gb : Bool) (cc : CallCfg) (l l' : Local) : Stage → Prop
  | .enter => ∃ left, l'.pc = .entering left ∧
      (gb = true → GenStart l.cell.prog l'.cell.pc ∨ GenCont l.cell.pc l'.cell.pc) ∧
      (gb = false → cc.plain.enterSusp = left + 1 ∨ l.pc = .entering (left + 1))
  | .body => ∃ k, l'.pc = .body k ∧ (cc.bodySusp = k + 1 ∨ l.pc = .body (k + 1))
  | .exit => ∃ o left, l'.pc = .exiting o left ∧
      (gb = true → GenStart l.cell.prog l'.cell.pc ∨ GenCont l.cell.pc l'.cell.pc) ∧
      (gb = false → cc.plain.exitSusp = left + 1 ∨ l.pc = .exiting o (left + 1))

theorem StartedIn.inUser {gb : Bool} {cc : CallCfg} {l l' : Local} {st : Stage}
    (h : StartedIn gb cc l' st) (hp : l'.cell.prog = l.cell.prog) : InUser gb cc l l' st := by
  cases st with
  | enter =>
    obtain ⟨left, h1, h2, h3⟩ := h
    exact ⟨left, h1, fun hg => Or.inl (hp ▸ h2 hg), fun hg => Or.inl (h3 hg)⟩
  | body =>
    obtain ⟨k, h1, h2⟩ := h
    exact ⟨k, h1, Or.inl h2⟩
  | exit =>
    obtain ⟨o, left, h1, h2, h3⟩ := h
    exact ⟨o, left, h1, fun hg => Or.inl (hp ▸ h2 hg), fun hg => Or.inl (h3 hg)⟩

/-- what one `send`/`throw` on `inner(...)` can end in -/
def StepSpec (gb : Bool) (cc : CallCfg) (l : Local) (r : R) : Prop :=
  r.1.cell.prog = l.cell.prog ∧
  (Ends r ∨ (r.2.2 = .skipped ∧ r.1 = l) ∨ ∃ st, r.2.2 = .suspended st ∧ InUser gb cc l r.1 st)

theorem Started.stepSpec {gb : Bool} {cc : CallCfg} {l : Local} {r : R}
    (h : Started gb cc l.cell.prog r) : StepSpec gb cc l r := by
  refine ⟨h.1, ?_⟩
  rcases h.2 with h2 | ⟨st, h2, h3⟩
  · exact Or.inl h2
  · exact Or.inr (Or.inr ⟨st, h2, h3.inUser h.1⟩)

theorem genNoSusp_of_cancel (p : GenProg) (pc : GenPc) (x : Exc) :
    (genAdvance p pc (.cancel x)).2.1 ≠ .suspended := by
  intro h
  rcases genAdvance_susp p pc _ h with ⟨h1, _⟩ | ⟨h1, _⟩
  · rcases h1 with h1 | ⟨e, h1⟩ <;> cases h1
  · cases h1

/-- **one `send`/`throw` on the coroutine `inner(...)`, any local state** -/
theorem callStep_spec (gb : Bool) (cc : CallCfg) (l : Local) (cop : COp) :
    StepSpec gb cc l (callStep gb cc l cop) := by
  cases hpc : l.pc with
  | fresh => exact (callStep_fresh_started gb cc l cop hpc).stepSpec
  | done x =>
    unfold callStep
    cases cop <;> simp only [hpc] <;> exact ⟨rfl, Or.inr (Or.inl ⟨rfl, rfl⟩)⟩
  | entering k =>
    unfold callStep
    cases cop with
    | resume =>
      simp only [hpc]
      cases gb with
      | true =>
        simp only [if_true]
        rcases genEnterSend_cases true cc l.cell .cont with ⟨h1, h2, h3⟩ | ⟨_, h2⟩
        · refine ⟨by rw [h2], Or.inr (Or.inr ⟨.enter, h3, 0, by rw [h2], fun _ => ?_,
            (fun hf => by cases hf)⟩)⟩
          rw [h2]
          rcases genAdvance_susp _ _ _ h1 with ⟨h4, _⟩ | ⟨_, h4⟩
          · rcases h4 with h4 | ⟨e, h4⟩ <;> cases h4
          · exact Or.inr h4
        · exact h2.stepSpec
      | false =>
        simp only [Bool.false_eq_true, if_false]
        rcases plainEnterSeg_cases false cc l.cell k with ⟨k', hk, e⟩ | ⟨_, h1⟩
        · rw [e]
          refine ⟨rfl, Or.inr (Or.inr ⟨.enter, rfl, k', rfl, (fun hf => by cases hf),
            fun _ => Or.inr ?_⟩)⟩
          rw [hpc, hk]
        · exact h1.stepSpec
    | cancel x =>
      simp only [hpc]
      cases gb with
      | true =>
        simp only [if_true]
        rcases genEnterSend_cases true cc l.cell (.cancel x) with ⟨h1, _⟩ | ⟨_, h2⟩
        · exact absurd h1 (genNoSusp_of_cancel _ _ _)
        · exact h2.stepSpec
      | false =>
        simp only [Bool.false_eq_true, if_false]
        rcases afterEnter_cases false cc l.cell 0 (.raised x) with ⟨h, _⟩ | ⟨_, h⟩
        · cases h
        · exact h.stepSpec
  | body k =>
    unfold callStep
    cases cop with
    | resume =>
      simp only [hpc]
      rcases contBody_cases gb cc l.cell k with ⟨k', hk, e⟩ | ⟨_, h1⟩
      · rw [e]
        refine ⟨rfl, Or.inr (Or.inr ⟨.body, rfl, k', rfl, Or.inr ?_⟩)⟩
        rw [hpc, hk]
      · exact h1.stepSpec
    | cancel x =>
      simp only [hpc]
      exact (afterBody_started gb cc l.cell _).stepSpec
  | exiting o k =>
    unfold callStep
    cases cop with
    | resume =>
      simp only [hpc]
      cases gb with
      | true =>
        simp only [if_true]
        rcases genExitSend_cases l.cell o .cont with ⟨h1, h2, h3⟩ | ⟨_, h2, h3⟩
        · refine ⟨by rw [h2], Or.inr (Or.inr ⟨.exit, h3, o, 0, by rw [h2], fun _ => ?_,
            (fun hf => by cases hf)⟩)⟩
          rw [h2]
          rcases genAdvance_susp _ _ _ h1 with ⟨h4, _⟩ | ⟨_, h4⟩
          · rcases h4 with h4 | ⟨e, h4⟩ <;> cases h4
          · exact Or.inr h4
        · exact ⟨h3, Or.inl h2⟩
      | false =>
        simp only [Bool.false_eq_true, if_false]
        rcases plainExitSeg_cases cc l.cell o k with ⟨k', hk, e⟩ | ⟨_, h1, h2⟩
        · rw [e]
          refine ⟨rfl, Or.inr (Or.inr ⟨.exit, rfl, o, k', rfl, (fun hf => by cases hf),
            fun _ => Or.inr ?_⟩)⟩
          rw [hpc, hk]
        · exact ⟨by rw [h2], Or.inl h1⟩
    | cancel x =>
      simp only [hpc]
      cases gb with
      | true =>
        simp only [if_true]
        rcases genExitSend_cases l.cell o (.cancel x) with ⟨h1, _⟩ | ⟨_, h2, h3⟩
        · exact absurd h1 (genNoSusp_of_cancel _ _ _)
        · exact ⟨h3, Or.inl h2⟩
      | false =>
        simp only [Bool.false_eq_true, if_false]
        rcases contExit_cases l.cell o 0 (.raised x) with ⟨h, _⟩ | ⟨_, h1, h2⟩
        · cases h
        · exact ⟨by rw [h2], Or.inl h1⟩

/-! ### the heap machine -/

/-- what call `c` can see of heap state `s`: its program counter and the generator of its manager -/
def localOf (s : State) (c : Nat) (cc : CallCfg) : Local :=
  { pc := (s.calls c).pc, cell := cellOf s c cc }

/-- the state in which the coroutine of the call runs: `_recreate_cm()` has run if this is the
    first `send` -/
def prepared (cfg : Cfg) (s : State) (op : Op) (cc : CallCfg) : State :=
  if isFirstSend (s.calls op.call).pc op.cop then recreate cfg.generatorBased s op.call cc else s

theorem step_eq_core (cfg : Cfg) (s : State) (op : Op) (cc : CallCfg)
    (hcc : cfg.calls[op.call]? = some cc) :
    step cfg s op = core cfg.generatorBased (prepared cfg s op cc) op.call cc op.cop := by
  simp only [step, hcc, prepared]

theorem step_none (cfg : Cfg) (s : State) (op : Op) (hcc : cfg.calls[op.call]? = none) :
    step cfg s op = (s, .skipped) := by
  simp only [step, hcc]

/-- one heap step is one `callStep` on the call's local view, written back through the reference -/
theorem core_local (gb : Bool) (s : State) (c : Nat) (cc : CallCfg) (cop : COp) :
    (core gb s c cc cop).2 = (callStep gb cc (localOf s c cc) cop).2.2 ∧
    ((core gb s c cc cop).1.calls c).pc = (callStep gb cc (localOf s c cc) cop).1.pc ∧
    ((core gb s c cc cop).1.calls c).gid = (s.calls c).gid ∧
    (∀ g, (s.calls c).gid = some g →
      (core gb s c cc cop).1.gens g = (callStep gb cc (localOf s c cc) cop).1.cell) := by
  refine ⟨rfl, ?_, ?_, ?_⟩
  · simp [core, setAt, localOf]
  · simp [core, setAt]
  · intro g hg
    simp [core, hg, setAt, localOf]

/-! ### user code that never suspends -/

def ZeroProg (p : GenProg) : Prop := p.preSusp = 0 ∧ p.postSusp = 0 ∧ p.thrSusp = 0

/-- nothing the user supplies for this call ever suspends: neither the generator (or the
    `__aenter__`/`__aexit__` of a class-based manager) nor the decorated function -/
def CallCfg.sync (cc : CallCfg) : Prop :=
  cc.bodySusp = 0 ∧ cc.plain.enterSusp = 0 ∧ cc.plain.exitSusp = 0 ∧ ZeroProg cc.gen

def Cfg.sync (cfg : Cfg) : Prop := ∀ cc ∈ cfg.calls, cc.sync

/-- between two operations: every call is either not started or finished, and every generator
    object in the store runs a program that never suspends -/
structure SyncSt (s : State) : Prop where
  pcs : ∀ c, (s.calls c).pc = .fresh ∨ ∃ r, (s.calls c).pc = .done r
  progs : ∀ g, ZeroProg (s.gens g).prog

theorem genStart_zero (p : GenProg) (pc : GenPc) (hz : ZeroProg p) : ¬ GenStart p pc := by
  obtain ⟨h1, h2, h3⟩ := hz
  rintro (⟨k, _, h⟩ | ⟨k, _, h⟩ | ⟨e, k, _, h⟩) <;> omega

theorem callStep_sync (gb : Bool) (cc : CallCfg) (l : Local) (cop : COp) (hcc : cc.sync)
    (hpc : l.pc = .fresh ∨ ∃ r, l.pc = .done r) (hz : ZeroProg l.cell.prog) :
    (∀ st, (callStep gb cc l cop).2.2 ≠ .suspended st) ∧
    ((callStep gb cc l cop).1.pc = .fresh ∨ ∃ r, (callStep gb cc l cop).1.pc = .done r) ∧
    ZeroProg (callStep gb cc l cop).1.cell.prog := by
  rcases hpc with hpc | ⟨r, hpc⟩
  · obtain ⟨h1, h2⟩ := callStep_fresh_started gb cc l cop hpc
    rcases h2 with ⟨x, h2, h3⟩ | ⟨st, h2, h3⟩
    · exact ⟨fun st h => (by rw [h2] at h; cases h), Or.inr ⟨x, h3⟩, (by rw [h1]; exact hz)⟩
    · exfalso
      obtain ⟨b1, b2, b3, b4⟩ := hcc
      cases st with
      | enter =>
        obtain ⟨left, _, g1, g2⟩ := h3
        cases gb with
        | true => exact genStart_zero _ _ (by rw [h1]; exact hz) (g1 rfl)
        | false => have := g2 rfl; omega
      | body =>
        obtain ⟨k, _, g1⟩ := h3
        omega
      | exit =>
        obtain ⟨o, left, _, g1, g2⟩ := h3
        cases gb with
        | true => exact genStart_zero _ _ (by rw [h1]; exact hz) (g1 rfl)
        | false => have := g2 rfl; omega
  · rw [callStep_done gb cc l cop r hpc]
    exact ⟨by simp, Or.inr ⟨r, hpc⟩, hz⟩

theorem step_sync (cfg : Cfg) (hcfg : cfg.sync) (s : State) (op : Op) (h : SyncSt s) :
    SyncSt (step cfg s op).1 ∧ ∀ st, (step cfg s op).2 ≠ .suspended st := by
  cases hcc : cfg.calls[op.call]? with
  | none => rw [step_none cfg s op hcc]; exact ⟨h, by simp⟩
  | some cc =>
    have hs : cc.sync := hcfg cc (List.mem_of_getElem? hcc)
    rw [step_eq_core cfg s op cc hcc]
    have hp : SyncSt (prepared cfg s op cc) := by
      unfold prepared
      split
      · unfold recreate
        split
        · refine ⟨fun c => ?_, fun g => ?_⟩
          · simp only [setAt]; split
            · exact Or.inl rfl
            · exact h.pcs c
          · simp only [setAt]; split
            · exact hs.2.2.2
            · exact h.progs g
        · exact h
      · exact h
    generalize prepared cfg s op cc = s1 at hp
    have hz : ZeroProg (localOf s1 op.call cc).cell.prog := by
      simp only [localOf, cellOf]
      split
      · exact hp.progs _
      · exact hs.2.2.2
    obtain ⟨k1, k2, k3⟩ := callStep_sync cfg.generatorBased cc (localOf s1 op.call cc) op.cop hs
      (hp.pcs op.call) hz
    obtain ⟨c1, c2, c3, c4⟩ := core_local cfg.generatorBased s1 op.call cc op.cop
    refine ⟨⟨fun c => ?_, fun g => ?_⟩, fun st => (by rw [c1]; exact k1 st)⟩
    · by_cases hc : c = op.call
      · subst hc; rw [c2]; exact k2
      · have : (core cfg.generatorBased s1 op.call cc op.cop).1.calls c = s1.calls c := by
          simp [core, setAt, hc]
        rw [this]; exact hp.pcs c
    · cases hg : (s1.calls op.call).gid with
      | none =>
        have : (core cfg.generatorBased s1 op.call cc op.cop).1.gens = s1.gens := by
          simp [core, hg]
        rw [this]; exact hp.progs g
      | some g' =>
        by_cases hgg : g = g'
        · subst hgg; rw [c4 g hg]; exact k3
        · have : (core cfg.generatorBased s1 op.call cc op.cop).1.gens g = s1.gens g := by
            simp [core, hg, setAt, hgg]
          rw [this]; exact hp.progs g

theorem runFrom_sync (cfg : Cfg) (hcfg : cfg.sync) (ops : List Op) : ∀ (s : State), SyncSt s →
    SyncSt (runFrom cfg s ops).1 ∧ ∀ o ∈ (runFrom cfg s ops).2, ∀ st, o ≠ .suspended st := by
  induction ops with
  | nil => intro s h; exact ⟨h, by simp [runFrom]⟩
  | cons op rest ih =>
    intro s h
    obtain ⟨h1, h2⟩ := step_sync cfg hcfg s op h
    obtain ⟨h3, h4⟩ := ih _ h1
    simp only [runFrom]
    refine ⟨h3, fun o ho => ?_⟩
    simp only [List.mem_cons] at ho
    rcases ho with rfl | ho
    · exact h2
    · exact h4 o ho

theorem init_sync : SyncSt State.init :=
  ⟨fun _ => Or.inl rfl, fun _ => ⟨rfl, rfl, rfl⟩⟩

end AsyncVerif.Decorator

/-! ## asynctools adapters -/
namespace AsyncVerif.Adapters

/-- the tokens the user awaitable behind an item yields to the loop (a plain value: none) -/
def Item.toks : Item → List Tok
  | .plain _ => []
  | .aw a => a.toks

/-- every token user code behind an iterable argument can yield: those of each `__anext__`, those
    of each awaitable element, those of the `__anext__` that finds the end -/
def srcToks (src : Src) : List Tok :=
  src.items.flatMap (fun p => p.1 ++ p.2.toks) ++ src.endToks

/-- … plus those of the awaitable that produces the iterable -/
def userToks (o : Option Outer) (src : Src) : List Tok :=
  (match o with | some o => o.toks | none => []) ++ srcToks src

theorem susp_awaitAw (a : Aw) (t : Tok) (h : Ev.susp t ∈ (awaitAw a).1) : t ∈ a.toks := by
  simpa [awaitAw] using h

theorem susp_resolveItem (it : Item) (t : Tok) (h : Ev.susp t ∈ (resolveItem it).1) : t ∈ it.toks := by
  cases it with
  | plain v => simp [resolveItem] at h
  | aw a => exact susp_awaitAw a t h

theorem susp_awaitItem (it : Item) (t : Tok) (h : Ev.susp t ∈ (awaitItem it).1) : t ∈ it.toks := by
  cases it with
  | plain v => simp [awaitItem] at h
  | aw a => exact susp_awaitAw a t h

theorem susp_pullA (toks : List Tok) (t : Tok) (h : Ev.susp t ∈ pullA toks) : t ∈ toks := by
  simpa [pullA] using h

theorem susp_pullS (k : Kind) (t : Tok) : Ev.susp t ∉ pullS k := by
  unfold pullS; split <;> simp

theorem susp_awaitOuter (o : Outer) (t : Tok) (h : Ev.susp t ∈ awaitOuter o) : t ∈ o.toks := by
  simpa [awaitOuter] using h

theorem srcToks_cons (kind : Kind) (toks : List Tok) (it : Item) (rest : List (List Tok × Item))
    (e : List Tok) :
    srcToks ⟨kind, (toks, it) :: rest, e⟩ = toks ++ it.toks ++ srcToks ⟨kind, rest, e⟩ := by
  simp [srcToks]

/-- the tokens user code can still yield from a given state of `any_iter` -/
def anyToks : AnySt → List Tok
  | .fresh o src => userToks o src
  | .loopA src => srcToks src
  | .loopS src => srcToks src
  | .done => []

theorem anyStepA_toks (src : Src) :
    (∀ t, Ev.susp t ∈ (anyStepA src).1.1 → t ∈ srcToks src) ∧
    (∀ t, t ∈ anyToks (anyStepA src).2 → t ∈ srcToks src) := by
  obtain ⟨kind, items, e⟩ := src
  cases items with
  | nil =>
    simp only [anyStepA]
    exact ⟨fun t h => by simpa [srcToks] using susp_pullA _ t h, fun t h => by simp [anyToks] at h⟩
  | cons p rest =>
    obtain ⟨toks, it⟩ := p
    simp only [anyStepA]
    have hs := susp_resolveItem it
    rw [srcToks_cons]
    rcases hr : resolveItem it with ⟨evs, res⟩
    rw [hr] at hs
    cases res with
    | ok v =>
      simp only [anyToks]
      refine ⟨fun t h => ?_, fun t h => ?_⟩
      · simp only [List.mem_append] at h ⊢
        rcases h with h | h
        · exact Or.inl (Or.inl (susp_pullA _ t h))
        · exact Or.inl (Or.inr (hs t h))
      · exact List.mem_append_right _ h
    | err x =>
      simp only [anyToks]
      refine ⟨fun t h => ?_, fun t h => by simp at h⟩
      simp only [List.mem_append] at h ⊢
      rcases h with h | h
      · exact Or.inl (Or.inl (susp_pullA _ t h))
      · exact Or.inl (Or.inr (hs t h))

theorem anyStepS_toks (src : Src) :
    (∀ t, Ev.susp t ∈ (anyStepS src).1.1 → t ∈ srcToks src) ∧
    (∀ t, t ∈ anyToks (anyStepS src).2 → t ∈ srcToks src) := by
  obtain ⟨kind, items, e⟩ := src
  cases items with
  | nil =>
    simp only [anyStepS]
    exact ⟨fun t h => absurd h (susp_pullS _ t), fun t h => by simp [anyToks] at h⟩
  | cons p rest =>
    obtain ⟨toks, it⟩ := p
    simp only [anyStepS]
    have hs := susp_resolveItem it
    rw [srcToks_cons]
    rcases hr : resolveItem it with ⟨evs, res⟩
    rw [hr] at hs
    cases res with
    | ok v =>
      simp only [anyToks]
      refine ⟨fun t h => ?_, fun t h => ?_⟩
      · simp only [List.mem_append] at h ⊢
        rcases h with h | h
        · exact absurd h (susp_pullS _ t)
        · exact Or.inl (Or.inr (hs t h))
      · exact List.mem_append_right _ h
    | err x =>
      simp only [anyToks]
      refine ⟨fun t h => ?_, fun t h => by simp at h⟩
      simp only [List.mem_append] at h ⊢
      rcases h with h | h
      · exact absurd h (susp_pullS _ t)
      · exact Or.inl (Or.inr (hs t h))

theorem anyEnter_toks (src : Src) :
    (∀ t, Ev.susp t ∈ (anyEnter src).1.1 → t ∈ srcToks src) ∧
    (∀ t, t ∈ anyToks (anyEnter src).2 → t ∈ srcToks src) := by
  unfold anyEnter; split
  · exact anyStepA_toks src
  · exact anyStepS_toks src

/-- one consumer operation on `any_iter`: every token that reaches the loop is one the user code
    behind the argument can still yield, and what it can yield afterwards it could yield before -/
theorem anyStep_toks (s : AnySt) (op : Op) :
    (∀ t, Ev.susp t ∈ (anyStep s op).1.1 → t ∈ anyToks s) ∧
    (∀ t, t ∈ anyToks (anyStep s op).2 → t ∈ anyToks s) := by
  cases op with
  | close => exact ⟨fun t h => by simp [anyStep, anyClose] at h, fun t h => by simp [anyStep, anyClose, anyToks] at h⟩
  | next =>
    cases s with
    | done => exact ⟨fun t h => by simp [anyStep, anyNext] at h, fun t h => h⟩
    | loopA src => exact anyStepA_toks src
    | loopS src => exact anyStepS_toks src
    | fresh o src =>
      cases o with
      | none =>
        have := anyEnter_toks src
        simpa [anyStep, anyNext, anyToks, userToks] using this
      | some o =>
        simp only [anyStep, anyNext, anyToks, userToks]
        cases hf : o.fail with
        | some e =>
          simp only
          exact ⟨fun t h => List.mem_append_left _ (susp_awaitOuter o t h), fun t h => by simp at h⟩
        | none =>
          simp only [prepend]
          have := anyEnter_toks src
          refine ⟨fun t h => ?_, fun t h => List.mem_append_right _ (this.2 t h)⟩
          simp only [List.mem_append] at h ⊢
          rcases h with h | h
          · exact Or.inl (susp_awaitOuter o t h)
          · exact Or.inr (this.1 t h)

theorem any_run_toks (ops : List Op) : ∀ (s : AnySt) (t : Tok),
    Ev.susp t ∈ trace (run anyStep s ops) → t ∈ anyToks s := by
  induction ops with
  | nil => intro s t h; simp [run, trace] at h
  | cons op rest ih =>
    intro s t h
    simp only [run, trace_cons, List.mem_append] at h
    rcases h with h | h
    · exact (anyStep_toks s op).1 t h
    · exact (anyStep_toks s op).2 t (ih _ t h)

/-- the tokens user code can still yield from a given state of `await_each` -/
def eachToks : EachSt → List Tok
  | .live src => srcToks src
  | .done => []

theorem eachStep_toks (s : EachSt) (op : Op) :
    (∀ t, Ev.susp t ∈ (eachStep s op).1.1 → t ∈ eachToks s) ∧
    (∀ t, t ∈ eachToks (eachStep s op).2 → t ∈ eachToks s) := by
  cases op with
  | close => exact ⟨fun t h => by simp [eachStep] at h, fun t h => by simp [eachStep, eachToks] at h⟩
  | next =>
    cases s with
    | done => exact ⟨fun t h => by simp [eachStep, eachNext] at h, fun t h => h⟩
    | live src =>
      simp only [eachStep, eachNext]
      split
      · exact ⟨fun t h => by simp at h, fun t h => by simp [eachToks] at h⟩
      · obtain ⟨kind, items, e⟩ := src
        cases items with
        | nil =>
          simp only
          exact ⟨fun t h => absurd h (susp_pullS _ t), fun t h => by simp [eachToks] at h⟩
        | cons p rest =>
          obtain ⟨toks, it⟩ := p
          simp only [eachToks]
          have hs := susp_awaitItem it
          rw [srcToks_cons]
          rcases hr : awaitItem it with ⟨evs, res⟩
          rw [hr] at hs
          cases res with
          | ok v =>
            refine ⟨fun t h => ?_, fun t h => List.mem_append_right _ h⟩
            simp only [List.mem_append] at h ⊢
            rcases h with h | h
            · exact absurd h (susp_pullS _ t)
            · exact Or.inl (Or.inr (hs t h))
          | err x =>
            refine ⟨fun t h => ?_, fun t h => by simp at h⟩
            simp only [List.mem_append] at h ⊢
            rcases h with h | h
            · exact absurd h (susp_pullS _ t)
            · exact Or.inl (Or.inr (hs t h))

theorem each_run_toks (ops : List Op) : ∀ (s : EachSt) (t : Tok),
    Ev.susp t ∈ trace (run eachStep s ops) → t ∈ eachToks s := by
  induction ops with
  | nil => intro s t h; simp [run, trace] at h
  | cons op rest ih =>
    intro s t h
    simp only [run, trace_cons, List.mem_append] at h
    rcases h with h | h
    · exact (eachStep_toks s op).1 t h
    · exact (eachStep_toks s op).2 t (ih _ t h)

theorem susp_awaitAll (items : List Item) (t : Tok) (h : Ev.susp t ∈ (awaitAll items).1) :
    ∃ it ∈ items, t ∈ it.toks := by
  induction items with
  | nil => simp [awaitAll] at h
  | cons a rest ih =>
    simp only [awaitAll] at h
    have hs := susp_awaitItem a
    rcases hr : awaitItem a with ⟨evs, res⟩
    rw [hr] at hs h
    cases res with
    | err e => exact ⟨a, List.mem_cons_self, hs t h⟩
    | ok v =>
      simp only at h
      rcases hr2 : awaitAll rest with ⟨evs', res'⟩
      rw [hr2] at h ih
      have h' : Ev.susp t ∈ evs ++ evs' := by cases res' <;> exact h
      simp only [List.mem_append] at h'
      rcases h' with h' | h'
      · exact ⟨a, List.mem_cons_self, hs t h'⟩
      · obtain ⟨it, h1, h2⟩ := ih h'
        exact ⟨it, List.mem_cons_of_mem _ h1, h2⟩

theorem susp_awaitKw (kws : List (Nat × Item)) (t : Tok) (h : Ev.susp t ∈ (awaitKw kws).1) :
    ∃ kv ∈ kws, t ∈ kv.2.toks := by
  induction kws with
  | nil => simp [awaitKw] at h
  | cons a rest ih =>
    obtain ⟨k, a⟩ := a
    simp only [awaitKw] at h
    have hs := susp_awaitItem a
    rcases hr : awaitItem a with ⟨evs, res⟩
    rw [hr] at hs h
    cases res with
    | err e => exact ⟨(k, a), List.mem_cons_self, hs t h⟩
    | ok v =>
      simp only at h
      rcases hr2 : awaitKw rest with ⟨evs', res'⟩
      rw [hr2] at h ih
      have h' : Ev.susp t ∈ evs ++ evs' := by cases res' <;> exact h
      simp only [List.mem_append] at h'
      rcases h' with h' | h'
      · exact ⟨(k, a), List.mem_cons_self, hs t h'⟩
      · obtain ⟨it, h1, h2⟩ := ih h'
        exact ⟨it, List.mem_cons_of_mem _ h1, h2⟩

theorem callRaw_cases (f : UFn) (args : List Val) (kw : List (Nat × Val)) :
    callRaw f args kw = ([], .raised .typeError) ∨
    (f.flavour.returnsAw = true ∧
      callRaw f args kw = ([Ev.call f.id args kw], .awaitable (f.toks args kw) (f.res args kw))) ∨
    (∃ v, callRaw f args kw = ([Ev.call f.id args kw], .value v)) ∨
    (∃ e, callRaw f args kw = ([Ev.call f.id args kw], .raised e)) := by
  unfold callRaw
  split
  · exact Or.inl rfl
  · split
    · rename_i h; exact Or.inr (Or.inl ⟨h, rfl⟩)
    · split
      · exact Or.inr (Or.inr (Or.inl ⟨_, rfl⟩))
      · exact Or.inr (Or.inr (Or.inr ⟨_, rfl⟩))

theorem susp_callSynced (f : UFn) (args : List Val) (kw : List (Nat × Val)) (t : Tok)
    (h : Ev.susp t ∈ (callSynced f args kw).1) : f.flavour.returnsAw = true ∧ t ∈ f.toks args kw := by
  unfold callSynced asyncWrapped at h
  rcases callRaw_cases f args kw with hc | ⟨hr, hc⟩ | ⟨v, hc⟩ | ⟨e, hc⟩ <;> rw [hc] at h <;>
    cases hs : sync f <;> rw [hs] at h <;> simp [awaitRaw] at h
  · exact ⟨hr, h⟩
  · exact ⟨hr, h⟩

theorem mem_srcToks (src : Src) (t : Tok) :
    t ∈ srcToks src ↔ (∃ p ∈ src.items, t ∈ p.1 ∨ t ∈ p.2.toks) ∨ t ∈ src.endToks := by
  simp [srcToks, List.mem_flatMap]

end AsyncVerif.Adapters
