import AsyncVerif.Machines.Awaitify
namespace AsyncVerif.Awaitify

/-- the decision, once made, matches what the callable hands out -/
def Inv (fl : Flavour) (s : St) : Prop :=
  (s.decided = some false → returnsAwaitable fl = false) ∧ (s.decided = some true → returnsAwaitable fl = true)

theorem inv_init (fl : Flavour) : Inv fl init := by simp [Inv, init]

theorem callStep_spec (fl : Flavour) (s : St) (b : Except Nat Nat) (h : Inv fl s) :
    (callStep fl s b).2 = ofBeh b ∧ Inv fl (callStep fl s b).1 := by
  unfold callStep
  by_cases hc : isCoroFn fl
  · simp [hc, h]
  · simp only [hc, Bool.false_eq_true, if_false]
    cases hd : s.decided with
    | none =>
      cases b with
      | ok v =>
        by_cases hr : returnsAwaitable fl <;> simp [hr, Inv, ofBeh]
      | error e =>
        by_cases hx : raisesAtCall fl
        · simp [hx, ofBeh, h]
        · by_cases hr : returnsAwaitable fl <;> simp [hx, hr, Inv, ofBeh]
    | some d =>
      cases d with
      | true => simp [h]
      | false =>
        have := h.1 hd
        simp [this, h]

theorem run_spec (fl : Flavour) : ∀ (bs : List (Except Nat Nat)) (s : St), Inv fl s → run fl s bs = bs.map ofBeh := by
  intro bs
  induction bs with
  | nil => intro s _; rfl
  | cons b rest ih =>
    intro s h
    obtain ⟨h1, h2⟩ := callStep_spec fl s b h
    simp only [run, List.map_cons, h1, ih _ h2]

end AsyncVerif.Awaitify
