import AsyncVerif.Proofs.Core
import AsyncVerif.Impl.Aggregations
import AsyncVerif.Proofs.Select
/-!
# Fuel adequacy: every fuelled loop of the tool models terminates within a bound read off the world

The fuel parameter of the loops is a model artefact; `.outOfFuel` is raised when it reaches 0.
This file shows that the artefact is never observed when the fuel exceeds the (finite) amount of
scripted input: source scripts are finite lists, every successful `pull s` shortens the script of
`s` by one, and no primitive ever makes a script longer.

* `slen s w`      — length of the remaining script of source `s`
* `NoGrow w w'`   — no script is longer in `w'` than in `w`
* `Tame m`        — `m` never raises `.outOfFuel` and never makes a script longer
* `Triple P m Q`  — partial-correctness triple "from `P`, `m` does not raise `.outOfFuel`, and
                    if it returns `a` then `Q a` holds of the final world"
-/
namespace AsyncVerif

/-- remaining script length of source `s` -/
def slen (s : Nat) (w : World) : Nat := (w.srcs s).script.length

/-- no script grew between `w` and `w'` -/
def NoGrow (w w' : World) : Prop := ∀ t, slen t w' ≤ slen t w

theorem NoGrow.refl (w : World) : NoGrow w w := fun _ => Nat.le_refl _
theorem NoGrow.trans {a b c : World} (h1 : NoGrow a b) (h2 : NoGrow b c) : NoGrow a c :=
  fun t => Nat.le_trans (h2 t) (h1 t)

/-- a program that never reports `.outOfFuel` and never makes a script longer (in any world,
    whatever its outcome) -/
def Tame {α : Type} (m : M α) : Prop := ∀ w, (m w).1 ≠ .error .outOfFuel ∧ NoGrow w (m w).2

/-- the predicate of the task statement: `m` does not make the script of `s` longer -/
def ScriptMono {α : Type} (s : Nat) (m : M α) : Prop := ∀ w, slen s (m w).2 ≤ slen s w

/-- `m` never reports `.outOfFuel` -/
def Fueled {α : Type} (m : M α) : Prop := ∀ w, (m w).1 ≠ .error .outOfFuel

theorem Tame.fueled {α : Type} {m : M α} (h : Tame m) : Fueled m := fun w => (h w).1
theorem Tame.scriptMono {α : Type} {m : M α} (h : Tame m) (s : Nat) : ScriptMono s m := fun w => (h w).2 s

/-! ## Tame primitives -/

theorem Tame.pure {α : Type} (a : α) : Tame (pure a : M α) := fun w => ⟨by simp [pure_apply], NoGrow.refl w⟩

theorem Tame.raise {α : Type} (e : Exc) (h : e ≠ .outOfFuel) : Tame (raise e : M α) :=
  fun w => ⟨by simpa [AsyncVerif.raise] using h, NoGrow.refl w⟩

theorem Tame.bind {α β : Type} {m : M α} {f : α → M β} (hm : Tame m) (hf : ∀ a, Tame (f a)) :
    Tame (m >>= f) := by
  intro w
  have h1 := hm w
  simp only [bind_apply]
  rcases hmw : m w with ⟨r, w1⟩
  rw [hmw] at h1
  cases r with
  | ok a =>
    have h2 := hf a w1
    exact ⟨h2.1, NoGrow.trans h1.2 h2.2⟩
  | error e => simpa using h1

theorem Tame.seq {α β : Type} {m : M α} {k : M β} (hm : Tame m) (hk : Tame k) :
    Tame (do let _ ← m; k) := Tame.bind hm (fun _ => hk)

theorem Tame.liftExc {α : Type} (r : Except Exc α) (h : r ≠ .error .outOfFuel) : Tame (liftExc r) := by
  intro w
  cases r with
  | ok a => exact ⟨by simp [AsyncVerif.liftExc], NoGrow.refl w⟩
  | error e => exact ⟨by simpa [AsyncVerif.liftExc] using h, NoGrow.refl w⟩

theorem Val.lt_ne_oof (a b : Val) : Val.lt a b ≠ .error .outOfFuel := by
  unfold Val.lt; split <;> simp

theorem Val.add_ne_oof (a b : Val) : Val.add a b ≠ .error .outOfFuel := by
  unfold Val.add; split <;> simp

theorem Val.asArgs_ne_oof (a : Val) : Val.asArgs a ≠ .error .outOfFuel := by
  unfold Val.asArgs; split <;> simp

theorem Tame.yieldV (v : Val) : Tame (yieldV v) := by
  intro w
  unfold AsyncVerif.yieldV
  rcases hc : w.cons with ⟨n, f⟩ | _
  · cases n <;> cases f <;> simp [hc, NoGrow, slen, World.pushVis]
  · simp [hc, NoGrow, slen, World.pushVis]

theorem Tame.call (f : Nat) (args : List Val) : Tame (call f args) := by
  intro w
  unfold AsyncVerif.call
  cases h : w.fns f (w.calls f) args <;> simp [h, NoGrow, slen, World.pushVis]

theorem Tame.test (fn : Option Nat) (x : Val) : Tame (test fn x) := by
  unfold AsyncVerif.test
  cases fn with
  | none => exact Tame.pure _
  | some f => exact Tame.bind (Tame.call f _) (fun _ => Tame.pure _)

theorem slen_setSrc (w : World) (s t : Nat) (x : Src) :
    slen t (w.setSrc s x) = if t = s then x.script.length else slen t w := by
  unfold slen World.setSrc
  by_cases h : t = s <;> simp [h]

@[simp] theorem slen_pushVis (w : World) (t : Nat) (ev : Ev) : slen t (w.pushVis ev) = slen t w := rfl
@[simp] theorem slen_pushRel (w : World) (t : Nat) (ev : Ev) : slen t (w.pushRel ev) = slen t w := rfl

/-- `pull`: never `.outOfFuel`, no script grows, and an item costs the source one script entry -/
theorem pull_spec (s : Nat) (w : World) :
    (pull s w).1 ≠ .error .outOfFuel ∧ NoGrow w (pull s w).2 ∧
      ∀ v, (pull s w).1 = .ok (some v) → slen s (pull s w).2 + 1 = slen s w := by
  unfold pull
  by_cases hl : (w.srcs s).status.live = true
  · simp only [hl, if_true]
    rcases hs : (w.srcs s).script with _ | ⟨r, rest⟩
    · refine ⟨by simp, ?_, by simp⟩
      intro t
      simp only [slen_pushVis, slen_setSrc]
      split
      · rename_i h; subst h; simp [slen, hs]
      · exact Nat.le_refl _
    · cases r with
      | item v =>
        refine ⟨by simp, ?_, ?_⟩
        · intro t
          simp only [slen_pushVis, slen_setSrc]
          split
          · rename_i h; subst h; simp [slen, hs]
          · exact Nat.le_refl _
        · intro v' _
          simp [slen, hs, World.setSrc, World.pushVis]
      | err e =>
        refine ⟨by simp, ?_, by simp⟩
        intro t
        simp only [slen_pushVis, slen_setSrc]
        split
        · rename_i h; subst h; simp [slen, hs]
        · exact Nat.le_refl _
  · rw [if_neg hl]
    split
    · exact ⟨by simp, fun t => by simp, by simp⟩
    · exact ⟨by simp, fun t => by simp, by simp⟩

theorem Tame.pull (s : Nat) : Tame (pull s) := fun w => ⟨(pull_spec s w).1, (pull_spec s w).2.1⟩

theorem closeSrc_ok (s : Nat) (w : World) : (closeSrc s w).1 = .ok () := (closeSrc_quiet s w).1

theorem closeSrc_slen (s t : Nat) (w : World) : slen t (closeSrc s w).2 = slen t w := by
  unfold closeSrc
  cases hk : (w.srcs s).kind <;> simp only [hk]
  all_goals first
    | (split <;> simp only [slen_pushRel, slen_setSrc] <;> split <;> simp_all [slen])
    | (cases hs : (w.srcs s).status <;> simp only [slen_pushRel, slen_setSrc] <;> split <;> simp_all [slen])
    | (simp only [slen_pushRel, slen_setSrc]; split <;> simp_all [slen])
    | rfl

theorem Tame.closeSrc (s : Nat) : Tame (closeSrc s) := fun w =>
  ⟨by simp [closeSrc_ok], fun t => Nat.le_of_eq (closeSrc_slen s t w)⟩

theorem Tame.closeAll : ∀ l : List Nat, Tame (closeAll l)
  | [] => Tame.pure ()
  | s :: rest => Tame.bind (Tame.closeSrc s) (fun _ => Tame.closeAll rest)

theorem Tame.tryFinally {α : Type} {body : M α} {fin : M Unit} (hb : Tame body) (hf : Tame fin) :
    Tame (tryFinally body fin) := by
  intro w
  have h1 := hb w
  unfold AsyncVerif.tryFinally
  rcases hbw : body w with ⟨r, w1⟩
  rw [hbw] at h1
  have h2 := hf w1
  rcases hfw : fin w1 with ⟨r2, w2⟩
  rw [hfw] at h2
  have hg : NoGrow w w2 := NoGrow.trans h1.2 h2.2
  have h1' : r ≠ .error .outOfFuel := h1.1
  have h2' : r2 ≠ .error .outOfFuel := h2.1
  cases r with
  | ok a =>
    cases r2 with
    | ok u => exact ⟨by simp [hfw], by simpa [hfw] using hg⟩
    | error e2 =>
      have : e2 ≠ .outOfFuel := fun h => h2' (by rw [h])
      exact ⟨by simpa [hfw] using this, by simpa [hfw] using hg⟩
  | error e =>
    have he : e ≠ .outOfFuel := fun h => h1' (by rw [h])
    cases r2 with
    | ok u => cases e <;> first | exact absurd rfl he | exact ⟨by simp [hfw], by simpa [hfw] using hg⟩
    | error e2 =>
      have : e2 ≠ .outOfFuel := fun h => h2' (by rw [h])
      cases e <;> first | exact absurd rfl he | exact ⟨by simpa [hfw] using this, by simpa [hfw] using hg⟩

theorem Tame.scopedIter {α : Type} (s : Nat) {body : M α} (hb : Tame body) : Tame (scopedIter s body) :=
  Tame.tryFinally hb (Tame.closeSrc s)

theorem Tame.tryCatchStop {α : Type} {body handler : M α} (hb : Tame body) (hh : Tame handler) :
    Tame (tryCatchStop body handler) := by
  intro w
  have h1 := hb w
  unfold AsyncVerif.tryCatchStop
  rcases hbw : body w with ⟨r, w1⟩
  rw [hbw] at h1
  cases r with
  | ok a => exact h1
  | error e =>
    cases e <;> first
      | exact h1
      | exact ⟨(hh w1).1, NoGrow.trans h1.2 (hh w1).2⟩

theorem Tame.anext (s : Nat) : Tame (anext s) := by
  unfold AsyncVerif.anext
  refine Tame.bind (Tame.pull s) (fun o => ?_)
  cases o with
  | none => exact Tame.raise _ (by simp)
  | some v => exact Tame.pure v

theorem Tame.keyOf (fn : Option Nat) (x : Val) : Tame (Std.keyOf fn x) := by
  unfold Std.keyOf
  cases fn with
  | none => exact Tame.pure _
  | some f => exact Tame.call f _

theorem Tame.accStep (fn : Option Nat) (t x : Val) : Tame (Std.accStep fn t x) := by
  unfold Std.accStep
  cases fn with
  | none => exact Tame.liftExc _ (Val.add_ne_oof _ _)
  | some f => exact Tame.call f _

theorem Std.sortKeyed_ne_oof (r : Bool) (l : List (Val × Val)) :
    Std.sortKeyed r l ≠ .error .outOfFuel := by
  unfold Std.sortKeyed; split <;> simp

/-- prove `Tame` for straight-line code built from the primitives -/
macro "tame" : tactic => `(tactic| repeat (first
  | with_reducible exact Tame.pure _ | with_reducible exact Tame.yieldV _
  | with_reducible exact Tame.call _ _ | with_reducible exact Tame.test _ _
  | with_reducible exact Tame.pull _ | with_reducible exact Tame.anext _
  | with_reducible exact Tame.closeSrc _ | with_reducible exact Tame.closeAll _
  | with_reducible exact Tame.liftExc _ (Val.add_ne_oof _ _)
  | with_reducible exact Tame.liftExc _ (Val.lt_ne_oof _ _)
  | with_reducible exact Tame.liftExc _ (Val.asArgs_ne_oof _)
  | with_reducible exact Tame.liftExc _ (Std.sortKeyed_ne_oof _ _)
  | with_reducible exact Tame.liftExc _ (by split <;> exact Val.lt_ne_oof _ _)
  | with_reducible exact Tame.keyOf _ _ | with_reducible exact Tame.accStep _ _ _
  | with_reducible exact Tame.raise _ (by simp)
  | assumption
  | with_reducible refine Tame.bind ?_ (fun _ => ?_)
  | with_reducible apply Tame.tryCatchStop | with_reducible apply Tame.tryFinally
  | with_reducible apply Tame.scopedIter
  | (show Tame _; dsimp only) | (show Tame _; split)))

/-! ## Triples -/

/-- from a world satisfying `P`, `m` does not report `.outOfFuel`, and a returned value `a`
    comes with a world satisfying `Q a` -/
def Triple {α : Type} (P : World → Prop) (m : M α) (Q : α → World → Prop) : Prop :=
  ∀ w, P w → (m w).1 ≠ .error .outOfFuel ∧ ∀ a, (m w).1 = .ok a → Q a (m w).2

/-- a world predicate that survives script shortening (and any other change of the world) -/
def Stable (P : World → Prop) : Prop := ∀ w w', NoGrow w w' → P w → P w'

theorem Stable.slen_lt (s n : Nat) : Stable (fun w => slen s w < n) :=
  fun _ _ hg h => Nat.lt_of_le_of_lt (hg s) h

theorem Stable.and {P Q : World → Prop} (hP : Stable P) (hQ : Stable Q) : Stable (fun w => P w ∧ Q w) :=
  fun w w' hg h => ⟨hP w w' hg h.1, hQ w w' hg h.2⟩

theorem Stable.true : Stable (fun _ => True) := fun _ _ _ _ => trivial

theorem Triple.fueled {α : Type} {P : World → Prop} {m : M α} {Q : α → World → Prop}
    (h : Triple P m Q) {w : World} (hw : P w) : (m w).1 ≠ .error .outOfFuel := (h w hw).1

theorem Triple.pure {α : Type} {P : World → Prop} {Q : α → World → Prop} (a : α)
    (h : ∀ w, P w → Q a w) : Triple P (pure a) Q := by
  intro w hw
  refine ⟨by simp [pure_apply], ?_⟩
  intro b hb
  simp only [pure_apply] at hb ⊢
  cases hb
  exact h w hw

theorem Triple.raise {α : Type} {P : World → Prop} {Q : α → World → Prop} (e : Exc)
    (h : e ≠ .outOfFuel) : Triple P (raise e : M α) Q := by
  intro w _
  exact ⟨by simpa [AsyncVerif.raise] using h, by simp [AsyncVerif.raise]⟩

theorem Triple.pre {α : Type} {P P' : World → Prop} {m : M α} {Q : α → World → Prop}
    (ht : Triple P m Q) (h : ∀ w, P' w → P w) : Triple P' m Q := fun w hw => ht w (h w hw)

theorem Triple.post {α : Type} {P : World → Prop} {m : M α} {Q Q' : α → World → Prop}
    (ht : Triple P m Q) (h : ∀ a w, Q a w → Q' a w) : Triple P m Q' :=
  fun w hw => ⟨(ht w hw).1, fun a ha => h a _ ((ht w hw).2 a ha)⟩

theorem Triple.bind {α β : Type} {P : World → Prop} {m : M α} {Q : α → World → Prop}
    {f : α → M β} {R : β → World → Prop}
    (h1 : Triple P m Q) (h2 : ∀ a, Triple (Q a) (f a) R) : Triple P (m >>= f) R := by
  intro w hw
  have hm := h1 w hw
  simp only [bind_apply]
  rcases hmw : m w with ⟨r, w1⟩
  rw [hmw] at hm
  cases r with
  | ok a => exact h2 a w1 (hm.2 a rfl)
  | error e => exact ⟨by simpa using hm.1, by simp⟩

theorem Tame.triple {α : Type} {m : M α} (hm : Tame m) {P : World → Prop} (hP : Stable P) :
    Triple P m (fun _ => P) :=
  fun w hw => ⟨(hm w).1, fun _ _ => hP w _ (hm w).2 hw⟩

theorem Triple.bind_tame {α β : Type} {P : World → Prop} {m : M α} {f : α → M β}
    {R : β → World → Prop} (hm : Tame m) (hP : Stable P) (h2 : ∀ a, Triple P (f a) R) :
    Triple P (m >>= f) R := Triple.bind (hm.triple hP) h2

/-- the loop step: an item costs the source one script entry, so a bound on its script length
    can be lowered for the code that runs after a successful pull -/
theorem Triple.bind_pull {β : Type} (s : Nat) {P P' : World → Prop} {f : Option Val → M β}
    {R : β → World → Prop} (hP : Stable P)
    (hdec : ∀ w w', P w → NoGrow w w' → slen s w' < slen s w → P' w')
    (hnone : Triple P (f none) R) (hsome : ∀ x, Triple P' (f (some x)) R) :
    Triple P (pull s >>= f) R := by
  refine Triple.bind (Q := fun o w' => match o with | none => P w' | some _ => P' w') ?_ ?_
  · intro w hw
    obtain ⟨h1, h2, h3⟩ := pull_spec s w
    refine ⟨h1, ?_⟩
    intro o ho
    cases o with
    | none => exact hP w _ h2 hw
    | some v => exact hdec w _ hw h2 (by have := h3 v ho; omega)
  · intro o
    cases o with
    | none => exact hnone
    | some x => exact hsome x

/-- `try … finally` with cleanup that never reports `.outOfFuel` and preserves the postcondition -/
theorem Triple.tryFinally_gen {α : Type} {P : World → Prop} {body : M α} {fin : M Unit}
    {Q : α → World → Prop} (hb : Triple P body Q) (hf : Fueled fin)
    (hQ : ∀ a w, Q a w → Q a (fin w).2) :
    Triple P (tryFinally body fin) Q := by
  intro w hw
  have h1 := hb w hw
  unfold AsyncVerif.tryFinally
  rcases hbw : body w with ⟨r, w1⟩
  rw [hbw] at h1
  have h2 : (fin w1).1 ≠ .error .outOfFuel := hf w1
  have h3 := fun a => hQ a w1
  rcases hfw : fin w1 with ⟨r2, w2⟩
  rw [hfw] at h2 h3
  have h1' : r ≠ .error .outOfFuel := h1.1
  have h2' : r2 ≠ .error .outOfFuel := h2
  cases r with
  | ok a =>
    cases r2 with
    | ok u =>
      refine ⟨by simp [hfw], ?_⟩
      intro b hb'
      simp only [hfw] at hb' ⊢
      cases hb'
      exact h3 a (h1.2 a rfl)
    | error e2 =>
      have : e2 ≠ .outOfFuel := fun h => h2' (by rw [h])
      exact ⟨by simpa [hfw] using this, by simp [hfw]⟩
  | error e =>
    have he : e ≠ .outOfFuel := fun h => h1' (by rw [h])
    cases r2 with
    | ok u => cases e <;> first | exact absurd rfl he | exact ⟨by simp [hfw], by simp [hfw]⟩
    | error e2 =>
      have : e2 ≠ .outOfFuel := fun h => h2' (by rw [h])
      cases e <;> first | exact absurd rfl he | exact ⟨by simpa [hfw] using this, by simp [hfw]⟩

theorem Triple.tryFinally {α : Type} {P : World → Prop} {body : M α} {fin : M Unit}
    {Q : α → World → Prop} (hb : Triple P body Q) (hf : Tame fin) (hQ : ∀ a, Stable (Q a)) :
    Triple P (tryFinally body fin) Q :=
  Triple.tryFinally_gen hb hf.fueled (fun a w h => hQ a w _ (hf w).2 h)

theorem Triple.scopedIter {α : Type} (s : Nat) {P : World → Prop} {body : M α}
    {Q : α → World → Prop} (hb : Triple P body Q) (hQ : ∀ a, Stable (Q a)) :
    Triple P (scopedIter s body) Q := Triple.tryFinally hb (Tame.closeSrc s) hQ

/-- the form used for the top-level wrappers: no postcondition -/
theorem Triple.scopedIter' {α : Type} (s : Nat) {P : World → Prop} {body : M α}
    {Q : α → World → Prop} (hb : Triple P body Q) :
    Triple P (AsyncVerif.scopedIter s body) (fun _ _ => True) :=
  Triple.scopedIter s (hb.post (fun _ _ _ => trivial)) (fun _ => Stable.true)

/-! ## The workhorse loop -/

/-- `forEach` with a tame body: adequately fuelled when `fuel` exceeds the script length of `s`;
    any stable side condition `P` is preserved -/
theorem forEach_triple (s : Nat) (body : Val → M Bool) (hb : ∀ x, Tame (body x))
    (P : World → Prop) (hP : Stable P) :
    ∀ fuel, Triple (fun w => slen s w < fuel ∧ P w) (forEach s body fuel) (fun _ w => P w) := by
  intro fuel
  induction fuel with
  | zero => intro w hw; exact absurd hw.1 (Nat.not_lt_zero _)
  | succ n ih =>
    unfold forEach
    refine Triple.bind_pull s (P' := fun w => slen s w < n ∧ P w)
      ((Stable.slen_lt s (n+1)).and hP) ?_ ?_ ?_
    · intro w w' hw hg hlt
      exact ⟨by have := hw.1; omega, hP w w' hg hw.2⟩
    · exact Triple.pure _ (fun w hw => hw.2)
    · intro x
      refine Triple.bind_tame (hb x) ((Stable.slen_lt s n).and hP) ?_
      intro b
      cases b with
      | true => simpa using ih
      | false => simpa using Triple.pure _ (fun w hw => hw.2)

/-- Deliverable 1, in the form of the task statement: a body that never reports `.outOfFuel`
    and does not make the script of `s` longer; `fuel > script length` is enough (and `fuel =
    script length` is not: the last pull, which finds the source exhausted, needs one unit). -/
theorem forEach_fuel_adequate (s : Nat) (body : Val → M Bool)
    (hf : ∀ x, Fueled (body x)) (hm : ∀ x, ScriptMono s (body x)) :
    ∀ fuel w, slen s w < fuel → (forEach s body fuel w).1 ≠ .error .outOfFuel := by
  intro fuel
  induction fuel with
  | zero => intro w hw; exact absurd hw (Nat.not_lt_zero _)
  | succ n ih =>
    intro w hw
    unfold forEach
    simp only [bind_apply]
    obtain ⟨h1, _, h3⟩ := pull_spec s w
    rcases hp : pull s w with ⟨r, w1⟩
    rw [hp] at h1 h3
    cases r with
    | error e => simpa using h1
    | ok o =>
      cases o with
      | none => simp [pure_apply]
      | some x =>
        have hlt : slen s w1 < n := by have := h3 x rfl; simp only at this; omega
        have hb1 := hf x w1
        have hb2 := hm x w1
        rcases hbx : body x w1 with ⟨rb, w2⟩
        rw [hbx] at hb1 hb2
        simp only [bind_apply, hbx]
        cases rb with
        | error e => simpa using hb1
        | ok b =>
          cases b with
          | true => simpa using ih w2 (Nat.lt_of_le_of_lt hb2 hlt)
          | false => simp [pure_apply]

/-- the same for a body built from the tame primitives (`yieldV`, `call`, `test`, `liftExc`,
    `pure`, and binds of such — see the `Tame.*` lemmas and the `tame` tactic) -/
theorem forEach_fuel_adequate_of_tame (s : Nat) (body : Val → M Bool) (hb : ∀ x, Tame (body x)) :
    ∀ fuel w, slen s w < fuel → (forEach s body fuel w).1 ≠ .error .outOfFuel :=
  forEach_fuel_adequate s body (fun x => (hb x).fueled) (fun x => (hb x).scriptMono s)

/-- the constant is tight: with `fuel = script length` an all-items source with an accepting
    consumer runs out of fuel (here: one item, fuel 1) -/
example : (forEach 0 (fun _ => pure true) 1
    { srcs := fun _ => { kind := .agen, script := [.item .none] }, fns := fun _ _ _ => .ok .none,
      calls := fun _ => 0, cons := .run 0 .exhaust, vis := [], rel := [] }).1 = .error .outOfFuel := rfl

/-! ## Single-source loops -/

/-- the fuel that is always enough for a tool reading one source: one unit per scripted reply,
    plus one for the pull that finds the source finished -/
def fuelBound1 (s : Nat) (w : World) : Nat := (w.srcs s).script.length + 1

theorem fuelBound1_lt {s fuel : Nat} {w : World} (h : fuel ≥ fuelBound1 s w) : slen s w < fuel := by
  unfold fuelBound1 at h; unfold slen; omega

/-- loop step for the plain invariant `slen s w < fuel` -/
theorem Triple.bind_pull_lt {β : Type} (s n : Nat) {f : Option Val → M β} {R : β → World → Prop}
    (hnone : Triple (fun w => slen s w < n + 1) (f none) R)
    (hsome : ∀ x, Triple (fun w => slen s w < n) (f (some x)) R) :
    Triple (fun w => slen s w < n + 1) (pull s >>= f) R :=
  Triple.bind_pull s (Stable.slen_lt s (n+1)) (fun w w' hw hg hlt => by
    have := hg s; have hw' : slen s w < n + 1 := hw; show slen s w' < n; omega) hnone hsome

theorem Triple.zero_fuel {α : Type} (s : Nat) (m : M α) (Q : α → World → Prop) :
    Triple (fun w => slen s w < 0) m Q := fun _ hw => absurd hw (Nat.not_lt_zero _)

theorem Triple.trivial_post {α : Type} {P : World → Prop} {m : M α} (h : Fueled m) :
    Triple P m (fun _ _ => True) := fun w _ => ⟨h w, fun _ _ => trivial⟩

theorem Triple.ite {α : Type} {P : World → Prop} {c : Prop} [Decidable c] {a b : M α}
    {Q : α → World → Prop} (ha : Triple P a Q) (hb : Triple P b Q) :
    Triple P (if c then a else b) Q := by
  split <;> assumption

/-- a world-independent fact in the precondition can be used as a hypothesis -/
theorem Triple.pure_pre {α : Type} {C : Prop} {P : World → Prop} {m : M α} {Q : α → World → Prop}
    (h : C → Triple P m Q) : Triple (fun w => C ∧ P w) m Q := fun w hw => h hw.1 w hw.2

/-- one tame step under the invariant `slen s w < n` -/
macro "tstep" : tactic =>
  `(tactic| (with_reducible refine Triple.bind_tame (by tame) (Stable.slen_lt _ _) ?_; intro _; try dsimp only))

/-- finish with a `pure` -/
macro "tpure" : tactic => `(tactic| exact Triple.pure _ (fun _ _ => trivial))

theorem filterLoop_triple (fn : Option Nat) (neg : Bool) (s fuel : Nat) :
    Triple (fun w => slen s w < fuel) (Std.filterLoop fn neg s fuel) (fun _ _ => True) := by
  unfold Std.filterLoop
  refine ((forEach_triple s _ ?_ (fun _ => True) Stable.true fuel).pre (fun w hw => ⟨hw, trivial⟩))
  intro x; tame

theorem takewhileLoop_triple (f s fuel : Nat) :
    Triple (fun w => slen s w < fuel) (Std.takewhileLoop f s fuel) (fun _ _ => True) := by
  unfold Std.takewhileLoop
  refine ((forEach_triple s _ ?_ (fun _ => True) Stable.true fuel).pre (fun w hw => ⟨hw, trivial⟩))
  intro x; tame

theorem starmapLoop_triple (f s fuel : Nat) :
    Triple (fun w => slen s w < fuel) (Std.starmapLoop f s fuel) (fun _ _ => True) := by
  unfold Std.starmapLoop
  refine ((forEach_triple s _ ?_ (fun _ => True) Stable.true fuel).pre (fun w hw => ⟨hw, trivial⟩))
  intro x; tame

theorem enumerateLoop_triple (s : Nat) : ∀ fuel (c : Int),
    Triple (fun w => slen s w < fuel) (Std.enumerateLoop s c fuel) (fun _ _ => True) := by
  intro fuel
  induction fuel with
  | zero => intro c; exact Triple.zero_fuel s _ _
  | succ n ih =>
    intro c
    unfold Std.enumerateLoop
    refine Triple.bind_pull_lt s n ?_ ?_
    · tpure
    · intro x
      tstep
      exact ih _

theorem accLoop_triple (fn : Option Nat) (s : Nat) : ∀ fuel (t : Val),
    Triple (fun w => slen s w < fuel) (Std.accLoop fn s t fuel) (fun _ _ => True) := by
  intro fuel
  induction fuel with
  | zero => intro t; exact Triple.zero_fuel s _ _
  | succ n ih =>
    intro t
    unfold Std.accLoop
    refine Triple.bind_pull_lt s n ?_ ?_
    · tpure
    · intro x
      tstep; tstep
      exact ih _

theorem accumulate_triple (fn : Option Nat) (initial : Option Val) (s fuel : Nat) :
    Triple (fun w => slen s w < fuel) (Std.accumulate fn initial s fuel) (fun _ _ => True) := by
  unfold Std.accumulate
  cases initial with
  | some v =>
    dsimp only
    tstep; tstep
    exact accLoop_triple fn s fuel _
  | none =>
    dsimp only
    tstep; tstep
    exact accLoop_triple fn s fuel _

theorem pairwiseLoop_triple (s : Nat) : ∀ fuel (old : Val),
    Triple (fun w => slen s w < fuel) (Std.pairwiseLoop s old fuel) (fun _ _ => True) := by
  intro fuel
  induction fuel with
  | zero => intro t; exact Triple.zero_fuel s _ _
  | succ n ih =>
    intro t
    unfold Std.pairwiseLoop
    refine Triple.bind_pull_lt s n ?_ ?_
    · tpure
    · intro x
      tstep
      exact ih _

theorem pairwise_triple (s fuel : Nat) :
    Triple (fun w => slen s w < fuel) (Std.pairwise s fuel) (fun _ _ => True) := by
  unfold Std.pairwise
  refine Triple.bind_tame (Tame.pull s) (Stable.slen_lt _ _) ?_
  intro o
  cases o with
  | none => tpure
  | some old => exact pairwiseLoop_triple s fuel old

theorem Tame.collect (s : Nat) : ∀ k acc, Tame (Std.collect s k acc) := by
  intro k
  induction k with
  | zero => intro acc; unfold Std.collect; exact Tame.pure _
  | succ k ih =>
    intro acc
    unfold Std.collect
    refine Tame.bind (Tame.pull s) (fun o => ?_)
    cases o with
    | none => exact Tame.pure _
    | some x => exact ih _

/-- a full batch of `k ≥ 1` items costs the source at least one script entry -/
theorem collect_triple (s n : Nat) : ∀ k acc,
    Triple (fun w => slen s w < n + 1) (Std.collect s k acc)
      (fun r w => if r.2 = true ∧ 1 ≤ k then slen s w < n else True) := by
  intro k
  cases k with
  | zero => intro acc; unfold Std.collect; exact Triple.pure _ (fun w _ => by simp)
  | succ k =>
    intro acc
    unfold Std.collect
    refine Triple.bind_pull_lt s n ?_ ?_
    · exact Triple.pure _ (fun w _ => by simp)
    · intro x
      refine ((Tame.collect s k _).triple (Stable.slen_lt s n)).post ?_
      intro r w hw
      split
      · exact hw
      · trivial

theorem batchedLoop_triple (k : Nat) (hk : 1 ≤ k) (strict : Bool) (s : Nat) : ∀ fuel,
    Triple (fun w => slen s w < fuel) (Std.batchedLoop k strict s fuel) (fun _ _ => True) := by
  intro fuel
  induction fuel with
  | zero => exact Triple.zero_fuel s _ _
  | succ n ih =>
    unfold Std.batchedLoop
    refine Triple.bind (collect_triple s n k []) ?_
    rintro ⟨batch, full⟩
    cases full with
    | true =>
      refine Triple.pre (P := fun w => slen s w < n) ?_ (fun w hw => by simpa [hk] using hw)
      simp only [if_true]
      tstep
      exact ih
    | false =>
      refine Triple.trivial_post (Tame.fueled ?_)
      simp only [Bool.false_eq_true, if_false]
      tame

/-- `dropPhase` hands the remaining fuel on; it is still adequate for the second loop -/
theorem dropPhase_triple (f s : Nat) : ∀ fuel,
    Triple (fun w => slen s w < fuel) (Impl.dropPhase f s fuel)
      (fun o w => match o with | some r => slen s w < r | none => True) := by
  intro fuel
  induction fuel with
  | zero => exact Triple.zero_fuel s _ _
  | succ n ih =>
    unfold Impl.dropPhase
    refine Triple.bind_pull_lt s n ?_ ?_
    · exact Triple.pure _ (fun _ _ => trivial)
    · intro x
      tstep
      split
      · exact ih
      · tstep
        exact Triple.pure _ (fun w hw => hw)

theorem idxLoop_triple (s step : Nat) (lim : Option Nat) : ∀ fuel idx,
    Triple (fun w => slen s w < fuel) (Impl.idxLoop s step lim idx fuel) (fun _ _ => True) := by
  intro fuel
  induction fuel with
  | zero => intro idx; exact Triple.zero_fuel s _ _
  | succ n ih =>
    intro idx
    unfold Impl.idxLoop
    refine Triple.bind_pull_lt s n ?_ ?_
    · tpure
    · intro x
      dsimp only
      refine Triple.ite ?_ (Triple.ite ?_ (ih _))
      · tstep
        exact Triple.ite (Triple.pure _ (fun _ _ => trivial)) (ih _)
      · tpure

theorem Tame.skipTo (s : Nat) : ∀ k cnt, Tame (Std.skipTo s k cnt) := by
  intro k
  induction k with
  | zero => intro cnt; unfold Std.skipTo; exact Tame.pure _
  | succ k ih =>
    intro cnt
    unfold Std.skipTo
    refine Tame.bind (Tame.pull s) (fun o => ?_)
    cases o with
    | none => exact Tame.pure _
    | some x => exact ih _

theorem allLoop_triple (s : Nat) : ∀ fuel,
    Triple (fun w => slen s w < fuel) (Std.allLoop s fuel) (fun _ _ => True) := by
  intro fuel
  induction fuel with
  | zero => exact Triple.zero_fuel s _ _
  | succ n ih =>
    unfold Std.allLoop
    refine Triple.bind_pull_lt s n ?_ ?_
    · tpure
    · intro x
      dsimp only
      split
      · exact ih
      · tpure

theorem anyLoop_triple (s : Nat) : ∀ fuel,
    Triple (fun w => slen s w < fuel) (Std.anyLoop s fuel) (fun _ _ => True) := by
  intro fuel
  induction fuel with
  | zero => exact Triple.zero_fuel s _ _
  | succ n ih =>
    unfold Std.anyLoop
    refine Triple.bind_pull_lt s n ?_ ?_
    · tpure
    · intro x
      dsimp only
      split
      · tpure
      · exact ih

theorem sumLoop_triple (s : Nat) : ∀ fuel (t : Val),
    Triple (fun w => slen s w < fuel) (Std.sumLoop s t fuel) (fun _ _ => True) := by
  intro fuel
  induction fuel with
  | zero => intro t; exact Triple.zero_fuel s _ _
  | succ n ih =>
    intro t
    unfold Std.sumLoop
    refine Triple.bind_pull_lt s n ?_ ?_
    · tpure
    · intro x
      tstep
      exact ih _

theorem mmLoop_triple (fn : Option Nat) (isMax : Bool) (s : Nat) : ∀ fuel (best bk : Val),
    Triple (fun w => slen s w < fuel) (Std.mmLoop fn isMax s best bk fuel) (fun _ _ => True) := by
  intro fuel
  induction fuel with
  | zero => intro b k; exact Triple.zero_fuel s _ _
  | succ n ih =>
    intro b k
    unfold Std.mmLoop
    refine Triple.bind_pull_lt s n ?_ ?_
    · tpure
    · intro x
      tstep; tstep
      split
      · exact ih _ _
      · exact ih _ _

theorem minmax_triple (fn : Option Nat) (isMax : Bool) (d : Option Val) (s fuel : Nat) :
    Triple (fun w => slen s w < fuel) (Std.minmax fn isMax d s fuel) (fun _ _ => True) := by
  unfold Std.minmax
  refine Triple.bind_tame (Tame.pull s) (Stable.slen_lt _ _) ?_
  intro o
  cases o with
  | none =>
    refine Triple.trivial_post (Tame.fueled ?_)
    tame
  | some x =>
    tstep
    exact mmLoop_triple fn isMax s fuel _ _

theorem reduceLoop_triple (f s : Nat) : ∀ fuel (acc : Val),
    Triple (fun w => slen s w < fuel) (Std.reduceLoop f s acc fuel) (fun _ _ => True) := by
  intro fuel
  induction fuel with
  | zero => intro t; exact Triple.zero_fuel s _ _
  | succ n ih =>
    intro t
    unfold Std.reduceLoop
    refine Triple.bind_pull_lt s n ?_ ?_
    · tpure
    · intro x
      tstep
      exact ih _

theorem reduce_triple (f : Nat) (ini : Option Val) (s fuel : Nat) :
    Triple (fun w => slen s w < fuel) (Std.reduce f ini s fuel) (fun _ _ => True) := by
  unfold Std.reduce
  cases ini with
  | some v =>
    dsimp only
    tstep
    exact reduceLoop_triple f s fuel _
  | none =>
    dsimp only
    tstep
    exact reduceLoop_triple f s fuel _

theorem collectAll_triple (s : Nat) : ∀ fuel (acc : List Val),
    Triple (fun w => slen s w < fuel) (Std.collectAll s acc fuel) (fun _ _ => True) := by
  intro fuel
  induction fuel with
  | zero => intro t; exact Triple.zero_fuel s _ _
  | succ n ih =>
    intro t
    unfold Std.collectAll
    refine Triple.bind_pull_lt s n ?_ ?_
    · tpure
    · intro x
      exact ih _

theorem collectKeyed_triple (fn : Option Nat) (s : Nat) : ∀ fuel (acc : List (Val × Val)),
    Triple (fun w => slen s w < fuel) (Std.collectKeyed fn s acc fuel) (fun _ _ => True) := by
  intro fuel
  induction fuel with
  | zero => intro t; exact Triple.zero_fuel s _ _
  | succ n ih =>
    intro t
    unfold Std.collectKeyed
    refine Triple.bind_pull_lt s n ?_ ?_
    · tpure
    · intro x
      tstep
      exact ih _

/-! ## Single-source tools: `fuel ≥ fuelBound1 s w` is always enough -/

theorem scoped_adequate {α : Type} {s fuel : Nat} {w : World} {body : M α} {Q : α → World → Prop}
    (ht : Triple (fun w => slen s w < fuel) body Q) (h : fuel ≥ fuelBound1 s w) :
    (scopedIter s body w).1 ≠ .error .outOfFuel :=
  (Triple.scopedIter' s ht).fueled (fuelBound1_lt h)

theorem filter_fuel_adequate (fn : Option Nat) (s : Nat) (w : World) :
    ∀ fuel, fuel ≥ fuelBound1 s w → (Impl.filter fn s fuel w).1 ≠ .error .outOfFuel :=
  fun fuel h => scoped_adequate (filterLoop_triple fn false s fuel) h

theorem filterfalse_fuel_adequate (fn : Option Nat) (s : Nat) (w : World) :
    ∀ fuel, fuel ≥ fuelBound1 s w → (Impl.filterfalse fn s fuel w).1 ≠ .error .outOfFuel :=
  fun fuel h => scoped_adequate (filterLoop_triple fn true s fuel) h

theorem enumerate_fuel_adequate (s : Nat) (start : Int) (w : World) :
    ∀ fuel, fuel ≥ fuelBound1 s w → (Impl.enumerate s start fuel w).1 ≠ .error .outOfFuel :=
  fun fuel h => scoped_adequate (enumerateLoop_triple s fuel start) h

theorem takewhile_fuel_adequate (f s : Nat) (w : World) :
    ∀ fuel, fuel ≥ fuelBound1 s w → (Impl.takewhile f s fuel w).1 ≠ .error .outOfFuel :=
  fun fuel h => scoped_adequate (takewhileLoop_triple f s fuel) h

theorem starmap_fuel_adequate (f s : Nat) (w : World) :
    ∀ fuel, fuel ≥ fuelBound1 s w → (Impl.starmap f s fuel w).1 ≠ .error .outOfFuel :=
  fun fuel h => scoped_adequate (starmapLoop_triple f s fuel) h

theorem accumulate_fuel_adequate (fn : Option Nat) (initial : Option Val) (s : Nat) (w : World) :
    ∀ fuel, fuel ≥ fuelBound1 s w →
      (Impl.accumulate fn initial s fuel w).1 ≠ .error .outOfFuel :=
  fun fuel h => scoped_adequate (accumulate_triple fn initial s fuel) h

theorem pairwise_fuel_adequate (s : Nat) (w : World) :
    ∀ fuel, fuel ≥ fuelBound1 s w → (Impl.pairwise s fuel w).1 ≠ .error .outOfFuel :=
  fun fuel h => scoped_adequate (pairwise_triple s fuel) h

/-- also for invalid `n < 1`: the `ValueError` is raised before any loop starts -/
theorem batched_fuel_adequate (n : Nat) (strict : Bool) (s : Nat) (w : World) :
    ∀ fuel, fuel ≥ fuelBound1 s w → (Impl.batched n strict s fuel w).1 ≠ .error .outOfFuel := by
  intro fuel h
  unfold Impl.batched
  split
  · simp [raise]
  · exact scoped_adequate (batchedLoop_triple n (by omega) strict s fuel) h

theorem dropwhile_fuel_adequate (f s : Nat) (w : World) :
    ∀ fuel, fuel ≥ fuelBound1 s w → (Impl.dropwhile f s fuel w).1 ≠ .error .outOfFuel := by
  intro fuel h
  unfold Impl.dropwhile
  refine scoped_adequate (Q := fun _ _ => True) ?_ h
  refine Triple.bind (dropPhase_triple f s fuel) ?_
  intro o
  cases o with
  | none => tpure
  | some r =>
    refine ((forEach_triple s _ ?_ (fun _ => True) Stable.true r).pre (fun w hw => ⟨hw, trivial⟩))
    intro x; tame

theorem islice_fuel_adequate (s start : Nat) (stop : Option Nat) (step : Nat) (w : World) :
    ∀ fuel, fuel ≥ fuelBound1 s w →
      (Impl.islice s start stop step fuel w).1 ≠ .error .outOfFuel := by
  intro fuel h
  unfold Impl.islice
  refine scoped_adequate (Q := fun _ _ => True) ?_ h
  have hjp : ∀ ok : Bool, Triple (fun w => slen s w < fuel)
      (if (!ok) = true then pure ()
       else match stop with
        | none => Impl.idxLoop s step none 0 fuel
        | some st => if st ≤ start then pure () else Impl.idxLoop s step (some (st - start - 1)) 0 fuel)
      (fun _ _ => True) := by
    intro ok
    refine Triple.ite ?_ ?_
    · tpure
    · cases stop with
      | none => exact idxLoop_triple s step none fuel 0
      | some st =>
        dsimp only
        exact Triple.ite (Triple.pure _ (fun _ _ => trivial)) (idxLoop_triple s step _ fuel 0)
  dsimp only
  refine Triple.ite ?_ ?_
  · refine Triple.bind_tame (Tame.bind (Tame.skipTo s _ _) (fun _ => Tame.pure _)) (Stable.slen_lt _ _) ?_
    exact hjp
  · refine Triple.bind_tame (Tame.pure _) (Stable.slen_lt _ _) ?_
    exact hjp

theorem all_fuel_adequate (s : Nat) (w : World) :
    ∀ fuel, fuel ≥ fuelBound1 s w → (Impl.all s fuel w).1 ≠ .error .outOfFuel :=
  fun fuel h => scoped_adequate (allLoop_triple s fuel) h

theorem any_fuel_adequate (s : Nat) (w : World) :
    ∀ fuel, fuel ≥ fuelBound1 s w → (Impl.any s fuel w).1 ≠ .error .outOfFuel :=
  fun fuel h => scoped_adequate (anyLoop_triple s fuel) h

theorem sum_fuel_adequate (start : Option Val) (s : Nat) (w : World) :
    ∀ fuel, fuel ≥ fuelBound1 s w → (Impl.sum start s fuel w).1 ≠ .error .outOfFuel :=
  fun fuel h => scoped_adequate (sumLoop_triple s fuel _) h

theorem minmax_fuel_adequate (fn : Option Nat) (isMax : Bool) (d : Option Val) (s : Nat) (w : World) :
    ∀ fuel, fuel ≥ fuelBound1 s w → (Impl.minmax fn isMax d s fuel w).1 ≠ .error .outOfFuel :=
  fun fuel h => scoped_adequate (minmax_triple fn isMax d s fuel) h

theorem reduce_fuel_adequate (f : Nat) (ini : Option Val) (s : Nat) (w : World) :
    ∀ fuel, fuel ≥ fuelBound1 s w → (Impl.reduce f ini s fuel w).1 ≠ .error .outOfFuel :=
  fun fuel h => scoped_adequate (reduce_triple f ini s fuel) h

theorem list_fuel_adequate (s : Nat) (w : World) :
    ∀ fuel, fuel ≥ fuelBound1 s w → (Impl.list s fuel w).1 ≠ .error .outOfFuel := by
  intro fuel h
  unfold Impl.list
  refine scoped_adequate (Q := fun _ _ => True) ?_ h
  exact Triple.bind (collectAll_triple s fuel []) (fun _ => Triple.pure _ (fun _ _ => trivial))

theorem tuple_fuel_adequate (s : Nat) (w : World) :
    ∀ fuel, fuel ≥ fuelBound1 s w → (Impl.tuple s fuel w).1 ≠ .error .outOfFuel := by
  intro fuel h
  unfold Impl.tuple
  refine scoped_adequate (Q := fun _ _ => True) ?_ h
  exact Triple.bind (collectAll_triple s fuel []) (fun _ => Triple.pure _ (fun _ _ => trivial))

theorem sorted_fuel_adequate (fn : Option Nat) (reverse : Bool) (s : Nat) (w : World) :
    ∀ fuel, fuel ≥ fuelBound1 s w → (Impl.sorted fn reverse s fuel w).1 ≠ .error .outOfFuel := by
  intro fuel h
  unfold Impl.sorted
  refine Triple.fueled (P := fun w => slen s w < fuel) (Q := fun _ _ => True) ?_ (fuelBound1_lt h)
  refine Triple.bind (Triple.scopedIter' s (collectKeyed_triple fn s fuel [])) ?_
  intro keyed
  refine Triple.trivial_post (Tame.fueled ?_)
  tame

theorem Tame.nbFirst (fn : Option Nat) (s : Nat) : ∀ k acc, Tame (Std.nbFirst fn s k acc) := by
  intro k
  induction k with
  | zero => intro acc; unfold Std.nbFirst; exact Tame.pure _
  | succ k ih =>
    intro acc
    unfold Std.nbFirst
    refine Tame.bind (Tame.pull s) (fun o => ?_)
    cases o with
    | none => exact Tame.pure _
    | some x => exact Tame.bind (Tame.keyOf fn x) (fun _ => ih _)

theorem nbScan_triple (c : Sel.Cfg) (fn : Option Nat) (s : Nat) : ∀ fuel (st : List Sel.VE × Int),
    Triple (fun w => slen s w < fuel) (Std.nbScan c fn s st fuel) (fun _ _ => True) := by
  intro fuel
  induction fuel with
  | zero => intro t; exact Triple.zero_fuel s _ _
  | succ n ih =>
    intro t
    unfold Std.nbScan
    refine Triple.bind_pull_lt s n ?_ ?_
    · tpure
    · intro x
      tstep
      refine Triple.bind_tame (Tame.liftExc _ (Sel.acceptV_ne_oof _ _ _ _)) (Stable.slen_lt _ _) ?_
      intro st'
      exact ih _

theorem nBestAlgo_triple (c : Sel.Cfg) (n : Nat) (fn : Option Nat) (s fuel : Nat) :
    Triple (fun w => slen s w < fuel) (Std.nBestAlgo c n fn s fuel) (fun _ _ => True) := by
  unfold Std.nBestAlgo
  refine Triple.bind_tame (Tame.nbFirst fn s n []) (Stable.slen_lt _ _) ?_
  intro first
  refine Triple.ite ?_ ?_
  · tpure
  · refine Triple.bind_tame (Tame.liftExc _ (Sel.heapifyV_ne_oof _ _)) (Stable.slen_lt _ _) ?_
    intro h0
    refine Triple.bind (nbScan_triple c fn s fuel _) ?_
    intro st
    tpure

theorem nBest_fuel_adequate (largest : Bool) (n : Nat) (fn : Option Nat) (s : Nat) (w : World) :
    ∀ fuel, fuel ≥ fuelBound1 s w → (Impl.nBest largest n fn s fuel w).1 ≠ .error .outOfFuel := by
  intro fuel h
  unfold Impl.nBest
  exact scoped_adequate (nBestAlgo_triple _ n fn s fuel) h

/-! ## Several sources: the measure is the sum of the script lengths -/

/-- total remaining script length over a list of sources -/
def sumLen : List Nat → World → Nat
  | [], _ => 0
  | s :: rest, w => slen s w + sumLen rest w

/-- the fuel that is always enough for a tool reading the sources `srcs` -/
def fuelBoundN (srcs : List Nat) (w : World) : Nat := sumLen srcs w + 1

theorem sumLen_mono {w w' : World} (hg : NoGrow w w') : ∀ l, sumLen l w' ≤ sumLen l w
  | [] => Nat.le_refl _
  | s :: rest => Nat.add_le_add (hg s) (sumLen_mono hg rest)

theorem sumLen_dec {w w' : World} (hg : NoGrow w w') {s : Nat} (hlt : slen s w' < slen s w) :
    ∀ l, s ∈ l → sumLen l w' < sumLen l w
  | [], h => by simp at h
  | t :: rest, h => by
    rcases List.mem_cons.mp h with h | h
    · subst h
      exact Nat.add_lt_add_of_lt_of_le hlt (sumLen_mono hg rest)
    · exact Nat.add_lt_add_of_le_of_lt (hg t) (sumLen_dec hg hlt rest h)

theorem slen_le_sumLen (w : World) {s : Nat} : ∀ l, s ∈ l → slen s w ≤ sumLen l w
  | [], h => by simp at h
  | t :: rest, h => by
    rcases List.mem_cons.mp h with h | h
    · subst h; exact Nat.le_add_right _ _
    · exact Nat.le_trans (slen_le_sumLen w rest h) (Nat.le_add_left _ _)

theorem Stable.sumLen_lt (l : List Nat) (n : Nat) : Stable (fun w => sumLen l w < n) :=
  fun _ _ hg h => Nat.lt_of_le_of_lt (sumLen_mono hg l) h

theorem fuelBoundN_lt {srcs : List Nat} {fuel : Nat} {w : World} (h : fuel ≥ fuelBoundN srcs w) :
    sumLen srcs w < fuel := by
  unfold fuelBoundN at h; omega

theorem Triple.tryFinally' {α : Type} {P : World → Prop} {body : M α} {fin : M Unit}
    {Q : α → World → Prop} (hb : Triple P body Q) (hf : Tame fin) :
    Triple P (AsyncVerif.tryFinally body fin) (fun _ _ => True) :=
  Triple.tryFinally (hb.post (fun _ _ _ => trivial)) hf (fun _ => Stable.true)

/-! ### `zip`, `map`, `compress`: the first source is pulled in every row -/

theorem Tame.zipRow : ∀ (l : List Nat) (acc : List Val), Tame (Std.zipRow l acc)
  | [], acc => by unfold Std.zipRow; exact Tame.pure _
  | s :: rest, acc => by
    unfold Std.zipRow
    refine Tame.bind (Tame.pull s) (fun o => ?_)
    cases o with
    | none => exact Tame.pure _
    | some x => exact Tame.zipRow rest _

theorem zipRow_triple (s : Nat) (rest : List Nat) (acc : List Val) (n : Nat) :
    Triple (fun w => slen s w < n + 1) (Std.zipRow (s :: rest) acc)
      (fun o w => match o with | none => True | some _ => slen s w < n) := by
  unfold Std.zipRow
  refine Triple.bind_pull_lt s n ?_ ?_
  · exact Triple.pure _ (fun _ _ => trivial)
  · intro x
    refine ((Tame.zipRow rest _).triple (Stable.slen_lt s n)).post ?_
    intro o w hw
    cases o <;> first | trivial | exact hw

/-- `zipLoop` over a non-empty list of sources with a tame row handler -/
theorem zipLoop_triple (s : Nat) (rest : List Nat) (k : List Val → M Unit) (hk : ∀ row, Tame (k row)) :
    ∀ fuel, Triple (fun w => slen s w < fuel) (Std.zipLoop (s :: rest) k fuel) (fun _ _ => True) := by
  intro fuel
  induction fuel with
  | zero => exact Triple.zero_fuel s _ _
  | succ n ih =>
    unfold Std.zipLoop
    refine Triple.bind (zipRow_triple s rest [] n) ?_
    intro o
    cases o with
    | none => tpure
    | some row =>
      dsimp only
      refine Triple.bind_tame (hk row) (Stable.slen_lt _ _) ?_
      intro _
      exact ih

theorem compress_fuel_adequate (d sel : Nat) (w : World) :
    ∀ fuel, fuel ≥ fuelBound1 d w → (Impl.compress d sel fuel w).1 ≠ .error .outOfFuel := by
  intro fuel h
  unfold Impl.compress
  refine scoped_adequate (Q := fun _ _ => True) ?_ h
  refine Triple.scopedIter' sel (Triple.tryFinally' (zipLoop_triple d [sel] _ ?_ fuel) (Tame.closeAll _))
  intro row
  tame

theorem head_lt_of_bound {s : Nat} {rest : List Nat} {fuel : Nat} {w : World}
    (h : fuel ≥ fuelBoundN (s :: rest) w) : slen s w < fuel := by
  have := fuelBoundN_lt h
  have := slen_le_sumLen w (s :: rest) (List.mem_cons_self)
  omega

theorem zip_fuel_adequate (srcs : List Nat) (w : World) :
    ∀ fuel, fuel ≥ fuelBoundN srcs w → (Impl.zip srcs fuel w).1 ≠ .error .outOfFuel := by
  intro fuel h
  unfold Impl.zip
  cases srcs with
  | nil => simp [pure_apply]
  | cons s rest =>
    simp only [List.isEmpty_cons, Bool.false_eq_true, if_false]
    refine (Triple.tryFinally' (zipLoop_triple s rest _ ?_ fuel) (Tame.closeAll _)).fueled (head_lt_of_bound h)
    intro row
    tame

theorem map_fuel_adequate (f : Nat) (srcs : List Nat) (w : World) :
    ∀ fuel, fuel ≥ fuelBoundN srcs w → (Impl.map f srcs fuel w).1 ≠ .error .outOfFuel := by
  intro fuel h
  unfold Impl.map
  cases srcs with
  | nil => simp [pure_apply]
  | cons s rest =>
    simp only [List.isEmpty_cons, Bool.false_eq_true, if_false]
    refine (Triple.tryFinally' (zipLoop_triple s rest _ ?_ fuel) (Tame.closeAll _)).fueled (head_lt_of_bound h)
    intro row
    tame

/-! ### strict `zip` -/

theorem Tame.zipRowStrict : ∀ (l : List Nat) (i : Nat) (acc : List Val), Tame (Std.zipRowStrict l i acc)
  | [], i, acc => by unfold Std.zipRowStrict; exact Tame.pure _
  | s :: rest, i, acc => by
    unfold Std.zipRowStrict
    refine Tame.bind (Tame.pull s) (fun o => ?_)
    cases o with
    | none => exact Tame.pure _
    | some x => exact Tame.zipRowStrict rest _ _

theorem Tame.checkRestEmpty : ∀ l : List Nat, Tame (Std.checkRestEmpty l)
  | [] => by unfold Std.checkRestEmpty; exact Tame.pure _
  | s :: rest => by
    unfold Std.checkRestEmpty
    refine Tame.bind (Tame.pull s) (fun o => ?_)
    cases o with
    | none => exact Tame.checkRestEmpty rest
    | some x => exact Tame.raise _ (by simp)

theorem zipRowStrict_triple (s : Nat) (rest : List Nat) (i : Nat) (acc : List Val) (n : Nat) :
    Triple (fun w => slen s w < n + 1) (Std.zipRowStrict (s :: rest) i acc)
      (fun o w => match o with | .error _ => True | .ok _ => slen s w < n) := by
  unfold Std.zipRowStrict
  refine Triple.bind_pull_lt s n ?_ ?_
  · exact Triple.pure _ (fun _ _ => trivial)
  · intro x
    refine ((Tame.zipRowStrict rest _ _).triple (Stable.slen_lt s n)).post ?_
    intro o w hw
    cases o <;> first | trivial | exact hw

theorem zipStrictLoop_triple (s : Nat) (rest : List Nat) :
    ∀ fuel, Triple (fun w => slen s w < fuel) (Std.zipStrictLoop (s :: rest) fuel) (fun _ _ => True) := by
  intro fuel
  induction fuel with
  | zero => exact Triple.zero_fuel s _ _
  | succ n ih =>
    unfold Std.zipStrictLoop
    refine Triple.bind (zipRowStrict_triple s rest 0 [] n) ?_
    intro o
    cases o with
    | ok row =>
      dsimp only
      tstep
      exact ih
    | error i =>
      refine Triple.trivial_post (Tame.fueled ?_)
      cases i with
      | zero => exact Tame.checkRestEmpty _
      | succ j => exact Tame.raise _ (by simp)

theorem zipStrict_fuel_adequate (srcs : List Nat) (w : World) :
    ∀ fuel, fuel ≥ fuelBoundN srcs w → (Impl.zipStrict srcs fuel w).1 ≠ .error .outOfFuel := by
  intro fuel h
  unfold Impl.zipStrict
  cases srcs with
  | nil => simp [pure_apply]
  | cons s rest =>
    simp only [List.isEmpty_cons, Bool.false_eq_true, if_false]
    exact (Triple.tryFinally' (zipStrictLoop_triple s rest fuel) (Tame.closeAll _)).fueled (head_lt_of_bound h)

/-! ### `zip_longest`: needs the invariant "`numactive` = number of sources still marked active" -/

/-- number of sources still marked active -/
def activeCount (st : List (Nat × Bool)) : Nat := st.countP (fun p => p.2)

theorem activeCount_append (a b : List (Nat × Bool)) :
    activeCount (a ++ b) = activeCount a + activeCount b := by
  simp [activeCount, List.countP_append]

/-- one row: with `na` equal to the number of active sources (≥ 1), a row that is produced has
    pulled an item from some active source, so the total script length has dropped -/
theorem longestRow_triple (fillv : Val) (srcs : List Nat) (n : Nat) :
    ∀ (rest : List (Nat × Bool)) (acc : List Val) (done : List (Nat × Bool)) (na : Nat),
      (done ++ rest).map Prod.fst = srcs → na = activeCount done + activeCount rest → 1 ≤ na →
      Triple (fun w => sumLen srcs w < n + 1 ∧ (1 ≤ activeCount done → sumLen srcs w < n))
        (Std.longestRow fillv rest acc done na)
        (fun o w' => match o with
          | none => True
          | some (_, st', na') =>
            st'.map Prod.fst = srcs ∧ na' = activeCount st' ∧ 1 ≤ na' ∧ sumLen srcs w' < n) := by
  intro rest
  induction rest with
  | nil =>
    intro acc done na hmap hna h1
    unfold Std.longestRow
    refine Triple.pure _ ?_
    intro w hw
    simp only [activeCount, List.countP_nil, Nat.add_zero] at hna
    refine ⟨by simpa using hmap, by simpa [activeCount] using hna, h1, hw.2 ?_⟩
    simp only [activeCount]; omega
  | cons p rest ih =>
    intro acc done na hmap hna h1
    obtain ⟨s, b⟩ := p
    have hmap' : ∀ b', (done ++ [(s, b')] ++ rest).map Prod.fst = srcs := by
      intro b'; simpa using hmap
    cases b with
    | false =>
      unfold Std.longestRow
      refine (ih _ (done ++ [(s, false)]) na (hmap' false) ?_ h1).pre ?_
      · simpa [activeCount, List.countP_append, List.countP_cons] using hna
      · intro w hw
        refine ⟨hw.1, fun h => hw.2 ?_⟩
        simpa [activeCount, List.countP_append, List.countP_cons] using h
    | true =>
      have hs : s ∈ srcs := by rw [← hmap]; simp
      have hna' : na = activeCount done + activeCount rest + 1 := by
        simp [activeCount] at hna ⊢; omega
      unfold Std.longestRow
      refine Triple.bind_pull s (P' := fun w => sumLen srcs w < n)
        ((Stable.sumLen_lt srcs (n+1)).and ?_) ?_ ?_ ?_
      · intro w w' hg h hd
        exact Nat.lt_of_le_of_lt (sumLen_mono hg srcs) (h hd)
      · intro w w' hw hg hlt
        have := sumLen_dec hg hlt srcs hs
        have := hw.1
        show sumLen srcs w' < n
        omega
      · -- the source ended
        dsimp only
        split
        · exact Triple.pure _ (fun _ _ => trivial)
        · rename_i hne
          refine (ih _ (done ++ [(s, false)]) (na - 1) (hmap' false) ?_ (by omega)).pre ?_
          · simp [activeCount, List.countP_append] at hna ⊢; omega
          · intro w hw
            refine ⟨hw.1, fun h => hw.2 ?_⟩
            simpa [activeCount, List.countP_append, List.countP_cons] using h
      · intro x
        refine (ih _ (done ++ [(s, true)]) na (hmap' true) ?_ h1).pre ?_
        · simp [activeCount, List.countP_append] at hna ⊢; omega
        · intro w hw
          exact ⟨Nat.lt_succ_of_lt hw, fun _ => hw⟩

theorem zipLongestLoop_triple (fillv : Val) (srcs : List Nat) :
    ∀ fuel (st : List (Nat × Bool)) (na : Nat),
      st.map Prod.fst = srcs → na = activeCount st → 1 ≤ na →
      Triple (fun w => sumLen srcs w < fuel) (Std.zipLongestLoop fillv st na fuel) (fun _ _ => True) := by
  intro fuel
  induction fuel with
  | zero => intro st na _ _ _ w hw; exact absurd hw (Nat.not_lt_zero _)
  | succ n ih =>
    intro st na hmap hna h1
    unfold Std.zipLongestLoop
    refine Triple.bind ((longestRow_triple fillv srcs n st [] [] na (by simpa using hmap)
      (by simpa [activeCount] using hna) h1).pre ?_) ?_
    · intro w hw
      exact ⟨hw, fun h => by simp [activeCount] at h⟩
    · intro o
      cases o with
      | none => tpure
      | some r =>
        obtain ⟨row, st', na'⟩ := r
        dsimp only
        refine Triple.pure_pre (fun hA => Triple.pure_pre (fun hB => Triple.pure_pre (fun hC => ?_)))
        exact Triple.bind_tame (Tame.yieldV _) (Stable.sumLen_lt srcs n) (fun _ => ih st' na' hA hB hC)

theorem zipLongest_fuel_adequate (fillv : Val) (srcs : List Nat) (w : World) :
    ∀ fuel, fuel ≥ fuelBoundN srcs w → (Impl.zipLongest fillv srcs fuel w).1 ≠ .error .outOfFuel := by
  intro fuel h
  unfold Impl.zipLongest
  split
  · simp [pure_apply]
  · rename_i hne
    have hlen : 1 ≤ srcs.length := by
      cases srcs with
      | nil => simp at hne
      | cons a l => simp
    have hmap : (srcs.map (·, true)).map Prod.fst = srcs := by
      simp [List.map_map, Function.comp_def]
    have hact : srcs.length = activeCount (srcs.map (·, true)) := by
      simp [activeCount, List.countP_map, Function.comp_def]
    exact (Triple.tryFinally' (zipLongestLoop_triple fillv srcs fuel _ _ hmap hact hlen)
      (Tame.closeAll _)).fueled (fuelBoundN_lt h)

/-! ### `chain`: one `forEach` per source, all with the same fuel -/

theorem Stable.forall_slen_lt (l : List Nat) (n : Nat) : Stable (fun w => ∀ s ∈ l, slen s w < n) :=
  fun _ _ hg h s hs => Nat.lt_of_le_of_lt (hg s) (h s hs)

theorem chainIter_triple (fuel : Nat) : ∀ srcs : List Nat,
    Triple (fun w => ∀ s ∈ srcs, slen s w < fuel) (Impl.chainIter srcs fuel) (fun _ _ => True) := by
  intro srcs
  induction srcs with
  | nil => unfold Impl.chainIter; tpure
  | cons s rest ih =>
    unfold Impl.chainIter
    refine Triple.bind (Q := fun _ w => ∀ t ∈ rest, slen t w < fuel) ?_ (fun _ => ih)
    refine Triple.scopedIter s ?_ (fun _ => Stable.forall_slen_lt rest fuel)
    refine (forEach_triple s _ ?_ _ (Stable.forall_slen_lt rest fuel) fuel).pre ?_
    · intro x; tame
    · intro w hw
      exact ⟨hw s List.mem_cons_self, fun t ht => hw t (List.mem_cons_of_mem _ ht)⟩

theorem Tame.closeIfOwned (s : Nat) : Tame (Impl.closeIfOwned s) := by
  intro w
  unfold Impl.closeIfOwned
  split
  · exact Tame.closeSrc s w
  · exact ⟨by simp, NoGrow.refl w⟩

theorem Tame.closeOwned : ∀ l : List Nat, Tame (Impl.closeOwned l)
  | [] => by unfold Impl.closeOwned; exact Tame.pure _
  | s :: rest => by
    unfold Impl.closeOwned
    exact Tame.bind (Tame.closeIfOwned s) (fun _ => Tame.closeOwned rest)

theorem chain_fuel_adequate (srcs : List Nat) (w : World) :
    ∀ fuel, fuel ≥ fuelBoundN srcs w → (Impl.chain srcs fuel w).1 ≠ .error .outOfFuel := by
  intro fuel h
  have hpre : ∀ s ∈ srcs, slen s w < fuel := by
    intro s hs
    have := fuelBoundN_lt h
    have := slen_le_sumLen w srcs hs
    omega
  have hi := (chainIter_triple fuel srcs).fueled hpre
  unfold Impl.chain
  rcases hc : Impl.chainIter srcs fuel w with ⟨r, w1⟩
  rw [hc] at hi
  cases r with
  | ok u => simp
  | error e =>
    cases e <;> try (simp at hi ⊢)
    have ho := (Tame.closeOwned srcs w1).1
    rcases hco : Impl.closeOwned srcs w1 with ⟨r2, w2⟩
    rw [hco] at ho
    cases r2 with
    | ok u => simp
    | error e2 => simpa using ho

/-! ### `merge` -/

theorem popMin_spec (reverse : Bool) : ∀ (heap : List Std.Entry) (e : Std.Entry) (others : List Std.Entry),
    Std.popMin reverse heap = some (e, others) →
      e ∈ heap ∧ (∀ x ∈ others, x ∈ heap) ∧ others.length + 1 = heap.length := by
  intro heap
  induction heap with
  | nil => intro e others h; simp [Std.popMin] at h
  | cons a rest ih =>
    intro e others h
    unfold Std.popMin at h
    rcases hp : Std.popMin reverse rest with _ | ⟨m, os⟩
    · rw [hp] at h
      simp only [Option.some.injEq, Prod.mk.injEq] at h
      obtain ⟨rfl, rfl⟩ := h
      cases rest with
      | nil => simp
      | cons b r => unfold Std.popMin at hp; split at hp <;> (try split at hp) <;> simp at hp
    · rw [hp] at h
      obtain ⟨h1, h2, h3⟩ := ih m os hp
      simp only at h
      split at h
      · simp only [Option.some.injEq, Prod.mk.injEq] at h
        obtain ⟨rfl, rfl⟩ := h
        refine ⟨List.mem_cons_of_mem _ h1, ?_, by simp; omega⟩
        intro x hx
        rcases List.mem_cons.mp hx with hx | hx
        · subst hx; exact List.mem_cons_self
        · exact List.mem_cons_of_mem _ (h2 x hx)
      · simp only [Option.some.injEq, Prod.mk.injEq] at h
        obtain ⟨rfl, rfl⟩ := h
        refine ⟨List.mem_cons_self, ?_, by simp; omega⟩
        intro x hx
        rcases List.mem_cons.mp hx with hx | hx
        · subst hx; exact List.mem_cons_of_mem _ h1
        · exact List.mem_cons_of_mem _ (h2 x hx)

theorem Stable.sumLen_add_le (l : List Nat) (k B : Nat) : Stable (fun w => sumLen l w + k ≤ B) :=
  fun _ _ hg h => Nat.le_trans (Nat.add_le_add_right (sumLen_mono hg l) k) h

theorem Stable.sumLen_add_lt (l : List Nat) (k B : Nat) : Stable (fun w => sumLen l w + k < B) :=
  fun _ _ hg h => Nat.lt_of_le_of_lt (Nat.add_le_add_right (sumLen_mono hg l) k) h

/-- collecting the heads: every head taken costs its source one script entry -/
theorem heads_triple (fn : Option Nat) (srcs : List Nat) (B : Nat) :
    ∀ (l : List Nat) (idx : Nat) (acc : List Std.Entry),
      (∀ s ∈ l, s ∈ srcs) → (∀ e ∈ acc, e.src ∈ srcs) →
      Triple (fun w => sumLen srcs w + acc.length ≤ B) (Std.heads fn l idx acc)
        (fun hs w' => (∀ e ∈ hs, e.src ∈ srcs) ∧ sumLen srcs w' + hs.length ≤ B) := by
  intro l
  induction l with
  | nil =>
    intro idx acc _ hacc
    unfold Std.heads
    exact Triple.pure _ (fun w hw => ⟨hacc, hw⟩)
  | cons s rest ih =>
    intro idx acc hl hacc
    have hs : s ∈ srcs := hl s List.mem_cons_self
    have hrest : ∀ t ∈ rest, t ∈ srcs := fun t ht => hl t (List.mem_cons_of_mem _ ht)
    unfold Std.heads
    refine Triple.bind_pull s (P' := fun w => sumLen srcs w + (acc.length + 1) ≤ B)
      (Stable.sumLen_add_le srcs _ B) ?_ ?_ ?_
    · intro w w' hw hg hlt
      have := sumLen_dec hg hlt srcs hs
      show sumLen srcs w' + (acc.length + 1) ≤ B
      omega
    · exact ih _ acc hrest hacc
    · intro x
      dsimp only
      refine Triple.bind_tame (Tame.keyOf fn x) (Stable.sumLen_add_le srcs _ B) ?_
      intro k
      refine (ih _ _ hrest ?_).pre ?_
      · intro e he
        rcases List.mem_append.mp he with he | he
        · exact hacc e he
        · simp only [List.mem_singleton] at he; subst he; exact hs
      · intro w hw
        simpa using hw

/-- the merging loop: every round either takes an item (total script length drops) or retires an
    input (the heap shrinks) -/
theorem mergeLoop_triple (fn : Option Nat) (reverse : Bool) (srcs : List Nat) :
    ∀ fuel (heap : List Std.Entry), (∀ e ∈ heap, e.src ∈ srcs) →
      Triple (fun w => sumLen srcs w + heap.length < fuel) (Std.mergeLoop fn reverse heap fuel)
        (fun _ _ => True) := by
  intro fuel
  induction fuel with
  | zero => intro heap _ w hw; exact absurd hw (Nat.not_lt_zero _)
  | succ n ih =>
    intro heap hheap
    match heap, hheap with
    | [], _ => unfold Std.mergeLoop; tpure
    | [e], hheap =>
      unfold Std.mergeLoop
      have he : e.src ∈ srcs := hheap e List.mem_cons_self
      refine Triple.bind_tame (Tame.yieldV _) (Stable.sumLen_add_lt srcs _ _) ?_
      intro _
      refine (forEach_triple e.src _ ?_ (fun _ => True) Stable.true n).pre ?_
      · intro x; tame
      · intro w hw
        have := slen_le_sumLen w srcs he
        simp only [List.length_cons, List.length_nil] at hw
        exact ⟨by omega, trivial⟩
    | a :: b :: rest, hheap =>
      unfold Std.mergeLoop
      rcases hp : Std.popMin reverse (a :: b :: rest) with _ | ⟨e, others⟩
      · tpure
      · obtain ⟨hmem, hoth, hlen⟩ := popMin_spec reverse _ e others hp
        have he : e.src ∈ srcs := hheap e hmem
        have hothers : ∀ x ∈ others, x.src ∈ srcs := fun x hx => hheap x (hoth x hx)
        dsimp only
        refine Triple.bind_tame (Tame.yieldV _) (Stable.sumLen_add_lt srcs _ _) ?_
        intro _
        refine Triple.bind_pull e.src (P' := fun w => sumLen srcs w + (a :: b :: rest).length < n)
          (Stable.sumLen_add_lt srcs _ _) ?_ ?_ ?_
        · intro w w' hw hg hlt
          have := sumLen_dec hg hlt srcs he
          have hw' : sumLen srcs w + (a :: b :: rest).length < n + 1 := hw
          show sumLen srcs w' + (a :: b :: rest).length < n
          omega
        · refine (ih others hothers).pre ?_
          intro w hw
          have hw' : sumLen srcs w + (a :: b :: rest).length < n + 1 := hw
          show sumLen srcs w + others.length < n
          omega
        · intro x
          dsimp only
          refine Triple.bind_tame (Tame.keyOf fn x) (Stable.sumLen_add_lt srcs _ _) ?_
          intro k
          refine (ih _ ?_).pre ?_
          · intro y hy
            rcases List.mem_cons.mp hy with hy | hy
            · subst hy; exact he
            · exact hothers y hy
          · intro w hw
            have hw' : sumLen srcs w + (a :: b :: rest).length < n := hw
            show sumLen srcs w + (_ :: others).length < n
            simp only [List.length_cons] at hw' hlen ⊢
            omega

theorem merge_fuel_adequate (fn : Option Nat) (reverse : Bool) (srcs : List Nat) (w : World) :
    ∀ fuel, fuel ≥ fuelBoundN srcs w →
      (Impl.merge fn reverse srcs fuel w).1 ≠ .error .outOfFuel := by
  intro fuel h
  have hlt := fuelBoundN_lt h
  unfold Impl.merge Std.merge
  refine (Triple.tryFinally' (P := fun w => sumLen srcs w + ([] : List Std.Entry).length ≤ fuel - 1)
    (Q := fun _ _ => True) ?_ (Tame.closeAll _)).fueled (by simp; omega)
  refine Triple.bind (heads_triple fn srcs (fuel - 1) srcs 0 [] (fun _ h => h) (by simp)) ?_
  intro hs
  refine Triple.pure_pre (fun hmem => ?_)
  refine (mergeLoop_triple fn reverse srcs fuel hs hmem).pre ?_
  intro w' hw'
  show sumLen srcs w' + hs.length < fuel
  omega

/-! ## `cycle`: terminates because the consumer is finite

`cycle` replays its buffer for ever; with an exhausting consumer (`.run n .exhaust`) and a
non-empty input the model genuinely runs out of fuel for every fuel (that is Python's behaviour:
the generator never ends).  For a consumer that closes or throws after finitely many items the
number of `yield`s is bounded, and so is the fuel needed. -/

/-- how many more `yield`s the consumer can be offered (the last one fails); `none` = unbounded -/
def cbudget : Cons → Option Nat
  | .run _ .exhaust => none
  | .run n _ => some (n + 1)
  | .done => some 0

/-- the consumer accepts at most `k` more `yield`s -/
def BudLe (k : Nat) (c : Cons) : Prop := ∃ k', cbudget c = some k' ∧ k' ≤ k

theorem pull_keeps_cons (s : Nat) (w : World) : (pull s w).2.cons = w.cons := by
  unfold pull
  dsimp only
  split
  · split <;> rfl
  · split <;> rfl

theorem closeSrc_keeps_cons (s : Nat) (w : World) : (closeSrc s w).2.cons = w.cons := (closeSrc_quiet s w).2.2

/-- a `yield` that succeeds uses up one unit of the consumer's budget; scripts are untouched -/
theorem yieldV_budget (v : Val) (k : Nat) (s n : Nat) :
    Triple (fun w => slen s w < n ∧ BudLe k w.cons) (yieldV v)
      (fun _ w' => 1 ≤ k ∧ (slen s w' < n ∧ BudLe (k - 1) w'.cons)) := by
  intro w hw
  obtain ⟨hs, k', hk', hle⟩ := hw
  refine ⟨(Tame.yieldV v w).1, ?_⟩
  intro a ha
  have hsl : slen s (yieldV v w).2 < n := Nat.lt_of_le_of_lt ((Tame.yieldV v w).2 s) hs
  have key : 1 ≤ k ∧ BudLe (k - 1) (yieldV v w).2.cons := by
    unfold AsyncVerif.yieldV at ha ⊢
    rcases hc : w.cons with ⟨m, f⟩ | _
    · rw [hc] at hk'
      cases m <;> cases f <;> simp [hc, cbudget, World.pushVis, BudLe] at ha hk' ⊢ <;> omega
    · simp [hc] at ha
  exact ⟨key.1, hsl, key.2⟩

theorem cycleFirst_triple (s k : Nat) : ∀ fuel (buf : List Val),
    Triple (fun w => slen s w < fuel ∧ BudLe k w.cons) (Std.cycleFirst s buf fuel)
      (fun _ w' => BudLe k w'.cons) := by
  intro fuel
  induction fuel with
  | zero => intro buf w hw; exact absurd hw.1 (Nat.not_lt_zero _)
  | succ n ih =>
    intro buf
    unfold Std.cycleFirst
    refine Triple.bind (Q := fun o w' => match o with
      | none => BudLe k w'.cons
      | some _ => slen s w' < n ∧ BudLe k w'.cons) ?_ ?_
    · intro w hw
      obtain ⟨h1, h2, h3⟩ := pull_spec s w
      refine ⟨h1, ?_⟩
      intro o ho
      cases o with
      | none => simpa [pull_keeps_cons] using hw.2
      | some x =>
        refine ⟨?_, by simpa [pull_keeps_cons] using hw.2⟩
        have := h3 x ho
        have := hw.1
        omega
    · intro o
      cases o with
      | none => exact Triple.pure _ (fun _ hw => hw)
      | some x =>
        dsimp only
        refine Triple.bind (yieldV_budget x k s n) ?_
        intro _
        refine (ih _).pre ?_
        rintro w ⟨_, hs, k', hk', hle⟩
        exact ⟨hs, k', hk', by omega⟩

theorem replay_triple (buffer : List Val) : ∀ fuel (pos : List Val) (k : Nat),
    2 * k + 1 + (if pos.isEmpty then 1 else 0) < fuel →
    Triple (fun w => BudLe k w.cons) (Std.replay buffer pos fuel) (fun _ _ => True) := by
  intro fuel
  induction fuel with
  | zero => intro pos k h; omega
  | succ n ih =>
    intro pos k h
    cases pos with
    | nil =>
      unfold Std.replay
      split
      · tpure
      · rename_i hne
        refine ih buffer k ?_
        simp only [List.isEmpty_nil, if_true] at h
        simp only [hne]
        simp only [Bool.false_eq_true, if_false]
        omega
    | cons x rest =>
      unfold Std.replay
      simp only [List.isEmpty_cons, Bool.false_eq_true, if_false] at h
      refine Triple.bind (Q := fun _ w' => 1 ≤ k ∧ BudLe (k - 1) w'.cons) ?_ ?_
      · intro w hw
        have := yieldV_budget x k 0 (slen 0 w + 1) w ⟨Nat.lt_succ_self _, hw⟩
        exact ⟨this.1, fun a ha => ⟨(this.2 a ha).1, (this.2 a ha).2.2⟩⟩
      · intro _
        refine Triple.pure_pre (fun hk => ih rest (k - 1) ?_)
        split <;> omega

/-- `cycle` with a consumer that closes or throws after finitely many items (`cbudget = some k`,
    i.e. `k = steps + 1` for `.run steps fin`, `k = 0` for `.done`) -/
theorem cycle_fuel_adequate (s : Nat) (w : World) (k : Nat) (hk : cbudget w.cons = some k) :
    ∀ fuel, fuel ≥ fuelBound1 s w → fuel ≥ 2 * k + 3 →
      (Impl.cycle s fuel w).1 ≠ .error .outOfFuel := by
  intro fuel h1 h2
  unfold Impl.cycle
  refine Triple.fueled (P := fun w => slen s w < fuel ∧ BudLe k w.cons) (Q := fun _ _ => True) ?_
    ⟨fuelBound1_lt h1, k, hk, Nat.le_refl _⟩
  refine Triple.bind (Q := fun _ w' => BudLe k w'.cons) ?_ ?_
  · refine Triple.tryFinally_gen (cycleFirst_triple s k fuel []) (Tame.closeSrc s).fueled ?_
    intro _ w hw
    rw [closeSrc_keeps_cons]; exact hw
  · intro buf
    exact replay_triple buf fuel [] k (by simp; omega)

end AsyncVerif
