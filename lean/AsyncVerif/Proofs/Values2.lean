import AsyncVerif.Proofs.Values
/-!
# Value lemmas (C01), second part: `cycle` (a consumer that closes) and `merge`
-/
namespace AsyncVerif.V1

/-! ## primitives under a consumer that closes after `k` more items -/

theorem pull_cons' {s : Nat} {x : Val} {xs : List Val} {w : World} (hs : Has (w.srcs s) (x :: xs)) :
    ∃ w', pull s w = (.ok (some x), w') ∧ w'.cons = w.cons ∧ Has (w'.srcs s) xs
      ∧ yields w'.vis = yields w.vis := by
  obtain ⟨h1, h2⟩ := hs
  have hl := h2 (by simp)
  refine ⟨_, by simp [pull, hl, h1]; rfl, ?_, ⟨?_, ?_⟩, ?_⟩
  · simp [World.pushVis, World.setSrc]
  · simp [World.pushVis, World.setSrc]
  · intro _; simp [World.pushVis, World.setSrc, Status.live]
  · simp [World.pushVis, World.setSrc, yields]

theorem pull_nil' {s : Nat} {w : World} (hs : Has (w.srcs s) []) :
    ∃ w', pull s w = (.ok none, w') ∧ w'.cons = w.cons ∧ yields w'.vis = yields w.vis := by
  obtain ⟨h1, _⟩ := hs
  simp only [List.map_nil] at h1
  unfold pull
  by_cases hl : (w.srcs s).status.live
  · exact ⟨_, by simp [hl, h1]; rfl, by simp [World.pushVis, World.setSrc],
      by simp [World.pushVis, World.setSrc, yields]⟩
  · by_cases hv : (w.srcs s).kind.repollVisible
    · exact ⟨_, by simp [hl, hv]; rfl, by simp [World.pushVis], by simp [World.pushVis, yields]⟩
    · exact ⟨w, by simp [hl, hv], rfl, rfl⟩

theorem yieldV_more (v : Val) {w : World} {k : Nat} {fin : Final} (h : w.cons = .run (k + 1) fin) :
    ∃ w', yieldV v w = (.ok (), w') ∧ w'.cons = .run k fin ∧ w'.srcs = w.srcs
      ∧ yields w'.vis = yields w.vis ++ [v] :=
  ⟨_, by simp [yieldV, h]; rfl, rfl, by simp [World.pushVis], by simp [World.pushVis, yields]⟩

theorem yieldV_closed (v : Val) {w : World} (h : w.cons = .run 0 .close) :
    ∃ w', yieldV v w = (.error .genExit, w') ∧ yields w'.vis = yields w.vis ++ [v] :=
  ⟨_, by simp [yieldV, h]; rfl, by simp [World.pushVis, yields]⟩

/-! ## cycle -/

theorem cycleFirst_closed (s : Nat) :
    ∀ (items buf : List Val) (k fuel : Nat) (w : World), Has (w.srcs s) items → w.cons = .run k .close →
      items.length < fuel → k < items.length →
      ∃ w', Std.cycleFirst s buf fuel w = (.error .genExit, w')
        ∧ yields w'.vis = yields w.vis ++ items.take (k + 1) := by
  intro items
  induction items with
  | nil => intro buf k fuel w _ _ _ hk; simp at hk
  | cons x xs ih =>
    intro buf k fuel w hs hc hf hk
    cases fuel with
    | zero => simp at hf
    | succ fuel =>
      obtain ⟨w1, hp, hc1, hs1, hy1⟩ := pull_cons' hs
      cases k with
      | zero =>
        obtain ⟨w2, hyv, hy2⟩ := yieldV_closed x (hc1.trans hc)
        exact ⟨w2, by simp [Std.cycleFirst, bind_apply, hp, hyv], by simp [hy2, hy1]⟩
      | succ k =>
        obtain ⟨w2, hyv, hc2, hs2, hy2⟩ := yieldV_more x (hc1.trans hc)
        obtain ⟨w3, hl, hy3⟩ := ih (buf ++ [x]) k fuel w2 (by rw [hs2]; exact hs1) hc2
          (by simp at hf; omega) (by simp at hk; omega)
        exact ⟨w3, by simp [Std.cycleFirst, bind_apply, hp, hyv, hl], by simp [hy3, hy2, hy1]⟩

theorem cycleFirst_done (s : Nat) :
    ∀ (items buf : List Val) (k fuel : Nat) (w : World), Has (w.srcs s) items → w.cons = .run k .close →
      items.length < fuel → items.length ≤ k →
      ∃ w', Std.cycleFirst s buf fuel w = (.ok (buf ++ items), w')
        ∧ w'.cons = .run (k - items.length) .close ∧ yields w'.vis = yields w.vis ++ items := by
  intro items
  induction items with
  | nil =>
    intro buf k fuel w hs hc hf _
    cases fuel with
    | zero => simp at hf
    | succ fuel =>
      obtain ⟨w1, hp, hc1, hy1⟩ := pull_nil' hs
      exact ⟨w1, by simp [Std.cycleFirst, bind_apply, hp, pure_apply], by simpa [hc1] using hc, by simp [hy1]⟩
  | cons x xs ih =>
    intro buf k fuel w hs hc hf hk
    cases fuel with
    | zero => simp at hf
    | succ fuel =>
      obtain ⟨w1, hp, hc1, hs1, hy1⟩ := pull_cons' hs
      cases k with
      | zero => simp at hk
      | succ k =>
        obtain ⟨w2, hyv, hc2, hs2, hy2⟩ := yieldV_more x (hc1.trans hc)
        obtain ⟨w3, hl, hc3, hy3⟩ := ih (buf ++ [x]) k fuel w2 (by rw [hs2]; exact hs1) hc2
          (by simp at hf; omega) (by simp at hk; omega)
        refine ⟨w3, by simp [Std.cycleFirst, bind_apply, hp, hyv, hl], ?_, by simp [hy3, hy2, hy1]⟩
        rw [hc3]; simp

theorem replay_closed (buffer : List Val) (hne : buffer ≠ []) :
    ∀ (fuel k : Nat) (cur : List Val) (w : World), w.cons = .run k .close →
      2 * k + 2 ≤ fuel + min cur.length 1 →
      ∃ w', Std.replay buffer cur fuel w = (.error .genExit, w')
        ∧ yields w'.vis = yields w.vis ++ ListSpec.cycleTake buffer (k + 1) cur := by
  intro fuel
  induction fuel with
  | zero => intro k cur w _ hf; omega
  | succ fuel ih =>
    intro k cur w hc hf
    cases cur with
    | nil =>
      cases hb : buffer with
      | nil => exact absurd hb hne
      | cons b bs =>
        obtain ⟨w1, hr, hy1⟩ := ih k buffer w hc (by rw [hb]; simp at hf ⊢; omega)
        refine ⟨w1, ?_, ?_⟩
        · rw [← hb]; simpa [Std.replay, hb] using hr
        · rw [hy1, hb]; simp [ListSpec.cycleTake]
    | cons x rest =>
      cases k with
      | zero =>
        obtain ⟨w1, hyv, hy1⟩ := yieldV_closed x hc
        exact ⟨w1, by simp [Std.replay, bind_apply, hyv], by simp [hy1, ListSpec.cycleTake]⟩
      | succ k =>
        obtain ⟨w1, hyv, hc1, _, hy1⟩ := yieldV_more x hc
        obtain ⟨w2, hr, hy2⟩ := ih k rest w1 hc1 (by simp at hf; omega)
        exact ⟨w2, by simp [Std.replay, bind_apply, hyv, hr], by simp [hy2, hy1, ListSpec.cycleTake]⟩

theorem cycleTake_short (items : List Val) : ∀ (cur : List Val) (m : Nat), m ≤ cur.length →
    ListSpec.cycleTake items m cur = cur.take m := by
  intro cur
  induction cur with
  | nil => intro m hm; have : m = 0 := by simpa using hm
           subst this; rfl
  | cons x xs ih =>
    intro m hm
    cases m with
    | zero => rfl
    | succ m => simp [ListSpec.cycleTake, ih m (by simpa using hm)]

theorem cycleTake_restart (items : List Val) (m : Nat) :
    ListSpec.cycleTake items (m + 1) [] = ListSpec.cycleTake items (m + 1) items := by
  cases items with
  | nil => simp [ListSpec.cycleTake]
  | cons x xs => simp [ListSpec.cycleTake]

theorem cycleTake_through (items : List Val) : ∀ (cur : List Val) (m : Nat),
    ListSpec.cycleTake items (cur.length + m) cur = cur ++ ListSpec.cycleTake items m [] := by
  intro cur
  induction cur with
  | nil => intro m; simp
  | cons x xs ih =>
    intro m
    have : (x :: xs).length + m = (xs.length + m) + 1 := by simp; omega
    rw [this]
    simp [ListSpec.cycleTake, ih m]

theorem cycle_result (items : List Val) (k : Nat) :
    (if k < items.length then items.take (k + 1)
     else items ++ ListSpec.cycleTake items (k - items.length + 1) []) = ListSpec.cyclePrefix items (k + 1) := by
  unfold ListSpec.cyclePrefix
  by_cases h : k < items.length
  · rw [if_pos h, cycleTake_restart items k, cycleTake_short items items (k + 1) (by omega)]
  · rw [if_neg h]
    have e : k + 1 = items.length + (k - items.length + 1) := by omega
    conv => rhs; rw [cycleTake_restart items k, e, cycleTake_through]

theorem cycle_spec (s : Nat) (items : List Val) (k fuel : Nat) (w : World)
    (hs : Has (w.srcs s) items) (hc : w.cons = .run k .close) (hf : items.length + 2 * k + 2 ≤ fuel) :
    Produces (Std.cycle s fuel) w (if items.isEmpty then .ok () else .error .genExit)
      (ListSpec.cyclePrefix items (k + 1)) := by
  rw [← cycle_result]
  by_cases hk : k < items.length
  · obtain ⟨w1, h, hy⟩ := cycleFirst_closed s items [] k fuel w hs hc (by omega) hk
    have hne : items.isEmpty = false := by cases items <;> simp at hk ⊢
    simp only [hne, if_pos hk]
    exact ⟨by simp [Std.cycle, bind_apply, h], by simp [Std.cycle, bind_apply, h, hy]⟩
  · obtain ⟨w1, h, hc1, hy1⟩ := cycleFirst_done s items [] k fuel w hs hc (by omega) (by omega)
    rw [if_neg hk]
    cases hi : items with
    | nil =>
      subst hi
      cases fuel with
      | zero => simp at hf
      | succ fuel =>
        simp only [List.nil_append] at h
        exact ⟨by simp [Std.cycle, bind_apply, h, Std.replay, pure_apply],
          by simp [Std.cycle, bind_apply, h, Std.replay, pure_apply, hy1, ListSpec.cycleTake]⟩
    | cons x xs =>
      rw [← hi]
      have hne : items ≠ [] := by simp [hi]
      obtain ⟨w2, hr, hy2⟩ := replay_closed items hne fuel (k - items.length) [] w1 hc1 (by simp; omega)
      simp only [List.nil_append] at h
      have hie : items.isEmpty = false := by simp [hi]
      simp only [hie]
      exact ⟨by simp [Std.cycle, bind_apply, h, hr], by simp [Std.cycle, bind_apply, h, hr, hy2, hy1]⟩

theorem implCycle_spec (s : Nat) (items : List Val) (k fuel : Nat) (w : World)
    (hs : Has (w.srcs s) items) (hc : w.cons = .run k .close) (hf : items.length + 2 * k + 2 ≤ fuel) :
    Produces (Impl.cycle s fuel) w (if items.isEmpty then .ok () else .error .genExit)
      (ListSpec.cyclePrefix items (k + 1)) := by
  rw [← cycle_result]
  obtain ⟨hq1, hq2, hq3⟩ := tryFinally_quiet (Std.cycleFirst s [] fuel) (closeSrc s) (closeSrc_quiet s) w
  by_cases hk : k < items.length
  · obtain ⟨w1, h, hy⟩ := cycleFirst_closed s items [] k fuel w hs hc (by omega) hk
    have hne : items.isEmpty = false := by cases items <;> simp at hk ⊢
    simp only [hne, if_pos hk]
    rw [h] at hq1 hq2
    rcases hsc : scopedIter s (Std.cycleFirst s [] fuel) w with ⟨r, w2⟩
    have hsc' : tryFinally (Std.cycleFirst s [] fuel) (closeSrc s) w = (r, w2) := hsc
    rw [hsc'] at hq1 hq2
    simp only at hq1 hq2
    subst hq1
    exact ⟨by simp [Impl.cycle, bind_apply, hsc], by simp [Impl.cycle, bind_apply, hsc, hq2, hy]⟩
  · obtain ⟨w1, h, hc1, hy1⟩ := cycleFirst_done s items [] k fuel w hs hc (by omega) (by omega)
    rw [if_neg hk]
    rw [h] at hq1 hq2 hq3
    rcases hsc : scopedIter s (Std.cycleFirst s [] fuel) w with ⟨r, w2⟩
    have hsc' : tryFinally (Std.cycleFirst s [] fuel) (closeSrc s) w = (r, w2) := hsc
    rw [hsc'] at hq1 hq2 hq3
    simp only [List.nil_append] at hq1 hq2 hq3
    subst hq1
    have hc2 : w2.cons = .run (k - items.length) .close := hq3.trans hc1
    cases hi : items with
    | nil =>
      subst hi
      cases fuel with
      | zero => simp at hf
      | succ fuel =>
        exact ⟨by simp [Impl.cycle, bind_apply, hsc, Std.replay, pure_apply],
          by simp [Impl.cycle, bind_apply, hsc, Std.replay, pure_apply, hq2, hy1, ListSpec.cycleTake]⟩
    | cons x xs =>
      rw [← hi]
      have hne : items ≠ [] := by simp [hi]
      obtain ⟨w3, hr, hy3⟩ := replay_closed items hne fuel (k - items.length) [] w2 hc2 (by simp; omega)
      have hie : items.isEmpty = false := by simp [hi]
      simp only [hie]
      exact ⟨by simp [Impl.cycle, bind_apply, hsc, hr], by simp [Impl.cycle, bind_apply, hsc, hr, hy3, hq2, hy1]⟩

/-! ## merge: the order on heads -/

/-- the integer a key is ordered by (negated for `reverse`) -/
def rk (reverse : Bool) (v : Val) : Int :=
  match v.key? with
  | some k => if reverse then -k else k
  | none => 0

/-- lexicographic order on (rank, input number) -/
def lexLt (a : Int) (i : Nat) (b : Int) (j : Nat) : Prop := a < b ∨ (a = b ∧ i < j)

theorem goesBefore_iff (reverse : Bool) (ka : Val) (i : Nat) (kb : Val) (j : Nat)
    (ha : ka.key?.isSome = true) (hb : kb.key?.isSome = true) :
    ListSpec.goesBefore reverse ka i kb j = true ↔ lexLt (rk reverse ka) i (rk reverse kb) j := by
  cases hka : ka.key? with
  | none => rw [hka] at ha; simp at ha
  | some x =>
    cases hkb : kb.key? with
    | none => rw [hkb] at hb; simp at hb
    | some y =>
      simp only [ListSpec.goesBefore, hka, hkb, rk, lexLt]
      cases reverse <;> by_cases hxy : x = y <;> simp [hxy] <;> omega

theorem before_eq (reverse : Bool) (a b : Std.Entry) :
    Std.Entry.before reverse a b = ListSpec.goesBefore reverse a.key a.idx b.key b.idx := by
  unfold Std.Entry.before ListSpec.goesBefore
  cases a.key.key? <;> cases b.key.key? <;> rfl

theorem popMin_spec (reverse : Bool) : ∀ (heap : List Std.Entry),
    (∀ e ∈ heap, e.key.key?.isSome = true) → (heap.map (·.idx)).Nodup → heap ≠ [] →
    ∃ m others, Std.popMin reverse heap = some (m, others) ∧ heap.Perm (m :: others)
      ∧ ∀ e ∈ others, lexLt (rk reverse m.key) m.idx (rk reverse e.key) e.idx := by
  intro heap
  induction heap with
  | nil => intro _ _ h; exact absurd rfl h
  | cons e rest ih =>
    intro hk hnd _
    simp only [List.map_cons, List.nodup_cons] at hnd
    obtain ⟨he_notin, hnd'⟩ := hnd
    cases hrest : rest with
    | nil => exact ⟨e, [], by simp [Std.popMin], by simp, by simp⟩
    | cons e2 rest2 =>
      rw [← hrest]
      obtain ⟨m, others, hp, hperm, hmin⟩ := ih (fun x hx => hk x (by simp [hx])) hnd' (by simp [hrest])
      have hm_mem : m ∈ rest := hperm.mem_iff.mpr (by simp)
      have hm_idx : m.idx ≠ e.idx := fun h => he_notin (List.mem_map.mpr ⟨m, hm_mem, h⟩)
      have hkm := hk m (by simp [hm_mem])
      have hke := hk e (by simp)
      by_cases hb : Std.Entry.before reverse m e = true
      · refine ⟨m, e :: others, by simp [Std.popMin, hp, hb], ?_, ?_⟩
        · exact (List.Perm.cons e hperm).trans (List.Perm.swap m e others)
        · intro x hx
          rcases List.mem_cons.mp hx with rfl | hx
          · rw [before_eq] at hb; exact (goesBefore_iff _ _ _ _ _ hkm hke).mp hb
          · exact hmin x hx
      · refine ⟨e, m :: others, by simp [Std.popMin, hp, hb], List.Perm.cons e hperm, ?_⟩
        rw [before_eq] at hb
        have hnot : ¬ lexLt (rk reverse m.key) m.idx (rk reverse e.key) e.idx :=
          fun h => hb ((goesBefore_iff _ _ _ _ _ hkm hke).mpr h)
        have hem : lexLt (rk reverse e.key) e.idx (rk reverse m.key) m.idx := by
          unfold lexLt at hnot ⊢; omega
        intro x hx
        rcases List.mem_cons.mp hx with rfl | hx
        · exact hem
        · have := hmin x hx
          unfold lexLt at this hem ⊢; omega

theorem pickFrom_spec (kf : Val → Val) (reverse : Bool) : ∀ (ls : List (List Val)) (i0 : Nat),
    (∀ l ∈ ls, ∀ x ∈ l, (kf x).key?.isSome = true) →
    match ListSpec.pickFrom kf reverse i0 ls with
    | none => ∀ l ∈ ls, l = []
    | some (i, x) => (∃ t, (x :: t, i) ∈ ls.zipIdx i0)
        ∧ ∀ y u j, (y :: u, j) ∈ ls.zipIdx i0 → j ≠ i → lexLt (rk reverse (kf x)) i (rk reverse (kf y)) j := by
  intro ls
  induction ls with
  | nil => intro i0 _; simp [ListSpec.pickFrom]
  | cons l rest ih =>
    intro i0 hk
    have ih' := ih (i0 + 1) (fun l hl => hk l (by simp [hl]))
    cases l with
    | nil =>
      simp only [ListSpec.pickFrom]
      cases hp : ListSpec.pickFrom kf reverse (i0 + 1) rest with
      | none =>
        rw [hp] at ih'
        intro l hl
        rcases List.mem_cons.mp hl with rfl | hl
        · rfl
        · exact ih' l hl
      | some r =>
        obtain ⟨i, x⟩ := r
        rw [hp] at ih'
        obtain ⟨⟨t, ht⟩, hmin⟩ := ih'
        refine ⟨⟨t, by simp [List.zipIdx_cons, ht]⟩, ?_⟩
        intro y u j hj hne
        simp only [List.zipIdx_cons, List.mem_cons] at hj
        rcases hj with hj | hj
        · simp at hj
        · exact hmin y u j hj hne
    | cons x t =>
      have hkx : (kf x).key?.isSome = true := hk (x :: t) (by simp) x (by simp)
      simp only [ListSpec.pickFrom]
      cases hp : ListSpec.pickFrom kf reverse (i0 + 1) rest with
      | none =>
        rw [hp] at ih'
        refine ⟨⟨t, by simp [List.zipIdx_cons]⟩, ?_⟩
        intro y u j hj hne
        simp only [List.zipIdx_cons, List.mem_cons] at hj
        rcases hj with hj | hj
        · simp at hj; exact absurd hj.2 hne
        · have := ih' _ (List.fst_mem_of_mem_zipIdx hj)
          simp at this
      | some r =>
        obtain ⟨j0, y0⟩ := r
        rw [hp] at ih'
        obtain ⟨⟨t0, ht0⟩, hmin⟩ := ih'
        have hj0 : i0 + 1 ≤ j0 := List.le_snd_of_mem_zipIdx ht0
        have hky0 : (kf y0).key?.isSome = true :=
          hk (y0 :: t0) (by simp [List.fst_mem_of_mem_zipIdx ht0]) y0 (by simp)
        simp only
        by_cases hb : ListSpec.goesBefore reverse (kf y0) j0 (kf x) i0 = true
        · rw [if_pos hb]
          have hlt := (goesBefore_iff _ _ _ _ _ hky0 hkx).mp hb
          refine ⟨⟨t0, by simp [List.zipIdx_cons, ht0]⟩, ?_⟩
          intro y u j hj hne
          simp only [List.zipIdx_cons, List.mem_cons] at hj
          rcases hj with hj | hj
          · simp at hj; obtain ⟨⟨rfl, _⟩, rfl⟩ := hj; exact hlt
          · exact hmin y u j hj hne
        · rw [if_neg hb]
          have hnot : ¬ lexLt (rk reverse (kf y0)) j0 (rk reverse (kf x)) i0 :=
            fun h => hb ((goesBefore_iff _ _ _ _ _ hky0 hkx).mpr h)
          have hlt : lexLt (rk reverse (kf x)) i0 (rk reverse (kf y0)) j0 := by
            unfold lexLt at hnot ⊢; omega
          refine ⟨⟨t, by simp [List.zipIdx_cons]⟩, ?_⟩
          intro y u j hj hne
          simp only [List.zipIdx_cons, List.mem_cons] at hj
          rcases hj with hj | hj
          · simp at hj; exact absurd hj.2 hne
          · by_cases hjj : j = j0
            · subst hjj
              have hyu := (List.mem_zipIdx hj).2.2
              have hy0 := (List.mem_zipIdx ht0).2.2
              have : y :: u = y0 :: t0 := hyu.trans hy0.symm
              simp at this; rw [this.1]; exact hlt
            · have := hmin y u j hj hjj
              unfold lexLt at this hlt ⊢; omega

/-! ## merge: list facts about `modify … tail` -/

theorem getElem?_modify_tail_same (ls : List (List Val)) (i : Nat) (l : List Val) (h : ls[i]? = some l) :
    (ls.modify i List.tail)[i]? = some l.tail := by
  simp [h]

theorem getElem?_modify_tail_ne (ls : List (List Val)) (i j : Nat) (h : i ≠ j) :
    (ls.modify i List.tail)[j]? = ls[j]? := by
  rw [List.getElem?_modify]
  cases ls[j]? <;> simp [h]

theorem sum_modify_tail : ∀ (ls : List (List Val)) (i : Nat) (x : Val) (t : List Val),
    ls[i]? = some (x :: t) → ((ls.modify i List.tail).map List.length).sum + 1 = (ls.map List.length).sum := by
  intro ls
  induction ls with
  | nil => intro i x t h; simp at h
  | cons l rest ih =>
    intro i x t h
    cases i with
    | zero =>
      simp at h; subst h
      simp [List.modify_zero_cons]; omega
    | succ i =>
      simp at h
      have := ih i x t h
      simp [List.modify_succ_cons]; omega

theorem mem_modify_tail (ls : List (List Val)) (i : Nat) (l' : List Val) (h : l' ∈ ls.modify i List.tail) :
    ∃ l ∈ ls, ∀ x ∈ l', x ∈ l := by
  obtain ⟨j, hj⟩ := List.mem_iff_getElem?.mp h
  by_cases hij : i = j
  · subst hij
    cases hl : ls[i]? with
    | none => simp [hl] at hj
    | some l =>
      rw [getElem?_modify_tail_same ls i l hl] at hj
      simp at hj; subst hj
      exact ⟨l, List.mem_of_getElem? hl, fun x hx => List.mem_of_mem_tail hx⟩
  · rw [getElem?_modify_tail_ne ls i j hij] at hj
    exact ⟨l', List.mem_of_getElem? hj, fun x hx => hx⟩

/-! ## merge: the heap of the algorithm against the inputs of the specification -/

/-- the heap `heap` of live entries describes the inputs `ls` (remaining items, current head included) -/
structure HeapInv (srcs : List Nat) (kf : Val → Val) (w : World) (heap : List Std.Entry)
    (ls : List (List Val)) : Prop where
  nd : (heap.map (·.idx)).Nodup
  ent : ∀ e ∈ heap, ∃ t, ls[e.idx]? = some (e.head :: t) ∧ Has (w.srcs e.src) t ∧ e.key = kf e.head
    ∧ srcs[e.idx]? = some e.src
  emp : ∀ i l, ls[i]? = some l → (∀ e ∈ heap, e.idx ≠ i) → l = []

theorem heap_keys {srcs : List Nat} {kf : Val → Val} {w : World} {heap : List Std.Entry}
    {ls : List (List Val)} (hinv : HeapInv srcs kf w heap ls)
    (hk : ∀ l ∈ ls, ∀ x ∈ l, (kf x).key?.isSome = true) : ∀ e ∈ heap, e.key.key?.isSome = true := by
  intro e he
  obtain ⟨t, hl, _, hkey, _⟩ := hinv.ent e he
  rw [hkey]
  exact hk _ (List.mem_of_getElem? hl) e.head (by simp)

/-- the minimum of the heap is the input the specification picks -/
theorem pick_agrees {srcs : List Nat} {kf : Val → Val} {reverse : Bool} {w : World} {heap : List Std.Entry}
    {ls : List (List Val)} (hinv : HeapInv srcs kf w heap ls)
    (hk : ∀ l ∈ ls, ∀ x ∈ l, (kf x).key?.isSome = true)
    (m : Std.Entry) (others : List Std.Entry) (hperm : heap.Perm (m :: others))
    (hmin : ∀ e ∈ others, lexLt (rk reverse m.key) m.idx (rk reverse e.key) e.idx) :
    ListSpec.pickFrom kf reverse 0 ls = some (m.idx, m.head) := by
  have hm : m ∈ heap := hperm.mem_iff.mpr (by simp)
  obtain ⟨t, hlm, _, hkm, _⟩ := hinv.ent m hm
  have hspec := pickFrom_spec kf reverse ls 0 hk
  cases hp : ListSpec.pickFrom kf reverse 0 ls with
  | none =>
    rw [hp] at hspec
    have := hspec _ (List.mem_of_getElem? hlm)
    simp at this
  | some r =>
    obtain ⟨i, x⟩ := r
    rw [hp] at hspec
    obtain ⟨⟨t', ht'⟩, hbest⟩ := hspec
    have hli : ls[i]? = some (x :: t') := by
      have := List.mem_zipIdx_iff_getElem?.mp ht'
      simpa using this
    by_cases hi : i = m.idx
    · subst hi
      rw [hlm] at hli
      simp at hli
      rw [hli.1]
    · exfalso
      have hex : ∃ e ∈ heap, e.idx = i := by
        apply Classical.byContradiction
        intro hno
        have := hinv.emp i _ hli (fun e he h => hno ⟨e, he, h⟩)
        simp at this
      obtain ⟨e, he, hei⟩ := hex
      obtain ⟨te, hle, _, hke, _⟩ := hinv.ent e he
      rw [hei, hli] at hle
      simp at hle
      have he_oth : e ∈ others := by
        rcases List.mem_cons.mp (hperm.mem_iff.mp he) with h | h
        · subst h; exact absurd hei (fun h => hi h.symm)
        · exact h
      have h1 := hmin e he_oth
      have h2 := hbest m.head t m.idx (List.mem_zipIdx_iff_getElem?.mpr (by simpa using hlm))
        (fun h => hi h.symm)
      rw [hke, ← hle.1, hei, hkm] at h1
      unfold lexLt at h1 h2
      omega

/-- what stays true of the other entries after the minimum `m` was output and its source advanced -/
theorem heapInv_others {srcs : List Nat} (hsn : srcs.Nodup) {kf : Val → Val} {w w' : World}
    {heap : List Std.Entry} {ls : List (List Val)} (hinv : HeapInv srcs kf w heap ls)
    (m : Std.Entry) (others : List Std.Entry) (hperm : heap.Perm (m :: others))
    (ho : ∀ s, s ≠ m.src → w'.srcs s = w.srcs s) :
    (others.map (·.idx)).Nodup ∧ m.idx ∉ others.map (·.idx)
    ∧ (∀ e ∈ others, ∃ t, (ls.modify m.idx List.tail)[e.idx]? = some (e.head :: t)
        ∧ Has (w'.srcs e.src) t ∧ e.key = kf e.head ∧ srcs[e.idx]? = some e.src)
    ∧ (∀ i l, (ls.modify m.idx List.tail)[i]? = some l → i ≠ m.idx → (∀ e ∈ others, e.idx ≠ i) → l = []) := by
  have hm : m ∈ heap := hperm.mem_iff.mpr (by simp)
  have hnd : ((m :: others).map (·.idx)).Nodup := (hperm.map _).nodup_iff.mp hinv.nd
  simp only [List.map_cons, List.nodup_cons] at hnd
  obtain ⟨hm_notin, hnd'⟩ := hnd
  obtain ⟨_, _, _, _, hsm⟩ := hinv.ent m hm
  refine ⟨hnd', hm_notin, ?_, ?_⟩
  · intro e he
    have heh : e ∈ heap := hperm.mem_iff.mpr (by simp [he])
    have hne : e.idx ≠ m.idx := fun h => hm_notin (List.mem_map.mpr ⟨e, he, h⟩)
    obtain ⟨te, hle, hhas, hke, hse⟩ := hinv.ent e heh
    refine ⟨te, by rw [getElem?_modify_tail_ne ls m.idx e.idx (fun h => hne h.symm)]; exact hle, ?_, hke, hse⟩
    have hsrc : e.src ≠ m.src := by
      intro h
      have hlt : e.idx < srcs.length := (List.getElem?_eq_some_iff.mp hse).1
      have := (List.getElem?_inj hlt hsn (j := m.idx)).mp (by rw [hse, hsm, h])
      exact hne this
    rw [ho e.src hsrc]; exact hhas
  · intro i l hl hi hno
    rw [getElem?_modify_tail_ne ls m.idx i (fun h => hi h.symm)] at hl
    apply hinv.emp i l hl
    intro e he
    rcases List.mem_cons.mp (hperm.mem_iff.mp he) with h | h
    · subst h; exact fun h => hi h.symm
    · exact hno e h

/-- the source of the minimum has ended: the entry is dropped -/
theorem heapInv_drop {srcs : List Nat} (hsn : srcs.Nodup) {kf : Val → Val} {w w' : World}
    {heap : List Std.Entry} {ls : List (List Val)} (hinv : HeapInv srcs kf w heap ls)
    (m : Std.Entry) (others : List Std.Entry) (hperm : heap.Perm (m :: others))
    (hlm : ls[m.idx]? = some [m.head])
    (ho : ∀ s, s ≠ m.src → w'.srcs s = w.srcs s) :
    HeapInv srcs kf w' others (ls.modify m.idx List.tail) := by
  obtain ⟨hnd', _, hent, hemp⟩ := heapInv_others hsn hinv m others hperm ho
  refine ⟨hnd', hent, ?_⟩
  intro i l hl hno
  by_cases hi : i = m.idx
  · subst hi
    rw [getElem?_modify_tail_same ls m.idx _ hlm] at hl
    simpa using hl.symm
  · exact hemp i l hl hi hno

/-- the source of the minimum delivered `x`: the entry is replaced -/
theorem heapInv_replace {srcs : List Nat} (hsn : srcs.Nodup) {kf : Val → Val} {w w' : World}
    {heap : List Std.Entry} {ls : List (List Val)} (hinv : HeapInv srcs kf w heap ls)
    (m : Std.Entry) (others : List Std.Entry) (hperm : heap.Perm (m :: others))
    (x : Val) (t' : List Val) (hlm : ls[m.idx]? = some (m.head :: x :: t'))
    (ho : ∀ s, s ≠ m.src → w'.srcs s = w.srcs s) (hhas : Has (w'.srcs m.src) t') :
    HeapInv srcs kf w' ({ m with head := x, key := kf x } :: others) (ls.modify m.idx List.tail) := by
  obtain ⟨hnd', hm_notin, hent, hemp⟩ := heapInv_others hsn hinv m others hperm ho
  have hm : m ∈ heap := hperm.mem_iff.mpr (by simp)
  obtain ⟨_, _, _, _, hsm⟩ := hinv.ent m hm
  refine ⟨?_, ?_, ?_⟩
  · simp only [List.map_cons, List.nodup_cons]; exact ⟨hm_notin, hnd'⟩
  · intro e he
    rcases List.mem_cons.mp he with rfl | he
    · exact ⟨t', by simp only; rw [getElem?_modify_tail_same ls m.idx _ hlm]; rfl, hhas, rfl, hsm⟩
    · exact hent e he
  · intro i l hl hno
    by_cases hi : i = m.idx
    · exact absurd hi.symm (hno { m with head := x, key := kf x } (by simp))
    · exact hemp i l hl hi (fun e he => hno e (by simp [he]))

/-! ## merge: facts about the specification -/

theorem pickFrom_all_empty (kf : Val → Val) (reverse : Bool) : ∀ (ls : List (List Val)) (i0 : Nat),
    (∀ l ∈ ls, l = []) → ListSpec.pickFrom kf reverse i0 ls = none := by
  intro ls
  induction ls with
  | nil => intro i0 _; rfl
  | cons l rest ih =>
    intro i0 h
    have hl := h l (by simp)
    subst hl
    simp [ListSpec.pickFrom, ih (i0 + 1) (fun l hl => h l (by simp [hl]))]

theorem mergeN_all_empty (kf : Val → Val) (reverse : Bool) (n : Nat) (ls : List (List Val))
    (h : ∀ l ∈ ls, l = []) : ListSpec.mergeN kf reverse n ls = [] := by
  cases n with
  | zero => rfl
  | succ n => simp [ListSpec.mergeN, pickFrom_all_empty kf reverse ls 0 h]

theorem length_le_sum : ∀ (ls : List (List Val)) (i : Nat) (l : List Val), ls[i]? = some l →
    l.length ≤ (ls.map List.length).sum := by
  intro ls
  induction ls with
  | nil => intro i l h; simp at h
  | cons l0 rest ih =>
    intro i l h
    cases i with
    | zero => simp at h; subst h; simp
    | succ i => simp at h; have := ih i l h; simp; omega

theorem pick_single (kf : Val → Val) (reverse : Bool) (ls : List (List Val)) (i : Nat) (x : Val) (t : List Val)
    (hi : ls[i]? = some (x :: t)) (hoth : ∀ j l', ls[j]? = some l' → j ≠ i → l' = [])
    (hk : ∀ l ∈ ls, ∀ x ∈ l, (kf x).key?.isSome = true) :
    ListSpec.pickFrom kf reverse 0 ls = some (i, x) := by
  have hspec := pickFrom_spec kf reverse ls 0 hk
  cases hp : ListSpec.pickFrom kf reverse 0 ls with
  | none =>
    rw [hp] at hspec
    have := hspec _ (List.mem_of_getElem? hi)
    simp at this
  | some r =>
    obtain ⟨i', x'⟩ := r
    rw [hp] at hspec
    obtain ⟨⟨t', ht'⟩, _⟩ := hspec
    have hli : ls[i']? = some (x' :: t') := by
      have := List.mem_zipIdx_iff_getElem?.mp ht'
      simpa using this
    by_cases h : i' = i
    · subst h; rw [hi] at hli; simp at hli; rw [hli.1]
    · have := hoth i' _ hli h; simp at this

theorem mergeN_single (kf : Val → Val) (reverse : Bool) : ∀ (l : List Val) (ls : List (List Val)) (n i : Nat),
    ls[i]? = some l → (∀ j l', ls[j]? = some l' → j ≠ i → l' = []) → l.length ≤ n →
    (∀ l ∈ ls, ∀ x ∈ l, (kf x).key?.isSome = true) →
    ListSpec.mergeN kf reverse n ls = l := by
  intro l
  induction l with
  | nil =>
    intro ls n i hi hoth _ _
    apply mergeN_all_empty
    intro l hl
    obtain ⟨j, hj⟩ := List.mem_iff_getElem?.mp hl
    by_cases h : j = i
    · subst h; rw [hi] at hj; simpa using hj.symm
    · exact hoth j l hj h
  | cons x t ih =>
    intro ls n i hi hoth hn hk
    cases n with
    | zero => simp at hn
    | succ n =>
      have hp := pick_single kf reverse ls i x t hi hoth hk
      simp only [ListSpec.mergeN, hp]
      rw [ih (ls.modify i List.tail) n i (getElem?_modify_tail_same ls i _ hi)
        (fun j l' hj hne => by
          rw [getElem?_modify_tail_ne ls i j (fun h => hne h.symm)] at hj
          exact hoth j l' hj hne)
        (by simpa using hn)
        (fun l' hl' y hy => by
          obtain ⟨l0, hl0, hsub⟩ := mem_modify_tail ls i l' hl'
          exact hk l0 hl0 y (hsub y hy))]

/-! ## merge: the run -/

theorem keyOf_spec {F : Nat → FnBeh} (fn : Option Nat) (q : List Val → Val) (x : Val) {w : World}
    (he : Env F w) (hq : ∀ f, fn = some f → ∀ n a, F f n a = .ok (q a)) :
    ∃ w', Std.keyOf fn x w = (.ok (ListSpec.keyFn fn q x), w') ∧ Env F w' ∧ w'.srcs = w.srcs
      ∧ yields w'.vis = yields w.vis := by
  cases fn with
  | none => exact ⟨w, rfl, he, rfl, rfl⟩
  | some f =>
    obtain ⟨w1, hc, he1, hs1, hy1⟩ := call_pure [x] he (hq f rfl)
    exact ⟨w1, by simpa [Std.keyOf, ListSpec.keyFn] using hc, he1, hs1, hy1⟩

/-- the entries `heads` collects: one per non-empty input, numbered by position -/
def entriesOf (kf : Val → Val) (I : Nat → List Val) : List Nat → Nat → List Std.Entry
  | [], _ => []
  | s :: rest, idx =>
    match I s with
    | [] => entriesOf kf I rest (idx + 1)
    | x :: _ => { head := x, key := kf x, src := s, idx := idx } :: entriesOf kf I rest (idx + 1)

theorem entriesOf_mem (kf : Val → Val) (I : Nat → List Val) : ∀ (l : List Nat) (idx : Nat) (e : Std.Entry),
    e ∈ entriesOf kf I l idx →
    ∃ k, e.idx = idx + k ∧ l[k]? = some e.src ∧ ∃ t, I e.src = e.head :: t ∧ e.key = kf e.head := by
  intro l
  induction l with
  | nil => intro idx e h; simp [entriesOf] at h
  | cons s rest ih =>
    intro idx e h
    have hrec : e ∈ entriesOf kf I rest (idx + 1) →
        ∃ k, e.idx = idx + k ∧ (s :: rest)[k]? = some e.src ∧ ∃ t, I e.src = e.head :: t ∧ e.key = kf e.head := by
      intro h
      obtain ⟨k, h1, h2, h3⟩ := ih (idx + 1) e h
      exact ⟨k + 1, by omega, by simpa using h2, h3⟩
    cases hI : I s with
    | nil => simp only [entriesOf, hI] at h; exact hrec h
    | cons x t =>
      simp only [entriesOf, hI, List.mem_cons] at h
      rcases h with rfl | h
      · exact ⟨0, by simp, by simp, t, hI, rfl⟩
      · exact hrec h

theorem entriesOf_nodup (kf : Val → Val) (I : Nat → List Val) : ∀ (l : List Nat) (idx : Nat),
    ((entriesOf kf I l idx).map (·.idx)).Nodup := by
  intro l
  induction l with
  | nil => intro idx; simp [entriesOf]
  | cons s rest ih =>
    intro idx
    cases hI : I s with
    | nil => simp only [entriesOf, hI]; exact ih (idx + 1)
    | cons x t =>
      simp only [entriesOf, hI, List.map_cons, List.nodup_cons]
      refine ⟨?_, ih (idx + 1)⟩
      intro hmem
      obtain ⟨e, he, hidx⟩ := List.mem_map.mp hmem
      obtain ⟨k, hk, _⟩ := entriesOf_mem kf I rest (idx + 1) e he
      omega

theorem entriesOf_complete (kf : Val → Val) (I : Nat → List Val) : ∀ (l : List Nat) (idx k s : Nat),
    l[k]? = some s → I s ≠ [] → ∃ e ∈ entriesOf kf I l idx, e.idx = idx + k := by
  intro l
  induction l with
  | nil => intro idx k s h; simp at h
  | cons s0 rest ih =>
    intro idx k s h hne
    cases k with
    | zero =>
      simp at h; subst h
      cases hI : I s0 with
      | nil => exact absurd hI hne
      | cons x t => exact ⟨_, by simp only [entriesOf, hI]; exact List.mem_cons_self, by simp⟩
    | succ k =>
      simp at h
      obtain ⟨e, he, hidx⟩ := ih (idx + 1) k s h hne
      refine ⟨e, ?_, by omega⟩
      cases hI : I s0 with
      | nil => simp only [entriesOf, hI]; exact he
      | cons x t => simp only [entriesOf, hI]; exact List.mem_cons_of_mem _ he

theorem heads_spec {F : Nat → FnBeh} (fn : Option Nat) (q : List Val → Val) (I : Nat → List Val)
    (hq : ∀ f, fn = some f → ∀ n a, F f n a = .ok (q a)) :
    ∀ (l : List Nat) (idx : Nat) (acc : List Std.Entry) (w : World), Env F w → l.Nodup →
      (∀ s ∈ l, Has (w.srcs s) (I s)) →
      ∃ w', Std.heads fn l idx acc w = (.ok (acc ++ entriesOf (ListSpec.keyFn fn q) I l idx), w') ∧ Env F w'
        ∧ (∀ s ∈ l, Has (w'.srcs s) (I s).tail) ∧ (∀ t, t ∉ l → w'.srcs t = w.srcs t)
        ∧ yields w'.vis = yields w.vis := by
  intro l
  induction l with
  | nil => intro idx acc w he _ _; exact ⟨w, by simp [Std.heads, pure_apply, entriesOf], he, by simp, fun _ _ => rfl, rfl⟩
  | cons s rest ih =>
    intro idx acc w he hnd hh
    obtain ⟨hs_notin, hnd'⟩ := List.nodup_cons.mp hnd
    have hs := hh s (by simp)
    have hfin : ∀ (w1 w2 : World), (∀ t, t ≠ s → w1.srcs t = w.srcs t) → Has (w1.srcs s) (I s).tail →
        (∀ t ∈ rest, Has (w2.srcs t) (I t).tail) → (∀ t, t ∉ rest → w2.srcs t = w1.srcs t) →
        (∀ t ∈ s :: rest, Has (w2.srcs t) (I t).tail) ∧ (∀ t, t ∉ s :: rest → w2.srcs t = w.srcs t) := by
      intro w1 w2 ho1 hs1 hs2 ho2
      refine ⟨?_, ?_⟩
      · intro t ht
        rcases List.mem_cons.mp ht with rfl | ht
        · rw [ho2 t hs_notin]; exact hs1
        · exact hs2 t ht
      · intro t ht
        have h1 : t ≠ s := fun h => ht (by simp [h])
        have h2 : t ∉ rest := fun h => ht (by simp [h])
        rw [ho2 t h2, ho1 t h1]
    have hrest : ∀ w1 : World, (∀ t, t ≠ s → w1.srcs t = w.srcs t) → ∀ t ∈ rest, Has (w1.srcs t) (I t) := by
      intro w1 ho t ht
      have : t ≠ s := fun h => hs_notin (h ▸ ht)
      rw [ho t this]; exact hh t (by simp [ht])
    cases hI : I s with
    | nil =>
      rw [hI] at hs
      obtain ⟨w1, hp, he1, hs1, ho1, hy1⟩ := pull_nil he hs
      obtain ⟨w2, hr, he2, hs2, ho2, hy2⟩ := ih (idx + 1) acc w1 he1 hnd' (hrest w1 ho1)
      obtain ⟨h1, h2⟩ := hfin w1 w2 ho1 (by simpa [hI] using hs1) hs2 ho2
      exact ⟨w2, by simp [Std.heads, bind_apply, hp, hr, entriesOf, hI], he2, h1, h2, by rw [hy2, hy1]⟩
    | cons x t =>
      rw [hI] at hs
      obtain ⟨w1, hp, he1, hs1, ho1, hy1⟩ := pull_cons he hs
      obtain ⟨w1', hk, he1', hs1', hy1'⟩ := keyOf_spec fn q x he1 hq
      obtain ⟨w2, hr, he2, hs2, ho2, hy2⟩ := ih (idx + 1)
        (acc ++ [{ head := x, key := ListSpec.keyFn fn q x, src := s, idx := idx }]) w1' he1' hnd'
        (hrest w1' (fun t ht => by rw [hs1']; exact ho1 t ht))
      obtain ⟨h1, h2⟩ := hfin w1' w2 (fun t ht => by rw [hs1']; exact ho1 t ht)
        (by rw [hs1']; simpa [hI] using hs1) hs2 ho2
      exact ⟨w2, by simp [Std.heads, bind_apply, hp, hk, hr, entriesOf, hI], he2, h1, h2,
        by rw [hy2, hy1', hy1]⟩

theorem heapInv_init (srcs : List Nat) (kf : Val → Val) (I : Nat → List Val) (w : World)
    (hh : ∀ s ∈ srcs, Has (w.srcs s) (I s).tail) :
    HeapInv srcs kf w (entriesOf kf I srcs 0) (srcs.map I) := by
  refine ⟨entriesOf_nodup kf I srcs 0, ?_, ?_⟩
  · intro e he
    obtain ⟨k, hk, hsk, t, hI, hkey⟩ := entriesOf_mem kf I srcs 0 e he
    have hk' : e.idx = k := by omega
    refine ⟨t, by rw [hk', List.getElem?_map, hsk]; simp [hI], ?_, hkey, by rw [hk']; exact hsk⟩
    have := hh e.src (List.mem_of_getElem? hsk)
    rwa [hI] at this
  · intro i l hl hno
    rw [List.getElem?_map] at hl
    cases hs : srcs[i]? with
    | none => rw [hs] at hl; simp at hl
    | some s =>
      rw [hs] at hl; simp at hl
      apply Classical.byContradiction
      intro hne
      obtain ⟨e, he, hidx⟩ := entriesOf_complete kf I srcs 0 i s hs (by rw [hl]; exact hne)
      exact hno e he (by omega)

theorem keys_modify_tail {kf : Val → Val} {ls : List (List Val)} (i : Nat)
    (hk : ∀ l ∈ ls, ∀ x ∈ l, (kf x).key?.isSome = true) :
    ∀ l ∈ ls.modify i List.tail, ∀ x ∈ l, (kf x).key?.isSome = true := by
  intro l' hl' y hy
  obtain ⟨l0, hl0, hsub⟩ := mem_modify_tail ls i l' hl'
  exact hk l0 hl0 y (hsub y hy)

theorem mergeLoop_spec {F : Nat → FnBeh} (fn : Option Nat) (q : List Val → Val) (reverse : Bool)
    (srcs : List Nat) (hsn : srcs.Nodup) (hq : ∀ f, fn = some f → ∀ n a, F f n a = .ok (q a)) :
    ∀ (n : Nat) (heap : List Std.Entry) (ls : List (List Val)) (fuel : Nat) (w : World), Env F w →
      HeapInv srcs (ListSpec.keyFn fn q) w heap ls →
      (∀ l ∈ ls, ∀ x ∈ l, (ListSpec.keyFn fn q x).key?.isSome = true) →
      (ls.map List.length).sum ≤ n → n < fuel →
      ∃ w', Std.mergeLoop fn reverse heap fuel w = (.ok (), w') ∧ Env F w'
        ∧ yields w'.vis = yields w.vis ++ ListSpec.mergeN (ListSpec.keyFn fn q) reverse n ls := by
  intro n
  induction n with
  | zero =>
    intro heap ls fuel w he hinv hk hn hf
    cases fuel with
    | zero => simp at hf
    | succ fuel =>
      cases heap with
      | nil => exact ⟨w, by simp [Std.mergeLoop, pure_apply], he, by simp [ListSpec.mergeN]⟩
      | cons e rest =>
        obtain ⟨t, hle, _⟩ := hinv.ent e (by simp)
        have := length_le_sum ls e.idx _ hle
        simp at this; omega
  | succ n ih =>
    intro heap ls fuel w he hinv hk hn hf
    cases fuel with
    | zero => simp at hf
    | succ fuel =>
      match heap, hinv with
      | [], hinv =>
        refine ⟨w, by simp [Std.mergeLoop, pure_apply], he, ?_⟩
        rw [mergeN_all_empty]
        · simp
        · intro l hl
          obtain ⟨j, hj⟩ := List.mem_iff_getElem?.mp hl
          exact hinv.emp j l hj (by simp)
      | [e], hinv =>
        obtain ⟨t, hle, hhas, _, _⟩ := hinv.ent e (by simp)
        have hlen := length_le_sum ls e.idx _ hle
        simp at hlen
        obtain ⟨w1, hyv, he1, hs1, hy1⟩ := yieldV_ok e.head he
        obtain ⟨w2, hl, he2, _, hy2⟩ := passThrough_spec e.src t fuel w1 he1 (by rw [hs1]; exact hhas) (by omega)
        refine ⟨w2, by simp [Std.mergeLoop, bind_apply, hyv, hl], he2, ?_⟩
        rw [mergeN_single (ListSpec.keyFn fn q) reverse (e.head :: t) ls (n + 1) e.idx hle
          (fun j l' hj hne => hinv.emp j l' hj (by simp; exact fun h => hne h.symm)) (by simp; omega) hk]
        rw [hy2, hy1]; simp
      | e1 :: e2 :: rest, hinv =>
        obtain ⟨m, others, hp, hperm, hmin⟩ := popMin_spec reverse (e1 :: e2 :: rest) (heap_keys hinv hk)
          hinv.nd (by simp)
        have hpick := pick_agrees hinv hk m others hperm hmin
        have hm : m ∈ e1 :: e2 :: rest := hperm.mem_iff.mpr (by simp)
        obtain ⟨t, hlm, hhas, _, _⟩ := hinv.ent m hm
        have hsum := sum_modify_tail ls m.idx m.head t hlm
        have hk' := keys_modify_tail (kf := ListSpec.keyFn fn q) m.idx hk
        obtain ⟨w1, hyv, he1, hs1, hy1⟩ := yieldV_ok m.head he
        have hspec : ListSpec.mergeN (ListSpec.keyFn fn q) reverse (n + 1) ls
            = m.head :: ListSpec.mergeN (ListSpec.keyFn fn q) reverse n (ls.modify m.idx List.tail) := by
          simp [ListSpec.mergeN, hpick]
        cases t with
        | nil =>
          obtain ⟨w2, hpl, he2, _, ho2, hy2⟩ := pull_nil he1 (by rw [hs1]; exact hhas)
          have hinv' := heapInv_drop hsn hinv m others hperm hlm
            (w' := w2) (fun s hs => by rw [ho2 s hs, hs1])
          obtain ⟨w3, hl, he3, hy3⟩ := ih others _ fuel w2 he2 hinv' hk' (by omega) (by omega)
          refine ⟨w3, by simp [Std.mergeLoop, hp, bind_apply, hyv, hpl, hl], he3, ?_⟩
          rw [hy3, hy2, hy1, hspec]; simp
        | cons x t' =>
          obtain ⟨w2, hpl, he2, hs2, ho2, hy2⟩ := pull_cons he1 (by rw [hs1]; exact hhas)
          obtain ⟨w3, hky, he3, hs3, hy3⟩ := keyOf_spec fn q x he2 hq
          have hinv' := heapInv_replace hsn hinv m others hperm x t' hlm
            (w' := w3) (fun s hs => by rw [hs3, ho2 s hs, hs1]) (by rw [hs3]; exact hs2)
          obtain ⟨w4, hl, he4, hy4⟩ := ih _ _ fuel w3 he3 hinv' hk' (by omega) (by omega)
          refine ⟨w4, by simp [Std.mergeLoop, hp, bind_apply, hyv, hpl, hky, hl], he4, ?_⟩
          rw [hy4, hy3, hy2, hy1, hspec]; simp

theorem merge_spec {F : Nat → FnBeh} (fn : Option Nat) (q : List Val → Val) (reverse : Bool)
    (srcs : List Nat) (hsn : srcs.Nodup) (hq : ∀ f, fn = some f → ∀ n a, F f n a = .ok (q a))
    (I : Nat → List Val) (fuel : Nat) (w : World) (he : Env F w)
    (hh : ∀ s ∈ srcs, Has (w.srcs s) (I s))
    (hk : ∀ s ∈ srcs, ∀ x ∈ I s, (ListSpec.keyFn fn q x).key?.isSome = true)
    (hf : ((srcs.map I).map List.length).sum < fuel) :
    ∃ w', Std.merge fn reverse srcs fuel w = (.ok (), w') ∧ Env F w'
      ∧ yields w'.vis = yields w.vis ++ ListSpec.merge (ListSpec.keyFn fn q) reverse (srcs.map I) := by
  obtain ⟨w1, hhd, he1, hs1, _, hy1⟩ := heads_spec fn q I hq srcs 0 [] w he hsn hh
  have hinv := heapInv_init srcs (ListSpec.keyFn fn q) I w1 hs1
  obtain ⟨w2, hl, he2, hy2⟩ := mergeLoop_spec fn q reverse srcs hsn hq _ _ _ fuel w1 he1 hinv
    (fun l hl x hx => by
      obtain ⟨s, hs, rfl⟩ := List.mem_map.mp hl
      exact hk s hs x hx)
    (Nat.le_refl _) hf
  refine ⟨w2, ?_, he2, by rw [hy2, hy1]; rfl⟩
  simp only [List.nil_append] at hhd
  simp [Std.merge, bind_apply, hhd, hl]

/-! ## merge on sorted inputs is a stable merge (pure list facts about the specification) -/

theorem flatten_modify_tail_perm : ∀ (ls : List (List Val)) (i : Nat) (x : Val) (t : List Val),
    ls[i]? = some (x :: t) → ls.flatten.Perm (x :: (ls.modify i List.tail).flatten) := by
  intro ls
  induction ls with
  | nil => intro i x t h; simp at h
  | cons l0 rest ih =>
    intro i x t h
    cases i with
    | zero => simp at h; subst h; simp [List.modify_zero_cons]
    | succ i =>
      simp at h
      have := ih i x t h
      simp only [List.modify_succ_cons, List.flatten_cons]
      exact (List.Perm.append_left l0 this).trans List.perm_middle

theorem filter_flatten_hit (p : Val → Bool) : ∀ (ls : List (List Val)) (i : Nat) (x : Val) (t : List Val),
    ls[i]? = some (x :: t) → (∀ j, j < i → ∀ l, ls[j]? = some l → ∀ y ∈ l, p y = false) → p x = true →
    ls.flatten.filter p = x :: (ls.modify i List.tail).flatten.filter p := by
  intro ls
  induction ls with
  | nil => intro i x t h; simp at h
  | cons l0 rest ih =>
    intro i x t h hbefore hx
    cases i with
    | zero => simp at h; subst h; simp [List.modify_zero_cons, hx]
    | succ i =>
      simp at h
      have h0 : l0.filter p = [] := by
        apply List.filter_eq_nil_iff.mpr
        intro y hy
        have := hbefore 0 (by omega) l0 (by simp) y hy
        simp [this]
      have := ih i x t h (fun j hj l hl y hy => hbefore (j + 1) (by omega) l (by simpa using hl) y hy) hx
      simp only [List.modify_succ_cons, List.flatten_cons, List.filter_append, h0, List.nil_append, this]

theorem filter_flatten_miss (p : Val → Bool) : ∀ (ls : List (List Val)) (i : Nat) (x : Val) (t : List Val),
    ls[i]? = some (x :: t) → p x = false →
    ls.flatten.filter p = (ls.modify i List.tail).flatten.filter p := by
  intro ls
  induction ls with
  | nil => intro i x t h; simp at h
  | cons l0 rest ih =>
    intro i x t h hx
    cases i with
    | zero => simp at h; subst h; simp [List.modify_zero_cons, hx]
    | succ i =>
      simp at h
      have := ih i x t h hx
      simp only [List.modify_succ_cons, List.flatten_cons, List.filter_append, this]

/-- what the specification's choice satisfies, read off `pickFrom_spec` at position `0` -/
theorem pick_props (kf : Val → Val) (ls : List (List Val))
    (hk : ∀ l ∈ ls, ∀ x ∈ l, (kf x).key?.isSome = true) :
    match ListSpec.pickFrom kf false 0 ls with
    | none => ∀ l ∈ ls, l = []
    | some (i, x) => (∃ t, ls[i]? = some (x :: t))
        ∧ ∀ y u j, ls[j]? = some (y :: u) → j ≠ i → lexLt (rk false (kf x)) i (rk false (kf y)) j := by
  have h := pickFrom_spec kf false ls 0 hk
  cases hp : ListSpec.pickFrom kf false 0 ls with
  | none => rw [hp] at h; exact h
  | some r =>
    obtain ⟨i, x⟩ := r
    rw [hp] at h
    obtain ⟨⟨t, ht⟩, hb⟩ := h
    refine ⟨⟨t, by simpa using List.mem_zipIdx_iff_getElem?.mp ht⟩, ?_⟩
    intro y u j hj hne
    exact hb y u j (List.mem_zipIdx_iff_getElem?.mpr (by simpa using hj)) hne

theorem sum_zero_all_empty (ls : List (List Val)) (h : (ls.map List.length).sum = 0) : ∀ l ∈ ls, l = [] := by
  intro l hl
  obtain ⟨i, hi⟩ := List.mem_iff_getElem?.mp hl
  have := length_le_sum ls i l hi
  exact List.length_eq_zero_iff.mp (by omega)

theorem flatten_all_empty (ls : List (List Val)) (h : ∀ l ∈ ls, l = []) : ls.flatten = [] := by
  induction ls with
  | nil => rfl
  | cons l rest ih =>
    have := h l (by simp)
    subst this
    simpa using ih (fun l hl => h l (by simp [hl]))

theorem mergeN_perm (kf : Val → Val) : ∀ (n : Nat) (ls : List (List Val)),
    (∀ l ∈ ls, ∀ x ∈ l, (kf x).key?.isSome = true) → (ls.map List.length).sum ≤ n →
    (ListSpec.mergeN kf false n ls).Perm ls.flatten := by
  intro n
  induction n with
  | zero =>
    intro ls _ hn
    rw [flatten_all_empty ls (sum_zero_all_empty ls (by omega))]
    exact List.Perm.refl _
  | succ n ih =>
    intro ls hk hn
    have hp := pick_props kf ls hk
    cases hpk : ListSpec.pickFrom kf false 0 ls with
    | none =>
      rw [hpk] at hp
      rw [flatten_all_empty ls hp]
      simp [ListSpec.mergeN, hpk]
    | some r =>
      obtain ⟨i, x⟩ := r
      rw [hpk] at hp
      obtain ⟨⟨t, hli⟩, _⟩ := hp
      have hsum := sum_modify_tail ls i x t hli
      have := ih (ls.modify i List.tail) (keys_modify_tail i hk) (by omega)
      simp only [ListSpec.mergeN, hpk]
      exact (List.Perm.cons x this).trans (flatten_modify_tail_perm ls i x t hli).symm

theorem sorted_modify_tail {R : Val → Val → Prop} {ls : List (List Val)} (i : Nat)
    (hs : ∀ l ∈ ls, l.Pairwise R) : ∀ l ∈ ls.modify i List.tail, l.Pairwise R := by
  intro l' hl'
  obtain ⟨j, hj⟩ := List.mem_iff_getElem?.mp hl'
  by_cases hij : i = j
  · subst hij
    cases hl : ls[i]? with
    | none => simp [hl] at hj
    | some l =>
      rw [getElem?_modify_tail_same ls i l hl] at hj
      simp at hj; subst hj
      exact (hs l (List.mem_of_getElem? hl)).sublist (List.tail_sublist l)
  · rw [getElem?_modify_tail_ne ls i j hij] at hj
    exact hs l' (List.mem_of_getElem? hj)

/-- everything still to come is at least the chosen head; what comes from earlier inputs is larger -/
theorem pick_le_all (kf : Val → Val) (ls : List (List Val))
    (hk : ∀ l ∈ ls, ∀ x ∈ l, (kf x).key?.isSome = true)
    (hs : ∀ l ∈ ls, l.Pairwise (fun a b => rk false (kf a) ≤ rk false (kf b)))
    (i : Nat) (x : Val) (hpk : ListSpec.pickFrom kf false 0 ls = some (i, x)) :
    ∀ j l, ls[j]? = some l → ∀ y ∈ l, rk false (kf x) ≤ rk false (kf y)
      ∧ (j < i → rk false (kf x) < rk false (kf y)) := by
  have hp := pick_props kf ls hk
  rw [hpk] at hp
  obtain ⟨⟨t, hli⟩, hb⟩ := hp
  intro j l hl y hy
  by_cases hji : j = i
  · subst hji
    rw [hli] at hl; simp at hl; subst hl
    refine ⟨?_, fun h => absurd h (Nat.lt_irrefl _)⟩
    rcases List.mem_cons.mp hy with rfl | hy
    · exact Int.le_refl _
    · exact (List.pairwise_cons.mp (hs _ (List.mem_of_getElem? hli))).1 y hy
  · cases l with
    | nil => simp at hy
    | cons y0 u =>
      have h1 := hb y0 u j hl hji
      have h2 : rk false (kf y0) ≤ rk false (kf y) := by
        rcases List.mem_cons.mp hy with rfl | hy
        · exact Int.le_refl _
        · exact (List.pairwise_cons.mp (hs _ (List.mem_of_getElem? hl))).1 y hy
      unfold lexLt at h1
      refine ⟨by omega, fun h => by omega⟩

theorem mergeN_sorted (kf : Val → Val) : ∀ (n : Nat) (ls : List (List Val)),
    (∀ l ∈ ls, ∀ x ∈ l, (kf x).key?.isSome = true) →
    (∀ l ∈ ls, l.Pairwise (fun a b => rk false (kf a) ≤ rk false (kf b))) →
    (ls.map List.length).sum ≤ n →
    (ListSpec.mergeN kf false n ls).Pairwise (fun a b => rk false (kf a) ≤ rk false (kf b)) := by
  intro n
  induction n with
  | zero => intro ls _ _ _; simp [ListSpec.mergeN]
  | succ n ih =>
    intro ls hk hs hn
    cases hpk : ListSpec.pickFrom kf false 0 ls with
    | none => simp [ListSpec.mergeN, hpk]
    | some r =>
      obtain ⟨i, x⟩ := r
      have hp := pick_props kf ls hk
      rw [hpk] at hp
      obtain ⟨⟨t, hli⟩, _⟩ := hp
      have hsum := sum_modify_tail ls i x t hli
      have hk' := keys_modify_tail (kf := kf) i hk
      simp only [ListSpec.mergeN, hpk]
      refine List.pairwise_cons.mpr ⟨?_, ih _ hk' (sorted_modify_tail i hs) (by omega)⟩
      intro y hy
      have hy' : y ∈ (ls.modify i List.tail).flatten := (mergeN_perm kf n _ hk' (by omega)).mem_iff.mp hy
      obtain ⟨l', hl', hyl⟩ := List.mem_flatten.mp hy'
      obtain ⟨l0, hl0, hsub⟩ := mem_modify_tail ls i l' hl'
      obtain ⟨j, hj⟩ := List.mem_iff_getElem?.mp hl0
      exact (pick_le_all kf ls hk hs i x hpk j l0 hj y (hsub y hyl)).1

theorem mergeN_stable (kf : Val → Val) (k : Int) : ∀ (n : Nat) (ls : List (List Val)),
    (∀ l ∈ ls, ∀ x ∈ l, (kf x).key?.isSome = true) →
    (∀ l ∈ ls, l.Pairwise (fun a b => rk false (kf a) ≤ rk false (kf b))) →
    (ls.map List.length).sum ≤ n →
    (ListSpec.mergeN kf false n ls).filter (fun x => rk false (kf x) == k)
      = ls.flatten.filter (fun x => rk false (kf x) == k) := by
  intro n
  induction n with
  | zero =>
    intro ls _ _ hn
    rw [flatten_all_empty ls (sum_zero_all_empty ls (by omega))]
    simp [ListSpec.mergeN]
  | succ n ih =>
    intro ls hk hs hn
    have hp := pick_props kf ls hk
    cases hpk : ListSpec.pickFrom kf false 0 ls with
    | none =>
      rw [hpk] at hp
      rw [flatten_all_empty ls hp]
      simp [ListSpec.mergeN, hpk]
    | some r =>
      obtain ⟨i, x⟩ := r
      rw [hpk] at hp
      obtain ⟨⟨t, hli⟩, _⟩ := hp
      have hsum := sum_modify_tail ls i x t hli
      have hrec := ih _ (keys_modify_tail (kf := kf) i hk) (sorted_modify_tail i hs) (by omega)
      simp only [ListSpec.mergeN, hpk]
      by_cases hx : rk false (kf x) = k
      · have hxb : (rk false (kf x) == k) = true := by simp [hx]
        simp only [List.filter_cons, hxb, ↓reduceIte]
        rw [hrec]
        rw [filter_flatten_hit (fun x => rk false (kf x) == k) ls i x t hli ?_ hxb]
        intro j hj l hl y hy
        have := (pick_le_all kf ls hk hs i x hpk j l hl y hy).2 hj
        have hne : ¬ rk false (kf y) = k := by omega
        simp [hne]
      · have hxb : (rk false (kf x) == k) = false := by simp [hx]
        simp only [List.filter_cons, hxb, Bool.false_eq_true, ↓reduceIte]
        rw [hrec]
        exact (filter_flatten_miss (fun x => rk false (kf x) == k) ls i x t hli hxb).symm

/-! ## `dropwhile`: asyncstdlib's two loops against CPython's one loop with a flag — in *every* world
(faults, any consumer), provided the fuel exceeds what the source can still deliver -/

theorem pull_some_shrinks {s : Nat} {w w' : World} {x : Val} (h : pull s w = (.ok (some x), w')) :
    (w'.srcs s).script.length + 1 = (w.srcs s).script.length := by
  unfold pull at h
  by_cases hl : (w.srcs s).status.live = true
  · simp only [hl, if_true] at h
    cases hs : (w.srcs s).script with
    | nil => rw [hs] at h; simp at h
    | cons r rest =>
      rw [hs] at h
      cases r with
      | item v =>
        simp only [Prod.mk.injEq] at h
        obtain ⟨_, rfl⟩ := h
        simp [World.pushVis, World.setSrc]
      | err e => simp at h
  · simp only [hl] at h
    by_cases hv : (w.srcs s).kind.repollVisible = true
    · simp [hv] at h
    · simp [hv] at h

theorem call_srcs (f : Nat) (args : List Val) (w : World) : (call f args w).2.srcs = w.srcs := by
  cases h : w.fns f (w.calls f) args <;> simp [call, h, World.pushVis]

theorem yieldV_srcs (v : Val) (w : World) : (yieldV v w).2.srcs = w.srcs := by
  unfold yieldV
  cases hc : w.cons with
  | done => simp [World.pushVis]
  | run n fin =>
    cases n with
    | succ n => simp [World.pushVis]
    | zero => cases fin <;> simp [World.pushVis]

/-! ## sanity of the hand-written specifications -/

theorem chunksN_flatten (n : Nat) (hn : 1 ≤ n) : ∀ (k : Nat) (l : List Val), l.length ≤ k →
    (ListSpec.chunksN n k l).flatten = l := by
  intro k
  induction k with
  | zero => intro l hl; have : l = [] := by simpa using hl
            subst this; rfl
  | succ k ih =>
    intro l hl
    cases hl' : l with
    | nil => simp [ListSpec.chunksN]
    | cons x xs =>
      rw [← hl']
      have hne : l.isEmpty = false := by simp [hl']
      have hlen : 1 ≤ l.length := by simp [hl']
      simp only [ListSpec.chunksN, hne, Bool.false_eq_true, if_false, List.flatten_cons]
      rw [ih (l.drop n) (by simp; omega), List.take_append_drop]

/-- element `i` of `cycleTake items m cur`: from `cur` while it lasts, then `items` round and round -/
theorem cycleTake_getElem? (items : List Val) (hne : items ≠ []) : ∀ (m : Nat) (cur : List Val) (i : Nat), i < m →
    (ListSpec.cycleTake items m cur)[i]? =
      if i < cur.length then cur[i]? else items[(i - cur.length) % items.length]? := by
  intro m
  induction m with
  | zero => intro cur i hi; omega
  | succ m ih =>
    intro cur i hi
    cases cur with
    | cons x c =>
      cases i with
      | zero => simp [ListSpec.cycleTake]
      | succ i =>
        simp only [ListSpec.cycleTake, List.getElem?_cons_succ, List.length_cons]
        rw [ih c i (by omega)]
        by_cases h : i < c.length
        · simp [h]
        · have h' : ¬ i + 1 < c.length + 1 := by omega
          simp only [h, h', if_false]
          rw [show i + 1 - (c.length + 1) = i - c.length by omega]
    | nil =>
      cases hi' : items with
      | nil => exact absurd hi' hne
      | cons x rest =>
        rw [hi'] at ih
        cases i with
        | zero => simp [ListSpec.cycleTake]
        | succ i =>
          simp only [ListSpec.cycleTake, List.getElem?_cons_succ, List.length_nil, Nat.not_lt_zero, if_false,
            Nat.sub_zero, List.length_cons]
          rw [ih rest i (by omega)]
          by_cases h : i < rest.length
          · have h1 : (i + 1) % (rest.length + 1) = i + 1 := Nat.mod_eq_of_lt (by omega)
            simp [h, h1]
          · simp only [h, if_false, List.length_cons]
            have e : i + 1 = (i - rest.length) + (rest.length + 1) := by omega
            conv => rhs; rw [e, Nat.add_mod_right]

end AsyncVerif.V1
