import AsyncVerif.Machines.Cleanup
/-! Helper definitions and lemmas for the clean-up machine (`Machines/Cleanup.lean`).
    Property theorems live in `Properties/C04Cleanup.lean`. -/
namespace AsyncVerif.Cleanup

/-- indices (as carried by the list) of the entries that have an `aclose`, in list order -/
def closeableIds (l : Indexed) : List Nat := (l.filter (·.1.closeable)).map (·.2)

/-- the exception of the last raising entry -/
def lastExc (l : Indexed) : Option ExcId := (l.filterMap (·.1.exc)).getLast?

/-- positions of the iterators that have an `aclose`, increasing -/
def closeableIdx (behs : List CloseBeh) : List Nat := closeableIds behs.zipIdx

/-- the exception raised by the last (in list order) iterator whose `aclose` raises -/
def lastFailure (behs : List CloseBeh) : Option ExcId := (behs.filterMap CloseBeh.exc).getLast?

/-! ## closed forms of the building blocks -/

theorem closeableIds_nil : closeableIds [] = [] := rfl

theorem closeableIds_cons (bi : CloseBeh × Nat) (l : Indexed) :
    closeableIds (bi :: l) = (if bi.1.closeable then [bi.2] else []) ++ closeableIds l := by
  unfold closeableIds
  by_cases h : bi.1.closeable <;> simp [h]

theorem closeableIds_append (l₁ l₂ : Indexed) :
    closeableIds (l₁ ++ l₂) = closeableIds l₁ ++ closeableIds l₂ := by
  simp [closeableIds]

theorem lastExc_nil : lastExc [] = none := rfl

theorem lastExc_snoc (l : Indexed) (bi : CloseBeh × Nat) :
    lastExc (l ++ [bi]) = replaceBy bi.1.exc (lastExc l) := by
  unfold lastExc replaceBy
  cases h : bi.1.exc <;> simp [List.filterMap_append, h]

theorem lastExc_cons (bi : CloseBeh × Nat) (l : Indexed) :
    lastExc (bi :: l) = replaceBy (lastExc l) bi.1.exc := by
  unfold lastExc replaceBy
  cases h : bi.1.exc with
  | none =>
    simp only [List.filterMap_cons, h]
    cases (List.filterMap (fun x => x.1.exc) l).getLast? <;> rfl
  | some e =>
    simp only [List.filterMap_cons, h, List.getLast?_cons]
    cases (List.filterMap (fun x => x.1.exc) l).getLast? <;> rfl

theorem replaceBy_assoc (a b c : Option ExcId) :
    replaceBy a (replaceBy b c) = replaceBy (replaceBy a b) c := by
  cases a <;> rfl

theorem replaceBy_none_left (a : Option ExcId) : replaceBy none a = a := rfl
theorem replaceBy_none_right (a : Option ExcId) : replaceBy a none = a := by cases a <;> rfl

theorem stepRobust_log (st : State) (bi : CloseBeh × Nat) :
    (stepRobust st bi).log = st.log ++ closeableIds [bi] := by
  obtain ⟨b, i⟩ := bi
  cases b <;> simp [stepRobust, State.invoke, closeableIds, CloseBeh.closeable]

theorem stepRobust_failure (st : State) (bi : CloseBeh × Nat) :
    (stepRobust st bi).failure = replaceBy bi.1.exc st.failure := by
  obtain ⟨b, i⟩ := bi
  cases b <;> simp [stepRobust, State.invoke, replaceBy, CloseBeh.exc]

theorem foldl_log (l : Indexed) (st : State) :
    (l.foldl stepRobust st).log = st.log ++ closeableIds l := by
  induction l generalizing st with
  | nil => simp [closeableIds]
  | cons bi rest ih =>
    rw [List.foldl_cons, ih, stepRobust_log, List.append_assoc, ← closeableIds_append]
    rfl

theorem foldl_failure (l : Indexed) (st : State) :
    (l.foldl stepRobust st).failure = replaceBy (lastExc l) st.failure := by
  induction l generalizing st with
  | nil => rfl
  | cons bi rest ih =>
    rw [List.foldl_cons, ih, stepRobust_failure, lastExc_cons, replaceBy_assoc]

/-- the nested scopes, in closed form -/
theorem scopes_closed (stack : Indexed) (body : Option ExcId) :
    scopes stack body = (closeableIds stack.reverse, replaceBy (lastExc stack.reverse) body) := by
  induction stack with
  | nil => rfl
  | cons bi inner ih =>
    obtain ⟨b, i⟩ := bi
    rw [List.reverse_cons, closeableIds_append, lastExc_snoc]
    cases b <;>
      simp [scopes, ih, closeableIds, CloseBeh.closeable, CloseBeh.exc, replaceBy]

/-! ## `closes` is the count of the log -/

theorem countsOf_nil (n : Nat) : countsOf n [] = List.replicate n 0 := by
  apply List.ext_getElem?
  intro j
  simp [countsOf, List.getElem?_replicate]
  by_cases h : j < n <;> simp [h]

theorem invoke_closes (st : State) (n i : Nat) (h : st.closes = countsOf n st.log) :
    (st.invoke i).closes = countsOf n (st.invoke i).log := by
  apply List.ext_getElem?
  intro j
  simp only [State.invoke, h, List.getElem?_modify, countsOf, List.getElem?_map,
    List.count_append, List.count_singleton]
  by_cases hj : j < n
  · simp only [List.getElem?_range hj, Option.map_some, Option.map_eq_map]
    by_cases hij : i = j <;> simp [hij]
  · have : (List.range n)[j]? = none := by simp; omega
    simp [this]

theorem stepRobust_closes (st : State) (n : Nat) (bi : CloseBeh × Nat)
    (h : st.closes = countsOf n st.log) :
    (stepRobust st bi).closes = countsOf n (stepRobust st bi).log := by
  obtain ⟨b, i⟩ := bi
  cases b <;> simp only [stepRobust] <;> first | exact h | exact invoke_closes st n i h

theorem foldl_closes (l : Indexed) (st : State) (n : Nat) (h : st.closes = countsOf n st.log) :
    (l.foldl stepRobust st).closes = countsOf n (l.foldl stepRobust st).log := by
  induction l generalizing st with
  | nil => exact h
  | cons bi rest ih => exact ih _ (stepRobust_closes st n bi h)

/-! ## positions -/

theorem count_closeableIds_zipIdx (behs : List CloseBeh) (k i : Nat) :
    (closeableIds (behs.zipIdx k)).count i =
      if k ≤ i ∧ (behs[i - k]?.map CloseBeh.closeable) = some true then 1 else 0 := by
  induction behs generalizing k with
  | nil => simp [closeableIds]
  | cons b rest ih =>
    rw [List.zipIdx_cons, closeableIds_cons, List.count_append, ih]
    by_cases hik : i = k
    · subst hik
      have : ¬ (i + 1 ≤ i) := by omega
      by_cases hb : b.closeable <;> simp [hb, this]
    · have h0 : (if b.closeable = true then [k] else []).count i = 0 := by
        by_cases hb : b.closeable
        · have : k ≠ i := fun h => hik h.symm
          simp [hb, this]
        · simp [hb]
      rw [h0]
      by_cases hlt : k + 1 ≤ i
      · have e : i - k = (i - (k + 1)) + 1 := by omega
        have hk : k ≤ i := by omega
        simp [hlt, hk, e]
      · have hk : ¬ k ≤ i := by omega
        simp [hlt, hk]

theorem closeableIds_zipIdx_pairwise (behs : List CloseBeh) (k : Nat) :
    (closeableIds (behs.zipIdx k)).Pairwise (· < ·) := by
  have hsub : List.Sublist (closeableIds (behs.zipIdx k)) ((behs.zipIdx k).map (·.2)) :=
    (List.filter_sublist).map _
  have hr : (behs.zipIdx k).map (·.2) = List.range' k behs.length := by
    simp
  rw [hr] at hsub
  exact List.Pairwise.sublist hsub List.pairwise_lt_range'

theorem lastExc_zipIdx (behs : List CloseBeh) (k : Nat) :
    lastExc (behs.zipIdx k) = lastFailure behs := by
  unfold lastExc lastFailure
  have : (behs.zipIdx k).filterMap (fun x => x.1.exc)
      = ((behs.zipIdx k).map (·.1)).filterMap CloseBeh.exc := by
    rw [List.filterMap_map]; rfl
  rw [this, List.zipIdx_map_fst]

/-! ## the old loop -/

theorem loopFlat_noexc (pre : Indexed) (st : State) (hpre : ∀ p ∈ pre, p.1.exc = none) :
    loopFlat pre st = pre.foldl stepRobust st := by
  induction pre generalizing st with
  | nil => rfl
  | cons a rest ih =>
    obtain ⟨b, i⟩ := a
    have hb : b.exc = none := hpre (b, i) (by simp)
    have hrest : ∀ p ∈ rest, p.1.exc = none := fun p hp => hpre p (by simp [hp])
    cases b with
    | noAclose => simp only [loopFlat, List.foldl_cons, stepRobust]; exact ih _ hrest
    | ok => simp only [loopFlat, List.foldl_cons, stepRobust]; exact ih _ hrest
    | raises e => simp [CloseBeh.exc] at hb
    | interrupted e => simp [CloseBeh.exc] at hb

theorem loopFlat_first_failure (pre post : Indexed) (bi : CloseBeh × Nat) (e : ExcId) (st : State)
    (hpre : ∀ p ∈ pre, p.1.exc = none) (hb : bi.1.exc = some e) :
    loopFlat (pre ++ bi :: post) st = stepRobust (pre.foldl stepRobust st) bi := by
  induction pre generalizing st with
  | nil =>
    obtain ⟨b, i⟩ := bi
    cases b with
    | noAclose => simp [CloseBeh.exc] at hb
    | ok => simp [CloseBeh.exc] at hb
    | raises e' => simp [loopFlat, stepRobust]
    | interrupted e' => simp [loopFlat, stepRobust]
  | cons a rest ih =>
    obtain ⟨b, i⟩ := a
    have hb' : b.exc = none := hpre (b, i) (by simp)
    have hrest : ∀ p ∈ rest, p.1.exc = none := fun p hp => hpre p (by simp [hp])
    cases b with
    | noAclose => simp only [List.cons_append, loopFlat, List.foldl_cons, stepRobust]; exact ih _ hrest
    | ok => simp only [List.cons_append, loopFlat, List.foldl_cons, stepRobust]; exact ih _ hrest
    | raises e => simp [CloseBeh.exc] at hb'
    | interrupted e => simp [CloseBeh.exc] at hb'

/-- the old loop is the new loop on the prefix up to and including the first raising entry -/
theorem loopFlat_eq_take (l : Indexed) (st : State) :
    loopFlat l st = (l.take (l.findIdx (fun bi => bi.1.exc.isSome) + 1)).foldl stepRobust st := by
  induction l generalizing st with
  | nil => rfl
  | cons a rest ih =>
    obtain ⟨b, i⟩ := a
    cases b with
    | noAclose => simp [loopFlat, List.findIdx_cons, CloseBeh.exc, stepRobust, ih]
    | ok => simp [loopFlat, List.findIdx_cons, CloseBeh.exc, stepRobust, ih]
    | raises e => simp [loopFlat, List.findIdx_cons, CloseBeh.exc, stepRobust]
    | interrupted e => simp [loopFlat, List.findIdx_cons, CloseBeh.exc, stepRobust]

theorem findIdx_zipIdx (p : CloseBeh → Bool) (behs : List CloseBeh) (k : Nat) :
    (behs.zipIdx k).findIdx (fun bi => p bi.1) = behs.findIdx p := by
  induction behs generalizing k with
  | nil => rfl
  | cons b rest ih => simp [List.zipIdx_cons, List.findIdx_cons, ih]

/-- an entry list either never raises, or splits at its first raising entry -/
theorem exists_first_failure (behs : List CloseBeh) :
    (∀ b ∈ behs, b.exc = none) ∨
    ∃ pre b post e, behs = pre ++ b :: post ∧ (∀ p ∈ pre, p.exc = none) ∧ b.exc = some e := by
  induction behs with
  | nil => left; simp
  | cons a rest ih =>
    cases ha : a.exc with
    | some e => right; exact ⟨[], a, rest, e, rfl, by simp, ha⟩
    | none =>
      rcases ih with h | ⟨pre, b, post, e, h1, h2, h3⟩
      · left; intro b hb
        rcases List.mem_cons.mp hb with rfl | hb
        · exact ha
        · exact h b hb
      · right
        refine ⟨a :: pre, b, post, e, by simp [h1], ?_, h3⟩
        intro p hp
        rcases List.mem_cons.mp hp with rfl | hp
        · exact ha
        · exact h2 p hp

/-! ## closed forms of the three machines -/

theorem closeAllRobust_closed (behs : List CloseBeh) :
    closeAllRobust behs = (closeableIdx behs, lastFailure behs) := by
  simp only [closeAllRobust, runRobust, foldl_log, foldl_failure, State.init, List.nil_append,
    replaceBy_none_right, lastExc_zipIdx, closeableIdx]

theorem closeNested_closed (behs : List CloseBeh) (body : Option ExcId) :
    scopes (nestedOf behs) body = (closeableIdx behs, replaceBy (lastFailure behs) body) := by
  simp only [nestedOf, scopes_closed, List.reverse_reverse, lastExc_zipIdx, closeableIdx]

theorem runRobust_closes (behs : List CloseBeh) :
    (runRobust behs).closes = countsOf behs.length (runRobust behs).log := by
  unfold runRobust
  apply foldl_closes
  simp [State.init, countsOf_nil]

theorem runFlat_closes (behs : List CloseBeh) :
    (runFlat behs).closes = countsOf behs.length (runFlat behs).log := by
  unfold runFlat
  rw [loopFlat_eq_take]
  apply foldl_closes
  simp [State.init, countsOf_nil]

theorem count_closeableIdx (behs : List CloseBeh) (i : Nat) (h : i < behs.length) :
    (closeableIdx behs).count i = if behs[i] = .noAclose then 0 else 1 := by
  unfold closeableIdx
  rw [count_closeableIds_zipIdx]
  simp only [Nat.zero_le, Nat.sub_zero, true_and, List.getElem?_eq_getElem h, Option.map_some]
  cases behs[i] <;> simp [CloseBeh.closeable]

theorem count_closeableIdx_oob (behs : List CloseBeh) (i : Nat) (h : behs.length ≤ i) :
    (closeableIdx behs).count i = 0 := by
  unfold closeableIdx
  rw [count_closeableIds_zipIdx]
  have : behs[i]? = none := by simp; omega
  simp [this]

theorem countsOf_closeableIdx (behs : List CloseBeh) :
    countsOf behs.length (closeableIdx behs)
      = behs.map (fun b => if b = .noAclose then 0 else 1) := by
  apply List.ext_getElem
  · simp [countsOf]
  · intro i h1 h2
    have hi : i < behs.length := by simpa using h2
    simp only [countsOf, List.getElem_map, List.getElem_range]
    exact count_closeableIdx behs i hi

theorem closeableIds_zipIdx_eq_nil (l : List CloseBeh) (k : Nat) :
    closeableIds (l.zipIdx k) = [] ↔ ∀ p ∈ l, p = .noAclose := by
  induction l generalizing k with
  | nil => simp [closeableIds]
  | cons b rest ih =>
    rw [List.zipIdx_cons, closeableIds_cons, List.append_eq_nil_iff, ih]
    cases b <;> simp [CloseBeh.closeable]

theorem closeableIdx_append_cons (pre post : List CloseBeh) (b : CloseBeh) (h : b ≠ .noAclose) :
    closeableIdx (pre ++ b :: post)
      = closeableIdx pre ++ [pre.length] ++ closeableIds (post.zipIdx (pre.length + 1)) := by
  unfold closeableIdx
  rw [List.zipIdx_append, closeableIds_append, List.zipIdx_cons, closeableIds_cons]
  have : b.closeable = true := by cases b <;> simp_all [CloseBeh.closeable]
  simp [this, List.append_assoc]

theorem zipIdx_take (l : List CloseBeh) (k m : Nat) :
    (l.zipIdx k).take m = (l.take m).zipIdx k := by
  induction l generalizing k m with
  | nil => simp
  | cons b rest ih =>
    cases m with
    | zero => simp
    | succ m => simp [List.zipIdx_cons, ih]

/-- log and exception of a run do not depend on the `closes` counters it was started with -/
theorem foldl_log_failure (l : Indexed) (st : State) :
    ((l.foldl stepRobust st).log, (l.foldl stepRobust st).failure)
      = (st.log ++ closeableIds l, replaceBy (lastExc l) st.failure) := by
  rw [foldl_log, foldl_failure]

theorem closeAllFlat_take (behs : List CloseBeh) :
    closeAllFlat behs
      = closeAllRobust (behs.take (behs.findIdx (fun b => b.exc.isSome) + 1)) := by
  unfold closeAllFlat runFlat closeAllRobust runRobust
  rw [loopFlat_eq_take, findIdx_zipIdx (fun b => b.exc.isSome), zipIdx_take,
    foldl_log_failure, foldl_log_failure]
  rfl

theorem closeAllFlat_noexc (behs : List CloseBeh) (h : ∀ b ∈ behs, b.exc = none) :
    closeAllFlat behs = closeAllRobust behs := by
  unfold closeAllFlat runFlat closeAllRobust runRobust
  rw [loopFlat_noexc]
  intro p hp
  exact h p.1 (by
    have := List.mem_map_of_mem (f := Prod.fst) hp
    simpa using this)

theorem closeAllFlat_first_failure (pre post : List CloseBeh) (b : CloseBeh) (e : ExcId)
    (hpre : ∀ p ∈ pre, p.exc = none) (hb : b.exc = some e) :
    closeAllFlat (pre ++ b :: post) = (closeableIdx pre ++ [pre.length], some e) := by
  unfold closeAllFlat runFlat
  rw [List.zipIdx_append, List.zipIdx_cons, loopFlat_first_failure _ _ _ e _ _ hb]
  · rw [stepRobust_log, stepRobust_failure, foldl_log]
    have : b.closeable = true := by cases b <;> simp_all [CloseBeh.closeable, CloseBeh.exc]
    simp [State.init, closeableIds_cons, closeableIds_nil, this, hb, replaceBy, closeableIdx]
  · intro p hp
    exact hpre p.1 (by
      have := List.mem_map_of_mem (f := Prod.fst) hp
      simpa using this)

/-- no iterator after a raising one has an `aclose` -/
def NoCloseAfterFail (behs : List CloseBeh) : Prop :=
  ∀ pre b post, behs = pre ++ b :: post → b.exc ≠ none → ∀ p ∈ post, p = .noAclose

theorem ncaf_cons_ok (a : CloseBeh) (rest : List CloseBeh) (ha : a.exc = none) :
    NoCloseAfterFail (a :: rest) ↔ NoCloseAfterFail rest := by
  constructor
  · intro h pre b post hd hb
    exact h (a :: pre) b post (by simp [hd]) hb
  · intro h pre b post hd hb
    cases pre with
    | nil =>
      simp only [List.nil_append, List.cons.injEq] at hd
      exact absurd (hd.1 ▸ ha) hb
    | cons a' pre' =>
      simp only [List.cons_append, List.cons.injEq] at hd
      exact h pre' b post hd.2 hb

theorem ncaf_cons_fail (a : CloseBeh) (rest : List CloseBeh) (ha : a.exc ≠ none) :
    NoCloseAfterFail (a :: rest) ↔ ∀ p ∈ rest, p = .noAclose := by
  constructor
  · intro h
    exact h [] a rest rfl ha
  · intro h pre b post hd hb
    cases pre with
    | nil =>
      simp only [List.nil_append, List.cons.injEq] at hd
      rw [← hd.2]; exact h
    | cons a' pre' =>
      simp only [List.cons_append, List.cons.injEq] at hd
      have hbm : b ∈ rest := by rw [hd.2]; simp
      have := h b hbm
      subst this
      exact absurd rfl hb

theorem flat_log_iff (behs : List CloseBeh) (k : Nat) (st : State) :
    (loopFlat (behs.zipIdx k) st).log = ((behs.zipIdx k).foldl stepRobust st).log
      ↔ NoCloseAfterFail behs := by
  induction behs generalizing k st with
  | nil => simp [loopFlat, NoCloseAfterFail]
  | cons a rest ih =>
    rw [List.zipIdx_cons]
    cases a with
    | noAclose =>
      rw [ncaf_cons_ok _ _ rfl]
      simp only [loopFlat, List.foldl_cons, stepRobust]
      exact ih _ _
    | ok =>
      rw [ncaf_cons_ok _ _ rfl]
      simp only [loopFlat, List.foldl_cons, stepRobust]
      exact ih _ _
    | raises e =>
      rw [ncaf_cons_fail _ _ (by simp [CloseBeh.exc]), ← closeableIds_zipIdx_eq_nil rest (k + 1)]
      simp [loopFlat, foldl_log, stepRobust, State.invoke]
    | interrupted e =>
      rw [ncaf_cons_fail _ _ (by simp [CloseBeh.exc]), ← closeableIds_zipIdx_eq_nil rest (k + 1)]
      simp [loopFlat, foldl_log, stepRobust, State.invoke]

end AsyncVerif.Cleanup
