import AsyncVerif.Proofs.Values
import AsyncVerif.Proofs.Values2
/-!
# Value lemmas (C01), third part: `compress`, `iter(callable, sentinel)`, and `merge` in either direction

* `compressLoop_spec`: `compress_next` on two distinct sources.
* `ScriptedFn`, `iterSentinel_spec`: a callable whose successive results are a given list.
* `mergeN_permR`, `mergeN_sortedR`, `mergeN_stableR`: the list facts about the greedy merge of
  `Values2.lean`, for any `reverse` (there they are stated for `reverse = false`).
-/
namespace AsyncVerif.V1

/-! ## compress -/

theorem compress_nil_left (sels : List Val) : ListSpec.compress [] sels = [] := by
  simp [ListSpec.compress]

theorem compress_nil_right (data : List Val) : ListSpec.compress data [] = [] := by
  simp [ListSpec.compress]

theorem compress_cons (x k : Val) (data sels : List Val) :
    ListSpec.compress (x :: data) (k :: sels)
      = (if k.truthy then [x] else []) ++ ListSpec.compress data sels := by
  cases hk : k.truthy <;> simp [ListSpec.compress, hk]

theorem compressLoop_spec {F : Nat → FnBeh} (d sel : Nat) (hne : d ≠ sel) :
    ∀ (data sels : List Val) (fuel : Nat) (w : World), Env F w →
      Has (w.srcs d) data → Has (w.srcs sel) sels → min data.length sels.length < fuel →
      ∃ w', Std.compressLoop d sel fuel w = (.ok (), w') ∧ Env F w'
        ∧ yields w'.vis = yields w.vis ++ ListSpec.compress data sels := by
  intro data
  induction data with
  | nil =>
    intro sels fuel w he hd _ hf
    cases fuel with
    | zero => simp at hf
    | succ fuel =>
      obtain ⟨w1, hp, he1, _, _, hy1⟩ := pull_nil he hd
      exact ⟨w1, by simp [Std.compressLoop, bind_apply, hp, pure_apply], he1,
        by simp [hy1, compress_nil_left]⟩
  | cons x xs ih =>
    intro sels fuel w he hd hs hf
    cases fuel with
    | zero => simp at hf
    | succ fuel =>
      obtain ⟨w1, hp, he1, hd1, ho1, hy1⟩ := pull_cons he hd
      have hs1 : Has (w1.srcs sel) sels := by rw [ho1 sel (fun h => hne h.symm)]; exact hs
      cases sels with
      | nil =>
        obtain ⟨w2, hp2, he2, _, _, hy2⟩ := pull_nil he1 hs1
        exact ⟨w2, by simp [Std.compressLoop, bind_apply, hp, hp2, pure_apply], he2,
          by simp [hy2, hy1, compress_nil_right]⟩
      | cons k ks =>
        obtain ⟨w2, hp2, he2, hs2, ho2, hy2⟩ := pull_cons he1 hs1
        have hd2 : Has (w2.srcs d) xs := by rw [ho2 d hne]; exact hd1
        have hf' : min xs.length ks.length < fuel := by
          simp only [List.length_cons] at hf; omega
        cases hk : k.truthy with
        | false =>
          obtain ⟨w3, hl, he3, hy3⟩ := ih ks fuel w2 he2 hd2 hs2 hf'
          exact ⟨w3, by simp [Std.compressLoop, bind_apply, hp, hp2, hk, hl], he3,
            by simp [hy3, hy2, hy1, compress_cons, hk]⟩
        | true =>
          obtain ⟨w3, hyv, he3, hs3, hy3⟩ := yieldV_ok x he2
          obtain ⟨w4, hl, he4, hy4⟩ := ih ks fuel w3 he3 (by rw [hs3]; exact hd2) (by rw [hs3]; exact hs2) hf'
          exact ⟨w4, by simp [Std.compressLoop, bind_apply, hp, hp2, hk, hyv, hl], he4,
            by simp [hy4, hy3, hy2, hy1, compress_cons, hk]⟩

/-! ## `iter(callable, sentinel)` -/

/-- callable `f` is scripted: its next invocations (counted from the current invocation number
    `w.calls f`), called without arguments, return the elements of `rs` one after the other -/
def ScriptedFn (w : World) (f : Nat) (rs : List Val) : Prop :=
  ∀ n (h : n < rs.length), w.fns f (w.calls f + n) [] = .ok rs[n]

/-- one invocation of a scripted callable returns the head of the script and leaves the rest scripted -/
theorem call_scripted {F : Nat → FnBeh} {f : Nat} {v : Val} {rest : List Val} {w : World}
    (he : Env F w) (hr : ScriptedFn w f (v :: rest)) :
    ∃ w', call f [] w = (.ok v, w') ∧ Env F w' ∧ ScriptedFn w' f rest
      ∧ yields w'.vis = yields w.vis := by
  have h0 : w.fns f (w.calls f) [] = .ok v := hr 0 (by simp)
  refine ⟨_, by simp [call, h0]; rfl, ⟨?_, ?_⟩, ?_, ?_⟩
  · simpa [World.pushVis] using he.fns
  · simpa [World.pushVis] using he.cons
  · intro n hn
    have := hr (n + 1) (by simpa using hn)
    simp only [World.pushVis, if_true]
    rw [show w.calls f + 1 + n = w.calls f + (n + 1) by omega]
    simpa using this
  · simp [World.pushVis, yields]

/-- handing a value to an exhausting consumer leaves the callables and their invocation counts alone -/
theorem yieldV_ok_scripted {F : Nat → FnBeh} (v : Val) {w : World} (he : Env F w) {f : Nat} {rs : List Val}
    (hr : ScriptedFn w f rs) :
    ∃ w', yieldV v w = (.ok (), w') ∧ Env F w' ∧ ScriptedFn w' f rs
      ∧ yields w'.vis = yields w.vis ++ [v] := by
  refine ⟨_, by simp [yieldV, he.cons]; rfl, ⟨?_, ?_⟩, ?_, ?_⟩
  · simpa [World.pushVis] using he.fns
  · simpa [World.pushVis] using he.cons
  · intro n hn; simpa [World.pushVis] using hr n hn
  · simp [World.pushVis, yields]

theorem iterSentinel_spec {F : Nat → FnBeh} (f : Nat) (sentinel : Val) :
    ∀ (rs : List Val) (fuel : Nat) (w : World), Env F w → ScriptedFn w f rs →
      (∃ v ∈ rs, v.pyEq sentinel = true) → (ListSpec.iterSentinel sentinel rs).length < fuel →
      ∃ w', Std.iterSentinel f sentinel fuel w = (.ok (), w') ∧ Env F w'
        ∧ yields w'.vis = yields w.vis ++ ListSpec.iterSentinel sentinel rs := by
  intro rs
  induction rs with
  | nil => intro fuel w _ _ hex _; obtain ⟨v, hv, _⟩ := hex; simp at hv
  | cons v rest ih =>
    intro fuel w he hr hex hf
    cases fuel with
    | zero => simp at hf
    | succ fuel =>
      obtain ⟨w1, hc, he1, hr1, hy1⟩ := call_scripted he hr
      cases hv : v.pyEq sentinel with
      | true =>
        exact ⟨w1, by simp [Std.iterSentinel, bind_apply, hc, hv, pure_apply], he1,
          by simp [hy1, ListSpec.iterSentinel, hv]⟩
      | false =>
        obtain ⟨w2, hyv, he2, hr2, hy2⟩ := yieldV_ok_scripted v he1 hr1
        have hex' : ∃ u ∈ rest, u.pyEq sentinel = true := by
          obtain ⟨u, hu, hus⟩ := hex
          rcases List.mem_cons.mp hu with rfl | hu
          · rw [hv] at hus; exact absurd hus (by simp)
          · exact ⟨u, hu, hus⟩
        have hf' : (ListSpec.iterSentinel sentinel rest).length < fuel := by
          simp [ListSpec.iterSentinel, hv] at hf ⊢; omega
        obtain ⟨w3, hl, he3, hy3⟩ := ih fuel w2 he2 hr2 hex' hf'
        exact ⟨w3, by simp [Std.iterSentinel, bind_apply, hc, hv, hyv, hl], he3,
          by simp [hy3, hy2, hy1, ListSpec.iterSentinel, hv]⟩

/-- the specification read by index: if the first result `==` to the sentinel is at index `i`, the
    results yielded are the first `i` ones -/
theorem iterSentinel_take (sentinel : Val) : ∀ (rs : List Val) (i : Nat) (hi : i < rs.length),
    rs[i].pyEq sentinel = true → (∀ j (hj : j < i), rs[j].pyEq sentinel = false) →
    ListSpec.iterSentinel sentinel rs = rs.take i := by
  intro rs
  induction rs with
  | nil => intro i hi; simp at hi
  | cons v rest ih =>
    intro i hi hat hbefore
    cases i with
    | zero =>
      have : v.pyEq sentinel = true := by simpa using hat
      simp [ListSpec.iterSentinel, this]
    | succ i =>
      have hv : v.pyEq sentinel = false := by simpa using hbefore 0 (by omega)
      have := ih i (by simpa using hi) (by simpa using hat)
        (fun j hj => by simpa using hbefore (j + 1) (by omega))
      simp only [ListSpec.iterSentinel] at this
      simp [ListSpec.iterSentinel, hv, this]

/-! ## merge in either direction: the list facts of `Values2.lean` for any `reverse` -/

/-- what the specification's choice satisfies, read off `pickFrom_spec` at position `0` -/
theorem pick_propsR (kf : Val → Val) (reverse : Bool) (ls : List (List Val))
    (hk : ∀ l ∈ ls, ∀ x ∈ l, (kf x).key?.isSome = true) :
    match ListSpec.pickFrom kf reverse 0 ls with
    | none => ∀ l ∈ ls, l = []
    | some (i, x) => (∃ t, ls[i]? = some (x :: t))
        ∧ ∀ y u j, ls[j]? = some (y :: u) → j ≠ i → lexLt (rk reverse (kf x)) i (rk reverse (kf y)) j := by
  have h := pickFrom_spec kf reverse ls 0 hk
  cases hp : ListSpec.pickFrom kf reverse 0 ls with
  | none => rw [hp] at h; exact h
  | some r =>
    obtain ⟨i, x⟩ := r
    rw [hp] at h
    obtain ⟨⟨t, ht⟩, hb⟩ := h
    refine ⟨⟨t, by simpa using List.mem_zipIdx_iff_getElem?.mp ht⟩, ?_⟩
    intro y u j hj hne
    exact hb y u j (List.mem_zipIdx_iff_getElem?.mpr (by simpa using hj)) hne

theorem mergeN_permR (kf : Val → Val) (reverse : Bool) : ∀ (n : Nat) (ls : List (List Val)),
    (∀ l ∈ ls, ∀ x ∈ l, (kf x).key?.isSome = true) → (ls.map List.length).sum ≤ n →
    (ListSpec.mergeN kf reverse n ls).Perm ls.flatten := by
  intro n
  induction n with
  | zero =>
    intro ls _ hn
    rw [flatten_all_empty ls (sum_zero_all_empty ls (by omega))]
    exact List.Perm.refl _
  | succ n ih =>
    intro ls hk hn
    have hp := pick_propsR kf reverse ls hk
    cases hpk : ListSpec.pickFrom kf reverse 0 ls with
    | none =>
      rw [hpk] at hp
      rw [flatten_all_empty ls hp]
      simp [ListSpec.mergeN, hpk]
    | some r =>
      obtain ⟨i, x⟩ := r
      rw [hpk] at hp
      obtain ⟨⟨t, hli⟩, _⟩ := hp
      have hsum := sum_modify_tail ls i x t hli
      have := ih (ls.modify i List.tail) (keys_modify_tail i hk) (by omega)
      simp only [ListSpec.mergeN, hpk]
      exact (List.Perm.cons x this).trans (flatten_modify_tail_perm ls i x t hli).symm

/-- everything still to come ranks at least the chosen head; what comes from earlier inputs ranks higher -/
theorem pick_le_allR (kf : Val → Val) (reverse : Bool) (ls : List (List Val))
    (hk : ∀ l ∈ ls, ∀ x ∈ l, (kf x).key?.isSome = true)
    (hs : ∀ l ∈ ls, l.Pairwise (fun a b => rk reverse (kf a) ≤ rk reverse (kf b)))
    (i : Nat) (x : Val) (hpk : ListSpec.pickFrom kf reverse 0 ls = some (i, x)) :
    ∀ j l, ls[j]? = some l → ∀ y ∈ l, rk reverse (kf x) ≤ rk reverse (kf y)
      ∧ (j < i → rk reverse (kf x) < rk reverse (kf y)) := by
  have hp := pick_propsR kf reverse ls hk
  rw [hpk] at hp
  obtain ⟨⟨t, hli⟩, hb⟩ := hp
  intro j l hl y hy
  by_cases hji : j = i
  · subst hji
    rw [hli] at hl; simp at hl; subst hl
    refine ⟨?_, fun h => absurd h (Nat.lt_irrefl _)⟩
    rcases List.mem_cons.mp hy with rfl | hy
    · exact Int.le_refl _
    · exact (List.pairwise_cons.mp (hs _ (List.mem_of_getElem? hli))).1 y hy
  · cases l with
    | nil => simp at hy
    | cons y0 u =>
      have h1 := hb y0 u j hl hji
      have h2 : rk reverse (kf y0) ≤ rk reverse (kf y) := by
        rcases List.mem_cons.mp hy with rfl | hy
        · exact Int.le_refl _
        · exact (List.pairwise_cons.mp (hs _ (List.mem_of_getElem? hl))).1 y hy
      unfold lexLt at h1
      refine ⟨by omega, fun h => by omega⟩

theorem mergeN_sortedR (kf : Val → Val) (reverse : Bool) : ∀ (n : Nat) (ls : List (List Val)),
    (∀ l ∈ ls, ∀ x ∈ l, (kf x).key?.isSome = true) →
    (∀ l ∈ ls, l.Pairwise (fun a b => rk reverse (kf a) ≤ rk reverse (kf b))) →
    (ls.map List.length).sum ≤ n →
    (ListSpec.mergeN kf reverse n ls).Pairwise (fun a b => rk reverse (kf a) ≤ rk reverse (kf b)) := by
  intro n
  induction n with
  | zero => intro ls _ _ _; simp [ListSpec.mergeN]
  | succ n ih =>
    intro ls hk hs hn
    cases hpk : ListSpec.pickFrom kf reverse 0 ls with
    | none => simp [ListSpec.mergeN, hpk]
    | some r =>
      obtain ⟨i, x⟩ := r
      have hp := pick_propsR kf reverse ls hk
      rw [hpk] at hp
      obtain ⟨⟨t, hli⟩, _⟩ := hp
      have hsum := sum_modify_tail ls i x t hli
      have hk' := keys_modify_tail (kf := kf) i hk
      simp only [ListSpec.mergeN, hpk]
      refine List.pairwise_cons.mpr ⟨?_, ih _ hk' (sorted_modify_tail i hs) (by omega)⟩
      intro y hy
      have hy' : y ∈ (ls.modify i List.tail).flatten :=
        (mergeN_permR kf reverse n _ hk' (by omega)).mem_iff.mp hy
      obtain ⟨l', hl', hyl⟩ := List.mem_flatten.mp hy'
      obtain ⟨l0, hl0, hsub⟩ := mem_modify_tail ls i l' hl'
      obtain ⟨j, hj⟩ := List.mem_iff_getElem?.mp hl0
      exact (pick_le_allR kf reverse ls hk hs i x hpk j l0 hj y (hsub y hyl)).1

theorem mergeN_stableR (kf : Val → Val) (reverse : Bool) (k : Int) : ∀ (n : Nat) (ls : List (List Val)),
    (∀ l ∈ ls, ∀ x ∈ l, (kf x).key?.isSome = true) →
    (∀ l ∈ ls, l.Pairwise (fun a b => rk reverse (kf a) ≤ rk reverse (kf b))) →
    (ls.map List.length).sum ≤ n →
    (ListSpec.mergeN kf reverse n ls).filter (fun x => rk reverse (kf x) == k)
      = ls.flatten.filter (fun x => rk reverse (kf x) == k) := by
  intro n
  induction n with
  | zero =>
    intro ls _ _ hn
    rw [flatten_all_empty ls (sum_zero_all_empty ls (by omega))]
    simp [ListSpec.mergeN]
  | succ n ih =>
    intro ls hk hs hn
    have hp := pick_propsR kf reverse ls hk
    cases hpk : ListSpec.pickFrom kf reverse 0 ls with
    | none =>
      rw [hpk] at hp
      rw [flatten_all_empty ls hp]
      simp [ListSpec.mergeN, hpk]
    | some r =>
      obtain ⟨i, x⟩ := r
      rw [hpk] at hp
      obtain ⟨⟨t, hli⟩, _⟩ := hp
      have hsum := sum_modify_tail ls i x t hli
      have hrec := ih _ (keys_modify_tail (kf := kf) i hk) (sorted_modify_tail i hs) (by omega)
      simp only [ListSpec.mergeN, hpk]
      by_cases hx : rk reverse (kf x) = k
      · have hxb : (rk reverse (kf x) == k) = true := by simp [hx]
        simp only [List.filter_cons, hxb, ↓reduceIte]
        rw [hrec]
        rw [filter_flatten_hit (fun x => rk reverse (kf x) == k) ls i x t hli ?_ hxb]
        intro j hj l hl y hy
        have := (pick_le_allR kf reverse ls hk hs i x hpk j l hl y hy).2 hj
        have hne : ¬ rk reverse (kf y) = k := by omega
        simp [hne]
      · have hxb : (rk reverse (kf x) == k) = false := by simp [hx]
        simp only [List.filter_cons, hxb, Bool.false_eq_true, ↓reduceIte]
        rw [hrec]
        exact (filter_flatten_miss (fun x => rk reverse (kf x) == k) ls i x t hli hxb).symm

end AsyncVerif.V1
