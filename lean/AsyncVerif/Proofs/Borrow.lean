import AsyncVerif.Machines.Borrow
/-! Helper lemmas for C07 (borrow) and C08 (scoped_iter). Property theorems live in
`Properties/C07.lean` and `Properties/C08.lean`. -/
namespace AsyncVerif.Borrow

/-! ## The underlying iterator -/

/-- what a pull / a cancelled pull may change on U: never its capabilities, never the number of
    `aclose()` calls, never to "closed", never a `close` event -/
structure UKeep (u u' : U) : Prop where
  gen : u'.gen = u.gen
  hasClose : u'.hasClose = u.hasClose
  hasSend : u'.hasSend = u.hasSend
  closeReqs : u'.closeReqs = u.closeReqs
  notClosed : u'.status = .closed → u.status = .closed
  closeLog : u'.log.count .close = u.log.count .close

theorem UKeep.refl (u : U) : UKeep u u := ⟨rfl, rfl, rfl, rfl, id, rfl⟩

theorem UKeep.trans {a b c : U} (h1 : UKeep a b) (h2 : UKeep b c) : UKeep a c :=
  ⟨h2.gen.trans h1.gen, h2.hasClose.trans h1.hasClose, h2.hasSend.trans h1.hasSend,
   h2.closeReqs.trans h1.closeReqs, fun h => h1.notClosed (h2.notClosed h),
   h2.closeLog.trans h1.closeLog⟩

def resItems : Res → List Val
  | .item v => [v]
  | _ => []

theorem pullU_keep (b : Bool) (u : U) : UKeep u (pullU b u).1 := by
  rcases u with ⟨gen, hc, hs, rest, status, log, cr⟩
  cases gen <;> cases status <;> cases b <;> rcases rest with _ | ⟨⟨v⟩ | ⟨e⟩, r⟩ <;>
    (constructor <;> simp [pullU, Status.dead, List.count_append])

theorem cancelU_keep (u : U) : UKeep u (cancelU u).1 := by
  rcases u with ⟨gen, hc, hs, rest, status, log, cr⟩
  cases gen <;> cases status <;>
    (constructor <;> simp [cancelU, Status.dead, List.count_append])

theorem pullU_items (b : Bool) (u : U) :
    itemsOf u.rest = resItems (pullU b u).2 ++ itemsOf (pullU b u).1.rest := by
  rcases u with ⟨gen, hc, hs, rest, status, log, cr⟩
  cases gen <;> cases status <;> cases b <;> rcases rest with _ | ⟨⟨v⟩ | ⟨e⟩, r⟩ <;>
    simp [pullU, Status.dead, resItems, itemsOf]

theorem cancelU_items (u : U) :
    itemsOf u.rest = resItems (cancelU u).2 ++ itemsOf (cancelU u).1.rest := by
  rcases u with ⟨gen, hc, hs, rest, status, log, cr⟩
  cases gen <;> cases status <;> simp [cancelU, Status.dead, resItems]

theorem closeU_closeReqs (u : U) :
    (closeU u).closeReqs = u.closeReqs + (if u.hasClose then 1 else 0) := by
  rcases u with ⟨gen, hc, hs, rest, status, log, cr⟩
  cases gen <;> cases hc <;> cases status <;> simp [closeU]

theorem closeU_caps (u : U) :
    (closeU u).gen = u.gen ∧ (closeU u).hasClose = u.hasClose ∧ (closeU u).hasSend = u.hasSend
    ∧ (closeU u).rest = u.rest := by
  rcases u with ⟨gen, hc, hs, rest, status, log, cr⟩
  cases gen <;> cases hc <;> cases status <;> simp [closeU]

theorem closeU_dead (u : U) (h : u.hasClose = true) : (closeU u).status.dead = true := by
  rcases u with ⟨gen, hc, hs, rest, status, log, cr⟩
  simp only at h; subst h
  cases gen <;> cases status <;> simp [closeU, Status.dead]
/-! ## Handles -/

/-- a handle that yields nothing and cannot reach U any more -/
def Inert (hd : Handle) : Prop := hd.wopen = false ∧ hd.send ≠ .direct

/-- how a handle record may evolve: same parent, same kind, never re-opened, `asend` never
    re-pointed to the underlying iterator -/
structure HLe (a b : Handle) : Prop where
  parent : b.parent = a.parent
  kind : b.kind = a.kind
  closedStays : a.wopen = false → b.wopen = false
  sendStays : a.send ≠ .direct → b.send ≠ .direct

theorem HLe.refl (a : Handle) : HLe a a := ⟨rfl, rfl, id, id⟩

theorem HLe.trans {a b c : Handle} (h1 : HLe a b) (h2 : HLe b c) : HLe a c :=
  ⟨h2.parent.trans h1.parent, h2.kind.trans h1.kind, fun h => h2.closedStays (h1.closedStays h),
   fun h => h2.sendStays (h1.sendStays h)⟩

theorem HLe.finish (a : Handle) : HLe a (finishWrapper a) :=
  ⟨rfl, rfl, fun _ => rfl, id⟩

theorem HLe.close (a : Handle) : HLe a (closeWrapper a) := by
  refine ⟨rfl, rfl, fun _ => rfl, ?_⟩
  intro h
  simp only [closeWrapper]
  cases hs : a.send <;> simp_all

theorem closeWrapper_inert (a : Handle) : Inert (closeWrapper a) := by
  constructor
  · rfl
  · simp only [closeWrapper]; cases a.send <;> simp

theorem Inert.le {a b : Handle} (h : Inert a) (hl : HLe a b) : Inert b :=
  ⟨hl.closedStays h.1, hl.sendStays h.2⟩

/-- the handle table only grows, and each record evolves by `HLe` -/
def HsMono (hs hs' : List Handle) : Prop :=
  hs.length ≤ hs'.length ∧ ∀ (j : Nat) (hd : Handle), hs[j]? = some hd → ∃ hd', hs'[j]? = some hd' ∧ HLe hd hd'

theorem HsMono.refl (hs : List Handle) : HsMono hs hs :=
  ⟨Nat.le_refl _, fun _ hd h => ⟨hd, h, HLe.refl hd⟩⟩

theorem HsMono.trans {a b c : List Handle} (h1 : HsMono a b) (h2 : HsMono b c) : HsMono a c := by
  refine ⟨Nat.le_trans h1.1 h2.1, ?_⟩
  intro j hd h
  obtain ⟨hd1, e1, l1⟩ := h1.2 j hd h
  obtain ⟨hd2, e2, l2⟩ := h2.2 j hd1 e1
  exact ⟨hd2, e2, l1.trans l2⟩

theorem HsMono.modify (hs : List Handle) (i : Nat) (f : Handle → Handle) (hf : ∀ hd, HLe hd (f hd)) :
    HsMono hs (hs.modify i f) := by
  refine ⟨by simp, ?_⟩
  intro j hd h
  rw [List.getElem?_modify, h]
  by_cases hij : i = j
  · exact ⟨f hd, by simp [hij], hf hd⟩
  · exact ⟨hd, by simp [hij], HLe.refl hd⟩

theorem HsMono.append (hs : List Handle) (l : List Handle) : HsMono hs (hs ++ l) := by
  refine ⟨by simp, ?_⟩
  intro j hd h
  have hj : j < hs.length := by
    rcases Nat.lt_or_ge j hs.length with h' | h'
    · exact h'
    · rw [List.getElem?_eq_none h'] at h; cases h
  exact ⟨hd, by rw [List.getElem?_append_left hj]; exact h, HLe.refl hd⟩

/-! ## One pull through the handle tree -/

structure PullSpec (s : State) (r : State × Res) : Prop where
  keep : UKeep s.u r.1.u
  ctxs : r.1.ctxs = s.ctxs
  mono : HsMono s.hs r.1.hs
  len : r.1.hs.length = s.hs.length
  itemSame : ∀ v, r.2 = .item v → r.1.hs = s.hs
  items : itemsOf s.u.rest = resItems r.2 ++ itemsOf r.1.u.rest

theorem pullH_spec (c : Bool) : ∀ (fuel : Nat) (s : State) (t : Option Nat),
    PullSpec s (pullH c fuel s t) := by
  intro fuel
  induction fuel with
  | zero =>
    intro s t
    cases t with
    | none =>
      simp only [pullH]
      cases c
      · exact ⟨by simpa using pullU_keep false s.u, rfl, HsMono.refl _, rfl, fun _ _ => rfl,
          by simpa using pullU_items false s.u⟩
      · exact ⟨by simpa using cancelU_keep s.u, rfl, HsMono.refl _, rfl, fun _ _ => rfl,
          by simpa using cancelU_items s.u⟩
    | some h =>
      simp only [pullH]
      exact ⟨UKeep.refl _, rfl, HsMono.refl _, rfl, fun _ _ => rfl, by simp [resItems]⟩
  | succ fuel ih =>
    intro s t
    cases t with
    | none =>
      simp only [pullH]
      cases c
      · exact ⟨by simpa using pullU_keep false s.u, rfl, HsMono.refl _, rfl, fun _ _ => rfl,
          by simpa using pullU_items false s.u⟩
      · exact ⟨by simpa using cancelU_keep s.u, rfl, HsMono.refl _, rfl, fun _ _ => rfl,
          by simpa using cancelU_items s.u⟩
    | some h =>
      simp only [pullH]
      split
      · exact ⟨UKeep.refl _, rfl, HsMono.refl _, rfl, fun _ _ => rfl, by simp [resItems]⟩
      · rename_i hd _
        split
        · exact ⟨UKeep.refl _, rfl, HsMono.refl _, rfl, fun _ _ => rfl, by simp [resItems]⟩
        · have hp := ih s hd.parent
          split
          · rename_i v hv
            refine ⟨hp.keep, hp.ctxs, hp.mono, hp.len, fun _ _ => hp.itemSame v hv, ?_⟩
            have := hp.items
            rw [hv] at this
            exact this
          · rename_i res hres
            refine ⟨hp.keep, hp.ctxs, ?_, ?_, ?_, hp.items⟩
            · exact hp.mono.trans (HsMono.modify _ h finishWrapper HLe.finish)
            · simp [hp.len]
            · intro v hv
              exact absurd hv (hres v)

/-! ## One step -/

/-- does this operation make an `aclose()` call reach the underlying iterator? -/
def closesU (s : State) : Op → Bool
  | .close none => s.u.hasClose
  | .exit c _ =>
    match s.ctxs[c]? with
    | some cx => cx.target.isNone && cx.own.isSome && s.u.hasClose
    | none => false
  | _ => false

/-- number of operations of a run that make `aclose()` reach the underlying iterator -/
def closeOps : State → List Op → Nat
  | _, [] => 0
  | s, op :: ops => (if closesU s op then 1 else 0) + closeOps (step s op).1 ops

def outItems : Out → List Val
  | .res (.item v) => [v]
  | _ => []

theorem delivered_cons (o : Out) (r : List Out) : delivered (o :: r) = outItems o ++ delivered r := by
  cases o with
  | res x => cases x <;> simp [delivered, outItems]
  | _ => simp [delivered, outItems]

theorem closeT_mono (s : State) (t : Option Nat) : HsMono s.hs (closeT s t).hs := by
  cases t with
  | none => exact HsMono.refl _
  | some h =>
    simp only [closeT]
    split
    · exact HsMono.refl _
    · split
      · exact HsMono.modify _ h closeWrapper HLe.close
      · exact HsMono.refl _

theorem closeT_ctxs (s : State) (t : Option Nat) : (closeT s t).ctxs = s.ctxs := by
  cases t with
  | none => rfl
  | some h =>
    simp only [closeT]
    split
    · rfl
    · split <;> rfl

theorem closeT_some_u (s : State) (h : Nat) : (closeT s (some h)).u = s.u := by
  simp only [closeT]
  split
  · rfl
  · split <;> rfl

structure StepSpec (s : State) (op : Op) : Prop where
  mono : HsMono s.hs (step s op).1.hs
  ctxs : ∃ l, (step s op).1.ctxs = s.ctxs ++ l
  caps : (step s op).1.u.gen = s.u.gen ∧ (step s op).1.u.hasClose = s.u.hasClose
    ∧ (step s op).1.u.hasSend = s.u.hasSend
  closeReqs : (step s op).1.u.closeReqs = s.u.closeReqs + (if closesU s op then 1 else 0)
  keep : closesU s op = false → UKeep s.u (step s op).1.u
  items : itemsOf s.u.rest = outItems (step s op).2 ++ itemsOf (step s op).1.u.rest

theorem stepSpec_of_same (s : State) (op : Op) (o : Out) (h : step s op = (s, o))
    (hc : closesU s op = false) (ho : outItems o = []) : StepSpec s op := by
  refine ⟨?_, ⟨[], ?_⟩, ?_, ?_, ?_, ?_⟩ <;> rw [h] <;> simp [hc, ho, HsMono.refl, UKeep.refl]

theorem stepSpec_of_pull (s : State) (op : Op) (r : State × Res) (h : step s op = (r.1, .res r.2))
    (hc : closesU s op = false) (hp : PullSpec s r) : StepSpec s op := by
  refine ⟨?_, ⟨[], ?_⟩, ?_, ?_, ?_, ?_⟩ <;> rw [h]
  · exact hp.mono
  · simp [hp.ctxs]
  · exact ⟨hp.keep.gen, hp.keep.hasClose, hp.keep.hasSend⟩
  · simp [hc, hp.keep.closeReqs]
  · intro _; exact hp.keep
  · have := hp.items
    cases hr : r.2 <;> simp_all [outItems, resItems]

theorem step_spec (s : State) (op : Op) : StepSpec s op := by
  cases op with
  | next t =>
    by_cases hv : validT s t = true
    · exact stepSpec_of_pull s _ (pullH false s.hs.length s t) (by simp [step, hv]) rfl
        (pullH_spec false _ s t)
    · exact stepSpec_of_same s _ .invalid (by simp [step, hv]) rfl rfl
  | nextCancel t =>
    by_cases hv : validT s t = true
    · exact stepSpec_of_pull s _ (pullH true s.hs.length s t) (by simp [step, hv]) rfl
        (pullH_spec true _ s t)
    · exact stepSpec_of_same s _ .invalid (by simp [step, hv]) rfl rfl
  | send h =>
    cases hh : s.hs[h]? with
    | none => exact stepSpec_of_same s _ .invalid (by simp [step, hh]) rfl rfl
    | some hd =>
      cases hs : hd.send with
      | absent => exact stepSpec_of_same s _ .noattr (by simp [step, hh, hs]) rfl rfl
      | dead => exact stepSpec_of_same s _ (.res .stop) (by simp [step, hh, hs]) rfl rfl
      | direct =>
        refine stepSpec_of_pull s _ ({ s with u := (pullU true s.u).1 }, (pullU true s.u).2)
          (by simp [step, hh, hs]) rfl ?_
        exact ⟨pullU_keep true s.u, rfl, HsMono.refl _, rfl, fun _ _ => rfl, pullU_items true s.u⟩
  | close t =>
    by_cases hv : validT s t = true
    · cases t with
      | none =>
        cases hc : s.u.hasClose with
        | false => exact stepSpec_of_same s _ .noattr (by simp [step, hv, hc]) (by simp [closesU, hc]) rfl
        | true =>
          have e : step s (.close none) = ({ s with u := closeU s.u }, .ok) := by
            simp [step, hv, hc, closeT]
          refine ⟨?_, ⟨[], ?_⟩, ?_, ?_, ?_, ?_⟩ <;> rw [e]
          · exact HsMono.refl _
          · simp
          · exact ⟨(closeU_caps s.u).1, (closeU_caps s.u).2.1, (closeU_caps s.u).2.2.1⟩
          · simp [closesU, hc, closeU_closeReqs]
          · simp [closesU, hc]
          · simp [outItems, (closeU_caps s.u).2.2.2]
      | some h =>
        have e : step s (.close (some h)) = (closeT s (some h), .ok) := by
          simp [step, hv]
        refine ⟨?_, ⟨[], ?_⟩, ?_, ?_, ?_, ?_⟩ <;> rw [e]
        · exact closeT_mono s _
        · simp [closeT_ctxs]
        · simp [closeT_some_u]
        · simp [closeT_some_u, closesU]
        · intro _; rw [closeT_some_u]; exact UKeep.refl _
        · simp [outItems, closeT_some_u]
    · exact stepSpec_of_same s _ .invalid (by simp [step, hv]) (by cases t <;> simp_all [closesU, validT]) rfl
  | closeIter h =>
    by_cases hv : validT s (some h) = true
    · have e : step s (.closeIter h) = (closeT s (some h), .ok) := by simp [step, hv]
      refine ⟨?_, ⟨[], ?_⟩, ?_, ?_, ?_, ?_⟩ <;> rw [e]
      · exact closeT_mono s _
      · simp [closeT_ctxs]
      · simp [closeT_some_u]
      · simp [closeT_some_u, closesU]
      · intro _; rw [closeT_some_u]; exact UKeep.refl _
      · simp [outItems, closeT_some_u]
    · exact stepSpec_of_same s _ .invalid (by simp [step, hv]) rfl rfl
  | borrow t =>
    by_cases hv : validT s t = true
    · have e : step s (.borrow t)
          = ({ s with hs := s.hs ++ [newHandle s t .borrowed] }, .handle s.hs.length) := by
        simp [step, hv]
      refine ⟨?_, ⟨[], ?_⟩, ?_, ?_, ?_, ?_⟩ <;> rw [e]
      · exact HsMono.append _ _
      · simp
      · simp
      · simp [closesU]
      · intro _; exact UKeep.refl _
      · simp [outItems]
    · exact stepSpec_of_same s _ .invalid (by simp [step, hv]) rfl rfl
  | enter t =>
    by_cases hv : validT s t = true
    · by_cases hn : (t = none && !s.u.hasClose) = true
      · have e : step s (.enter t)
            = ({ s with ctxs := s.ctxs ++ [{ target := none, own := none }] },
               .entered s.ctxs.length none) := by
          simp only [step, hv, if_true, hn]
        refine ⟨?_, ⟨[{ target := none, own := none }], ?_⟩, ?_, ?_, ?_, ?_⟩ <;> rw [e]
        · exact HsMono.refl _
        · simp
        · simp [closesU]
        · intro _; exact UKeep.refl _
        · simp [outItems]
      · have e : step s (.enter t)
            = ({ s with hs := s.hs ++ [newHandle s t .scoped],
                        ctxs := s.ctxs ++ [{ target := t, own := some s.hs.length }] },
               .entered s.ctxs.length (some s.hs.length)) := by
          simp only [step, hv, if_true, hn]
          simp
        refine ⟨?_, ⟨[{ target := t, own := some s.hs.length }], ?_⟩, ?_, ?_, ?_, ?_⟩ <;> rw [e]
        · exact HsMono.append _ _
        · simp
        · simp [closesU]
        · intro _; exact UKeep.refl _
        · simp [outItems]
    · exact stepSpec_of_same s _ .invalid (by simp [step, hv]) rfl rfl
  | exit c m =>
    cases hc : s.ctxs[c]? with
    | none => exact stepSpec_of_same s _ .invalid (by simp [step, hc]) (by simp [closesU, hc]) rfl
    | some cx =>
      cases ho : cx.own with
      | none => exact stepSpec_of_same s _ .ok (by simp [step, hc, ho]) (by simp [closesU, hc, ho]) rfl
      | some hid =>
        have e : step s (.exit c m)
            = (closeT { s with hs := s.hs.modify hid closeWrapper } cx.target, .ok) := by
          simp [step, hc, ho]
        have hm : HsMono s.hs (closeT { s with hs := s.hs.modify hid closeWrapper } cx.target).hs :=
          (HsMono.modify s.hs hid closeWrapper HLe.close).trans
            (closeT_mono { s with hs := s.hs.modify hid closeWrapper } cx.target)
        cases ht : cx.target with
        | none =>
          rw [ht] at e hm
          refine ⟨?_, ⟨[], ?_⟩, ?_, ?_, ?_, ?_⟩ <;> rw [e]
          · exact hm
          · simp [closeT]
          · simp [closeT, closeU_caps]
          · simp [closeT, closesU, hc, ht, ho, closeU_closeReqs]
          · intro hcl
            have hh : s.u.hasClose = false := by simpa [closesU, hc, ht, ho] using hcl
            simp only [closeT, closeU, hh]
            exact UKeep.refl _
          · simp [closeT, outItems, (closeU_caps s.u).2.2.2]
        | some p =>
          rw [ht] at e hm
          refine ⟨?_, ⟨[], ?_⟩, ?_, ?_, ?_, ?_⟩ <;> rw [e]
          · exact hm
          · simp [closeT_ctxs]
          · simp [closeT_some_u]
          · simp [closeT_some_u, closesU, hc, ht]
          · intro _; rw [closeT_some_u]; exact UKeep.refl _
          · simp [outItems, closeT_some_u]

/-! ## Runs -/

theorem exec_cons (s : State) (op : Op) (ops : List Op) :
    exec s (op :: ops) = exec (step s op).1 ops := rfl

theorem exec_append (s : State) (a b : List Op) : exec s (a ++ b) = exec (exec s a) b := by
  simp [exec, List.foldl_append]

theorem exec_caps (ops : List Op) : ∀ s : State,
    (exec s ops).u.gen = s.u.gen ∧ (exec s ops).u.hasClose = s.u.hasClose
      ∧ (exec s ops).u.hasSend = s.u.hasSend := by
  induction ops with
  | nil => intro s; exact ⟨rfl, rfl, rfl⟩
  | cons op r ih =>
    intro s
    rw [exec_cons]
    have h1 := (step_spec s op).caps
    have h2 := ih (step s op).1
    exact ⟨h2.1.trans h1.1, h2.2.1.trans h1.2.1, h2.2.2.trans h1.2.2⟩

theorem exec_closeReqs (ops : List Op) : ∀ s : State,
    (exec s ops).u.closeReqs = s.u.closeReqs + closeOps s ops := by
  induction ops with
  | nil => intro s; simp [exec, closeOps]
  | cons op r ih =>
    intro s
    rw [exec_cons, ih, (step_spec s op).closeReqs]
    simp [closeOps, Nat.add_assoc]

theorem exec_keep (ops : List Op) : ∀ s : State, closeOps s ops = 0 → UKeep s.u (exec s ops).u := by
  induction ops with
  | nil => intro s _; exact UKeep.refl _
  | cons op r ih =>
    intro s h
    simp only [closeOps] at h
    have h1 : closesU s op = false := by
      cases hc : closesU s op <;> simp_all
    have h2 : closeOps (step s op).1 r = 0 := by omega
    rw [exec_cons]
    exact ((step_spec s op).keep h1).trans (ih _ h2)

theorem exec_items (ops : List Op) : ∀ s : State,
    itemsOf s.u.rest = delivered (outs s ops) ++ itemsOf (exec s ops).u.rest := by
  induction ops with
  | nil => intro s; simp [exec, outs, delivered]
  | cons op r ih =>
    intro s
    rw [exec_cons]
    simp only [outs]
    rw [delivered_cons, List.append_assoc, ← ih, ← (step_spec s op).items]

theorem exec_mono (ops : List Op) : ∀ s : State, HsMono s.hs (exec s ops).hs := by
  induction ops with
  | nil => intro s; exact HsMono.refl _
  | cons op r ih =>
    intro s
    rw [exec_cons]
    exact (step_spec s op).mono.trans (ih _)

theorem exec_ctxs (ops : List Op) : ∀ s : State, ∃ l, (exec s ops).ctxs = s.ctxs ++ l := by
  induction ops with
  | nil => intro s; exact ⟨[], by simp [exec]⟩
  | cons op r ih =>
    intro s
    rw [exec_cons]
    obtain ⟨l1, e1⟩ := (step_spec s op).ctxs
    obtain ⟨l2, e2⟩ := ih (step s op).1
    exact ⟨l1 ++ l2, by rw [e2, e1, List.append_assoc]⟩

/-- operations of someone who holds only handles: no `aclose()` on the underlying iterator itself,
    no leaving of a scope -/
def Op.handleOnly : Op → Bool
  | .close none => false
  | .exit _ _ => false
  | _ => true

theorem closeOps_handleOnly (ops : List Op) : ∀ s : State,
    (∀ op ∈ ops, op.handleOnly = true) → closeOps s ops = 0 := by
  induction ops with
  | nil => intro s _; rfl
  | cons op r ih =>
    intro s h
    have h1 : closesU s op = false := by
      have := h op (by simp)
      cases op with
      | close t => cases t <;> simp_all [Op.handleOnly, closesU]
      | exit c m => simp [Op.handleOnly] at this
      | _ => rfl
    simp [closeOps, h1, ih _ (fun o ho => h o (by simp [ho]))]

/-! ## A closed handle stays inert -/

theorem inert_exec (ops : List Op) (s : State) (h : Nat) (hd : Handle)
    (hh : s.hs[h]? = some hd) (hi : Inert hd) :
    ∃ hd', (exec s ops).hs[h]? = some hd' ∧ Inert hd' ∧ hd'.kind = hd.kind := by
  obtain ⟨hd', e, l⟩ := (exec_mono ops s).2 h hd hh
  exact ⟨hd', e, hi.le l, l.kind⟩

theorem lt_of_getElem? {α} {l : List α} {i : Nat} {a : α} (h : l[i]? = some a) : i < l.length := by
  rcases Nat.lt_or_ge i l.length with h' | h'
  · exact h'
  · rw [List.getElem?_eq_none h'] at h; cases h

theorem pullH_closed (c : Bool) (s : State) (h : Nat) (hd : Handle) (hh : s.hs[h]? = some hd)
    (hw : hd.wopen = false) : pullH c s.hs.length s (some h) = (s, .stop) := by
  have hl := lt_of_getElem? hh
  cases hn : s.hs.length with
  | zero => omega
  | succ n => simp [pullH, hh, hw]

theorem inert_next (s : State) (h : Nat) (hd : Handle) (hh : s.hs[h]? = some hd) (hi : Inert hd) :
    step s (.next (some h)) = (s, .res .stop) ∧ step s (.nextCancel (some h)) = (s, .res .stop)
    ∧ (step s (.send h) = (s, .res .stop) ∨ step s (.send h) = (s, .noattr)) := by
  have hl := lt_of_getElem? hh
  have hv : validT s (some h) = true := by simp [validT, hl]
  refine ⟨?_, ?_, ?_⟩
  · simp [step, hv, pullH_closed false s h hd hh hi.1]
  · simp [step, hv, pullH_closed true s h hd hh hi.1]
  · cases hs : hd.send with
    | absent => right; simp [step, hh, hs]
    | dead => left; simp [step, hh, hs]
    | direct => exact absurd hs hi.2

/-! ## The owner still gets everything that is left -/

/-- U is usable by its owner: not dead, or exhausted with nothing left; no faults ahead -/
def Usable (u : U) : Prop :=
  (u.status.dead = false ∨ (u.status = .exhausted ∧ u.rest = [])) ∧ faultFree u.rest = true

theorem pullU_usable (b : Bool) (u : U) (h : Usable u) : Usable (pullU b u).1 := by
  rcases u with ⟨gen, hc, hs, rest, status, log, cr⟩
  cases gen <;> cases status <;> cases b <;> rcases rest with _ | ⟨⟨v⟩ | ⟨e⟩, r⟩ <;>
    simp_all [Usable, pullU, Status.dead, faultFree]

/-- operations that pull normally (no cancellation is thrown into the underlying iterator) -/
def Op.noCancel : Op → Bool
  | .nextCancel _ => false
  | _ => true

theorem pullH_usable : ∀ (fuel : Nat) (s : State) (t : Option Nat), Usable s.u →
    Usable (pullH false fuel s t).1.u := by
  intro fuel
  induction fuel with
  | zero =>
    intro s t h
    cases t with
    | none => simpa [pullH] using pullU_usable false s.u h
    | some x => simpa [pullH] using h
  | succ fuel ih =>
    intro s t h
    cases t with
    | none => simpa [pullH] using pullU_usable false s.u h
    | some x =>
      simp only [pullH]
      split
      · exact h
      · rename_i hd _
        split
        · exact h
        · have := ih s hd.parent h
          split
          · exact this
          · exact this

theorem step_usable (s : State) (op : Op) (ho : op.handleOnly = true) (hc : op.noCancel = true)
    (h : Usable s.u) : Usable (step s op).1.u := by
  cases op with
  | next t =>
    simp only [step]
    split
    · exact pullH_usable _ s t h
    · exact h
  | nextCancel t => simp [Op.noCancel] at hc
  | send x =>
    simp only [step]
    split
    · exact h
    · split
      · exact h
      · exact h
      · exact pullU_usable true s.u h
  | close t =>
    cases t with
    | none => simp [Op.handleOnly] at ho
    | some x =>
      simp only [step]
      split
      · simp only [Option.some_ne_none, decide_false, Bool.false_and, Bool.false_eq_true, if_false]
        rw [closeT_some_u]; exact h
      · exact h
  | closeIter x =>
    simp only [step]
    split
    · rw [closeT_some_u]; exact h
    · exact h
  | borrow t =>
    simp only [step]
    split <;> exact h
  | enter t =>
    simp only [step]
    split
    · split <;> exact h
    · exact h
  | exit c m => simp [Op.handleOnly] at ho

theorem exec_usable (ops : List Op) : ∀ s : State, (∀ op ∈ ops, op.handleOnly = true ∧ op.noCancel = true) →
    Usable s.u → Usable (exec s ops).u := by
  induction ops with
  | nil => intro s _ h; exact h
  | cons op r ih =>
    intro s ho h
    rw [exec_cons]
    exact ih _ (fun o hm => ho o (by simp [hm]))
      (step_usable s op (ho op (by simp)).1 (ho op (by simp)).2 h)

/-- the owner's `n` direct pulls -/
def drain (n : Nat) : List Op := List.replicate n (.next none)

theorem step_nextU (s : State) : step s (.next none)
    = ({ s with u := (pullU false s.u).1 }, .res (pullU false s.u).2) := by
  simp only [step, validT, if_true]
  cases hn : s.hs.length <;> simp [pullH]

theorem outs_drain_succ (s : State) (n : Nat) :
    outs s (drain (n + 1))
      = .res (pullU false s.u).2 :: outs { s with u := (pullU false s.u).1 } (drain n) := by
  have : drain (n + 1) = .next none :: drain n := rfl
  rw [this]
  simp only [outs]
  rw [step_nextU]

theorem pullU_nil (b : Bool) (u : U) (h : u.rest = []) : (pullU b u).2 = .stop := by
  rcases u with ⟨gen, hc, hs, rest, status, log, cr⟩
  simp only at h; subst h
  cases gen <;> cases status <;> cases b <;> simp [pullU, Status.dead]

theorem pullU_item (b : Bool) (u : U) (v : Val) (r : List Entry) (h : u.rest = .item v :: r)
    (hd : u.status.dead = false) : (pullU b u).2 = .item v ∧ (pullU b u).1.rest = r := by
  rcases u with ⟨gen, hc, hs, rest, status, log, cr⟩
  simp only at h; subst h
  cases gen <;> cases status <;> cases b <;> simp_all [pullU, Status.dead]

theorem drain_usable : ∀ (rest : List Entry) (s : State), s.u.rest = rest → Usable s.u →
    outs s (drain (rest.length + 1))
      = (itemsOf rest).map (fun v => Out.res (.item v)) ++ [.res .stop] := by
  intro rest
  induction rest with
  | nil =>
    intro s hr _
    rw [List.length_nil, outs_drain_succ, pullU_nil false s.u hr]
    rfl
  | cons e r ih =>
    intro s hr hu
    rw [List.length_cons, outs_drain_succ]
    have hnd : s.u.status.dead = false := by
      rcases hu.1 with h1 | ⟨_, h3⟩
      · exact h1
      · rw [hr] at h3; cases h3
    cases e with
    | fail x =>
      have := hu.2
      rw [hr] at this
      simp [faultFree] at this
    | item v =>
      obtain ⟨e1, e2⟩ := pullU_item false s.u v r hr hnd
      have hu' : Usable (pullU false s.u).1 := pullU_usable false s.u hu
      rw [ih { s with u := (pullU false s.u).1 } e2 hu', e1]
      simp [itemsOf]

/-! ## Closing a handle -/

theorem closeT_borrowed (s : State) (h : Nat) (hd : Handle) (hh : s.hs[h]? = some hd)
    (hk : hd.kind = .borrowed) :
    closeT s (some h) = { s with hs := s.hs.modify h closeWrapper } := by
  simp [closeT, hh, hk]

theorem closeT_scoped (s : State) (h : Nat) (hd : Handle) (hh : s.hs[h]? = some hd)
    (hk : hd.kind = .scoped) : closeT s (some h) = s := by
  simp [closeT, hh, hk]

theorem getElem?_modify_self (hs : List Handle) (h : Nat) (hd : Handle) (f : Handle → Handle)
    (hh : hs[h]? = some hd) : (hs.modify h f)[h]? = some (f hd) := by
  rw [List.getElem?_modify, hh]; simp

theorem getElem?_modify_ne (hs : List Handle) (i j : Nat) (f : Handle → Handle) (hij : i ≠ j) :
    (hs.modify i f)[j]? = hs[j]? := by
  rw [List.getElem?_modify]
  cases hs[j]? <;> simp [hij]

/-! ## Contexts -/

theorem step_ctxs (s : State) (op : Op) :
    (step s op).1.ctxs = s.ctxs
    ∨ ∃ t own, op = .enter t ∧ (step s op).1.ctxs = s.ctxs ++ [{ target := t, own := own }] := by
  cases op with
  | next t => left; simp only [step]; split
              · exact (pullH_spec false _ s t).ctxs
              · rfl
  | nextCancel t => left; simp only [step]; split
                    · exact (pullH_spec true _ s t).ctxs
                    · rfl
  | send h =>
    left; simp only [step]
    split
    · rfl
    · split <;> rfl
  | close t =>
    left; simp only [step]
    split
    · split
      · rfl
      · exact closeT_ctxs s t
    · rfl
  | closeIter h =>
    left; simp only [step]
    split
    · exact closeT_ctxs s _
    · rfl
  | borrow t => left; simp only [step]; split <;> rfl
  | enter t =>
    simp only [step]
    split
    · split
      · rename_i _ hn
        right
        refine ⟨t, none, rfl, ?_⟩
        have : t = none := by
          cases t with
          | none => rfl
          | some x => simp at hn
        simp [this]
      · right; exact ⟨t, some s.hs.length, rfl, rfl⟩
    · left; rfl
  | exit c m =>
    left; simp only [step]
    split
    · rfl
    · split
      · rfl
      · rw [closeT_ctxs]

/-- the only context scoping the underlying iterator itself is `c0` -/
def OnlyScope (c0 : Nat) (s : State) : Prop :=
  ∀ (c : Nat) (cx : Ctx), s.ctxs[c]? = some cx → cx.target = none → c = c0

/-- what the body of the block of context `c0` may do: anything but closing the underlying
    iterator directly, opening another scope directly on it, or leaving `c0` -/
def Op.inBlock (c0 : Nat) : Op → Bool
  | .close none => false
  | .enter none => false
  | .exit c _ => c != c0
  | _ => true

theorem step_onlyScope (c0 : Nat) (s : State) (op : Op) (hb : op.inBlock c0 = true)
    (hs : OnlyScope c0 s) : closesU s op = false ∧ OnlyScope c0 (step s op).1 := by
  constructor
  · cases op with
    | close t => cases t <;> simp_all [Op.inBlock, closesU]
    | exit c m =>
      simp only [closesU]
      cases hc : s.ctxs[c]? with
      | none => rfl
      | some cx =>
        cases ht : cx.target with
        | some p => simp [ht]
        | none =>
          have := hs c cx hc ht
          simp [Op.inBlock, this] at hb
    | _ => rfl
  · rcases step_ctxs s op with e | ⟨t, own, eo, e⟩
    · intro c cx hc ht; rw [e] at hc; exact hs c cx hc ht
    · intro c cx hc ht
      rw [e] at hc
      by_cases hl : c < s.ctxs.length
      · rw [List.getElem?_append_left hl] at hc; exact hs c cx hc ht
      · rw [List.getElem?_append_right (Nat.le_of_not_lt hl)] at hc
        subst eo
        cases hq : c - s.ctxs.length with
        | zero =>
          rw [hq] at hc
          simp at hc
          subst hc
          simp only at ht
          subst ht
          simp [Op.inBlock] at hb
        | succ n => rw [hq] at hc; simp at hc

theorem exec_onlyScope (c0 : Nat) (ops : List Op) : ∀ s : State,
    (∀ op ∈ ops, op.inBlock c0 = true) → OnlyScope c0 s →
    closeOps s ops = 0 ∧ OnlyScope c0 (exec s ops) := by
  induction ops with
  | nil => intro s _ h; exact ⟨rfl, h⟩
  | cons op r ih =>
    intro s hb hs
    obtain ⟨h1, h2⟩ := step_onlyScope c0 s op (hb op (by simp)) hs
    obtain ⟨h3, h4⟩ := ih (step s op).1 (fun o ho => hb o (by simp [ho])) h2
    exact ⟨by simp [closeOps, h1, h3], by rw [exec_cons]; exact h4⟩

/-! ## A scoped handle stays open while items keep coming -/

/-- the outcome is not the end of a pull (stop / exception / cancellation) -/
def Out.keepsOpen : Out → Bool
  | .res (.item _) => true
  | .res _ => false
  | _ => true

def Op.isExit : Op → Bool
  | .exit _ _ => true
  | _ => false

theorem closeT_keeps_scoped (s : State) (t : Option Nat) (h : Nat) (hd : Handle)
    (hh : s.hs[h]? = some hd) (hk : hd.kind = .scoped) : (closeT s t).hs[h]? = some hd := by
  cases t with
  | none => exact hh
  | some x =>
    simp only [closeT]
    split
    · exact hh
    · rename_i hx ex
      split
      · rename_i hkx
        by_cases hxh : x = h
        · subst hxh
          rw [hh] at ex; cases ex
          rw [hk] at hkx; cases hkx
        · show (s.hs.modify x closeWrapper)[h]? = some hd
          rw [getElem?_modify_ne _ _ _ _ hxh]; exact hh
      · exact hh

theorem step_scoped_open (s : State) (op : Op) (h : Nat) (hd : Handle) (hh : s.hs[h]? = some hd)
    (hk : hd.kind = .scoped) (hne : op.isExit = false) (ho : (step s op).2.keepsOpen = true) :
    (step s op).1.hs[h]? = some hd := by
  have hl := lt_of_getElem? hh
  cases op with
  | next t =>
    simp only [step] at ho ⊢
    split
    · rename_i hv
      simp only [hv, if_true] at ho
      cases hr : (pullH false s.hs.length s t).2 with
      | item v => rw [(pullH_spec false _ s t).itemSame v hr]; exact hh
      | stop => simp [hr, Out.keepsOpen] at ho
      | raised e => simp [hr, Out.keepsOpen] at ho
      | cancelled => simp [hr, Out.keepsOpen] at ho
      | stuck => simp [hr, Out.keepsOpen] at ho
    · exact hh
  | nextCancel t =>
    simp only [step] at ho ⊢
    split
    · rename_i hv
      simp only [hv, if_true] at ho
      cases hr : (pullH true s.hs.length s t).2 with
      | item v => rw [(pullH_spec true _ s t).itemSame v hr]; exact hh
      | stop => simp [hr, Out.keepsOpen] at ho
      | raised e => simp [hr, Out.keepsOpen] at ho
      | cancelled => simp [hr, Out.keepsOpen] at ho
      | stuck => simp [hr, Out.keepsOpen] at ho
    · exact hh
  | send x =>
    simp only [step]
    split
    · exact hh
    · split <;> exact hh
  | close t =>
    simp only [step]
    split
    · split
      · exact hh
      · exact closeT_keeps_scoped s t h hd hh hk
    · exact hh
  | closeIter x =>
    simp only [step]
    split
    · exact closeT_keeps_scoped s _ h hd hh hk
    · exact hh
  | borrow t =>
    simp only [step]
    split
    · show (s.hs ++ _)[h]? = some hd
      rw [List.getElem?_append_left hl]; exact hh
    · exact hh
  | enter t =>
    simp only [step]
    split
    · split
      · exact hh
      · show (s.hs ++ _)[h]? = some hd
        rw [List.getElem?_append_left hl]; exact hh
    · exact hh
  | exit c m => simp [Op.isExit] at hne

theorem exec_scoped_open (ops : List Op) : ∀ (s : State) (h : Nat) (hd : Handle),
    s.hs[h]? = some hd → hd.kind = .scoped → (∀ op ∈ ops, op.isExit = false) →
    (∀ o ∈ outs s ops, o.keepsOpen = true) → (exec s ops).hs[h]? = some hd := by
  induction ops with
  | nil => intro s h hd hh _ _ _; exact hh
  | cons op r ih =>
    intro s h hd hh hk hne ho
    rw [exec_cons]
    have h1 := step_scoped_open s op h hd hh hk (hne op (by simp)) (ho _ (by simp [outs]))
    exact ih _ h hd h1 hk (fun o hm => hne o (by simp [hm])) (fun o hm => ho o (by simp [outs, hm]))

/-! ## Fuel: the recursion budget of `pullH` is never exhausted -/

/-- every handle's parent is an older handle -/
def WFh (hs : List Handle) : Prop :=
  ∀ (h : Nat) (hd : Handle), hs[h]? = some hd → ∀ p, hd.parent = some p → p < h

theorem WFh.of_mono {hs hs' : List Handle} (hw : WFh hs) (hm : HsMono hs hs')
    (hl : hs'.length = hs.length) : WFh hs' := by
  intro h hd' hh p hp
  have hlt : h < hs.length := by rw [← hl]; exact lt_of_getElem? hh
  have : ∃ hd, hs[h]? = some hd := ⟨hs[h], by simp [hlt]⟩
  obtain ⟨hd, e⟩ := this
  obtain ⟨hd2, e2, le⟩ := hm.2 h hd e
  rw [hh] at e2; cases e2
  exact hw h hd e p (by rw [← le.parent]; exact hp)

theorem WFh.append {hs : List Handle} (hw : WFh hs) (nh : Handle)
    (hp : ∀ p, nh.parent = some p → p < hs.length) : WFh (hs ++ [nh]) := by
  intro h hd hh p hpar
  by_cases hl : h < hs.length
  · rw [List.getElem?_append_left hl] at hh; exact hw h hd hh p hpar
  · rw [List.getElem?_append_right (Nat.le_of_not_lt hl)] at hh
    cases hq : h - hs.length with
    | zero =>
      rw [hq] at hh; simp at hh; subst hh
      have := hp p hpar
      omega
    | succ n => rw [hq] at hh; simp at hh

theorem closeT_len (s : State) (t : Option Nat) : (closeT s t).hs.length = s.hs.length := by
  cases t with
  | none => rfl
  | some h =>
    simp only [closeT]
    split
    · rfl
    · split
      · simp
      · rfl

theorem step_wf (s : State) (op : Op) (hw : WFh s.hs) : WFh (step s op).1.hs := by
  cases op with
  | next t =>
    simp only [step]; split
    · exact hw.of_mono (pullH_spec false _ s t).mono (pullH_spec false _ s t).len
    · exact hw
  | nextCancel t =>
    simp only [step]; split
    · exact hw.of_mono (pullH_spec true _ s t).mono (pullH_spec true _ s t).len
    · exact hw
  | send h =>
    simp only [step]
    split
    · exact hw
    · split <;> exact hw
  | close t =>
    simp only [step]; split
    · split
      · exact hw
      · exact hw.of_mono (closeT_mono s t) (closeT_len s t)
    · exact hw
  | closeIter h =>
    simp only [step]; split
    · exact hw.of_mono (closeT_mono s _) (closeT_len s _)
    · exact hw
  | borrow t =>
    simp only [step]; split
    · rename_i hv
      refine hw.append _ ?_
      intro p hp
      simp only [newHandle] at hp
      subst hp
      simpa [validT] using hv
    · exact hw
  | enter t =>
    simp only [step]; split
    · rename_i hv
      split
      · exact hw
      · refine hw.append _ ?_
        intro p hp
        simp only [newHandle] at hp
        subst hp
        simpa [validT] using hv
    · exact hw
  | exit c m =>
    cases hc : s.ctxs[c]? with
    | none => simpa [step, hc] using hw
    | some cx =>
      cases ho : cx.own with
      | none => simpa [step, hc, ho] using hw
      | some hid =>
        have e : (step s (.exit c m)).1
            = closeT { s with hs := s.hs.modify hid closeWrapper } cx.target := by
          simp [step, hc, ho]
        rw [e]
        have h1 : WFh (s.hs.modify hid closeWrapper) :=
          hw.of_mono (HsMono.modify s.hs hid closeWrapper HLe.close) (by simp)
        exact WFh.of_mono (hs := s.hs.modify hid closeWrapper) h1
          (closeT_mono { s with hs := s.hs.modify hid closeWrapper } cx.target)
          (closeT_len { s with hs := s.hs.modify hid closeWrapper } cx.target)

theorem pullU_not_stuck (b : Bool) (u : U) : (pullU b u).2 ≠ .stuck := by
  rcases u with ⟨gen, hc, hs, rest, status, log, cr⟩
  cases gen <;> cases status <;> cases b <;> rcases rest with _ | ⟨⟨v⟩ | ⟨e⟩, r⟩ <;>
    simp [pullU, Status.dead]

theorem cancelU_not_stuck (u : U) : (cancelU u).2 ≠ .stuck := by
  rcases u with ⟨gen, hc, hs, rest, status, log, cr⟩
  cases gen <;> cases status <;> simp [cancelU, Status.dead]

theorem pullH_not_stuck (c : Bool) : ∀ (fuel : Nat) (s : State) (t : Option Nat), WFh s.hs →
    (∀ h, t = some h → h < fuel ∧ h < s.hs.length) → (pullH c fuel s t).2 ≠ .stuck := by
  intro fuel
  induction fuel with
  | zero =>
    intro s t _ ht
    cases t with
    | none => cases c <;> simp [pullH, pullU_not_stuck, cancelU_not_stuck]
    | some h => have := (ht h rfl).1; omega
  | succ fuel ih =>
    intro s t hw ht
    cases t with
    | none => cases c <;> simp [pullH, pullU_not_stuck, cancelU_not_stuck]
    | some h =>
      obtain ⟨h1, h2⟩ := ht h rfl
      have : ∃ hd, s.hs[h]? = some hd := ⟨s.hs[h], by simp [h2]⟩
      obtain ⟨hd, e⟩ := this
      simp only [pullH, e]
      split
      · simp
      · have hrec := ih s hd.parent hw (by
          intro p hp
          have := hw h hd e p hp
          exact ⟨by omega, by omega⟩)
        split
        · simp
        · exact hrec

end AsyncVerif.Borrow
