import AsyncVerif.Proofs.TwinMore
import AsyncVerif.Proofs.Release
import AsyncVerif.Proofs.KindFree
/-!
# chain: twin and release

`chain` scopes each input separately and goes on to the next one, so after the first input the
asyncstdlib run and the CPython run are in *different* worlds (the finished input is closed in one,
merely exhausted in the other).  `VR w w'` relates worlds that agree on everything a later pull can
observe: logs, consumer, callables and, per source, script, liveness and kind.
-/
namespace AsyncVerif

structure VR (w w' : World) : Prop where
  vis : w.vis = w'.vis
  cons : w.cons = w'.cons
  fns : w.fns = w'.fns
  calls : w.calls = w'.calls
  srcs : ∀ s, (w.srcs s).script = (w'.srcs s).script ∧ (w.srcs s).status.live = (w'.srcs s).status.live
    ∧ (w.srcs s).kind = (w'.srcs s).kind

theorem VR.refl (w : World) : VR w w := ⟨rfl, rfl, rfl, rfl, fun _ => ⟨rfl, rfl, rfl⟩⟩

/-- what a related pair of runs guarantees: same outcome, related final worlds -/
def VRel {α : Type} (m : M α) : Prop :=
  ∀ w w', VR w w' → (m w).1 = (m w').1 ∧ VR (m w).2 (m w').2

theorem vrel_pull (s : Nat) : VRel (pull s) := by
  intro w w' h
  obtain ⟨hsc, hlv, hkd⟩ := h.srcs s
  unfold pull
  by_cases hl : (w.srcs s).status.live
  · have hl' : (w'.srcs s).status.live = true := by rw [← hlv]; exact hl
    simp only [hl, hl', if_true]
    rw [← hsc, ← hkd]
    have other : ∀ (x x' : Src), x.script = x'.script → x.status.live = x'.status.live → x.kind = x'.kind →
        ∀ t, ((fun i => if i = s then x else w.srcs i) t).script = ((fun i => if i = s then x' else w'.srcs i) t).script ∧
          ((fun i => if i = s then x else w.srcs i) t).status.live = ((fun i => if i = s then x' else w'.srcs i) t).status.live ∧
          ((fun i => if i = s then x else w.srcs i) t).kind = ((fun i => if i = s then x' else w'.srcs i) t).kind := by
      intro x x' a b c t
      by_cases ht : t = s
      · simp [ht, a, b, c]
      · simp [ht, h.srcs t]
    cases hs : (w.srcs s).script with
    | nil =>
      refine ⟨rfl, ⟨by simp [World.pushVis, World.setSrc, h.vis], h.cons, h.fns, h.calls, ?_⟩⟩
      exact other _ _ (by simp [hsc]) (by simp [Status.live]) (by simp [hkd])
    | cons r rest =>
      cases r with
      | item v =>
        refine ⟨rfl, ⟨by simp [World.pushVis, World.setSrc, h.vis], h.cons, h.fns, h.calls, ?_⟩⟩
        exact other _ _ rfl (by simp [Status.live]) (by simp [hkd])
      | err e =>
        refine ⟨rfl, ⟨by simp [World.pushVis, World.setSrc, h.vis], h.cons, h.fns, h.calls, ?_⟩⟩
        exact other _ _ rfl rfl (by simp [hkd])
  · have hl' : ¬ (w'.srcs s).status.live = true := by rw [← hlv]; exact hl
    rw [if_neg hl, if_neg hl', ← hkd]
    by_cases hv : (w.srcs s).kind.repollVisible
    · rw [if_pos hv, if_pos hv]
      exact ⟨rfl, ⟨by simp [World.pushVis, h.vis], h.cons, h.fns, h.calls, h.srcs⟩⟩
    · rw [if_neg hv, if_neg hv]
      exact ⟨rfl, h⟩

theorem vrel_yieldV (v : Val) : VRel (yieldV v) := by
  intro w w' h
  unfold yieldV
  rw [← h.cons]
  cases hc : w.cons with
  | done => exact ⟨rfl, ⟨by simp [World.pushVis, h.vis], by simp [World.pushVis, ← h.cons, hc], h.fns, h.calls, h.srcs⟩⟩
  | run n fin =>
    cases n with
    | succ n => exact ⟨rfl, ⟨by simp [World.pushVis, h.vis], by simp [World.pushVis], h.fns, h.calls, h.srcs⟩⟩
    | zero =>
      cases fin with
      | exhaust => exact ⟨rfl, ⟨by simp [World.pushVis, h.vis], by simp [World.pushVis, ← h.cons, hc], h.fns, h.calls, h.srcs⟩⟩
      | close => exact ⟨rfl, ⟨by simp [World.pushVis, h.vis], by simp [World.pushVis], h.fns, h.calls, h.srcs⟩⟩
      | throw e => exact ⟨rfl, ⟨by simp [World.pushVis, h.vis], by simp [World.pushVis], h.fns, h.calls, h.srcs⟩⟩

theorem vrel_bind {α β : Type} {m : M α} {f : α → M β} (hm : VRel m) (hf : ∀ a, VRel (f a)) : VRel (m >>= f) := by
  intro w w' h
  obtain ⟨hr, hw⟩ := hm w w' h
  rw [bind_apply, bind_apply]
  rcases hmw : m w with ⟨r, w1⟩
  rcases hmw' : m w' with ⟨r', w1'⟩
  rw [hmw, hmw'] at hr hw
  simp only at hr hw
  subst hr
  cases r with
  | ok a => exact hf a w1 w1' hw
  | error x => exact ⟨rfl, hw⟩

theorem vrel_pure {α : Type} (a : α) : VRel (pure a : M α) := fun _ _ h => ⟨rfl, h⟩
theorem vrel_raise {α : Type} (x : Exc) : VRel (raise x : M α) := fun _ _ h => ⟨rfl, h⟩

/-- the pass-through loop of `chain` -/
def passLoop (s fuel : Nat) : M Unit := forEach s (fun x => do yieldV x; pure true) fuel

theorem vrel_passLoop (s : Nat) : ∀ fuel, VRel (passLoop s fuel) := by
  intro fuel
  induction fuel with
  | zero => exact vrel_raise _
  | succ fuel ih =>
    unfold passLoop forEach
    refine vrel_bind (vrel_pull s) ?_
    intro r
    cases r with
    | none => exact vrel_pure _
    | some x =>
      refine vrel_bind (vrel_bind (vrel_yieldV x) (fun _ => vrel_pure true)) ?_
      intro b
      cases b
      · exact vrel_pure _
      · exact ih

/-- a pull that reports the end leaves the source non-live -/
theorem pull_none_nonlive (s : Nat) (w w1 : World) (hp : pull s w = (.ok none, w1)) :
    (w1.srcs s).status.live = false := by
  unfold pull at hp
  by_cases hl : (w.srcs s).status.live
  · rw [if_pos hl] at hp
    cases hs : (w.srcs s).script with
    | nil =>
      simp only [hs, Prod.mk.injEq] at hp
      rw [← hp.2]; simp [World.pushVis, World.setSrc, Status.live]
    | cons x xs => cases x <;> simp [hs] at hp
  · rw [if_neg hl] at hp
    by_cases hv : (w.srcs s).kind.repollVisible
    · rw [if_pos hv] at hp
      simp only [Prod.mk.injEq] at hp
      rw [← hp.2]; simpa [World.pushVis] using hl
    · rw [if_neg hv] at hp
      simp only [Prod.mk.injEq] at hp
      rw [← hp.2]; simpa using hl

theorem yieldV_srcs (v : Val) (w : World) : (yieldV v w).2.srcs = w.srcs := by
  unfold yieldV
  cases w.cons with
  | done => rfl
  | run n fin => cases n <;> cases fin <;> rfl

/-- when the pass-through loop ends normally its source is no longer live -/
theorem passLoop_ok_nonlive (s : Nat) : ∀ (fuel : Nat) (w : World),
    (passLoop s fuel w).1 = .ok () → ((passLoop s fuel w).2.srcs s).status.live = false := by
  intro fuel
  induction fuel with
  | zero => intro w h; simp [passLoop, forEach, raise] at h
  | succ fuel ih =>
    intro w h
    have hdef : passLoop s (fuel + 1) = (do
        match ← pull s with
        | none => pure ()
        | some x => do
          if (← (do yieldV x; pure true : M Bool)) then passLoop s fuel else pure ()) := rfl
    rw [hdef] at h ⊢
    rw [bind_apply] at h ⊢
    rcases hp : pull s w with ⟨r, w1⟩
    rw [hp] at h
    cases r with
    | error e => simp at h
    | ok o =>
      cases o with
      | none => exact pull_none_nonlive s w w1 hp
      | some x =>
        simp only [bind_apply, pure_apply] at h ⊢
        rcases hy : yieldV x w1 with ⟨r2, w2⟩
        rw [hy] at h
        cases r2 with
        | error e => simp at h
        | ok u =>
          simp only [if_true] at h ⊢
          exact ih w2 h

/-- closing an input that is no longer live changes nothing a later pull can observe -/
theorem closeSrc_vr (s : Nat) (w w' : World) (h : VR w w') (hn : (w.srcs s).status.live = false) :
    VR (closeSrc s w).2 w' := by
  have hq := closeSrc_quiet s w
  refine ⟨hq.2.1.trans h.vis, hq.2.2.trans h.cons, ?_, ?_, ?_⟩
  · unfold closeSrc
    cases hk : (w.srcs s).kind <;> simp only [hk]
    all_goals first
      | (split <;> simp [World.setSrc, World.pushRel, h.fns])
      | (cases hs : (w.srcs s).status <;> simp [World.setSrc, World.pushRel, h.fns])
      | simp [World.setSrc, World.pushRel, h.fns]
  · unfold closeSrc
    cases hk : (w.srcs s).kind <;> simp only [hk]
    all_goals first
      | (split <;> simp [World.setSrc, World.pushRel, h.calls])
      | (cases hs : (w.srcs s).status <;> simp [World.setSrc, World.pushRel, h.calls])
      | simp [World.setSrc, World.pushRel, h.calls]
  · intro t
    by_cases ht : t = s
    · subst ht
      obtain ⟨a, b, c⟩ := h.srcs t
      unfold closeSrc
      cases hk : (w.srcs t).kind <;> simp only [hk]
      · simp [hn, ← a, ← b, ← c, hk]
      · simp [hn, ← a, ← b, ← c, hk]
      · simp [hn, ← a, ← b, ← c, hk]
      · cases hs : (w.srcs t).status <;> simp_all [World.setSrc, World.pushRel, Status.live]
      · simp_all [World.setSrc, World.pushRel, Status.live]
      · simp [← a, ← b, ← c, hk]
    · rw [closeSrc_srcs_other s t w ht]; exact h.srcs t

/-- `chain._chain_iterator` against `chain_next`, from related worlds -/
theorem chainIter_vr (fuel : Nat) : ∀ (srcs : List Nat) (w w' : World), VR w w' →
    (Impl.chainIter srcs fuel w).1 = (Std.chain srcs fuel w').1 ∧
    (Impl.chainIter srcs fuel w).2.vis = (Std.chain srcs fuel w').2.vis ∧
    (Impl.chainIter srcs fuel w).2.cons = (Std.chain srcs fuel w').2.cons := by
  intro srcs
  induction srcs with
  | nil => intro w w' h; exact ⟨rfl, h.vis, h.cons⟩
  | cons s rest ih =>
    intro w w' h
    have hloop := vrel_passLoop s fuel w w' h
    have hq := tryFinally_quiet (passLoop s fuel) (closeSrc s) (closeSrc_quiet s) w
    have hworld := tryFinally_world (passLoop s fuel) (closeSrc s) (closeSrc_quiet s) w
    have e1 : Impl.chainIter (s :: rest) fuel = (scopedIter s (passLoop s fuel) >>= fun _ => Impl.chainIter rest fuel) := rfl
    have e2 : Std.chain (s :: rest) fuel = (passLoop s fuel >>= fun _ => Std.chain rest fuel) := rfl
    rw [e1, e2]
    rw [bind_apply, bind_apply]
    unfold scopedIter
    rcases hA : tryFinally (passLoop s fuel) (closeSrc s) w with ⟨ra, wa⟩
    rcases hB : passLoop s fuel w' with ⟨rb, wb⟩
    rw [hA] at hq hworld
    rw [hB] at hloop
    simp only at hq hworld hloop
    obtain ⟨hr1, hv1, hc1⟩ := hq
    obtain ⟨hr2, hvr⟩ := hloop
    have hra : ra = rb := hr1.trans hr2
    subst hra
    cases ra with
    | error e => exact ⟨rfl, hv1.trans hvr.vis, hc1.trans hvr.cons⟩
    | ok u =>
      simp only
      have hok : (passLoop s fuel w).1 = .ok () := hr1.symm
      have hnl := passLoop_ok_nonlive s fuel w hok
      have hfo : isFuelOut (passLoop s fuel w).1 = false := by rw [hok]; rfl
      rw [hfo] at hworld
      simp only [Bool.false_eq_true, if_false] at hworld
      have : VR wa wb := by rw [hworld]; exact closeSrc_vr s _ _ hvr hnl
      exact ih wa wb this

end AsyncVerif

namespace AsyncVerif

theorem closeOwned_quiet (l : List Nat) : Quiet (Impl.closeOwned l) := by
  induction l with
  | nil => intro w; simp [Impl.closeOwned, pure_apply]
  | cons s rest ih =>
    intro w
    unfold Impl.closeOwned
    rw [bind_apply]
    unfold Impl.closeIfOwned
    by_cases hk : (w.srcs s).kind = .agen ∨ (w.srcs s).kind = .aobj
    · rw [if_pos hk]
      have h1 := closeSrc_quiet s w
      rcases hc : closeSrc s w with ⟨r, w1⟩
      rw [hc] at h1
      obtain ⟨hr, hv, hcn⟩ := h1
      simp only at hr hv hcn
      subst hr
      have h2 := ih w1
      exact ⟨h2.1, h2.2.1.trans hv, h2.2.2.trans hcn⟩
    · rw [if_neg hk]
      exact ih w

/-- the `chain` handle: its `aclose()` (closing owned iterators) is invisible on the visible log -/
theorem chain_handle_twin (srcs : List Nat) (fuel : Nat) : Twin (Impl.chain srcs fuel) (Impl.chainIter srcs fuel) := by
  intro w
  unfold Impl.chain
  rcases hc : Impl.chainIter srcs fuel w with ⟨r, w1⟩
  cases r with
  | ok u => exact ⟨rfl, rfl⟩
  | error e =>
    cases e <;> try exact ⟨rfl, rfl⟩
    -- genExit: the owned iterators are closed
    have hq := closeOwned_quiet srcs w1
    dsimp only
    rcases ho : Impl.closeOwned srcs w1 with ⟨r2, w2⟩
    rw [ho] at hq
    have : r2 = .ok () := hq.1
    subst this
    exact ⟨rfl, hq.2.1⟩

theorem chain_twin (srcs : List Nat) (fuel : Nat) : Twin (Impl.chain srcs fuel) (Std.chain srcs fuel) := by
  intro w
  have h1 := chain_handle_twin srcs fuel w
  have h2 := chainIter_vr fuel srcs w w (VR.refl w)
  exact ⟨h1.1.trans h2.1, h1.2.trans h2.2.1⟩

end AsyncVerif

namespace AsyncVerif

/-- a program never un-releases a source -/
def RelMono {α : Type} (m : M α) : Prop :=
  ∀ w t, Released (w.srcs t) → Released ((m w).2.srcs t)

theorem relMono_pure {α : Type} (a : α) : RelMono (pure a : M α) := fun _ _ h => h
theorem relMono_raise {α : Type} (x : Exc) : RelMono (raise x : M α) := fun _ _ h => h

theorem relMono_bind {α β : Type} {m : M α} {f : α → M β} (hm : RelMono m) (hf : ∀ a, RelMono (f a)) :
    RelMono (m >>= f) := by
  intro w t h
  rw [bind_apply]
  have h1 := hm w t h
  rcases hmw : m w with ⟨r, w1⟩
  rw [hmw] at h1
  cases r with
  | ok a => exact hf a w1 t h1
  | error e => exact h1

theorem relMono_yieldV (v : Val) : RelMono (yieldV v) := by
  intro w t h
  rw [yieldV_srcs]; exact h

theorem relMono_closeSrc (s : Nat) : RelMono (closeSrc s) := fun w t h => closeSrc_preserves s t w h

theorem relMono_pull (s : Nat) : RelMono (pull s) := by
  intro w t h
  unfold pull
  by_cases hl : (w.srcs s).status.live
  · rw [if_pos hl]
    by_cases hts : t = s
    · subst hts
      -- a released source that is still live can only be a class-based one that was closed before
      have hlive : (w.srcs t).status = .fresh ∨ (w.srcs t).status = .running := by
        cases hst : (w.srcs t).status <;> simp_all [Status.live]
      unfold Released at h ⊢
      cases hk : (w.srcs t).kind <;> simp only [hk] at h
      · cases hs : (w.srcs t).script with
        | nil => simp [World.pushVis, World.setSrc, hk]
        | cons r rest => cases r <;> simp [World.pushVis, World.setSrc, hk]
      · cases hs : (w.srcs t).script with
        | nil => simp [World.pushVis, World.setSrc, hk]
        | cons r rest => cases r <;> simp [World.pushVis, World.setSrc, hk]
      · cases hs : (w.srcs t).script with
        | nil => simp [World.pushVis, World.setSrc, hk]
        | cons r rest => cases r <;> simp [World.pushVis, World.setSrc, hk]
      · rcases hlive with h' | h' <;> rcases h with h | h | h <;> rw [h'] at h <;> simp at h
      · have hc : 0 < (w.srcs t).closes := by
          rcases h with h | h
          · exact h
          · rcases hlive with h' | h' <;> rw [h'] at h <;> simp at h
        cases hs : (w.srcs t).script with
        | nil => simp [World.pushVis, World.setSrc, hk, hc]
        | cons r rest => cases r <;> simp [World.pushVis, World.setSrc, hk, hc]
      · cases hs : (w.srcs t).script with
        | nil => simp [World.pushVis, World.setSrc, hk]
        | cons r rest => cases r <;> simp [World.pushVis, World.setSrc, hk]
    · cases hs : (w.srcs s).script with
      | nil => simpa [World.pushVis, World.setSrc, hts] using h
      | cons r rest => cases r <;> simpa [World.pushVis, World.setSrc, hts] using h
  · rw [if_neg hl]
    by_cases hv : (w.srcs s).kind.repollVisible
    · rw [if_pos hv]; simpa [World.pushVis] using h
    · rw [if_neg hv]; exact h

theorem relMono_tryFinally {α : Type} {body : M α} {fin : M Unit} (hb : RelMono body) (hf : RelMono fin) :
    RelMono (tryFinally body fin) := by
  intro w t h
  have h1 := hb w t h
  rcases hbw : body w with ⟨r, w1⟩
  rw [hbw] at h1
  have h2 := hf w1 t h1
  rcases hfw : fin w1 with ⟨r2, w2⟩
  rw [hfw] at h2
  cases r with
  | ok a => cases r2 <;> simpa [tryFinally, hbw, hfw] using h2
  | error e =>
    cases e <;> cases r2 <;> first
      | (simpa [tryFinally, hbw, hfw] using h2)
      | (simpa [tryFinally, hbw, hfw] using h1)

theorem relMono_passLoop (s : Nat) : ∀ fuel, RelMono (passLoop s fuel) := by
  intro fuel
  induction fuel with
  | zero => exact relMono_raise _
  | succ fuel ih =>
    unfold passLoop forEach
    refine relMono_bind (relMono_pull s) ?_
    intro r
    cases r with
    | none => exact relMono_pure _
    | some x =>
      refine relMono_bind (relMono_bind (relMono_yieldV x) (fun _ => relMono_pure true)) ?_
      intro b
      cases b
      · exact relMono_pure _
      · exact ih

theorem relMono_chainIter (fuel : Nat) : ∀ srcs, RelMono (Impl.chainIter srcs fuel) := by
  intro srcs
  induction srcs with
  | nil => exact relMono_pure _
  | cons s rest ih =>
    exact relMono_bind (relMono_tryFinally (relMono_passLoop s fuel) (relMono_closeSrc s)) (fun _ => ih)

/-- when `chain`'s iterator runs to its end, every input has been released -/
theorem chainIter_released (fuel : Nat) : ∀ (srcs : List Nat) (w : World),
    (Impl.chainIter srcs fuel w).1 = .ok () → ∀ s ∈ srcs, Released ((Impl.chainIter srcs fuel w).2.srcs s) := by
  intro srcs
  induction srcs with
  | nil => intro w _ s hs; simp at hs
  | cons a rest ih =>
    intro w hok s hs
    have e1 : Impl.chainIter (a :: rest) fuel = (scopedIter a (passLoop a fuel) >>= fun _ => Impl.chainIter rest fuel) := rfl
    rw [e1] at hok ⊢
    rw [bind_apply] at hok ⊢
    rcases hA : scopedIter a (passLoop a fuel) w with ⟨r, w1⟩
    rw [hA] at hok
    cases r with
    | error e => simp at hok
    | ok u =>
      simp only at hok ⊢
      have hrel : Released (w1.srcs a) := by
        have := scopedIter_released a (passLoop a fuel) w (by rw [hA]; simp)
        rw [hA] at this; exact this
      rcases List.mem_cons.mp hs with h | h
      · subst h; exact relMono_chainIter fuel rest w1 s hrel
      · exact ih w1 hok s h

end AsyncVerif

namespace AsyncVerif

theorem closeIfOwned_kind (s t : Nat) (w : World) :
    ((Impl.closeIfOwned s w).2.srcs t).kind = (w.srcs t).kind := by
  unfold Impl.closeIfOwned
  split
  · by_cases hts : t = s
    · subst hts
      unfold closeSrc
      cases hk : (w.srcs t).kind <;> simp only [hk]
      all_goals first
        | (split <;> simp [World.setSrc, World.pushRel, hk])
        | (cases hs : (w.srcs t).status <;> simp [World.setSrc, World.pushRel, hk])
        | simp [World.setSrc, World.pushRel, hk]
    · rw [closeSrc_srcs_other s t w hts]
  · rfl

theorem relMono_closeIfOwned (s : Nat) : RelMono (Impl.closeIfOwned s) := by
  intro w t h
  unfold Impl.closeIfOwned
  split
  · exact closeSrc_preserves s t w h
  · exact h

theorem closeIfOwned_ok (s : Nat) (w : World) : (Impl.closeIfOwned s w).1 = .ok () := by
  unfold Impl.closeIfOwned
  split
  · exact (closeSrc_quiet s w).1
  · rfl

/-- `chain.aclose()`: every owned iterator (async generator or class-based with `aclose`) is released;
    other kinds are not subject to the property -/
theorem closeOwned_releases : ∀ (l : List Nat) (w : World), ∀ s ∈ l, Released ((Impl.closeOwned l w).2.srcs s) := by
  intro l
  induction l with
  | nil => intro w s hs; simp at hs
  | cons a rest ih =>
    intro w s hs
    unfold Impl.closeOwned
    rw [bind_apply]
    have hok := closeIfOwned_ok a w
    rcases hc : Impl.closeIfOwned a w with ⟨r, w1⟩
    rw [hc] at hok
    simp only at hok
    subst hok
    simp only
    rcases List.mem_cons.mp hs with h | h
    · subst h
      have hrel : Released (w1.srcs s) := by
        have hw1 : w1 = (Impl.closeIfOwned s w).2 := by rw [hc]
        rw [hw1]
        unfold Impl.closeIfOwned
        split
        · exact closeSrc_releases s w
        · rename_i hk
          unfold Released
          cases hkk : (w.srcs s).kind
          · simp
          · simp
          · simp
          · exact absurd (Or.inl hkk) hk
          · exact absurd (Or.inr hkk) hk
          · simp
      -- later closes keep it released
      have mono : ∀ (l : List Nat), RelMono (Impl.closeOwned l) := by
        intro l
        induction l with
        | nil => exact relMono_pure _
        | cons b bs ihb => exact relMono_bind (relMono_closeIfOwned b) (fun _ => ihb)
      exact mono rest w1 s hrel
    · exact ih w1 s h

end AsyncVerif
