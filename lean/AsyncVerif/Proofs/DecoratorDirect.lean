import AsyncVerif.Machines.DecoratorDirect
import AsyncVerif.Proofs.Decorator
/-! Helper lemmas for C15 with direct use of the decorating manager. Property theorems live in
    `Properties/C15Direct.lean`.

    Technique: a heap state in which only generator object 0 differs from a state `t` of the plain
    `Decorator` machine is `patch t x`.  Every step of a decorated call commutes with `patch` (it
    neither reads nor writes index 0), every step of the direct task only replaces the patch.  Hence
    the machine with direct use is the product of the `Decorator` machine and the direct task run
    alone (`decompose`). -/
namespace AsyncVerif.Decorator

/-- `t` with generator object 0 replaced by `x` -/
def patch (t : State) (x : GenCell) : State := { t with gens := setAt t.gens 0 x }

theorem patch_gens0 (t : State) (x : GenCell) : (patch t x).gens 0 = x := by simp [patch, setAt]
theorem patch_gens_pos (t : State) (x : GenCell) {g : Nat} (h : g ≠ 0) : (patch t x).gens g = t.gens g := by
  simp [patch, setAt, h]
theorem patch_patch (t : State) (x y : GenCell) : patch (patch t x) y = patch t y := by
  unfold patch
  congr 1
  funext j
  by_cases h : j = 0 <;> simp [setAt, h]

theorem setAt_comm0 (f : Nat → GenCell) (x v : GenCell) {g : Nat} (h : g ≠ 0) :
    setAt (setAt f 0 x) g v = setAt (setAt f g v) 0 x := by
  funext j
  by_cases h0 : j = 0
  · subst h0
    have : (0 : Nat) ≠ g := fun h' => h h'.symm
    simp [setAt, this]
  · simp [setAt, h0]

/-- what the commutation needs to know about the `Decorator` state: references are ≥ 1 -/
structure Own (t : State) : Prop where
  pos : 1 ≤ t.ngens
  own : ∀ c g, (t.calls c).gid = some g → 1 ≤ g

theorem own_of_rel {cfg : Cfg} {t : State} {p : PState} (h : Rel cfg t p) : Own t :=
  ⟨h.pos, fun c g hg => (h.own c g hg).1⟩

theorem own_recreate {t : State} (h : Own t) (gb : Bool) (c : Nat) (cc : CallCfg) : Own (recreate gb t c cc) := by
  unfold recreate
  cases gb with
  | false => exact h
  | true =>
    refine ⟨by simp, ?_⟩
    intro c' g hg
    simp only [if_true] at hg
    by_cases hc : c' = c
    · subst hc
      simp only [setAt_same] at hg
      have : t.ngens = g := by simpa using hg
      have := h.pos; omega
    · simp only [setAt_other _ _ hc] at hg
      exact h.own c' g hg

theorem recreate_patch {t : State} (h : Own t) (gb : Bool) (c : Nat) (cc : CallCfg) (x : GenCell) :
    recreate gb (patch t x) c cc = patch (recreate gb t c cc) x := by
  unfold recreate
  cases gb with
  | false => rfl
  | true =>
    simp only [if_true, patch]
    have : t.ngens ≠ 0 := by have := h.pos; omega
    rw [setAt_comm0 _ _ _ this]

theorem core_patch {t : State} (h : Own t) (gb : Bool) (c : Nat) (cc : CallCfg) (cop : COp) (x : GenCell) :
    core gb (patch t x) c cc cop = (patch (core gb t c cc cop).1 x, (core gb t c cc cop).2) := by
  have hcell : cellOf (patch t x) c cc = cellOf t c cc := by
    unfold cellOf
    show (match (t.calls c).gid with | some g => (patch t x).gens g | none => initCell cc) = _
    cases hg : (t.calls c).gid with
    | none => rfl
    | some g =>
      have : g ≠ 0 := by have := h.own c g hg; omega
      simp only [patch_gens_pos _ _ this]
  unfold core
  rw [hcell]
  show (_, _) = (_, _)
  congr 1
  show ({ gens := _, ngens := _, calls := _, log := _ } : State) = patch _ x
  unfold patch
  simp only
  congr 1
  show (match (t.calls c).gid with | some g => setAt (setAt t.gens 0 x) g _ | none => setAt t.gens 0 x) = _
  cases hg : (t.calls c).gid with
  | none => rfl
  | some g =>
    have : g ≠ 0 := by have := h.own c g hg; omega
    simp only [setAt_comm0 _ _ _ this]

/-- a step of a decorated call neither reads nor writes generator object 0 -/
theorem step_patch {cfg : Cfg} {t : State} (h : Own t) (op : Op) (x : GenCell) :
    step cfg (patch t x) op = (patch (step cfg t op).1 x, (step cfg t op).2) := by
  unfold step
  cases hcc : cfg.calls[op.call]? with
  | none => rfl
  | some cc =>
    simp only
    show core cfg.generatorBased
        (if isFirstSend (t.calls op.call).pc op.cop = true then recreate cfg.generatorBased (patch t x) op.call cc
          else patch t x) op.call cc op.cop = _
    by_cases hfs : isFirstSend (t.calls op.call).pc op.cop = true
    · simp only [hfs, if_true]
      rw [recreate_patch h]
      exact core_patch (own_recreate h _ _ _) _ _ _ _ _
    · simp only [hfs]
      exact core_patch h _ _ _ _ _

theorem own_step {cfg : Cfg} {t : State} {p : PState} (h : Rel cfg t p) (op : Op) : Own (step cfg t op).1 :=
  own_of_rel (rel_step h op).1

/-! ## the product decomposition -/

/-- `s` = a `Decorator` state `t` with generator 0 patched, and the direct task in the state `sol`
    of the direct task run alone -/
structure Match (gb : Bool) (d : CallCfg) (s : DState) (t : State) (sol : Solo) : Prop where
  st : ∃ x, s.st = patch t x
  loc : sol.loc = { pc := s.dpc, cell := directCell gb d s.st }
  log : sol.log = s.dlog
  plain : gb = false → sol.loc.cell = initCell d
  plain0 : gb = false → s.st.gens 0 = initCell d

theorem match_init (gb : Bool) (d : CallCfg) : Match gb d (DState.init d) State.init (Solo.init d) where
  st := ⟨initCell d, rfl⟩
  loc := by
    cases gb <;> simp [Solo.init, DState.init, directCell, setAt]
  log := rfl
  plain := fun _ => rfl
  plain0 := fun _ => by simp [DState.init, setAt]

theorem match_call {cfg : Cfg} {d : CallCfg} {s : DState} {t : State} {p : PState} {sol : Solo}
    (h : Match cfg.generatorBased d s t sol) (hr : Rel cfg t p) (op : Op) :
    Match cfg.generatorBased d (dstep cfg d s (.call op)).1 (step cfg t op).1 sol ∧
      (dstep cfg d s (.call op)).2 = (step cfg t op).2 := by
  obtain ⟨x, hx⟩ := h.st
  have hs := step_patch (cfg := cfg) (own_of_rel hr) op x
  simp only [dstep, hx, hs]
  have h0 := h.plain0
  rw [hx, patch_gens0] at h0
  refine ⟨⟨⟨x, rfl⟩, ?_, h.log, h.plain, fun hgb => by rw [patch_gens0]; exact h0 hgb⟩, trivial⟩
  rw [h.loc, hx]
  simp [directCell, patch_gens0]

theorem match_direct {gb : Bool} {d : CallCfg} {s : DState} {t : State} {sol : Solo}
    (h : Match gb d s t sol) (cop : COp) :
    Match gb d (directStep gb d s cop).1 t (soloStep gb d sol cop).1 ∧
      (directStep gb d s cop).2 = (soloStep gb d sol cop).2 := by
  obtain ⟨x, hx⟩ := h.st
  unfold directStep soloStep
  rw [← h.loc]
  refine ⟨⟨?_, ?_, ?_, ?_, ?_⟩, rfl⟩
  · cases gb with
    | false => exact ⟨x, hx⟩
    | true =>
      refine ⟨(callStep true d sol.loc cop).1.cell, ?_⟩
      simp only [if_true, hx]
      show patch (patch t x) _ = _
      rw [patch_patch]
  · cases gb with
    | false =>
      simp only [directCell, Bool.false_eq_true, if_false]
      have := callStep_cell_plain d sol.loc cop
      rw [h.plain rfl] at this
      rw [← this]
    | true =>
      simp [directCell, setAt]
  · simp only [h.log]
  · intro hgb
    subst hgb
    simp only
    rw [callStep_cell_plain]; exact h.plain rfl
  · intro hgb
    subst hgb
    exact h.plain0 rfl

theorem dstep_direct (cfg : Cfg) (d : CallCfg) (s : DState) (dop : DOp) (h : dop.isDirect = true) :
    ∃ cop, directOps [dop] = [cop] ∧ callOps [dop] = [] ∧
      dstep cfg d s dop = directStep cfg.generatorBased d s cop := by
  cases dop with
  | call op => cases h
  | directSend => exact ⟨.resume, rfl, rfl, rfl⟩
  | directThrow x => exact ⟨.cancel x, rfl, rfl, rfl⟩

/-- **Product decomposition.** The machine with direct use = the `Decorator` machine on the call
    ops × the direct task alone on the direct ops. -/
theorem decompose {cfg : Cfg} {d : CallCfg} (dops : List DOp) {s : DState} {t : State} {p : PState} {sol : Solo}
    (h : Match cfg.generatorBased d s t sol) (hr : Rel cfg t p) :
    Match cfg.generatorBased d (drunFrom cfg d s dops).1 (runFrom cfg t (callOps dops)).1
        (soloRunFrom cfg.generatorBased d sol (directOps dops)).1 ∧
      callOuts dops (drunFrom cfg d s dops).2 = (runFrom cfg t (callOps dops)).2 ∧
      directOuts dops (drunFrom cfg d s dops).2 = (soloRunFrom cfg.generatorBased d sol (directOps dops)).2 := by
  induction dops generalizing s t p sol with
  | nil => exact ⟨h, rfl, rfl⟩
  | cons dop rest ih =>
    cases dop with
    | call op =>
      obtain ⟨h1, h2⟩ := match_call h hr op
      obtain ⟨i1, i2, i3⟩ := ih h1 (rel_step hr op).1
      simp only [drunFrom, callOps, directOps, runFrom, callOuts, directOuts, DOp.isDirect]
      exact ⟨i1, by simp [i2, h2], by simpa using i3⟩
    | directSend =>
      obtain ⟨h1, h2⟩ := match_direct h .resume
      obtain ⟨i1, i2, i3⟩ := ih h1 hr
      simp only [drunFrom, callOps, directOps, soloRunFrom, callOuts, directOuts, DOp.isDirect, dstep]
      exact ⟨i1, by simpa using i2, by simp [i3, h2]⟩
    | directThrow x =>
      obtain ⟨h1, h2⟩ := match_direct h (.cancel x)
      obtain ⟨i1, i2, i3⟩ := ih h1 hr
      simp only [drunFrom, callOps, directOps, soloRunFrom, callOuts, directOuts, DOp.isDirect, dstep]
      exact ⟨i1, by simpa using i2, by simp [i3, h2]⟩

theorem decompose_run (cfg : Cfg) (d : CallCfg) (dops : List DOp) :
    Match cfg.generatorBased d (drun cfg d dops).1 (run cfg (callOps dops)).1
        (soloRun cfg.generatorBased d (directOps dops)).1 ∧
      callOuts dops (drun cfg d dops).2 = (run cfg (callOps dops)).2 ∧
      directOuts dops (drun cfg d dops).2 = (soloRun cfg.generatorBased d (directOps dops)).2 :=
  decompose dops (match_init _ d) (rel_init cfg)

/-! ## the direct task alone is a paired context -/

structure SoloInv (gb : Bool) (s : Solo) : Prop where
  acc : specFrom .init s.log = some (absSt s.loc.pc)
  coh : Coh gb s.loc

theorem soloInv_init (gb : Bool) (d : CallCfg) : SoloInv gb (Solo.init d) where
  acc := rfl
  coh := fun _ => rfl

theorem soloInv_step {gb : Bool} {d : CallCfg} {s : Solo} (h : SoloInv gb s) (cop : COp) :
    SoloInv gb (soloStep gb d s cop).1 := by
  have hg := callStep_good gb d s.loc cop h.coh
  refine ⟨?_, hg.2⟩
  simp only [soloStep, specFrom_append, h.acc, Option.bind]
  exact hg.1

theorem soloInv_run {gb : Bool} {d : CallCfg} (cops : List COp) {s : Solo} (h : SoloInv gb s) :
    SoloInv gb (soloRunFrom gb d s cops).1 := by
  induction cops generalizing s with
  | nil => exact h
  | cons op rest ih => exact ih (soloInv_step h op)

theorem solo_pot {gb : Bool} {d : CallCfg} (cops : List COp) {s : Solo} (h : SoloInv gb s) :
    pot gb d (soloRunFrom gb d s cops).1.loc ≤ pot gb d s.loc - cops.length := by
  induction cops generalizing s with
  | nil => simp [soloRunFrom]
  | cons op rest ih =>
    have h1 := callStep_pot gb d s.loc op h.coh
    have h2 := ih (soloInv_step (d := d) h op)
    simp only [soloRunFrom, List.length_cons]
    have h3 : pot gb d (soloStep gb d s op).1.loc ≤ pot gb d s.loc - 1 := h1
    omega

theorem directOps_length (dops : List DOp) : (directOps dops).length = (dops.filter DOp.isDirect).length := by
  induction dops with
  | nil => rfl
  | cons dop rest ih => cases dop <;> simp [directOps, DOp.isDirect, List.filter_cons, ih]

end AsyncVerif.Decorator
