import AsyncVerif.Proofs.Faithful
/-! `Faithful` for every loop of the tool models (mechanical: closure lemmas + induction on fuel). -/
namespace AsyncVerif

syntax "faith" ("[" term,* "]")? : tactic
macro_rules
  | `(tactic| faith) => `(tactic| faith [])
  | `(tactic| faith [$hs,*]) => `(tactic| repeat' (with_reducible first
      | assumption
      | exact faithful_pure _ | exact faithful_pull _ | exact faithful_call _ _ | exact faithful_yieldV _
      | exact faithful_anext _ | exact faithful_test _ _ | exact faithful_closeSrc _ | exact faithful_closeAll _
      | exact faithful_raise _ (by simp)
      | (first $[| apply $hs]*)
      | (dsimp -proj only)
      | apply faithful_bind | apply faithful_scopedIter | apply faithful_tryCatchStop
      | apply faithful_forEach
      | intro _ | split))

theorem faithful_asArgs (x : Val) : Faithful (liftExc x.asArgs) := by
  apply faithful_liftExc
  intro e h; cases x <;> simp [Val.asArgs] at h

theorem faithful_add (a b : Val) : Faithful (liftExc (a.add b)) := by
  apply faithful_liftExc
  intro e h; unfold Val.add at h; split at h <;> simp at h

namespace Std

theorem faithful_filterLoop (fn : Option Nat) (neg : Bool) (s fuel : Nat) : Faithful (filterLoop fn neg s fuel) := by
  unfold filterLoop; faith

theorem faithful_enumerateLoop (s : Nat) (fuel : Nat) : ∀ (c : Int), Faithful (enumerateLoop s c fuel) := by
  induction fuel with
  | zero => intro c; unfold enumerateLoop; faith
  | succ fuel ih => intro c; unfold enumerateLoop; faith [ih]

theorem faithful_takewhileLoop (f s fuel : Nat) : Faithful (takewhileLoop f s fuel) := by
  unfold takewhileLoop; faith

theorem faithful_dropwhileLoop (f s : Nat) (fuel : Nat) : ∀ (b : Bool), Faithful (dropwhileLoop f s b fuel) := by
  induction fuel with
  | zero => intro b; unfold dropwhileLoop; faith
  | succ fuel ih => intro b; unfold dropwhileLoop; faith [ih]

theorem faithful_starmapLoop (f s fuel : Nat) : Faithful (starmapLoop f s fuel) := by
  unfold starmapLoop
  apply faithful_forEach
  intro x
  faith [faithful_asArgs x]

theorem faithful_accStep (fn : Option Nat) (t x : Val) : Faithful (accStep fn t x) := by
  unfold accStep
  cases fn with
  | none => exact faithful_add t x
  | some f => exact faithful_call f _

theorem faithful_accLoop (fn : Option Nat) (s : Nat) (fuel : Nat) : ∀ (t : Val), Faithful (accLoop fn s t fuel) := by
  have h2 := faithful_accStep fn
  induction fuel with
  | zero => intro t; unfold accLoop; faith
  | succ fuel ih => intro t; unfold accLoop; faith [ih, h2]

theorem faithful_accumulate (fn : Option Nat) (ini : Option Val) (s fuel : Nat) : Faithful (accumulate fn ini s fuel) := by
  unfold accumulate
  faith [faithful_accLoop fn s fuel]

theorem faithful_collect (s : Nat) (n : Nat) : ∀ (acc : List Val), Faithful (collect s n acc) := by
  induction n with
  | zero => intro acc; unfold collect; faith
  | succ n ih => intro acc; unfold collect; faith [ih]

theorem faithful_batchedLoop (n : Nat) (strict : Bool) (s : Nat) (fuel : Nat) : Faithful (batchedLoop n strict s fuel) := by
  have h2 := faithful_collect s n
  induction fuel with
  | zero => unfold batchedLoop; faith
  | succ fuel ih => unfold batchedLoop; faith [ih, h2]

theorem faithful_batched (n : Nat) (strict : Bool) (s : Nat) (fuel : Nat) : Faithful (batched n strict s fuel) := by
  unfold batched
  faith [faithful_batchedLoop n strict s fuel]

theorem faithful_pairwiseLoop (s : Nat) (fuel : Nat) : ∀ (old : Val), Faithful (pairwiseLoop s old fuel) := by
  induction fuel with
  | zero => intro old; unfold pairwiseLoop; faith
  | succ fuel ih => intro old; unfold pairwiseLoop; faith [ih]

theorem faithful_pairwise (s fuel : Nat) : Faithful (pairwise s fuel) := by
  unfold pairwise
  faith [faithful_pairwiseLoop s fuel]

theorem faithful_zipRow (l : List Nat) : ∀ (acc : List Val), Faithful (zipRow l acc) := by
  induction l with
  | nil => intro acc; unfold zipRow; faith
  | cons s rest ih => intro acc; unfold zipRow; faith [ih]

theorem faithful_zipLoop (srcs : List Nat) (k : List Val → M Unit) (hk : ∀ row, Faithful (k row)) (fuel : Nat) :
    Faithful (zipLoop srcs k fuel) := by
  have h2 := faithful_zipRow srcs
  induction fuel with
  | zero => unfold zipLoop; faith
  | succ fuel ih => unfold zipLoop; faith [ih, h2, hk]

theorem faithful_zipRowStrict (l : List Nat) : ∀ (i : Nat) (acc : List Val), Faithful (zipRowStrict l i acc) := by
  induction l with
  | nil => intro i acc; unfold zipRowStrict; faith
  | cons s rest ih => intro i acc; unfold zipRowStrict; faith [ih]

theorem faithful_checkRestEmpty (l : List Nat) : Faithful (checkRestEmpty l) := by
  induction l with
  | nil => unfold checkRestEmpty; faith
  | cons s rest ih => unfold checkRestEmpty; faith [ih]

theorem faithful_zipStrictLoop (srcs : List Nat) (fuel : Nat) : Faithful (zipStrictLoop srcs fuel) := by
  have h2 := faithful_zipRowStrict srcs
  have h3 := faithful_checkRestEmpty srcs.tail
  induction fuel with
  | zero => unfold zipStrictLoop; faith
  | succ fuel ih => unfold zipStrictLoop; faith [ih, h2, h3]

theorem faithful_longestRow (fillv : Val) (l : List (Nat × Bool)) :
    ∀ (acc : List Val) (done : List (Nat × Bool)) (na : Nat), Faithful (longestRow fillv l acc done na) := by
  induction l with
  | nil => intro acc done na; unfold longestRow; faith
  | cons p rest ih =>
    intro acc done na
    obtain ⟨s, b⟩ := p
    cases b
    · unfold longestRow; exact ih _ _ _
    · unfold longestRow; faith [ih]

theorem faithful_zipLongestLoop (fillv : Val) (fuel : Nat) : ∀ (st : List (Nat × Bool)) (na : Nat),
    Faithful (zipLongestLoop fillv st na fuel) := by
  have h2 := faithful_longestRow fillv
  induction fuel with
  | zero => intro st na; unfold zipLongestLoop; faith
  | succ fuel ih => intro st na; unfold zipLongestLoop; faith [ih, h2]

theorem faithful_iterSentinel (f : Nat) (sv : Val) (fuel : Nat) : Faithful (iterSentinel f sv fuel) := by
  induction fuel with
  | zero => unfold iterSentinel; faith
  | succ fuel ih => unfold iterSentinel; faith [ih]

theorem faithful_allLoop (s : Nat) (fuel : Nat) : Faithful (allLoop s fuel) := by
  induction fuel with
  | zero => unfold allLoop; faith
  | succ fuel ih => unfold allLoop; faith [ih]

theorem faithful_anyLoop (s : Nat) (fuel : Nat) : Faithful (anyLoop s fuel) := by
  induction fuel with
  | zero => unfold anyLoop; faith
  | succ fuel ih => unfold anyLoop; faith [ih]

theorem faithful_skipTo (s : Nat) (k : Nat) : ∀ (cnt : Nat), Faithful (skipTo s k cnt) := by
  induction k with
  | zero => intro cnt; unfold skipTo; faith
  | succ k ih => intro cnt; unfold skipTo; faith [ih]

theorem faithful_cycleFirst (s : Nat) (fuel : Nat) : ∀ (buf : List Val), Faithful (cycleFirst s buf fuel) := by
  induction fuel with
  | zero => intro buf; unfold cycleFirst; faith
  | succ fuel ih => intro buf; unfold cycleFirst; faith [ih]

theorem faithful_replay (buffer : List Val) (fuel : Nat) : ∀ (l : List Val), Faithful (replay buffer l fuel) := by
  induction fuel with
  | zero => intro l; unfold replay; faith
  | succ fuel ih =>
    intro l
    cases l with
    | nil => unfold replay; faith [ih]
    | cons x rest => unfold replay; faith [ih]

end Std

namespace Impl

theorem faithful_dropPhase (f s : Nat) (fuel : Nat) : Faithful (dropPhase f s fuel) := by
  induction fuel with
  | zero => unfold dropPhase; faith
  | succ fuel ih => unfold dropPhase; faith [ih]

theorem faithful_idxLoop (s step : Nat) (lim : Option Nat) (fuel : Nat) : ∀ (idx : Nat), Faithful (idxLoop s step lim idx fuel) := by
  induction fuel with
  | zero => intro idx; unfold idxLoop; faith
  | succ fuel ih => intro idx; unfold idxLoop; faith [ih]

theorem faithful_chainIter (l : List Nat) (fuel : Nat) : Faithful (chainIter l fuel) := by
  induction l with
  | nil => unfold chainIter; faith
  | cons s rest ih => unfold chainIter; faith [ih]

end Impl

end AsyncVerif
