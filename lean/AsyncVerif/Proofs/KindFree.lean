import AsyncVerif.Proofs.Core
/-!
# Flavour erasure (C03): the kind of an iterable argument never changes items, result or exception

`Sim w w'`: two worlds that agree on everything except the *kinds* of their sources (list, sequence,
sync iterator, async generator, class-based async iterator with `aclose`), the bookkeeping that
depends on the kind (closes, exact status) and the non-yield part of the logs.
`KindFree m`: from `Sim`-related worlds, `m` ends the same way and yields the same values; unless it
ended with a user exception the final worlds are again related.  Closed under the combinators the
tool models are built from, so every modelled tool is `KindFree` (Properties/C03.lean).
Callable flavours (def / async def / partial / callable object) have a single primitive `call` in
the model, so there is nothing to erase for them; their interchangeability in the real code is what
the correspondence checks.
-/
namespace AsyncVerif

/-- the values handed to the consumer -/
def yields : List Ev → List Val
  | [] => []
  | .yld v :: r => v :: yields r
  | _ :: r => yields r

@[simp] theorem yields_append (a b : List Ev) : yields (a ++ b) = yields a ++ yields b := by
  induction a with
  | nil => rfl
  | cons x xs ih => cases x <;> simp [yields, ih]

structure Sim (w w' : World) : Prop where
  cons : w.cons = w'.cons
  fns : w.fns = w'.fns
  calls : w.calls = w'.calls
  ylds : yields w.vis = yields w'.vis
  srcs : ∀ s, (w.srcs s).script = (w'.srcs s).script ∧ (w.srcs s).status.live = (w'.srcs s).status.live
  nc : ∀ s, (w.srcs s).kind ≠ .aobjNc ∧ (w'.srcs s).kind ≠ .aobjNc

def isUser {α : Type} : Except Exc α → Bool
  | .error (.user _) => true
  | _ => false

structure KindFree {α : Type} (m : M α) : Prop where
  run : ∀ w w', Sim w w' →
    (m w).1 = (m w').1 ∧ yields (m w).2.vis = yields (m w').2.vis ∧
    (isUser (m w).1 = false → Sim (m w).2 (m w').2)

theorem kf_pure {α : Type} (a : α) : KindFree (pure a : M α) :=
  ⟨fun w w' h => ⟨rfl, h.ylds, fun _ => h⟩⟩

theorem kf_raise {α : Type} (x : Exc) : KindFree (raise x : M α) :=
  ⟨fun w w' h => ⟨rfl, h.ylds, fun _ => h⟩⟩

theorem kf_liftExc {α : Type} (r : Except Exc α) : KindFree (liftExc r) := by
  refine ⟨fun w w' h => ?_⟩
  unfold liftExc
  cases r <;> exact ⟨rfl, h.ylds, fun _ => h⟩

theorem kf_bind {α β : Type} {m : M α} {f : α → M β} (hm : KindFree m) (hf : ∀ a, KindFree (f a)) :
    KindFree (m >>= f) := by
  refine ⟨fun w w' h => ?_⟩
  obtain ⟨hr, hy, hs⟩ := hm.run w w' h
  rcases hmw : m w with ⟨r, w1⟩
  rcases hmw' : m w' with ⟨r', w1'⟩
  rw [hmw, hmw'] at hr hy hs
  simp only at hr hy hs
  subst hr
  cases r with
  | ok a =>
    have := (hf a).run w1 w1' (hs rfl)
    simpa [bind_apply, hmw, hmw'] using this
  | error x =>
    have : (Except.error x : Except Exc β) = Except.error x ∧ yields w1.vis = yields w1'.vis ∧
        (isUser (Except.error x : Except Exc β) = false → Sim w1 w1') :=
      ⟨rfl, hy, fun hu => hs (by cases x <;> simp_all [isUser])⟩
    simpa [bind_apply, hmw, hmw'] using this

theorem kf_pull (s : Nat) : KindFree (pull s) := by
  refine ⟨fun w w' h => ?_⟩
  have hs := h.srcs s
  unfold pull
  by_cases hl : (w.srcs s).status.live
  · have hl' : (w'.srcs s).status.live = true := by rw [← hs.2]; exact hl
    simp only [hl, hl', if_true]
    rw [← hs.1]
    cases hsc : (w.srcs s).script with
    | nil =>
      refine ⟨rfl, by simp [World.pushVis, World.setSrc, yields, h.ylds], fun _ => ?_⟩
      refine ⟨h.cons, h.fns, h.calls, by simp [World.pushVis, World.setSrc, yields, h.ylds], ?_, ?_⟩
      · intro t; by_cases ht : t = s
        · subst ht; simp [World.pushVis, World.setSrc, hs.1, Status.live]
        · simp [World.pushVis, World.setSrc, ht, h.srcs t]
      · intro t; by_cases ht : t = s
        · subst ht; simpa [World.pushVis, World.setSrc] using h.nc t
        · simpa [World.pushVis, World.setSrc, ht] using h.nc t
    | cons r rest =>
      cases r with
      | item v =>
        refine ⟨rfl, by simp [World.pushVis, World.setSrc, yields, h.ylds], fun _ => ?_⟩
        refine ⟨h.cons, h.fns, h.calls, by simp [World.pushVis, World.setSrc, yields, h.ylds], ?_, ?_⟩
        · intro t; by_cases ht : t = s
          · subst ht; simp [World.pushVis, World.setSrc, Status.live]
          · simp [World.pushVis, World.setSrc, ht, h.srcs t]
        · intro t; by_cases ht : t = s
          · subst ht; simpa [World.pushVis, World.setSrc] using h.nc t
          · simpa [World.pushVis, World.setSrc, ht] using h.nc t
      | err e =>
        exact ⟨rfl, by simp [World.pushVis, World.setSrc, yields, h.ylds], fun hu => by simp [isUser] at hu⟩
  · have hl' : ¬ (w'.srcs s).status.live = true := by rw [← hs.2]; exact hl
    simp only [hl, hl', Bool.false_eq_true, if_false]
    have base : ∀ (u u' : World), u.srcs = w.srcs → u'.srcs = w'.srcs → u.cons = w.cons → u'.cons = w'.cons →
        u.fns = w.fns → u'.fns = w'.fns → u.calls = w.calls → u'.calls = w'.calls →
        yields u.vis = yields u'.vis → Sim u u' := by
      intro u u' a1 a2 a3 a4 a5 a6 a7 a8 a9
      exact ⟨by rw [a3, a4]; exact h.cons, by rw [a5, a6]; exact h.fns, by rw [a7, a8]; exact h.calls, a9,
        by rw [a1, a2]; exact h.srcs, by rw [a1, a2]; exact h.nc⟩
    by_cases hv : (w.srcs s).kind.repollVisible <;> by_cases hv' : (w'.srcs s).kind.repollVisible
    · rw [if_pos hv, if_pos hv']
      exact ⟨rfl, by simp [World.pushVis, yields, h.ylds], fun _ =>
        base _ _ rfl rfl rfl rfl rfl rfl rfl rfl (by simp [World.pushVis, yields, h.ylds])⟩
    · rw [if_pos hv, if_neg hv']
      exact ⟨rfl, by simp [World.pushVis, yields, h.ylds], fun _ =>
        base _ _ rfl rfl rfl rfl rfl rfl rfl rfl (by simp [World.pushVis, yields, h.ylds])⟩
    · rw [if_neg hv, if_pos hv']
      exact ⟨rfl, by simp [World.pushVis, yields, h.ylds], fun _ =>
        base _ _ rfl rfl rfl rfl rfl rfl rfl rfl (by simp [World.pushVis, yields, h.ylds])⟩
    · rw [if_neg hv, if_neg hv']
      exact ⟨rfl, h.ylds, fun _ => h⟩

theorem kf_call (f : Nat) (args : List Val) : KindFree (call f args) := by
  refine ⟨fun w w' h => ?_⟩
  unfold call
  dsimp only
  rw [← h.fns, ← h.calls]
  cases hc : w.fns f (w.calls f) args with
  | ok v =>
    refine ⟨rfl, by simp [World.pushVis, yields, h.ylds], fun _ => ?_⟩
    exact ⟨by simpa [World.pushVis] using h.cons, by simp [World.pushVis], by simp [World.pushVis],
      by simp [World.pushVis, yields, h.ylds], by simpa [World.pushVis] using h.srcs, by simpa [World.pushVis] using h.nc⟩
  | error e =>
    exact ⟨rfl, by simp [World.pushVis, yields, h.ylds], fun hu => by simp [isUser] at hu⟩

theorem kf_yieldV (v : Val) : KindFree (yieldV v) := by
  refine ⟨fun w w' h => ?_⟩
  unfold yieldV
  rw [← h.cons]
  cases hc : w.cons with
  | done =>
    exact ⟨rfl, by simp [World.pushVis, yields, h.ylds], fun _ =>
      ⟨by simp [World.pushVis, ← h.cons, hc], h.fns, h.calls, by simp [World.pushVis, yields, h.ylds], h.srcs, h.nc⟩⟩
  | run n fin =>
    cases n with
    | succ n =>
      exact ⟨rfl, by simp [World.pushVis, yields, h.ylds], fun _ =>
        ⟨by simp [World.pushVis], h.fns, h.calls, by simp [World.pushVis, yields, h.ylds], h.srcs, h.nc⟩⟩
    | zero =>
      cases fin with
      | exhaust =>
        exact ⟨rfl, by simp [World.pushVis, yields, h.ylds], fun _ =>
          ⟨by simp [World.pushVis, ← h.cons, hc], h.fns, h.calls, by simp [World.pushVis, yields, h.ylds], h.srcs, h.nc⟩⟩
      | close =>
        exact ⟨rfl, by simp [World.pushVis, yields, h.ylds], fun _ =>
          ⟨by simp [World.pushVis], h.fns, h.calls, by simp [World.pushVis, yields, h.ylds], h.srcs, h.nc⟩⟩
      | throw e =>
        exact ⟨rfl, by simp [World.pushVis, yields, h.ylds], fun hu => by simp [isUser] at hu⟩

/-- closing makes a source non-live whatever its kind (among kinds with a close protocol or sync) -/
theorem kf_closeSrc (s : Nat) : KindFree (closeSrc s) := by
  refine ⟨fun w w' h => ?_⟩
  have hq := closeSrc_quiet s w
  have hq' := closeSrc_quiet s w'
  refine ⟨by rw [hq.1, hq'.1], by rw [hq.2.1, hq'.2.1]; exact h.ylds, fun _ => ?_⟩
  have key : ∀ (u : World), (u.srcs s).kind ≠ .aobjNc →
      (∀ t, t ≠ s → (closeSrc s u).2.srcs t = u.srcs t) ∧
      ((closeSrc s u).2.srcs s).script = (u.srcs s).script ∧
      ((closeSrc s u).2.srcs s).kind = (u.srcs s).kind ∧
      ((closeSrc s u).2.srcs s).status.live = false ∧
      (closeSrc s u).2.fns = u.fns ∧ (closeSrc s u).2.calls = u.calls := by
    intro u hk
    unfold closeSrc
    cases hkk : (u.srcs s).kind
    · by_cases hl : (u.srcs s).status.live <;> simp_all [World.setSrc, Status.live]
      all_goals try (intro t ht; simp [ht])
    · by_cases hl : (u.srcs s).status.live <;> simp_all [World.setSrc, Status.live]
      all_goals try (intro t ht; simp [ht])
    · by_cases hl : (u.srcs s).status.live <;> simp_all [World.setSrc, Status.live]
      all_goals try (intro t ht; simp [ht])
    · cases hst : (u.srcs s).status <;> simp_all [World.setSrc, World.pushRel, Status.live]
      all_goals try (intro t ht; simp [ht])
    · simp_all [World.setSrc, World.pushRel, Status.live]
      try (intro t ht; simp [ht])
    · exact absurd hkk hk
  obtain ⟨ho, hsc, hkd, hlv, hfn, hcl⟩ := key w (h.nc s).1
  obtain ⟨ho', hsc', hkd', hlv', hfn', hcl'⟩ := key w' (h.nc s).2
  refine ⟨by rw [hq.2.2, hq'.2.2]; exact h.cons, by rw [hfn, hfn']; exact h.fns, by rw [hcl, hcl']; exact h.calls,
    by rw [hq.2.1, hq'.2.1]; exact h.ylds, ?_, ?_⟩
  · intro t
    by_cases ht : t = s
    · subst ht; exact ⟨by rw [hsc, hsc']; exact (h.srcs t).1, by rw [hlv, hlv']⟩
    · rw [ho t ht, ho' t ht]; exact h.srcs t
  · intro t
    by_cases ht : t = s
    · subst ht; rw [hkd, hkd']; exact h.nc t
    · rw [ho t ht, ho' t ht]; exact h.nc t

theorem kf_closeAll (l : List Nat) : KindFree (closeAll l) := by
  induction l with
  | nil => exact kf_pure ()
  | cons s rest ih => exact kf_bind (kf_closeSrc s) (fun _ => ih)

def isFuelOut {α : Type} : Except Exc α → Bool
  | .error .outOfFuel => true
  | _ => false

theorem tryFinally_world {α : Type} (body : M α) (fin : M Unit) (hq : Quiet fin) (w : World) :
    (tryFinally body fin w).2 =
      if isFuelOut (body w).1 then (body w).2 else (fin (body w).2).2 := by
  unfold tryFinally
  rcases hb : body w with ⟨r, w1⟩
  have q := hq w1
  rcases hf : fin w1 with ⟨a, u⟩
  rw [hf] at q
  have ha : a = .ok () := q.1
  subst ha
  cases r with
  | ok a => simp [hf, isFuelOut]
  | error x => cases x <;> simp [hf, isFuelOut]

/-- `try … finally` with cleanup that is itself kind-free and quiet (closes) -/
theorem kf_tryFinally {α : Type} {body : M α} {fin : M Unit} (hb : KindFree body) (hf : KindFree fin) (hq : Quiet fin) :
    KindFree (tryFinally body fin) := by
  refine ⟨fun w w' h => ?_⟩
  obtain ⟨hr, hy, hs⟩ := hb.run w w' h
  have t1 := tryFinally_quiet body fin hq w
  have t2 := tryFinally_quiet body fin hq w'
  refine ⟨by rw [t1.1, t2.1]; exact hr, by rw [t1.2.1, t2.2.1]; exact hy, fun hu => ?_⟩
  rw [t1.1] at hu
  have hsim := hs hu
  rw [tryFinally_world body fin hq w, tryFinally_world body fin hq w', ← hr]
  split
  · exact hsim
  · have hfin := hf.run _ _ hsim
    apply hfin.2.2
    rw [(hq _).1]; rfl

theorem kf_scopedIter {α : Type} (s : Nat) {body : M α} (hb : KindFree body) : KindFree (scopedIter s body) :=
  kf_tryFinally hb (kf_closeSrc s) (closeSrc_quiet s)

theorem kf_tryCatchStop {α : Type} {body handler : M α} (hb : KindFree body) (hh : KindFree handler) :
    KindFree (tryCatchStop body handler) := by
  refine ⟨fun w w' h => ?_⟩
  obtain ⟨hr, hy, hs⟩ := hb.run w w' h
  unfold tryCatchStop
  rcases hbw : body w with ⟨r, w1⟩
  rcases hbw' : body w' with ⟨r', w1'⟩
  rw [hbw, hbw'] at hr hy hs
  simp only at hr hy hs
  subst hr
  cases r with
  | ok a => exact ⟨rfl, hy, hs⟩
  | error x => cases x <;> first | exact ⟨rfl, hy, hs⟩ | exact hh.run w1 w1' (hs rfl)

theorem kf_forEach (s : Nat) (body : Val → M Bool) (hb : ∀ x, KindFree (body x)) :
    ∀ fuel, KindFree (forEach s body fuel)
  | 0 => kf_raise _
  | fuel+1 => by
    unfold forEach
    refine kf_bind (kf_pull s) ?_
    intro r
    cases r with
    | none => exact kf_pure _
    | some x =>
      refine kf_bind (hb x) ?_
      intro b
      cases b
      · exact kf_pure _
      · exact kf_forEach s body hb fuel

theorem kf_test (fn : Option Nat) (x : Val) : KindFree (test fn x) := by
  unfold test
  cases fn with
  | none => exact kf_pure _
  | some f => exact kf_bind (kf_call f [x]) (fun _ => kf_pure _)

theorem kf_anext (s : Nat) : KindFree (anext s) := by
  unfold anext
  refine kf_bind (kf_pull s) ?_
  intro r
  cases r with
  | none => exact kf_raise _
  | some v => exact kf_pure _

end AsyncVerif
