import AsyncVerif.Machines.AdaptersFail
/-!
# Lemmas for `Machines/AdaptersFail.lean` (C19 on the failure / early-end paths)
-/
namespace AsyncVerif.AdaptersFail
open AsyncVerif.Adapters (Val Exc Res Kind)

/-! ## cuts -/

theorem Cut.allows_mono (cut : Cut) {a b : Nat} (h : a ≤ b) (hb : cut.allows b = true) :
    cut.allows a = true := by
  cases cut with
  | none => rfl
  | some p => obtain ⟨n, c⟩ := p; simp only [Cut.allows, decide_eq_true_eq] at hb ⊢; omega

theorem Cut.after_allows (cut : Cut) (a b : Nat) (h : cut.allows (a + b) = true) :
    (cut.after a).allows b = true := by
  cases cut with
  | none => rfl
  | some p => obtain ⟨n, c⟩ := p; simp only [Cut.allows, Cut.after, decide_eq_true_eq] at h ⊢; omega

theorem Cut.after_after (cut : Cut) (a b : Nat) : (cut.after a).after b = cut.after (a + b) := by
  cases cut with
  | none => rfl
  | some p => obtain ⟨n, c⟩ := p; simp only [Cut.after]; congr 2; omega

theorem Cut.after_zero (cut : Cut) : cut.after 0 = cut := by
  cases cut with
  | none => rfl
  | some p => rfl

/-! ## one awaitable -/

theorem awaitScript_ok (a : Ev) (s : Nat → Ev) (k : Nat) (r : Res) (cut : Cut)
    (h : cut.allows k = true) :
    awaitScript a s k r cut = (a :: susps s k, ofRes r, cut.after k) := by
  cases cut with
  | none => rfl
  | some p =>
    obtain ⟨n, c⟩ := p
    simp only [Cut.allows, decide_eq_true_eq] at h
    simp only [awaitScript, Cut.after, show ¬ n < k by omega, if_false]

theorem awaitScript_cut (a : Ev) (s : Nat → Ev) (k : Nat) (r : Res) (n c : Nat) (h : n < k) :
    awaitScript a s k r (some (n, c)) = (a :: susps s (n + 1), .error (.thrown c), none) := by
  simp only [awaitScript, h, if_true]

theorem awaitArg_ok (i : Nat) (a : Arg) (v : Val) (cut : Cut) (ha : a.res = .ok v)
    (h : cut.allows a.susps = true) :
    awaitArg i a cut = (seg i a, .ok v, cut.after a.susps) := by
  cases a with
  | plain w => simp [Arg.res] at ha
  | aw k r =>
    simp only [Arg.res] at ha
    simp only [Arg.susps] at h
    simp only [awaitArg, awaitScript_ok _ _ _ _ _ h, seg, ha, ofRes, Arg.susps]

theorem resolveArg_ok (i : Nat) (a : Arg) (v : Val) (cut : Cut) (ha : a.resolved = .ok v)
    (h : cut.allows a.susps = true) :
    resolveArg i a cut = (seg i a, .ok v, cut.after a.susps) := by
  cases a with
  | plain w =>
    simp only [Arg.resolved, Res.ok.injEq] at ha
    simp only [resolveArg, seg, Arg.susps, Cut.after_zero, ha]
  | aw k r =>
    simp only [Arg.resolved] at ha
    simp only [Arg.susps] at h
    simp only [resolveArg, awaitScript_ok _ _ _ _ _ h, seg, ha, ofRes, Arg.susps]

/-- an awaitable that raises, left undisturbed -/
theorem awaitArg_raises (i k : Nat) (e : Exc) (cut : Cut) (h : cut.allows k = true) :
    awaitArg i (.aw k (.err e)) cut = (.await i :: susps (.susp i) k, .error (.raised e), cut.after k) := by
  simp only [awaitArg, awaitScript_ok _ _ _ _ _ h, ofRes]

/-- an exception thrown in at suspension `n` of an awaitable -/
theorem awaitArg_thrown (i k : Nat) (r : Res) (n c : Nat) (h : n < k) :
    awaitArg i (.aw k r) (some (n, c)) = (.await i :: susps (.susp i) (n + 1), .error (.thrown c), none) := by
  simp only [awaitArg, awaitScript_cut _ _ _ _ _ _ h]

/-! ## apply -/

/-- put the events and values of an already awaited prefix in front -/
def pre2 (evs : List Ev) (vs : List Val) (r : List Ev × Except Err (List Val) × Cut) :
    List Ev × Except Err (List Val) × Cut :=
  match r with
  | (evs', .ok ws, c) => (evs ++ evs', .ok (vs ++ ws), c)
  | (evs', .error e, c) => (evs ++ evs', .error e, c)

theorem awaitFrom_cons_ok (i : Nat) (a : Arg) (rest : List Arg) (cut cut' : Cut) (evs : List Ev)
    (v : Val) (h : awaitArg i a cut = (evs, .ok v, cut')) :
    awaitFrom i (a :: rest) cut = pre2 evs [v] (awaitFrom (i + 1) rest cut') := by
  simp only [awaitFrom, h]
  rcases awaitFrom (i + 1) rest cut' with ⟨evs', (e | ws), c⟩ <;> rfl

theorem awaitFrom_cons_err (i : Nat) (a : Arg) (rest : List Arg) (cut cut' : Cut) (evs : List Ev)
    (e : Err) (h : awaitArg i a cut = (evs, .error e, cut')) :
    awaitFrom i (a :: rest) cut = (evs, .error e, cut') := by
  simp only [awaitFrom, h]

theorem pre2_pre2 (e1 e2 : List Ev) (v1 v2 : List Val) (r) :
    pre2 e1 v1 (pre2 e2 v2 r) = pre2 (e1 ++ e2) (v1 ++ v2) r := by
  rcases r with ⟨evs', (e | ws), c⟩ <;> simp [pre2]

theorem awaitFrom_append (l1 l2 : List Arg) (i : Nat) (cut : Cut) :
    awaitFrom i (l1 ++ l2) cut =
      match awaitFrom i l1 cut with
      | (evs, .error e, c) => (evs, .error e, c)
      | (evs, .ok vs, c) => pre2 evs vs (awaitFrom (i + l1.length) l2 c) := by
  induction l1 generalizing i cut with
  | nil =>
    simp only [List.nil_append, awaitFrom, List.length_nil, Nat.add_zero]
    rcases awaitFrom i l2 cut with ⟨evs', (e | ws), c⟩ <;> simp [pre2]
  | cons a l1 ih =>
    rcases h : awaitArg i a cut with ⟨evs, (e | v), c'⟩
    · simp only [List.cons_append, awaitFrom_cons_err _ _ _ _ _ _ _ h]
    · simp only [List.cons_append, awaitFrom_cons_ok _ _ _ _ _ _ _ h, ih]
      rcases h2 : awaitFrom (i + 1) l1 c' with ⟨evs', (e | ws), c⟩
      · simp only [pre2]
      · simp only [List.length_cons]
        rw [show i + 1 + l1.length = i + (l1.length + 1) by omega]
        simp only [pre2_pre2]
        rcases h3 : awaitFrom (i + (l1.length + 1)) l2 c with ⟨evs3, (e3 | w3), c3⟩ <;> simp [pre2, h3]

/-- a prefix of arguments that all succeed within the budget is awaited completely, in order -/
theorem awaitFrom_clean (pre : List Arg) (vs : List Val) (rest : List Arg) (i : Nat) (cut : Cut)
    (hpre : pre.map Arg.res = vs.map Res.ok) (hcut : cut.allows (suspCount pre) = true) :
    awaitFrom i (pre ++ rest) cut
      = pre2 (segs i pre) vs (awaitFrom (i + pre.length) rest (cut.after (suspCount pre))) := by
  induction pre generalizing vs i cut with
  | nil =>
    cases vs with
    | cons _ _ => simp at hpre
    | nil =>
      simp only [List.nil_append, segs, List.length_nil, Nat.add_zero, suspCount, Cut.after_zero]
      rcases awaitFrom i rest cut with ⟨evs', (e | ws), c⟩ <;> simp [pre2]
  | cons a pre ih =>
    cases vs with
    | nil => simp at hpre
    | cons v vs =>
      simp only [List.map_cons, List.cons.injEq] at hpre
      simp only [suspCount] at hcut
      have h1 := awaitArg_ok i a v cut hpre.1 (Cut.allows_mono cut (Nat.le_add_right _ _) hcut)
      simp only [List.cons_append, awaitFrom_cons_ok _ _ _ _ _ _ _ h1,
        ih vs (i + 1) _ hpre.2 (Cut.after_allows cut _ _ hcut), pre2_pre2, segs, suspCount,
        Cut.after_after, List.length_cons, List.nil_append, List.cons_append]
      rw [show i + 1 + pre.length = i + (pre.length + 1) by omega]

theorem awaitFrom_stop (pre : List Arg) (vs : List Val) (bad : Arg) (post : List Arg) (i : Nat)
    (cut c' : Cut) (evs : List Ev) (err : Err)
    (hpre : pre.map Arg.res = vs.map Res.ok) (hcut : cut.allows (suspCount pre) = true)
    (hbad : awaitArg (i + pre.length) bad (cut.after (suspCount pre)) = (evs, .error err, c')) :
    awaitFrom i (pre ++ bad :: post) cut = (segs i pre ++ evs, .error err, c') := by
  rw [awaitFrom_clean pre vs _ i cut hpre hcut, awaitFrom_cons_err _ _ _ _ _ _ _ hbad]
  rfl

theorem awaitFrom_all (l : List Arg) (vs : List Val) (i : Nat) (cut : Cut)
    (hpre : l.map Arg.res = vs.map Res.ok) (hcut : cut.allows (suspCount l) = true) :
    awaitFrom i l cut = (segs i l, .ok vs, cut.after (suspCount l)) := by
  have := awaitFrom_clean l vs [] i cut hpre hcut
  simpa [awaitFrom, pre2] using this

theorem awaitFrom_ok_length (l : List Arg) (i : Nat) (cut c : Cut) (evs : List Ev) (vs : List Val)
    (h : awaitFrom i l cut = (evs, .ok vs, c)) : vs.length = l.length := by
  induction l generalizing i cut evs vs c with
  | nil => simp only [awaitFrom, Prod.mk.injEq, Except.ok.injEq] at h; simp [← h.2.1]
  | cons a l ih =>
    rcases h1 : awaitArg i a cut with ⟨evs1, (e | v), c'⟩
    · rw [awaitFrom_cons_err _ _ _ _ _ _ _ h1] at h; simp at h
    · rw [awaitFrom_cons_ok _ _ _ _ _ _ _ h1] at h
      rcases h2 : awaitFrom (i + 1) l c' with ⟨evs', (e | ws), c2⟩
      · rw [h2] at h; simp [pre2] at h
      · rw [h2] at h
        simp only [pre2, Prod.mk.injEq, Except.ok.injEq] at h
        have := ih _ _ _ _ _ h2
        simp [← h.2.1, this]

/-- `apply` fails exactly as the await of all its arguments in a row does -/
theorem apply_error (f : Fn) (args : List Arg) (kwargs : List (Nat × Arg)) (cut c : Cut)
    (evs : List Ev) (e : Err)
    (h : awaitFrom 0 (args ++ kwargs.map Prod.snd) cut = (evs, .error e, c)) :
    apply f args kwargs cut = (evs, .error e) := by
  rw [awaitFrom_append] at h
  simp only [apply]
  rcases h1 : awaitFrom 0 args cut with ⟨evs1, (e1 | vs), c1⟩
  · rw [h1] at h; simp only [Prod.mk.injEq, Except.error.injEq] at h
    simp only [← h.1, ← h.2.1]
  · rw [h1] at h
    simp only [Nat.zero_add] at h
    rcases h2 : awaitFrom args.length (kwargs.map Prod.snd) c1 with ⟨evs2, (e2 | ws), c2⟩
    · rw [h2] at h; simp only [pre2, Prod.mk.injEq, Except.error.injEq] at h
      simp only [h2, ← h.1, ← h.2.1]
    · rw [h2] at h; simp [pre2] at h

/-- if all arguments succeed, the function is called once, with the positional values and the
    keyword values under their names, and its result is the outcome -/
theorem apply_ok (f : Fn) (args : List Arg) (kwargs : List (Nat × Arg)) (cut c : Cut)
    (evs : List Ev) (ws : List Val)
    (h : awaitFrom 0 (args ++ kwargs.map Prod.snd) cut = (evs, .ok ws, c)) :
    apply f args kwargs cut
      = (evs ++ [Ev.call (ws.take args.length) ((kwargs.map Prod.fst).zip (ws.drop args.length))],
          ofRes (f.beh (ws.take args.length) ((kwargs.map Prod.fst).zip (ws.drop args.length)))) := by
  rw [awaitFrom_append] at h
  simp only [apply]
  rcases h1 : awaitFrom 0 args cut with ⟨evs1, (e1 | vs), c1⟩
  · rw [h1] at h; simp at h
  · rw [h1] at h
    simp only [Nat.zero_add] at h
    have hl := awaitFrom_ok_length _ _ _ _ _ _ h1
    rcases h2 : awaitFrom args.length (kwargs.map Prod.snd) c1 with ⟨evs2, (e2 | kvs), c2⟩
    · rw [h2] at h; simp [pre2] at h
    · rw [h2] at h; simp only [pre2, Prod.mk.injEq, Except.ok.injEq] at h
      simp only [h2, ← h.1, ← h.2.1]
      simp only [← hl, List.take_left', List.drop_left']

/-! ## generators -/

theorem run_append {σ : Type} (step : σ → Op → Step × σ) (s : σ) (o1 o2 : List Op) :
    ∃ s', run step s (o1 ++ o2) = run step s o1 ++ run step s' o2 := by
  induction o1 generalizing s with
  | nil => exact ⟨s, rfl⟩
  | cons op o1 ih =>
    obtain ⟨s', h⟩ := ih (step s op).2
    exact ⟨s', by simp only [List.cons_append, run, h]⟩

theorem each_done (lazy : Bool) (ops : List Op) :
    run (eachStep lazy) .done ops = ops.map deadStep := by
  induction ops with
  | nil => rfl
  | cons op ops ih => cases op <;> simp only [run, eachStep, eachNext, ih, List.map_cons, deadStep]

theorem any_done (ops : List Op) : run anyStep .done ops = ops.map deadStep := by
  induction ops with
  | nil => rfl
  | cons op ops ih => cases op <;> simp only [run, anyStep, anyNext, ih, List.map_cons, deadStep]

/-- `k` undisturbed requests over a prefix of succeeding awaitables: request by request -/
theorem each_items (lazy : Bool) (pre : List Arg) (vs : List Val) (post : List Arg) (i : Nat)
    (ops : List Op) (hpre : pre.map Arg.res = vs.map Res.ok) :
    run (eachStep lazy) (.live i (pre ++ post)) (List.replicate pre.length (.next none) ++ ops)
      = itemSteps lazy i pre vs ++ run (eachStep lazy) (.live (i + pre.length) post) ops := by
  induction pre generalizing vs i with
  | nil => cases vs <;> simp [itemSteps]
  | cons a pre ih =>
    cases vs with
    | nil => simp at hpre
    | cons v vs =>
      simp only [List.map_cons, List.cons.injEq] at hpre
      have h1 := awaitArg_ok i a v none hpre.1 rfl
      simp only [List.length_cons, List.replicate_succ, List.cons_append, run, eachStep, eachNext,
        h1, itemSteps, ih vs (i + 1) hpre.2]
      rw [show i + 1 + pre.length = i + (pre.length + 1) by omega]

theorem anyS_items (lazy : Bool) (pre : List Arg) (vs : List Val) (post : List Arg) (i : Nat)
    (ops : List Op) (hpre : pre.map Arg.resolved = vs.map Res.ok) :
    run anyStep (.loopS lazy i (pre ++ post)) (List.replicate pre.length (.next none) ++ ops)
      = itemSteps lazy i pre vs ++ run anyStep (.loopS lazy (i + pre.length) post) ops := by
  induction pre generalizing vs i with
  | nil => cases vs <;> simp [itemSteps]
  | cons a pre ih =>
    cases vs with
    | nil => simp at hpre
    | cons v vs =>
      simp only [List.map_cons, List.cons.injEq] at hpre
      have h1 := resolveArg_ok i a v none hpre.1 rfl
      simp only [List.length_cons, List.replicate_succ, List.cons_append, run, anyStep, anyNext,
        anyStepS, h1, itemSteps, ih vs (i + 1) hpre.2]
      rw [show i + 1 + pre.length = i + (pre.length + 1) by omega]

theorem anyA_items (pre : List Arg) (vs : List Val) (post : List Arg) (i : Nat)
    (ops : List Op) (hpre : pre.map Arg.resolved = vs.map Res.ok) :
    run anyStep (.loopA i (pre ++ post)) (List.replicate pre.length (.next none) ++ ops)
      = itemSteps true i pre vs ++ run anyStep (.loopA (i + pre.length) post) ops := by
  induction pre generalizing vs i with
  | nil => cases vs <;> simp [itemSteps]
  | cons a pre ih =>
    cases vs with
    | nil => simp at hpre
    | cons v vs =>
      simp only [List.map_cons, List.cons.injEq] at hpre
      have h1 := resolveArg_ok i a v none hpre.1 rfl
      simp only [List.length_cons, List.replicate_succ, List.cons_append, run, anyStep, anyNext,
        anyStepA, h1, itemSteps, ih vs (i + 1) hpre.2, produce, if_true, List.nil_append]
      rw [show i + 1 + pre.length = i + (pre.length + 1) by omega]

/-! ## any_iter: the first request -/

/-- the state in which `any_iter` loops over the (already available) iterable -/
def anyStart : Kind → List Arg → AnySt
  | .aiter, items => .loopA 0 items
  | .iter, items => .loopS true 0 items
  | .list, items => .loopS false 0 items

theorem any_fresh_run (o : Option Outer) (kind : Kind) (items : List Arg) (ops : List Op)
    (ho : o.bind (·.fail) = none) :
    run anyStep (.fresh o kind items) (.next none :: ops)
      = addFirst (outerSeg o) (run anyStep (anyStart kind items) (.next none :: ops)) := by
  cases o with
  | none =>
    cases kind <;> simp [run, anyStep, anyNext, anyEnter, anyStart, addFirst, outerSeg]
  | some o =>
    have hf : o.fail = none := by simpa using ho
    cases kind <;>
      simp [run, anyStep, anyNext, anyEnter, anyStart, addFirst, outerSeg, hf, awaitScript, ofRes,
        prepend]

theorem replicate_cons_comm {α : Type} (x : α) (n : Nat) (l : List α) :
    x :: (List.replicate n x ++ l) = List.replicate n x ++ x :: l := by
  induction n with
  | zero => rfl
  | succ n ih => simp only [List.replicate_succ, List.cons_append, ih]

theorem any_start_items (kind : Kind) (pre : List Arg) (vs : List Val) (post : List Arg)
    (ops : List Op) (hpre : pre.map Arg.resolved = vs.map Res.ok) :
    ∃ s, run anyStep (anyStart kind (pre ++ post)) (List.replicate pre.length (.next none) ++ ops)
      = itemSteps (kindLazy kind) 0 pre vs ++ run anyStep s ops ∧
      (s = .loopA pre.length post ∧ kind = .aiter ∨ s = .loopS (kindLazy kind) pre.length post ∧ kind ≠ .aiter) := by
  cases kind
  · exact ⟨_, by simpa [anyStart, kindLazy] using anyS_items false pre vs post 0 ops hpre, Or.inr ⟨rfl, by simp⟩⟩
  · exact ⟨_, by simpa [anyStart, kindLazy] using anyS_items true pre vs post 0 ops hpre, Or.inr ⟨rfl, by simp⟩⟩
  · exact ⟨_, by simpa [anyStart, kindLazy] using anyA_items pre vs post 0 ops hpre, Or.inl ⟨rfl, rfl⟩⟩

/-! ## sync -/

theorem syncRun_append (pre post : List (Ans × Cut)) (i : Nat) :
    syncRun i (pre ++ post) = syncRun i pre ++ syncRun (i + pre.length) post := by
  induction pre generalizing i with
  | nil => rfl
  | cons c pre ih =>
    obtain ⟨ans, cut⟩ := c
    simp only [List.cons_append, syncRun, ih, List.length_cons]
    rw [show i + 1 + pre.length = i + (pre.length + 1) by omega]

theorem syncRun_length (l : List (Ans × Cut)) (i : Nat) : (syncRun i l).length = l.length := by
  induction l generalizing i with
  | nil => rfl
  | cons c l ih => obtain ⟨ans, cut⟩ := c; simp only [syncRun, List.length_cons, ih]

end AsyncVerif.AdaptersFail
