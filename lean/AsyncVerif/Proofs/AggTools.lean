import AsyncVerif.Proofs.FaithfulTools
import AsyncVerif.Proofs.KindFreeTools
import AsyncVerif.Proofs.Release
import AsyncVerif.Impl.Aggregations
import AsyncVerif.Proofs.Select
/-! `Faithful`, `KindFree` and release facts for the aggregation and merge loops. -/
namespace AsyncVerif

theorem faithful_lt (b : Bool) (x y : Val) : Faithful (liftExc (if b then Val.lt x y else Val.lt y x)) := by
  apply faithful_liftExc
  intro e h
  split at h <;> (unfold Val.lt at h; split at h <;> simp at h)

theorem faithful_sortKeyed (r : Bool) (l : List (Val × Val)) : Faithful (liftExc (Std.sortKeyed r l)) := by
  apply faithful_liftExc
  intro e h
  unfold Std.sortKeyed at h
  split at h <;> simp at h

namespace Std

theorem faithful_keyOf (fn : Option Nat) (x : Val) : Faithful (keyOf fn x) := by
  unfold keyOf; cases fn <;> faith

theorem kf_keyOf (fn : Option Nat) (x : Val) : KindFree (keyOf fn x) := by
  unfold keyOf; cases fn <;> kfree

theorem faithful_sumLoop (s : Nat) (fuel : Nat) : ∀ t, Faithful (sumLoop s t fuel) := by
  induction fuel with
  | zero => intro t; unfold sumLoop; faith
  | succ fuel ih => intro t; unfold sumLoop; faith [ih, faithful_add]

theorem kf_sumLoop (s : Nat) (fuel : Nat) : ∀ t, KindFree (sumLoop s t fuel) := by
  induction fuel with
  | zero => intro t; unfold sumLoop; kfree
  | succ fuel ih => intro t; unfold sumLoop; kfree [ih, kf_add]

theorem faithful_mmLoop (fn : Option Nat) (isMax : Bool) (s : Nat) (fuel : Nat) : ∀ b k, Faithful (mmLoop fn isMax s b k fuel) := by
  induction fuel with
  | zero => intro b k; unfold mmLoop; faith
  | succ fuel ih => intro b k; unfold mmLoop; faith [ih, faithful_keyOf fn, faithful_lt]

theorem kf_mmLoop (fn : Option Nat) (isMax : Bool) (s : Nat) (fuel : Nat) : ∀ b k, KindFree (mmLoop fn isMax s b k fuel) := by
  induction fuel with
  | zero => intro b k; unfold mmLoop; kfree
  | succ fuel ih => intro b k; unfold mmLoop; kfree [ih, kf_keyOf fn, kf_liftExc]

theorem faithful_minmax (fn : Option Nat) (isMax : Bool) (d : Option Val) (s fuel : Nat) : Faithful (minmax fn isMax d s fuel) := by
  unfold minmax; faith [faithful_mmLoop fn isMax s fuel, faithful_keyOf fn]

theorem kf_minmax (fn : Option Nat) (isMax : Bool) (d : Option Val) (s fuel : Nat) : KindFree (minmax fn isMax d s fuel) := by
  unfold minmax; kfree [kf_mmLoop fn isMax s fuel, kf_keyOf fn]

theorem faithful_reduceLoop (f s : Nat) (fuel : Nat) : ∀ a, Faithful (reduceLoop f s a fuel) := by
  induction fuel with
  | zero => intro a; unfold reduceLoop; faith
  | succ fuel ih => intro a; unfold reduceLoop; faith [ih]

theorem kf_reduceLoop (f s : Nat) (fuel : Nat) : ∀ a, KindFree (reduceLoop f s a fuel) := by
  induction fuel with
  | zero => intro a; unfold reduceLoop; kfree
  | succ fuel ih => intro a; unfold reduceLoop; kfree [ih]

theorem faithful_reduce (f : Nat) (ini : Option Val) (s fuel : Nat) : Faithful (reduce f ini s fuel) := by
  unfold reduce; faith [faithful_reduceLoop f s fuel]

theorem kf_reduce (f : Nat) (ini : Option Val) (s fuel : Nat) : KindFree (reduce f ini s fuel) := by
  unfold reduce; kfree [kf_reduceLoop f s fuel]

theorem faithful_collectAll (s : Nat) (fuel : Nat) : ∀ acc, Faithful (collectAll s acc fuel) := by
  induction fuel with
  | zero => intro acc; unfold collectAll; faith
  | succ fuel ih => intro acc; unfold collectAll; faith [ih]

theorem kf_collectAll (s : Nat) (fuel : Nat) : ∀ acc, KindFree (collectAll s acc fuel) := by
  induction fuel with
  | zero => intro acc; unfold collectAll; kfree
  | succ fuel ih => intro acc; unfold collectAll; kfree [ih]

theorem faithful_collectKeyed (fn : Option Nat) (s : Nat) (fuel : Nat) : ∀ acc, Faithful (collectKeyed fn s acc fuel) := by
  induction fuel with
  | zero => intro acc; unfold collectKeyed; faith
  | succ fuel ih => intro acc; unfold collectKeyed; faith [ih, faithful_keyOf fn]

theorem kf_collectKeyed (fn : Option Nat) (s : Nat) (fuel : Nat) : ∀ acc, KindFree (collectKeyed fn s acc fuel) := by
  induction fuel with
  | zero => intro acc; unfold collectKeyed; kfree
  | succ fuel ih => intro acc; unfold collectKeyed; kfree [ih, kf_keyOf fn]

theorem faithful_heapifyV (c : Sel.Cfg) (first : List (Val × Val)) : Faithful (liftExc (Sel.heapifyV c first)) := by
  apply faithful_liftExc
  intro e h
  have := Sel.heapifyV_error c first _ h
  cases this

theorem faithful_acceptV (c : Sel.Cfg) (st : List Sel.VE × Int) (k x : Val) : Faithful (liftExc (Sel.acceptV c st k x)) := by
  apply faithful_liftExc
  intro e h
  have := Sel.acceptV_error c st k x _ h
  cases this

theorem faithful_nbFirst (fn : Option Nat) (s : Nat) : ∀ k acc, Faithful (nbFirst fn s k acc) := by
  intro k
  induction k with
  | zero => intro acc; unfold nbFirst; faith
  | succ k ih => intro acc; unfold nbFirst; faith [ih, faithful_keyOf fn]

theorem kf_nbFirst (fn : Option Nat) (s : Nat) : ∀ k acc, KindFree (nbFirst fn s k acc) := by
  intro k
  induction k with
  | zero => intro acc; unfold nbFirst; kfree
  | succ k ih => intro acc; unfold nbFirst; kfree [ih, kf_keyOf fn]

theorem faithful_nbScan (c : Sel.Cfg) (fn : Option Nat) (s : Nat) (fuel : Nat) : ∀ st, Faithful (nbScan c fn s st fuel) := by
  induction fuel with
  | zero => intro st; unfold nbScan; faith
  | succ fuel ih => intro st; unfold nbScan; faith [ih, faithful_keyOf fn, faithful_acceptV]

theorem kf_nbScan (c : Sel.Cfg) (fn : Option Nat) (s : Nat) (fuel : Nat) : ∀ st, KindFree (nbScan c fn s st fuel) := by
  induction fuel with
  | zero => intro st; unfold nbScan; kfree
  | succ fuel ih => intro st; unfold nbScan; kfree [ih, kf_keyOf fn, kf_liftExc]

theorem faithful_nBestAlgo (c : Sel.Cfg) (n : Nat) (fn : Option Nat) (s fuel : Nat) : Faithful (nBestAlgo c n fn s fuel) := by
  unfold nBestAlgo; faith [faithful_nbFirst fn s, faithful_nbScan c fn s fuel, faithful_heapifyV]

theorem kf_nBestAlgo (c : Sel.Cfg) (n : Nat) (fn : Option Nat) (s fuel : Nat) : KindFree (nBestAlgo c n fn s fuel) := by
  unfold nBestAlgo; kfree [kf_nbFirst fn s, kf_nbScan c fn s fuel, kf_liftExc]

theorem faithful_nBest (largest : Bool) (n : Nat) (fn : Option Nat) (s fuel : Nat) : Faithful (nBest largest n fn s fuel) :=
  faithful_nBestAlgo _ n fn s fuel

theorem kf_nBest (largest : Bool) (n : Nat) (fn : Option Nat) (s fuel : Nat) : KindFree (nBest largest n fn s fuel) :=
  kf_nBestAlgo _ n fn s fuel

theorem faithful_heads (fn : Option Nat) (srcs : List Nat) : ∀ idx acc, Faithful (heads fn srcs idx acc) := by
  induction srcs with
  | nil => intro idx acc; unfold heads; faith
  | cons s rest ih => intro idx acc; unfold heads; faith [ih, faithful_keyOf fn]

theorem kf_heads (fn : Option Nat) (srcs : List Nat) : ∀ idx acc, KindFree (heads fn srcs idx acc) := by
  induction srcs with
  | nil => intro idx acc; unfold heads; kfree
  | cons s rest ih => intro idx acc; unfold heads; kfree [ih, kf_keyOf fn]

theorem faithful_mergeLoop (fn : Option Nat) (reverse : Bool) (fuel : Nat) : ∀ heap, Faithful (mergeLoop fn reverse heap fuel) := by
  induction fuel with
  | zero => intro heap; unfold mergeLoop; faith
  | succ fuel ih =>
    intro heap
    match heap with
    | [] => unfold mergeLoop; faith
    | [e] => unfold mergeLoop; faith
    | a :: b :: rest => unfold mergeLoop; faith [ih, faithful_keyOf fn]

theorem kf_mergeLoop (fn : Option Nat) (reverse : Bool) (fuel : Nat) : ∀ heap, KindFree (mergeLoop fn reverse heap fuel) := by
  induction fuel with
  | zero => intro heap; unfold mergeLoop; kfree
  | succ fuel ih =>
    intro heap
    match heap with
    | [] => unfold mergeLoop; kfree
    | [e] => unfold mergeLoop; kfree
    | a :: b :: rest => unfold mergeLoop; kfree [ih, kf_keyOf fn]

theorem faithful_merge (fn : Option Nat) (reverse : Bool) (srcs : List Nat) (fuel : Nat) : Faithful (merge fn reverse srcs fuel) := by
  unfold merge; faith [faithful_heads fn srcs, faithful_mergeLoop fn reverse fuel]

theorem kf_merge (fn : Option Nat) (reverse : Bool) (srcs : List Nat) (fuel : Nat) : KindFree (merge fn reverse srcs fuel) := by
  unfold merge; kfree [kf_heads fn srcs, kf_mergeLoop fn reverse fuel]

end Std

end AsyncVerif
