import AsyncVerif.Machines.Adapters
/-! Helper lemmas for C19 (asynctools adapters). Property theorems live in `Properties/C19.lean`. -/
namespace AsyncVerif.Adapters

theorem resolveItem_res (it : Item) : (resolveItem it).2 = it.res := by
  cases it <;> rfl

theorem specOuts_nil (k : Nat) : specOuts [] k = List.replicate k .stop := by
  induction k with
  | zero => rfl
  | succ k ih => simp [specOuts, ih, List.replicate_succ]

/-! ## finished generators -/

theorem any_done (ops : List Op) : run anyStep .done ops = ops.map deadStep := by
  induction ops with
  | nil => rfl
  | cons op ops ih => cases op <;> simp [run, anyStep, anyNext, anyClose, deadStep, ih]

theorem each_done (ops : List Op) : run eachStep .done ops = ops.map deadStep := by
  induction ops with
  | nil => rfl
  | cons op ops ih => cases op <;> simp [run, eachStep, eachNext, deadStep, ih]

theorem map_dead_replicate (k : Nat) :
    (List.replicate k Op.next).map deadStep = List.replicate k ([], .stop) := by
  simp [deadStep]

theorem outs_dead_next (k : Nat) :
    outs ((List.replicate k Op.next).map deadStep) = specOuts [] k := by
  rw [specOuts_nil]; simp [outs, deadStep]

theorem specOps_nil (rs : List Res) : specOps rs [] = [] := by
  cases rs with
  | nil => rfl
  | cons r rs => cases r <;> rfl

theorem specOps_close (rs : List Res) (ops : List Op) :
    specOps rs (.close :: ops) = .closed :: (ops.map deadStep).map Prod.snd := by
  cases rs with
  | nil => rfl
  | cons r rs => cases r <;> rfl

/-- `k` requests: the list reading of `specOps` -/
theorem specOps_replicate (rs : List Res) (k : Nat) :
    specOps rs (List.replicate k .next) = specOuts rs k := by
  induction rs generalizing k with
  | nil =>
    cases k with
    | zero => rfl
    | succ k =>
      simp only [List.replicate_succ, specOps, specOuts]
      have := outs_dead_next k
      simp only [outs] at this
      rw [this]
  | cons r rs ih =>
    cases k with
    | zero => exact specOps_nil _
    | succ k =>
      cases r with
      | ok v => simp only [List.replicate_succ, specOps, specOuts, ih k]
      | err e =>
        simp only [List.replicate_succ, specOps, specOuts]
        have := outs_dead_next k
        simp only [outs] at this
        rw [this]

/-! ## any_iter: the two loops -/

theorem any_loopA (kind : Kind) (endToks : List Tok) (items : List (List Tok × Item)) (ops : List Op) :
    outs (run anyStep (.loopA ⟨kind, items, endToks⟩) ops)
      = specOps (items.map fun p => p.2.res) ops := by
  induction ops generalizing items with
  | nil => rw [specOps_nil]; rfl
  | cons op ops ih =>
    cases op with
    | close =>
      rw [specOps_close]
      simp only [run, anyStep, anyClose, any_done, outs, List.map_cons]
    | next =>
      cases items with
      | nil =>
        simp only [run, anyStep, anyNext, anyStepA, List.map_nil, specOps, any_done, outs,
          List.map_cons]
      | cons p rest =>
        obtain ⟨toks, it⟩ := p
        simp only [run, anyStep, anyNext, anyStepA, List.map_cons]
        rw [← resolveItem_res it]
        cases resolveItem it with
        | mk evs r =>
          cases r with
          | ok v =>
            simp only [outs, List.map_cons, specOps]
            have := ih rest
            simp only [outs] at this
            rw [this]
          | err e =>
            simp only [outs, List.map_cons, specOps, any_done]

theorem any_loopS (kind : Kind) (endToks : List Tok) (items : List (List Tok × Item)) (ops : List Op) :
    outs (run anyStep (.loopS ⟨kind, items, endToks⟩) ops)
      = specOps (items.map fun p => p.2.res) ops := by
  induction ops generalizing items with
  | nil => rw [specOps_nil]; rfl
  | cons op ops ih =>
    cases op with
    | close =>
      rw [specOps_close]
      simp only [run, anyStep, anyClose, any_done, outs, List.map_cons]
    | next =>
      cases items with
      | nil =>
        simp only [run, anyStep, anyNext, anyStepS, List.map_nil, specOps, any_done, outs,
          List.map_cons]
      | cons p rest =>
        obtain ⟨toks, it⟩ := p
        simp only [run, anyStep, anyNext, anyStepS, List.map_cons]
        rw [← resolveItem_res it]
        cases resolveItem it with
        | mk evs r =>
          cases r with
          | ok v =>
            simp only [outs, List.map_cons, specOps]
            have := ih rest
            simp only [outs] at this
            rw [this]
          | err e =>
            simp only [outs, List.map_cons, specOps, any_done]

/-- the first request on a generator that has resolved its argument: either loop -/
theorem any_enter (src : Src) (ops : List Op) :
    (anyEnter src).1.2 :: outs (run anyStep (anyEnter src).2 ops)
      = specOps (src.items.map fun p => p.2.res) (.next :: ops) := by
  obtain ⟨kind, items, endToks⟩ := src
  unfold anyEnter
  by_cases hk : kind = .aiter
  · simp only [hk, if_true]
    have := any_loopA .aiter endToks items (.next :: ops)
    simpa only [run, outs, List.map_cons, anyStep, anyNext] using this
  · simp only [hk, if_false]
    have := any_loopS kind endToks items (.next :: ops)
    simpa only [run, outs, List.map_cons, anyStep, anyNext] using this

theorem any_fresh (o : Option Outer) (src : Src) (ops : List Op) :
    outs (run anyStep (.fresh o src) ops) = specOps (anyResults o src) ops := by
  cases ops with
  | nil => rw [specOps_nil]; rfl
  | cons op ops =>
    cases op with
    | close =>
      rw [specOps_close]
      simp only [run, anyStep, anyClose, any_done, outs, List.map_cons]
    | next =>
      cases o with
      | none =>
        simp only [run, anyStep, anyNext, outs, List.map_cons, anyResults, Option.bind_none]
        have := any_enter src ops
        simpa only [outs] using this
      | some o =>
        cases hf : o.fail with
        | none =>
          simp only [run, anyStep, anyNext, hf, prepend, outs, List.map_cons, anyResults,
            Option.bind_some]
          have := any_enter src ops
          simpa only [outs] using this
        | some e =>
          simp only [run, anyStep, anyNext, hf, outs, List.map_cons, anyResults,
            Option.bind_some, specOps, any_done]

/-! ## await_each -/

theorem each_outs (kind : Kind) (hk : kind ≠ .aiter) (endToks : List Tok)
    (items : List (List Tok × Item)) (ops : List Op) :
    outs (run eachStep (.live ⟨kind, items, endToks⟩) ops)
      = specOps (eachResults ⟨kind, items, endToks⟩) ops := by
  induction ops generalizing items with
  | nil => rw [specOps_nil]; rfl
  | cons op ops ih =>
    cases op with
    | close =>
      rw [specOps_close]
      simp only [run, eachStep, each_done, outs, List.map_cons]
    | next =>
      cases items with
      | nil =>
        simp only [run, eachStep, eachNext, hk, if_false, eachResults, List.map_nil, specOps,
          each_done, outs, List.map_cons]
      | cons p rest =>
        obtain ⟨toks, it⟩ := p
        simp only [run, eachStep, eachNext, hk, if_false, eachResults, List.map_cons]
        cases hres : awaitItem it with
        | mk evs r =>
          cases r with
          | ok v =>
            simp only [outs, List.map_cons, specOps]
            have := ih rest
            simp only [outs, eachResults] at this
            rw [this]
          | err e =>
            simp only [outs, List.map_cons, specOps, each_done]

theorem tailSteps_eq (kind : Kind) (endToks : List Tok) (k : Nat) :
    run eachStep (.live ⟨kind, [], endToks⟩) (List.replicate k .next) = tailSteps kind k
      ∨ kind = .aiter := by
  by_cases hk : kind = .aiter
  · exact Or.inr hk
  · left
    cases k with
    | zero => rfl
    | succ k =>
      simp only [List.replicate_succ, run, eachStep, eachNext, hk, if_false, tailSteps]
      rw [each_done, map_dead_replicate]

/-- fault-free awaitables: request `i` awaits awaitable `i`, completely, and nothing else -/
theorem each_steps (kind : Kind) (hk : kind ≠ .aiter) (aws : List Aw)
    (hok : ∀ a ∈ aws, ∃ v, a.res = .ok v) (k : Nat) :
    run eachStep (.live (awSrc kind aws)) (List.replicate k .next)
      = (aws.map (eachSeg kind)).take k ++ tailSteps kind (k - aws.length) := by
  induction aws generalizing k with
  | nil =>
    rcases tailSteps_eq kind [] k with h | h
    · simpa [awSrc] using h
    · exact absurd h hk
  | cons a rest ih =>
    cases k with
    | zero => simp [run, tailSteps]
    | succ k =>
      obtain ⟨v, hv⟩ := hok a (by simp)
      have ih' := ih (fun b hb => hok b (by simp [hb])) k
      simp only [awSrc] at ih'
      simp only [awSrc, List.map_cons, List.replicate_succ, run, eachStep, eachNext, hk, if_false,
        awaitItem, awaitAw, hv, List.take_succ_cons, List.length_cons, Nat.add_sub_add_right,
        List.cons_append, eachSeg]
      rw [ih']

theorem start_notin_pullS (a : Nat) (k : Kind) : Ev.start a ∉ pullS k := by
  unfold pullS; split <;> simp

theorem trace_dead (l : List Op) : trace (l.map deadStep) = [] := by
  induction l with
  | nil => rfl
  | cons o l ih => cases o <;> simpa [trace, deadStep] using ih

theorem trace_cons (s : Step) (l : List Step) : trace (s :: l) = s.1 ++ trace l := rfl

theorem start_mem_awaitAw (a : Nat) (b : Aw) (h : Ev.start a ∈ (awaitAw b).1) : a = b.id := by
  simpa [awaitAw] using h

/-- whatever the consumer does, an awaitable is started only if it is among the first
    `nexts ops` elements of the source -/
theorem each_started (src : Src) (ops : List Op) (a : Nat)
    (h : Ev.start a ∈ trace (run eachStep (.live src) ops)) :
    a ∈ awIds (src.items.take (nexts ops)) := by
  obtain ⟨kind, items, endToks⟩ := src
  induction ops generalizing items with
  | nil => simp [run, trace] at h
  | cons op ops ih =>
    cases op with
    | close =>
      simp only [run, eachStep, trace_cons] at h
      rw [each_done, trace_dead] at h
      simp at h
    | next =>
      simp only [run, eachStep, trace_cons] at h
      by_cases hk : kind = .aiter
      · simp only [eachNext, hk, if_true] at h
        rw [each_done, trace_dead] at h; simp at h
      · cases items with
        | nil =>
          simp only [eachNext, hk, if_false] at h
          rw [each_done, trace_dead, List.append_nil] at h
          exact absurd h (start_notin_pullS a kind)
        | cons p rest =>
          obtain ⟨toks, it⟩ := p
          simp only [nexts, List.take_succ_cons]
          cases it with
          | plain v =>
            simp only [eachNext, hk, if_false, awaitItem] at h
            rw [each_done, trace_dead, List.append_nil, List.append_nil] at h
            exact absurd h (start_notin_pullS a kind)
          | aw b =>
            simp only [awIds, List.mem_cons]
            have hb : awaitItem (.aw b) = ((awaitAw b).1, b.res) := rfl
            cases hr : b.res with
            | ok v =>
              simp only [eachNext, hk, if_false, hb, hr] at h
              rw [List.mem_append, List.mem_append] at h
              rcases h with (h | h) | h
              · exact absurd h (start_notin_pullS a kind)
              · exact Or.inl (start_mem_awaitAw a b h)
              · exact Or.inr (ih rest h)
            | err e =>
              simp only [eachNext, hk, if_false, hb, hr] at h
              rw [each_done, trace_dead, List.append_nil, List.mem_append] at h
              rcases h with h | h
              · exact absurd h (start_notin_pullS a kind)
              · exact Or.inl (start_mem_awaitAw a b h)

/-! ## apply -/

theorem awaitAll_ok (items : List Item) (vs : List Val)
    (h : items.map (fun it => (awaitItem it).2) = vs.map Res.ok) :
    awaitAll items = ((items.map fun it => (awaitItem it).1).flatten, .ok vs) := by
  induction items generalizing vs with
  | nil => cases vs with
    | nil => rfl
    | cons v vs => simp at h
  | cons it rest ih =>
    cases vs with
    | nil => simp at h
    | cons v vs =>
      simp only [List.map_cons, List.cons.injEq] at h
      obtain ⟨h1, h2⟩ := h
      cases hit : awaitItem it with
      | mk evs r =>
        rw [hit] at h1; simp only at h1; subst h1
        simp only [awaitAll, hit, ih vs h2, List.map_cons, List.flatten_cons]

theorem awaitAll_fail (pre : List Item) (vs : List Val) (bad : Item) (post : List Item) (e : Exc)
    (h : pre.map (fun it => (awaitItem it).2) = vs.map Res.ok) (hb : (awaitItem bad).2 = .err e) :
    awaitAll (pre ++ bad :: post)
      = ((pre.map fun it => (awaitItem it).1).flatten ++ (awaitItem bad).1, .error e) := by
  induction pre generalizing vs with
  | nil =>
    cases hbad : awaitItem bad with
    | mk evs r =>
      rw [hbad] at hb; simp only at hb; subst hb
      simp [awaitAll, hbad]
  | cons it rest ih =>
    cases vs with
    | nil => simp at h
    | cons v vs =>
      simp only [List.map_cons, List.cons.injEq] at h
      obtain ⟨h1, h2⟩ := h
      cases hit : awaitItem it with
      | mk evs r =>
        rw [hit] at h1; simp only at h1; subst h1
        simp only [List.cons_append, awaitAll, hit, ih vs h2, List.map_cons, List.flatten_cons,
          List.append_assoc]

theorem awaitKw_ok (kws : List (Nat × Item)) (vs : List Val)
    (h : kws.map (fun p => (awaitItem p.2).2) = vs.map Res.ok) :
    awaitKw kws = ((kws.map fun p => (awaitItem p.2).1).flatten, .ok ((kws.map Prod.fst).zip vs)) := by
  induction kws generalizing vs with
  | nil => cases vs with
    | nil => rfl
    | cons v vs => simp at h
  | cons p rest ih =>
    obtain ⟨key, it⟩ := p
    cases vs with
    | nil => simp at h
    | cons v vs =>
      simp only [List.map_cons, List.cons.injEq] at h
      obtain ⟨h1, h2⟩ := h
      cases hit : awaitItem it with
      | mk evs r =>
        rw [hit] at h1; simp only at h1; subst h1
        simp only [awaitKw, hit, ih vs h2, List.map_cons, List.flatten_cons, List.zip_cons_cons]

theorem awaitKw_fail (pre : List (Nat × Item)) (vs : List Val) (bad : Nat × Item)
    (post : List (Nat × Item)) (e : Exc)
    (h : pre.map (fun p => (awaitItem p.2).2) = vs.map Res.ok) (hb : (awaitItem bad.2).2 = .err e) :
    awaitKw (pre ++ bad :: post)
      = ((pre.map fun p => (awaitItem p.2).1).flatten ++ (awaitItem bad.2).1, .error e) := by
  obtain ⟨bk, bit⟩ := bad
  induction pre generalizing vs with
  | nil =>
    cases hbad : awaitItem bit with
    | mk evs r =>
      simp only at hb
      rw [hbad] at hb; simp only at hb; subst hb
      simp [awaitKw, hbad]
  | cons p rest ih =>
    obtain ⟨key, it⟩ := p
    cases vs with
    | nil => simp at h
    | cons v vs =>
      simp only [List.map_cons, List.cons.injEq] at h
      obtain ⟨h1, h2⟩ := h
      cases hit : awaitItem it with
      | mk evs r =>
        rw [hit] at h1; simp only at h1; subst h1
        simp only [List.cons_append, awaitKw, hit, ih vs h2, List.map_cons, List.flatten_cons,
          List.append_assoc]

end AsyncVerif.Adapters
