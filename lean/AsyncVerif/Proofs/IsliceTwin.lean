import AsyncVerif.Proofs.Core
/-!
# `islice`: asyncstdlib's skip-then-indexed-loop against CPython's `cnt/next` state machine

The two loops have different shapes and burn fuel at different rates (asyncstdlib's model: one unit per
pulled item; CPython's model: one unit per yielded item), so they are compared *up to fuel*: whenever
neither run hits the model's fuel bound, the two runs perform the same primitive operations in the same
order and end in the **same world** with the same outcome.

Proof: a per-pull view of both loops (`idxLoop_succ`, `isliceLoop_skip`, `isliceLoop_at`), then an
induction on asyncstdlib's fuel with CPython's fuel universally quantified, under the invariant
`cnt = start + idx`, `next = min (start + t) stop` where `t` is the least multiple of `step` that is `≥ idx`.
The second half shows that the fuel hypothesis is satisfiable in every world: `script.length + 1` is enough.
-/
namespace AsyncVerif.IsliceTwin

open AsyncVerif

/-! ## arithmetic -/

/-- two multiples of `step` that are less than `step` apart are equal -/
theorem mult_close {a b step : Nat} (ha : a % step = 0) (hb : b % step = 0) (h1 : a ≤ b)
    (h2 : b < a + step) : a = b := by
  have hd : step ∣ b - a := Nat.dvd_sub (Nat.dvd_of_mod_eq_zero hb) (Nat.dvd_of_mod_eq_zero ha)
  have := Nat.eq_zero_of_dvd_of_lt hd (by omega)
  omega

/-- CPython's `next += step; if (next > stop) next = stop` -/
def cap (stop : Option Nat) (n : Nat) : Nat :=
  match stop with
  | some st => if n > st then st else n
  | none => n

/-- the `stop` test of both loops -/
def atStop (stop : Option Nat) (cnt : Nat) : Bool :=
  match stop with
  | some st => decide (st ≤ cnt)
  | none => false

/-! ## per-pull view of the loops -/

theorem ite_M {α : Type} (c : Prop) [Decidable c] (a b : M α) (w : World) :
    (if c then a else b) w = if c then a w else b w := by split <;> rfl

theorem idxLoop_succ (s step : Nat) (lim : Option Nat) (idx fa : Nat) (w : World) :
    Impl.idxLoop s step lim idx (fa + 1) w =
      match pull s w with
      | (.ok none, w1) => (.ok (), w1)
      | (.ok (some x), w1) =>
        (match (if idx % step = 0 then yieldV x w1 else (.ok (), w1)) with
         | (.ok _, w2) => if atStop lim idx then (.ok (), w2) else Impl.idxLoop s step lim (idx + 1) fa w2
         | (.error e, w2) => (.error e, w2))
      | (.error e, w1) => (.error e, w1) := by
  simp only [Impl.idxLoop, bind_apply, atStop]
  rcases hp : pull s w with ⟨r, w1⟩
  cases r with
  | error e => rfl
  | ok o =>
    cases o with
    | none => rfl
    | some x =>
      simp only
      by_cases hit : idx % step = 0
      · simp only [hit, beq_self_eq_true, if_true, bind_apply]
        rcases hy : yieldV x w1 with ⟨r2, w2⟩
        cases r2 with
        | error e => rfl
        | ok u => simp only [ite_M, pure_apply]; cases lim <;> rfl
      · have hb : (idx % step == 0) = false := by simpa using hit
        simp only [hit, hb, if_false, Bool.false_eq_true, pure_apply, bind_apply, ite_M]
        cases lim <;> rfl

/-- CPython's loop while it is still skipping: one pull, same fuel -/
theorem isliceLoop_skip (s : Nat) (stop : Option Nat) (step cnt next fb : Nat) (w : World) (h : cnt < next) :
    Std.isliceLoop s stop step cnt next (fb + 1) w =
      match pull s w with
      | (.ok none, w1) => (.ok (), w1)
      | (.ok (some _), w1) => Std.isliceLoop s stop step (cnt + 1) next (fb + 1) w1
      | (.error e, w1) => (.error e, w1) := by
  obtain ⟨k, hk⟩ : ∃ k, next - cnt = k + 1 := ⟨next - cnt - 1, by omega⟩
  have hk' : next - (cnt + 1) = k := by omega
  simp only [Std.isliceLoop, hk, hk', Std.skipTo, bind_apply]
  rcases hp : pull s w with ⟨r, w1⟩
  cases r with
  | error e => rfl
  | ok o =>
    cases o with
    | none => rfl
    | some x => rfl

/-- CPython's loop when the next item is the one to return: stop test, one pull, one yield, one unit of fuel -/
theorem isliceLoop_at (s : Nat) (stop : Option Nat) (step cnt fb : Nat) (w : World) :
    Std.isliceLoop s stop step cnt cnt (fb + 1) w =
      if atStop stop cnt then (.ok (), w) else
      match pull s w with
      | (.ok none, w1) => (.ok (), w1)
      | (.ok (some x), w1) =>
        (match yieldV x w1 with
         | (.ok _, w2) => Std.isliceLoop s stop step (cnt + 1) (cap stop (cnt + step)) fb w2
         | (.error e, w2) => (.error e, w2))
      | (.error e, w1) => (.error e, w1) := by
  have key : ∀ b : Bool, b = atStop stop cnt →
      (if b = true then (pure () : M Unit) w else
        (do match ← pull s with
            | none => pure ()
            | some x => do
              yieldV x
              Std.isliceLoop s stop step (cnt + 1) (cap stop (cnt + step)) fb : M Unit) w) =
      if atStop stop cnt then (.ok (), w) else
      match pull s w with
      | (.ok none, w1) => (.ok (), w1)
      | (.ok (some x), w1) =>
        (match yieldV x w1 with
         | (.ok _, w2) => Std.isliceLoop s stop step (cnt + 1) (cap stop (cnt + step)) fb w2
         | (.error e, w2) => (.error e, w2))
      | (.error e, w1) => (.error e, w1) := by
    intro b hb
    subst hb
    by_cases hst : atStop stop cnt = true
    · simp only [hst, if_true, pure_apply]
    · simp only [hst, bind_apply]
      rcases hp : pull s w with ⟨r, w1⟩
      cases r with
      | error e => rfl
      | ok o =>
        cases o with
        | none => rfl
        | some x =>
          simp only [bind_apply]
          rcases hy : yieldV x w1 with ⟨r2, w2⟩
          cases r2 with
          | error e => rfl
          | ok u => rfl
  rw [← key _ rfl]
  simp only [Std.isliceLoop, Nat.sub_self, Std.skipTo, bind_apply, pure_apply,
    Bool.not_true, Bool.false_eq_true, ite_M]
  cases stop <;> rfl

/-! ## the two loops agree -/

/-- the limit asyncstdlib's loop is started with -/
def limOf (start : Nat) (stop : Option Nat) : Option Nat := stop.map (fun st => st - start - 1)

theorem isliceLoop_zero (s : Nat) (stop : Option Nat) (step cnt next : Nat) (w : World) :
    Std.isliceLoop s stop step cnt next 0 w = (.error .outOfFuel, w) := by
  simp only [Std.isliceLoop]; rfl

theorem idxLoop_zero (s step : Nat) (lim : Option Nat) (idx : Nat) (w : World) :
    Impl.idxLoop s step lim idx 0 w = (.error .outOfFuel, w) := by
  simp only [Impl.idxLoop]; rfl

/-- CPython's loop once `cnt` reached `stop`: returns without touching anything -/
theorem isliceLoop_done (s : Nat) (st step fb : Nat) (w : World)
    (h : (Std.isliceLoop s (some st) step st st fb w).1 ≠ .error .outOfFuel) :
    Std.isliceLoop s (some st) step st st fb w = (.ok (), w) := by
  cases fb with
  | zero => rw [isliceLoop_zero] at h; exact absurd rfl h
  | succ fb => rw [isliceLoop_at]; simp [atStop]

/-- Invariant: asyncstdlib is at relative index `idx`, CPython at `cnt = start + idx` with
    `next = min (start + t) stop`, `t` the least multiple of `step` that is `≥ idx`, and `cnt < stop`.
    Whenever neither side runs out of fuel the two runs coincide (outcome **and** final world). -/
theorem loops_agree (s start : Nat) (stop : Option Nat) (step : Nat) :
    ∀ (fa idx t fb : Nat) (w : World),
      t % step = 0 → idx ≤ t → t < idx + step →
      (∀ st, stop = some st → start + idx < st) →
      (Impl.idxLoop s step (limOf start stop) idx fa w).1 ≠ .error .outOfFuel →
      (Std.isliceLoop s stop step (start + idx) (cap stop (start + t)) fb w).1 ≠ .error .outOfFuel →
      Impl.idxLoop s step (limOf start stop) idx fa w =
        Std.isliceLoop s stop step (start + idx) (cap stop (start + t)) fb w := by
  intro fa
  induction fa with
  | zero => intro idx t fb w _ _ _ _ h1 _; rw [idxLoop_zero] at h1; exact absurd rfl h1
  | succ fa ih =>
    intro idx t fb w ht hle hlt hst h1 h2
    cases fb with
    | zero => rw [isliceLoop_zero] at h2; exact absurd rfl h2
    | succ fb =>
      by_cases hit : idx % step = 0
      · -- the item at `idx` is returned
        have hti : idx = t := mult_close hit ht hle hlt
        subst hti
        have hcap : cap stop (start + idx) = start + idx := by
          cases stop with
          | none => rfl
          | some st => have := hst st rfl; simp only [cap]; rw [if_neg (by omega)]
        have hns : atStop stop (start + idx) = false := by
          cases stop with
          | none => rfl
          | some st => have := hst st rfl; simp only [atStop]; exact decide_eq_false (by omega)
        rw [hcap] at h2 ⊢
        rw [idxLoop_succ] at h1 ⊢
        rw [isliceLoop_at] at h2 ⊢
        simp only [hns, Bool.false_eq_true, if_false, hit, if_true] at h1 h2 ⊢
        rcases hp : pull s w with ⟨r, w1⟩
        rw [hp] at h1 h2
        cases r with
        | error e => rfl
        | ok o =>
          cases o with
          | none => rfl
          | some x =>
            simp only at h1 h2 ⊢
            rcases hy : yieldV x w1 with ⟨r2, w2⟩
            rw [hy] at h1 h2
            cases r2 with
            | error e => rfl
            | ok u =>
              simp only at h1 h2 ⊢
              by_cases hlast : atStop (limOf start stop) idx = true
              · -- last index: asyncstdlib returns, CPython's next round sees `cnt = stop`
                cases stop with
                | none => simp [limOf, atStop] at hlast
                | some st =>
                  have := hst st rfl
                  have hl : st - start - 1 ≤ idx := by simpa [limOf, atStop] using hlast
                  have e1 : start + idx + 1 = st := by omega
                  have e2 : cap (some st) (start + idx + step) = st := by
                    simp only [cap]; split <;> omega
                  rw [e1, e2] at h2 ⊢
                  rw [isliceLoop_done s st step fb w2 h2]
                  simp only [hlast, if_true]
              · simp only [hlast] at h1 ⊢
                have hst' : ∀ st, stop = some st → start + (idx + 1) < st := by
                  intro st hs
                  subst hs
                  have := hst st rfl
                  have : ¬ st - start - 1 ≤ idx := by simpa [limOf, atStop] using hlast
                  omega
                have := ih (idx + 1) (idx + step) fb w2 (by rw [Nat.add_mod_right]; exact hit) (by omega) (by omega)
                  hst' h1 (by rw [show start + (idx + step) = start + idx + step by omega]; exact h2)
                rw [this, show start + (idx + step) = start + idx + step by omega]
                rfl
      · -- the item at `idx` is skipped
        have hne : idx ≠ t := fun h => hit (h ▸ ht)
        have hcl : start + idx < cap stop (start + t) := by
          cases stop with
          | none => simp only [cap]; omega
          | some st => have := hst st rfl; simp only [cap]; split <;> omega
        rw [idxLoop_succ] at h1 ⊢
        rw [isliceLoop_skip _ _ _ _ _ _ _ hcl] at h2 ⊢
        simp only [hit, if_false] at h1 ⊢
        rcases hp : pull s w with ⟨r, w1⟩
        rw [hp] at h1 h2
        cases r with
        | error e => rfl
        | ok o =>
          cases o with
          | none => rfl
          | some x =>
            simp only at h1 h2 ⊢
            by_cases hlast : atStop (limOf start stop) idx = true
            · cases stop with
              | none => simp [limOf, atStop] at hlast
              | some st =>
                have := hst st rfl
                have hl : st - start - 1 ≤ idx := by simpa [limOf, atStop] using hlast
                have e1 : start + idx + 1 = st := by omega
                have e2 : cap (some st) (start + t) = st := by
                  simp only [cap] at hcl ⊢; split <;> omega
                rw [e1, e2] at h2 ⊢
                rw [isliceLoop_done s st step (fb + 1) w1 h2]
                simp only [hlast, if_true]
            · simp only [hlast] at h1 ⊢
              have hst' : ∀ st, stop = some st → start + (idx + 1) < st := by
                intro st hs
                subst hs
                have := hst st rfl
                have : ¬ st - start - 1 ≤ idx := by simpa [limOf, atStop] using hlast
                omega
              exact ih (idx + 1) t (fb + 1) w1 ht (by omega) (by omega) hst' h1 h2

/-! ## the skip phase and the whole tool -/

/-- what asyncstdlib's `islice` does once the first `start` items are consumed -/
def afterSkip (s start : Nat) (stop : Option Nat) (step fuel : Nat) : M Unit :=
  match stop with
  | none => Impl.idxLoop s step none 0 fuel
  | some st => if st ≤ start then pure () else Impl.idxLoop s step (some (st - start - 1)) 0 fuel

/-- asyncstdlib's `islice` body with `k` items still to skip -/
def skipPhase (s start : Nat) (stop : Option Nat) (step fuel : Nat) (k c : Nat) : M Unit := fun w =>
  match Std.skipTo s k c w with
  | (.ok r, w1) => if r.2 then afterSkip s start stop step fuel w1 else (.ok (), w1)
  | (.error e, w1) => (.error e, w1)

/-- the body of `Impl.islice` (inside the scope) -/
def implBody (s start : Nat) (stop : Option Nat) (step fuel : Nat) : M Unit := do
  let ok ← if start > 0 then (do let r ← Std.skipTo s start 0; pure r.2) else pure true
  if !ok then pure ()
  else match stop with
    | none => Impl.idxLoop s step none 0 fuel
    | some st => if st ≤ start then pure () else Impl.idxLoop s step (some (st - start - 1)) 0 fuel

theorem islice_eq_scoped (s start : Nat) (stop : Option Nat) (step fuel : Nat) :
    Impl.islice s start stop step fuel = scopedIter s (implBody s start stop step fuel) := rfl

theorem implBody_eq (s start : Nat) (stop : Option Nat) (step fuel : Nat) (w : World) :
    implBody s start stop step fuel w = skipPhase s start stop step fuel start 0 w := by
  unfold implBody skipPhase
  by_cases h0 : start > 0
  · simp only [h0, if_true, bind_apply, pure_apply]
    rcases hsk : Std.skipTo s start 0 w with ⟨r, w1⟩
    cases r with
    | error e => rfl
    | ok p =>
      obtain ⟨c, ok⟩ := p
      cases ok
      · rfl
      · simp only [Bool.not_true, Bool.false_eq_true, if_false, if_true, afterSkip]
  · have : start = 0 := by omega
    subst this
    simp only [Nat.lt_irrefl, if_false, bind_apply, pure_apply, Std.skipTo, Bool.not_true,
      Bool.false_eq_true, if_true, afterSkip]

theorem afterSkip_agree (s start : Nat) (stop : Option Nat) (step : Nat) (hstep : 1 ≤ step)
    (fa fb : Nat) (w : World)
    (h1 : (afterSkip s start stop step fa w).1 ≠ .error .outOfFuel)
    (h2 : (Std.isliceLoop s stop step start start fb w).1 ≠ .error .outOfFuel) :
    afterSkip s start stop step fa w = Std.isliceLoop s stop step start start fb w := by
  cases stop with
  | none =>
    exact loops_agree s start none step fa 0 0 fb w (Nat.zero_mod _) (Nat.le_refl _) (by omega)
      (fun st h => by cases h) h1 h2
  | some st =>
    by_cases hle : st ≤ start
    · cases fb with
      | zero => rw [isliceLoop_zero] at h2; exact absurd rfl h2
      | succ fb =>
        rw [isliceLoop_at]
        simp [afterSkip, hle, atStop, pure_apply]
    · have hc : cap (some st) (start + 0) = start := by simp only [cap]; split <;> omega
      have := loops_agree s start (some st) step fa 0 0 fb w (Nat.zero_mod _) (Nat.le_refl _) (by omega)
        (fun st' h => by cases h; omega)
      rw [hc] at this
      simp only [afterSkip, hle, if_false] at h1 ⊢
      exact this h1 h2

theorem skipPhase_agree (s start : Nat) (stop : Option Nat) (step : Nat) (hstep : 1 ≤ step) (fa : Nat) :
    ∀ (k c fb : Nat) (w : World), c + k = start →
      (skipPhase s start stop step fa k c w).1 ≠ .error .outOfFuel →
      (Std.isliceLoop s stop step c start fb w).1 ≠ .error .outOfFuel →
      skipPhase s start stop step fa k c w = Std.isliceLoop s stop step c start fb w := by
  intro k
  induction k with
  | zero =>
    intro c fb w hc h1 h2
    have : c = start := by omega
    subst this
    simp only [skipPhase, Std.skipTo, pure_apply, if_true] at h1 ⊢
    exact afterSkip_agree s c stop step hstep fa fb w h1 h2
  | succ k ih =>
    intro c fb w hc h1 h2
    cases fb with
    | zero => rw [isliceLoop_zero] at h2; exact absurd rfl h2
    | succ fb =>
      rw [isliceLoop_skip _ _ _ _ _ _ _ (by omega)] at h2 ⊢
      simp only [skipPhase, Std.skipTo, bind_apply] at h1 ⊢
      rcases hp : pull s w with ⟨r, w1⟩
      rw [hp] at h1 h2
      cases r with
      | error e => rfl
      | ok o =>
        cases o with
        | none => rfl
        | some x =>
          simp only at h1 h2 ⊢
          exact ih (c + 1) (fb + 1) w1 (by omega) h1 h2

/-- the scope of `Impl.islice` is invisible (outcome, visible log) -/
theorem islice_scoped (s start : Nat) (stop : Option Nat) (step fuel : Nat) (w : World) :
    (Impl.islice s start stop step fuel w).1 = (skipPhase s start stop step fuel start 0 w).1 ∧
    (Impl.islice s start stop step fuel w).2.vis = (skipPhase s start stop step fuel start 0 w).2.vis := by
  rw [islice_eq_scoped, ← implBody_eq]
  exact scopedIter_twin s _ w

/-- `islice` twin up to fuel -/
theorem islice_twin (s start : Nat) (stop : Option Nat) (step : Nat) (hstep : 1 ≤ step) (f1 f2 : Nat) (w : World)
    (h1 : (Impl.islice s start stop step f1 w).1 ≠ .error .outOfFuel)
    (h2 : (Std.islice s start stop step f2 w).1 ≠ .error .outOfFuel) :
    (Impl.islice s start stop step f1 w).1 = (Std.islice s start stop step f2 w).1 ∧
    (Impl.islice s start stop step f1 w).2.vis = (Std.islice s start stop step f2 w).2.vis := by
  obtain ⟨e1, e2⟩ := islice_scoped s start stop step f1 w
  rw [e1] at h1
  rw [e1, e2]
  have := skipPhase_agree s start stop step hstep f1 start 0 f2 w (by omega) h1 h2
  unfold Std.islice
  rw [this]
  exact ⟨rfl, rfl⟩

/-! ## fuel adequacy: `script.length + 1` units are enough in every world -/

/-- remaining script length of source `s` -/
def len (s : Nat) (w : World) : Nat := (w.srcs s).script.length

theorem pull_len_le (s : Nat) (w : World) : len s (pull s w).2 ≤ len s w := by
  unfold pull len
  by_cases hl : (w.srcs s).status.live = true
  · simp only [hl, if_true]
    cases hs : (w.srcs s).script with
    | nil => simp [World.pushVis, World.setSrc]
    | cons r rest => cases r <;> simp [World.pushVis, World.setSrc]
  · simp only [hl, Bool.false_eq_true, if_false]
    split <;> simp [World.pushVis]

theorem pull_some_len {s : Nat} {w w1 : World} {x : Val} (h : pull s w = (.ok (some x), w1)) :
    len s w1 + 1 = len s w := by
  unfold pull at h
  unfold len
  by_cases hl : (w.srcs s).status.live = true
  · simp only [hl, if_true] at h
    cases hs : (w.srcs s).script with
    | nil => rw [hs] at h; simp at h
    | cons r rest =>
      rw [hs] at h
      cases r with
      | err e => simp at h
      | item v =>
        simp only [Prod.mk.injEq] at h
        rw [← h.2]
        simp [World.pushVis, World.setSrc]
  · simp only [hl, Bool.false_eq_true, if_false] at h
    split at h <;> simp at h

theorem pull_not_oof (s : Nat) (w : World) : (pull s w).1 ≠ .error .outOfFuel := by
  unfold pull
  by_cases hl : (w.srcs s).status.live = true
  · simp only [hl, if_true]
    cases hs : (w.srcs s).script with
    | nil => simp
    | cons r rest => cases r <;> simp
  · simp only [hl, Bool.false_eq_true, if_false]
    split <;> simp

theorem yieldV_srcs (v : Val) (w : World) : (yieldV v w).2.srcs = w.srcs := by
  unfold yieldV
  cases h : w.cons with
  | done => simp [World.pushVis]
  | run n fin =>
    cases n with
    | succ n => simp [World.pushVis]
    | zero => cases fin <;> simp [World.pushVis]

theorem yieldV_len (s : Nat) (v : Val) (w : World) : len s (yieldV v w).2 = len s w := by
  unfold len; rw [yieldV_srcs]

theorem yieldV_not_oof (v : Val) (w : World) : (yieldV v w).1 ≠ .error .outOfFuel := by
  unfold yieldV
  cases h : w.cons with
  | done => simp
  | run n fin =>
    cases n with
    | succ n => simp
    | zero => cases fin <;> simp

theorem skipTo_len_le (s : Nat) : ∀ (k c : Nat) (w : World), len s (Std.skipTo s k c w).2 ≤ len s w := by
  intro k
  induction k with
  | zero => intro c w; exact Nat.le_refl _
  | succ k ih =>
    intro c w
    simp only [Std.skipTo, bind_apply]
    have hle := pull_len_le s w
    rcases hp : pull s w with ⟨r, w1⟩
    rw [hp] at hle
    cases r with
    | error e => exact hle
    | ok o =>
      cases o with
      | none => exact hle
      | some x => exact Nat.le_trans (ih (c + 1) w1) hle

theorem skipTo_not_oof (s : Nat) : ∀ (k c : Nat) (w : World), (Std.skipTo s k c w).1 ≠ .error .outOfFuel := by
  intro k
  induction k with
  | zero => intro c w; simp [Std.skipTo, pure_apply]
  | succ k ih =>
    intro c w
    simp only [Std.skipTo, bind_apply]
    have hno := pull_not_oof s w
    rcases hp : pull s w with ⟨r, w1⟩
    rw [hp] at hno
    cases r with
    | error e => simpa using hno
    | ok o =>
      cases o with
      | none => simp [pure_apply]
      | some x => exact ih (c + 1) w1

/-- asyncstdlib's indexed loop: one unit of fuel per pulled item, and one for noticing the end -/
theorem idxLoop_adequate (s step : Nat) (lim : Option Nat) :
    ∀ (fa idx : Nat) (w : World), len s w + 1 ≤ fa →
      (Impl.idxLoop s step lim idx fa w).1 ≠ .error .outOfFuel := by
  intro fa
  induction fa with
  | zero => intro idx w h; omega
  | succ fa ih =>
    intro idx w h
    rw [idxLoop_succ]
    have hno := pull_not_oof s w
    rcases hp : pull s w with ⟨r, w1⟩
    rw [hp] at hno
    cases r with
    | error e => simpa using hno
    | ok o =>
      cases o with
      | none => simp
      | some x =>
        have hl := pull_some_len hp
        simp only
        by_cases hit : idx % step = 0
        · simp only [hit, if_true]
          have hyo := yieldV_not_oof x w1
          have hyl := yieldV_len s x w1
          rcases hy : yieldV x w1 with ⟨r2, w2⟩
          rw [hy] at hyo hyl
          cases r2 with
          | error e => simpa using hyo
          | ok u =>
            simp only
            split
            · simp
            · exact ih (idx + 1) w2 (by simp only at hyl; omega)
        · simp only [hit, if_false]
          split
          · simp
          · exact ih (idx + 1) w1 (by omega)

/-- CPython's loop: one unit of fuel per yielded item, and one for noticing the end -/
theorem isliceLoop_adequate (s : Nat) (stop : Option Nat) (step : Nat) :
    ∀ (fb cnt next : Nat) (w : World), len s w + 1 ≤ fb →
      (Std.isliceLoop s stop step cnt next fb w).1 ≠ .error .outOfFuel := by
  intro fb
  induction fb with
  | zero => intro cnt next w h; omega
  | succ fb ih =>
    intro cnt next w h
    simp only [Std.isliceLoop, bind_apply]
    have hso := skipTo_not_oof s (next - cnt) cnt w
    have hsl := skipTo_len_le s (next - cnt) cnt w
    rcases hsk : Std.skipTo s (next - cnt) cnt w with ⟨r, w1⟩
    rw [hsk] at hso hsl
    cases r with
    | error e => simpa using hso
    | ok p =>
      obtain ⟨c, ok⟩ := p
      cases ok
      · simp [pure_apply]
      · have key : ∀ (b : Bool) (nx : Nat),
            ((if b = true then (pure () : M Unit) else
              (do match ← pull s with
                  | none => pure ()
                  | some x => do
                    yieldV x
                    Std.isliceLoop s stop step (c + 1) nx fb : M Unit)) w1).1 ≠ .error .outOfFuel := by
          intro b nx
          cases b
          · simp only [Bool.false_eq_true, if_false, bind_apply]
            have hno := pull_not_oof s w1
            rcases hp : pull s w1 with ⟨r2, w2⟩
            rw [hp] at hno
            cases r2 with
            | error e => simpa using hno
            | ok o =>
              cases o with
              | none => simp [pure_apply]
              | some x =>
                have hl := pull_some_len hp
                simp only [bind_apply]
                have hyo := yieldV_not_oof x w2
                have hyl := yieldV_len s x w2
                rcases hy : yieldV x w2 with ⟨r3, w3⟩
                rw [hy] at hyo hyl
                cases r3 with
                | error e => simpa using hyo
                | ok u =>
                  simp only at hsl hyl ⊢
                  exact ih _ _ w3 (by omega)
          · simp [pure_apply]
        simp only [Bool.not_true, Bool.false_eq_true, if_false]
        exact key _ _

theorem afterSkip_adequate (s start : Nat) (stop : Option Nat) (step f : Nat) (w : World)
    (h : len s w + 1 ≤ f) : (afterSkip s start stop step f w).1 ≠ .error .outOfFuel := by
  unfold afterSkip
  cases stop with
  | none => exact idxLoop_adequate s step none f 0 w h
  | some st =>
    simp only [ite_M]
    split
    · simp [pure_apply]
    · exact idxLoop_adequate s step _ f 0 w h

theorem islice_impl_adequate (s start : Nat) (stop : Option Nat) (step f : Nat) (w : World)
    (h : len s w + 1 ≤ f) : (Impl.islice s start stop step f w).1 ≠ .error .outOfFuel := by
  rw [(islice_scoped s start stop step f w).1]
  unfold skipPhase
  have hso := skipTo_not_oof s start 0 w
  have hsl := skipTo_len_le s start 0 w
  rcases hsk : Std.skipTo s start 0 w with ⟨r, w1⟩
  rw [hsk] at hso hsl
  cases r with
  | error e => simpa using hso
  | ok p =>
    simp only at hsl ⊢
    split
    · exact afterSkip_adequate s start stop step f w1 (by omega)
    · simp

theorem islice_std_adequate (s start : Nat) (stop : Option Nat) (step f : Nat) (w : World)
    (h : len s w + 1 ≤ f) : (Std.islice s start stop step f w).1 ≠ .error .outOfFuel :=
  isliceLoop_adequate s stop step f 0 start w h

end AsyncVerif.IsliceTwin
